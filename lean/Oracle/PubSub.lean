import Oracle.Proto
import MV.Model.PubSub
import MV.Spec.PubSub
/-!
Oracle suites `pubsub` (the model `MV.Model.PubSub`: every op line is a sequence of `Sys.step`s
followed by draining the subscription actor's and the actors' mailboxes — the quiescence the harness
waits for) and `pubsub-spec` (the abstract set of current subscriptions `MV.Spec.PubSub.Abs`) over the
same op lines:

    spawn <a> [<t> | T.<t> | D.<t> ...] | sub <a> <t> | unsub <a> <id> | pub <a|sys> <t> <p> | pube … | restart <a> | term <a> | termg <a>

References: `sys` (the guard) = ⟨0,0⟩, the harness' helper = ⟨0,1⟩ (it holds subscription 1 on the
private topic 1000), `a<n>` = ⟨0,10+n⟩. Topics `t<n>` = n, `-` = 0 (the empty string).
-/
namespace Oracle.PubSub
open MV.Model.PubSub MV.Spec.PubSub

def guardRef (node : Nat) : Ref := { node := node, id := 0 }
def helperRef (node : Nat) : Ref := { node := node, id := 1 }
def syncTopic : Topic := 1000

def digits (s : String) : Option Nat :=
  if s.isEmpty || s.length > 9 || !s.all Char.isDigit then none else s.toNat?

def parseActor (node : Nat) (s : String) : Option Ref :=
  if s.startsWith "a" then (digits (s.drop 1).toString).map (fun n => { node := node, id := 10 + n }) else none

def parseTopic (s : String) : Option Topic :=
  if s == "-" then some 0
  else if s.startsWith "t" then digits (s.drop 1).toString else none

def refName (r : Ref) : String :=
  let base := if r.id == 0 then "sys" else if r.id == 1 then "helper" else if r.id ≥ 10 then "a" ++ toString (r.id - 10)
    else "?" ++ toString r.id
  if r.node == 0 then base else base ++ "@" ++ toString r.node

def senderName : Option Ref → String
  | none => "nil"
  | some r => refName r

def insertStr (x : String) : List String → List String
  | [] => [x]
  | y :: ys => if x ≤ y then x :: y :: ys else y :: insertStr x ys

def sortStrs (l : List String) : List String := l.foldr insertStr []

def insertRef (x : Ref) : List Ref → List Ref
  | [] => [x]
  | y :: ys => if refName x ≤ refName y then x :: y :: ys else y :: insertRef x ys

def fmtIds (l : List Nat) : String := "[" ++ " ".intercalate (l.map toString) ++ "]"

def fmtHandled (l : List (Nat × Delivery)) : String :=
  "[" ++ " ".intercalate (l.map (fun e => toString e.1 ++ "." ++ toString e.2.payload ++ "<" ++ senderName e.2.sender)) ++ "]"

def fmtDead (l : List (Ref × Delivery)) : String :=
  "dead:[" ++ " ".intercalate (sortStrs (l.map (fun e => toString e.2.payload ++ ">" ++ refName e.1 ++ "<" ++ senderName e.2.sender))) ++ "]"

def joinOut (res : String) (parts : List String) : String :=
  " ".intercalate (res :: parts.filter (· ≠ ""))

/-! ## model suite -/

structure MState where
  node : Nat
  sys : Sys
  /-- spawned scripted actors, sorted by name -/
  names : List Ref
  /-- topics every incarnation subscribes in OnLaunch -/
  autos : List (Ref × List Topic)
  /-- topics subscribed in the OnTerminate handler followed by those subscribed in the handler of
      the actor's own OnTerminated (that is the order in which `tryRestarted` / `onTerminate` +
      `tryTerminated` run the two handlers, both before the release loop) -/
  hooks : List (Ref × List Topic)
  /-- every subscription handle issued to a scripted actor -/
  handles : List Subscription

/-- `<t>` (OnLaunch), `T.<t>` (OnTerminate handler), `D.<t>` (OnTerminated handler) -/
inductive SpawnTok where
  | auto (t : Topic)
  | hookT (t : Topic)
  | hookD (t : Topic)

def parseSpawnTok (s : String) : Option SpawnTok :=
  if s.startsWith "T." then (parseTopic (s.drop 2).toString).map .hookT
  else if s.startsWith "D." then (parseTopic (s.drop 2).toString).map .hookD
  else (parseTopic s).map .auto

def spawnTopic : SpawnTok → Topic
  | .auto t => t
  | .hookT t => t
  | .hookD t => t

def autosIn (l : List SpawnTok) : List Topic := l.filterMap (fun x => match x with | .auto t => some t | _ => none)
def hooksIn (l : List SpawnTok) : List Topic :=
  l.filterMap (fun x => match x with | .hookT t => some t | _ => none) ++
  l.filterMap (fun x => match x with | .hookD t => some t | _ => none)

def fuel : Nat := 100000

/-- every listed actor handles everything in its mailbox -/
def settleActors (s : Sys) (names : List Ref) : Sys :=
  names.foldl (fun s r => s.drainActor r fuel) s

/-- blocking `ctx.Subscribe(t)` by `r` in a quiet system: the call, then the subscription actor's turn -/
def subscribeNow (s : Sys) (r : Ref) (t : Topic) : Sys × Option Subscription :=
  let s := (s.step (.subscribeCall r t)).drainSA fuel
  (s, (s.actors r).held.getLast?)

def initM (node : Nat) : MState :=
  let s := (Sys.init node).step (.spawn (guardRef node)) |>.step (.spawn (helperRef node))
  let s := (subscribeNow s (helperRef node) syncTopic).1
  { node := node, sys := s, names := [], autos := [], hooks := [], handles := [] }

/-- what the listed actors handled beyond what `before` had recorded -/
def observeActors (before : Sys) (after : Sys) (names : List Ref) : List String :=
  names.map (fun r =>
    let old := (before.actors r).handled.length
    let new := ((after.actors r).handled.drop old)
    if new.isEmpty then "" else refName r ++ ":" ++ fmtHandled new)

def newDead (before after : Sys) : List (Ref × Delivery) := after.dead.drop before.dead.length

/-- OnLaunch of an incarnation: subscribe the auto topics in order -/
def autoSubscribe (s : Sys) (r : Ref) (ts : List Topic) : Sys × List Subscription :=
  ts.foldl (fun acc t =>
    let (s', sub) := subscribeNow acc.1 r t
    (s', acc.2 ++ sub.toList)) (s, [])

def autosOf (st : MState) (r : Ref) : List Topic := (st.autos.lookup r).getD []

def hooksOf (st : MState) (r : Ref) : List Topic := (st.hooks.lookup r).getD []

/-- `onRestart` … `tryRestarted`: the old incarnation's OnTerminate / OnTerminated handlers (their
    Subscribe calls), then the release of everything recorded, then the new incarnation's OnLaunch -/
def restartM (st : MState) (r : Ref) (res : String) : MState × String :=
  let (s, hsubs) := autoSubscribe st.sys r (hooksOf st r)
  let s := (s.step (.restart r)).drainSA fuel
  let (s, subs) := autoSubscribe s r (autosOf st r)
  ({ st with sys := s, handles := st.handles ++ hsubs ++ subs }, res ++ " " ++ fmtIds ((hsubs ++ subs).map (·.id)))

/-- `onTerminate` … `tryTerminated`: the two handlers, then the release, then unregistered -/
def terminateM (st : MState) (r : Ref) : MState × String :=
  let (s, hsubs) := autoSubscribe st.sys r (hooksOf st r)
  let s := (s.step (.terminate r)).drainSA fuel
  ({ st with sys := s, handles := st.handles ++ hsubs }, "ok " ++ fmtIds (hsubs.map (·.id)))

def statusOf (st : MState) (r : Ref) : Status := (st.sys.actors r).status

def actM (st : MState) (a : Act) (res : String) : MState × String :=
  ({ st with sys := (st.sys.step a).drainSA fuel }, res)

/-- one op line up to and including the subscription actor's turns (the actors' mailboxes are
    drained by the suite afterwards); the result token(s) of the line -/
def opM (st : MState) (toks : List String) : MState × String :=
  match toks with
  | "spawn" :: a :: ts =>
    match parseActor st.node a, ts.mapM parseSpawnTok with
    | some r, some stoks =>
      if stoks.any (fun x => spawnTopic x == 0) then (st, "bad-op")
      else if statusOf st r != .absent then (st, "exists")
      else
        let s := st.sys.step (.spawn r)
        let (s, subs) := autoSubscribe s r (autosIn stoks)
        ({ st with sys := s, names := insertRef r st.names, handles := st.handles ++ subs,
                   autos := (r, autosIn stoks) :: st.autos, hooks := (r, hooksIn stoks) :: st.hooks },
          "ok " ++ fmtIds (subs.map (·.id)))
    | _, _ => (st, "bad-op")
  | ["sub", a, t] =>
    match parseActor st.node a, parseTopic t with
    | some r, some topic =>
      match statusOf st r with
      | .absent => (st, "none")
      | .terminated => (st, "dead")
      | .alive =>
        if topic == 0 then restartM { st with sys := st.sys.step (.subscribeCall r topic) } r "panic"
        else
          let (s, sub) := subscribeNow st.sys r topic
          match sub with
          | some sub => ({ st with sys := s, handles := st.handles ++ [sub] }, toString sub.id)
          | none => (st, "bad-op")
    | _, _ => (st, "bad-op")
  | ["unsub", a, i] =>
    match parseActor st.node a, digits i with
    | some r, some id =>
      match statusOf st r with
      | .absent => (st, "none")
      | .terminated => (st, "dead")
      | .alive =>
        match st.handles.find? (fun h => h.id == id) with
        | none => (st, "noid")
        | some h => actM st (.unsubscribe r h) "ok"
    | _, _ => (st, "bad-op")
  | [op, a, t, p] =>
    if op != "pub" && op != "pube" then (st, "bad-op") else
    match parseTopic t, digits p with
    | some topic, some pid =>
      let payload : Payload := { id := pid, enc := op == "pube" }
      if a == "sys" then actM st (.publish (guardRef st.node) topic payload) "ok"
      else match parseActor st.node a with
        | none => (st, "bad-op")
        | some r =>
          match statusOf st r with
          | .absent => (st, "none")
          | .terminated => (st, "dead")
          | .alive => actM st (.publish r topic payload) "ok"
    | _, _ => (st, "bad-op")
  | ["restart", a] =>
    match parseActor st.node a with
    | none => (st, "bad-op")
    | some r =>
      match statusOf st r with
      | .absent => (st, "none")
      | .terminated => (st, "dead")
      | .alive => restartM st r "ok"
  | [op, a] =>
    if op != "term" && op != "termg" then (st, "bad-op") else
    match parseActor st.node a with
    | none => (st, "bad-op")
    | some r =>
      match statusOf st r with
      | .absent => (st, "none")
      | .terminated => (st, "dead")
      | .alive => terminateM st r
  | _ => (st, "bad-op")

def isQuiet (res : String) : Bool :=
  res == "bad-op" || res == "none" || res == "dead" || res == "noid" || res == "exists"

/-- single system: op, then quiescence, then the observation -/
def stepM (st : MState) (toks : List String) : MState × String :=
  let (st', res) := opM st toks
  if isQuiet res then (st, res) else
  let s := settleActors st'.sys st'.names
  let dead := newDead st.sys s
  ({ st' with sys := s }, joinOut res (observeActors st.sys s st'.names ++ [if dead.isEmpty then "" else fmtDead dead]))

def model : Suite where
  σ := MState
  init := initM 0
  step := stepM

/-! ## two linked systems -/

structure NState where
  n1 : MState
  n2 : MState
  linked : Bool
  /-- how many entries of each node's `link` output have been carried over -/
  sent1 : Nat
  sent2 : Nat

def initN : NState := { n1 := initM 1, n2 := initM 2, linked := false, sent1 := 0, sent2 := 0 }

/-- the link carries everything that is pending in one direction (`Net.step .xfer…` until nothing is
    left), then the receiving subscription actor handles its mailbox -/
def flush12 (n : Net) : Nat → Net
  | 0 => n
  | f + 1 => if n.sent1 < n.n1.link.length then flush12 (n.step .xfer12) f else n

def flush21 (n : Net) : Nat → Net
  | 0 => n
  | f + 1 => if n.sent2 < n.n2.link.length then flush21 (n.step .xfer21) f else n

def drain1 (n : Net) : Nat → Net
  | 0 => n
  | f + 1 => if n.n1.saQ.isEmpty then n else drain1 (n.step (.at1 .saStep)) f

def drain2 (n : Net) : Nat → Net
  | 0 => n
  | f + 1 => if n.n2.saQ.isEmpty then n else drain2 (n.step (.at2 .saStep)) f

def exchange (st : NState) : NState :=
  let n : Net := { n1 := st.n1.sys, n2 := st.n2.sys, sent1 := st.sent1, sent2 := st.sent2 }
  let n := drain2 (flush12 n fuel) fuel
  let n := drain1 (flush21 n fuel) fuel
  let n := drain2 (flush12 n fuel) fuel
  { st with n1 := { st.n1 with sys := n.n1 }, n2 := { st.n2 with sys := n.n2 }, sent1 := n.sent1, sent2 := n.sent2 }

def finishN (before : NState) (st : NState) (res : String) : NState × String :=
  let st := exchange st
  let s1 := settleActors st.n1.sys st.n1.names
  let s2 := settleActors st.n2.sys st.n2.names
  let dead := newDead before.n1.sys s1 ++ newDead before.n2.sys s2
  ({ st with n1 := { st.n1 with sys := s1 }, n2 := { st.n2 with sys := s2 } },
   joinOut res (observeActors before.n1.sys s1 st.n1.names ++ observeActors before.n2.sys s2 st.n2.names ++
     [if dead.isEmpty then "" else fmtDead dead]))

def stepN (st : NState) (toks : List String) : NState × String :=
  match toks with
  | ["link"] =>
    if st.linked then (st, "linked") else
    -- the share-opened hooks of both nodes: FutureAsk(subscription, statusChanged{Address: peer})
    let s1 := (st.n1.sys.step (.inject { sender := some (guardRef 1), msg := .statusChanged 2 false })).drainSA fuel
    let s2 := (st.n2.sys.step (.inject { sender := some (guardRef 2), msg := .statusChanged 1 false })).drainSA fuel
    finishN st { st with n1 := { st.n1 with sys := s1 }, n2 := { st.n2 with sys := s2 }, linked := true } "ok"
  | [n, op, m] =>
    -- the contact provider of node n reports that node m joined / left: a status change at n's subscription actor
    if (n == "1" || n == "2") && (op == "announce" || op == "leave") then
      if m != "1" && m != "2" then (st, "bad-op") else
      let node := if n == "1" then 1 else 2
      let peer := if m == "1" then 1 else 2
      if peer != node && !st.linked then (st, "unlinked") else
      let inj : Act := .inject { sender := some (guardRef node), msg := .statusChanged peer (op == "leave") }
      if node == 1 then finishN st { st with n1 := { st.n1 with sys := (st.n1.sys.step inj).drainSA fuel } } "ok"
      else finishN st { st with n2 := { st.n2 with sys := (st.n2.sys.step inj).drainSA fuel } } "ok"
    else if n == "1" then
      let (n1, res) := opM st.n1 [op, m]
      if isQuiet res then (st, res) else finishN st { st with n1 := n1 } res
    else if n == "2" then
      let (n2, res) := opM st.n2 [op, m]
      if isQuiet res then (st, res) else finishN st { st with n2 := n2 } res
    else (st, "bad-op")
  | "1" :: rest =>
    if rest.isEmpty then (st, "bad-op") else
    let (n1, res) := opM st.n1 rest
    if isQuiet res then (st, res) else finishN st { st with n1 := n1 } res
  | "2" :: rest =>
    if rest.isEmpty then (st, "bad-op") else
    let (n2, res) := opM st.n2 rest
    if isQuiet res then (st, res) else finishN st { st with n2 := n2 } res
  | _ => (st, "bad-op")

def remote : Suite where
  σ := NState
  init := initN
  step := stepN

/-! ## spec suite: the set of current subscriptions, nothing else -/

structure SActor where
  ref : Ref
  alive : Bool
  inc : Nat
  autos : List Topic
  hooks : List Topic

structure SState where
  abs : Abs
  actors : List SActor
  handles : List Subscription

def initS : SState :=
  { abs := Abs.init.apply (.subscribeRequest syncTopic (helperRef 0)), actors := [], handles := [] }

def SState.find (st : SState) (r : Ref) : Option SActor := st.actors.find? (fun a => a.ref == r)

def insActor (x : SActor) : List SActor → List SActor
  | [] => [x]
  | y :: ys => if refName x.ref ≤ refName y.ref then x :: y :: ys else y :: insActor x ys

def SState.setActor (st : SState) (a : SActor) : SState :=
  { st with actors := insActor a (st.actors.filter (fun x => x.ref != a.ref)) }

/-- a publication: one delivery per current subscription of the topic; a subscriber that is gone ⇒ dead letter -/
def publishS (st : SState) (sender : Ref) (t : Topic) (p : Nat) : List String :=
  let effs := st.abs.expected t (some sender) p
  let per := st.actors.map (fun a =>
    let ds := deliveriesTo a.ref effs
    if !a.alive || ds.isEmpty then "" else refName a.ref ++ ":" ++ fmtHandled (ds.map (fun d => (a.inc, d))))
  let dead := effs.filterMap (fun e => match e with
    | .deliver to s p => match st.find to with
      | some a => if a.alive then none else some (to, ({ sender := s, payload := p } : Delivery))
      | none => if to == helperRef 0 then none else some (to, { sender := s, payload := p })
    | _ => none)
  per ++ [if dead.isEmpty then "" else fmtDead dead]

def subscribeS (st : SState) (r : Ref) (t : Topic) : SState × Subscription :=
  let abs := st.abs.apply (.subscribeRequest t r)
  let sub : Subscription := { topic := t, id := abs.count, subscriber := r }
  ({ st with abs := abs, handles := st.handles ++ [sub] }, sub)

def autoS (st : SState) (r : Ref) (ts : List Topic) : SState × List Nat :=
  ts.foldl (fun acc t => let (s, sub) := subscribeS acc.1 r t; (s, acc.2 ++ [sub.id])) (st, [])

/-- release on restart / termination: every current subscription of `r` is cancelled -/
def releaseS (st : SState) (r : Ref) : SState :=
  { st with abs := { st.abs with live := st.abs.live.filter (fun s => s.subscriber != r) } }

/-- whatever the dying incarnation subscribes in its last handlers is cancelled with the rest -/
def restartS (st : SState) (a : SActor) (res : String) : SState × String :=
  let (st, hids) := autoS st a.ref a.hooks
  let st := releaseS st a.ref
  let st := st.setActor { a with inc := a.inc + 1 }
  let (st, ids) := autoS st a.ref a.autos
  (st, res ++ " " ++ fmtIds (hids ++ ids))

def withActor (st : SState) (r : Ref) (k : SActor → SState × String) : SState × String :=
  match st.find r with
  | none => (st, "none")
  | some a => if a.alive then k a else (st, "dead")

def stepS (st : SState) (toks : List String) : SState × String :=
  match toks with
  | "spawn" :: a :: ts =>
    match parseActor 0 a, ts.mapM parseSpawnTok with
    | some r, some stoks =>
      if stoks.any (fun x => spawnTopic x == 0) then (st, "bad-op")
      else if (st.find r).isSome then (st, "exists")
      else
        let st := st.setActor { ref := r, alive := true, inc := 1, autos := autosIn stoks, hooks := hooksIn stoks }
        let (st, ids) := autoS st r (autosIn stoks)
        (st, "ok " ++ fmtIds ids)
    | _, _ => (st, "bad-op")
  | ["sub", a, t] =>
    match parseActor 0 a, parseTopic t with
    | some r, some topic => withActor st r (fun act =>
        if topic == 0 then restartS st act "panic"
        else let (st, sub) := subscribeS st r topic; (st, toString sub.id))
    | _, _ => (st, "bad-op")
  | ["unsub", a, i] =>
    match parseActor 0 a, digits i with
    | some r, some id =>
      withActor st r (fun _ =>
        match st.handles.find? (fun h => h.id == id) with
        | none => (st, "noid")
        | some h => ({ st with abs := st.abs.apply (.unsubscribeRequest h.topic h.id) }, "ok"))
    | _, _ => (st, "bad-op")
  | [op, a, t, p] =>
    if op != "pub" && op != "pube" then (st, "bad-op") else
    match parseTopic t, digits p with
    | some topic, some pid =>
      if a == "sys" then (st, joinOut "ok" (publishS st (guardRef 0) topic pid))
      else match parseActor 0 a with
        | none => (st, "bad-op")
        | some r => withActor st r (fun _ => (st, joinOut "ok" (publishS st r topic pid)))
    | _, _ => (st, "bad-op")
  | ["restart", a] =>
    match parseActor 0 a with
    | none => (st, "bad-op")
    | some r => withActor st r (fun act => restartS st act "ok")
  | [op, a] =>
    if op != "term" && op != "termg" then (st, "bad-op") else
    match parseActor 0 a with
    | none => (st, "bad-op")
    | some r => withActor st r (fun act =>
        let (st, hids) := autoS st r act.hooks
        ((releaseS st r).setActor { act with alive := false }, "ok " ++ fmtIds hids))
  | _ => (st, "bad-op")

def spec : Suite where
  σ := SState
  init := initS
  step := stepS

end Oracle.PubSub
