import Oracle.C15
def main (args : List String) : IO UInt32 := Oracle.mainWith Oracle.C15.suites args
