import Oracle.Proto
import MV.Model.Registry
import MV.Spec.Registry
import MV.Model.RegistryFacts
/-!
Oracle suites for the process registry (T-sched): the model executes the same schedule as the
instrumented Go code, one scheduling quantum (= one shared-memory operation) per `run` line; the
judge applies the linearizability checker of `MV.Spec.Registry` to the history the implementation
recorded.
-/
namespace Oracle.Registry
open MV.Model MV.Model.Conc MV.Model.Registry MV.Spec.Registry

structure OSt where
  s : State := Registry.init
  addrs : List Nat := []        -- addresses mentioned so far (sorted, for printing)
  refs : List Ref := []         -- reference objects mentioned so far (sorted)

def insSorted (l : List Nat) (a : Nat) : List Nat :=
  if l.contains a then l else (l.filter (· < a)) ++ [a] ++ (l.filter (· > a))

def refLt (x y : Ref) : Bool := x.addr < y.addr || (x.addr == y.addr && x.id < y.id)

def insRef (l : List Ref) (r : Ref) : List Ref :=
  if l.contains r then l else (l.filter (refLt · r)) ++ [r] ++ (l.filter (refLt r ·))

def fmtProc : Option Nat → String
  | none => "-"
  | some p => s!"p{p}"

def fmtRes : Res → String
  | .regOk p => s!"ok:p{p}"
  | .regExist => "exist"
  | .unit => "unit"
  | .proc none => "sub"
  | .proc (some p) => s!"p{p}"

def fmtShared (o : OSt) : String :=
  let g := o.s.g
  let m := o.addrs.map (fun a => s!"{a}:{fmtProc (g.map a)}")
  let t := ((List.range g.nextProc).filter (fun p => g.term p)).map (fun p => s!"p{p}")
  let c := o.refs.map (fun r => s!"{r.addr}.{r.id}:{fmtProc (g.cache r)}")
  s!"map=[{" ".intercalate m}] term=[{" ".intercalate t}] cache=[{" ".intercalate c}]"

def fmtHistEv : TrEv → Option String
  | .call k (.reg a) => some s!"c{k}:reg:{a}"
  | .call k (.unreg a) => some s!"c{k}:unreg:{a}"
  | .call k (.get a) => some s!"c{k}:get:{a}"
  | .ret k r => some s!"r{k}:{fmtRes r}"
  | .lin _ _ => none

def fmtHist (tr : List TrEv) : String := "[" ++ " ".intercalate (tr.filterMap fmtHistEv) ++ "]"

def retOf (evs : List TrEv) : String :=
  match evs.filterMap (fun e => match e with | .ret _ r => some (fmtRes r) | _ => none) with
  | r :: _ => r
  | [] => "-"

/-- spawn: the thread is created and performs its ghost `call` step (the goroutine has called the
function and parks in front of its first shared-memory operation) -/
def spawn (o : OSt) (pc : PC) : OSt × String :=
  let k := o.s.ths.length
  let s1 : State := { o.s with ths := o.s.ths ++ [pc] }
  match step sys s1 k with
  | none => (o, "bad-op")
  | some s2 => ({ o with s := s2 }, s!"t{k}@{siteName ((s2.ths[k]?).getD .done)}")

def runLine (o : OSt) (i : Nat) : OSt × String :=
  match o.s.ths[i]? with
  | none => (o, "skip")
  | some _ =>
    match step sys o.s i with
    | none => (o, "skip")
    | some s' =>
      let evs := s'.g.tr.drop o.s.g.tr.length
      let o' := { o with s := s' }
      (o', s!"t{i}@{siteName ((s'.ths[i]?).getD .done)} ret={retOf evs} {fmtShared o'}")

def drain (s : State) : Nat → State
  | 0 => s
  | fuel + 1 =>
    match (List.range s.ths.length).find? (fun i => (s.ths[i]?).getD .done != .done) with
    | none => s
    | some i => match step sys s i with
      | some s' => drain s' fuel
      | none => s

def model : Suite where
  σ := OSt
  init := {}
  step o toks := match toks with
    | ["registry"] => ({}, "ok")
    | ["spawn", "reg", a] => match a.toNat? with
        | some a => spawn { o with addrs := insSorted o.addrs a } (.rCall a)
        | none => (o, "bad-op")
    | ["spawn", "reg", a, r] => match a.toNat?, r.toNat? with
        -- registering through a reference object that lookups also use: `Register` never touches the
        -- reference's cache, so the step is the same as `reg a`; the reference is listed in the cache line
        | some a, some r => spawn { o with addrs := insSorted o.addrs a, refs := insRef o.refs ⟨a, r⟩ } (.rCall a)
        | _, _ => (o, "bad-op")
    | ["spawn", "unreg", a] => match a.toNat? with
        | some a => spawn { o with addrs := insSorted o.addrs a } (.uCall a)
        | none => (o, "bad-op")
    | ["spawn", "get", a, r] => match a.toNat?, r.toNat? with
        | some a, some r =>
          spawn { o with addrs := insSorted o.addrs a, refs := insRef o.refs ⟨a, r⟩ } (.gCall ⟨a, r⟩)
        | _, _ => (o, "bad-op")
    | ["getnil"] => (o, "sub")
    | ["run", k] => match k.toNat? with
        | some i => runLine o i
        | none => (o, "bad-op")
    | ["drain"] =>
        let s' := drain o.s 3000
        let o' := { o with s := s' }
        (o', s!"hist={fmtHist s'.g.tr} {fmtShared o'}")
    | _ => (o, "bad-op")

/-! ## judge -/

def parseProc (s : String) : Option (Option Nat) :=
  if s == "sub" then some none
  else if s.startsWith "p" then (s.drop 1).toString.toNat?.map some
  else none

inductive HEv where
  | call (k : Nat) (op : Op)
  | ret (k : Nat) (r : Res)

def parseHEv (t : String) : Option HEv :=
  match t.splitOn ":" with
  | [h, "reg", a] => if h.startsWith "c" then
      (match (h.drop 1).toString.toNat?, a.toNat? with
       | some k, some a => some (.call k (.reg a)) | _, _ => none) else none
  | [h, "unreg", a] => if h.startsWith "c" then
      (match (h.drop 1).toString.toNat?, a.toNat? with
       | some k, some a => some (.call k (.unreg a)) | _, _ => none) else none
  | [h, "get", a] => if h.startsWith "c" then
      (match (h.drop 1).toString.toNat?, a.toNat? with
       | some k, some a => some (.call k (.get a)) | _, _ => none) else none
  | [h, "ok", p] => if h.startsWith "r" then
      (match (h.drop 1).toString.toNat?, parseProc p with
       | some k, some (some p) => some (.ret k (.regOk p)) | _, _ => none) else none
  | [h, "exist"] => if h.startsWith "r" then
      (h.drop 1).toString.toNat?.map (fun k => .ret k .regExist) else none
  | [h, "unit"] => if h.startsWith "r" then
      (h.drop 1).toString.toNat?.map (fun k => .ret k .unit) else none
  | [h, v] => if h.startsWith "r" then
      (match (h.drop 1).toString.toNat?, parseProc v with
       | some k, some v => some (.ret k (.proc v)) | _, _ => none) else none
  | _ => none

/-- pair calls with returns; `none` when an operation has not returned or an event is malformed -/
def toHOps (evs : List HEv) : Option (List HOp) :=
  let idx := (List.range evs.length).zip evs
  let calls := idx.filterMap (fun (i, e) => match e with | .call k op => some (i, k, op) | _ => none)
  let rets := idx.filterMap (fun (i, e) => match e with | .ret k r => some (i, k, r) | _ => none)
  if rets.length != calls.length then none else
  calls.mapM (fun (ci, k, op) =>
    match rets.find? (fun (_, k', _) => k' == k) with
    | some (ri, _, r) => if ci < ri then some { id := k, op := op, res := r, call := ci, ret := ri } else none
    | none => none)

/-- the tokens of `hist=[ … ]` inside an output line -/
def histTokens (out : List String) : Option (List String) :=
  match out.dropWhile (fun t => !t.startsWith "hist=[") with
  | [] => none
  | first :: rest =>
    let first := (first.drop 6).toString
    if first.endsWith "]" then
      let f := (first.dropEnd 1).toString
      some (if f.isEmpty then [] else [f])
    else
      let body := rest.takeWhile (fun t => !t.endsWith "]")
      match rest.dropWhile (fun t => !t.endsWith "]") with
      | last :: _ => some ((first :: body) ++ [(last.dropEnd 1).toString])
      | [] => none

def judgeDrain (out : List String) : String :=
  match histTokens out with
  | none => "bad:no-history"
  | some toks =>
    match (toks.filter (· ≠ "")).mapM parseHEv with
    | none => "bad:malformed-history"
    | some evs => match toHOps evs with
      | none => "bad:incomplete-history"
      | some ops => judgeHistory ops

/-- judge: `drain => <final line of the implementation>` is checked for linearizability (the property as stated;
`bad:stale-lookup-in-unregister-window` when only the `code` automaton explains the history); `getnil` must
answer the substitute; every other line is `ok` -/
def judge : Suite where
  σ := Unit
  init := ()
  step _ toks :=
    match toks.dropWhile (· ≠ "=>") with
    | _ :: out =>
      if toks.head? == some "drain" then ((), judgeDrain out)
      else if toks.head? == some "getnil" then ((), if out == ["sub"] then "ok" else "bad:nil-reference-not-substitute")
      else ((), "ok")
    | [] => ((), "bad-op")

/-- T-facts: `facts <file> <Func>` answers the skeleton the model was transcribed from -/
def factsSuite : Suite where
  σ := Unit
  init := ()
  step _ toks := match toks with
    | ["facts", k, f] =>
      match MV.Model.RegistryFacts.table.lookup (k ++ "." ++ f) with
      | some s => ((), s)
      | none => ((), "bad-op")
    | _ => ((), "bad-op")

end Oracle.Registry
