import Oracle.Proto
/-! Oracle suites of property C18 (registered in Oracle/Main.lean through `suites`). -/
namespace Oracle.C18

def suites : List (String × Suite) := []

end Oracle.C18
