import Oracle.Proto
import Oracle.Backoff
import Oracle.Retry
import Oracle.SharedRestart
/-! Oracle suites of property C18. -/
namespace Oracle.C18

/-- T-facts: canonical text of the delay formula that `MV.Model.Backoff.delay` transcribes; both
    `chrono.ExponentialBackoff` and `toolkit.ConditionalRetryByExponentialBackoff` must contain exactly
    this statement list (loop counter renamed to `n`). -/
def delayFormula : String :=
  "delay := float64(baseDelay) * math.Pow(multiplier, float64(n)) ; " ++
  "jitter := (rand.Float64() - 0.5) * randomization * float64(baseDelay) ; " ++
  "sleep := delay + jitter ; " ++
  "if math.IsNaN(sleep) { sleep = 0 } ; " ++
  "sleepDuration := time.Duration(sleep) ; " ++
  "if sleep >= float64(maxDelay) || sleepDuration > maxDelay { sleepDuration = maxDelay }"

/-- the test in front of the formula: `MV.Model.Backoff.backoff` / `MV.Model.Retry.condLoop` -/
def guardChrono : String := "if n > maxRetries && maxRetries > -1 { return -1 }"
def guardRetry : String := "if n >= maxRetries { return fmt.Errorf(\"max retries reached: %w\", err) }"

def formula : Suite where
  σ := Unit
  init := ()
  step _ toks := match toks with
    | ["delayexpr", "chrono"] => ((), delayFormula)
    | ["delayexpr", "retry"] => ((), delayFormula)
    | ["guard", "chrono"] => ((), guardChrono)
    | ["guard", "retry"] => ((), guardRetry)
    | _ => ((), "bad-op")

def suites : List (String × Suite) := [
  ("backoff-judge", Oracle.Backoff.judge),
  ("backoff0", Oracle.Backoff.model0),
  ("backoff0-spec", Oracle.Backoff.spec0),
  ("retry", Oracle.Retry.model),
  ("retry-spec", Oracle.Retry.spec),
  ("retrytime-judge", Oracle.Retry.timeJudge),
  ("formula", formula),
  ("shared-restart-judge", Oracle.SharedRestart.judge)
]

end Oracle.C18
