import Oracle.Proto
import MV.Model.Mailbox
import MV.Spec.Mailbox
import MV.Model.MailboxFacts
/-!
Oracle suites for the mailbox (T-sched): the model executes the same schedule as the instrumented
Go code, one scheduling quantum per `run` line.
-/
namespace Oracle.Mailbox
open MV.Model MV.Model.Conc MV.Model.Mailbox

def fmtMsg (m : Msg) : String := toString m.id ++ (if m.panics then "!" else "")

def fmtEv : Event → String
  | .pop _ _ => ""            -- ghost, not observable in the implementation
  | .enter s m => "enter:" ++ (if s then "s" else "u") ++ ":" ++ fmtMsg m
  | .exit s m => "exit:" ++ (if s then "s" else "u") ++ ":" ++ fmtMsg m
  | .accident => "accident"

def fmtEvs (l : List Event) : String :=
  "[" ++ " ".intercalate ((l.map fmtEv).filter (· ≠ "")) ++ "]"

def fmtState (g : G) : String :=
  s!"run={if g.running then 1 else 0} susp={if g.susp then 1 else 0} sys={g.sysNum} usr={g.userNum}"

def spawnPC : List String → Option PC
  | ["u", id, p] => match id.toNat?, p.toNat? with
      | some i, some p => some (.uPush ⟨i, p != 0⟩)
      | _, _ => none
  | ["s", id, p] => match id.toNat?, p.toNat? with
      | some i, some p => some (.sPush ⟨i, p != 0⟩)
      | _, _ => none
  | ["susp"] => some .susp
  | ["res"] => some .res
  | _ => none

def runLine (s : State) (i : Nat) : State × String :=
  match s.ths[i]? with
  | none => (s, "skip")
  | some _ =>
    match quantum s i with
    | none => (s, "skip")
    | some s' =>
      let evs := s'.g.trace.drop s.g.trace.length
      let pc' := (s'.ths[i]?).getD .done
      let spawned := (List.range (s'.ths.length - s.ths.length)).map (fun k => s!"t{s.ths.length + k}")
      (s', s!"t{i}@{siteName pc'} ev={fmtEvs evs} spawn=[{" ".intercalate spawned}] {fmtState s'.g}")

/-- lowest live thread first, until nobody is live (fuel-bounded) -/
def drain (s : State) : Nat → State
  | 0 => s
  | fuel + 1 =>
    match (List.range s.ths.length).find? (fun i => (s.ths[i]?).getD .done != .done) with
    | none => s
    | some i => match quantum s i with
      | some s' => drain s' fuel
      | none => s

def fmtFinal (s : State) : String :=
  let ent (sys : Bool) := s.g.trace.filterMap (fun e => match e with
    | .enter s' m => if s' == sys then some (m.id : Int) else none | _ => none)
  s!"{fmtState s.g} trace={fmtEvs s.g.trace} pushedS={fmtInts (s.g.pushedSys.map (fun m => (m.id : Int)))} pushedU={fmtInts (s.g.pushedUsr.map (fun m => (m.id : Int)))} enteredS={fmtInts (ent true)} enteredU={fmtInts (ent false)}"

def model : Suite where
  σ := State
  init := Mailbox.init
  step s toks := match toks with
    | "mailbox" :: _ => (Mailbox.init, "ok")     -- `mailbox lockfree|globalordered`: same program
    | "spawn" :: rest => match spawnPC rest with
        | some pc => ({ s with ths := s.ths ++ [pc] }, s!"t{s.ths.length}@{siteName pc}")
        | none => (s, "bad-op")
    | ["run", k] => match k.toNat? with
        | some i => runLine s i
        | none => (s, "bad-op")
    | ["drain"] =>
        let s' := drain s 3000
        (s', fmtFinal s')
    | _ => (s, "bad-op")

/-- judge: `drain => <final line of the implementation>`; every other line is `ok` -/
def judge (c01 : Bool) : Suite where
  σ := Unit
  init := ()
  step _ toks :=
    match toks.dropWhile (· ≠ "=>") with
    | _ :: out =>
      if toks.head? == some "drain" then ((), MV.Spec.Mailbox.judgeFinal c01 out) else ((), "ok")
    | [] => ((), "bad-op")

/-- T-facts: `facts <lockfree|globalordered> <Func>` answers the skeleton the model was transcribed
from (one table for both mailbox files) -/
def factsSuite : Suite where
  σ := Unit
  init := ()
  step _ toks := match toks with
    | ["facts", k, f] =>
      if k == "lockfree" || k == "globalordered" then
        match MV.Model.MailboxFacts.table.lookup f with
        | some s => ((), s)
        | none => ((), "bad-op")
      else ((), "bad-op")
    | _ => ((), "bad-op")

/-- the dispatcher assumption of the mailbox model as an oracle: every dispatched function runs
exactly once, whatever the dispatcher and its configuration -/
def dispatchSuite : Suite where
  σ := Unit
  init := ()
  step _ toks := match toks.getLast? with
    | some n => match n.toNat? with
      | some n => if toks.head? == some "goroutine" || toks.head? == some "ants"
          then ((), s!"dispatched={n} not-exactly-once=0") else ((), "bad-op")
      | none => ((), "bad-op")
    | none => ((), "bad-op")

end Oracle.Mailbox
