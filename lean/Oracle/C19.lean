import Oracle.Proto
/-! Oracle suites of property C19 (registered in Oracle/Main.lean through `suites`). -/
namespace Oracle.C19

def suites : List (String × Suite) := []

end Oracle.C19
