import Oracle.Proto
import Oracle.Chrono
import Oracle.Period
import Oracle.ChronoJudge
/-! Oracle suites of property C19. -/
namespace Oracle.C19

def suites : List (String × Suite) := [
  ("chrono", Oracle.Chrono.model),
  ("chrono-spec", Oracle.Chrono.spec),
  ("chrono-judge", Oracle.ChronoJudge.chronoJudge),
  ("period", Oracle.Period.model),
  ("period-spec", Oracle.Period.spec),
  ("period-judge", Oracle.ChronoJudge.periodJudge),
  ("dst-judge", Oracle.ChronoJudge.dstJudge)
]

end Oracle.C19
