import Oracle.Proto
import MV.Model.LFQueue
/-!
# Oracle suites `lfq-sched` (model) and `lfq-sched-judge` (C15): the Michael–Scott queue under a given schedule

The Go queue runs under the controlled scheduler, one atomic operation per `run` line; the model
`MV.Model.LFQueue` takes the same `step`s.  Every line is compared: the site the thread is parked at
(= the model's program counter) and the results of the calls that completed in the quantum.  `drain`
runs the lowest live thread to the end, pops the rest and prints the dequeue order.

The judge sees only the implementation's answers: at `drain`, the dequeued values (in the order of the
successful `head` CASes = the order of return under the scheduler) followed by the rest must contain
every pushed value exactly once and nothing else, and each producer's values in its program order.
-/
namespace Oracle.LfqSched
open MV.Model MV.Model.LFQueue

/-- the yield point in front of the atomic operation a program counter stands for -/
def site : PC → String
  | .puLoadTail _ => "lfq.pu.tail"
  | .puLoadNext _ _ => "lfq.pu.next"
  | .puRecheck _ _ _ => "lfq.pu.re"
  | .puCasNext _ _ => "lfq.pu.cas"
  | .puSwing _ _ => "lfq.pu.swing"
  | .puHelp _ _ _ => "lfq.pu.help"
  | .poLoadHead => "lfq.po.head"
  | .poLoadTail _ => "lfq.po.tail"
  | .poLoadNext _ _ => "lfq.po.next"
  | .poRecheck _ _ _ _ => "lfq.po.re"
  | .poHelp _ _ => "lfq.po.help"
  | .poCasHead _ _ _ => "lfq.po.cas"
  | .done => "done"
  | .crashed => "crashed"

def parseOp (t : String) : Option Op :=
  if t == "o" then some .pop
  else if t.startsWith "p" then (t.drop 1).toString.toInt?.map Op.push
  else none

def siteOf (s : St) (k : Nat) : String :=
  match s.ths[k]? with
  | some th => site th.pc
  | none => "?"

/-- results of the calls that completed between `s` and `s'` (at most one per step) -/
def rets (s s' : St) : List String :=
  if s'.g.popped.length > s.g.popped.length then
    match s'.g.popped.getLast? with | some (_, v) => [toString v] | none => []
  else if s'.g.nils.length > s.g.nils.length then ["nil"]
  else []

def fmtList (l : List String) : String := "[" ++ " ".intercalate l ++ "]"

def runOne (s : St) (k : Nat) : St × String :=
  match step s k with
  | none => (s, "skip")
  | some s' => (s', s!"t{k}@{siteOf s' k} ret={fmtList (rets s s')}")

def drainThreads : St → Nat → St
  | s, 0 => s
  | s, fuel + 1 =>
    match (List.range s.ths.length).find? (fun i => (s.ths[i]?).map (·.pc != .done) |>.getD false) with
    | none => s
    | some i => match step s i with
      | some s' => drainThreads s' fuel
      | none => s

def model : Suite where
  σ := St
  init := LFQueue.init []
  step s toks := match toks with
    | ["queue"] => (LFQueue.init [], "ok")
    | "spawn" :: ops =>
      match ops.mapM parseOp with
      | some (o :: os) =>
        let s' : St := { s with ths := s.ths ++ [start (o :: os)] }
        (s', s!"t{s.ths.length}@{siteOf s' s.ths.length}")
      | _ => (s, "bad-op")
    | ["run", k] => match k.toNat? with
      | some k => runOne s k
      | none => (s, "bad-op")
    | ["drain"] =>
      let s' := drainThreads s 100000
      let popped := s'.g.popped.map fun (t, v) => s!"{t}:{v}"
      (s', s!"popped={fmtList popped} rest={fmtList ((remaining s'.g).map toString)}")
    | _ => (s, "bad-op")

/-! ## judge -/

structure JS where
  pushes : List (List Int) := []      -- per thread, in program order
  deriving Inhabited

def isSubseq : List Int → List Int → Bool
  | [], _ => true
  | _ :: _, [] => false
  | x :: xs, y :: ys => if x == y then isSubseq xs ys else isSubseq (x :: xs) ys

def unbr (out : List String) (key : String) : List String :=
  -- tokens of `key=[a b c]` inside `out`
  let joined := " ".intercalate out
  match joined.splitOn (key ++ "=[") with
  | _ :: rest :: _ => ((rest.splitOn "]").headD "").splitOn " " |>.filter (· ≠ "")
  | _ => []

def judge : Suite where
  σ := JS
  init := {}
  step s toks :=
    let op := toks.takeWhile (· ≠ "=>")
    let out := (toks.dropWhile (· ≠ "=>")).drop 1
    match op with
    | ["queue"] => ({}, "ok")
    | "spawn" :: ops =>
      match ops.mapM parseOp with
      | some (o :: os) => ({ s with pushes := s.pushes ++ [pushesOf (o :: os)] }, "ok")
      | _ => (s, if out == ["bad-op"] then "ok" else "bad:malformed-op-accepted")
    | ["drain"] =>
      let popped := (unbr out "popped").filterMap fun t => match t.splitOn ":" with
        | [_, v] => v.toInt? | _ => none
      let rest := (unbr out "rest").filterMap String.toInt?
      let order := popped ++ rest
      let all := s.pushes.flatten
      if order.length ≠ all.length then (s, "bad:c15-lfq-element-lost-or-duplicated")
      else if !(all.all fun v => order.count v == all.count v) then (s, "bad:c15-lfq-element-invented-or-duplicated")
      else if !(s.pushes.all fun p => isSubseq p order) then (s, "bad:c15-lfq-producer-order-violated")
      else (s, "ok")
    | _ => (s, "ok")

end Oracle.LfqSched
