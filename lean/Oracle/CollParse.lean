import Oracle.Proto
import MV.Model.Collection.Order
import MV.Spec.Collection
/-!
Argument syntax and canonical output forms of the C17 suites (twin of harness/suites/c17/parse.go
and callbacks.go).
-/
namespace Oracle.Coll
open MV.Model.Coll

/-- split at blanks outside every bracket -/
def splitTop (s : String) : List String :=
  let r := s.foldl (fun (st : List String × String × Int) c =>
    let (acc, cur, depth) := st
    let depth' := if c == '[' || c == '{' then depth + 1 else if c == ']' || c == '}' then depth - 1 else depth
    if c == ' ' && depth' == 0 then (if cur.isEmpty then acc else cur :: acc, "", depth')
    else (acc, cur.push c, depth')) ([], "", 0)
  (if r.2.1.isEmpty then r.1 else r.2.1 :: r.1).reverse

def stripBr (s : String) (o c : Char) : Option String :=
  if s.length ≥ 2 && s.front == o && s.back == c then some ((s.drop 1).dropEnd 1).toString else none

def fields (s : String) : List String := (s.splitOn " ").filter (· ≠ "")

/-- Go's `strconv.Atoi` accepts a leading `+`; Lean's `toInt?` does not — the generators never write one -/
def pInt (s : String) : Option Int := s.toInt?

def pInts (s : String) : Option Sl :=
  if s == "nil" then some none
  else match stripBr s '[' ']' with
    | none => none
    | some inner => ((fields inner).mapM pInt).map some

def pIntss (s : String) : Option (Option (List Sl)) :=
  if s == "nil" then some none
  else match stripBr s '[' ']' with
    | none => none
    | some inner => ((splitTop inner).mapM pInts).map some

def pEntry (s : String) : Option (Int × Int) :=
  match s.splitOn ":" with
  | [k, v] => match pInt k, pInt v with
    | some k, some v => some (k, v)
    | _, _ => none
  | _ => none

def distinctKeys : List (Int × Int) → Bool
  | [] => true
  | e :: es => !(es.any (·.1 == e.1)) && distinctKeys es

def pMap (s : String) : Option Mp :=
  if s == "nil" then some none
  else match stripBr s '{' '}' with
    | none => none
    | some inner => match (fields inner).mapM pEntry with
      | none => none
      | some es => if distinctKeys es then some (some es) else none

def pMaps (s : String) : Option (Option (List Mp)) :=
  if s == "nil" then some none
  else match stripBr s '[' ']' with
    | none => none
    | some inner => ((splitTop inner).mapM pMap).map some

def pNat (s : String) : Option Nat := match pInt s with
  | some i => if i < 0 then none else some i.toNat
  | none => none

/-! ### output forms -/

def fList (l : List String) : String := "[" ++ " ".intercalate l ++ "]"
def fInts (l : List Int) : String := fList (l.map toString)
def fSl : Sl → String
  | none => "nil"
  | some l => fInts l
def fSls : Option (List Sl) → String
  | none => "nil"
  | some l => fList (l.map fSl)
def fIntss : Option (List (List Int)) → String
  | none => "nil"
  | some l => fList (l.map fInts)

def sortKeys (m : List (Int × Int)) : List (Int × Int) := m.mergeSort (fun a b => decide (a.1 ≤ b.1))

def fBraces (l : List String) : String := "{" ++ " ".intercalate l ++ "}"
def fMp : Mp → String
  | none => "nil"
  | some m => fBraces ((sortKeys m).map (fun e => toString e.1 ++ ":" ++ toString e.2))
def fMps : Option (List Mp) → String
  | none => "nil"
  | some l => fList (l.map fMp)
/-- a key set, sorted -/
def fSet : Option (List Int) → String
  | none => "nil"
  | some l => fBraces ((l.mergeSort (fun a b => decide (a ≤ b))).map toString)
/-- keys mapped to `true`, sorted -/
def fBoolMap : Option (List Int) → String
  | none => "nil"
  | some l => fBraces ((l.mergeSort (fun a b => decide (a ≤ b))).map (fun k => toString k ++ ":true"))
def fBool (b : Bool) : String := if b then "true" else "false"
def fVisits2 (l : List (Nat × Int)) : String := fList (l.map (fun p => "(" ++ toString p.1 ++ " " ++ toString p.2 ++ ")"))
def fVisits3 (l : List (Nat × Int × Int)) : String :=
  fList (l.map (fun p => "(" ++ toString p.1 ++ " " ++ toString p.2.1 ++ " " ++ toString p.2.2 ++ ")"))
def fPair (p : Int × Int) : String := toString p.1 ++ " " ++ toString p.2

def argsU : String := " args-unchanged"
def indep : String := " independent"

/-! ### named callbacks (twin of callbacks.go; Go's `%` is `Int.tmod`) -/

def cmpOf : String → Option (Int → Int → Bool)
  | "eq" => some (fun a b => a == b)
  | "eqmod3" => some (fun a b => a.tmod 3 == b.tmod 3)
  | "eqabs" => some (fun a b => a.natAbs == b.natAbs)
  | "always" => some (fun _ _ => true)
  | "never" => some (fun _ _ => false)
  | "lt" => some (fun a b => decide (a < b))
  | "le" => some (fun a b => decide (a ≤ b))
  | "ne" => some (fun a b => a != b)
  | _ => none

/-- the callbacks that are equivalence relations (the laws about `…WithCompare`/`Equal…` are stated for them) -/
def isEquivName (n : String) : Bool := n == "eq" || n == "eqmod3" || n == "eqabs" || n == "always"

def predOf : String → Option (Int → Bool)
  | "even" => some (fun v => v.tmod 2 == 0)
  | "odd" => some (fun v => v.tmod 2 != 0)
  | "neg" => some (fun v => decide (v < 0))
  | "pos" => some (fun v => decide (v > 0))
  | "zero" => some (fun v => v == 0)
  | "always" => some (fun _ => true)
  | "never" => some (fun _ => false)
  | _ => none

def getterOf : String → Option (Int → Int)
  | "id" => some id
  | "negate" => some (fun v => -v)
  | "abs" => some (fun v => (v.natAbs : Int))
  | "mod3" => some (fun v => v.tmod 3)
  | "const" => some (fun _ => 0)
  | "sq" => some (fun v => v * v)
  | _ => none

def mapcondOf : String → Option (Int → Int → Bool)
  | "keqv" => some (fun k v => k == v)
  | "kltv" => some (fun k v => decide (k < v))
  | "vneg" => some (fun _ v => decide (v < 0))
  | "kodd" => some (fun k _ => k.tmod 2 != 0)
  | "always" => some (fun _ _ => true)
  | "never" => some (fun _ _ => false)
  | _ => none

def sumIdxOf : String → Option (Nat → Int → Int)
  | "val" => some (fun _ v => v)
  | "idxval" => some (fun i v => (i : Int) + v)
  | "wt" => some (fun i v => (i : Int) * v)
  | "one" => some (fun _ _ => 1)
  | _ => none

def sumKVOf : String → Option (Int → Int → Int)
  | "val" => some (fun _ v => v)
  | "key" => some (fun k _ => k)
  | "kv" => some (fun k v => k * v)
  | "one" => some (fun _ _ => 1)
  | _ => none

/-- callback that may be `nilfn` -/
def optCb {α : Type} (tbl : String → Option α) (s : String) : Option (Option α) :=
  if s == "nilfn" then some none else (tbl s).map some

end Oracle.Coll
