import Oracle.Proto
import Oracle.Link
/-!
Oracle suite `codec`: the envelope (`MV.Model.Link.pack` / `unpack`) over an *opaque* payload — a type
name and the bytes of the original message in hex.  The implementation line carries the type name
and the deterministic re-marshalling of the message that arrived on the other node; agreement with
this model therefore means: the real codec + envelope + protobuf transport reproduce the payload
byte for byte and keep system flag, sender and receiver (the codec law the theorems assume, on the
generated messages).
-/
namespace Oracle.Codec
open MV.Model.Link

abbrev Pay := String × String   -- (type name, hex of the marshalled message)

def errName : String := "prc.SharedErrorMessage"

def knownTypes : List String := [
  "prc.ProcessId", "prc.DeliveryMessage", "prc.BatchDeliveryMessage", "prc.Handshake", "prc.Farewell",
  "vivid.OnTerminate",
  "google.protobuf.Int64Value", "google.protobuf.UInt64Value", "google.protobuf.Int32Value",
  "google.protobuf.BoolValue", "google.protobuf.StringValue", "google.protobuf.BytesValue",
  "google.protobuf.DoubleValue", "google.protobuf.Struct", "google.protobuf.Value", "google.protobuf.ListValue",
  "google.protobuf.Any", "google.protobuf.Duration", "google.protobuf.Timestamp", "google.protobuf.Empty"]

/-- the opaque codec: lawful on every payload whose type is not the error carrier itself -/
def codec : Codec Pay String where
  encode
    | .val (n, h) => some (n, h)
    | .err t => some (errName, t)
  decode n d := if n == errName then some (.err d) else some (.val (n, d))

def isHex (s : String) : Bool :=
  s.length % 2 == 0 && s.all (fun c => c.isDigit || ('a' ≤ c && c ≤ 'f'))

def fmtArrival (a : Arrival Pay) : String :=
  let (t, d) := match a.body with
    | .val (n, h) => (n, h)
    | .err t => ("error", t)
  s!"type={t} data={if d.isEmpty then "-" else d} sys={if a.system then 1 else 0} sender={Oracle.Link.fmtPid a.sender} receiver={Oracle.Link.fmtPid a.receiver}"

/-- `rt <kind> <type|error> <hex|-> <sender|-> <sys>`; the receiver is always `B/r` -/
def model : Suite where
  σ := Unit
  init := ()
  step _ toks := match toks with
    | ["rt", kind, ty, hex, sender, sys] =>
      let hex := if hex == "-" then "" else hex
      match Oracle.Link.parsePidStr sender, Oracle.Link.parseBit sys with
      | some snd, some sys =>
        if !isHex hex then ((), "bad-op") else
        let body? : Option (Body Pay) :=
          if ty == "error" then some (.err hex)
          else if knownTypes.contains ty then some (.val (ty, hex)) else none
        let rcv : Option Pid := some ⟨"B", "/r"⟩
        match body? with
        | none => ((), "err:unknown-type")
        | some body =>
          let msg? : Option (Msg Pay) :=
            if kind == "bare" then some (.bare body)
            else if kind == "wrap" then some (.wrapped snd rcv body) else none
          match msg? with
          | none => ((), "bad-op")
          | some msg =>
            match pack codec rcv snd msg sys with
            | none => ((), "panic")
            | some env =>
              match unpack codec env with
              | none => ((), "panic")
              | some a => ((), fmtArrival a)
      | _, _ => ((), "bad-op")
    | _ => ((), "bad-op")

end Oracle.Codec
