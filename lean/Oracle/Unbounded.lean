import Oracle.Proto
import MV.Model.Unbounded
import MV.Spec.ClosableQueue
namespace Oracle.Unbounded
open MV.Model MV.Model.Unbounded

def parseOp : List String → Option Op
  | ["put", v] => v.toInt?.map .put
  | ["load"] => some .load
  | ["recv"] => some .recv
  | ["take"] => some .take
  | ["close"] => some .close
  | ["isclosed"] => some .isClosed
  | _ => none

def fmtOut : Out → String
  | .unit => "ok"
  | .val v => toString v
  | .empty => "empty"
  | .closed => "closed"
  | .bool b => fmtBool b

/-- model suite (used for `buffer.Unbounded` and for `channels.UnboundedBacklog`) -/
def model : Suite where
  σ := MV.Model.Unbounded
  init := Unbounded.new
  step u toks := match toks with
    | ["new"] => (Unbounded.new, "ok")
    | _ => match parseOp toks with
        | some op => let (u', o) := Unbounded.step u op; (u', fmtOut o)
        | none => (u, "bad-op")

/-- spec suite: the closable list queue; after a bare `recv` (off the documented protocol) the
specification determines nothing any more (`-`) until the next case / `new`. -/
def spec : Suite where
  σ := MV.Spec.ClosableQueue.St × Bool
  init := (MV.Spec.ClosableQueue.init, true)
  step s toks := match toks with
    | ["new"] => ((MV.Spec.ClosableQueue.init, true), "ok")
    | _ => match parseOp toks with
        | some .recv => ((s.1, false), "-")
        | some op =>
            if s.2 then
              let (l', o) := MV.Spec.ClosableQueue.step s.1 op; ((l', true), fmtOut o)
            else (s, "-")
        | none => (s, "bad-op")

end Oracle.Unbounded
