import Oracle.Proto
import Oracle.ActorSys
import Oracle.Backoff
/-! Oracle suites of property C04 (the Layer-2 actor-system model is shared by C03–C06). -/
namespace Oracle.C04

def suites : List (String × Suite) := [
  ("actorsys", Oracle.ActorSys.model),
  ("actorsys-judge", Oracle.ActorSys.judgeC04),
  ("actorsys-fine-judge", Oracle.ActorSys.judgeC04fine),
  ("backoff-judge", Oracle.Backoff.judge),
  ("backoff0", Oracle.Backoff.model0),
  ("backoff0-spec", Oracle.Backoff.spec0)
]

end Oracle.C04
