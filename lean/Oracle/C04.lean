import Oracle.Proto
/-! Oracle suites of property C04 (registered in Oracle/Main.lean through `suites`). -/
namespace Oracle.C04

def suites : List (String × Suite) := []

end Oracle.C04
