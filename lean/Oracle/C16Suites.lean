import Oracle.C16Fmt
import MV.Model.Ranking
import MV.Spec.Leaderboard
import MV.Spec.PrioritySlice
import MV.Spec.Slice
import MV.Spec.OrderedMap
import MV.Spec.FinMap
import MV.Model.BitSet
/-! Oracle suites of the C16 containers (model + spec per container). -/
namespace Oracle.C16
open MV.Model

/-! ## leaderboard -/

def parseRankOp : List String → Option Ranking.Op
  | ["comp", a, b] => do some (.competitor (← int? a) (← int? b))
  | ["remove", a] => do some (.remove (← int? a))
  | ["rank", a] => do some (.rank (← int? a))
  | ["at", a] => do some (.at (← int? a))
  | ["range", a, b] => do some (.range (← int? a) (← int? b))
  | ["score", a] => do some (.score (← int? a))
  | ["all"] => some .all
  | ["size"] => some .size
  | ["clear"] => some .clear
  | ["dump"] => some .dump
  | _ => none

/-- `new <asc 0|1> <cap|->` -/
def parseRankNew : List String → Option (Bool × Option Int)
  | ["new", a, c] => do
      let asc ← (if a = "1" then some true else if a = "0" then some false else none)
      if c = "-" then some (asc, none) else some (asc, some (← int? c))
  | _ => none

def rank : Suite where
  σ := Ranking
  init := Ranking.new false none
  step r toks := match parseRankNew toks with
    | some (asc, c) => (Ranking.new asc c, "ok")
    | none => match parseRankOp toks with
      | some op => let (r', o) := Ranking.step r op; (r', fmtOut o)
      | none => (r, "bad-op")

def rankSpec : Suite where
  σ := MV.Spec.Leaderboard.Board
  init := ⟨false, 100, []⟩
  step b toks := match parseRankNew toks with
    | some (asc, c) => let r := Ranking.new asc c; (⟨r.asc, r.cap, []⟩, "ok")
    | none => match parseRankOp toks with
      | some op => let (b', o) := MV.Spec.Leaderboard.step b op; (b', fmtOut o)
      | none => (b, "bad-op")

/-! ## priority slice -/

open MV.Model.PrioritySlice in
/-- canonical (value-addressed) protocol of the `prio` suite; values are unique by construction -/
def prio : Suite where
  σ := List Item
  init := []
  step l toks :=
    let idxOf (v : Int) : Int := (l.findIdx (fun it => it.2 == v) : Nat)
    let run (op : Op) : List Item × String := let (l', o) := PrioritySlice.step isortP l op; (l', fmtOut o)
    match toks with
    | ["new", _] => ([], "ok")
    | ["append", v, p] => match int? v, int? p with
        | some v, some p => run (.append v p)
        | _, _ => (l, "bad-op")
    | "appends" :: p :: rest => match int? p, parseLists rest with
        | some p, some [vs] => run (.appends p vs)
        | _, _ => (l, "bad-op")
    | ["setof", v0, v, p] => match int? v0, int? v, int? p with
        | some v0, some v, some p => run (.set (idxOf v0) v p)
        | _, _, _ => (l, "bad-op")
    | ["setvof", v0, v] => match int? v0, int? v with
        | some v0, some v => run (.setValue (idxOf v0) v)
        | _, _ => (l, "bad-op")
    | ["setpof", v0, p] => match int? v0, int? p with
        | some v0, some p => run (.setPriority (idxOf v0) p)
        | _, _ => (l, "bad-op")
    | ["getp", i] => match int? i with
        | some i => if i < 0 ∨ i ≥ l.length then (l, "panic") else (l, toString (l.getD i.toNat (0, 0)).1)
        | none => (l, "bad-op")
    | ["clear"] => run .clear
    | ["len"] => run .len
    | ["prios"] => run .prios
    | ["items"] => (l, fmtRows (sortRows (l.map (fun it => [it.1, it.2]))))
    | ["rangen", k] => match int? k with
        | some k => (l, toString (min k.toNat l.length))
        | none => (l, "bad-op")
    | _ => (l, "bad-op")

open MV.Model.PrioritySlice in
def parsePrioRawOp : List String → Option Op
  | ["append", v, p] => do some (.append (← int? v) (← int? p))
  | "appends" :: p :: rest => do
      match ← parseLists rest with
      | [vs] => some (.appends (← int? p) vs)
      | _ => none
  | ["get", i] => do some (.get (← int? i))
  | ["set", i, v, p] => do some (.set (← int? i) (← int? v) (← int? p))
  | ["setv", i, v] => do some (.setValue (← int? i) (← int? v))
  | ["setp", i, p] => do some (.setPriority (← int? i) (← int? p))
  | ["clear"] => some .clear
  | ["len"] => some .len
  | _ => none

/-- judge of the raw protocol: lines are `op => <raw items after the op | panic>`; the state is the
last raw item list the implementation showed. -/
def prioJudge : Suite where
  σ := List PrioritySlice.Item
  init := []
  step before toks :=
    let (opT, outT) := toks.span (· ≠ "=>")
    let outT := outT.drop 1
    match opT with
    | ["new", _] => ([], "ok")
    | _ =>
      match parsePrioRawOp opT with
      | none => (before, "bad-op")
      | some op =>
        if outT = ["panic"] then
          (before, if (PrioritySlice.effect before op).isNone then "ok" else "bad:unexpected-panic")
        else match parseRows outT with
          | none => (before, "bad:unparsable-output")
          | some rows =>
            match rows.mapM (fun r => match r with | [p, v] => some (p, v) | _ => none) with
            | none => (before, "bad:unparsable-output")
            | some after =>
              if (PrioritySlice.effect before op).isNone then (after, "bad:missing-panic")
              else if ¬ MV.Spec.PrioritySlice.sortedPB after then (after, "bad:not-sorted-by-priority")
              else if MV.Spec.PrioritySlice.judge before op after then (after, "ok")
              else (after, "bad:elements-lost-or-invented")

/-! ## paged slice -/

def parsePagedOp : List String → Option Paged.Op
  | ["add", v] => do some (.add (← int? v))
  | ["del", i] => do some (.del (← int? i))
  | ["get", i] => do some (.get (← int? i))
  | ["set", i, v] => do some (.set (← int? i) (← int? v))
  | ["len"] => some .len
  | "grow" :: rest => do
      match ← parseLists rest with
      | [is] => some (.grow is)
      | _ => none
  | ["growset", i, v] => do some (.growSet (← int? i) (← int? v))
  | "bgs" :: rest => do
      match ← parseLists rest with
      | [is, vs] => some (.batchGrowSet is vs)
      | _ => none
  | "bs" :: rest => do
      match ← parseLists rest with
      | [is, vs] => some (.batchSet is vs)
      | _ => none
  | "bsx" :: rest => do
      match ← parseLists rest with
      | [is, vs] => some (.batchSet is vs)
      | _ => none
  | ["dump"] => some .dump
  | _ => none

def parsePagedNew : List String → Option Nat
  | ["new", k] => match int? k with
      | some k => if k ≥ 1 then some k.toNat else none
      | none => none
  | _ => none

def paged : Suite where
  σ := Paged
  init := Paged.new 1
  step s toks := match parsePagedNew toks with
    | some ps => (Paged.new ps, "ok")
    | none => match parsePagedOp toks with
      | some op => let (s', o) := Paged.step s op; (s', fmtOut o)
      | none => (s, "bad-op")

def pagedSpec : Suite where
  σ := List Int
  init := []
  step l toks := match parsePagedNew toks with
    | some _ => ([], "ok")
    | none => match parsePagedOp toks with
      | some op => let (l', o) := MV.Spec.Slice.step l op; (l', fmtOut o)
      | none => (l, "bad-op")

/-! ## ordered map -/

def parseOrderOp : List String → Option OrderMap.Op
  | ["get", k] => do some (.get (← int? k))
  | ["add", k, v] => do some (.add (← int? k) (← int? v))
  | ["set", k, v] => do some (.set (← int? k) (← int? v))
  | ["len"] => some .len
  | ["del", k] => do some (.del (← int? k))
  | ["range"] => some .range
  | ["ranges"] => some .rangeSorted
  | ["rangen", n] => do some (.rangeN (← int? n))
  | _ => none

def isNewOS : List String → Bool
  | ["new", t] => t = "o" || t = "s"
  | _ => false

def order : Suite where
  σ := OrderMap
  init := OrderMap.new
  step o toks := if isNewOS toks then (OrderMap.new, "ok") else
    match parseOrderOp toks with
    | some op => let (o', r) := OrderMap.step o op; (o', fmtOut r)
    | none => (o, "bad-op")

def orderSpec : Suite where
  σ := MV.Spec.OrderedMap.St
  init := MV.Spec.OrderedMap.init
  step s toks := if isNewOS toks then (MV.Spec.OrderedMap.init, "ok") else
    match parseOrderOp toks with
    | some op => let (s', r) := MV.Spec.OrderedMap.step s op; (s', fmtOut r)
    | none => (s, "bad-op")

/-! ## sync map -/

def parseSyncMapOp : List String → Option SyncMap.Op
  | ["set", k, v] => do some (.set (← int? k) (← int? v))
  | ["get", k] => do some (.get (← int? k))
  | ["exist", k] => do some (.exist (← int? k))
  | ["getexist", k] => do some (.getExist (← int? k))
  | ["delete", k] => do some (.delete (← int? k))
  | ["deleteget", k] => do some (.deleteGet (← int? k))
  | ["deletegetexist", k] => do some (.deleteGetExist (← int? k))
  | ["deleteexist", k] => do some (.deleteExist (← int? k))
  | ["clear"] => some .clear
  | ["clearhandle"] => some .clearHandle
  | ["range"] => some .range
  | ["rangestop", n] => do some (.rangeStop (← int? n))
  | ["keys"] => some .keys
  | ["slice"] => some .slice
  | ["map"] => some .map
  | ["size"] => some .size
  | ["atom", k, v, d] => do some (.atom (← int? k) (← int? v) (← int? d))
  | _ => none

def syncmap : Suite where
  σ := FMap
  init := []
  step m toks := match toks with
    | ["new"] => ([], "ok")
    | _ => match parseSyncMapOp toks with
      | some op => let (m', r) := SyncMap.step m op; (m', fmtOut r)
      | none => (m, "bad-op")

def syncmapSpec : Suite where
  σ := MV.Spec.FinMap.M
  init := []
  step m toks := match toks with
    | ["new"] => ([], "ok")
    | _ => match parseSyncMapOp toks with
      | some op => let (m', r) := MV.Spec.FinMap.stepSync m op; (m', fmtOut r)
      | none => (m, "bad-op")

/-! ## buckets -/

def parseBucketOp : List String → Option Bucket.Op
  | ["get", k] => do some (.get (← int? k))
  | ["getraw", k] => do some (.get (← int? k))
  | ["set", k, v] => do some (.set (← int? k) (← int? v))
  | ["del", k] => do some (.del (← int? k))
  | ["len"] => some .len
  | ["clear"] => some .clear
  | ["getorset", k, v] => do some (.getOrSet (← int? k) (← int? v))
  | ["getanddel", k] => do some (.getAndDel (← int? k))
  | _ => none

/-- `new b|m <size ≥ 1>` -/
def parseBucketNew : List String → Option Nat
  | ["new", t, n] => if t = "b" ∨ t = "m" then
      match int? n with
      | some n => if n ≥ 1 then some n.toNat else none
      | none => none
    else none
  | _ => none

def bucket : Suite where
  σ := Bucket
  init := Bucket.new 1
  step b toks := match parseBucketNew toks with
    | some n => (Bucket.new n, "ok")
    | none => match parseBucketOp toks with
      | some op => let (b', r) := Bucket.step Bucket.hash b op; (b', fmtOut r)
      | none => (b, "bad-op")

def bucketSpec : Suite where
  σ := MV.Spec.FinMap.M
  init := []
  step m toks := match parseBucketNew toks with
    | some _ => ([], "ok")
    | none => match parseBucketOp toks with
      | some op => let (m', r) := MV.Spec.FinMap.stepBucket m op; (m', fmtOut r)
      | none => (m, "bad-op")

/-! ## sync slice -/

def parseSyncSliceOp : List String → Option SyncSlice.Op
  | ["get", i] => do some (.get (← int? i))
  | ["getrange", s, e] => do some (.getRange (← int? s) (← int? e))
  | ["set", i, v] => do some (.set (← int? i) (← int? v))
  | "append" :: rest => do
      match ← parseLists rest with
      | [vs] => some (.append vs)
      | _ => none
  | ["release"] => some .release
  | ["clear"] => some .clear
  | ["data"] => some .data
  | _ => none

def syncslice : Suite where
  σ := List Int
  init := []
  step l toks := match toks with
    | ["new", n, c] => match int? n, int? c with
        | some n, some c => if 0 ≤ n ∧ n ≤ c then (List.replicate n.toNat 0, "ok") else (l, "bad-op")
        | _, _ => (l, "bad-op")
    | _ => match parseSyncSliceOp toks with
      | some op => let (l', r) := SyncSlice.step l op; (l', fmtOut r)
      | none => (l, "bad-op")

/-! ## dynamic bit set: four registers `a b c d` -/

structure Regs (α : Type) where
  a : α
  b : α
  c : α
  d : α

def Regs.get {α} (r : Regs α) : String → Option α
  | "a" => some r.a | "b" => some r.b | "c" => some r.c | "d" => some r.d | _ => none

def Regs.put {α} (r : Regs α) (n : String) (x : α) : Option (Regs α) :=
  match n with
  | "a" => some { r with a := x } | "b" => some { r with b := x }
  | "c" => some { r with c := x } | "d" => some { r with d := x } | _ => none

def pos? (s : String) : Option Nat := match s.toNat? with
  | some n => if n < 4294967296 then some n else none
  | none => none

def hexByte (n : Nat) : String :=
  let d (k : Nat) : Char := if k < 10 then Char.ofNat (48 + k) else Char.ofNat (87 + k)
  String.ofList [d (n / 16), d (n % 16)]

def bitset : Suite where
  σ := Regs BitSet
  init := ⟨BitSet.new, BitSet.new, BitSet.new, BitSet.new⟩
  step r toks :=
    let upd (n : String) (f : BitSet → BitSet) : Regs BitSet × String :=
      match r.get n with
      | some x => match r.put n (f x) with
          | some r' => (r', "ok")
          | none => (r, "bad-op")
      | none => (r, "bad-op")
    let rd (n : String) (f : BitSet → String) : Regs BitSet × String :=
      match r.get n with
      | some x => (r, f x)
      | none => (r, "bad-op")
    let rd2 (n m : String) (f : BitSet → BitSet → Bool) : Regs BitSet × String :=
      match r.get n, r.get m with
      | some x, some y => (r, fmtBool (f x y))
      | _, _ => (r, "bad-op")
    match toks with
    | ["new", n] => upd n (fun _ => BitSet.new)
    | ["zero", n] => upd n (fun _ => BitSet.zero)
    | ["set", n, p] => match pos? p with
        | some p => upd n (fun x => x.set p)
        | none => (r, "bad-op")
    | ["clear", n, p] => match pos? p with
        | some p => upd n (fun x => x.clear p)
        | none => (r, "bad-op")
    | ["isset", n, p] => match pos? p with
        | some p => rd n (fun x => fmtBool (x.isSet p))
        | none => (r, "bad-op")
    | ["bits", n] => rd n (fun x => fmtNats x.bitsOf)
    | ["words", n] => rd n (fun x => toString x.words)
    | ["key", n] => rd n (fun x => "k" ++ String.join (x.key.map hexByte))
    | ["copy", n, m] => match r.get n with
        | some x => match r.put m x.copy with
            | some r' => (r', "ok")
            | none => (r, "bad-op")
        | none => (r, "bad-op")
    | ["equal", n, m] => rd2 n m BitSet.equal
    | ["equalx", n, m] => rd2 n m BitSet.equal
    | ["in", n, m] => rd2 n m BitSet.isIn
    | ["inx", n, m] => rd2 n m BitSet.isIn
    | ["notin", n, m] => rd2 n m BitSet.notIn
    | _ => (r, "bad-op")

/-- abstract spec: a set of positions (sorted duplicate-free list) -/
def setIns (p : Nat) : List Nat → List Nat
  | [] => [p]
  | x :: xs => if p < x then p :: x :: xs else if p = x then x :: xs else x :: setIns p xs

def bitsetSpec : Suite where
  σ := Regs (List Nat)
  init := ⟨[], [], [], []⟩
  step r toks :=
    let upd (n : String) (f : List Nat → List Nat) : Regs (List Nat) × String :=
      match r.get n with
      | some x => match r.put n (f x) with
          | some r' => (r', "ok")
          | none => (r, "bad-op")
      | none => (r, "bad-op")
    let rd2 (n m : String) (f : List Nat → List Nat → Bool) : Regs (List Nat) × String :=
      match r.get n, r.get m with
      | some x, some y => (r, fmtBool (f x y))
      | _, _ => (r, "bad-op")
    match toks with
    | ["new", n] => upd n (fun _ => [])
    | ["zero", n] => upd n (fun _ => [])
    | ["set", n, p] => match pos? p with
        | some p => upd n (setIns p)
        | none => (r, "bad-op")
    | ["clear", n, p] => match pos? p with
        | some p => upd n (fun x => x.filter (· ≠ p))
        | none => (r, "bad-op")
    | ["isset", n, p] => match pos? p, r.get n with
        | some p, some x => (r, fmtBool (x.contains p))
        | _, _ => (r, "bad-op")
    | ["bits", n] => match r.get n with
        | some x => (r, fmtNats x)
        | none => (r, "bad-op")
    | ["words", n] => if (r.get n).isSome then (r, "-") else (r, "bad-op")
    | ["key", n] => if (r.get n).isSome then (r, "-") else (r, "bad-op")
    | ["copy", n, m] => match r.get n with
        | some x => match r.put m x with
            | some r' => (r', "ok")
            | none => (r, "bad-op")
        | none => (r, "bad-op")
    | ["equal", n, m] => rd2 n m (fun x y => x == y)
    | ["equalx", n, m] => rd2 n m (fun x y => x == y)
    | ["in", n, m] => rd2 n m (fun x y => y.all (fun p => x.contains p))
    | ["inx", n, m] => rd2 n m (fun x y => y.all (fun p => x.contains p))
    | ["notin", n, m] => rd2 n m (fun x y => y.all (fun p => !x.contains p))
    | _ => (r, "bad-op")

end Oracle.C16
