import Oracle.Proto
import MV.Model.Ring
import MV.Spec.Queue
namespace Oracle.Ring
open MV.Model MV.Model.Ring

def parseOp : List String → Option Op
  | ["write", v] => v.toInt?.map .write
  | ["read"] => some .read
  | ["readmulti", n] => n.toInt?.map .readMulti
  | ["readall"] => some .readAll
  | ["peek"] => some .peek
  | ["isempty"] => some .isEmpty
  | ["len"] => some .len
  | ["cap"] => some .cap
  | ["reset"] => some .reset
  | _ => none

def fmtOut : Out → String
  | .unit => "ok"
  | .val v => toString v
  | .empty => "empty"
  | .nil => "nil"
  | .list l => fmtInts l
  | .bool b => fmtBool b
  | .nat n => toString n

/-- model suite: `new k` (re)creates the ring, every other line is an `Op` -/
def model : Suite where
  σ := MV.Model.Ring Int
  init := Ring.new 0 2
  step b toks := match toks with
    | ["new", k] => match k.toInt? with
        | some k => (Ring.new 0 k, "ok")
        | none => (b, "bad-op")
    | ["new"] => (Ring.new 0 2, "ok")
    | _ => match parseOp toks with
        | some op => let (b', o) := Ring.step b op; (b', fmtOut o)
        | none => (b, "bad-op")

/-- spec suite: the abstract list queue; `cap` answers `-` (not determined by the spec) -/
def spec : Suite where
  σ := List Int
  init := []
  step l toks := match toks with
    | ["new", _] => ([], "ok")
    | ["new"] => ([], "ok")
    | _ => match parseOp toks with
        | some .cap => (l, "-")
        | some op => let (l', o) := MV.Spec.Queue.step l op; (l', fmtOut o)
        | none => (l, "bad-op")

end Oracle.Ring
