import Oracle.C16Fmt
import MV.Model.LockFacts
import MV.Model.SyncMap
import MV.Model.OrderMap
import MV.Model.PrioritySlice
/-! Oracle suites of the synchronized variants: lock-discipline facts and the concurrent stress runs. -/
namespace Oracle.C16
open MV.Model

/-! ## lockfacts -/
open MV.Model.LockFacts in
def fmtTok : Tok → String
  | .L => "L" | .R => "R" | .U => "U" | .RU => "RU" | .dU => "dU" | .dRU => "dRU"
  | .A => "A" | .W => "W" | .Ai => "Ai" | .Wi => "Wi"
  | .cu n => "cu:" ++ n | .cx n => "cx:" ++ n | .ret => "ret"

open MV.Model.LockFacts in
def parseTok (s : String) : Option Tok :=
  match s with
  | "L" => some .L | "R" => some .R | "U" => some .U | "RU" => some .RU | "dU" => some .dU | "dRU" => some .dRU
  | "A" => some .A | "W" => some .W | "Ai" => some .Ai | "Wi" => some .Wi | "ret" => some .ret
  | _ => if s.startsWith "cu:" then some (.cu (s.drop 3).toString)
         else if s.startsWith "cx:" then some (.cx (s.drop 3).toString) else none

open MV.Model.LockFacts in
def fmtPaths (ps : List (List Tok)) : String :=
  " | ".intercalate (ps.map (fun p => if p.isEmpty then "-" else " ".intercalate (p.map fmtTok)))

/-- split a token list at `|` -/
def splitBars : List String → List (List String)
  | [] => [[]]
  | t :: ts =>
    match splitBars ts with
    | [] => [[t]]
    | g :: gs => if t = "|" then [] :: g :: gs else (t :: g) :: gs

open MV.Model.LockFacts in
def parsePaths (toks : List String) : Option (List (List Tok)) :=
  (splitBars toks).mapM (fun g => if g = ["-"] then some [] else g.mapM parseTok)

open MV.Model.LockFacts in
def fmtVerdict : Verdict → String
  | .ok => "ok"
  | .relock => "bad:lock-while-held"
  | .unlockOfUnlocked => "bad:unlock-of-unlocked-mutex"
  | .unlockedRead => "bad:read-of-guarded-field-without-lock"
  | .unlockedWrite => "bad:write-of-guarded-field-without-write-lock"
  | .panicLeaksLock => "bad:index-can-panic-while-unlock-is-not-deferred"
  | .helperWithoutWriteLock => "bad:unexported-helper-called-without-write-lock"
  | .selfDeadlock => "bad:locking-method-called-while-lock-held"
  | .lockLeak => "bad:lock-still-held-at-return"

/-- model: the expected extraction from `MV.Model.LockFacts.table` -/
def lockfacts : Suite where
  σ := Unit
  init := ()
  step _ toks := match toks with
    | ["lockfacts", f, m] =>
      match LockFacts.table.find? (fun e => e.file == f && e.method == m) with
      | some e => ((), fmtPaths e.paths)
      | none => ((), "unknown-method")
    | _ => ((), "bad-op")

/-- judge: the discipline predicate on what the harness extracted -/
def lockfactsJudge : Suite where
  σ := Unit
  init := ()
  step _ toks :=
    let (opT, outT) := toks.span (· ≠ "=>")
    match opT, parsePaths (outT.drop 1) with
    | ["lockfacts", _, _], some ps => ((), fmtVerdict (LockFacts.checkAll ps))
    | ["lockfacts", _, _], none => ((), "bad:unparsable-facts")
    | _, _ => ((), "bad-op")

/-! ## stress: expected final content = the programs run one after the other on the sequential model -/

inductive SOp where
  | set (k v : Int) | del (k : Int) | delExist (k : Int) | get (k : Int)
  | app (p v : Int) | apps (p : Int) (vs : List Int)

def parseSOp (s : String) : Option SOp :=
  match s.splitOn ":" with
  | ["s", k, v] => do some (.set (← int? k) (← int? v))
  | ["d", k] => do some (.del (← int? k))
  | ["x", k] => do some (.delExist (← int? k))
  | ["g", k] => do some (.get (← int? k))
  | ["a", p, v] => do some (.app (← int? p) (← int? v))
  | ["A", p, vs] => do
      let l ← (if vs = "" then some [] else (vs.splitOn ",").mapM int?)
      some (.apps (← int? p) l)
  | _ => none

def stressExpected (typ : String) (ops : List SOp) : Option String :=
  match typ with
  | "syncmap" =>
    let m := ops.foldl (fun (m : FMap) o => match o with
      | .set k v => (SyncMap.step m (.set k v)).1
      | .del k => (SyncMap.step m (.delete k)).1
      | .delExist k => (SyncMap.step m (.deleteExist k)).1
      | .get k => (SyncMap.step m (.getExist k)).1
      | _ => m) []
    some (fmtRows m.entries ++ " n=" ++ toString m.size)
  | "ordersync" =>
    let o := ops.foldl (fun (o : OrderMap) op => match op with
      | .set k v => (OrderMap.step o (.set k v)).1
      | .del k => (OrderMap.step o (.del k)).1
      | .delExist k => (OrderMap.step o (.del k)).1
      | .get k => (OrderMap.step o (.get k)).1
      | _ => o) OrderMap.new
    some (fmtRows (sortRows (o.value.map (fun e => [e.1, e.2]))) ++ " n=" ++ toString o.value.length)
  | "mbucket" | "bucket" =>
    let b := ops.foldl (fun (b : Bucket) op => match op with
      | .set k v => (Bucket.step Bucket.hash b (.set k v)).1
      | .del k => (Bucket.step Bucket.hash b (.del k)).1
      | .delExist k => (Bucket.step Bucket.hash b (.del k)).1
      | .get k => (Bucket.step Bucket.hash b (.get k)).1
      | _ => b) (Bucket.new 4)
    let all : FMap := b.buckets.flatten
    some (fmtRows all.entries ++ " n=" ++ toString b.len)
  | "syncprio" =>
    let l := ops.foldl (fun (l : List PrioritySlice.Item) op => match op with
      | .app p v => (PrioritySlice.step PrioritySlice.isortP l (.append v p)).1
      | .apps p vs => (PrioritySlice.step PrioritySlice.isortP l (.appends p vs)).1
      | _ => l) []
    some (fmtRows (sortRows (l.map (fun it => [it.1, it.2]))) ++ " n=" ++ toString l.length ++ " sorted=true")
  | "syncslice" =>
    let l := ops.foldl (fun (l : List Int) op => match op with
      | .app _ v => (SyncSlice.step l (.append [v])).1
      | .apps _ vs => (SyncSlice.step l (.append vs)).1
      | _ => l) []
    some (fmtInts (sortInts l) ++ " n=" ++ toString l.length)
  | _ => none

def stress : Suite where
  σ := Unit
  init := ()
  step _ toks := match toks with
    | hd :: "|" :: rest =>
      if hd.startsWith "stress:" then
        match (rest.filter (· ≠ "|")).mapM parseSOp with
        | some ops => match stressExpected (hd.drop 7).toString ops with
            | some s => ((), s)
            | none => ((), "bad-op")
        | none => ((), "bad-op")
      else ((), "bad-op")
    | _ => ((), "bad-op")

end Oracle.C16
