import Oracle.CollParse
/-!
Model oracle of the C17 suites `c17-edit` and `c17-query`: every op line names a Go helper and
carries its arguments; the answer is what the Lean model function of that helper returns, printed
in the canonical form used by the harness.
-/
namespace Oracle.Coll
open MV.Model.Coll

def isInPlaceOp (n : String) : Bool :=
  n == "DeduplicateSliceInPlace" || n == "DeduplicateSliceInPlaceWithCompare" || n == "ReverseSlice" || n == "SwapSlice" ||
  n == "ClearSlice" || n == "DropSliceByIndices" || n == "DropSliceByCondition" || n == "DropSliceOverlappingElements"

/-- print the outcome of an in-place helper -/
def fInPlace (backing : Bool) (r : Option InPlace) : String :=
  if backing then fSl (r.map (·.backing)) else fSl (r.map InPlace.result) ++ argsU

def okNilPtr : String := "ok" ++ argsU

/-- ops of duplicate/clone/merge/convert/filter/drop -/
def editStep (name : String) (backing : Bool) (a : List String) : Option String :=
  match name, a with
  -- duplicate.go
  | "DeduplicateSliceInPlace", ["nilptr"] => some okNilPtr
  | "DeduplicateSliceInPlace", [s] => (pInts s).map fun s => fInPlace backing (deduplicateSliceInPlace s)
  | "DeduplicateSlice", [s] => (pInts s).map fun s => fSl (deduplicateSlice s) ++ argsU
  | "DeduplicateSliceInPlaceWithCompare", ["nilptr", c] => (cmpOf c).map fun _ => okNilPtr
  | "DeduplicateSliceInPlaceWithCompare", [s, c] => do
      let s ← pInts s; let c ← cmpOf c
      pure (fInPlace backing (deduplicateSliceInPlaceWithCompare s c))
  | "DeduplicateSliceWithCompare", [s, c] => do
      let s ← pInts s; let c ← optCb cmpOf c
      pure (fSl (deduplicateSliceWithCompare s c) ++ argsU)
  -- clone.go
  | "CloneSlice", [s] => (pInts s).map fun s => fSl (cloneSlice s) ++ argsU ++ indep
  | "CloneMap", [m] => (pMap m).map fun m => fMp (cloneMap m) ++ argsU ++ indep
  | "CloneSliceN", [s, n] => do
      let s ← pInts s; let n ← pInt n
      if n > 64 then none else pure (fSls (cloneSliceN s n) ++ argsU ++ indep)
  | "CloneMapN", [m, n] => do
      let m ← pMap m; let n ← pInt n
      if n > 64 then none else pure (fMps (cloneMapN m n) ++ argsU ++ indep)
  | "CloneSlices", [ss] => (pIntss ss).map fun ss => fSls (cloneSlices ss) ++ argsU ++ indep
  | "CloneMaps", [ms] => (pMaps ms).map fun ms => fMps (cloneMaps ms) ++ argsU ++ indep
  -- merge.go
  | "MergeSlice", [s] => (pInts s).map fun s => fSl (mergeSlice s) ++ argsU ++ indep
  | "MergeSlices", [ss] => (pIntss ss).map fun ss => fSl (mergeSlices ss) ++ argsU ++ indep
  | "MergeMaps", [ms] => (pMaps ms).map fun ms => fMp (mergeMaps ms) ++ argsU ++ indep
  | "MergeMapsWithSkip", [ms] => (pMaps ms).map fun ms => fMp (mergeMapsWithSkip ms) ++ argsU ++ indep
  -- convert.go
  | "ConvertSliceToBatches", [s, n] => do
      let s ← pInts s; let n ← pInt n
      pure (fIntss (convertSliceToBatches s n) ++ argsU)
  | "ConvertSliceToAny", [s] => (pInts s).map fun s => fSl (convertSliceToAny s) ++ argsU
  | "ConvertSliceToIndexMap", [s] => (pInts s).map fun s => fMp (convertSliceToIndexMap s) ++ argsU
  | "ConvertSliceToIndexOnlyMap", [s] => (pInts s).map fun s => fSet (convertSliceToIndexOnlyMap s) ++ argsU
  | "ConvertSliceToMap", [s] => (pInts s).map fun s => fSet (convertSliceToMap s) ++ argsU
  | "ConvertSliceToBoolMap", [s] => (pInts s).map fun s => fBoolMap (convertSliceToBoolMap s) ++ argsU
  | "ConvertMapValuesToBoolMap", [m] => (pMap m).map fun m => fBoolMap (convertMapValuesToBoolMap m) ++ argsU
  | "ConvertMapValuesToBool", [m] => (pMap m).map fun m => fBoolMap (convertMapValuesToBool m) ++ argsU
  | "InvertMap", [m] => (pMap m).map fun m =>
      -- with two keys sharing a value the survivor depends on the iteration order: judged in c17-order
      if MV.Spec.Coll.distinct (valsOf m.ents) then fMp (invertMap m) ++ argsU else "-"
  | "ReverseSlice", ["nilptr"] => some okNilPtr
  | "ReverseSlice", [s] => (pInts s).map fun s => fInPlace backing (reverseSlice s)
  -- item.go, calc.go, map.go
  | "SwapSlice", [s, i, j] => do
      if s == "nilptr" then none else
      let s ← pInts s; let i ← pInt i; let j ← pInt j
      pure (fInPlace backing (swapSlice s i j))
  | "SliceSum", [s, h] => do
      let s ← pInts s; let h ← sumIdxOf h
      pure (toString (sliceSum s h) ++ argsU)
  | "MapSum", [m, h] => do
      let m ← pMap m; let h ← sumKVOf h
      pure (toString (mapSum m h) ++ argsU)
  | "MappingFromSlice", [s, g] => do
      let s ← pInts s; let g ← getterOf g
      pure (fSl (mappingFromSlice s g) ++ argsU)
  | "MappingFromMap", [m, g] => do
      let m ← pMap m; let g ← getterOf g
      pure (fMp (mappingFromMap m g) ++ argsU)
  -- filter.go
  | "FilterOutByIndices", [s, i] => do
      let s ← pInts s; let i ← pInts i
      pure (fSl (filterOutByIndices s i) ++ argsU)
  | "FilterOutByCondition", [s, p] => do
      let s ← pInts s; let p ← optCb predOf p
      pure (fSl (filterOutByCondition s p) ++ argsU)
  | "FilterOutByKey", [m, k] => do
      let m ← pMap m; let k ← pInt k
      pure (fMp (filterOutByKey m k) ++ argsU)
  | "FilterOutByValue", [m, v, c] => do
      let m ← pMap m; let v ← pInt v; let c ← cmpOf c
      pure (fMp (filterOutByValue m v c) ++ argsU)
  | "FilterOutByKeys", [m, ks] => do
      let m ← pMap m; let ks ← pInts ks
      pure (fMp (filterOutByKeys m ks) ++ argsU)
  | "FilterOutByValues", [m, vs, c] => do
      let m ← pMap m; let vs ← pInts vs; let c ← cmpOf c
      pure (fMp (filterOutByValues m vs c) ++ argsU)
  | "FilterOutByMap", [m, c] => do
      let m ← pMap m; let c ← optCb mapcondOf c
      pure (fMp (filterOutByMap m c) ++ argsU)
  -- drop.go
  | "ClearSlice", ["nilptr"] => some okNilPtr
  | "ClearSlice", [s] => (pInts s).map fun s => fInPlace backing (clearSlice s)
  | "ClearMap", [m] => (pMap m).map fun m => fMp (clearMap m)
  | "DropSliceByIndices", ["nilptr", i] => (pInts i).map fun _ => okNilPtr
  | "DropSliceByIndices", [s, i] => do
      let s ← pInts s; let i ← pInts i
      pure (fInPlace backing (dropSliceByIndices s i))
  | "DropSliceByCondition", ["nilptr", p] => (optCb predOf p).map fun _ => okNilPtr
  | "DropSliceByCondition", [s, p] => do
      let s ← pInts s; let p ← optCb predOf p
      pure (fInPlace backing (dropSliceByCondition s p))
  | "DropSliceOverlappingElements", ["nilptr", o, c] => do
      let _ ← pInts o; let _ ← optCb cmpOf c
      pure okNilPtr
  | "DropSliceOverlappingElements", [s, o, c] => do
      let s ← pInts s; let o ← pInts o; let c ← optCb cmpOf c
      pure (fInPlace backing (dropSliceOverlappingElements s o c))
  | _, _ => none

def fPanic {α : Type} (f : α → String) : Option α → String
  | none => "panic"
  | some a => f a ++ argsU

/-- ops of contains/find and the deterministic part of loop/sort -/
def queryStep (name : String) (a : List String) : Option String :=
  let ssc (f : Sl → Sl → (Int → Int → Bool) → Bool) : Option String := match a with
    | [x, y, c] => do let x ← pInts x; let y ← pInts y; let c ← cmpOf c; pure (fBool (f x y c) ++ argsU)
    | _ => none
  let ss (f : Sl → Sl → Bool) : Option String := match a with
    | [x, y] => do let x ← pInts x; let y ← pInts y; pure (fBool (f x y) ++ argsU)
    | _ => none
  let svc (f : Sl → Int → (Int → Int → Bool) → Bool) : Option String := match a with
    | [x, v, c] => do let x ← pInts x; let v ← pInt v; let c ← cmpOf c; pure (fBool (f x v c) ++ argsU)
    | _ => none
  let sv (f : Sl → Int → Bool) : Option String := match a with
    | [x, v] => do let x ← pInts x; let v ← pInt v; pure (fBool (f x v) ++ argsU)
    | _ => none
  let Svc (f : Option (List Sl) → Int → (Int → Int → Bool) → Bool) : Option String := match a with
    | [x, v, c] => do let x ← pIntss x; let v ← pInt v; let c ← cmpOf c; pure (fBool (f x v c) ++ argsU)
    | _ => none
  let Sv (f : Option (List Sl) → Int → Bool) : Option String := match a with
    | [x, v] => do let x ← pIntss x; let v ← pInt v; pure (fBool (f x v) ++ argsU)
    | _ => none
  let Ssc (f : Option (List Sl) → Sl → (Int → Int → Bool) → Bool) : Option String := match a with
    | [x, y, c] => do let x ← pIntss x; let y ← pInts y; let c ← cmpOf c; pure (fBool (f x y c) ++ argsU)
    | _ => none
  let Ss (f : Option (List Sl) → Sl → Bool) : Option String := match a with
    | [x, y] => do let x ← pIntss x; let y ← pInts y; pure (fBool (f x y) ++ argsU)
    | _ => none
  let mvc (f : Mp → Int → (Int → Int → Bool) → Bool) : Option String := match a with
    | [m, v, c] => do let m ← pMap m; let v ← pInt v; let c ← cmpOf c; pure (fBool (f m v c) ++ argsU)
    | _ => none
  let ms (f : Mp → Sl → Bool) : Option String := match a with
    | [m, y] => do let m ← pMap m; let y ← pInts y; pure (fBool (f m y) ++ argsU)
    | _ => none
  let msc (f : Mp → Sl → (Int → Int → Bool) → Bool) : Option String := match a with
    | [m, y, c] => do let m ← pMap m; let y ← pInts y; let c ← cmpOf c; pure (fBool (f m y c) ++ argsU)
    | _ => none
  let Ms (f : Option (List Mp) → Sl → Bool) : Option String := match a with
    | [m, y] => do let m ← pMaps m; let y ← pInts y; pure (fBool (f m y) ++ argsU)
    | _ => none
  let Msc (f : Option (List Mp) → Sl → (Int → Int → Bool) → Bool) : Option String := match a with
    | [m, y, c] => do let m ← pMaps m; let y ← pInts y; let c ← cmpOf c; pure (fBool (f m y c) ++ argsU)
    | _ => none
  let s1 (f : List Int → String) : Option String := match a with
    | [x] => (pInts x).map fun x => f x.els ++ argsU
    | _ => none
  let sg (f : List Int → (Int → Int) → String) : Option String := match a with
    | [x, g] => do let x ← pInts x; let g ← getterOf g; pure (f x.els g ++ argsU)
    | _ => none
  let sp (f : List Int → (Int → Bool) → String) : Option String := match a with
    | [x, p] => do let x ← pInts x; let p ← predOf p; pure (f x.els p ++ argsU)
    | _ => none
  let m1 (f : Mp → String) : Option String := match a with
    | [m] => (pMap m).map fun m => f m ++ argsU
    | _ => none
  match name with
  -- contains.go
  | "EqualSlice" => ssc equalSlice
  | "EqualComparableSlice" => ss equalComparableSlice
  | "EqualMap" => match a with
    | [x, y, c] => do let x ← pMap x; let y ← pMap y; let c ← cmpOf c; pure (fBool (equalMap x y c) ++ argsU)
    | _ => none
  | "EqualComparableMap" => match a with
    | [x, y] => do let x ← pMap x; let y ← pMap y; pure (fBool (equalComparableMap x y) ++ argsU)
    | _ => none
  | "InSlice" => svc (fun s v c => inSlice s.els v c)
  | "InComparableSlice" => sv (fun s v => inComparableSlice s.els v)
  | "AllInSlice" => ssc (fun s vs c => allInSlice s.els vs.els c)
  | "AllInComparableSlice" => ss (fun s vs => allInComparableSlice s.els vs.els)
  | "AnyInSlice" => ssc (fun s vs c => anyInSlice s.els vs.els c)
  | "AnyInComparableSlice" => ss (fun s vs => anyInComparableSlice s.els vs.els)
  | "InSlices" => Svc inSlices
  | "InComparableSlices" => Sv inComparableSlices
  | "AllInSlices" => Ssc (fun x vs c => allInSlices x vs.els c)
  | "AllInComparableSlices" => Ss (fun x vs => allInComparableSlices x vs.els)
  | "AnyInSlices" => Ssc (fun x vs c => anyInSlices x vs.els c)
  | "AnyInComparableSlices" => Ss (fun x vs => anyInComparableSlices x vs.els)
  | "InAllSlices" => Svc inAllSlices
  | "InAllComparableSlices" => Sv inAllComparableSlices
  | "AnyInAllSlices" => Ssc (fun x vs c => anyInAllSlices x vs.els c)
  | "AnyInAllComparableSlices" => Ss (fun x vs => anyInAllComparableSlices x vs.els)
  | "KeyInMap" => match a with
    | [m, k] => do let m ← pMap m; let k ← pInt k; pure (fBool (keyInMap m.ents k) ++ argsU)
    | _ => none
  | "ValueInMap" => mvc (fun m v c => valueInMap m.ents v c)
  | "AllKeyInMap" => ms (fun m ks => allKeyInMap m.ents ks.els)
  | "AllValueInMap" => msc (fun m vs c => allValueInMap m.ents vs.els c)
  | "AnyKeyInMap" => ms (fun m ks => anyKeyInMap m.ents ks.els)
  | "AnyValueInMap" => msc (fun m vs c => anyValueInMap m.ents vs.els c)
  | "AllKeyInMaps" => Ms (fun m ks => allKeyInMaps m ks.els)
  | "AllValueInMaps" => Msc (fun m vs c => allValueInMaps m vs.els c)
  | "AnyKeyInMaps" => Ms (fun m ks => anyKeyInMaps m ks.els)
  | "AnyValueInMaps" => Msc (fun m vs c => anyValueInMaps m vs.els c)
  | "KeyInAllMaps" => match a with
    | [m, k] => do let m ← pMaps m; let k ← pInt k; pure (fBool (keyInAllMaps m k) ++ argsU)
    | _ => none
  | "AnyKeyInAllMaps" => Ms (fun m ks => anyKeyInAllMaps m ks.els)
  -- find.go
  | "FindLoopedNextInSlice" => match a with
    | [s, i] => do let s ← pInts s; let i ← pInt i; pure (fPanic fPair (findLoopedNextInSlice s.els i))
    | _ => none
  | "FindLoopedPrevInSlice" => match a with
    | [s, i] => do let s ← pInts s; let i ← pInt i; pure (fPanic fPair (findLoopedPrevInSlice s.els i))
    | _ => none
  | "FindCombinationsInSliceByRange" => match a with
    | [s, lo, hi] => do
      let s ← pInts s; let lo ← pInt lo; let hi ← pInt hi
      if s.els.length > 12 then none else pure (fIntss (findCombinationsInSliceByRange s.els lo hi) ++ argsU)
    | _ => none
  | "FindFirstOrDefaultInSlice" => match a with
    | [s, d] => do let s ← pInts s; let d ← pInt d; pure (toString (findFirstOrDefaultInSlice s.els d) ++ argsU)
    | _ => none
  | "FindOrDefaultInSlice" => match a with
    | [s, d, p] => do let s ← pInts s; let d ← pInt d; let p ← predOf p; pure (toString (findOrDefaultInSlice s.els d p) ++ argsU)
    | _ => none
  | "FindOrDefaultInComparableSlice" => match a with
    | [s, v, d] => do let s ← pInts s; let v ← pInt v; let d ← pInt d; pure (toString (findOrDefaultInComparableSlice s.els v d) ++ argsU)
    | _ => none
  | "FindInSlice" => sp (fun l p => fPair (findInSlice l p))
  | "FindIndexInSlice" => sp (fun l p => toString (findIndexInSlice l p))
  | "FindInComparableSlice" => match a with
    | [s, v] => do let s ← pInts s; let v ← pInt v; pure (fPair (findInComparableSlice s.els v) ++ argsU)
    | _ => none
  | "FindIndexInComparableSlice" => match a with
    | [s, v] => do let s ← pInts s; let v ← pInt v; pure (toString (findIndexInComparableSlice s.els v) ++ argsU)
    | _ => none
  | "FindMinimumInComparableSlice" => s1 (fun l => toString (findMinimumInComparableSlice l))
  | "FindMaximumInComparableSlice" => s1 (fun l => toString (findMaximumInComparableSlice l))
  | "FindMin2MaxInComparableSlice" => s1 (fun l => fPair (findMin2MaxInComparableSlice l))
  | "FindMinimumInSlice" => sg (fun l g => toString (findMinimumInSlice l g))
  | "FindMaximumInSlice" => sg (fun l g => toString (findMaximumInSlice l g))
  | "FindMin2MaxInSlice" => sg (fun l g => fPair (findMin2MaxInSlice l g))
  | "FindMinFromComparableMap" => m1 (fun m => toString (findMinFromComparableMap m))
  | "FindMaxFromComparableMap" => m1 (fun m => toString (findMaxFromComparableMap m))
  | "FindMin2MaxFromComparableMap" => m1 (fun m => fPair (findMin2MaxFromComparableMap m))
  | "FindMin2MaxFromMap" => m1 (fun m => fPair (findMin2MaxFromMap m))
  | "IsFirst" => sv (fun s v => isFirst s.els v)
  -- loop.go
  | "LoopSlice" => match a with
    | [s, st] => do let s ← pInts s; let st ← pNat st; pure (fVisits2 (loopSlice s.els st) ++ argsU)
    | _ => none
  | "ReverseLoopSlice" => match a with
    | [s, st] => do let s ← pInts s; let st ← pNat st; pure (fVisits2 (reverseLoopSlice s.els st) ++ argsU)
    | _ => none
  | "LoopMapByOrderedKeyAsc" => match a with
    | [m, st] => do let m ← pMap m; let st ← pNat st; pure (fVisits3 (loopMapByOrderedKeyAsc m st) ++ argsU)
    | _ => none
  | "LoopMapByOrderedKeyDesc" => match a with
    | [m, st] => do let m ← pMap m; let st ← pNat st; pure (fVisits3 (loopMapByOrderedKeyDesc m st) ++ argsU)
    | _ => none
  -- sort.go
  | "AscBy" => match a with
    | [x, y] => do let x ← pInt x; let y ← pInt y; pure (fBool (ascBy x y))
    | _ => none
  | "DescBy" => match a with
    | [x, y] => do let x ← pInt x; let y ← pInt y; pure (fBool (descBy x y))
    | _ => none
  | _ => none

/-- split an op line into helper name, `.backing` flag and arguments -/
def parseLine (toks : List String) : Option (String × Bool × List String) :=
  match splitTop (" ".intercalate toks) with
  | [] => none
  | n :: a =>
    if n.endsWith ".backing" then
      let base := (n.dropEnd 8).toString
      if isInPlaceOp base then some (base, true, a) else none
    else some (n, false, a)

def modelAnswer (toks : List String) : String :=
  match parseLine toks with
  | none => "bad-op"
  | some (n, backing, a) =>
    match editStep n backing a with
    | some o => o
    | none => if backing then "bad-op" else (queryStep n a).getD "bad-op"

def model : Suite where
  σ := Unit
  init := ()
  step _ toks := ((), modelAnswer toks)

end Oracle.Coll
