import Oracle.Proto
import MV.Model.Chrono
import MV.Spec.Chrono
/-!
# Oracle suites for `toolkit/chrono` (C19)

Every line is self-contained (the functions are pure): `<op> <ints…>`.  Instants are nanoseconds
since the Unix epoch, zone offsets are seconds east, a returned `time.Time` is printed as
`ns off`.  Suites:

* `chrono` / `period` — the model (`MV.Model.Chrono`), compared exactly with the Go code;
* `chrono-spec` / `period-spec` — the closed-form functional spec (`MV.Spec.Chrono`); `-` where the
  spec does not determine the answer (malformed weekday / time of day, mixed zones);
* `chrono-judge` / `period-judge` — the `Bool` judges of `MV.Spec.Chrono` with a constant zone;
* `dst-judge` — the same judges with the zone's transition table that the harness read from tzdata.
-/
namespace Oracle.Chrono
open MV.Model MV.Model.Chrono MV.Model.Civil

def ints (toks : List String) : Option (List Int) := toks.mapM (·.toInt?)
def b2i (b : Bool) : Int := if b then 1 else 0
def tm (t : Time) : List Int := [t.ns, t.off]
def pd (p : Period) : List Int := tm p.1 ++ tm p.2

def weekdays : List Int := [0, 1, 2, 3, 4, 5, 6]
def weekOffsets : List Int := [-2, -1, 0, 1, 2]

/-- the times of day `sweep` asks `GetNextMoment` for, relative to the instant's own time of day -/
def sweepMoments (t : Time) : List (Int × Int × Int) :=
  let s := t.hour * 3600 + t.minute * 60 + t.second
  let hms (x : Int) : Int × Int × Int := let x := x % 86400; (x / 3600, x / 60 % 60, x % 60)
  [(0, 0, 0), hms s, hms (s + 1), hms (s - 1), (12, 0, 0), (23, 59, 59)]

/-- one line that evaluates the whole day/week family on one instant (used for the full-cycle sweep) -/
def sweepModel (t : Time) : List Int :=
  (getStartOfDay t).ns :: (getEndOfDay t).ns :: (getRelativeStartOfDay t (-1)).ns ::
  (getRelativeStartOfDay t 1).ns :: (getRelativeEndOfDay t 1).ns :: getMonthDays t ::
  (weekdays.flatMap fun wd => [(getStartOfWeek t wd).ns, (getEndOfWeek t wd).ns]) ++
  (weekdays.flatMap fun wd => weekOffsets.map fun k => (getRelativeStartOfWeek t wd k).ns) ++
  (weekdays.flatMap fun wd => [(getRelativeEndOfWeek t wd 1).ns, (getRelativeTimeOfWeek t wd (-1)).ns]) ++
  ((sweepMoments t).map fun (h, m, s) => (getNextMoment t.off t h m s).ns)

def modelStep : List String → String
  | "civil" :: r => match ints r with
    | some [off, ns] =>
      let t : Time := ⟨ns, off⟩
      fmtInts [t.year, t.month, t.day, t.hour, t.minute, t.second, t.nanosecond, t.weekday, t.unix]
    | _ => "bad-op"
  | "date" :: r => match ints r with
    | some [off, y, mo, d, h, mi, s, ns] => toString (Civil.date off y mo d h mi s ns)
    | _ => "bad-op"
  | "adddate" :: r => match ints r with
    | some [off, ns, y, m, d] => toString (Civil.addDate off ns y m d)
    | _ => "bad-op"
  | "trunc" :: r => match ints r with
    | some [ns, d] => toString (Civil.truncate ns d)
    | _ => "bad-op"
  | "sod" :: r => match ints r with
    | some [off, ns] => fmtInts (tm (getStartOfDay ⟨ns, off⟩))
    | _ => "bad-op"
  | "eod" :: r => match ints r with
    | some [off, ns] => fmtInts (tm (getEndOfDay ⟨ns, off⟩))
    | _ => "bad-op"
  | "rsod" :: r => match ints r with
    | some [off, ns, k] => fmtInts (tm (getRelativeStartOfDay ⟨ns, off⟩ k))
    | _ => "bad-op"
  | "reod" :: r => match ints r with
    | some [off, ns, k] => fmtInts (tm (getRelativeEndOfDay ⟨ns, off⟩ k))
    | _ => "bad-op"
  | "sow" :: r => match ints r with
    | some [off, ns, wd] => fmtInts (tm (getStartOfWeek ⟨ns, off⟩ wd))
    | _ => "bad-op"
  | "eow" :: r => match ints r with
    | some [off, ns, wd] => fmtInts (tm (getEndOfWeek ⟨ns, off⟩ wd))
    | _ => "bad-op"
  | "rsow" :: r => match ints r with
    | some [off, ns, wd, k] => fmtInts (tm (getRelativeStartOfWeek ⟨ns, off⟩ wd k))
    | _ => "bad-op"
  | "reow" :: r => match ints r with
    | some [off, ns, wd, k] => fmtInts (tm (getRelativeEndOfWeek ⟨ns, off⟩ wd k))
    | _ => "bad-op"
  | "rtow" :: r => match ints r with
    | some [off, ns, wd, k] => fmtInts (tm (getRelativeTimeOfWeek ⟨ns, off⟩ wd k))
    | _ => "bad-op"
  | "next" :: r => match ints r with
    | some [loc, off, ns, h, mi, s] => fmtInts (tm (getNextMoment loc ⟨ns, off⟩ h mi s))
    | _ => "bad-op"
  | "passed" :: r => match ints r with
    | some [loc, off, ns, h, mi, s] => fmtBool (isMomentPassed loc ⟨ns, off⟩ h mi s)
    | _ => "bad-op"
  | "future" :: r => match ints r with
    | some [loc, off, ns, h, mi, s] => fmtBool (isMomentFuture loc ⟨ns, off⟩ h mi s)
    | _ => "bad-op"
  | "same" :: r => match ints r with
    | some [o1, n1, o2, n2] =>
      let a : Time := ⟨n1, o1⟩
      let b : Time := ⟨n2, o2⟩
      fmtInts ([isSameSecond a b, isSameMinute a b, isSameHour a b, isSameDay a b, isSameWeek a b,
        isSameMonth a b, isSameYear a b].map b2i)
    | _ => "bad-op"
  | "minmax" :: r => match ints r with
    | some [o1, n1, o2, n2] =>
      let a : Time := ⟨n1, o1⟩
      let b : Time := ⟨n2, o2⟩
      fmtInts (tm (Chrono.max a b) ++ tm (Chrono.min a b) ++ tm (smallerFirst a b).1 ++ tm (smallerFirst a b).2 ++
        tm (smallerLast a b).1 ++ tm (smallerLast a b).2 ++ [delta a b, floorDeltaDays a b])
    | _ => "bad-op"
  | "monthdays" :: r => match ints r with
    | some [off, ns] => toString (getMonthDays ⟨ns, off⟩)
    | _ => "bad-op"
  | "sweep" :: r => match ints r with
    | some [off, ns] => fmtInts (sweepModel ⟨ns, off⟩)
    | _ => "bad-op"
  | _ => "bad-op"

def model : Suite where
  σ := Unit
  init := ()
  step _ toks := ((), modelStep toks)

/-! ## functional spec -/
open MV.Spec.Chrono in
def sweepSpec (off t : Int) : List Int :=
  let sod := startOfDay off t
  let tmod : Time := ⟨t, off⟩
  sod :: endOfDay off t :: (sod - nsPerDay) :: (sod + nsPerDay) :: (endOfDay off t + nsPerDay) ::
  daysInMonth (Civil.year off t) (Civil.month off t) ::
  (weekdays.flatMap fun wd => [weekdayStart off t wd, weekdayStart off t wd + 86399 * nsPerSec]) ++
  (weekdays.flatMap fun wd => weekOffsets.map fun k => relWeekStart off t wd k) ++
  (weekdays.flatMap fun wd => [relWeekStart off t wd 1 + 86399 * nsPerSec, relWeekStart off t wd (-1) + nsOfDay off t]) ++
  ((sweepMoments tmod).map fun (h, m, s) => nextMoment off t h m s)

open MV.Spec.Chrono in
def specStep : List String → String
  | "civil" :: r => modelStep ("civil" :: r)       -- `Civil` *is* the reference calendar
  | "date" :: r => match ints r with
    | some [off, y, mo, d, h, mi, s, ns] =>
      if validDate y mo d && validHMS h mi s && 0 ≤ ns && ns < nsPerSec then
        toString (Civil.date off y mo d h mi s ns) else "-"
    | _ => "bad-op"
  | "adddate" :: r => match ints r with
    | some [_, ns, 0, 0, d] => toString (ns + d * nsPerDay)
    | some [_, _, _, _, _] => "-"
    | _ => "bad-op"
  | "trunc" :: r => modelStep ("trunc" :: r)
  | "sod" :: r => match ints r with
    | some [off, ns] => fmtInts [startOfDay off ns, off]
    | _ => "bad-op"
  | "eod" :: r => match ints r with
    | some [off, ns] => fmtInts [endOfDay off ns, off]
    | _ => "bad-op"
  | "rsod" :: r => match ints r with
    | some [off, ns, k] => fmtInts [startOfDay off ns + k * nsPerDay, off]
    | _ => "bad-op"
  | "reod" :: r => match ints r with
    | some [off, ns, k] => fmtInts [endOfDay off ns + k * nsPerDay, off]
    | _ => "bad-op"
  | "sow" :: r => match ints r with
    | some [off, ns, wd] => if validWeekday wd then fmtInts [weekdayStart off ns wd, off] else "-"
    | _ => "bad-op"
  | "eow" :: r => match ints r with
    | some [off, ns, wd] =>
      if validWeekday wd then fmtInts [weekdayStart off ns wd + 86399 * nsPerSec, off] else "-"
    | _ => "bad-op"
  | "rsow" :: r => match ints r with
    | some [off, ns, wd, k] => if validWeekday wd then fmtInts [relWeekStart off ns wd k, off] else "-"
    | _ => "bad-op"
  | "reow" :: r => match ints r with
    | some [off, ns, wd, k] =>
      if validWeekday wd then fmtInts [relWeekStart off ns wd k + 86399 * nsPerSec, off] else "-"
    | _ => "bad-op"
  | "rtow" :: r => match ints r with
    | some [off, ns, wd, k] =>
      if validWeekday wd then fmtInts [relWeekStart off ns wd k + nsOfDay off ns, off] else "-"
    | _ => "bad-op"
  | "next" :: r => match ints r with
    | some [loc, off, ns, h, mi, s] =>
      if loc == off && validHMS h mi s then fmtInts [nextMoment off ns h mi s, loc] else "-"
    | _ => "bad-op"
  | "passed" :: r => match ints r with
    | some [loc, off, ns, h, mi, s] =>
      if loc == off && validHMS h mi s then
        fmtBool (decide (nsOfDay off ns > (h * 3600 + mi * 60 + s) * nsPerSec)) else "-"
    | _ => "bad-op"
  | "future" :: r => match ints r with
    | some [loc, off, ns, h, mi, s] =>
      if loc == off && validHMS h mi s then
        fmtBool (decide (nsOfDay off ns ≤ (h * 3600 + mi * 60 + s) * nsPerSec)) else "-"
    | _ => "bad-op"
  | "same" :: r => match ints r with
    | some [o1, n1, o2, n2] =>
      if o1 == o2 then
        let sd := sameDay o1 n1 o2 n2
        let sh := sd && nsOfDay o1 n1 / 3600000000000 == nsOfDay o2 n2 / 3600000000000
        let sm := sd && nsOfDay o1 n1 / 60000000000 == nsOfDay o2 n2 / 60000000000
        fmtInts ([n1 / nsPerSec == n2 / nsPerSec, sm, sh, sd, sameWeek o1 n1 o2 n2, sameMonth o1 n1 o2 n2,
          Civil.year o1 n1 == Civil.year o2 n2].map b2i)
      else "-"
    | _ => "bad-op"
  | "minmax" :: r => match ints r with
    | some [_, _, _, _] => "-"
    | _ => "bad-op"
  | "monthdays" :: r => match ints r with
    | some [off, ns] => toString (daysInMonth (Civil.year off ns) (Civil.month off ns))
    | _ => "bad-op"
  | "sweep" :: r => match ints r with
    | some [off, ns] => fmtInts (sweepSpec off ns)
    | _ => "bad-op"
  | _ => "bad-op"

def spec : Suite where
  σ := Unit
  init := ()
  step _ toks := ((), specStep toks)

end Oracle.Chrono
