import Oracle.Proto
/-!
# Oracle suite `pubsub-fanout-judge` (C10): topics of every size, end to end

`fanout <subs> <pubs> <publishers> => subs=s expect=n lost=a dup=b reorder=c wrongsender=d`: every
subscription established before the publications receives every publication exactly once (`lost = dup = 0`:
`MV.Props.C10.C10_fanout_exact` for the subscription actor's machine, for any number of subscriptions), with
the publisher as sender, one publisher's publications in publication order (`C10_order`).  `-` = the
machine was too slow to establish the subscriptions in time (not judged).
-/
namespace Oracle.PubSubFanout

def field (key : String) (toks : List String) : Option Nat :=
  toks.findSome? fun t => if t.startsWith (key ++ "=") then (t.drop (key.length + 1)).toString.toNat? else none

def validOp : List String → Bool
  | ["fanout", s, p, n] => match s.toNat?, p.toNat?, n.toNat? with
    | some s, some p, some n => 1 ≤ s && s ≤ 600 && 1 ≤ p && p ≤ 200 && 1 ≤ n && n ≤ 4
    | _, _, _ => false
  | _ => false

def judge : Suite where
  σ := Unit
  init := ()
  step _ toks :=
    let op := toks.takeWhile (· ≠ "=>")
    let out := (toks.dropWhile (· ≠ "=>")).drop 1
    if !validOp op then ((), if out == ["bad-op"] then "ok" else "bad:malformed-op-accepted")
    else if out == ["-"] then ((), "ok")
    else match field "lost" out, field "dup" out, field "reorder" out, field "wrongsender" out with
      | some l, some d, some r, some w =>
        if l ≠ 0 then ((), "bad:c10-publication-not-delivered-to-a-subscriber")
        else if d ≠ 0 then ((), "bad:c10-publication-delivered-twice")
        else if r ≠ 0 then ((), "bad:c10-publications-of-one-publisher-out-of-order")
        else if w ≠ 0 then ((), "bad:c10-sender-is-not-the-publisher")
        else ((), "ok")
      | _, _, _, _ => ((), "bad:unparsable-output")

end Oracle.PubSubFanout
