import Oracle.C07
def main (args : List String) : IO UInt32 := Oracle.mainWith Oracle.C07.suites args
