import Oracle.Proto
import MV.Model.AStar
import MV.Spec.AStar
/-!
Oracle suites for `astar.Find`.

Operation lines (one graph per case):
* `graph n`            — `n` nodes `0..n-1`, no edges, heuristic table all zero
* `edge u v w`         — append `v` to the neighbour list of `u`, `cost(u,v) := w`
* `uedge u v w`        — `edge u v w` and `edge v u w`
* `hs x0 … x(n-1)`     — heuristic table (`heuristic(v, goal) = x_v` for the finds that follow)
* `grid W H mask`      — W×H 4-neighbour grid, cell `y*W+x` blocked iff bit set in `mask`; neighbours
                         of any cell = its free neighbours in the order up, right, down, left; unit
                         cost; heuristic = Manhattan distance to the goal
* `find s g`           — `none` | `<cost> [<path>]`
* `cost s g`           — `none` | `<cost>`      (cost of the path A* returns)
* `dij s g`            — `none` | `<cost>`      (implementation side: the harness's own Dijkstra)
-/
namespace Oracle.AStar
open MV.Model.AStar MV.Spec.AStar

structure St where
  n : Nat := 0
  adj : Array (List (Nat × Nat)) := #[]
  gridW : Nat := 0          -- > 0: Manhattan heuristic on a grid of this width
  htab : Array Nat := #[]

def St.graph (s : St) : Graph where
  n := s.n
  nbrs u := (s.adj.getD u []).map (·.1)
  cost u v := (s.adj.getD u []).foldl (fun acc (x, w) => if x = v then w else acc) 0

def absDiff (a b : Nat) : Nat := if a ≤ b then b - a else a - b

def St.heur (s : St) (goal : Nat) : Nat → Nat :=
  if s.gridW > 0 then
    fun v => absDiff (v % s.gridW) (goal % s.gridW) + absDiff (v / s.gridW) (goal / s.gridW)
  else fun v => s.htab.getD v 0

def addEdge (s : St) (u v w : Nat) : St :=
  { s with adj := s.adj.modify u (fun l => l ++ [(v, w)]) }

def mkGrid (w h mask : Nat) : St :=
  let n := w * h
  let free (c : Nat) : Bool := !(mask.testBit c)
  let nb (c : Nat) : List (Nat × Nat) :=
    let x := c % w
    let y := c / w
    let cand : List (Option Nat) :=
      [ if y > 0 then some (c - w) else none,
        if x + 1 < w then some (c + 1) else none,
        if y + 1 < h then some (c + w) else none,
        if x > 0 then some (c - 1) else none ]
    cand.filterMap (fun o => match o with
      | some d => if free d then some (d, 1) else none
      | none => none)
  { n := n, adj := (Array.range n).map nb, gridW := w, htab := #[] }

def fmtResult (G : Graph) : Result → String
  | .found p => s!"{pathCost G.cost p} {fmtNats p}"
  | .notFound => "none"
  | .outOfFuel => "fuel"

def fmtCost (G : Graph) : Result → String
  | .found p => toString (pathCost G.cost p)
  | .notFound => "none"
  | .outOfFuel => "fuel"

def fmtOpt : Option Nat → String
  | some c => toString c
  | none => "none"

def nats (l : List String) : Option (List Nat) := l.mapM String.toNat?

/-- graph-building lines, shared by the three suites -/
def setup (s : St) (toks : List String) : Option (St × String) :=
  match toks with
  | ["graph", n] => match n.toNat? with
      | some n => if n ≤ 5000 then some ({ n := n, adj := Array.replicate n [], htab := Array.replicate n 0 }, "ok")
                  else some (s, "bad-op")
      | none => some (s, "bad-op")
  | ["edge", u, v, w] => match nats [u, v, w] with
      | some [u, v, w] => if u < s.n ∧ v < s.n ∧ w ≤ 1000000 ∧ s.gridW = 0 then some (addEdge s u v w, "ok") else some (s, "bad-op")
      | _ => some (s, "bad-op")
  | ["uedge", u, v, w] => match nats [u, v, w] with
      | some [u, v, w] => if u < s.n ∧ v < s.n ∧ w ≤ 1000000 ∧ s.gridW = 0 then some (addEdge (addEdge s u v w) v u w, "ok") else some (s, "bad-op")
      | _ => some (s, "bad-op")
  | "hs" :: xs => match nats xs with
      | some l => if l.length = s.n ∧ s.gridW = 0 ∧ l.all (· ≤ 1000000) then some ({ s with htab := l.toArray }, "ok") else some (s, "bad-op")
      | none => some (s, "bad-op")
  | ["grid", w, h, m] => match nats [w, h, m] with
      | some [w, h, m] => if 0 < w ∧ 0 < h ∧ w ≤ 30 ∧ h ≤ 30 ∧ w * h ≤ 30 ∧ m < 2 ^ (w * h) then some (mkGrid w h m, "ok") else some (s, "bad-op")
      | _ => some (s, "bad-op")
  | _ => none

def query (s : St) (a b : String) : Option (Nat × Nat) :=
  match a.toNat?, b.toNat? with
  | some a, some b => if a < s.n ∧ b < s.n then some (a, b) else none
  | _, _ => none

def model : Suite where
  σ := St
  init := {}
  step s toks := match setup s toks with
    | some r => r
    | none => match toks with
      | ["find", a, b] => match query s a b with
          | some (a, b) => (s, fmtResult s.graph (find s.graph a b (s.heur b)))
          | none => (s, "bad-op")
      | ["cost", a, b] => match query s a b with
          | some (a, b) => (s, fmtCost s.graph (find s.graph a b (s.heur b)))
          | none => (s, "bad-op")
      | ["dij", a, b] => match query s a b with
          | some _ => (s, "-")
          | none => (s, "bad-op")
      | _ => (s, "bad-op")

def spec : Suite where
  σ := St
  init := {}
  step s toks := match setup s toks with
    | some r => r
    | none => match toks with
      | ["find", a, b] => match query s a b with
          | some (a, b) => (s, match optCost s.graph a b with | none => "none" | some _ => "-")
          | none => (s, "bad-op")
      | ["cost", a, b] => match query s a b with
          | some (a, b) => (s, match optCost s.graph a b with
              | none => "none"
              | some c => if consistentB s.graph (s.heur b) then toString c else "-")
          | none => (s, "bad-op")
      | ["dij", a, b] => match query s a b with
          | some (a, b) => (s, fmtOpt (optCost s.graph a b))
          | none => (s, "bad-op")
      | _ => (s, "bad-op")

/-- split `op … => out …` -/
def splitArrow (toks : List String) : List String × List String :=
  (toks.takeWhile (· ≠ "=>"), (toks.dropWhile (· ≠ "=>")).drop 1)

def parsePathToks (l : List String) : Option (List Nat) :=
  (parseIntList (" ".intercalate l)).bind fun is => is.mapM fun i => if i < 0 then none else some i.toNat

def judge : Suite where
  σ := St
  init := {}
  step s toks :=
    let (op, out) := splitArrow toks
    match setup s op with
    | some (s', o) => (s', if out = [o] then "ok" else "bad:setup-answer")
    | none => match op with
      | ["find", a, b] => match query s a b with
          | some (a, b) =>
            let G := s.graph
            match out with
            | ["fatal"] => (s, "bad:runner-died-or-exceeded-its-budget")
            | ["hang"] => (s, "bad:hang")
            | ["panic"] => (s, "bad:panic")
            | ["none"] => (s, judgeFind G a b (s.heur b) none)
            | c :: rest => match c.toNat?, parsePathToks rest with
                | some c, some p => (s, judgeFind G a b (s.heur b) (some (c, p)))
                | _, _ => (s, "bad:unparsable-answer")
            | [] => (s, "bad:unparsable-answer")
          | none => (s, if out = ["bad-op"] then "ok" else "bad:setup-answer")
      | ["cost", a, b] => match query s a b with
          | some (a, b) =>
            let opt := optCost s.graph a b
            match out with
            | ["none"] => (s, if opt.isNone then "ok" else "bad:none-but-reachable")
            | [c] => match c.toNat?, opt with
                | some c, some o =>
                  (s, if c < o then "bad:below-optimum"
                      else if consistentB s.graph (s.heur b) && c ≠ o then "bad:not-shortest" else "ok")
                | some _, none => (s, "bad:path-to-unreachable")
                | none, _ => (s, "bad:unparsable-answer")
            | _ => (s, "bad:unparsable-answer")
          | none => (s, if out = ["bad-op"] then "ok" else "bad:setup-answer")
      | ["dij", a, b] => match query s a b with
          | some (a, b) => (s, if out = [fmtOpt (optCost s.graph a b)] then "ok" else "bad:harness-dijkstra-differs")
          | none => (s, if out = ["bad-op"] then "ok" else "bad:setup-answer")
      | _ => (s, if out = ["bad-op"] then "ok" else "bad:setup-answer")

end Oracle.AStar
