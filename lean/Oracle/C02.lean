import Oracle.Proto
/-! Oracle suites of property C02 (registered in Oracle/Main.lean through `suites`). -/
namespace Oracle.C02

def suites : List (String × Suite) := []

end Oracle.C02
