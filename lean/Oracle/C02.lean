import Oracle.Proto
import Oracle.Mailbox
import Oracle.ActorSys
import Oracle.DeadLetters
/-! Oracle suites of property C02 (shared with C01). -/
namespace Oracle.C02

def suites : List (String × Suite) := [
  ("dispatchers", Oracle.Mailbox.dispatchSuite),
  ("mailbox-facts", Oracle.Mailbox.factsSuite),
  ("mailbox", Oracle.Mailbox.model),
  ("mailbox-judge-c02", Oracle.Mailbox.judge false),
  ("actorsys", Oracle.ActorSys.model),
  ("deadletters-judge", Oracle.DeadLetters.judge)
]

end Oracle.C02
