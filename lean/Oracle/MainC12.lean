import Oracle.C12
def main (args : List String) : IO UInt32 := Oracle.mainWith Oracle.C12.suites args
