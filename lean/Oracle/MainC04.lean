import Oracle.C04
def main (args : List String) : IO UInt32 := Oracle.mainWith Oracle.C04.suites args
