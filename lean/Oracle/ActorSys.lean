import Oracle.Proto
import MV.Model.ActorSys
/-!
Oracle suite `actorsys`: the Layer-2 model executes the same scenario/op lines as the real
vivid.ActorSystem under the serialising scheduler (harness/suites/asys).
-/
namespace Oracle.ActorSys
open MV.Model.ActorSys

structure S where
  behs : List (Nat × BehDef) := []     -- by id (ids ≥ 2)
  w : Option World := none
  seenLog : List Nat := []             -- per actor: log entries already reported
  seenDead : Nat := 0

def parsePat : String → Option Pat
  | "launch" => some .launch | "restarted" => some .restarted | "restarting" => some .restarting
  | "terminate" => some .terminate | "terminated-self" => some .terminatedSelf
  | "terminated-other" => some .terminatedOther | "terminated-any" => some .terminatedAny
  | "user-any" => some .userAny | "dead" => some .dead | "any" => some .any
  | s => if s.startsWith "user:" then (s.drop 5).toString.toNat?.map .user else none

def parseTarget : String → Option Target
  | "self" => some .self | "parent" => some .parent | "sender" => some .sender
  | s => s.toNat?.map .actor

def parseAction : List String → Option Action
  | ["tell", t, tag] => do let t ← parseTarget t; let g ← tag.toNat?; pure (.tell t g)
  | ["ask", t, tag] => do let t ← parseTarget t; let g ← tag.toNat?; pure (.ask t g)
  | ["reply", tag] => tag.toNat?.map .reply
  | ["spawn", b] => b.toNat?.map .spawn
  | ["kill", t, g] => do let t ← parseTarget t; pure (.kill t (g == "g"))
  | ["watch", t] => (parseTarget t).map .watch
  | ["unwatch", t] => (parseTarget t).map .unwatch
  | ["panic"] => some .panic
  | _ => none

def splitOn (sep : String) : List String → List (List String)
  | [] => [[]]
  | x :: xs =>
    match splitOn sep xs with
    | [] => [[]]
    | g :: gs => if x == sep then [] :: g :: gs else (x :: g) :: gs

def parseDirective : String → Option Directive
  | "restart" => some .restart | "stop" => some .stop | "resume" => some .resume
  | "escalate" => some .escalate | _ => none

def parseStrategy : List String → Option Strategy
  | [lim, tab] => do
      let l ← lim.toInt?
      let t ← (tab.splitOn ",").mapM parseDirective
      pure { limit := l, table := t }
  | _ => none

def updBeh (l : List (Nat × BehDef)) (id : Nat) (f : BehDef → BehDef) : List (Nat × BehDef) :=
  if l.any (·.1 == id) then l.map (fun p => if p.1 == id then (p.1, f p.2) else p)
  else l ++ [(id, f {})]

/-- behaviour table indexed by id for `World.behs` (ids 0,1 are built in; gaps are empty) -/
def behList (l : List (Nat × BehDef)) : List BehDef :=
  let mx := l.foldl (fun m p => max m p.1) 1
  (List.range (mx - 1)).map (fun i => ((l.lookup (i + 2)).getD {}))

def nameOf (w : World) (a : Aid) : String :=
  if a == 1000000 then "nil"
  else toString a

def nameOpt (w : World) : Option Aid → String
  | none => "nil"
  | some a => nameOf w a

def fmtObs (w : World) : Obs → String
  | .launch => "launch" | .restarted => "restarted" | .restarting => "restarting"
  | .terminate => "terminate" | .terminated a => s!"terminated:{nameOf w a}"
  | .user t => s!"user:{t}" | .dead r t => s!"dead:{nameOf w r}:{t}"

def fmtUMsg (w : World) : UMsg → String
  | .user t => s!"u{t}"
  | .graceful => "graceful"
  | .publish _ m => s!"publish({fmtUMsg w m})"
  | .dead s r m => s!"dead({nameOpt w s}>{nameOf w r}:{fmtUMsg w m})"

def fmtEntry (w : World) (e : LogEntry) : String := s!"{e.inc}/{fmtObs w e.obs}/{nameOpt w e.sender}"

def fmtDead (w : World) (d : Option Aid × Aid × UMsg) : String :=
  s!"{nameOpt w d.1}>{nameOf w d.2.1}:{fmtUMsg w d.2.2}"

def spaced (l : List String) : String := "[" ++ " ".intercalate l ++ "]"

def actorPart (s : S) (w : World) (a : Aid) : S × String :=
  let x := (w.actors[a]?).getD default
  let seen := (s.seenLog[a]?).getD 0
  -- the guard (0) and the subscription actor (1) are not scripted: their handlers are not observed
  let newLog := if a < 2 then [] else (x.log.drop seen).map (fmtEntry w)
  let seenLog := (List.range (max s.seenLog.length (a + 1))).map
    (fun i => if i == a then x.log.length else (s.seenLog[i]?).getD 0)
  ({ s with seenLog := seenLog },
   s!"log+={spaced newLog} sys={x.sysQ.length} usr={x.userQ.length} runner={if x.hasRunner then 1 else 0}")

def globalPart (s : S) (w w' : World) : S × String :=
  let sp := (List.range (w'.actors.length - w.actors.length)).map (fun i => toString (w.actors.length + i))
  let nd := (w'.dead.drop s.seenDead).map (fmtDead w')
  ({ s with seenDead := w'.dead.length }, s!"spawned={spaced sp} timers={w'.timers.length} dead+={spaced nd}")

def statusName : Status → String
  | .alive => "alive" | .restarting => "restarting" | .terminating => "terminating" | .terminated => "terminated"

def sortNat (l : List Nat) : List Nat := (l.toArray.qsort (· < ·)).toList

/-- the harness prints child / watcher ids sorted as strings -/
def sortStr (l : List String) : List String := (l.toArray.qsort (· < ·)).toList

def dump (w : World) : String :=
  " | ".intercalate ((List.range w.actors.length).map fun a =>
    let x := (w.actors[a]?).getD default
    let ch := sortStr (x.children.map toString)
    let wa := sortStr (x.watchers.map toString)
    s!"{a}:{statusName x.status},ch={spaced ch},w={spaced wa},acc={x.accidents},reg={if x.registered then 1 else 0},q={x.sysQ.length}/{x.userQ.length}")

def settle (w : World) : Nat → World
  | 0 => w
  | fuel + 1 =>
    if w.crashed then w else
    if w.timers ≠ [] then settle (step w .fire) fuel
    else match (List.range w.actors.length).find? (fun a => ((w.actors[a]?).map (·.hasRunner)).getD false) with
      | some a => settle (step w (.run a)) fuel
      | none => w

def doStep (s : S) (toks : List String) : S × String :=
  match toks with
  | "beh" :: id :: "rule" :: pat :: rest =>
    match id.toNat?, parsePat pat with
    | some id, some p =>
      match ((splitOn ";" rest).filter (· ≠ [])).mapM parseAction with
      | some acts => ({ s with behs := updBeh s.behs id fun b => { b with rules := b.rules ++ [(p, acts)] } }, "ok")
      | none => (s, "bad-op")
    | _, _ => (s, "bad-op")
  | "beh" :: id :: "strategy" :: rest =>
    match id.toNat?, parseStrategy rest with
    | some id, some st => ({ s with behs := updBeh s.behs id fun b => { b with strategy := some st } }, "ok")
    | _, _ => (s, "bad-op")
  | "beh" :: id :: "actorstrategy" :: rest =>
    match id.toNat?, parseStrategy rest with
    | some id, some st => ({ s with behs := updBeh s.behs id fun b => { b with actorStrategy := some st } }, "ok")
    | _, _ => (s, "bad-op")
  | ["start"] => ({ s with w := some (init (behList s.behs)), seenLog := [], seenDead := 0 }, "ok")
  | _ =>
    match s.w with
    | none => (s, "bad-op")
    | some w =>
      if w.crashed then (s, "crashed") else
      let ext (op : Op) : S × String :=
        let w' := step w op
        let (s1, g) := globalPart s w w'
        ({ s1 with w := some w' }, g)
      match toks with
      | ["spawn", b] => match b.toNat? with
          | some b => ext (.spawnTop b)
          | none => (s, "bad-op")
      | ["tell", a, tag] => match a.toNat?, tag.toNat? with
          | some a, some t => ext (.tell a t)
          | _, _ => (s, "bad-op")
      | ["kill", a, g] => match a.toNat? with
          | some a => ext (.kill a (g == "g"))
          | none => (s, "bad-op")
      | ["shutdown", g] => ext (.shutdown (g == "g"))
      | ["run", a] => match a.toNat? with
          | some a =>
            if ((w.actors[a]?).map (·.hasRunner)).getD false then
              let w' := step w (.run a)
              if w'.crashed then ({ s with w := some w' }, "crashed") else
              let (s1, p) := actorPart s w' a
              let (s2, g) := globalPart s1 w w'
              ({ s2 with w := some w' }, p ++ " " ++ g)
            else (s, "skip")
          | none => (s, "bad-op")
      | ["fire"] =>
        match w.timers with
        | [] => (s, "none")
        | (_, v) :: _ =>
          let w' := step w .fire
          let (s1, p) := actorPart s w' v
          let (s2, g) := globalPart s1 w w'
          ({ s2 with w := some w' }, s!"fired {v} " ++ p ++ " " ++ g)
      | ["settle"] =>
        let w' := settle w 400
        ({ s with w := some w', seenDead := w'.dead.length,
                  seenLog := w'.actors.map (·.log.length) }, dump w')
      | ["dump"] => (s, dump w)
      | ["log", a] => match a.toNat? with
          | some a => if a < 2 then (s, "[]") else if a < w.actors.length then (s, spaced (((w.actors[a]?).getD default).log.map (fmtEntry w))) else (s, "bad-op")
          | none => (s, "bad-op")
      | ["deadlog"] => (s, spaced (w.dead.map (fmtDead w)))
      | _ => (s, "bad-op")

def model : Suite where
  σ := S
  init := {}
  step := doStep

end Oracle.ActorSys
