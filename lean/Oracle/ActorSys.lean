import Oracle.Proto
import MV.Model.ActorSys
import MV.Spec.ActorSys
/-!
Oracle suite `actorsys`: the Layer-2 model executes the same scenario/op lines as the real
vivid.ActorSystem under the serialising scheduler (harness/suites/asys).
-/
namespace Oracle.ActorSys
open MV.Model.ActorSys

structure S where
  behs : List (Nat × BehDef) := []     -- by id (ids ≥ 2)
  w : Option World := none
  seenLog : List Nat := []             -- per actor: log entries already reported
  seenDead : Nat := 0

def parsePat : String → Option Pat
  | "launch" => some .launch | "restarted" => some .restarted | "restarting" => some .restarting
  | "terminate" => some .terminate | "terminated-self" => some .terminatedSelf
  | "terminated-other" => some .terminatedOther | "terminated-any" => some .terminatedAny
  | "user-any" => some .userAny | "dead" => some .dead | "any" => some .any
  | s => if s.startsWith "user:" then (s.drop 5).toString.toNat?.map .user else none

def parseTarget : String → Option Target
  | "self" => some .self | "parent" => some .parent | "sender" => some .sender
  | s => s.toNat?.map .actor

def parseAction : List String → Option Action
  | ["tell", t, tag] => do let t ← parseTarget t; let g ← tag.toNat?; pure (.tell t g)
  | ["ask", t, tag] => do let t ← parseTarget t; let g ← tag.toNat?; pure (.ask t g)
  | ["reply", tag] => tag.toNat?.map .reply
  | ["spawn", b] => b.toNat?.map .spawn
  | ["kill", t, g] => do let t ← parseTarget t; pure (.kill t (g == "g"))
  | ["watch", t] => (parseTarget t).map .watch
  | ["unwatch", t] => (parseTarget t).map .unwatch
  | ["panic"] => some .panic
  | _ => none

def splitOn (sep : String) : List String → List (List String)
  | [] => [[]]
  | x :: xs =>
    match splitOn sep xs with
    | [] => [[]]
    | g :: gs => if x == sep then [] :: g :: gs else (x :: g) :: gs

def parseDirective : String → Option Directive
  | "restart" => some .restart | "stop" => some .stop | "resume" => some .resume
  | "escalate" => some .escalate | _ => none

def parseStrategy : List String → Option Strategy
  | [lim, tab] => do
      let l ← lim.toInt?
      let t ← (tab.splitOn ",").mapM parseDirective
      pure { limit := l, table := t }
  | _ => none

def updBeh (l : List (Nat × BehDef)) (id : Nat) (f : BehDef → BehDef) : List (Nat × BehDef) :=
  if l.any (·.1 == id) then l.map (fun p => if p.1 == id then (p.1, f p.2) else p)
  else l ++ [(id, f {})]

/-- behaviour table indexed by id for `World.behs` (ids 0,1 are built in; gaps are empty) -/
def behList (l : List (Nat × BehDef)) : List BehDef :=
  let mx := l.foldl (fun m p => max m p.1) 1
  (List.range (mx - 1)).map (fun i => ((l.lookup (i + 2)).getD {}))

def nameOf (_w : World) (a : Aid) : String :=
  if a == 1000000 then "nil"
  else if a ≥ ghostBase then s!"g{a - ghostBase}"
  else toString a

def nameOpt (w : World) : Option Aid → String
  | none => "nil"
  | some a => nameOf w a

def fmtObs (w : World) : Obs → String
  | .launch => "launch" | .restarted => "restarted" | .restarting => "restarting"
  | .terminate => "terminate" | .terminated a => s!"terminated:{nameOf w a}"
  | .user t => s!"user:{t}" | .dead r t => s!"dead:{nameOf w r}:{t}"

def fmtUMsg (w : World) : UMsg → String
  | .user t => s!"u{t}"
  | .graceful => "graceful"
  | .publish _ m => s!"publish({fmtUMsg w m})"
  | .dead s r m => s!"dead({nameOpt w s}>{nameOf w r}:{fmtUMsg w m})"

def fmtEntry (w : World) (e : LogEntry) : String := s!"{e.inc}/{fmtObs w e.obs}/{nameOpt w e.sender}"

def fmtDead (w : World) (d : Option Aid × Aid × UMsg) : String :=
  s!"{nameOpt w d.1}>{nameOf w d.2.1}:{fmtUMsg w d.2.2}"

def fmtDirective : Directive → String
  | .restart => "restart" | .stop => "stop" | .resume => "resume" | .escalate => "escalate"

def fmtEvent (w : World) : Event → String
  | .handled a inc obs s => s!"h:{a}:{inc}/{fmtObs w obs}/{nameOpt w s}"
  | .failed a => s!"failed:{a}"
  | .decided sup v d c => s!"decided:{sup}:{v}:{fmtDirective d}:{c}"
  | .spawned p c => s!"spawned:{p}:{c}"
  | .watch a t => s!"watch:{a}:{nameOf w t}"
  | .unwatch a t => s!"unwatch:{a}:{nameOf w t}"
  | .killreq t => s!"killreq:{nameOf w t}"

def spaced (l : List String) : String := "[" ++ " ".intercalate l ++ "]"

def actorPart (s : S) (w : World) (a : Aid) : S × String :=
  let x := (w.actors[a]?).getD default
  let seen := (s.seenLog[a]?).getD 0
  -- the guard (0) and the subscription actor (1) are not scripted: their handlers are not observed
  let newLog := if a < 2 then [] else (x.log.drop seen).map (fmtEntry w)
  let seenLog := (List.range (max s.seenLog.length (a + 1))).map
    (fun i => if i == a then x.log.length else (s.seenLog[i]?).getD 0)
  ({ s with seenLog := seenLog },
   s!"log+={spaced newLog} sys={x.sysQ.length} usr={x.userQ.length} runner={if x.hasRunner then 1 else 0}")

def globalPart (s : S) (w w' : World) : S × String :=
  let sp := (List.range (w'.actors.length - w.actors.length)).map (fun i => toString (w.actors.length + i))
  let nd := (w'.dead.drop s.seenDead).map (fmtDead w')
  ({ s with seenDead := w'.dead.length }, s!"spawned={spaced sp} timers={w'.timers.length} dead+={spaced nd}")

def statusName : Status → String
  | .alive => "alive" | .restarting => "restarting" | .terminating => "terminating" | .terminated => "terminated"

def sortNat (l : List Nat) : List Nat := (l.toArray.qsort (· < ·)).toList

/-- the harness prints child / watcher ids sorted as strings -/
def sortStr (l : List String) : List String := (l.toArray.qsort (· < ·)).toList

def dump (w : World) : String :=
  " | ".intercalate ((List.range w.actors.length).map fun a =>
    let x := (w.actors[a]?).getD default
    let ch := sortStr (x.children.map toString)
    let wa := sortStr (x.watchers.map toString)
    s!"{a}:{statusName x.status},ch={spaced ch},w={spaced wa},acc={x.accidents},reg={if x.registered then 1 else 0},q={x.sysQ.length}/{x.userQ.length}")

/-- restart timers still armed when the step budget of `settle` is used up are released (they fire
in real time on the implementation side: leaving them armed would make every later observation a
race).  A `fire` only enqueues the restart request, it arms nothing, so this is `timers.length` steps. -/
def drainTimers (w : World) : Nat → World
  | 0 => w
  | n + 1 => if w.crashed || w.timers == [] then w else drainTimers (step w .fire) n

def settle (w : World) : Nat → World
  | 0 => drainTimers w w.timers.length
  | fuel + 1 =>
    if w.crashed then w else
    if w.timers ≠ [] then settle (step w .fire) fuel
    else match (List.range w.actors.length).find? (fun a => ((w.actors[a]?).map (·.hasRunner)).getD false) with
      | some a => settle (step w (.run a)) fuel
      | none => w

def doStep (s : S) (toks : List String) : S × String :=
  match toks with
  | "beh" :: id :: "rule" :: pat :: rest =>
    match id.toNat?, parsePat pat with
    | some id, some p =>
      match ((splitOn ";" rest).filter (· ≠ [])).mapM parseAction with
      | some acts => ({ s with behs := updBeh s.behs id fun b => { b with rules := b.rules ++ [(p, acts)] } }, "ok")
      | none => (s, "bad-op")
    | _, _ => (s, "bad-op")
  | "beh" :: id :: "strategy" :: rest =>
    match id.toNat?, parseStrategy rest with
    | some id, some st => ({ s with behs := updBeh s.behs id fun b => { b with strategy := some st } }, "ok")
    | _, _ => (s, "bad-op")
  | "beh" :: id :: "actorstrategy" :: rest =>
    match id.toNat?, parseStrategy rest with
    | some id, some st => ({ s with behs := updBeh s.behs id fun b => { b with actorStrategy := some st } }, "ok")
    | _, _ => (s, "bad-op")
  | ["start"] => ({ s with w := some (init (behList s.behs)), seenLog := [], seenDead := 0 }, "ok")
  | _ =>
    match s.w with
    | none => (s, "bad-op")
    | some w =>
      if w.crashed then (s, "skipped") else
      if w.timers ≠ [] && (toks.head? == some "spawn" || toks.head? == some "tell" || toks.head? == some "kill"
          || toks.head? == some "shutdown" || toks.head? == some "run") then (s, "need-fire") else
      let ext (op : Op) : S × String :=
        let w' := step w op
        let (s1, g) := globalPart s w w'
        ({ s1 with w := some w' }, g)
      match toks with
      | ["spawn", b] => match b.toNat? with
          | some b => ext (.spawnTop b)
          | none => (s, "bad-op")
      | ["tell", a, tag] => match a.toNat?, tag.toNat? with
          | some a, some t => ext (.tell a t)
          | _, _ => (s, "bad-op")
      | ["kill", a, g] => match a.toNat? with
          | some a => ext (.kill a (g == "g"))
          | none => (s, "bad-op")
      | ["shutdown", g] => ext (.shutdown (g == "g"))
      | ["run", a] => match a.toNat? with
          | some a =>
            if ((w.actors[a]?).map (·.hasRunner)).getD false then
              let w' := step w (.run a)
              if w'.crashed then ({ s with w := some w' }, "fatal") else
              let (s1, p) := actorPart s w' a
              let (s2, g) := globalPart s1 w w'
              ({ s2 with w := some w' }, p ++ " " ++ g)
            else (s, "skip")
          | none => (s, "bad-op")
      | ["fire"] =>
        match w.timers with
        | [] => (s, "none")
        | (_, v) :: _ =>
          let w' := step w .fire
          let (s1, p) := actorPart s w' v
          let (s2, g) := globalPart s1 w w'
          ({ s2 with w := some w' }, s!"fired {v} " ++ p ++ " " ++ g)
      | ["settle"] =>
        let w' := settle w 400
        ({ s with w := some w', seenDead := w'.dead.length,
                  seenLog := w'.actors.map (·.log.length) }, dump w')
      | ["dump"] => (s, dump w)
      | ["log", a] => match a.toNat? with
          | some a => if a < 2 then (s, "[]") else if a < w.actors.length then (s, spaced (((w.actors[a]?).getD default).log.map (fmtEntry w))) else (s, "bad-op")
          | none => (s, "bad-op")
      | ["deadlog"] => (s, spaced (w.dead.map (fmtDead w)))
      | ["events"] => (s, spaced ((w.events.filter (fun e => match e with
          | .handled a _ _ _ => a ≥ 2      -- the guard and the subscription actor are not scripted
          | .spawned _ c => c ≥ 2
          | _ => true)).map (fmtEvent w)))
      | _ => (s, "bad-op")

def model : Suite where
  σ := S
  init := {}
  step := doStep

end Oracle.ActorSys

/-! ## judges: the Spec checkers applied to the implementation's own event record -/
namespace Oracle.ActorSys
open MV.Model.ActorSys MV.Spec.ActorSys

def parseName (s : String) : Option Nat :=
  if s == "nil" then some 1000000
  else if s.startsWith "g" then ((s.drop 1).toString.toNat?).map (ghostBase + ·)
  else s.toNat?
def parseSender (s : String) : Option (Option Nat) := if s == "nil" then some none else (parseName s).map some

def parseObs (s : String) : Option Obs :=
  match s.splitOn ":" with
  | ["launch"] => some .launch | ["restarted"] => some .restarted | ["restarting"] => some .restarting
  | ["terminate"] => some .terminate
  | ["terminated", w] => (parseName w).map .terminated
  | ["user", t] => t.toNat?.map .user
  | ["dead", r, t] => do let r ← parseName r; let t ← t.toNat?; pure (.dead r t)
  | _ => none

def parseDirective' : String → Option Directive
  | "restart" => some .restart | "stop" => some .stop | "resume" => some .resume
  | "escalate" => some .escalate | _ => none

def parseEvent (s : String) : Option Event :=
  if s.startsWith "h:" then
    match ((s.drop 2).toString).splitOn "/" with
    | [ai, obs, snd] =>
      match ai.splitOn ":" with
      | [a, i] => do
          let a ← a.toNat?; let i ← i.toNat?; let o ← parseObs obs; let sd ← parseSender snd
          pure (.handled a i o sd)
      | _ => none
    | _ => none
  else match s.splitOn ":" with
    | ["failed", a] => a.toNat?.map .failed
    | ["decided", sup, v, d, c] => do
        let sup ← parseName sup; let v ← parseName v; let d ← parseDirective' d; let c ← c.toNat?
        pure (.decided sup v d c)
    | ["spawned", p, c] => do let p ← parseName p; let c ← c.toNat?; pure (.spawned p c)
    | ["watch", w, t] => do let w ← w.toNat?; let t ← parseName t; pure (.watch w t)
    | ["unwatch", w, t] => do let w ← w.toNat?; let t ← parseName t; pure (.unwatch w t)
    | ["killreq", t] => (parseName t).map .killreq
    | _ => none

/-- `[a b c]` given as tokens `[a`, `b`, `c]` -/
def unbracket (toks : List String) : List String :=
  let s := " ".intercalate toks
  if s.startsWith "[" && s.endsWith "]" then
    ((((s.drop 1).dropEnd 1).toString).splitOn " ").filter (· ≠ "")
  else []

/-- final dump → (status, registered) per actor -/
def parseDump (toks : List String) : List (Nat × String × Bool) :=
  ((" ".intercalate toks).splitOn " | ").filterMap fun part =>
    match part.splitOn "," with
    | hd :: rest =>
      match hd.splitOn ":" with
      | [a, st] => a.toNat?.map fun a => (a, st, rest.contains "reg=1")
      | _ => none
    | [] => none

/-- every mailbox is empty in the dump (the run was driven to quiescence) -/
def dumpQuiescent (toks : List String) : Bool :=
  ((" ".intercalate toks).splitOn " | ").all fun part => part.endsWith "q=0/0"

structure JS where
  evs : Option (List Event) := none

def judgeWith (crashIsBad : Bool) (check : List Event → (Aid → Bool) → (Aid → Bool) → Bool → Option String) : Suite where
  σ := JS
  init := {}
  step s toks :=
    match toks.dropWhile (· ≠ "=>") with
    | _ :: out =>
      match toks.head? with
      | some "events" =>
        match (unbracket out).mapM parseEvent with
        | some evs => ({ evs := some evs }, "ok")
        | none => (s, "bad:unparsable-events")
      | some "dump" =>
        match s.evs with
        | none => (s, "ok")
        | some evs =>
          let d := parseDump out
          let alive (a : Aid) : Bool := d.any fun (a', st, _) => a' == a && st == "alive"
          let gone (a : Aid) : Bool := d.any fun (a', st, reg) => a' == a && st == "terminated" && !reg
          match check evs alive gone (dumpQuiescent out) with
          | none => (s, "ok")
          | some l => (s, "bad:" ++ l)
      | _ => if crashIsBad && (out == ["fatal"] || out == ["hang"]) then (s, "bad:process-" ++ (out.headD "")) else (s, "ok")
    | [] => (s, "bad-op")

def judgeC03 : Suite := judgeWith false fun evs _ _ _ => c03 evs
def judgeC04 : Suite := judgeWith true fun evs _ _ _ =>
  ((c04suspended evs).orElse fun _ => c04directive evs).orElse fun _ => c04escalate evs
/-- the fine-grained suite: C04's event clauses plus `stuck => [a b …]` (printed after `events`)
judged by `c04stuck` -/
def judgeC04fine : Suite where
  σ := JS
  init := {}
  step s toks :=
    match toks.head?, toks.dropWhile (· ≠ "=>") with
    | some "stuck", _ :: out =>
      match s.evs with
      | none => (s, "ok")
      | some evs =>
        match c04stuck evs ((unbracket out).filterMap String.toNat?) with
        | none => (s, "ok")
        | some l => (s, "bad:" ++ l)
    | _, _ => judgeC04.step s toks
def judgeC05 : Suite := judgeWith false fun evs _ gone quiet =>
  (c05order evs).orElse fun _ => if quiet then (c05complete evs gone).orElse fun _ => c05requests evs gone else none
def judgeC06 : Suite := judgeWith false fun evs alive gone quiet =>
  ((c06dup evs).orElse fun _ => c06unsolicited evs).orElse fun _ =>
    if quiet then c06missing evs alive gone else none

end Oracle.ActorSys
