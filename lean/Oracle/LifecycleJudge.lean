import Oracle.Proto
import MV.Spec.ActorSys
/-!
# Judge of suite `lifecycle-timers` (C03)

The harness prints, per instance the provider handed out, what that instance handled:
`lifecycle => 0:[launch user restarting terminate terminated] 1:[restarted launch …]`.
Every instance's sequence must be accepted by the lifecycle automaton `MV.Spec.ActorSys.lcRun`
(the same one the C03 spec theorems are about); an instance that was replaced must have finished
(phase 5).  All other lines are not judged.
-/
namespace Oracle.LifecycleJudge
open MV.Model.ActorSys MV.Spec.ActorSys

def obsOfTok : String → Option Obs
  | "launch" => some .launch
  | "restarted" => some .restarted
  | "restarting" => some .restarting
  | "terminate" => some .terminate
  | "terminated" => some (.terminated 0)
  | "terminated-other" => some (.terminated 1)
  | "user" => some (.user 0)
  | "other" => some (.user 0)
  | _ => none

/-- split `0:[a b] 1:[c]` into the bracket contents, in order -/
def groups (s : String) : List String :=
  ((s.splitOn "[").drop 1).map fun part => (part.splitOn "]").headD ""

def verdict (out : String) : String :=
  let gs := groups out
  let n := gs.length
  let rec go (i : Nat) : List String → String
    | [] => "ok"
    | g :: rest =>
      match ((g.splitOn " ").filter (· ≠ "")).mapM obsOfTok with
      | none => "bad:unparsable-answer"
      | some obs =>
        match lcRun 0 i 0 obs with
        | .error e => s!"bad:c03:{e}-instance-{i}"
        | .ok p =>
          if i + 1 < n && p != 5 then s!"bad:c03:replaced-instance-{i}-not-finished"
          else go (i + 1) rest
  go 0 gs

def splitArrow : List String → List String × List String
  | [] => ([], [])
  | "=>" :: r => ([], r)
  | t :: r => let p := splitArrow r; (t :: p.1, p.2)

def judge : Suite where
  σ := Unit
  init := ()
  step _ toks :=
    let p := splitArrow toks
    match p.1 with
    | ["lifecycle"] =>
      let out := " ".intercalate p.2
      if out == "hang" || out == "fatal" || out == "skipped" then ((), "bad:runner-died-or-exceeded-its-budget")
      else ((), verdict out)
    | _ => ((), "ok")

end Oracle.LifecycleJudge
