import Oracle.Proto
/-!
# Oracle suite `deadletters-judge` (C02): handled exactly once, or a dead letter — end to end

Judges the real system's counts for a batch of uniquely numbered user messages
(`… => sent=n handled=h dead=d dup=x foreign=y`): every message is accounted for exactly once
(`h + d = n`, `dup = 0`); messages to an address that never existed are all dead letters (`h = 0`);
for a graceful terminate every message enqueued before the request is handled (`d = 0`, C05's clause);
a message is a dead letter ONLY if the actor terminated or never existed before reaching it: messages sent
through a reference that was used while nobody lived at its address are handled once an actor lives there
(`reborn`, `d = 0`).
-/
namespace Oracle.DeadLetters

def field (key : String) (toks : List String) : Option Nat :=
  toks.findSome? fun t => if t.startsWith (key ++ "=") then (t.drop (key.length + 1)).toString.toNat? else none

def judge : Suite where
  σ := Unit
  init := ()
  step _ toks :=
    let op := toks.takeWhile (· ≠ "=>")
    let out := (toks.dropWhile (· ≠ "=>")).drop 1
    if out == ["bad-op"] then ((), "ok") else
    match op with
    | ["sys", _] => ((), if out == ["ok"] then "ok" else "bad:system-did-not-start")
    | kind :: args =>
      match field "sent" out, field "handled" out, field "dead" out, field "dup" out with
      | some n, some h, some d, some x =>
        if x ≠ 0 then ((), "bad:c02-message-handled-or-dead-lettered-twice")
        else if h + d < n then ((), "bad:c02-message-silently-dropped")
        else if h + d > n then ((), "bad:c02-message-both-handled-and-dead-lettered")
        else if kind == "missing" ∧ h ≠ 0 then ((), "bad:c02-handled-by-nobody")
        else if kind == "broadcast" ∧ d ≠ 0 then ((), "bad:c02-broadcast-to-a-living-child-became-a-dead-letter")
        else if kind == "reborn" ∧ d ≠ 0 then ((), "bad:c02-message-to-a-living-actor-became-a-dead-letter")
        else if kind == "backlog" ∧ args.getLast? == some "g" ∧ d ≠ 0 then ((), "bad:c02-graceful-terminate-dropped-queued-messages")
        else ((), "ok")
      | _, _, _, _ => ((), "bad:unparsable-output")
    | [] => ((), "bad-op")

end Oracle.DeadLetters
