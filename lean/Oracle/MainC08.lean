import Oracle.C08
def main (args : List String) : IO UInt32 := Oracle.mainWith Oracle.C08.suites args
