import Oracle.Proto
/-!
# Oracle suite `shutdown-registry-judge` (C05): "Shutdown returns only after every actor has terminated,
and afterwards no actor or temporary reply address remains registered"

Judges the answers of the real system (suite `shutdown-registry`):
* `asks n … => done=n ok=k timeout=j`: every ask completed (`done = n`, C07) — an ask to the echo actor
  with a generous timeout is answered, asks to a silent or dead receiver time out;
* `shutdown … => returned alive=0`: when `Shutdown` returns every launched actor has handled its own
  `OnTerminated` (run-level theorem `MV.Props.C05.C05_shutdown_waits` for the model: `closed` ⇒ everybody
  terminated); `hang` is a violation;
* `registry => [ … ]`: once the outstanding asks have completed nothing is registered any more
  (actors: `MV.Props.C05.C05_shutdown_waits` + `C05_unregistered_only_after_termination` for the model and the judged real record; reply addresses: `MV.Props.C07.C07_released`).
-/
namespace Oracle.ShutdownRegistry

def field (key : String) (toks : List String) : Option Nat :=
  toks.findSome? fun t => if t.startsWith (key ++ "=") then (t.drop (key.length + 1)).toNat? else none

def judge : Suite where
  σ := Unit
  init := ()
  step _ toks := match toks with
    | [_, "=>", "bad-op"] => ((), "ok")
    | [_, _, "=>", "bad-op"] => ((), "ok")
    | [_, _, _, "=>", "bad-op"] => ((), "ok")
    | [_, _, _, _, _, "=>", "bad-op"] => ((), "ok")
    | "tree" :: _ :: _ :: "=>" :: out => ((), if (field "launched" out).isSome then "ok" else "bad:tree")
    | "asks" :: n :: kind :: tus :: _ :: "=>" :: out =>
      match n.toNat?, tus.toNat?, field "done" out, field "ok" out, field "timeout" out with
      | some n, some tus, some d, some k, some j =>
        if d ≠ n then ((), "bad:c05-ask-did-not-complete")
        else if k + j ≠ n then ((), "bad:c05-ask-count")
        else if kind ≠ "echo" ∧ k ≠ 0 then ((), "bad:c05-silent-receiver-answered")
        else if kind = "echo" ∧ tus ≥ 2000000 ∧ j ≠ 0 then ((), "bad:c05-answered-ask-timed-out")
        else ((), "ok")
      | _, _, _, _, _ => ((), "bad:asks")
    | ["pending", _, _, "=>", "ok"] => ((), "ok")
    | "shutdown" :: _ :: "=>" :: out =>
      match out with
      | ["returned", a] => ((), if a = "alive=0" then "ok" else "bad:c05-shutdown-returned-before-everyone-terminated")
      | _ => ((), "bad:c05-shutdown-hang")
    | "registry" :: "=>" :: out =>
      -- the dead-letter process (`/abyss`, the substitute every unknown address resolves to) is neither an
      -- actor nor a reply address and stays registered
      ((), if out = ["[]"] ∨ out = ["[/abyss]"] ∨ out = ["bad-op"] then "ok" else "bad:c05-still-registered-after-shutdown")
    | _ => ((), "bad-op")

end Oracle.ShutdownRegistry
