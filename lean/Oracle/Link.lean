import Oracle.Proto
import MV.Model.LinkSys
/-!
Oracle suite `link` — T-diff against two real `prc.Shared` joined by an in-memory pipe.  Since the two
repairs recorded in findings.d/C11.json the code follows the specification (every reference reaches
the open stream; errors travel inside wrappers), so `link-spec` is the same function.
-/
namespace Oracle.Link
open MV.Model.Link MV.Model.LinkSys

def fmtPid : Option Pid → String
  | none => "-"
  | some p => p.phys ++ p.logical

def fmtBody : Body Pay → String
  | .val (.int n) => s!"int:{n}"
  | .val (.str s) => s!"str:{s}"
  | .val (.pid p) => s!"pid:{fmtPid (some p)}"
  | .err t => s!"err:{t}"

/-- `prefix` (everything but the payload), payload, suffix -/
def fmtSeenParts (i : Nat) (x : Seen) : String × Body Pay × String :=
  let nodeName := if i == 0 then "A" else "B"
  let k := if x.system then "s" else "u"
  let pre := s!"{nodeName}:{x.target}:{k}:{fmtPid x.sender}>{fmtPid x.receiver}:"
  match x.msg with
  | .bare b => (pre, b, ":bare")
  | .wrapped ws wr b =>
    (pre, b, if ws == x.sender && wr == x.receiver then "" else s!":w={fmtPid ws}>{fmtPid wr}")

/-- consecutive deliveries that differ only in consecutive integer payloads are printed as a range -/
def fmtSeenList (l : List (Nat × Seen)) : String :=
  let rec go (acc : List String) (cur : Option (String × String × Int × Int)) : List (Nat × Seen) → List String
    | [] => match cur with
      | none => acc
      | some (p, sfx, lo, hi) => acc ++ [if lo == hi then s!"{p}int:{lo}{sfx}" else s!"{p}int:[{lo}-{hi}]{sfx}"]
    | (i, x) :: rest =>
      let (p, b, sfx) := fmtSeenParts i x
      let flush (acc : List String) : List String := match cur with
        | none => acc
        | some (p, sfx, lo, hi) => acc ++ [if lo == hi then s!"{p}int:{lo}{sfx}" else s!"{p}int:[{lo}-{hi}]{sfx}"]
      match b with
      | .val (.int n) =>
        match cur with
        | some (p0, sfx0, lo, hi) =>
          if p0 == p && sfx0 == sfx && n == hi + 1 then go acc (some (p0, sfx0, lo, n)) rest
          else go (flush acc) (some (p, sfx, n, n)) rest
        | none => go acc (some (p, sfx, n, n)) rest
      | b => go (flush acc ++ [p ++ fmtBody b ++ sfx]) none rest
  "[" ++ " ".intercalate (go [] none l) ++ "]"

def fmtLink (s : Sys) : String :=
  match s.cur with
  | some e => s!"link={e}"
  | none => "link=-"

def fmtOut (s : Sys) : Out → String
  | .panic => "panic"
  | .seen l => s!"{fmtSeenList l} {fmtLink s}"

def parsePidStr (t : String) : Option (Option Pid) :=
  if t == "-" then some none else
  match t.splitOn "/" with
  | ph :: rest@(_ :: _) => if ph.isEmpty then none else some (some ⟨ph, "/" ++ "/".intercalate rest⟩)
  | _ => none

def parsePayload (t : String) : Option (Body Pay) :=
  match t.splitOn ":" with
  | ["int", n] => n.toInt?.map (fun n => .val (.int n))
  | ["str", s] => some (.val (.str s))
  | ["pid", p] => match parsePidStr p with
    | some (some p) => some (.val (.pid p))
    | _ => none
  | ["err", s] => some (.err s)
  | _ => none

def parseNode (t : String) : Option Nat :=
  if t == "0" then some 0 else if t == "1" then some 1 else none

def parseBit (t : String) : Option Bool :=
  if t == "0" then some false else if t == "1" then some true else none

def mkNode (phys : String) (sub : Bool) : Node :=
  if sub then { phys := phys } else
    { phys := phys, hasSub := false, reg := ["/guard"], redirect := some ⟨phys, "/guard"⟩ }

/-- build the message a `tell` passes: kind = bare | wrap | wrapto:<pid> -/
def mkMsg (kind : String) (sender receiver : Option Pid) (b : Body Pay) : Option (Msg Pay) :=
  if kind == "bare" then some (.bare b)
  else if kind == "wrap" then some (.wrapped sender receiver b)
  else match kind.splitOn ":" with
    | ["wrapto", p] => (parsePidStr p).map (fun r => .wrapped sender r b)
    | _ => none

def senderPid (n : Node) (from_ : String) : Option Pid :=
  if from_ == "-" then none else some ⟨n.phys, "/" ++ from_⟩

def setRef (n : Node) (name : String) (r : Ref) : Node :=
  { n with refs := (name, r) :: n.refs.filter (·.1 != name) }

def stepSys (s : Sys) (toks : List String) : Sys × String :=
  match toks with
  | ["link", a, b] => match parseBit a, parseBit b with
    | some a, some b => ({ a := mkNode "A" a, b := mkNode "B" b }, "ok")
    | _, _ => (s, "bad-op")
  | ["reg", n, name] => match parseNode n with
    | some i =>
      let nd := s.node i
      let l := "/" ++ name
      if nd.reg.contains l then (s, "exists") else (s.setNode i { nd with reg := nd.reg ++ [l] }, "ok")
    | none => (s, "bad-op")
  | ["unreg", n, name] => match parseNode n with
    | some i =>
      let nd := s.node i
      if name == "guard" then (s, "bad-op") else
      (s.setNode i { nd with reg := nd.reg.filter (· != "/" ++ name) }, "ok")
    | none => (s, "bad-op")
  | ["ref", n, rname, p] => match parseNode n, parsePidStr p with
    | some i, some (some pid) => (s.setNode i (setRef (s.node i) rname ⟨pid, none⟩), "ok")
    | _, _ => (s, "bad-op")
  | ["tell", n, rname, from_, kind, payload, sys] =>
    match parseNode n, parsePayload payload, parseBit sys with
    | some i, some b, some sys =>
      let nd := s.node i
      match nd.refs.lookup rname with
      | none => (s, "bad-op")
      | some r =>
        let sender := senderPid nd from_
        match mkMsg kind sender (some r.pid) b with
        | none => (s, "bad-op")
        | some m =>
          let (s1, r1, o) := tellVia s i r sys sender m
          let s2 := s1.setNode i (setRef (s1.node i) rname r1)
          (s2, fmtOut s2 o)
    | _, _, _ => (s, "bad-op")
  | ["telln", n, rname, from_, first, count] =>
    match parseNode n, first.toNat?, count.toNat? with
    | some i, some first, some count =>
      match (s.node i).refs.lookup rname with
      | none => (s, "bad-op")
      | some _ =>
        let (s', l, pan) := (List.range count).foldl (fun (acc : Sys × List (Nat × Seen) × Bool) (k : Nat) =>
          let (s, l, pan) := acc
          if pan then acc else
          let nd := s.node i
          match nd.refs.lookup rname with
          | none => acc
          | some r =>
            let sender := senderPid nd from_
            let (s1, r1, o) := tellVia s i r false sender (.wrapped sender (some r.pid) (.val (.int ((first + k : Nat) : Int))))
            let s2 := s1.setNode i (setRef (s1.node i) rname r1)
            match o with
            | .seen l' => (s2, l ++ l', false)
            | .panic => (s2, l, true)) (s, [], false)
        (s', if pan then "panic" else fmtOut s' (.seen l))
    | _, _, _ => (s, "bad-op")
  | ["reply", n, target, k, payload] =>
    match parseNode n, k.toNat?, parsePayload payload with
    | some i, some k, some b =>
      let nd := s.node i
      let mine := nd.seen.filter (·.target == target)
      match mine[k]? with
      | none => (s, "none")
      | some x =>
        -- ctx.Reply = Ask(ctx.sender, message): the sender carried by the wrapper, self as sender
        let to := match x.msg with
          | .wrapped ws _ _ => ws
          | .bare _ => x.sender
        let self : Option Pid := some ⟨nd.phys, if target == "dead" then "/dead" else target⟩
        match to with
        | none =>
          -- GetProcess(nil) = the substitute
          let (s1, o) := deliverLocal s i (fallback (cfg s i)) false none self (.wrapped self none b)
          (s1, fmtOut s1 o)
        | some p =>
          let (s1, _, o) := tellVia s i ⟨p, none⟩ false self (.wrapped self (some p) b)
          (s1, fmtOut s1 o)
    | _, _, _ => (s, "bad-op")
  | ["break"] => let s' := { s with up := false, cur := none }; (s', fmtLink s')
  | ["heal"] => let s' := { s with up := true }; (s', fmtLink s')
  | _ => (s, "bad-op")

def model : Suite where
  σ := Sys
  init := {}
  step := stepSys

def spec : Suite where
  σ := Sys
  init := {}
  step := stepSys

end Oracle.Link
