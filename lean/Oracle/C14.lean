import Oracle.Proto
/-! Oracle suites of property C14 (registered in Oracle/Main.lean through `suites`). -/
namespace Oracle.C14

def suites : List (String × Suite) := []

end Oracle.C14
