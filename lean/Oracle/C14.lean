import Oracle.Proto
import Oracle.ECS
/-! Oracle suites of property C14. -/
namespace Oracle.C14

def suites : List (String × Suite) := [
  ("ecs", Oracle.ECS.model),
  ("ecs-spec", Oracle.ECS.spec),
  ("ecs-judge", Oracle.ECS.judge)
]

end Oracle.C14
