import Oracle.Proto
import MV.Model.LFQueue
import MV.Model.MPSC
import MV.Model.RingUnbounded
import MV.Spec.ConcQueue
namespace Oracle.Queues
open MV.Model

/-! ## deterministic single-goroutine suites: the interleaving models run one call at a time -/

/-- `lfq-seq`: every line is one call executed by thread 0 alone with the `step` function of the
interleaving model (the function the theorems are about). -/
def lfqSeq : Suite where
  σ := LFQueue.St
  init := LFQueue.init [[]]
  step s toks :=
    let call (op : LFQueue.Op) : LFQueue.St × String :=
      let s1 : LFQueue.St := { s with ths := [LFQueue.start [op]] }
      let s2 := LFQueue.solo s1 0 16
      let fin : Bool := match s2.ths with
        | [th] => th.pc == .done
        | _ => false
      if !fin then (s2, "stuck")
      else if s2.g.popped.length > s.g.popped.length then
        (s2, match s2.g.popped.getLast? with | some (_, v) => toString v | none => "stuck")
      else if s2.g.nils.length > s.g.nils.length then (s2, "nil")
      else (s2, "ok")
    match toks with
    | ["new"] => (LFQueue.init [[]], "ok")
    | ["push", v] => match v.toInt? with
        | some v => call (.push v)
        | none => (s, "bad-op")
    | ["pop"] => call .pop
    | _ => (s, "bad-op")

/-- `mpsc-seq`: `push` = the producer's two atomic steps run alone, `pop`/`empty` = the consumer's
atomic action of the model. -/
def mpscSeq : Suite where
  σ := MPSC.St
  init := MPSC.init [[]]
  step s toks := match toks with
    | ["new"] => (MPSC.init [[]], "ok")
    | ["push", v] => match v.toInt? with
        | some v =>
          let s1 : MPSC.St := { s with ths := [MPSC.start [v]] }
          let s2 := MPSC.solo s1 0 8
          let fin : Bool := match s2.ths with
            | [th] => th.pc == .done
            | _ => false
          (s2, if fin then "ok" else "stuck")
        | none => (s, "bad-op")
    | ["pop"] =>
        let (g', r) := MPSC.pop s.g
        ({ s with g := g' }, if g'.crashed then "crashed" else match r with | some v => toString v | none => "nil")
    | ["empty"] => (s, fmtBool (MPSC.empty s.g))
    | _ => (s, "bad-op")

/-- spec of both: the list queue -/
def seqSpec : Suite where
  σ := List Int
  init := []
  step l toks := match toks with
    | ["new"] => ([], "ok")
    | ["push", v] => match v.toInt? with
        | some v => (l ++ [v], "ok")
        | none => (l, "bad-op")
    | ["pop"] => match l with
        | [] => ([], "nil")
        | x :: xs => (xs, toString x)
    | ["empty"] => (l, fmtBool l.isEmpty)
    | _ => (l, "bad-op")

/-! ## the program texts the models were transcribed from (T-facts) -/

/-- `Push` / `Pop` with the yield points of the controlled scheduler: every atomic operation is preceded by
exactly one, named after the program counter of `MV.Model.LFQueue` it corresponds to (suite `lfq-sched`) -/
def hookedPush : String :=
  "node=new(value); loop{ @lfq.pu.tail; tail=load(q.tail); @lfq.pu.next; next=load(tail.next); @lfq.pu.re; " ++
  "if(tail==load(q.tail)){ if(next==nil){ @lfq.pu.cas; if(cas(tail.next,next,node)){ @lfq.pu.swing; " ++
  "cas(q.tail,tail,node); return } } else{ @lfq.pu.help; cas(q.tail,tail,next) } } }"
def hookedPop : String :=
  "loop{ @lfq.po.head; head=load(q.head); @lfq.po.tail; tail=load(q.tail); @lfq.po.next; next=load(head.next); " ++
  "@lfq.po.re; if(head==load(q.head)){ if(head==tail){ if(next==nil){ return nil }; @lfq.po.help; " ++
  "cas(q.tail,tail,next) } else{ value=next.value; @lfq.po.cas; if(cas(q.head,head,next)){ return value } } } }"

def facts : Suite where
  σ := Unit
  init := ()
  step _ toks := match toks with
    | ["facts", "lock_free.go", "Push"] => ((), LFQueue.pushProg)
    | ["facts", "lock_free.go", "Pop"] => ((), LFQueue.popProg)
    | ["hooked", "lock_free.go", "Push"] => ((), hookedPush)
    | ["hooked", "lock_free.go", "Pop"] => ((), hookedPop)
    | ["facts", "mpsc.go", "Push"] => ((), MPSC.pushProg)
    | ["facts", "mpsc.go", "Pop"] => ((), MPSC.popProg)
    | ["facts", "mpsc.go", "Empty"] => ((), MPSC.emptyProg)
    | ["facts", "ring_unbounded.go", "Write"] => ((), RingUnbounded.writeProg)
    | ["facts", "ring_unbounded.go", "Close"] => ((), RingUnbounded.closeProg)
    | ["facts", "ring_unbounded.go", "process"] => ((), RingUnbounded.processProg)
    | _ => ((), "bad-op")

/-! ## judge of concurrent histories -/

def splitOn (sep : String) (toks : List String) : List (List String) :=
  let r := toks.foldl (fun (acc : List (List String) × List String) t =>
    if t == sep then (acc.2.reverse :: acc.1, []) else (acc.1, t :: acc.2)) ([], [])
  (r.2.reverse :: r.1).reverse

/-- producer `p` (0-based) pushes `p*1000000+1 … p*1000000+K` -/
def pushesOfRun (P K : Nat) : List (List Int) :=
  (List.range P).map (fun p => (List.range K).map (fun k => ((p * 1000000 + k + 1 : Nat) : Int)))

/-- line: `run P K C => c v v v ; c v v ; d v v` (one `;`-separated group per consumer, the last
group is the final drain); answers `ok` or `bad:<clause>`. -/
def judge : Suite where
  σ := Unit
  init := ()
  step _ toks :=
    match splitOn "=>" toks with
    | [op, out] =>
      let wellFormed : Option (Nat × Nat) := match op with
        | ["run", P, K, C] =>
          match P.toNat?, K.toNat?, C.toNat? with
          | some P, some K, some C => if P ≤ 64 && K ≤ 100000 && C ≤ 64 then some (P, K) else none
          | _, _, _ => none
        | _ => none
      match wellFormed with
      | none => ((), if out == ["bad-op"] then "ok" else "bad:op-accepted")
      | some (P, K) =>
        if out == ["bad-op"] then ((), "bad:op-rejected") else
        let groups := splitOn ";" out
        let parsed := groups.mapM (fun g => match g with
          | _ :: vs => vs.mapM (fun t => t.toInt?)
          | [] => none)
        match parsed with
        | some pops => ((), MV.Spec.ConcQueue.verdict (pushesOfRun P K) pops)
        | none => ((), "bad:" ++ " ".intercalate out)
    | _ => ((), "bad:format")

end Oracle.Queues
