import Oracle.Proto
/-! Oracle suites of property C07 (registered in Oracle/Main.lean through `suites`). -/
namespace Oracle.C07

def suites : List (String × Suite) := []

end Oracle.C07
