import Oracle.Proto
import Oracle.Future
/-! Oracle suites of property C07. -/
namespace Oracle.C07

def suites : List (String × Suite) := [
  ("future", Oracle.Future.model),
  ("future-judge", Oracle.Future.judge)
]

end Oracle.C07
