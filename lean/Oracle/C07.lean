import Oracle.Proto
import Oracle.Future
/-! Oracle suites of property C07. -/
namespace Oracle.C07

def suites : List (String × Suite) := [
  ("future", Oracle.Future.model),
  ("future-judge", Oracle.Future.judge),
  ("ask-judge", Oracle.Future.askJudge),
  ("future-facts", Oracle.Future.factsSuite),
  ("future-race-judge", Oracle.Future.raceJudge)
]

end Oracle.C07
