import Oracle.Proto
/-! Oracle suites of property C17 (registered in Oracle/Main.lean through `suites`). -/
namespace Oracle.C17

def suites : List (String × Suite) := []

end Oracle.C17
