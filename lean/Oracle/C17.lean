import Oracle.Proto
import Oracle.CollModel
import Oracle.CollSpec
import Oracle.CollJudge
/-! Oracle suites of property C17. -/
namespace Oracle.C17

def suites : List (String × Suite) := [
  ("c17-edit", Oracle.Coll.model),
  ("c17-edit-spec", Oracle.Coll.spec),
  ("c17-query", Oracle.Coll.model),
  ("c17-query-spec", Oracle.Coll.spec),
  ("c17-order-judge", Oracle.Coll.judge),
  ("c17-random-judge", Oracle.Coll.judge),
  ("c17-topo-judge", Oracle.Coll.judge)
]

end Oracle.C17
