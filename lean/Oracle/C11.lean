import Oracle.Proto
/-! Oracle suites of property C11 (registered in Oracle/Main.lean through `suites`). -/
namespace Oracle.C11

def suites : List (String × Suite) := []

end Oracle.C11
