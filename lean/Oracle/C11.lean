import Oracle.Proto
import Oracle.StreamGate
import Oracle.Link
import Oracle.Codec
import Oracle.Remote
import Oracle.Reorder
/-! Oracle suites of property C11. -/
namespace Oracle.C11

def suites : List (String × Suite) := [
  ("streamgate", Oracle.StreamGate.model),
  ("streamgate-judge", Oracle.StreamGate.judge),
  ("streamgate-facts", Oracle.StreamGate.factsSuite),
  ("link", Oracle.Link.model),
  ("link-spec", Oracle.Link.spec),
  ("codec", Oracle.Codec.model),
  ("remote", Oracle.Remote.model),
  ("remote-judge", Oracle.Remote.judge),
  ("reorder", Oracle.Reorder.model),
  ("reorder-spec", Oracle.Reorder.spec)
]

end Oracle.C11
