import Oracle.Proto
import Oracle.StreamGate
import Oracle.Link
import Oracle.Codec
import Oracle.Remote
/-! Oracle suites of property C11. -/
namespace Oracle.C11

def suites : List (String × Suite) := [
  ("streamgate", Oracle.StreamGate.model),
  ("streamgate-judge", Oracle.StreamGate.judge),
  ("streamgate-facts", Oracle.StreamGate.factsSuite),
  ("link", Oracle.Link.model),
  ("link-spec", Oracle.Link.spec),
  ("codec", Oracle.Codec.model),
  ("remote", Oracle.Remote.model),
  ("remote-judge", Oracle.Remote.judge)
]

end Oracle.C11
