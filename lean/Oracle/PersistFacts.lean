import Oracle.Proto
/-!
# T-facts of the persistence hooks (C09)

Text (comments and logging statements dropped, white space normalised) of the functions of
`engine/vivid/actor_context.go` that `MV.Model.Persistence` transcribes: `recovery` (load, THEN raise the
recovering flag, replay snapshot and events, lower it on every path), `persistence`, and the position of the
save in `restart` (after the old instance's `OnTerminate` / `OnTerminated` turns, before the new instance).
-/
namespace Oracle.PersistFacts

def recoveryPersistenceText : String :=
  "{ ctx.initPersistenceState() snapshot, events, err := ctx.persistenceState.Load() if err != nil && !errors.Is(err, persistence.ErrorPersistenceNotHasRecord) { return } ctx.persistenceRecovering = true defer func() { ctx.persistenceRecovering = false }() if snapshot != nil { ctx.processMessage(ctx.ref, ctx.ref, snapshot, false) } for _, event := range events { ctx.processMessage(ctx.ref, ctx.ref, event, false) } }"

def PersistenceText : String :=
  "{ if ctx.persistenceState != nil { if err := ctx.persistenceState.Persist(); err != nil { return err } } return nil }"

def internalPersistenceText : String :=
  "{ if err := ctx.Persistence(); err != nil { } }"

def tryRestartedText : String :=
  "{ if len(ctx.children) > 0 || ctx.status.Load() != actorStatusRestarting { return } ctx.processMessage(ctx.sender, ctx.ref, onTerminate, false) ctx.processMessage(ctx.sender, ctx.ref, &OnTerminated{ctx.ref}, false) for _, subscription := range ctx.subscriptions { ctx.UnSubscribe(subscription) } ctx.internalPersistence() ctx.actor = ctx.provider.Provide() if ctx.scheduler != nil { ctx.scheduler.Clear() } ctx.status.Store(actorStatusAlive) ctx.deliverySystemMessage(ctx.ref, ctx.ref, ctx.ref, nil, onResumeMailbox) ctx.deliverySystemMessage(ctx.ref, ctx.ref, ctx.ref, nil, onRestarted) ctx.deliverySystemMessage(ctx.ref, ctx.ref, ctx.parentRef, nil, onLaunch) ctx.setExpireDuration() }"

def expected : String → Option String
  | "recoveryPersistence" => some recoveryPersistenceText
  | "Persistence" => some PersistenceText
  | "internalPersistence" => some internalPersistenceText
  | "tryRestarted" => some tryRestartedText
  | _ => none

def suite : Suite where
  σ := Unit
  init := ()
  step _ toks := match toks with
    | ["text", f] => ((), (expected f).getD "bad-op")
    | _ => ((), "bad-op")

end Oracle.PersistFacts
