import Oracle.Proto
import MV.Model.ActorTimers
/-!
Oracle suites `actor-timers` (model) and `actor-timers-spec`.

    spawn <idle> <expire>        (0 = not configured) — first line of a case
    after <name> <ms> | repeat <name> <after> <interval> <times> | stop <name> | ping
    busy <ms> | term <ms> | crash <ms> | wait <ms>
    counts | alive | flags | late | stale

The spec differs from the model in one point: a callback never runs after the actor has terminated
and never in an incarnation other than the one that registered its task.
-/
namespace Oracle.ActorTimers
open MV.Model.ActorTimers MV.Model.Scheduler

def tickMs : Nat := 10


def optStep (a : Actor) (r : Option Actor) : Actor × String :=
  match r with
  | some a' => (a', "ok")
  | none => (a, "dead")

def mk (isSpec : Bool) : Suite where
  σ := Actor
  init := MV.Model.ActorTimers.init tickMs 0 0
  step a toks :=
    match toks with
    | ["spawn", i, e] => match i.toNat?, e.toNat? with
      | some i, some e => (MV.Model.ActorTimers.init tickMs i e, "ok")
      | _, _ => (a, "bad-op")
    | ["after", n, d] => match n.toNat?, d.toInt? with
      | some n, some d => if n < idleName then optStep a (tell a (.after n d)) else (a, "bad-op")
      | _, _ => (a, "bad-op")
    | ["repeat", n, x, iv, k] => match n.toNat?, x.toInt?, iv.toInt?, k.toInt? with
      | some n, some x, some iv, some k =>
        if n < idleName then optStep a (tell a (.repeated n x iv k)) else (a, "bad-op")
      | _, _, _, _ => (a, "bad-op")
    | ["stop", n] => match n.toNat? with
      | some n => if n < idleName then optStep a (tell a (.stop n)) else (a, "bad-op")
      | none => (a, "bad-op")
    | ["ping"] => optStep a (tell a .ping)
    | ["busy", d] => match d.toNat? with
      | some d => optStep a (busy a d)
      | none => (a, "bad-op")
    | ["term", d] => match d.toNat? with
      | some d => (term a d, "ok")
      | none => (a, "bad-op")
    | ["crash", d] => match d.toNat? with
      | some d => optStep a (crash a d)
      | none => (a, "bad-op")
    | ["wait", d] => match d.toNat? with
      | some d => (wait a d, "ok")
      | none => (a, "bad-op")
    | ["counts"] =>
      if isSpec then
        (a, fmtNats ((userIds a).map (fun i => a.turns.countP (fun t => t.id = i && t.live && t.inc == a.regInc t.id))))
      else (a, fmtNats (counts a))
    | ["alive"] => (a, fmtBool a.live)
    | ["flags"] => (a, "none")     -- early / overlap: never, in model and spec
    | ["late"] => (a, if !isSpec && afterTerminated a then "after-terminated" else "none")
    | ["stale"] => (a, if !isSpec && stale a then "stale" else "none")
    | _ => (a, "bad-op")

def model : Suite := mk false
def spec : Suite := mk true

end Oracle.ActorTimers
