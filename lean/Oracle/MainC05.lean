import Oracle.C05
def main (args : List String) : IO UInt32 := Oracle.mainWith Oracle.C05.suites args
