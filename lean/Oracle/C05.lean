import Oracle.Proto
import Oracle.ActorSys
import Oracle.ShutdownRegistry
/-! Oracle suites of property C05 (the Layer-2 actor-system model is shared by C03–C06). -/
namespace Oracle.C05

def suites : List (String × Suite) := [
  ("actorsys", Oracle.ActorSys.model),
  ("actorsys-judge", Oracle.ActorSys.judgeC05),
  ("shutdown-registry-judge", Oracle.ShutdownRegistry.judge)
]

end Oracle.C05
