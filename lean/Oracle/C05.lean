import Oracle.Proto
/-! Oracle suites of property C05 (registered in Oracle/Main.lean through `suites`). -/
namespace Oracle.C05

def suites : List (String × Suite) := []

end Oracle.C05
