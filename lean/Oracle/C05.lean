import Oracle.Proto
import Oracle.ActorSys
/-! Oracle suites of property C05 (the Layer-2 actor-system model is shared by C03–C06). -/
namespace Oracle.C05

def suites : List (String × Suite) := [
  ("actorsys", Oracle.ActorSys.model),
  ("actorsys-judge", Oracle.ActorSys.judgeC05)
]

end Oracle.C05
