import Oracle.C18
def main (args : List String) : IO UInt32 := Oracle.mainWith Oracle.C18.suites args
