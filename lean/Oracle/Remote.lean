import Oracle.Proto
import MV.Spec.Remote
/-!
Oracle suites `remote` (expected observations of operations that never lose the link; `-` for the
others) and `remote-judge` (`MV.Spec.Remote.checkBurst` on what the recording actors of two real
actor systems observed).
-/
namespace Oracle.Remote
open MV.Spec.StreamGate MV.Spec.Remote

structure St where
  up : Bool := false
  closed0 : Bool := false
  closed1 : Bool := false

def num (s : String) (lo hi : Nat) : Option Nat :=
  match s.toNat? with
  | some v => if lo ≤ v && v ≤ hi then some v else none
  | none => none

def burstLine (ns count base : Nat) : String :=
  let ids := (List.range ns).map (fun k => idsOf base k count)
  s!"recv={fmtPerSender ids} rep={fmtPerSender (ids.map expectedReplies)} err={fmtPerSender (ids.map expectedErrors)} foreign=0"

def model : Suite where
  σ := St
  init := {}
  step s toks :=
    match toks with
    | ["systems"] => ({ up := true }, "ok")
    | _ =>
    if !s.up then (s, "bad-op") else
    match toks with
    | ["burst", f, ns, c, b] =>
      match num f 0 1, num ns 1 4, num c 0 99999, num b 0 400000000 with
      | some _, some ns, some c, some b => (s, burstLine ns c b)
      | _, _, _, _ => (s, "bad-op")
    | ["breakburst", f, ns, c, b, cl] =>
      match num f 0 1, num ns 1 4, num c 0 99999, num b 0 400000000, num cl 0 1 with
      | some _, some _, some _, some _, some _ => (s, "-")
      | _, _, _, _, _ => (s, "bad-op")
    | ["ask", f, c, b] =>
      match num f 0 1, num c 0 5000, num b 0 400000000 with
      | some _, some c, some b =>
        let ids := (List.range c).map (· + b)
        (s, s!"ok={fmtRunsBody (ids.filter (fun i => !isErrId i))} err={fmtRunsBody (ids.filter isErrId)} bad=0")
      | _, _, _ => (s, "bad-op")
    | ["tellraw", f, c, b] =>
      match num f 0 1, num c 0 5000, num b 0 400000000 with
      | some _, some c, some b => (s, s!"recv=-:{fmtRunsBody ((List.range c).map (· + b))}")
      | _, _, _ => (s, "bad-op")
    | ["close", n] =>
      match num n 0 1 with
      | some 0 => if s.closed0 then (s, "bad-op") else ({ s with closed0 := true }, "streams=0,0")
      | some _ => if s.closed1 then (s, "bad-op") else ({ s with closed1 := true }, "streams=0,0")
      | none => (s, "bad-op")
    | ["open", n] =>
      match num n 0 1 with
      | some 0 => if s.closed0 then ({ s with closed0 := false }, "ok") else (s, "bad-op")
      | some _ => if s.closed1 then ({ s with closed1 := false }, "ok") else (s, "bad-op")
      | none => (s, "bad-op")
    | ["shutdown"] => ({}, "ok")
    | _ => (s, "bad-op")

def judgeBurst (broke : Bool) (ns count base : Nat) (out : List String) : String :=
  match (kv out "recv").bind parsePerSender, (kv out "rep").bind parsePerSender,
        (kv out "err").bind parsePerSender, (kv out "foreign").bind String.toNat? with
  | some recv, some rep, some err, some foreign =>
    match checkBurst broke ns count base recv rep err foreign with
    | none => "ok"
    | some c =>
      -- reordering across the two streams of an outage is known finding C11-reorder-across-streams; it is
      -- timing dependent here, so it is reproduced deterministically by the `reorder` suite and only
      -- noted on this line (a duplicate, an invented message, or any loss without an outage stay `bad`)
      if broke && c.endsWith "-reordered" then "ok:known-" ++ c else "bad:" ++ c
  | _, _, _, _ => "bad:unparsable"

/-- judge: `<op tokens> => <implementation output tokens>` -/
def judge : Suite where
  σ := Unit
  init := ()
  step _ toks :=
    let ops := toks.takeWhile (· ≠ "=>")
    match toks.dropWhile (· ≠ "=>") with
    | _ :: out =>
      if out == ["bad-op"] then ((), "ok") else
      match ops with
      | ["burst", _, ns, c, b] =>
        match ns.toNat?, c.toNat?, b.toNat? with
        | some ns, some c, some b => ((), judgeBurst false ns c b out)
        | _, _, _ => ((), "ok")
      | ["breakburst", _, ns, c, b, _] =>
        match ns.toNat?, c.toNat?, b.toNat? with
        | some ns, some c, some b => ((), judgeBurst true ns c b out)
        | _, _, _ => ((), "ok")
      | ["ask", _, c, b] =>
        match c.toNat?, b.toNat? with
        | some c, some b =>
          let ids := (List.range c).map (· + b)
          match (kv out "ok").bind parseRunsBody, (kv out "err").bind parseRunsBody, (kv out "bad").bind String.toNat? with
          | some ok, some er, some bad =>
            if bad != 0 then ((), "bad:ask-wrong-or-missing-reply")
            else if !checkPair false (ids.filter (fun i => !isErrId i)) ok then ((), "bad:ask-reply-lost")
            else if !checkPair false (ids.filter isErrId) er then ((), "bad:ask-error-reply-lost")
            else ((), "ok")
          | _, _, _ => ((), "bad:unparsable")
        | _, _ => ((), "ok")
      | ["tellraw", _, c, b] =>
        match c.toNat?, b.toNat? with
        | some c, some b =>
          match (kv out "recv").bind (fun s => parseRunsBody ((s.drop 2).toString)) with
          | some got => if checkPair false ((List.range c).map (· + b)) got then ((), "ok") else ((), "bad:tell-not-equal-sent")
          | none => ((), "bad:unparsable")
        | _, _ => ((), "ok")
      | _ => ((), "ok")
    | [] => ((), "bad-op")

end Oracle.Remote
