import Oracle.C20
def main (args : List String) : IO UInt32 := Oracle.mainWith Oracle.C20.suites args
