import Oracle.C16
def main (args : List String) : IO UInt32 := Oracle.mainWith Oracle.C16.suites args
