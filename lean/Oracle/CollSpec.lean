import Oracle.CollModel
/-!
Spec oracle of the C17 suites `c17-edit` / `c17-query`: the laws of `MV.Spec.Coll` evaluated on the
same op lines.  `-` = not determined by the law (backing-array contents, comparison callbacks that
are not equivalences, map-order dependent survivors).  Helpers whose model already is the plain
list-library definition (membership tests, `find?`, `filter` on entries) are answered by that
definition.
-/
namespace Oracle.Coll
open MV.Model.Coll MV.Spec.Coll

def fResult (l : Option (List Int)) : String := fSl l ++ argsU

def specStep (name : String) (backing : Bool) (a : List String) : Option String :=
  if backing then (editStep name backing a).map (fun _ => "-") else
  match name, a with
  | "DeduplicateSliceInPlace", [s] => if s == "nilptr" then none else (pInts s).map fun s => fResult (s.map firstOcc)
  | "DeduplicateSlice", [s] => (pInts s).map fun s => fResult (s.map firstOcc)
  | "DeduplicateSliceInPlaceWithCompare", [s, c] =>
      if s == "nilptr" then none else do
      let s ← pInts s; let h ← cmpOf c
      pure (if isEquivName c then fResult (s.map (firstOccBy h)) else "-")
  | "DeduplicateSliceWithCompare", [s, c] => do
      let s ← pInts s; let h ← optCb cmpOf c
      match h with
      | none => pure (fResult s)
      | some h => pure (if isEquivName c then fResult (s.map (firstOccBy h)) else "-")
  | "CloneSlice", [s] => (pInts s).map fun s => fSl s ++ argsU ++ indep
  | "CloneMap", [m] => (pMap m).map fun m => fMp m ++ argsU ++ indep
  | "CloneSliceN", [s, n] => do
      let s ← pInts s; let n ← pInt n
      if n > 64 then none else
      pure (fSls (s.map (fun l => List.replicate n.toNat (some l))) ++ argsU ++ indep)
  | "CloneMapN", [m, n] => do
      let m ← pMap m; let n ← pInt n
      if n > 64 then none else
      pure (fMps (m.map (fun l => List.replicate n.toNat (some l))) ++ argsU ++ indep)
  | "CloneSlices", [ss] => (pIntss ss).map fun ss => fSls ss ++ argsU ++ indep
  | "CloneMaps", [ms] => (pMaps ms).map fun ms => fMps ms ++ argsU ++ indep
  | "MergeSlice", [s] => (pInts s).map fun s => fSl (if s.els.isEmpty then none else some s.els) ++ argsU ++ indep
  | "MergeSlices", [ss] => (pIntss ss).map fun ss =>
      fSl (if (ss.getD []).isEmpty then none else some ((slicesOf ss).flatten)) ++ argsU ++ indep
  | "MergeMaps", [ms] => (pMaps ms).map fun ms => fMp (some (mergeLast (mapsOf ms))) ++ argsU ++ indep
  | "MergeMapsWithSkip", [ms] => (pMaps ms).map fun ms =>
      fMp (if (ms.getD []).isEmpty then none else some (mergeFirst (mapsOf ms))) ++ argsU ++ indep
  | "ConvertSliceToBatches", [s, n] => do
      let s ← pInts s; let n ← pInt n
      pure (fIntss (if s.els.isEmpty || n ≤ 0 then none else some (chunks n.toNat s.els)) ++ argsU)
  | "ReverseSlice", [s] => if s == "nilptr" then none else (pInts s).map fun s => fResult (s.map List.reverse)
  -- laws: a swap exchanges two cells and touches nothing else; sums are the list sums; a mapping is `List.map`
  | "SwapSlice", [s, i, j] => do
      if s == "nilptr" then none else
      let s ← pInts s; let i ← pInt i; let j ← pInt j
      pure (fResult (s.map fun l =>
        if i < 0 ∨ j < 0 ∨ i ≥ (l.length : Int) ∨ j ≥ (l.length : Int) then l
        else (List.range l.length).map fun k =>
          if k == i.toNat then l.getD j.toNat 0 else if k == j.toNat then l.getD i.toNat 0 else l.getD k 0))
  | "SliceSum", [s, h] => do
      let s ← pInts s; let h ← sumIdxOf h
      pure (toString (((List.range s.els.length).map fun k => h k (s.els.getD k 0)).sum) ++ argsU)
  | "MapSum", [m, h] => do
      let m ← pMap m; let h ← sumKVOf h
      pure (toString ((m.ents.map fun e => h e.1 e.2).sum) ++ argsU)
  | "MappingFromSlice", [s, g] => do
      let s ← pInts s; let g ← getterOf g
      pure (fSl (s.map (List.map g)) ++ argsU)
  | "MappingFromMap", [m, g] => do
      let m ← pMap m; let g ← getterOf g
      pure (fMp (m.map (List.map fun e => (e.1, g e.2))) ++ argsU)
  | "FilterOutByIndices", [s, i] => do
      let s ← pInts s; let i ← pInts i
      pure (fResult (s.map (fun l => dropIdx l i.els)))
  | "DropSliceByIndices", [s, i] => if s == "nilptr" then none else do
      let s ← pInts s; let i ← pInts i
      pure (fResult (s.map (fun l => dropIdx l i.els)))
  | "FilterOutByCondition", [s, p] => do
      let s ← pInts s; let p ← optCb predOf p
      pure (fResult (s.map (fun l => match p with | none => l | some p => l.filter (fun v => !p v))))
  | "DropSliceByCondition", [s, p] => if s == "nilptr" then none else do
      let s ← pInts s; let p ← optCb predOf p
      pure (fResult (s.map (fun l => match p with | none => l | some p => l.filter (fun v => !p v))))
  | "DropSliceOverlappingElements", [s, o, c] => if s == "nilptr" then none else do
      let s ← pInts s; let o ← pInts o; let c ← optCb cmpOf c
      pure (fResult (s.map (fun l => match o, c with
        | some o, some c => l.filter (fun v => !o.any (fun x => c v x))
        | _, _ => l)))
  | "ClearSlice", [s] => if s == "nilptr" then none else (pInts s).map fun s => fResult (s.map (fun _ => []))
  | "EqualSlice", [x, y, c] => do
      let x ← pInts x; let y ← pInts y; let c ← cmpOf c
      pure (fBool (equalBy c x.els y.els) ++ argsU)
  | "EqualComparableSlice", [x, y] => do
      let x ← pInts x; let y ← pInts y
      pure (fBool (x.els == y.els) ++ argsU)
  | "EqualMap", [x, y, c] => do
      let x ← pMap x; let y ← pMap y; let c ← cmpOf c
      pure (fBool (mapEqualBy c x.ents y.ents) ++ argsU)
  | "EqualComparableMap", [x, y] => do
      let x ← pMap x; let y ← pMap y
      pure (fBool (mapEqualBy (· == ·) x.ents y.ents) ++ argsU)
  | "FindMinimumInComparableSlice", [s] => (pInts s).map fun s => toString (argMin id s.els) ++ argsU
  | "FindMaximumInComparableSlice", [s] => (pInts s).map fun s => toString (argMax id s.els) ++ argsU
  | "FindMin2MaxInComparableSlice", [s] => (pInts s).map fun s => fPair (argMin id s.els, argMax id s.els) ++ argsU
  | "FindMinimumInSlice", [s, g] => do let s ← pInts s; let g ← getterOf g; pure (toString (argMin g s.els) ++ argsU)
  | "FindMaximumInSlice", [s, g] => do let s ← pInts s; let g ← getterOf g; pure (toString (argMax g s.els) ++ argsU)
  | "FindMin2MaxInSlice", [s, g] => do let s ← pInts s; let g ← getterOf g; pure (fPair (argMin g s.els, argMax g s.els) ++ argsU)
  | "FindMinFromComparableMap", [m] => (pMap m).map fun m => toString (argMin id (valsOf m.ents)) ++ argsU
  | "FindMaxFromComparableMap", [m] => (pMap m).map fun m => toString (argMax id (valsOf m.ents)) ++ argsU
  | "FindMin2MaxFromComparableMap", [m] => (pMap m).map fun m => fPair (argMin id (valsOf m.ents), argMax id (valsOf m.ents)) ++ argsU
  | "FindMin2MaxFromMap", [m] => (pMap m).map fun m => fPair (argMin id (valsOf m.ents), argMax id (valsOf m.ents)) ++ argsU
  | "LoopSlice", [s, st] => do let s ← pInts s; let st ← pNat st; pure (fVisits2 (visited st (indexed s.els)) ++ argsU)
  | "ReverseLoopSlice", [s, st] => do let s ← pInts s; let st ← pNat st; pure (fVisits2 (visited st (indexed s.els).reverse) ++ argsU)
  | "LoopMapByOrderedKeyAsc", [m, st] => do
      let m ← pMap m; let st ← pNat st
      let ks := isort (fun a b => decide (a ≤ b)) (keysOf m.ents)
      pure (fVisits3 (visited st ((List.range ks.length).map (fun i => (i, ks.getD i 0, lookupD m.ents (ks.getD i 0))))) ++ argsU)
  | "LoopMapByOrderedKeyDesc", [m, st] => do
      let m ← pMap m; let st ← pNat st
      let ks := isort (fun a b => decide (a ≥ b)) (keysOf m.ents)
      pure (fVisits3 (visited st ((List.range ks.length).map (fun i => (i, ks.getD i 0, lookupD m.ents (ks.getD i 0))))) ++ argsU)
  | _, _ => none

def specAnswer (toks : List String) : String :=
  match parseLine toks with
  | none => "bad-op"
  | some (n, backing, a) =>
    match specStep n backing a with
    | some o => o
    | none => modelAnswer toks

def spec : Suite where
  σ := Unit
  init := ()
  step _ toks := ((), specAnswer toks)

end Oracle.Coll
