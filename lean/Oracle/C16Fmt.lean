import Oracle.Proto
import MV.Model.C16Common
/-! Formatting / parsing helpers shared by the C16 oracle suites. -/
namespace Oracle.C16
open MV.Model

def fmtRow (r : List Int) : String := ":".intercalate (r.map toString)
def fmtRows (l : List (List Int)) : String := "[" ++ " ".intercalate (l.map fmtRow) ++ "]"

def fmtOut : Out → String
  | .unit => "ok"
  | .int v => toString v
  | .bool b => fmtBool b
  | .ints l => fmtInts l
  | .rows l => fmtRows l
  | .intBool v b => toString v ++ " " ++ fmtBool b
  | .absent => "none"
  | .err c => "err:" ++ toString c
  | .panic => "panic"
  | .hang => "hang"
  | .fatal => "fatal"
  | .undet => "-"

/-- parse `[1 2] [3 4]` (given as tokens) into lists of ints -/
def parseLists (toks : List String) : Option (List (List Int)) :=
  let s := " ".intercalate toks
  let segs := (s.splitOn "]").map (fun x => x.trimAscii.toString)
  -- the last segment (after the final `]`) must be empty
  match segs.reverse with
  | [] => none
  | lastSeg :: restRev =>
    if lastSeg ≠ "" then none
    else restRev.reverse.mapM (fun seg =>
      if seg.startsWith "[" then
        (((seg.drop 1).toString.splitOn " ").filter (· ≠ "")).mapM (fun t => t.toInt?)
      else none)

/-- parse rows `[1:2 3:4]` (tokens) -/
def parseRows (toks : List String) : Option (List (List Int)) :=
  let s := (" ".intercalate toks).trimAscii.toString
  if s.startsWith "[" && s.endsWith "]" then
    let inner := ((s.drop 1).dropEnd 1).toString
    ((inner.splitOn " ").filter (· ≠ "")).mapM (fun t => (t.splitOn ":").mapM (fun x => x.toInt?))
  else none

def int? (s : String) : Option Int := s.toInt?

end Oracle.C16
