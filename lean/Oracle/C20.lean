import Oracle.Proto
/-! Oracle suites of property C20 (registered in Oracle/Main.lean through `suites`). -/
namespace Oracle.C20

def suites : List (String × Suite) := []

end Oracle.C20
