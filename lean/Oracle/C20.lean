import Oracle.Proto
import Oracle.AStar
import Oracle.Geometry
import Oracle.Nav
/-! Oracle suites of property C20. -/
namespace Oracle.C20

def suites : List (String × Suite) := [
  ("astar", Oracle.AStar.model),
  ("astar-spec", Oracle.AStar.spec),
  ("astar-judge", Oracle.AStar.judge),
  ("geo", Oracle.Geometry.model),
  ("geo-spec", Oracle.Geometry.spec),
  ("geonum-judge", Oracle.Geometry.judge),
  ("funnel", Oracle.Nav.funnelModel),
  ("navmesh-judge", Oracle.Nav.navJudge)
]

end Oracle.C20
