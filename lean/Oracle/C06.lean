import Oracle.Proto
import Oracle.ActorSys
import Oracle.ProcessFacts
/-! Oracle suites of property C06 (the Layer-2 actor-system model is shared by C03–C06). -/
namespace Oracle.C06

def suites : List (String × Suite) := [
  ("actorsys", Oracle.ActorSys.model),
  ("actorsys-judge", Oracle.ActorSys.judgeC06),
  ("process-facts", Oracle.ProcessFacts.suite)
]

end Oracle.C06
