import Oracle.Proto
/-! Oracle suites of property C06 (registered in Oracle/Main.lean through `suites`). -/
namespace Oracle.C06

def suites : List (String × Suite) := []

end Oracle.C06
