import Oracle.Proto
import MV.Model.ClusterManager
import MV.Spec.ClusterRegistry
import MV.Spec.ClusterJudge
/-!
Oracle suites of the cluster manager (C13): `cmgr` (the model `MV.Model.ClusterManager`) and
`cmgr-spec` (the abstract registry `MV.Spec.ClusterRegistry`) over the same operation lines:

    new A1 .. An | lookup I A | kill I A | restart | state | launches

Tokens: `<>` is the empty name, `^` a space, `|` a tab.
-/
namespace Oracle.ClusterManager
open MV.Model.ClusterManager

def decName (t : String) : Name :=
  if t == "<>" then [] else t.toList.map (fun c => if c == '^' then ' ' else if c == '|' then '\t' else c)

def encName (n : Name) : String :=
  if n.isEmpty then "<>" else String.ofList (n.map (fun c => if c == ' ' then '^' else if c == '\t' then '|' else c))

def addr (n : Name) : String := "/user/cluster/" ++ encName n

/-- byte-wise (ASCII) lexicographic order, as Go's `sort.Strings` -/
def nameLe : Name → Name → Bool
  | [], _ => true
  | _ :: _, [] => false
  | a :: as, b :: bs => if a.toNat < b.toNat then true else if b.toNat < a.toNat then false else nameLe as bs

def insertBy {α : Type} (le : α → α → Bool) (x : α) : List α → List α
  | [] => [x]
  | y :: ys => if le x y then x :: y :: ys else y :: insertBy le x ys

def sortBy {α : Type} (le : α → α → Bool) (l : List α) : List α := l.foldr (insertBy le) []

def keyLe (a b : Key) : Bool :=
  if a.1 = b.1 then nameLe a.2 b.2 else nameLe a.1 b.1

def fmtReply : Reply → String
  | .ref r => "ref " ++ addr r.name ++ " #" ++ toString r.inc
  | .errAbility => "err:ability"
  | .errCreate => "err:create"

def fmtOut : Out → String
  | .reply r => fmtReply r
  | .panic => "panic"
  | .killed n => "killed " ++ addr n
  | .none => "none"
  | .restarted => "restarted"

def fmtState (children : List Name) (members : List (Key × Name)) : String :=
  let c := (sortBy nameLe children).map addr
  let m := (sortBy (fun a b => keyLe a.1 b.1) members).map
    (fun e => encName e.1.1 ++ " " ++ encName e.1.2 ++ " " ++ addr e.2)
  "c=[" ++ " ".intercalate c ++ "] m=[" ++ " ".intercalate m ++ "]"

def fmtLaunches (log : List Name) : String :=
  let names := sortBy nameLe log.eraseDups
  "[" ++ " ".intercalate (names.map (fun n => addr n ++ " " ++ toString (log.count n))) ++ "]"

def parseOp : List String → Option Op
  | ["lookup", i, a] => some (.lookup (decName i) (decName a))
  | ["kill", i, a] => some (.kill (decName i) (decName a))
  | ["restart"] => some .restart
  | _ => none

/-- model suite; the state is `none` until a successful `new` -/
def model : Suite where
  σ := Option Mgr
  init := none
  step st toks := match toks with
    | "new" :: as =>
      match declare (as.map decName) with
      | some l => (some (init l), "ok")
      | none => (none, "panic")
    | _ => match st with
      | none => (none, "bad-op")
      | some s => match toks with
        | ["state"] => (st, fmtState s.children (s.members.map (fun e => (e.1, e.2.name))))
        | ["launches"] => (st, fmtLaunches s.launched)
        | _ => match parseOp toks with
          | some op => let (s', o) := step s op; (some s', fmtOut o)
          | none => (st, "bad-op")

open MV.Spec in
/-- spec suite: the abstract registry on the same lines -/
def spec : Suite where
  σ := Option ClusterRegistry.Reg
  init := none
  step st toks := match toks with
    | "new" :: as =>
      let l := as.map decName
      if l.eraseDups.length = l.length then (some (ClusterRegistry.init l), "ok") else (none, "panic")
    | _ => match st with
      | none => (none, "bad-op")
      | some s => match toks with
        | ["state"] => (st, fmtState (s.live.map (fun e => ClusterRegistry.keyName e.1))
            (s.live.map (fun e => (e.1, ClusterRegistry.keyName e.1))))
        | ["launches"] => (st, fmtLaunches s.launches)
        | _ => match parseOp toks with
          | some op => let (s', o) := ClusterRegistry.step s op; (some s', fmtOut o)
          | none => (st, "bad-op")

end Oracle.ClusterManager

/-! ## judge suite `cmgr-judge`: lines `op => implementation output` of suite `cmgr-conc` -/
namespace Oracle.ClusterManager
open MV.Model.ClusterManager MV.Spec MV.Spec.ClusterJudge

def splitAt (sep : String) (l : List String) : List (List String) :=
  let r := l.foldr (fun t (acc : List String × List (List String)) =>
    if t == sep then ([], acc.1 :: acc.2) else (t :: acc.1, acc.2)) ([], [])
  r.1 :: r.2

def addrPrefix : List Char := "/user/cluster/".toList

def parseAddr (cs : List Char) : Option Name :=
  if addrPrefix.isPrefixOf cs then some (decName (String.ofList (cs.drop addrPrefix.length))) else none

/-- split at the last `#` -/
def splitHash (cs : List Char) : Option (List Char × List Char) :=
  let r := cs.reverse
  let inc := r.takeWhile (· != '#')
  match r.dropWhile (· != '#') with
  | _ :: rest => some (rest.reverse, inc.reverse)
  | [] => none

def parseReply (t : String) : Option Reply :=
  if t == "E:ability" then some .errAbility
  else if t == "E:create" then some .errCreate
  else match t.toList with
    | 'R' :: ':' :: rest =>
      match splitHash rest with
      | some (a, n) =>
        match parseAddr a, (String.ofList n).toNat? with
        | some name, some inc => some (.ref ⟨name, inc⟩)
        | _, _ => none
      | none => none
    | _ => none

def parsePairs : List String → Option (List Key)
  | [] => some []
  | i :: a :: rest => (parsePairs rest).map (fun l => (decName a, decName i) :: l)
  | _ => none

def stripBrackets (l : List String) : List String :=
  let s := " ".intercalate l
  let cs := s.toList.filter (fun c => c != '[' && c != ']')
  ((String.ofList cs).splitOn " ").filter (· ≠ "")

def parseCounts : List String → Option (List (Name × Nat))
  | [] => some []
  | a :: n :: rest =>
    match parseAddr a.toList, n.toNat?, parseCounts rest with
    | some name, some c, some l => some ((name, c) :: l)
    | _, _, _ => none
  | _ => none

/-- replies of asker `k` (R*m requests, the j-th for pair (k+j) mod m) as observations -/
def askerObs (pairs : List Key) (k : Nat) (toks : List String) : Option (List Obs) :=
  let m := pairs.length
  (toks.zipIdx).mapM (fun (t, j) =>
    match parseReply t, pairs[(k + j) % m]? with
    | some r, some p => some (p, r)
    | _, _ => none)

def judgePar (t : ClusterRegistry.Reg) (K R : Nat) (pairs : List Key) (impl : List String) :
    ClusterRegistry.Reg × String :=
  match splitAt ";" impl with
  | [askers, "launches" :: counts] =>
    let parts := splitAt "|" askers
    if parts.length ≠ K then (t, "bad:shape") else
    let obs? := (parts.zipIdx).mapM (fun (p, k) =>
      match p with
      | tag :: toks =>
        if tag == "k" ++ toString k && toks.length = R * pairs.length then askerObs pairs k toks else none
      | [] => none)
    match obs?, parseCounts (stripBrackets counts) with
    | some obss, some reported =>
      let obs := obss.flatten
      let v := verdict t obs reported
      if v == "ok" then (advance t obs, "ok") else (t, v)
    | none, _ => (t, "bad:request-not-answered")
    | _, none => (t, "bad:shape")
  | [_, _, ["panic"]] => (t, "bad:manager-failed")
  | _ => (t, "bad:request-not-answered")

def judge : Suite where
  σ := Option ClusterRegistry.Reg
  init := none
  step st toks :=
    match splitAt "=>" toks with
    | [op, impl] =>
      match op with
      | "new" :: as =>
        let l := as.map decName
        if l.eraseDups.length = l.length then
          (some (ClusterRegistry.init l), if impl == ["ok"] then "ok" else "bad:new")
        else (none, if impl == ["panic"] then "ok" else "bad:new")
      | _ => match st with
        | none => (none, if impl == ["bad-op"] then "ok" else "bad:op-before-new")
        | some t =>
          match op with
          | "par" :: k :: r :: m :: rest =>
            match k.toNat?, r.toNat?, m.toNat?, parsePairs rest with
            | some K, some R, some m, some pairs =>
              if pairs.length = m ∧ 0 < m then
                let (t', v) := judgePar t K R pairs impl
                (some t', v)
              else (st, if impl == ["bad-op"] then "ok" else "bad:shape")
            | _, _, _, _ => (st, if impl == ["bad-op"] then "ok" else "bad:shape")
          | _ => match parseOp op with
            | some o =>
              let (t', out) := ClusterRegistry.step t o
              if " ".intercalate impl == fmtOut out then (some t', "ok")
              else (some t', "bad:" ++ (op.headD "op") ++ "-answer")
            | none => (st, if impl == ["bad-op"] then "ok" else "bad:unknown-op")
    | _ => (st, "bad-op")

end Oracle.ClusterManager
