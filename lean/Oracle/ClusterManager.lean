import Oracle.Proto
import MV.Model.ClusterManager
import MV.Spec.ClusterRegistry
/-!
Oracle suites of the cluster manager (C13): `cmgr` (the model `MV.Model.ClusterManager`) and
`cmgr-spec` (the abstract registry `MV.Spec.ClusterRegistry`) over the same operation lines:

    new A1 .. An | lookup I A | kill I A | restart | state | launches

Tokens: `<>` is the empty name, `^` a space, `|` a tab.
-/
namespace Oracle.ClusterManager
open MV.Model.ClusterManager

def decName (t : String) : Name :=
  if t == "<>" then [] else t.toList.map (fun c => if c == '^' then ' ' else if c == '|' then '\t' else c)

def encName (n : Name) : String :=
  if n.isEmpty then "<>" else String.ofList (n.map (fun c => if c == ' ' then '^' else if c == '\t' then '|' else c))

def addr (n : Name) : String := "/user/cluster/" ++ encName n

/-- byte-wise (ASCII) lexicographic order, as Go's `sort.Strings` -/
def nameLe : Name → Name → Bool
  | [], _ => true
  | _ :: _, [] => false
  | a :: as, b :: bs => if a.toNat < b.toNat then true else if b.toNat < a.toNat then false else nameLe as bs

def insertBy {α : Type} (le : α → α → Bool) (x : α) : List α → List α
  | [] => [x]
  | y :: ys => if le x y then x :: y :: ys else y :: insertBy le x ys

def sortBy {α : Type} (le : α → α → Bool) (l : List α) : List α := l.foldr (insertBy le) []

def keyLe (a b : Key) : Bool :=
  if a.1 = b.1 then nameLe a.2 b.2 else nameLe a.1 b.1

def fmtReply : Reply → String
  | .ref r => "ref " ++ addr r.name ++ " #" ++ toString r.inc
  | .errAbility => "err:ability"
  | .errCreate => "err:create"

def fmtOut : Out → String
  | .reply r => fmtReply r
  | .panic => "panic"
  | .killed n => "killed " ++ addr n
  | .none => "none"
  | .restarted => "restarted"

def fmtState (children : List Name) (members : List (Key × Name)) : String :=
  let c := (sortBy nameLe children).map addr
  let m := (sortBy (fun a b => keyLe a.1 b.1) members).map
    (fun e => encName e.1.1 ++ " " ++ encName e.1.2 ++ " " ++ addr e.2)
  "c=[" ++ " ".intercalate c ++ "] m=[" ++ " ".intercalate m ++ "]"

def fmtLaunches (log : List Name) : String :=
  let names := sortBy nameLe log.eraseDups
  "[" ++ " ".intercalate (names.map (fun n => addr n ++ " " ++ toString (log.count n))) ++ "]"

def parseOp : List String → Option Op
  | ["lookup", i, a] => some (.lookup (decName i) (decName a))
  | ["kill", i, a] => some (.kill (decName i) (decName a))
  | ["restart"] => some .restart
  | _ => none

/-- model suite; the state is `none` until a successful `new` -/
def model : Suite where
  σ := Option Mgr
  init := none
  step st toks := match toks with
    | "new" :: as =>
      match declare (as.map decName) with
      | some l => (some (init l), "ok")
      | none => (none, "panic")
    | _ => match st with
      | none => (none, "bad-op")
      | some s => match toks with
        | ["state"] => (st, fmtState s.children (s.members.map (fun e => (e.1, e.2.name))))
        | ["launches"] => (st, fmtLaunches s.launched)
        | _ => match parseOp toks with
          | some op => let (s', o) := step s op; (some s', fmtOut o)
          | none => (st, "bad-op")

open MV.Spec in
/-- spec suite: the abstract registry on the same lines -/
def spec : Suite where
  σ := Option ClusterRegistry.Reg
  init := none
  step st toks := match toks with
    | "new" :: as =>
      let l := as.map decName
      if l.eraseDups.length = l.length then (some (ClusterRegistry.init l), "ok") else (none, "panic")
    | _ => match st with
      | none => (none, "bad-op")
      | some s => match toks with
        | ["state"] => (st, fmtState (s.live.map (fun e => ClusterRegistry.keyName e.1))
            (s.live.map (fun e => (e.1, ClusterRegistry.keyName e.1))))
        | ["launches"] => (st, fmtLaunches s.launches)
        | _ => match parseOp toks with
          | some op => let (s', o) := ClusterRegistry.step s op; (some s', fmtOut o)
          | none => (st, "bad-op")

end Oracle.ClusterManager
