import Oracle.C01
def main (args : List String) : IO UInt32 := Oracle.mainWith Oracle.C01.suites args
