import Oracle.C14
def main (args : List String) : IO UInt32 := Oracle.mainWith Oracle.C14.suites args
