import Oracle.C13
def main (args : List String) : IO UInt32 := Oracle.mainWith Oracle.C13.suites args
