import Oracle.Proto
import MV.Model.Retry
import MV.Spec.Retry
import Oracle.Backoff
/-!
# Oracle suites for `toolkit/retry.go` (C18)

Operation lines (one self-contained call each; the harness runs the real helper with a scripted
operation and prints what it observed):

```
retry   <count> <interval-ns> <script>          → calls=<n> res=<r>
async   <count> <interval-ns> <script>          → calls=<n> res=<r>      (RetryAsync + callback)
forever <interval-ns> <script>                  → calls=<n> res=nil
rule    <answers> <script>                      → calls=<n> args=[1 2 …] res=<r>
cretry  <maxRetries> <base> <max> <mn>/<md> <rn>/<rd> <ignore> <cond> <script> → calls=<n> conds=<k> res=<r>
bretry  <maxRetries> <base> <max> <mn>/<md> <rn>/<rd> <ignore> <script>        → calls=<n> res=<r>
```

`<script>` = `-` (empty) or comma-separated outcomes `ok` / `e<id>` / `e<id>><id>>…` (an error wrapping
others); `<ignore>` = `-` or comma-separated sentinel ids; `<cond>` = `nil`, `-` or a string of `T`/`F`;
`<answers>` = `-` or comma-separated nanoseconds.  `<r>` = `nil` | `err:e..` | `maxretries:e..` | `interrupted`.

* `retry` (model) / `retry-spec` (closed forms of `MV.Spec.Retry`): exact comparison.
* `retrytime-judge`: the same lines followed by `elapsed=<ns>`; everything but the elapsed time must equal
  the model's answer, and the elapsed time must be at least the sum of the model's sleeps (for the
  back-off variants: with the smallest admissible jitter) — one-sided, late is never an error.
-/
namespace Oracle.Retry
open MV.Model.Retry MV.Model.Backoff MV.Model.Backoff.FVal

def parseErr (s : String) : Option Err :=
  if s.startsWith "e" then ((s.drop 1).toString.splitOn ">").mapM (·.toNat?) else none

def parseScript (s : String) : Option (List Outcome) :=
  if s = "-" then some []
  else (s.splitOn ",").mapM (fun t => if t = "ok" then some none else (parseErr t).map some)

def parseNats (s : String) : Option (List Nat) :=
  if s = "-" then some [] else (s.splitOn ",").mapM (·.toNat?)

def parseInts (s : String) : Option (List Int) :=
  if s = "-" then some [] else (s.splitOn ",").mapM (·.toInt?)

def parseCond (s : String) : Option (Option (List Bool)) :=
  if s = "nil" then some none
  else if s = "-" then some (some [])
  else (s.toList.mapM (fun c => if c = 'T' then some true else if c = 'F' then some false else none)).map some

def fmtErr (e : Err) : String := "e" ++ ">".intercalate (e.map toString)

def fmtRes : Res → String
  | .nil => "nil"
  | .err e => "err:" ++ fmtErr e
  | .maxRetries e => "maxretries:" ++ fmtErr e
  | .interrupted => "interrupted"

structure Impl where
  retry : Int → Int → List Outcome → Run
  forever : Int → List Outcome → Run
  rule : List Outcome → List Int → Run
  cond : List Outcome → Option (List Bool) → List Nat → Int → (Nat → Int) → Run

def modelImpl : Impl :=
  { retry := MV.Model.Retry.retry, forever := retryForever, rule := retryByRule,
    cond := fun s c ig mr d => condLoop s c ig mr d (s.length + 1) 0 [] }

def specImpl : Impl :=
  { retry := MV.Spec.Retry.retry, forever := MV.Spec.Retry.retryForever, rule := MV.Spec.Retry.retryByRule,
    cond := MV.Spec.Retry.condRetry }

/-- smallest delay the inlined back-off can sleep at attempt `r` (jitter draws 0 and 1 are the extremes) -/
def minDelay (b m : Int) (mn md rn rd : Nat) (r : Nat) : Int :=
  min (MV.Model.Backoff.delay r b m mn md rn rd (fin 0 1)) (MV.Model.Backoff.delay r b m mn md rn rd (fin 1 1))

/-- run one operation line: the `Run` (sleeps = lower bounds) and the canonical answer -/
def runOp (I : Impl) : List String → Option (Run × String)
  | ["retry", c, iv, s] | ["async", c, iv, s] => do
    let c ← c.toInt?; let iv ← iv.toInt?; let s ← parseScript s
    let r := I.retry c iv s
    some (r, s!"calls={r.calls} res={fmtRes r.res}")
  | ["forever", iv, s] => do
    let iv ← iv.toInt?; let s ← parseScript s
    let r := I.forever iv s
    some (r, s!"calls={r.calls} res={fmtRes r.res}")
  | ["rule", a, s] => do
    let a ← parseInts a; let s ← parseScript s
    let r := I.rule s a
    some (r, s!"calls={r.calls} args={fmtNats (List.range' 1 r.aux)} res={fmtRes r.res}")
  | ["cretry", mr, b, m, mu, rn, ig, cd, s] => do
    let mr ← mr.toInt?; let b ← b.toInt?; let m ← m.toInt?
    let (mn, md) ← Oracle.Backoff.parseFrac mu; let (rn, rd) ← Oracle.Backoff.parseFrac rn
    let ig ← parseNats ig; let cd ← parseCond cd; let s ← parseScript s
    let r := I.cond s cd ig mr (minDelay b m mn md rn rd)
    some (r, s!"calls={r.calls} conds={r.aux} res={fmtRes r.res}")
  | ["bretry", mr, b, m, mu, rn, ig, s] => do
    let mr ← mr.toInt?; let b ← b.toInt?; let m ← m.toInt?
    let (mn, md) ← Oracle.Backoff.parseFrac mu; let (rn, rd) ← Oracle.Backoff.parseFrac rn
    let ig ← parseNats ig; let s ← parseScript s
    let r := I.cond s none ig mr (minDelay b m mn md rn rd)
    some (r, s!"calls={r.calls} res={fmtRes r.res}")
  | _ => none

def suiteOf (I : Impl) : Suite where
  σ := Unit
  init := ()
  step _ toks := match runOp I toks with
    | some (_, o) => ((), o)
    | none => ((), "bad-op")

def model : Suite := suiteOf modelImpl
def spec : Suite := suiteOf specImpl

def splitArrow : List String → List String × List String
  | [] => ([], [])
  | "=>" :: rest => ([], rest)
  | t :: rest => let (a, b) := splitArrow rest; (t :: a, b)

def timeJudge : Suite where
  σ := Unit
  init := ()
  step _ toks :=
    let (op, out) := splitArrow toks
    match runOp modelImpl op with
    | none => ((), "bad-op")
    | some (r, want) =>
      match out.reverse with
      | last :: restRev =>
        let got := " ".intercalate restRev.reverse
        if got ≠ want then ((), "bad:result")
        else if last.startsWith "elapsed=" then
          match (last.drop 8).toString.toInt? with
          | some el =>
            let need := (r.sleeps.map (fun d => max d 0)).foldl (· + ·) 0
            if el < need then ((), "bad:too-fast") else ((), "ok")
          | none => ((), "bad:elapsed")
        else ((), "bad:elapsed")
      | [] => ((), "bad:result")

end Oracle.Retry
