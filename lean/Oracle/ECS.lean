import Oracle.Proto
import MV.Model.ECS
import MV.Spec.ECS
/-!
# Oracle suites for the ECS world (C14)

Op lines (names `h` are creation indices, `c` component ids, filters in prefix form
`and k f…`, `or k f…`, `in k c…`, `notin k c…`, `eq k c…`):

`reg`, `rereg k`, `spawn c…`, `spawnn n c…`, `kill h`, `killn h…`, `alive h`, `read h c`,
`write h c v`, `rread h c`, `rwrite h c v`, `query <filter>`, `qiter c <filter>`, `alive0`, `kill0`.
-/
namespace Oracle.ECS
open MV.Model.ECS

def takeNats : Nat → List String → Option (List Nat × List String)
  | 0, ts => some ([], ts)
  | k + 1, t :: ts => do
    let n ← t.toNat?
    let r ← takeNats k ts
    pure (n :: r.1, r.2)
  | _ + 1, [] => none

mutual
def parseF : Nat → List String → Option (Filter × List String)
  | 0, _ => none
  | fuel + 1, op :: k :: ts => do
    let k ← k.toNat?
    match op with
    | "and" => do let r ← parseFs fuel k ts; pure (.and r.1, r.2)
    | "or" => do let r ← parseFs fuel k ts; pure (.or r.1, r.2)
    | "in" => do let r ← takeNats k ts; pure (.isIn r.1, r.2)
    | "notin" => do let r ← takeNats k ts; pure (.notIn r.1, r.2)
    | "eq" => do let r ← takeNats k ts; pure (.eq r.1, r.2)
    | _ => none
  | _ + 1, _ => none
def parseFs : Nat → Nat → List String → Option (List Filter × List String)
  | 0, _, _ => none
  | _ + 1, 0, ts => some ([], ts)
  | fuel + 1, k + 1, ts => do
    let r ← parseF fuel ts
    let r' ← parseFs fuel k r.2
    pure (r.1 :: r'.1, r'.2)
end

def parseFilter (ts : List String) : Option Filter :=
  match parseF (2 * ts.length + 2) ts with
  | some (f, []) => some f
  | _ => none

def nats (ts : List String) : Option (List Nat) := ts.mapM (·.toNat?)

def parseOp : List String → Option Op
  | ["reg"] => some .reg
  | ["rereg", k] => k.toNat?.map .rereg
  | "spawn" :: cs => (nats cs).map .spawn
  | "spawnn" :: n :: cs => do let n ← n.toNat?; let cs ← nats cs; pure (.spawnN n cs)
  | ["kill", h] => h.toNat?.map .kill
  | "killn" :: hs => (nats hs).map .killN
  | ["alive", h] => h.toNat?.map .alive
  | ["read", h, c] => do let h ← h.toNat?; let c ← c.toNat?; pure (.read h c)
  | ["write", h, c, v] => do let h ← h.toNat?; let c ← c.toNat?; let v ← v.toInt?; pure (.write h c v)
  | ["rread", h, c] => do let h ← h.toNat?; let c ← c.toNat?; pure (.rread h c)
  | ["rwrite", h, c, v] => do let h ← h.toNat?; let c ← c.toNat?; let v ← v.toInt?; pure (.rwrite h c v)
  | "query" :: f => (parseFilter f).map .query
  | "qiter" :: c :: f => do let c ← c.toNat?; let f ← parseFilter f; pure (.qiter c f)
  | ["alive0"] => some .alive0
  | ["kill0"] => some .kill0
  | _ => none

def fmtEnt (e : Entity) : String := s!"{e.id}.{e.gen}"

def fmtOut : Out → String
  | .ok => "ok"
  | .badOp => "bad-op"
  | .nil => "nil"
  | .panic => "panic"
  | .any => "-"
  | .nat n => "c" ++ toString n
  | .bool b => fmtBool b
  | .val v => toString v
  | .ent e => fmtEnt e
  | .ents l => "[" ++ " ".intercalate (l.map fmtEnt) ++ "]"
  | .qres n l => toString n ++ " " ++ fmtNats l
  | .iter l => "[" ++ " ".intercalate (l.map fun p =>
      toString p.1 ++ ":" ++ (match p.2 with | some v => toString v | none => "nil")) ++ "]"

/-! ### Derived ops: a query result is a value

`hold <filter>` runs the query and keeps the answer, `held` prints the kept answer again after whatever
happened in between, `qkill h <filter>` walks a fresh result with `Each` and annihilates the entity
named `h` at the first visit, then prints what the walk visited.  In the model (and the spec) a query
result is an immutable value, so these are compositions of `query` and `kill`: the kept / walked result
is exactly the answer at the moment of the query.  The real `Result` must behave the same way (it
copies the matching archetypes' entity lists); a result that aliases the world's tables changes under a
later `Annihilate` (swap-remove) and is caught here. -/

def derived {σ : Type} (step : σ → Op → σ × Out) (st : σ × String) (toks : List String) : (σ × String) × String :=
  match toks with
  | "hold" :: f =>
    match parseFilter f with
    | some f => let r := step st.1 (.query f); ((r.1, fmtOut r.2), fmtOut r.2)
    | none => (st, "bad-op")
  | ["held"] => (st, st.2)
  | "qkill" :: h :: f =>
    match h.toNat?, parseFilter f with
    | some h, some f =>
      let q := step st.1 (.query f)
      let k := step q.1 (.kill h)
      match k.2 with
      | .ok => ((k.1, st.2), fmtOut q.2)
      | o => ((k.1, st.2), fmtOut o)
    | _, _ => (st, "bad-op")
  | _ => match parseOp toks with
    | some op => let r := step st.1 op; ((r.1, st.2), fmtOut r.2)
    | none => (st, "bad-op")

def model : Suite where
  σ := St × String
  init := (St.new, "0 []")
  step := derived MV.Model.ECS.step

def spec : Suite where
  σ := MV.Spec.ECS.St × String
  init := (MV.Spec.ECS.St.new, "0 []")
  step := derived MV.Spec.ECS.step

/-! judge: `spawn … => id.gen` / `spawnn … => [id.gen …]` must hand out handles never seen before -/

def parseEnt (t : String) : Option Entity :=
  match t.splitOn "." with
  | [a, b] => do let a ← a.toNat?; let b ← b.toNat?; pure ⟨a, b⟩
  | _ => none

def stripBr (ts : List String) : List String :=
  (ts.map fun t => ((t.replace "[" "").replace "]" "")).filter (· ≠ "")

def splitArrow : List String → List String × List String
  | [] => ([], [])
  | "=>" :: r => ([], r)
  | t :: r => let p := splitArrow r; (t :: p.1, p.2)

def judge : Suite where
  σ := List Entity
  init := []
  step issued toks :=
    let p := splitArrow toks
    match p.1 with
    | op :: _ =>
      if op == "spawn" || op == "spawnn" then
        match (stripBr p.2).mapM parseEnt with
        | some es =>
          if MV.Spec.ECS.fresh issued es then (issued ++ es, "ok") else (issued ++ es, "bad:handle-reused")
        | none => (issued, "ok")    -- bad-op / panic: nothing was handed out
      else (issued, "ok")
    | [] => (issued, "ok")

end Oracle.ECS
