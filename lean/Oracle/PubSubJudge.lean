import Oracle.Proto
import MV.Spec.PubSub
/-!
Oracle suite `pubsub-conc-judge`: judges the trace of an un-serialised run (suite `pubsub-conc`) with
`MV.Spec.PubSub.judgeConc`. Input line: `conc <seed> <actors> <topics> <steps> <terminations> => <trace tokens>`.
-/
namespace Oracle.PubSubJudge
open MV.Spec.PubSub

def digits (s : String) : Option Nat :=
  if s.isEmpty || s.length > 9 || !s.all Char.isDigit then none else s.toNat?

def validOp (op : List String) : Bool :=
  match op with
  | ["conc", seed, na, nt, steps, nterm] =>
    match digits seed, digits na, digits nt, digits steps, digits nterm with
    | some _, some na, some nt, some steps, some nterm =>
      decide (1 ≤ na ∧ na ≤ 8 ∧ 1 ≤ nt ∧ nt ≤ 4 ∧ 1 ≤ steps ∧ steps ≤ 400 ∧ nterm ≤ na)
    | _, _, _, _, _ => false
  | _ => false

def emptyObs : Obs :=
  { subs := [], unsubs := [], pubs := [], restarts := [], terms := [], dels := [], deads := [], stranded := [] }

def nums (fs : List String) : Option (List Nat) := fs.mapM String.toNat?

/-- one trace token; `none` = malformed -/
def addTok (o : Obs) (tok : String) : Option Obs :=
  match tok.splitOn ":" with
  | kind :: fs =>
    match kind, nums fs with
    | "S", some [a, t, i, c1, c2] => some { o with subs := { actor := a, topic := t, id := i, w := ⟨c1, c2⟩ } :: o.subs }
    | "U", some [a, i, c1, c2] => some { o with unsubs := { actor := a, id := i, w := ⟨c1, c2⟩ } :: o.unsubs }
    | "P", some [q, t, p, c1, c2] => some { o with pubs := { publisher := q, topic := t, pid := p, w := ⟨c1, c2⟩ } :: o.pubs }
    | "R", some [a, c1, c2] => some { o with restarts := { actor := a, w := ⟨c1, c2⟩ } :: o.restarts }
    | "T", some [a, c1, c2] => some { o with terms := { actor := a, w := ⟨c1, c2⟩ } :: o.terms }
    | "D", some [a, inc, p, q] => some { o with dels := { actor := a, inc := inc, pid := p, sender := q } :: o.dels }
    | "X", some [a, p, q] => some { o with deads := { actor := a, pid := p, sender := q } :: o.deads }
    | "Z", some [a] => some { o with stranded := a :: o.stranded }
    | _, _ => none
  | [] => none

/-- the tokens are consed on (cheap); the lists are put back into trace order at the end -/
def parseObs (toks : List String) : Option Obs :=
  (toks.foldl (fun acc t => acc.bind (fun o => addTok o t)) (some emptyObs)).map (fun o =>
    { subs := o.subs.reverse, unsubs := o.unsubs.reverse, pubs := o.pubs.reverse, restarts := o.restarts.reverse,
      terms := o.terms.reverse, dels := o.dels.reverse, deads := o.deads.reverse, stranded := o.stranded.reverse })

def splitArrow (toks : List String) : List String × List String :=
  (toks.takeWhile (· ≠ "=>"), (toks.dropWhile (· ≠ "=>")).drop 1)

def judgeLine (toks : List String) : String :=
  let (op, impl) := splitArrow toks
  if !validOp op then (if impl == ["bad-op"] then "ok" else "bad:accepted-malformed-op")
  else match impl with
    | ["-"] => "ok"
    | ["none"] => "ok"
    | ["bad-op"] => "bad:rejected-valid-op"
    | ["panic"] => "bad:panic"
    | ["fatal"] => "bad:fatal"
    | ["hang"] => "bad:hang"
    | _ => match parseObs impl with
      | none => "bad:unreadable-trace"
      | some o => judgeConc o

def judge : Suite where
  σ := Unit
  init := ()
  step _ toks := ((), judgeLine toks)

end Oracle.PubSubJudge
