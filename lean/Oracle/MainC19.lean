import Oracle.C19
def main (args : List String) : IO UInt32 := Oracle.mainWith Oracle.C19.suites args
