import Oracle.C09
def main (args : List String) : IO UInt32 := Oracle.mainWith Oracle.C09.suites args
