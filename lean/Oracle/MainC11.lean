import Oracle.C11
def main (args : List String) : IO UInt32 := Oracle.mainWith Oracle.C11.suites args
