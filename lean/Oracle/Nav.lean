import Oracle.Proto
import Oracle.Geometry
import MV.Model.Funnel
/-!
Oracle suites for `toolkit/navigate/navmesh`.

`funnel` (model, exact text): `pull n l1x l1y r1x r1y … lnx lny rnx rny` → `[x y; x y; …]`
(`navmesh.VerifStringPull`, the unexported `funnel.stringPull`), `panic` for `n = 0`.

`navmesh-judge` (judge): a mesh is built by `mesh`, `poly n x1 y1 … xn yn`, `build`; then
`path sx sy ex ey => none | [x y; …] | panic` is judged against the polygons:
the path starts and ends at the query points, every vertex and every sample point
`a + (k/32)(b − a)` of every leg lies in some polygon (closed containment, exact rational
arithmetic; polygons are strictly convex), and a path is found whenever both query points are
strictly inside polygons of one edge-connected component.
-/
namespace Oracle.Nav
open MV.Model.Geometry MV.Spec.Geometry MV.Model.Funnel Oracle.Geometry

def fmtPts (l : List Pt) : String := "[" ++ "; ".intercalate (l.map fmtPt) ++ "]"

def portalsOf : List Rat → List (Pt × Pt)
  | a :: b :: c :: d :: r => (⟨a, b⟩, ⟨c, d⟩) :: portalsOf r
  | _ => []

def funnelModel : Suite where
  σ := Unit
  init := ()
  step _ toks := ((), match toks with
    | "pull" :: n :: r => match n.toNat?, rats r with
        | some n, some v =>
          if v.length ≠ 4 * n ∨ n > 200 then "bad-op"
          else match stringPull (portalsOf v) with
            | some p => fmtPts p
            | none => if n = 0 then "panic" else "fuel"
        | _, _ => "bad-op"
    | _ => "bad-op")

/-! ### navmesh judge -/

structure Mesh where
  polys : List (List Pt) := []
  built : Bool := false

/-- `[x y; x y; …]` given as tokens -/
def parsePtList (toks : List String) : Option (List Pt) :=
  let s := " ".intercalate toks
  if s.startsWith "[" && s.endsWith "]" then
    let inner := ((s.drop 1).dropEnd 1).toString
    if inner.trimAscii.toString.isEmpty then some []
    else (inner.splitOn ";").mapM fun part =>
      match ((part.splitOn " ").filter (· ≠ "")).mapM parseDec with
      | some [x, y] => some (⟨x, y⟩ : Pt)
      | _ => none
  else none

def inMesh (m : Mesh) (p : Pt) : Bool := m.polys.any fun l => insideOrOnConvex l p

def strictlyIn (l : List Pt) (p : Pt) : Bool := insideConvex l p == some true

/-- two polygons are neighbours when two of their edges are collinear and share more than a point -/
def adjacent (a b : List Pt) : Bool :=
  (edges a).any fun e => (edges b).any fun f =>
    decide (areaTwice e.1 e.2 f.1 = 0) && decide (areaTwice e.1 e.2 f.2 = 0) &&
      (overlapSpec e.1 e.2 f.1 f.2).isSome

/-- indices reachable from `seen` through `adjacent` (fuelled closure) -/
def component (polys : Array (List Pt)) : Nat → List Nat → List Nat
  | 0, seen => seen
  | f + 1, seen =>
    let next := (List.range polys.size).filter fun j =>
      !seen.contains j && seen.any fun i => adjacent (polys.getD i []) (polys.getD j [])
    if next.isEmpty then seen else component polys f (seen ++ next)

def legOk (m : Mesh) (a b : Pt) : Bool :=
  (List.range 33).all fun k => inMesh m (lerp a b ((k : Rat) / 32))

def legsOk (m : Mesh) : List Pt → Bool
  | a :: b :: r => legOk m a b && legsOk m (b :: r)
  | _ => true

def judgePath (m : Mesh) (s e : Pt) (out : List String) : String :=
  let arr := m.polys.toArray
  let sIdx := (List.range arr.size).filter fun i => strictlyIn (arr.getD i []) s
  let eIdx := (List.range arr.size).filter fun i => strictlyIn (arr.getD i []) e
  let connected := match sIdx with
    | i :: _ => let comp := component arr arr.size [i]; eIdx.any comp.contains
    | [] => false
  match out with
  | ["panic"] => "bad:panic"
  | ["fatal"] => "bad:runner-died-or-exceeded-its-budget"
  | ["hang"] => "bad:hang"
  | ["none"] => if connected then "bad:no-path-between-connected-interior-points" else "ok"
  | _ => match parsePtList out with
    | none => "bad:unparsable-answer"
    | some [] => if connected then "bad:no-path-between-connected-interior-points" else "ok"
    | some p =>
      if p.head? ≠ some s then "bad:path-does-not-start-at-start"
      else if p.getLast? ≠ some e then "bad:path-does-not-end-at-end"
      else if !(p.all (inMesh m)) then "bad:path-vertex-outside-mesh"
      else if !(legsOk m p) then "bad:path-leaves-mesh"
      else "ok"

def navJudge : Suite where
  σ := Mesh
  init := {}
  step m toks :=
    let (op, out) := splitArrow toks
    match op with
    | ["mesh"] => ({}, if out = ["ok"] then "ok" else "bad:setup-answer")
    | "poly" :: r => match parsePoly r with
        | some (l, []) =>
          if l.length ≥ 3 ∧ !m.built then ({ m with polys := m.polys ++ [l] }, if out = ["ok"] then "ok" else "bad:setup-answer")
          else (m, if out = ["bad-op"] then "ok" else "bad:setup-answer")
        | _ => (m, if out = ["bad-op"] then "ok" else "bad:setup-answer")
    | ["build"] =>
        if m.built ∨ m.polys.isEmpty then (m, if out = ["bad-op"] then "ok" else "bad:setup-answer")
        else ({ m with built := true }, if out = ["ok"] then "ok" else if out = ["panic"] then "bad:panic-in-NewNavMesh" else "bad:setup-answer")
    | "path" :: r => match rats r with
        | some [sx, sy, ex, ey] =>
          if !m.built then (m, if out = ["bad-op"] then "ok" else "bad:setup-answer")
          else (m, judgePath m ⟨sx, sy⟩ ⟨ex, ey⟩ out)
        | _ => (m, if out = ["bad-op"] then "ok" else "bad:setup-answer")
    | _ => (m, if out = ["bad-op"] then "ok" else "bad:setup-answer")

end Oracle.Nav
