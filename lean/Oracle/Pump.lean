import Oracle.Proto
import Oracle.Queues
import MV.Spec.Pump
namespace Oracle.Pump
open Oracle.Queues (splitOn pushesOfRun)

def parseNats (l : List String) : Option (List Nat) := l.mapM (fun t => t.toNat?)
def parseIntsL (l : List String) : Option (List Int) := l.mapM (fun t => t.toInt?)

def modes : List String := ["after", "race", "cancel-after", "cancel-race"]

/-- line: `pump W K B <mode> D => lo a b ; hi a b ; out v v v ; closed true|false`
(writer `w` wrote `w*1000000+1 … w*1000000+K`); answers `ok` or `bad:<clause>`. -/
def judge : Suite where
  σ := Unit
  init := ()
  step _ toks :=
    match splitOn "=>" toks with
    | [op, out] =>
      let wellFormed : Option (Nat × Nat) := match op with
        | ["pump", W, K, B, mode, D] =>
          match W.toNat?, K.toNat?, B.toNat?, D.toNat? with
          | some W, some K, some B, some D =>
            if 1 ≤ W && W ≤ 16 && K ≤ 100000 && B ≤ 100000 && D ≤ 100000 && modes.contains mode then some (W, K) else none
          | _, _, _, _ => none
        | _ => none
      match wellFormed with
      | none => ((), if out == ["bad-op"] then "ok" else "bad:op-accepted")
      | some (W, K) =>
        if out == ["bad-op"] then ((), "ok") else   -- a mode the implementation under test does not have
        match splitOn ";" out with
        | [("lo" :: lo), ("hi" :: hi), ("out" :: o), ["closed", c]] =>
          match parseNats lo, parseNats hi, parseIntsL o with
          | some lo, some hi, some o =>
            ((), MV.Spec.Pump.verdict (pushesOfRun W K) lo hi o (c == "true"))
          | _, _, _ => ((), "bad:format")
        | _ => ((), "bad:" ++ " ".intercalate out)
    | _ => ((), "bad:format")

end Oracle.Pump
