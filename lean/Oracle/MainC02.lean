import Oracle.C02
def main (args : List String) : IO UInt32 := Oracle.mainWith Oracle.C02.suites args
