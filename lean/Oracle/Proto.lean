/-!
# Line protocol shared by all oracle suites

One operation per input line, one output line per operation.  A line starting with `#`
starts a new case: the suite state is reset and the line is echoed.  Every suite is a
`Suite`: a state type, an initial state and a step function over the tokens of a line.
Unknown or malformed operations answer `bad-op` (never a default value).
-/
namespace Oracle

structure Suite where
  σ : Type
  init : σ
  step : σ → List String → σ × String

def fmtInts (l : List Int) : String := "[" ++ " ".intercalate (l.map toString) ++ "]"
def fmtNats (l : List Nat) : String := "[" ++ " ".intercalate (l.map toString) ++ "]"
def fmtBool (b : Bool) : String := if b then "true" else "false"

def tokens (line : String) : List String :=
  (line.trimAscii.toString.splitOn " ").filter (· ≠ "")

/-- parse `[1 2 -3]` written as tokens `[1`, `2`, `-3]` or a single token `[]` — callers pass the
    remaining tokens joined; we parse from the raw string. -/
def parseIntList (s : String) : Option (List Int) :=
  let s := s.trimAscii.toString
  if s.startsWith "[" && s.endsWith "]" then
    let inner := ((s.drop 1).dropEnd 1).toString
    let toks := (inner.splitOn " ").filter (· ≠ "")
    toks.mapM (fun t => t.toInt?)
  else none

partial def loop (S : Suite) (h : IO.FS.Stream) (out : IO.FS.Stream) (s : S.σ) : IO Unit := do
  let line ← h.getLine
  if line.isEmpty then return ()
  let l := line.trimAscii.toString
  if l.startsWith "#" then
    out.putStrLn l
    loop S h out S.init
  else if l.isEmpty then
    out.putStrLn ""
    loop S h out s
  else
    let (s', o) := S.step s (tokens l)
    out.putStrLn o
    loop S h out s'

def runSuite (S : Suite) : IO Unit := do
  let stdin ← IO.getStdin
  let stdout ← IO.getStdout
  loop S stdin stdout S.init
  stdout.flush

end Oracle

namespace Oracle
/-- `main` of every per-property oracle executable -/
def mainWith (suites : List (String × Suite)) (args : List String) : IO UInt32 := do
  match args with
  | [name] =>
    match suites.lookup name with
    | some S => runSuite S; return 0
    | none => IO.eprintln s!"unknown suite {name}"; return 2
  | _ =>
    IO.eprintln ("usage: oracle <suite>; suites: " ++ ", ".intercalate (suites.map (·.1)))
    return 2
end Oracle
