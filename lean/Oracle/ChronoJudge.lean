import Oracle.Proto
import Oracle.Chrono
/-!
# Judges for C19: `MV.Spec.Chrono`'s `Bool` predicates applied to the implementation's answers

A judged line is `<op> <args…> => <implementation output>`.

* `chrono-judge`, `period-judge`: fixed-offset lines of the suites `chrono` / `period`; the zone is the
  constant function of the line's offset argument.
* `dst-judge`: lines `<op> <zone name> <args…> => [result…] ; <initial offset> <t1> <o1> <t2> <o2> …` of
  the suite `dst`; the zone is the transition table the harness read from tzdata around the instant.
-/
namespace Oracle.ChronoJudge
open MV.Model MV.Model.Civil MV.Spec.Chrono Oracle.Chrono

def verdict (tag : String) (b : Bool) : String := if b then "ok" else "bad:" ++ tag

/-- strip `[` / `]` from the tokens of a printed list and parse -/
def parseList (toks : List String) : Option (List Int) :=
  parseIntList (" ".intercalate toks)

/-- the judgement proper: zone function, offsets in force nearby, op, integer arguments, result list -/
def judgeRaw (zo : Int → Int) (offs : List Int) (op : String) (args res : List Int) : String :=
  match op, args, res with
  | "sod", [t], [r, _] => verdict "sod" (sodOk zo t r)
  | "eod", [t], [r, _] => verdict "eod" (eodOk zo t r)
  | "sow", [t, wd], [r, _] => if validWeekday wd then verdict "sow" (sowOk zo t wd r) else "ok"
  | "eow", [t, wd], [r, _] => if validWeekday wd then verdict "eow" (eowOk zo t wd r) else "ok"
  | "rsow", [t, wd, k], [r, _] => if validWeekday wd then verdict "rsow" (relSowOk zo t wd k r) else "ok"
  | "next", [t, h, mi, s], [r, _] =>
    if validHMS h mi s then verdict "next" (nextOk zo offs t h mi s r) else "ok"
  | "same", [t1, t2], [_, _, _, d, w, m, _] =>
    if b2i (sameDayRel zo t1 t2) != d then "bad:sameday"
    else if b2i (sameWeekRel zo t1 t2) != w then "bad:sameweek"
    else if b2i (sameMonthRel zo t1 t2) != m then "bad:samemonth" else "ok"
  | "windowweek", [t], [s, _, e, _] =>
    if !normalised s e then "bad:not-normalised"
    else if !containsAnchor s e t then "bad:anchor-outside"
    else verdict "windowweek" (weekWindowOk zo t s e)
  | _, _, _ => "ok"

/-- a rejected answer is labelled with the irregularity of the zone around the instant, if there is
    one (the theorems, which are about constant zones, say nothing there): the requested wall-clock
    time is skipped or repeated by a shift, or a day nearby has no 00:00:00 -/
def judgeCore (zo : Int → Int) (offs : List Int) (op : String) (args res : List Int) : String :=
  let v := judgeRaw zo offs op args res
  if v == "ok" then v
  else match op, args with
    | "next", [t, h, mi, s] => if regularWallClock zo offs t h mi s then v else v ++ "@wallclock-skipped-or-repeated"
    | _, t :: _ => if regularMidnights zo offs t then v else v ++ "@day-without-midnight-nearby"
    | _, _ => v

def splitArrow (toks : List String) : List String × List String :=
  (toks.takeWhile (· != "=>"), (toks.dropWhile (· != "=>")).drop 1)

/-- fixed-offset lines of suite `chrono` -/
def chronoJudgeStep (toks : List String) : String :=
  let (lhs, rhs) := splitArrow toks
  match lhs with
  | op :: a => match ints a, parseList rhs with
    | some a, some res =>
      match op, a with
      | "next", [loc, off, t, h, mi, s] =>
        if loc == off then judgeCore (fun _ => off) [off] op [t, h, mi, s] res else "ok"
      | "same", [o1, t1, o2, t2] => if o1 == o2 then judgeCore (fun _ => o1) [o1] op [t1, t2] res else "ok"
      | "civil", _ => "ok"
      | "date", _ => "ok"
      | "trunc", _ => "ok"
      | "minmax", _ => "ok"
      | _, off :: rest => judgeCore (fun _ => off) [off] op rest res
      | _, _ => "ok"
    | some _, none => "ok"      -- scalar answers (booleans, month lengths) are compared, not judged
    | none, _ => "bad-op"
  | [] => "bad-op"

def chronoJudge : Suite where
  σ := Unit
  init := ()
  step _ toks := ((), chronoJudgeStep toks)

/-- lines of suite `period` -/
def periodJudgeStep (toks : List String) : String :=
  let (lhs, rhs) := splitArrow toks
  match lhs, parseList rhs with
  | "new" :: _, some [s, _, e, _] => verdict "not-normalised" (normalised s e)
  | "with" :: _, some [s, _, e, _] => verdict "not-normalised" (normalised s e)
  | "window" :: a, some [s, _, e, _] => match ints a with
    | some [_, t, size] =>
      if !normalised s e then "bad:not-normalised"
      else if size > 0 then verdict "anchor-outside" (containsAnchor s e t) else "ok"
    | _ => "bad-op"
  | "windowweek" :: a, some res => match ints a with
    | some [off, t] => judgeCore (fun _ => off) [off] "windowweek" [t] res
    | _ => "bad-op"
  | "overlap" :: a, some [x, y] => match ints a with
    | some [a, b, c, d] =>
      if x != y then "bad:overlap-asymmetric"
      else if a < b ∧ c < d then verdict "overlap-interior" (x == b2i (interiorsMeet a b c d)) else "ok"
    | _ => "bad-op"
  | _, _ => "ok"

def periodJudge : Suite where
  σ := Unit
  init := ()
  step _ toks := ((), periodJudgeStep toks)

/-- `[…] ; initial t1 o1 …` -/
def parseDst (rhs : List String) : Option (List Int × Zone) :=
  let lst := rhs.takeWhile (· != ";")
  let tbl := (rhs.dropWhile (· != ";")).drop 1
  match parseList lst, ints tbl with
  | some res, some (init :: rest) =>
    let rec pairs : List Int → List (Int × Int)
      | t :: o :: r => (t, o) :: pairs r
      | _ => []
    some (res, ⟨init, pairs rest⟩)
  | _, _ => none

def dstJudgeStep (toks : List String) : String :=
  let (lhs, rhs) := splitArrow toks
  match lhs, parseDst rhs with
  | op :: _zone :: a, some (res, z) => match ints a with
    | some a =>
      -- `nextx` is `next` on a request the generator classified as skipped/repeated; judged alike
      judgeCore z.offAt z.offsets (if op == "nextx" then "next" else op) a res
    | none => "bad-op"
  | _, _ => "bad-op"

def dstJudge : Suite where
  σ := Unit
  init := ()
  step _ toks := ((), dstJudgeStep toks)

end Oracle.ChronoJudge
