import Oracle.Proto
import Oracle.Ring

open Oracle

def suites : List (String × Suite) := [
  ("ring", Oracle.Ring.model),
  ("ring-spec", Oracle.Ring.spec)
]

def main (args : List String) : IO UInt32 := do
  match args with
  | [name] =>
    match suites.lookup name with
    | some S => runSuite S; return 0
    | none => IO.eprintln s!"unknown suite {name}"; return 2
  | _ =>
    IO.eprintln ("usage: oracle <suite>; suites: " ++ ", ".intercalate (suites.map (·.1)))
    return 2
