import Oracle.Proto
import Oracle.Persistence
import Oracle.PersistFacts
/-! Oracle suites of property C09 (registered in Oracle/MainC09.lean through `suites`). -/
namespace Oracle.C09

def suites : List (String × Suite) := [
  ("persist", Oracle.Persistence.model),
  ("persist-spec", Oracle.Persistence.spec),
  ("persist-original", Oracle.Persistence.original),
  ("persist-facts", Oracle.PersistFacts.suite)
]

end Oracle.C09
