import Oracle.Proto
/-! Oracle suites of property C09 (registered in Oracle/Main.lean through `suites`). -/
namespace Oracle.C09

def suites : List (String × Suite) := []

end Oracle.C09
