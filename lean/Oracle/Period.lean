import Oracle.Proto
import Oracle.Chrono
/-!
# Oracle suites for `toolkit/chrono/period.go` (C19): model `period`, functional spec `period-spec`
-/
namespace Oracle.Period
open MV.Model MV.Model.Chrono MV.Model.Civil Oracle.Chrono

def unitOf : String → Option Int
  | "hour" => some 3600000000000
  | "minute" => some 60000000000
  | "second" => some 1000000000
  | "ms" => some 1000000
  | "us" => some 1000
  | "ns" => some 1
  | _ => none

def utc (ns : Int) : Time := ⟨ns, 0⟩

def modelStep : List String → String
  | "new" :: r => match ints r with
    | some [o1, a, o2, b] => fmtInts (pd (newPeriod ⟨a, o1⟩ ⟨b, o2⟩))
    | _ => "bad-op"
  | "window" :: r => match ints r with
    | some [off, ns, size] => fmtInts (pd (newPeriodWindow ⟨ns, off⟩ size))
    | _ => "bad-op"
  | "windowweek" :: r => match ints r with
    | some [off, ns] => fmtInts (pd (newPeriodWindowWeek ⟨ns, off⟩))
    | _ => "bad-op"
  | "with" :: kind :: r => match ints r with
    | some [off, ns, n] =>
      if kind == "dayzero" then fmtInts (pd (newPeriodWithDayZero ⟨ns, off⟩ n))
      else if kind == "day" then fmtInts (pd (newPeriodWithDay ⟨ns, off⟩ n))
      else match unitOf kind with
        | some u => fmtInts (pd (newPeriodWithUnit u ⟨ns, off⟩ n))
        | none => "bad-op"
    | _ => "bad-op"
  | "pred" :: r => match ints r with
    | some [a, b, t] =>
      let p : Period := (utc a, utc b)
      fmtInts ([p.isBefore (utc t), p.isAfter (utc t), p.isBetween (utc t), p.isOngoing (utc t),
        p.isBetweenOrEqual (utc t)].map b2i)
    | _ => "bad-op"
  | "iboep" :: r => match ints r with
    | some [a, b, c, d] =>
      let p : Period := (utc a, utc b)
      let q : Period := (utc c, utc d)
      fmtInts ([p.isBetweenOrEqualPeriod q, q.isBetweenOrEqualPeriod p].map b2i)
    | _ => "bad-op"
  | "overlap" :: r => match ints r with
    | some [a, b, c, d] =>
      let p : Period := (utc a, utc b)
      let q : Period := (utc c, utc d)
      fmtInts ([p.isOverlap q, q.isOverlap p].map b2i)
    | _ => "bad-op"
  | "dur" :: r => match ints r with
    | some [a, b] =>
      let p : Period := (utc a, utc b)
      fmtInts [p.duration, p.microseconds, p.milliseconds, b2i p.isZero, b2i p.isInvalid]
    | _ => "bad-op"
  | _ => "bad-op"

def model : Suite where
  σ := Unit
  init := ()
  step _ toks := ((), modelStep toks)

open MV.Spec.Chrono in
def specStep : List String → String
  | "new" :: r => match ints r with
    | some [o1, a, o2, b] => if a ≤ b then fmtInts [a, o1, b, o2] else fmtInts [b, o2, a, o1]
    | _ => "bad-op"
  | "window" :: r => match ints r with
    | some [off, ns, size] =>
      if size > 0 then
        let s := ns - (ns + unixToInternalNs) % size
        fmtInts [s, off, s + size, off]
      else "-"
    | _ => "bad-op"
  | "windowweek" :: r => match ints r with
    | some [off, ns] => fmtInts [weekdayStart off ns 1, off, weekdayStart off ns 1 + nsPerWeek, off]
    | _ => "bad-op"
  | "with" :: kind :: r => match ints r with
    | some [off, ns, n] =>
      let stop : Option Int :=
        if kind == "dayzero" then some (startOfDay off (ns + n * nsPerDay))
        else if kind == "day" then some (ns + n * nsPerDay)
        else (unitOf kind).map (fun u => ns + n * u)
      match stop with
      | some e => if ns ≤ e then fmtInts [ns, off, e, off] else fmtInts [e, off, ns, off]
      | none => "bad-op"
    | _ => "bad-op"
  | "pred" :: r => match ints r with
    | some [a, b, t] =>
      if a ≤ b then
        fmtInts ([decide (b < t), decide (t < a), decide (a < t ∧ t < b), decide (a ≤ t ∧ t < b),
          decide (a ≤ t ∧ t ≤ b)].map b2i)
      else "-"
    | _ => "bad-op"
  | "iboep" :: r => match ints r with
    | some [_, _, _, _] => "-"
    | _ => "bad-op"
  | "overlap" :: r => match ints r with
    | some [a, b, c, d] =>
      if a < b ∧ c < d then fmtInts [b2i (interiorsMeet a b c d), b2i (interiorsMeet a b c d)] else "-"
    | _ => "bad-op"
  | "dur" :: r => match ints r with
    | some [a, b] =>
      let d := b - a
      if -9223372036854775808 ≤ d ∧ d ≤ 9223372036854775807 then
        fmtInts [d, Int.tdiv d 1000, Int.tdiv d 1000000, b2i (a == -unixToInternalNs && b == -unixToInternalNs),
          b2i (a == -unixToInternalNs || b == -unixToInternalNs)]
      else "-"
    | _ => "bad-op"
  | _ => "bad-op"

def spec : Suite where
  σ := Unit
  init := ()
  step _ toks := ((), specStep toks)

end Oracle.Period
