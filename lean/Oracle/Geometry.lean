import Oracle.Proto
import MV.Model.Geometry
import MV.Spec.Geometry
/-!
Oracle suites for `toolkit/geometry`.  All numeric arguments are decimal strings parsed into exact
rationals.

`geo` (model, exact text) / `geo-spec` (independent brute-force definitions):
* `onseg ax ay bx by px py`              → bool          `LineSegment.IsPointOnSegment`
* `collinear ax ay bx by cx cy dx dy`    → bool          `CalcLineSegmentCollinearWithEpsilon(…, 1e-4)`
* `overlap ax ay bx by cx cy dx dy`      → `false` | `true x1 y1 x2 y2`   `CalcLineSegmentOverlap`
* `inside n x1 y1 … xn yn px py`         → bool          `Polygon.IsPointInside`
* `onedge n x1 y1 … xn yn px py`         → bool          `Polygon.IsPointOnEdge`
* `ccontains cx cy r px py`              → bool          `Circle.Contains`
* `cintersect x1 y1 r1 x2 y2 r2`         → bool          `Circle.Intersect`
* `coverlap x1 y1 r1 x2 y2 r2`           → bool          `Circle.Overlap`
* `area2 ax ay bx by cx cy`              → number        `CalcTriangleAreaTwice`
* `dist2 ax ay bx by`                    → number        `DistanceSquared2D`

`geonum-judge` (judge; `op => impl floats printed with %.12g`):
* `closest ax ay bx by px py => x y`     `LineSegment.ClosestPoint`
* `rcentroid n pts… => x y`              `CalcRectangleVerticesCentroid`
* `vcentroid n pts… => x y`              `CalcPolygonVerticesCentroid`
* `pcentroid n pts… => x y`              `CalcPolygonCentroid`
* `dist ax ay bx by => d`                `Distance2D`
* `segdist ax ay bx by px py => d`       `CalcLineSegmentDistanceToPoint`
* `polyproj n pts… px py => x y d`       `CalcPolygonPointProjection`
-/
namespace Oracle.Geometry
open MV.Model.Geometry MV.Spec.Geometry

def rats (l : List String) : Option (List Rat) := l.mapM parseDec

/-- exact decimal text of a rational whose denominator divides a power of ten (what Go prints for
    exactly representable results with `strconv.FormatFloat(f, 'f', -1, 64)`); `p/q` otherwise -/
def fmtRat (r : Rat) : String := Id.run do
  if r.den == 1 then return toString r.num
  let mut k := 0
  let mut d := r.den
  -- find k ≤ 30 with den | 10^k
  let mut found := false
  for i in [0:31] do
    if !found && (10 ^ i) % r.den == 0 then
      k := i; found := true
  d := d
  if !found then return s!"{r.num}/{r.den}"
  let scaled : Nat := r.num.natAbs * (10 ^ k / r.den)
  let ip := scaled / 10 ^ k
  let fp := scaled % 10 ^ k
  let fs := toString fp
  let fs := "".pushn '0' (k - fs.length) ++ fs
  -- trim trailing zeros
  let fs := String.ofList (fs.toList.reverse.dropWhile (· == '0')).reverse
  let sign := if r.num < 0 then "-" else ""
  return if fs.isEmpty then s!"{sign}{ip}" else s!"{sign}{ip}.{fs}"

def fmtPt (p : Pt) : String := s!"{fmtRat p.x} {fmtRat p.y}"

def pts : List Rat → List Pt
  | x :: y :: r => ⟨x, y⟩ :: pts r
  | _ => []

/-- `n x1 y1 … xn yn rest…` → (polygon, rest) -/
def parsePoly (toks : List String) : Option (List Pt × List Rat) :=
  match toks with
  | n :: r => match n.toNat?, rats r with
      | some n, some v => if n ≤ 64 ∧ 2 * n ≤ v.length then some (pts (v.take (2 * n)), v.drop (2 * n)) else none
      | _, _ => none
  | [] => none

def epsCol : Rat := 1 / 10000

def modelStep (toks : List String) : String :=
  match toks with
  | "inside" :: r => match parsePoly r with
      | some (l, [px, py]) => if l.length < 1 then "bad-op" else fmtBool (isPointInside l ⟨px, py⟩)
      | _ => "bad-op"
  | "onedge" :: r => match parsePoly r with
      | some (l, [px, py]) => if l.length < 3 then "bad-op" else fmtBool (isPointOnEdge l ⟨px, py⟩)
      | _ => "bad-op"
  | op :: r => match rats r with
    | none => "bad-op"
    | some v => match op, v with
      | "onseg", [ax, ay, bx, by', px, py] => fmtBool (isPointOnSegment ⟨ax, ay⟩ ⟨bx, by'⟩ ⟨px, py⟩)
      | "collinear", [ax, ay, bx, by', cx, cy, dx, dy] =>
          fmtBool (collinearEps ⟨ax, ay⟩ ⟨bx, by'⟩ ⟨cx, cy⟩ ⟨dx, dy⟩ epsCol)
      | "overlap", [ax, ay, bx, by', cx, cy, dx, dy] =>
          (match segOverlap ⟨ax, ay⟩ ⟨bx, by'⟩ ⟨cx, cy⟩ ⟨dx, dy⟩ with
           | none => "false"
           | some (p, q) => s!"true {fmtPt p} {fmtPt q}")
      | "ccontains", [cx, cy, r, px, py] => fmtBool (circleContains ⟨cx, cy⟩ r ⟨px, py⟩)
      | "cintersect", [x1, y1, r1, x2, y2, r2] => fmtBool (circleIntersect ⟨x1, y1⟩ r1 ⟨x2, y2⟩ r2)
      | "coverlap", [x1, y1, r1, x2, y2, r2] => fmtBool (circleOverlap ⟨x1, y1⟩ r1 ⟨x2, y2⟩ r2)
      | "area2", [ax, ay, bx, by', cx, cy] => fmtRat (areaTwice ⟨ax, ay⟩ ⟨bx, by'⟩ ⟨cx, cy⟩)
      | "dist2", [ax, ay, bx, by'] => fmtRat (distSq ⟨ax, ay⟩ ⟨bx, by'⟩)
      | _, _ => "bad-op"
  | [] => "bad-op"

def specStep (toks : List String) : String :=
  match toks with
  | "inside" :: r => match parsePoly r with
      | some (l, [px, py]) => if l.length < 1 then "bad-op" else
          (match insideConvex l ⟨px, py⟩ with | some b => fmtBool b | none => "-")
      | _ => "bad-op"
  | "onedge" :: r => match parsePoly r with
      | some (l, [px, py]) => if l.length < 3 then "bad-op" else
          fmtBool ((edges l).any fun e => onSegB e.1 e.2 ⟨px, py⟩)
      | _ => "bad-op"
  | op :: r => match rats r with
    | none => "bad-op"
    | some v => match op, v with
      | "onseg", [ax, ay, bx, by', px, py] => fmtBool (onSegB ⟨ax, ay⟩ ⟨bx, by'⟩ ⟨px, py⟩)
      | "collinear", [ax, ay, bx, by', cx, cy, dx, dy] =>
          fmtBool (decide (areaTwice ⟨ax, ay⟩ ⟨bx, by'⟩ ⟨cx, cy⟩ = 0) && decide (areaTwice ⟨ax, ay⟩ ⟨bx, by'⟩ ⟨dx, dy⟩ = 0))
      | "overlap", [ax, ay, bx, by', cx, cy, dx, dy] =>
          let a : Pt := ⟨ax, ay⟩; let b : Pt := ⟨bx, by'⟩; let c : Pt := ⟨cx, cy⟩; let d : Pt := ⟨dx, dy⟩
          -- the function is specified for collinear segments only
          if areaTwice a b c = 0 ∧ areaTwice a b d = 0 ∧ areaTwice c d a = 0 ∧ areaTwice c d b = 0 ∧
              (a ≠ b ∨ c ≠ d ∨ areaTwice a c d = 0) then
            (match overlapSpec a b c d with
             | none => "false"
             | some (p, q) => s!"true {fmtPt p} {fmtPt q}")
          else "-"
      | "ccontains", [cx, cy, r, px, py] =>
          fmtBool (decide (0 ≤ r) && decide (sq (px - cx) + sq (py - cy) ≤ r * r))
      | "cintersect", [x1, y1, r1, x2, y2, r2] =>
          fmtBool (decide (0 ≤ r1 + r2) && decide (sq (x2 - x1) + sq (y2 - y1) ≤ sq (r1 + r2)))
      | "coverlap", [x1, y1, r1, x2, y2, r2] =>
          fmtBool (decide (0 < r1 + r2) && decide (sq (x2 - x1) + sq (y2 - y1) < sq (r1 + r2)))
      | "area2", [ax, ay, bx, by', cx, cy] =>
          fmtRat ((bx - ax) * (cy - ay) - (cx - ax) * (by' - ay) |> fun ccw => -ccw)
      | "dist2", [ax, ay, bx, by'] => fmtRat ((ax - bx) * (ax - bx) + (ay - by') * (ay - by'))
      | _, _ => "bad-op"
  | [] => "bad-op"

def model : Suite where
  σ := Unit
  init := ()
  step _ toks := ((), modelStep toks)

def spec : Suite where
  σ := Unit
  init := ()
  step _ toks := ((), specStep toks)

/-! ### numeric judge -/

def splitArrow (toks : List String) : List String × List String :=
  (toks.takeWhile (· ≠ "=>"), (toks.dropWhile (· ≠ "=>")).drop 1)

def isNonFinite (s : String) : Bool :=
  s == "nan" || s == "inf" || s == "-inf"

/-- true minimum squared distance from `p` to the closed segment `ab` -/
def segDistSq (a b p : Pt) : Rat :=
  let ds := distSq a b
  if ds = 0 then distSq p a
  else
    let t := clamp (dot a b p / ds) 0 1
    distSq p (lerp a b t)

/-- `d ≈ √D` : `(d − tol)² ≤ D ≤ (d + tol)²`, `d ≥ 0` -/
def nearSqrt (d D : Rat) : Bool :=
  decide (0 ≤ d) && decide (D ≤ sq (d + tol)) && (decide (d ≤ tol) || decide (sq (d - tol) ≤ D))

/-- approximate membership of an implementation point in the closed segment -/
def nearOnSeg (a b q : Pt) : Bool :=
  let e : Rat := 1 / 1000000
  decide ((areaTwice a b q).abs ≤ e * (1 + distSq a b)) &&
  decide (min a.x b.x - tol ≤ q.x) && decide (q.x ≤ max a.x b.x + tol) &&
  decide (min a.y b.y - tol ≤ q.y) && decide (q.y ≤ max a.y b.y + tol)

def slackSq : Rat := 1 / 1000000

def judgeClosest (a b p : Pt) (out : List String) : String :=
  match out with
  | [x, y] => match rats [x, y] with
      | some [qx, qy] =>
        let q : Pt := ⟨qx, qy⟩
        if !nearOnSeg a b q then "bad:closest-not-on-segment"
        else if !minimalOnSamples a b p q slackSq then "bad:closest-not-minimal"
        else if !nearPt q (closestPoint a b p) then "bad:corr-closest"
        else "ok"
      | _ => if isNonFinite x || isNonFinite y then "bad:closest-not-finite" else "bad:unparsable-answer"
  | _ => "bad:unparsable-answer"

def judgeCentroid (which : String) (l : List Pt) (out : List String) : String :=
  let m := match which with
    | "rcentroid" => rectCentroid l
    | "vcentroid" => verticesCentroid l
    | _ => polygonCentroid l
  match m, out with
  | none, [x, y] => if isNonFinite x || isNonFinite y then "ok" else "bad:corr-centroid"
  | some m, [x, y] => match rats [x, y] with
      | some [qx, qy] =>
        let q : Pt := ⟨qx, qy⟩
        let sym := match bboxCentre l with
          | some c => if centrallySymmetricB c l then (if nearPt q c then "ok" else "bad:centroid-of-symmetric-shape") else "ok"
          | none => "ok"
        if sym ≠ "ok" then sym
        else if !nearPt q m then "bad:corr-centroid"
        else "ok"
      | _ => "bad:unparsable-answer"
  | _, _ => "bad:unparsable-answer"

def judgeStep (toks : List String) : String :=
  let (op, out) := splitArrow toks
  let badop := if out = ["bad-op"] then "ok" else "bad:setup-answer"
  match op with
  | w :: r =>
    if w == "rcentroid" || w == "vcentroid" || w == "pcentroid" then
      match parsePoly r with
      | some (l, []) => judgeCentroid w l out
      | _ => badop
    else if w == "polyproj" then
      match parsePoly r with
      | some (l, [px, py]) =>
        if l.length < 3 then badop
        else
          let p : Pt := ⟨px, py⟩
          let best := (edges l).foldl (fun m e => min m (segDistSq e.1 e.2 p)) (match edges l with | e :: _ => segDistSq e.1 e.2 p | [] => 0)
          (match out.mapM parseDec with
           | some [qx, qy, d] =>
             let q : Pt := ⟨qx, qy⟩
             if !((edges l).any fun e => nearOnSeg e.1 e.2 q) then "bad:projection-not-on-boundary"
             else if !nearSqrt d (distSq p q) then "bad:projection-distance"
             else if !decide ((distSq p q - best).abs ≤ slackSq) then "bad:projection-not-nearest"
             else "ok"
           | _ => if out.all isNonFinite && (edges l).any (fun e => e.1 = e.2) then "ok" else "bad:unparsable-answer")
      | _ => badop
    else match rats r with
      | none => badop
      | some v => match w, v with
        | "closest", [ax, ay, bx, by', px, py] => judgeClosest ⟨ax, ay⟩ ⟨bx, by'⟩ ⟨px, py⟩ out
        | "dist", [ax, ay, bx, by'] => (match out.mapM parseDec with
            | some [d] => if nearSqrt d (distSq ⟨ax, ay⟩ ⟨bx, by'⟩) then "ok" else "bad:distance"
            | _ => "bad:unparsable-answer")
        | "segdist", [ax, ay, bx, by', px, py] => (match out.mapM parseDec with
            | some [d] => if nearSqrt d (segDistSq ⟨ax, ay⟩ ⟨bx, by'⟩ ⟨px, py⟩) then "ok" else "bad:segment-distance"
            | _ => "bad:unparsable-answer")
        | _, _ => badop
  | [] => badop

def judge : Suite where
  σ := Unit
  init := ()
  step _ toks := ((), judgeStep toks)

end Oracle.Geometry
