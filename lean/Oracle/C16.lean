import Oracle.Proto
import Oracle.C16Suites
import Oracle.C16Sync
/-! Oracle suites of property C16 (linked into `oracle-c16`). -/
namespace Oracle.C16

def suites : List (String × Suite) := [
  ("rank", rank), ("rank-spec", rankSpec),
  ("prio", prio), ("prio-judge", prioJudge),
  ("paged", paged), ("paged-spec", pagedSpec),
  ("order", order), ("order-spec", orderSpec),
  ("syncmap", syncmap), ("syncmap-spec", syncmapSpec),
  ("bucket", bucket), ("bucket-spec", bucketSpec),
  ("syncslice", syncslice),
  ("bitset", bitset), ("bitset-spec", bitsetSpec),
  ("lockfacts", lockfacts), ("lockfacts-judge", lockfactsJudge),
  ("stress", stress)
]

end Oracle.C16
