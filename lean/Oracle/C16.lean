import Oracle.Proto
/-! Oracle suites of property C16 (registered in Oracle/Main.lean through `suites`). -/
namespace Oracle.C16

def suites : List (String × Suite) := []

end Oracle.C16
