import Oracle.C06
def main (args : List String) : IO UInt32 := Oracle.mainWith Oracle.C06.suites args
