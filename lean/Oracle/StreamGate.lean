import Oracle.Proto
import MV.Model.StreamGate
import MV.Spec.StreamGate
import MV.Model.StreamGateFacts
/-!
Oracle suites for the sender gate of the remoting layer (T-sched): the model executes the same
schedule as the instrumented `sharedStreamProcess` over the harness's fake stream, one scheduling
quantum (= one model step) per `run` line.
-/
namespace Oracle.StreamGate
open MV.Model MV.Model.Conc MV.Model.StreamGate MV.Spec.StreamGate

def b01 (b : Bool) : String := if b then "1" else "0"

/-- oracle state: the model state plus the positions of `hist` that are `drop` entries (invisible to
the stream) -/
structure OSt where
  s : State := StreamGate.init
  drops : List Nat := []       -- indices into hist written by `drop`

def seenRefused (o : OSt) : List (List Msg) :=
  (o.s.g.hist.zipIdx.filter (fun e => !e.1.1 && !o.drops.contains e.2)).map (·.1.2)

def fmtLast (l : List (List Msg)) : String :=
  match l.getLast? with
  | none => "-"
  | some b => fmtRuns b

def fmtState (o : OSt) : String :=
  let g := o.s.g
  let acc := sentBatches g
  let ref := seenRefused o
  s!"act={b01 g.active} q={g.q.length} att={b01 g.attached} term={b01 g.terminated} fw={g.farewells} cl={g.closes} nb={acc.length} la={fmtLast acc} nr={ref.length} lr={fmtLast ref}"

def spawnPC : List String → Option PC
  | ["app", id] => id.toNat?.map .app
  | ["fail", b] => b.toNat?.map (fun n => .brk (n != 0))
  | _ => none

def stepO (o : OSt) (i : Nat) : Option OSt :=
  match o.s.ths[i]? with
  | none => none
  | some pc =>
    match step (sys goLimit) o.s i with
    | none => none
    | some s' =>
      let drops := if pc == .drop then o.drops ++ [o.s.g.hist.length] else o.drops
      some { s := s', drops := drops }

def runLine (o : OSt) (i : Nat) : OSt × String :=
  match stepO o i with
  | none => (o, "skip")
  | some o' =>
    let pc' := (o'.s.ths[i]?).getD .done
    let spawned := (List.range (o'.s.ths.length - o.s.ths.length)).map (fun k => s!"t{o.s.ths.length + k}")
    (o', s!"t{i}@{siteName pc'} spawn=[{",".intercalate spawned}] {fmtState o'}")

/-- `bulk from n`: the harness thread itself (not a scheduled thread) calls the delivery function
`n` times: `app; cas` per message, atomically with respect to the scheduled threads; only a sender
goroutine started by a successful CAS becomes a thread -/
def bulk (o : OSt) (from_ n : Nat) : OSt :=
  (List.range n).foldl (fun o k =>
    let g := o.s.g
    match trans goLimit g (.app (from_ + k)) with
    | some (g1, _, _) =>
      match trans goLimit g1 .cas with
      | some (g2, _, sp) => { o with s := { g := g2, ths := o.s.ths ++ sp } }
      | none => o
    | none => o) o

def live (s : State) : Option Nat :=
  (List.range s.ths.length).find? (fun i => (s.ths[i]?).getD .done != .done)

/-- lowest live thread first, until nobody is live (fuel-bounded) -/
def drain (o : OSt) : Nat → OSt
  | 0 => o
  | fuel + 1 =>
    match live o.s with
    | none => o
    | some i => match stepO o i with
      | some o' => drain o' fuel
      | none => o

def fmtFinal (o : OSt) : String :=
  let g := o.s.g
  let ref := seenRefused o
  s!"act={b01 g.active} q={g.q.length} att={b01 g.attached} term={b01 g.terminated} fw={g.farewells} cl={g.closes} appended={fmtRuns g.appended} sent={fmtBatches (sentBatches g)} refused={ref.length} refusedb={fmtBatches ref}"

def model : Suite where
  σ := OSt
  init := {}
  step o toks := match toks with
    | ["gate"] => ({}, "ok")
    | "spawn" :: rest => match spawnPC rest with
        | some pc => ({ o with s := { o.s with ths := o.s.ths ++ [pc] } }, s!"t{o.s.ths.length}@{siteName pc}")
        | none => (o, "bad-op")
    | ["run", k] => match k.toNat? with
        | some i => runLine o i
        | none => (o, "bad-op")
    | ["bulk", a, n] => match a.toNat?, n.toNat? with
        | some a, some n =>
          let o' := bulk o a n
          let spawned := (List.range (o'.s.ths.length - o.s.ths.length)).map (fun k => s!"t{o.s.ths.length + k}")
          (o', s!"spawn=[{",".intercalate spawned}] {fmtState o'}")
        | _, _ => (o, "bad-op")
    | ["drain"] =>
        let o' := drain o 100000
        (o', fmtFinal o')
    | _ => (o, "bad-op")

/-- judge: `drain => <final line of the implementation>`; every other line is `ok` -/
def judge : Suite where
  σ := Unit
  init := ()
  step _ toks :=
    match toks.dropWhile (· ≠ "=>") with
    | _ :: out =>
      if toks.head? == some "drain" then ((), judgeFinal goLimit out) else ((), "ok")
    | [] => ((), "bad-op")

/-- T-facts: `facts <Func>` answers the skeleton the model was transcribed from -/
def factsSuite : Suite where
  σ := Unit
  init := ()
  step _ toks := match toks with
    | ["facts", f] =>
      match MV.Model.StreamGateFacts.table.lookup f with
      | some s => ((), s)
      | none => ((), "bad-op")
    | _ => ((), "bad-op")

end Oracle.StreamGate
