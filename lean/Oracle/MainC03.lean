import Oracle.C03
def main (args : List String) : IO UInt32 := Oracle.mainWith Oracle.C03.suites args
