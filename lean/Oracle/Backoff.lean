import Oracle.Proto
import MV.Model.Backoff
import MV.Spec.Backoff
/-!
# Oracle suites for `chrono.ExponentialBackoff` (C18)

* `backoff-judge` (judge role): `backoff <count> <limit> <base> <max> <mn>/<md> <rn>/<rd> => <dmin> <dmax>` and
  `standard <count> <limit> <base> <max> => <dmin> <dmax>` (extremes over 8 calls).  The implementation draws its own jitter, so the
  answer is judged: first the clauses of `MV.Spec.Backoff.verdict` (on the documented domain), then
  membership in the interval spanned by the model `MV.Model.Backoff.backoff` for the draws `0` and `1`
  (for every input), both widened by a relative `2^-40` (+1 ns) for IEEE rounding.  `-1`, the clamp
  to `max` and saturation are exact.
* `backoff0` / `backoff0-spec` (model / spec role): `backoff0 <count> <limit> <base> <max> <mn>/<md>`,
  randomization 0, where the answer is a function of the input; compared exactly (the generator only
  emits inputs whose float computation is exact or clearly saturated).
-/
namespace Oracle.Backoff
open MV.Model.Backoff MV.Model.Backoff.FVal

def parseFrac (s : String) : Option (Nat × Nat) :=
  match s.splitOn "/" with
  | [a, b] => do
    let n ← a.toNat?
    let d ← b.toNat?
    if d = 0 then none else some (n, d)
  | _ => none

def parseParams (count limit base max mult rnd : String) : Option Params := do
  let c ← count.toNat?
  let l ← limit.toInt?
  let b ← base.toInt?
  let m ← max.toInt?
  let (mn, md) ← parseFrac mult
  let (rn, rd) ← parseFrac rnd
  some { count := c, limit := l, base := b, max := m, mn, md, rn, rd }

/-- magnitude-relative tolerance for the model interval: `(|base|·(⌈mult^count⌉ + ⌈r⌉ + 2)) / 2^40 + 1` -/
def modelTol (p : Params) : Int :=
  let pw : Int := ((p.mn ^ p.count / p.md ^ p.count : Nat) : Int)
  let r : Int := ((p.rn / p.rd : Nat) : Int)
  (p.base.natAbs : Int) * (pw + r + 2) / 2 ^ 40 + 1

def judgeOne (p : Params) (d : Int) : String :=
  let v := if MV.Spec.Backoff.inDomain p then MV.Spec.Backoff.verdict (MV.Spec.Backoff.tolOf p) p d else .ok
  if v ≠ .ok then v.text
  else
    let a := backoff p (fin 0 1)
    let b := backoff p (fin 1 1)
    let lo := min a b
    let hi := max a b
    -- the guard of the model (outside the documented domain `-1` can also be a clamped delay)
    if (p.count : Int) > p.limit ∧ p.limit > -1 then (if d = -1 ∧ a = -1 ∧ b = -1 then "ok" else "bad:model-stop")
    else if d > p.max ∧ hi ≤ p.max then "bad:model-above-max"
    else if d < lo - modelTol p then "bad:model-low"
    else if d > hi + modelTol p then "bad:model-high"
    else "ok"

/-- the harness reports the smallest and the largest answer of its 8 calls -/
def judgeTwo (p : Params) (lo hi : String) : String :=
  match lo.toInt?, hi.toInt? with
  | some a, some b =>
    let va := judgeOne p a
    if va ≠ "ok" then va else judgeOne p b
  | _, _ => "bad:" ++ lo

def judge : Suite where
  σ := Unit
  init := ()
  step _ toks := match toks with
    | ["backoff", c, l, b, m, mu, r, "=>", lo, hi] =>
      match parseParams c l b m mu r with
      | some p => ((), judgeTwo p lo hi)
      | none => ((), "bad-op")
    | ["standard", c, l, b, m, "=>", lo, hi] =>
      match parseParams c l b m "2/1" "1/2" with
      | some p => ((), judgeTwo p lo hi)
      | none => ((), "bad-op")
    | "backoff" :: _ :: _ :: _ :: _ :: _ :: _ :: "=>" :: o :: _ => ((), "bad:" ++ o)
    | "standard" :: _ :: _ :: _ :: _ :: "=>" :: o :: _ => ((), "bad:" ++ o)
    | _ => ((), "bad-op")

/-- deterministic case: randomization 0 -/
def model0 : Suite where
  σ := Unit
  init := ()
  step _ toks := match toks with
    | ["backoff0", c, l, b, m, mu] =>
      match parseParams c l b m mu "0/1" with
      | some p => ((), toString (backoff p (fin 0 1)))
      | none => ((), "bad-op")
    | _ => ((), "bad-op")

def spec0 : Suite where
  σ := Unit
  init := ()
  step _ toks := match toks with
    | ["backoff0", c, l, b, m, mu] =>
      match parseParams c l b m mu "0/1" with
      | some p =>
        if MV.Spec.Backoff.stop p then ((), "-1")
        else if MV.Spec.Backoff.inDomain p then ((), toString (min p.max (MV.Spec.Backoff.floorLow p)))
        else ((), "-")
      | none => ((), "bad-op")
    | _ => ((), "bad-op")

end Oracle.Backoff
