import Oracle.C10
def main (args : List String) : IO UInt32 := Oracle.mainWith Oracle.C10.suites args
