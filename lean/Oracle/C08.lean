import Oracle.Proto
/-! Oracle suites of property C08 (registered in Oracle/Main.lean through `suites`). -/
namespace Oracle.C08

def suites : List (String × Suite) := []

end Oracle.C08
