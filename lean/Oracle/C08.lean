import Oracle.Proto
import Oracle.Scheduler
import Oracle.ActorTimers
/-! Oracle suites of property C08. -/
namespace Oracle.C08

def suites : List (String × Suite) := [
  ("scheduler", Oracle.Scheduler.model),
  ("scheduler-spec", Oracle.Scheduler.spec),
  ("actor-timers", Oracle.ActorTimers.model),
  ("actor-timers-spec", Oracle.ActorTimers.spec)
]

end Oracle.C08
