import Oracle.Proto
import Oracle.Scheduler
import Oracle.ActorTimers
import MV.Model.TimerFacts
/-! Oracle suites of property C08. -/
namespace Oracle.C08

/-- T-facts: `facts <Func>` / `facts-case processMessage onSchedulerFunc` answer the text the model was
    transcribed from -/
def timerFacts : Suite where
  σ := Unit
  init := ()
  step _ toks := match toks with
    | ["facts", f] => match MV.Model.TimerFacts.table.lookup f with
      | some s => ((), s)
      | none => ((), "bad-op")
    | ["facts-case", "processMessage", "onSchedulerFunc"] => ((), MV.Model.TimerFacts.schedulerFuncCase)
    | ["facts-task", "close"] => ((), MV.Model.TimerFacts.taskClose)
    | ["facts-task", "Next"] => ((), MV.Model.TimerFacts.taskNext)
    | ["facts-task", "caller"] => ((), MV.Model.TimerFacts.taskCaller)
    | ["facts-chrono", f] => match MV.Model.TimerFacts.chronoTable.lookup f with
      | some s => ((), s)
      | none => ((), "bad-op")
    | _ => ((), "bad-op")

def suites : List (String × Suite) := [
  ("scheduler", Oracle.Scheduler.model),
  ("scheduler-spec", Oracle.Scheduler.spec),
  ("actor-timers", Oracle.ActorTimers.model),
  ("actor-timers-spec", Oracle.ActorTimers.spec),
  ("timer-facts", timerFacts)
]

end Oracle.C08
