import Oracle.Proto
import MV.Model.Address
/-!
Oracle suites for the address algebra of process ids (T-diff): `Derivation`, `Equal`, `Clone`, `URL`.
Strings travel as tokens `s:<characters>` (so the empty string is `s:`), a nil reference as `nil`.
-/
namespace Oracle.Address
open MV.Model.Address

def parseStr (t : String) : Option (List Char) :=
  if t.startsWith "s:" then some (t.drop 2).toString.toList else none

def fmtStr (l : List Char) : String := "s:" ++ String.ofList l

/-- one reference from the front of the token list: `nil` or `s:<phys> s:<logical>` -/
def parsePid : List String → Option (Option Pid × List String)
  | "nil" :: rest => some (none, rest)
  | p :: l :: rest => match parseStr p, parseStr l with
      | some p, some l => some (some ⟨p, l⟩, rest)
      | _, _ => none
  | _ => none

def fmtPid (p : Pid) : String := fmtStr p.phys ++ " " ++ fmtStr p.logical

def model : Suite where
  σ := Unit
  init := ()
  step _ toks := ((), match toks with
    | ["deriv", p, l, n] => (match parseStr p, parseStr l, parseStr n with
        | some p, some l, some n => fmtPid (derivation ⟨p, l⟩ n)
        | _, _, _ => "bad-op")
    | ["deriv2", p, l, n1, n2] => (match parseStr p, parseStr l, parseStr n1, parseStr n2 with
        | some p, some l, some n1, some n2 => fmtPid (derivation (derivation ⟨p, l⟩ n1) n2)
        | _, _, _, _ => "bad-op")
    | [op, p, l, n1, n2] =>
        if op == "collide" || op == "collidex" then
          (match parseStr p, parseStr l, parseStr n1, parseStr n2 with
           | some p, some l, some n1, some n2 =>
             fmtBool (equal (some (derivation ⟨p, l⟩ n1)) (some (derivation ⟨p, l⟩ n2)))
           | _, _, _, _ => "bad-op")
        else if op == "equal" then
          (match parsePid [p, l, n1, n2] with
           | some (a, rest) => (match parsePid rest with
             | some (b, []) => fmtBool (equal a b)
             | _ => "bad-op")
           | none => "bad-op")
        else "bad-op"
    | "equal" :: rest => (match parsePid rest with
        | some (a, rest) => (match parsePid rest with
          | some (b, []) => fmtBool (equal a b)
          | _ => "bad-op")
        | none => "bad-op")
    | ["clone", p, l] => (match parseStr p, parseStr l with
        | some p, some l => fmtPid (clone ⟨p, l⟩)
        | _, _ => "bad-op")
    | "url" :: rest => (match parsePid rest with
        | some (a, []) => let u := url a; fmtStr u.scheme ++ " " ++ fmtStr u.host ++ " " ++ fmtStr u.path
        | _ => "bad-op")
    | "urlstr" :: rest => (match parsePid rest with
        | some (a, []) => (match urlString (url a) with
          | some s => fmtStr s
          | none => "-")
        | _ => "bad-op")
    | _ => "bad-op")

/-- the property itself: two names derived from one parent give equal references exactly when the
names are equal; two references are equal exactly when both are present and agree on node and
logical address.  Everything else is not determined at this level (`-`). -/
def spec : Suite where
  σ := Unit
  init := ()
  step _ toks := ((), match toks with
    | [op, p, l, n1, n2] =>
        if op == "collide" || op == "collidex" then
          (match parseStr p, parseStr l, parseStr n1, parseStr n2 with
           | some _, some _, some n1, some n2 => fmtBool (n1 == n2)
           | _, _, _, _ => "bad-op")
        else if op == "deriv2" then
          (match parseStr p, parseStr l, parseStr n1, parseStr n2 with
           | some _, some _, some _, some _ => "-"
           | _, _, _, _ => "bad-op")
        else if op == "equal" then
          (match parsePid [p, l, n1, n2] with
           | some (a, rest) => (match parsePid rest with
             | some (b, []) => (match a, b with
               | some x, some y => fmtBool (decide (x = y))
               | _, _ => "false")
             | _ => "bad-op")
           | none => "bad-op")
        else "bad-op"
    | "equal" :: rest => (match parsePid rest with
        | some (a, rest) => (match parsePid rest with
          | some (b, []) => (match a, b with
            | some x, some y => fmtBool (decide (x = y))
            | _, _ => "false")
          | _ => "bad-op")
        | none => "bad-op")
    | ["deriv", p, l, n] => (match parseStr p, parseStr l, parseStr n with
        | some _, some _, some _ => "-"
        | _, _, _ => "bad-op")
    | ["clone", p, l] => (match parseStr p, parseStr l with
        | some p, some l => fmtStr p ++ " " ++ fmtStr l
        | _, _ => "bad-op")
    | "url" :: rest => (match parsePid rest with
        | some (_, []) => "-"
        | _ => "bad-op")
    | "urlstr" :: rest => (match parsePid rest with
        | some (_, []) => "-"
        | _ => "bad-op")
    | _ => "bad-op")

end Oracle.Address
