import Oracle.Proto
import Oracle.ClusterManager
/-! Oracle suites of property C13 (executable `oracle-c13`). -/
namespace Oracle.C13

def suites : List (String × Suite) := [
  ("cmgr", Oracle.ClusterManager.model),
  ("cmgr-spec", Oracle.ClusterManager.spec),
  ("cmgr-judge", Oracle.ClusterManager.judge)
]

end Oracle.C13
