import Oracle.Proto
/-! Oracle suites of property C13 (registered in Oracle/Main.lean through `suites`). -/
namespace Oracle.C13

def suites : List (String × Suite) := []

end Oracle.C13
