import Oracle.Proto
import MV.Findings.C11
import MV.Spec.StreamGate
/-!
Oracle suites `reorder` (the two-stream machine of `MV.Findings.C11`: the code as it is) and
`reorder-spec` (the sent order) for the deterministic reproduction of known finding
C11-reorder-across-streams.
-/
namespace Oracle.Reorder
open MV.Findings.C11 MV.Spec.StreamGate

/-- message 0 opens the first stream and is received; `n1` messages stay in flight on it (each its
own batch); the sender re-opens early; `n2` messages travel on the new stream and are received at
once; finally the old receiver loop drains -/
def script (n1 n2 : Nat) : List Op2 :=
  [.send 0, .cut, .recv] ++
  ((List.range n1).flatMap fun i => [.send (i + 1), .cut]) ++
  [.reopenEarly] ++
  ((List.range n2).flatMap fun i => [.send (n1 + i + 1), .cut, .recv]) ++
  List.replicate n1 .recvOld

def parse (toks : List String) : Option (Nat × Nat) :=
  match toks with
  | ["reorder", a, b] =>
    match a.toNat?, b.toNat? with
    | some a, some b => if a ≤ 50 && b ≤ 50 then some (a, b) else none
    | _, _ => none
  | _ => none

def model : Suite where
  σ := Unit
  init := ()
  step _ toks := match parse toks with
    | some (n1, n2) => ((), "delivered=" ++ fmtRuns (run 1024 (script n1 n2)).delivered)
    | none => ((), "bad-op")

def spec : Suite where
  σ := Unit
  init := ()
  step _ toks := match parse toks with
    | some (n1, n2) => ((), "delivered=" ++ fmtRuns (run 1024 (script n1 n2)).sent)
    | none => ((), "bad-op")

end Oracle.Reorder
