import Oracle.Proto
import MV.Model.Persistence
import MV.Spec.Persistence
/-! Oracle suites `persist` (model of the code as it is) and `persist-spec` (specification) of C09;
    `persist-original` runs the transcription of the code before the repairs (replay of the findings). -/
namespace Oracle.Persistence
open MV.Model.Persistence

abbrev St := List Int
def F : Fold St Int := listFold Int

def fmtSnap : Option St → String
  | none => "nil"
  | some l => fmtInts l

def fmtRec (r : Rec St Int) : String := "S:" ++ fmtSnap r.snapshot ++ " E:" ++ fmtInts r.events

def fmtSame (b : Bool) : String := if b then "same" else "changed"

def fmtOut : Out St Int → String
  | .stateL st l => fmtInts st ++ " L" ++ toString l
  | .evOut st m s => fmtInts st ++ " msg=" ++ fmtSame m ++ " snd=" ++ fmtSame s
  | .ok => "ok"
  | .state st => fmtInts st
  | .nat n => toString n
  | .nats l => fmtNats l
  | .stored none => "none"
  | .stored (some r) => fmtRec r
  | .quiet => "ok"
  | .dash => "-"

def opNames : List String :=
  ["ev", "fail", "recreate", "persist", "snap", "clear", "get", "count", "rlog", "stored", "replay", "saves", "burst", "farewell"]

/-- a parsed operation line (after `spawn`) -/
inductive Line where
  | op (o : Op Int)
  | saves
  | burst (n k : Nat) (v0 : Int)
  | farewell (v : Int)      -- the actor records event v while handling OnTerminate (0 = nothing)

def parseLine : List String → Option Line
  | ["ev", v] => v.toInt?.map (fun v => .op (.ev v))
  | ["fail"] => some (.op .fail)
  | ["recreate"] => some (.op .recreate)
  | ["persist"] => some (.op .persist)
  | ["snap"] => some (.op .snap)
  | ["clear"] => some (.op .clear)
  | ["get"] => some (.op .get)
  | ["count"] => some (.op .count)
  | ["rlog"] => some (.op .rlog)
  | ["stored"] => some (.op .stored)
  | ["replay"] => some (.op .replay)
  | ["saves"] => some .saves
  | ["farewell", v] => v.toInt?.map .farewell
  | ["burst", n, k, v0] =>
    match n.toInt?, k.toInt?, v0.toInt? with
    | some n, some k, some v0 => if n < 0 ∨ n > 5000 ∨ k < 0 then none else some (.burst n.toNat k.toNat v0)
    | _, _, _ => none
  | _ => none

structure SpawnArgs where
  thr : Nat
  recording : Bool

def parseSpawn : List String → Option SpawnArgs
  | [thr, sto, sup, nm] =>
    match thr.toInt? with
    | some t =>
      if t < 0 ∨ (sto ≠ "mem" ∧ sto ≠ "rec") ∨ (sup ≠ "now" ∧ sup ≠ "backoff") ∨ (nm ≠ "name" ∧ nm ≠ "addr") then none
      else some ⟨t.toNat, sto == "rec"⟩
    | none => none
  | _ => none

def burstEvents (n : Nat) (v0 : Int) : List Int := (List.range n).map (fun (i : Nat) => v0 + (i : Int))

/-- generic wrapper: `spawn`, error answers, dispatch -/
def wrap {τ : Type} (spawned : τ → Bool) (doSpawn : τ → SpawnArgs → τ × String) (doLine : τ → Line → τ × String)
    (h : τ) (toks : List String) : τ × String :=
  match toks with
  | "spawn" :: args =>
    if spawned h then (h, "err:spawned") else
    match parseSpawn args with
    | some a => doSpawn h a
    | none => (h, "bad-op")
  | name :: _ =>
    if ¬ opNames.contains name then (h, "bad-op")
    else if ¬ spawned h then (h, "err:nospawn")
    else match parseLine toks with
      | some l => doLine h l
      | none => (h, "bad-op")
  | [] => (h, "bad-op")

structure H where
  sys : Option (Sys St Int)
  recording : Bool
  savesSeen : Nat
  farewell : Int := 0

/-- an event recorded while handling `OnTerminate` is a user-level `StateChangeEventApply` in the farewell
turn of a stop or a restart; the canonical actor handles `OnRestarting`/`OnTerminate`/`OnTerminated` as
no-ops otherwise and the failing command changes nothing, so "farewell event, then the generation ends" is
the told event `evq v` placed right before `fail` / `recreate` -/
def withFarewell (fw : Int) (ops : List (Op Int)) : List (Op Int) :=
  if fw == 0 then ops else ops.flatMap fun o => if o == .fail || o == .recreate then [.evq fw, o] else [o]

/-- two independent slots: plain lines address slot `a`, lines prefixed with `@b` slot `b`. The slots
    use different persistence names; that they do not influence each other is `C09_names_isolated`
    for the model and is what the comparison checks of the real storage. -/
def twoSlots {τ : Type} (f : τ → List String → τ × String) (h : τ × τ) (toks : List String) : (τ × τ) × String :=
  match toks with
  | ["@b"] => (h, "bad-op")
  | "@b" :: rest => let (b, o) := f h.2 rest; ((h.1, b), o)
  | _ => let (a, o) := f h.1 toks; ((a, h.2), o)

def modelSuite (v : Variant) : Suite where
  σ := H × H
  init := (⟨none, false, 0, 0⟩, ⟨none, false, 0, 0⟩)
  step := twoSlots <| wrap (fun h => h.sys.isSome)
    (fun h a =>
      let s := boot v F 0 a.thr (fun _ => none)
      ({ h with sys := some s, recording := a.recording }, fmtOut (.stateL s.ctx.actor.st s.launches)))
    (fun h l => match h.sys with
      | none => (h, "err:nospawn")
      | some s => match l with
        | .farewell fw => ({ h with farewell := fw }, "ok")
        | .op o =>
          let s := if (o == .fail || o == .recreate) && h.farewell != 0 then (step v F s (.evq h.farewell)).1 else s
          let (s', out) := step v F s o; ({ h with sys := some s' }, fmtOut out)
        | .saves =>
          let s' := (step v F s .get).1
          if h.recording then
            let news := s'.saveLog.drop h.savesSeen
            let txt := if news.isEmpty then "{}" else " ".intercalate (news.map (fun r => "{" ++ fmtRec r ++ "}"))
            ({ h with sys := some s', savesSeen := s'.saveLog.length }, txt)
          else ({ h with sys := some s' }, "-")
        | .burst n k v0 =>
          let s1 := run v F s (withFarewell h.farewell (burstOps (burstEvents n v0) k))
          let s' := (step v F s1 .get).1
          ({ h with sys := some s' }, fmtOut (.stateL s'.ctx.actor.st s'.launches)))

def model : Suite := modelSuite Variant.code
def original : Suite := modelSuite Variant.original

structure HS where
  s : Option (MV.Spec.Persistence.S St) := none
  farewell : Int := 0

def spec : Suite where
  σ := HS × HS
  init := ({}, {})
  step := twoSlots <| wrap (fun h => h.s.isSome)
    (fun h _ => let s := MV.Spec.Persistence.S.init F; ({ h with s := some s }, fmtOut (.stateL s.cur s.launches : Out St Int)))
    (fun h l => match h.s with
      | none => (h, "err:nospawn")
      | some s => match l with
        | .farewell fw => ({ h with farewell := fw }, "ok")
        | .op o =>
          let s := if (o == .fail || o == .recreate) && h.farewell != 0 then (MV.Spec.Persistence.step F s (.evq h.farewell)).1 else s
          let (s', out) := MV.Spec.Persistence.step F s o; ({ h with s := some s' }, fmtOut out)
        | .saves => (h, "-")
        | .burst n k v0 =>
          let s' := MV.Spec.Persistence.run F s (withFarewell h.farewell (burstOps (burstEvents n v0) k))
          ({ h with s := some s' }, fmtOut (.stateL s'.cur s'.launches : Out St Int)))

end Oracle.Persistence
