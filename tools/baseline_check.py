#!/usr/bin/env python3
"""Runs the repository's test suite with the hook guard OFF and compares with /root/.vp/BASELINE.json:
every stable_pass test must pass. Usage: tools/baseline_check.py [repo]"""
import json, subprocess, sys, os, collections
repo = sys.argv[1] if len(sys.argv) > 1 else "/repo"
base = json.load(open("/root/.vp/BASELINE.json"))
stable = set(base["stable_pass"])
pkgs = sorted(set(t.split("::")[0] for t in stable))
env = dict(os.environ, GOFLAGS="-mod=mod", GOPROXY="off", GOSUMDB="off", GOTOOLCHAIN="local")
rel = ["./" + p[len("github.com/kercylan98/minotaur/"):] for p in pkgs]
p = subprocess.run(["go", "test", "-json", "-vet=off", "-count=1", "-timeout", "25m"] + rel, cwd=repo, env=env,
                   stdout=subprocess.PIPE, stderr=subprocess.STDOUT, text=True)
res = {}
for line in p.stdout.split("\n"):
    try:
        e = json.loads(line)
    except Exception:
        continue
    if e.get("Test") and e.get("Action") in ("pass", "fail", "skip"):
        res[e["Package"] + "::" + e["Test"]] = e["Action"]
bad = sorted(t for t in stable if res.get(t) != "pass")
print("stable tests: %d, passing now: %d" % (len(stable), len(stable) - len(bad)))
for t in bad:
    print("  NOT PASSING:", t, res.get(t))
sys.exit(1 if bad else 0)
