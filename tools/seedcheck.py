#!/usr/bin/env python3
"""seedcheck.py <Cxx> <k>: confirm a seeded change produced by an independent agent and run the
property's check against it.

 1. the scratch worktree /tmp/seed/<Cxx> is moved to /repo's current HEAD and cleaned;
 2. the demonstration is placed as the README says (demo_test.go into the package directory) and run
    WITHOUT the change (must pass) and WITH the change (must fail);
 3. the touched packages are built with and without the build tag;
 4. `./check <Cxx>` runs with VERIF_REPO pointing at the changed worktree;
 5. everything is recorded in /verif/seeded/<Cxx>-m<k>/ (patch.diff, demonstration, README.md, meta.json).
The worktree is restored afterwards. /repo itself is never touched."""
import sys, os, re, json, subprocess, shutil, time, glob

prop, k = sys.argv[1], sys.argv[2]
wt = "/tmp/seed/%s" % prop
src = os.path.join(wt, "out", "m%s" % k)
dst = "/verif/seeded/%s-m%s" % (prop, k)
env = dict(os.environ, GOFLAGS="-mod=mod", GOPROXY="off", GOSUMDB="off", GOTOOLCHAIN="local")


def sh(cmd, cwd=None, timeout=900, extra=None):
    e = dict(env)
    if extra:
        e.update(extra)
    try:
        p = subprocess.run(cmd, cwd=cwd, env=e, shell=isinstance(cmd, str), stdout=subprocess.PIPE,
                           stderr=subprocess.STDOUT, text=True, timeout=timeout, errors="replace")
        return p.returncode, p.stdout
    except subprocess.TimeoutExpired as ex:
        return 124, (ex.stdout or b"").decode(errors="replace") if isinstance(ex.stdout, bytes) else (ex.stdout or "") + "\nTIMEOUT"


meta = {"property": prop, "mutation": int(k), "ran": []}
if not os.path.exists(os.path.join(src, "patch.diff")):
    print(prop, k, "no patch"); sys.exit(2)
readme = open(os.path.join(src, "README.md")).read() if os.path.exists(os.path.join(src, "README.md")) else ""
head = subprocess.run(["git", "-C", "/repo", "rev-parse", "HEAD"], stdout=subprocess.PIPE, text=True).stdout.strip()
sh("git reset -q --hard && git clean -fdq -e out && git checkout -q --detach %s && git reset -q --hard" % head, cwd=wt)
meta["repo_head"] = head
rc, out = sh("git apply --check out/m%s/patch.diff" % k, cwd=wt)
if rc != 0:
    rc3, out3 = sh("git apply --3way --check out/m%s/patch.diff" % k, cwd=wt)
    meta["apply_check"] = out[-500:]
    if rc3 != 0:
        meta["status"] = "patch-does-not-apply-to-current-HEAD"
        os.makedirs(dst, exist_ok=True); json.dump(meta, open(os.path.join(dst, "meta.json"), "w"), indent=1)
        print(prop, k, meta["status"]); sys.exit(3)
# where does the demo go?
patch = open(os.path.join(src, "patch.diff")).read()
touched = sorted(set(os.path.dirname(f) for f in re.findall(r"^\+\+\+ b/(\S+)", patch, re.M)))
demo = os.path.join(src, "demo_test.go")
demo_dir = None
if os.path.exists(demo):
    m = re.search(r"`?((?:engine|toolkit)[\w/.-]*?)/?(?:demo_test\.go)?`", readme)
    cands = re.findall(r"((?:engine|toolkit)(?:/[\w.-]+)*)/?", readme)
    pk = re.search(r"^package (\w+)", open(demo).read(), re.M).group(1)
    base = pk[:-5] if pk.endswith("_test") else pk
    # prefer a directory mentioned in the README whose last component matches the package name
    for c in cands + touched:
        c = c.rstrip("/")
        if c.endswith(".go"):
            c = os.path.dirname(c)
        if os.path.isdir(os.path.join(wt, c)) and (os.path.basename(c) == base or base in ("main",)):
            demo_dir = c; break
    if demo_dir is None and touched:
        demo_dir = touched[0]
meta["touched_packages"] = touched
meta["demo_dir"] = demo_dir


def run_demo():
    if demo_dir is None:
        return None, "no demo_test.go"
    shutil.copyfile(demo, os.path.join(wt, demo_dir, "zz_seed_demo_test.go"))
    names = re.findall(r"^func (Test\w+)\(", open(demo).read(), re.M)
    rc, out = sh(["go", "test", "-count=1", "-timeout", "600s", "-run", "^(%s)$" % "|".join(names), "./" + demo_dir + "/"], cwd=wt, timeout=700)
    try:
        os.remove(os.path.join(wt, demo_dir, "zz_seed_demo_test.go"))
    except FileNotFoundError:
        pass
    return rc, out[-1500:]


rc0, out0 = run_demo()
meta["demo_without_change"] = {"rc": rc0, "tail": out0[-600:] if out0 else ""}
rca, outa = sh("git apply out/m%s/patch.diff || (git apply --3way out/m%s/patch.diff && git reset -q)" % (k, k), cwd=wt)
meta["applied"] = rca
rcb, outb = sh(["go", "build"] + ["./" + t + "/..." for t in touched], cwd=wt)
rcv, outv = sh(["go", "build", "-tags", "verif"] + ["./" + t + "/..." for t in touched], cwd=wt)
meta["build"] = {"plain": rcb, "verif": rcv, "log": (outb + outv)[-400:]}
rc1, out1 = run_demo()
meta["demo_with_change"] = {"rc": rc1, "tail": out1[-900:] if out1 else ""}
meta["confirmed"] = bool(rc0 == 0 and rc1 not in (0, None) and rcb == 0 and rcv == 0)
# run the property's check against the changed tree
t0 = time.time()
rcC, outC = sh(["./check", prop], cwd="/verif", timeout=3000, extra={"VERIF_REPO": wt, "VERIF_EVIDENCE": dst})
meta["check"] = {"cmd": "VERIF_REPO=%s ./check %s" % (wt, prop), "exit": rcC, "wall_s": round(time.time() - t0, 1),
                 "lines": [l for l in outC.split("\n") if l.startswith(("VIOLATION", "KNOWN-FINDING", prop))][-12:]}
viol = [l for l in outC.split("\n") if l.startswith("VIOLATION")]
meta["detected"] = bool(viol)
meta["detected_concrete"] = any("no-failing-input-found" not in l for l in viol)
details = []
for l in viol[:6]:
    mm = re.search(r"replay=(\S+)", l)
    if mm and os.path.exists(mm.group(1)):
        try:
            r = json.load(open(mm.group(1)))
            details.append({"suite": r.get("suite"), "broken": (r.get("broken") or "")[:200], "detail": (r.get("detail") or "")[:200],
                            "ops": (r.get("ops") or [])[:25]})
        except Exception:
            pass
meta["replays"] = details
meta["tree_diffstat"] = sh("git diff --stat", cwd=wt)[1][-400:]
sh("git reset -q --hard && git clean -fdq -e out", cwd=wt)
os.makedirs(dst, exist_ok=True)
shutil.copyfile(os.path.join(src, "patch.diff"), os.path.join(dst, "patch.diff"))
for f in glob.glob(os.path.join(src, "*")):
    if os.path.isfile(f) and not f.endswith("patch.diff"):
        shutil.copyfile(f, os.path.join(dst, os.path.basename(f)))
    elif os.path.isdir(f):
        shutil.copytree(f, os.path.join(dst, os.path.basename(f)), dirs_exist_ok=True)
needs = ""
mm = re.search(r"(?is)(needs?|manifest)[^\n]*\n(.{0,600})", readme)
meta["needs"] = (mm.group(0)[:700] if mm else readme[:500])
meta["status"] = "confirmed" if meta["confirmed"] else "not-confirmed"
json.dump(meta, open(os.path.join(dst, "meta.json"), "w"), indent=1)
print(prop, k, meta["status"], "detected" if meta["detected"] else "MISSED", "concrete" if meta["detected_concrete"] else "", meta["check"]["lines"][-1:] )
