#!/usr/bin/env python3
"""Regenerates MANIFEST.json from conf/*.json (claimed properties) and tools/not_applicable.json."""
import json, os, glob
V = os.path.dirname(os.path.dirname(os.path.abspath(__file__)))
props = {json.loads(l)["id"]: json.loads(l) for l in open(os.path.join(V, "properties.jsonl"))}
checks = []
claimed = set()
for p in sorted(glob.glob(os.path.join(V, "conf", "C*.json"))):
    c = json.load(open(p))
    if not c.get("claimed", True):
        continue
    pid = c["property"]; claimed.add(pid)
    checks.append({
        "property_id": pid,
        "quick_cmd": "./check %s --tier quick" % pid,
        "thorough_cmd": "./check %s --tier thorough" % pid,
        "evidence_file": "/verif/evidence/%s.json" % pid,
        "replay_cmd_template": "./check --replay {path}",
        "engine": "lean-proof+correspondence",
        "level_claimed": {"category": "proof", "text": c["level_text"], "design_ref": "DESIGN.md section 4, " + pid},
        "level_note": c["level_note"],
        "technique": c.get("technique", "Lean 4 theorems about an executable model; model tied to the Go code by differential correspondence runs on every check"),
    })
na = json.load(open(os.path.join(V, "tools", "not_applicable.json")))
na = [x for x in na if x["property_id"] not in claimed]
missing = [p for p in props if p not in claimed and p not in {x["property_id"] for x in na}]
assert not missing, missing
hooks = json.load(open(os.path.join(V, "tools", "hooks.json")))
m = {
    "version": 1,
    "setup_cmd": "./setup.sh",
    "hooks": hooks,
    "engines": [{"name": "lean-proof+correspondence", "path": "/verif/check",
                 "serves_properties": sorted(claimed),
                 "kind_free_text": "Lean 4 library MV (models, specs, theorems; lake build + #print axioms audit) + Go harness running the real code and the compiled Lean oracle on the same operation lines; python driver"}],
    "checks": checks,
    "notes": "See DESIGN.md. Properties not yet claimed are listed under not_applicable with the reason (machinery not finished), never claimed on a weaker technique.",
    "not_applicable": na,
}
json.dump(m, open(os.path.join(V, "MANIFEST.json"), "w"), indent=1)
print("claimed:", sorted(claimed), "not claimed:", [x["property_id"] for x in na])
