#!/bin/bash
# runall.sh [tier] [seed] [parallel]: run every claimed check against /repo, N at a time; summary on stdout
cd /verif
tier=${1:-quick}; seed=${2:-}; par=${3:-4}
mkdir -p out/logs
ls conf/*.json | sed 's#conf/##; s#.json##' | xargs -P $par -I{} sh -c "./check {} --tier $tier ${seed:+--seed $seed} > out/logs/{}.$tier.log 2>&1; echo {} exit=\$? \$(tail -1 out/logs/{}.$tier.log)"
