#!/bin/sh
# MANIFEST.setup_cmd: build everything from files on disk (offline).
set -e
cd "$(dirname "$0")"
export GOFLAGS=-mod=mod GOPROXY=off GOSUMDB=off GOTOOLCHAIN=local
mkdir -p out evidence
( cd lean && lake build )
cp /repo/go.sum harness/go.sum 2>/dev/null || true
( cd harness && go build -tags verif -o ../out/bin/drive ./cmd/drive )
echo setup-ok
