#!/bin/sh
# MANIFEST.setup_cmd: build everything from files on disk (offline).
set -e
cd "$(dirname "$0")"
export GOFLAGS=-mod=mod GOPROXY=off GOSUMDB=off GOTOOLCHAIN=local
mkdir -p out evidence
MODS=$(python3 -c "
import json,glob
m=[]
for p in sorted(glob.glob('conf/C*.json')):
    m+=json.load(open(p)).get('lean_modules',[])
print(' '.join(dict.fromkeys(m)))")
EXES=$(python3 -c "
import glob,os
print(' '.join('oracle-'+os.path.basename(p)[:-5].lower() for p in sorted(glob.glob('conf/C*.json'))))")
( cd lean && lake build $EXES $MODS )
cp /repo/go.sum harness/go.sum 2>/dev/null || true
( cd harness && go build -tags verif -o ../out/bin/drive ./cmd/drive )
echo setup-ok
