module verifharness

go 1.23.0

require github.com/kercylan98/minotaur v0.0.0

replace github.com/kercylan98/minotaur => /repo
