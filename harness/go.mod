module verifharness

go 1.23.0

require (
	github.com/kercylan98/minotaur v0.0.0
	github.com/panjf2000/ants/v2 v2.9.1
	google.golang.org/protobuf v1.34.2
)

require (
	github.com/RussellLuo/timingwheel v0.0.0-20220218152713-54845bda3108 // indirect
	github.com/alphadose/haxmap v1.4.0 // indirect
	github.com/armon/go-metrics v0.4.1 // indirect
	github.com/fatih/color v1.17.0 // indirect
	github.com/google/btree v1.1.2 // indirect
	github.com/gorhill/cronexpr v0.0.0-20180427100037-88b0669f7d75 // indirect
	github.com/hashicorp/errwrap v1.1.0 // indirect
	github.com/hashicorp/go-immutable-radix v1.3.1 // indirect
	github.com/hashicorp/go-msgpack/v2 v2.1.2 // indirect
	github.com/hashicorp/go-multierror v1.1.1 // indirect
	github.com/hashicorp/go-sockaddr v1.0.6 // indirect
	github.com/hashicorp/golang-lru v1.0.2 // indirect
	github.com/hashicorp/memberlist v0.5.1 // indirect
	github.com/json-iterator/go v1.1.12 // indirect
	github.com/mattn/go-colorable v0.1.13 // indirect
	github.com/mattn/go-isatty v0.0.20 // indirect
	github.com/miekg/dns v1.1.61 // indirect
	github.com/modern-go/concurrent v0.0.0-20180306012644-bacd9c7ef1dd // indirect
	github.com/modern-go/reflect2 v1.0.2 // indirect
	github.com/pkg/errors v0.9.1 // indirect
	github.com/puzpuzpuz/xsync/v3 v3.4.0 // indirect
	github.com/sean-/seed v0.0.0-20170313163322-e2103e2c3529 // indirect
	github.com/twmb/murmur3 v1.1.8 // indirect
	golang.org/x/exp v0.0.0-20240719175910-8a7402abbf56 // indirect
	golang.org/x/net v0.27.0 // indirect
	golang.org/x/sys v0.22.0 // indirect
	golang.org/x/text v0.16.0 // indirect
	google.golang.org/genproto/googleapis/rpc v0.0.0-20240617180043-68d350f18fd4 // indirect
	google.golang.org/grpc v1.64.1 // indirect
)

replace github.com/kercylan98/minotaur => /repo
