// Package proto is the line protocol shared by every harness suite: a suite generates
// operation lines from one SplitMix64 state (Gen) and executes operation lines against the
// real minotaur code (Runner), printing exactly one output line per operation line.
package proto

import (
	"bufio"
	"fmt"
	"sort"
	"strconv"
	"strings"
)

// RNG is SplitMix64; every random choice of every generator derives from one seed.
type RNG struct{ s uint64 }

func NewRNG(seed uint64) *RNG {
	// the seed is mixed first: without it the streams of consecutive seeds are one SplitMix64 stream
	// shifted by one draw, and shards seeded seed*K+shard would generate overlapping cases
	z := seed + 0x9E3779B97F4A7C15
	z = (z ^ (z >> 30)) * 0xBF58476D1CE4E5B9
	z = (z ^ (z >> 27)) * 0x94D049BB133111EB
	z ^= z >> 31
	return &RNG{s: z*0x9E3779B97F4A7C15 + 0x1234567}
}

func (r *RNG) Next() uint64 {
	r.s += 0x9E3779B97F4A7C15
	z := r.s
	z = (z ^ (z >> 30)) * 0xBF58476D1CE4E5B9
	z = (z ^ (z >> 27)) * 0x94D049BB133111EB
	return z ^ (z >> 31)
}

// Intn returns a value in [0,n).
func (r *RNG) Intn(n int) int {
	if n <= 0 {
		return 0
	}
	return int(r.Next() % uint64(n))
}

// Range returns a value in [lo,hi].
func (r *RNG) Range(lo, hi int) int { return lo + r.Intn(hi-lo+1) }

func (r *RNG) Bool() bool { return r.Next()&1 == 1 }

// Pick chooses an index according to integer weights.
func (r *RNG) Pick(weights ...int) int {
	t := 0
	for _, w := range weights {
		t += w
	}
	x := r.Intn(t)
	for i, w := range weights {
		if x < w {
			return i
		}
		x -= w
	}
	return len(weights) - 1
}

// Runner executes operation lines on the real implementation.
type Runner interface {
	// Reset starts a new case (a "# ..." line was read).
	Reset()
	// Step executes one operation and returns its canonical one-line output.
	Step(toks []string) string
}

// Suite is one correspondence suite.
type Suite struct {
	Name string
	// Gen writes operation lines (cases start with "# case <n>") for the tier.
	Gen func(rng *RNG, tier string, shard, nshards int, w *bufio.Writer)
	New func() Runner
}

var Suites = map[string]*Suite{}

func Register(s *Suite) { Suites[s.Name] = s }

func Names() []string {
	var n []string
	for k := range Suites {
		n = append(n, k)
	}
	sort.Strings(n)
	return n
}

func FmtInts(l []int) string {
	var sb strings.Builder
	sb.WriteByte('[')
	for i, v := range l {
		if i > 0 {
			sb.WriteByte(' ')
		}
		sb.WriteString(strconv.Itoa(v))
	}
	sb.WriteByte(']')
	return sb.String()
}

// ParseInts parses "[1 2 3]" given as the remaining tokens joined by a space.
func ParseInts(s string) ([]int, bool) {
	s = strings.TrimSpace(s)
	if !strings.HasPrefix(s, "[") || !strings.HasSuffix(s, "]") {
		return nil, false
	}
	f := strings.Fields(s[1 : len(s)-1])
	out := make([]int, 0, len(f))
	for _, t := range f {
		v, err := strconv.Atoi(t)
		if err != nil {
			return nil, false
		}
		out = append(out, v)
	}
	return out, true
}

func Atoi(s string) (int, bool) {
	v, err := strconv.Atoi(s)
	return v, err == nil
}

// Safe runs f and maps a panic to the canonical "panic" output.
func Safe(f func() string) (out string) {
	defer func() {
		if r := recover(); r != nil {
			out = "panic"
			_ = fmt.Sprint(r)
		}
	}()
	return f()
}
