// Package sched is the controlled scheduler of the T-sched correspondence: goroutines created
// through Go park at every verifhook.At site; Step releases exactly one of them for one
// scheduling quantum (until it parks at its next site or finishes). Goroutines spawned during a
// quantum (through Go, e.g. by the harness dispatcher) run to their first site and park.
// Unmanaged goroutines pass through the hooks untouched.
package sched

import (
	"bytes"
	"runtime"
	"strconv"
	"sync"
	"time"

	"github.com/kercylan98/minotaur/toolkit/verifhook"
)

type thread struct {
	s    *Sched
	tid  int
	site string
	done bool
	wake chan struct{}
}

// goroutine id -> *thread, for every scheduler (the hook handler is process-global)
var registry sync.Map

func init() { verifhook.Set(globalAt) }

// globalAt is the process-wide hook handler: goroutines managed by a live scheduler park, goroutines
// of a closed scheduler stop for good (so that an abandoned system cannot keep running in the
// background), everything else passes through.
func globalAt(site string) {
	v, ok := registry.Load(goid())
	if !ok {
		return
	}
	t := v.(*thread)
	t.s.at(t, site)
}

type Sched struct {
	mu      sync.Mutex
	note    chan struct{}
	threads []*thread
	active  int // managed goroutines currently running (not parked, not finished)
	// Filter decides which sites park (nil = all). Sites that do not park are passed through.
	Filter func(site string) bool
	Hung   bool
	// Crashed: a panic escaped a managed goroutine (it would have killed the process)
	Crashed bool
	closed  bool
}

func goid() int64 {
	var buf [64]byte
	n := runtime.Stack(buf[:], false)
	// "goroutine 123 [running]:..."
	b := buf[:n]
	b = b[len("goroutine "):]
	i := bytes.IndexByte(b, ' ')
	id, _ := strconv.ParseInt(string(b[:i]), 10, 64)
	return id
}

// New creates a scheduler and installs it as the verifhook handler.
func New() *Sched {
	s := &Sched{note: make(chan struct{}, 1)}
	return s
}

// Close abandons the scheduler: parked goroutines stay parked for ever, goroutines that reach a
// hook later stop there, and Go no longer starts anything.
func (s *Sched) Close() {
	s.mu.Lock()
	s.closed = true
	s.mu.Unlock()
}

// At parks the calling goroutine if it is managed by this scheduler.
func (s *Sched) At(site string) {
	v, ok := registry.Load(goid())
	if !ok {
		return
	}
	if t := v.(*thread); t.s == s {
		s.at(t, site)
	}
}

func (s *Sched) at(t *thread, site string) {
	s.mu.Lock()
	if s.closed {
		s.active--
		s.mu.Unlock()
		select {} // abandoned system: never continue
	}
	if s.Filter != nil && !s.Filter(site) {
		s.mu.Unlock()
		return
	}
	t.site = site
	t.wake = make(chan struct{})
	w := t.wake
	s.active--
	s.mu.Unlock()
	s.ping()
	<-w
}

// Yield is At for harness code (recipient callbacks).
func (s *Sched) Yield(site string) { s.At(site) }

// Go starts f as a managed goroutine and waits until it (and whatever it spawned) is parked or
// finished. It may also be called from inside a managed goroutine's quantum (dispatcher): then it
// only registers and starts the goroutine; the enclosing Step waits for it.
func (s *Sched) Go(f func()) int {
	s.mu.Lock()
	if s.closed {
		s.mu.Unlock()
		return -1
	}
	t := &thread{s: s, tid: len(s.threads)}
	s.threads = append(s.threads, t)
	s.active++
	_, inside := registry.Load(goid())
	s.mu.Unlock()
	go func() {
		g := goid()
		registry.Store(g, t)
		defer func() {
			r := recover()
			registry.Delete(g)
			s.mu.Lock()
			if r != nil {
				s.Crashed = true
			}
			t.done = true
			t.site = ""
			s.active--
			s.mu.Unlock()
			s.ping()
		}()
		f()
	}()
	if !inside {
		s.waitQuiet()
	}
	return t.tid
}

// WaitQuiet blocks until every managed goroutine is parked or finished.
func (s *Sched) WaitQuiet() bool { return s.waitQuiet() }

func (s *Sched) ping() {
	select {
	case s.note <- struct{}{}:
	default:
	}
}

func (s *Sched) waitQuiet() bool {
	deadline := time.Now().Add(20 * time.Second)
	for {
		s.mu.Lock()
		a := s.active
		s.mu.Unlock()
		if a <= 0 {
			return true
		}
		// several goroutines may wait at once (the harness and a timer goroutine that dispatched a
		// runner), and a ping wakes only one of them: always poll as well
		select {
		case <-s.note:
		case <-time.After(500 * time.Microsecond):
		}
		if time.Now().After(deadline) {
			s.mu.Lock()
			s.Hung = true
			s.mu.Unlock()
			return false
		}
	}
}

// Site returns where thread tid is parked ("" if running/unknown) and whether it has finished.
func (s *Sched) Site(tid int) (string, bool, bool) {
	s.mu.Lock()
	defer s.mu.Unlock()
	if tid < 0 || tid >= len(s.threads) {
		return "", false, false
	}
	t := s.threads[tid]
	return t.site, t.done, true
}

func (s *Sched) NumThreads() int {
	s.mu.Lock()
	defer s.mu.Unlock()
	return len(s.threads)
}

// Step releases thread tid for one quantum. ok=false if it does not exist or has finished.
func (s *Sched) Step(tid int) (site string, done bool, spawned []int, ok bool) {
	s.mu.Lock()
	if tid < 0 || tid >= len(s.threads) || s.threads[tid].done || s.threads[tid].site == "" {
		s.mu.Unlock()
		return "", false, nil, false
	}
	t := s.threads[tid]
	before := len(s.threads)
	t.site = ""
	s.active++
	close(t.wake)
	s.mu.Unlock()
	if !s.waitQuiet() {
		return "hang", false, nil, true
	}
	s.mu.Lock()
	defer s.mu.Unlock()
	for i := before; i < len(s.threads); i++ {
		spawned = append(spawned, i)
	}
	return t.site, t.done, spawned, true
}

// Live returns the tids of threads that are parked (not finished).
func (s *Sched) Live() []int {
	s.mu.Lock()
	defer s.mu.Unlock()
	var l []int
	for _, t := range s.threads {
		if !t.done && t.site != "" {
			l = append(l, t.tid)
		}
	}
	return l
}
