// Package sched is the controlled scheduler of the T-sched correspondence: goroutines created
// through Go park at every verifhook.At site; Step releases exactly one of them for one
// scheduling quantum (until it parks at its next site or finishes). Goroutines spawned during a
// quantum (through Go, e.g. by the harness dispatcher) run to their first site and park.
// Unmanaged goroutines pass through the hooks untouched.
package sched

import (
	"bytes"
	"runtime"
	"strconv"
	"sync"
	"time"

	"github.com/kercylan98/minotaur/toolkit/verifhook"
)

type thread struct {
	tid  int
	site string
	done bool
	wake chan struct{}
}

type Sched struct {
	mu      sync.Mutex
	note    chan struct{}
	threads []*thread
	byGoid  map[int64]*thread
	active  int // managed goroutines currently running (not parked, not finished)
	// Filter decides which sites park (nil = all). Sites that do not park are passed through.
	Filter func(site string) bool
	Hung   bool
}

func goid() int64 {
	var buf [64]byte
	n := runtime.Stack(buf[:], false)
	// "goroutine 123 [running]:..."
	b := buf[:n]
	b = b[len("goroutine "):]
	i := bytes.IndexByte(b, ' ')
	id, _ := strconv.ParseInt(string(b[:i]), 10, 64)
	return id
}

// New creates a scheduler and installs it as the verifhook handler.
func New() *Sched {
	s := &Sched{byGoid: map[int64]*thread{}, note: make(chan struct{}, 1)}
	verifhook.Set(s.At)
	return s
}

// Close removes the hook handler and releases every parked goroutine (they run free).
func (s *Sched) Close() {
	verifhook.Set(nil)
	s.mu.Lock()
	for _, t := range s.threads {
		if !t.done && t.site != "" {
			t.site = ""
			close(t.wake)
		}
	}
	s.byGoid = map[int64]*thread{}
	s.mu.Unlock()
}

// At is the hook handler: parks the calling goroutine if it is managed.
func (s *Sched) At(site string) {
	if s.Filter != nil && !s.Filter(site) {
		return
	}
	g := goid()
	s.mu.Lock()
	t := s.byGoid[g]
	if t == nil {
		s.mu.Unlock()
		return
	}
	t.site = site
	t.wake = make(chan struct{})
	w := t.wake
	s.active--
	s.mu.Unlock()
	s.ping()
	<-w
}

// Yield is At for harness code (recipient callbacks).
func (s *Sched) Yield(site string) { s.At(site) }

// Go starts f as a managed goroutine and waits until it (and whatever it spawned) is parked or
// finished. It may also be called from inside a managed goroutine's quantum (dispatcher): then it
// only registers and starts the goroutine; the enclosing Step waits for it.
func (s *Sched) Go(f func()) int {
	s.mu.Lock()
	t := &thread{tid: len(s.threads)}
	s.threads = append(s.threads, t)
	s.active++
	inside := s.byGoid[goid()] != nil
	s.mu.Unlock()
	go func() {
		g := goid()
		s.mu.Lock()
		s.byGoid[g] = t
		s.mu.Unlock()
		defer func() {
			s.mu.Lock()
			t.done = true
			t.site = ""
			delete(s.byGoid, g)
			s.active--
			s.mu.Unlock()
			s.ping()
		}()
		f()
	}()
	if !inside {
		s.waitQuiet()
	}
	return t.tid
}

func (s *Sched) ping() {
	select {
	case s.note <- struct{}{}:
	default:
	}
}

func (s *Sched) waitQuiet() bool {
	deadline := time.NewTimer(20 * time.Second)
	defer deadline.Stop()
	for {
		s.mu.Lock()
		a := s.active
		s.mu.Unlock()
		if a <= 0 {
			return true
		}
		select {
		case <-s.note:
		case <-deadline.C:
			s.mu.Lock()
			s.Hung = true
			s.mu.Unlock()
			return false
		}
	}
}

// Site returns where thread tid is parked ("" if running/unknown) and whether it has finished.
func (s *Sched) Site(tid int) (string, bool, bool) {
	s.mu.Lock()
	defer s.mu.Unlock()
	if tid < 0 || tid >= len(s.threads) {
		return "", false, false
	}
	t := s.threads[tid]
	return t.site, t.done, true
}

func (s *Sched) NumThreads() int {
	s.mu.Lock()
	defer s.mu.Unlock()
	return len(s.threads)
}

// Step releases thread tid for one quantum. ok=false if it does not exist or has finished.
func (s *Sched) Step(tid int) (site string, done bool, spawned []int, ok bool) {
	s.mu.Lock()
	if tid < 0 || tid >= len(s.threads) || s.threads[tid].done || s.threads[tid].site == "" {
		s.mu.Unlock()
		return "", false, nil, false
	}
	t := s.threads[tid]
	before := len(s.threads)
	t.site = ""
	s.active++
	close(t.wake)
	s.mu.Unlock()
	if !s.waitQuiet() {
		return "hang", false, nil, true
	}
	s.mu.Lock()
	defer s.mu.Unlock()
	for i := before; i < len(s.threads); i++ {
		spawned = append(spawned, i)
	}
	return t.site, t.done, spawned, true
}

// Live returns the tids of threads that are parked (not finished).
func (s *Sched) Live() []int {
	s.mu.Lock()
	defer s.mu.Unlock()
	var l []int
	for _, t := range s.threads {
		if !t.done && t.site != "" {
			l = append(l, t.tid)
		}
	}
	return l
}
