// Package facts is the T-facts extractor: it parses a Go source file of /repo and prints, for one
// function, the canonical skeleton of its shared-memory operations (atomics, queue operations,
// dispatcher/recipient calls, locks, channel operations) together with the enclosing control
// structure. Statements that touch no shared state are dropped, so harmless edits (logging, local
// variables, comments) keep the skeleton; re-ordering or removing an operation changes it.
package facts

import (
	"bytes"
	"fmt"
	"go/ast"
	"go/parser"
	"go/printer"
	"go/token"
	"regexp"
	"strings"
)

// Interesting decides which calls are kept.
type Config struct {
	Keep *regexp.Regexp // applied to the printed call expression
}

var DefaultKeep = regexp.MustCompile(`^(atomic\.|sync\.|verifhook\.At|recover\(\)|close\(|[A-Za-z_][A-Za-z0-9_]*(\.[A-Za-z_][A-Za-z0-9_]*)*\.(Push|Pop|Dispatch|Lock|Unlock|RLock|RUnlock|Wait|Signal|Broadcast|Load|Store|Add|Swap|CompareAndSwap|LoadOrStore|LoadAndDelete|Delete|ProcessUserMessage|ProcessSystemMessage|ProcessAccident|Send|Recv|Submit|dispatch|process|processHandle)\()`)

func render(fset *token.FileSet, n ast.Node) string {
	var b bytes.Buffer
	printer.Fprint(&b, fset, n)
	s := b.String()
	s = strings.Join(strings.Fields(s), " ")
	return s
}

type ext struct {
	fset *token.FileSet
	keep *regexp.Regexp
	out  []string
}

func (e *ext) calls(n ast.Node) []string {
	var cs []string
	ast.Inspect(n, func(x ast.Node) bool {
		if _, ok := x.(*ast.FuncLit); ok {
			return false
		}
		if c, ok := x.(*ast.CallExpr); ok {
			s := render(e.fset, c)
			if e.keep.MatchString(s) {
				cs = append(cs, s)
			}
		}
		return true
	})
	// inner calls are visited after outer ones by Inspect; evaluation order is inner first
	for i, j := 0, len(cs)-1; i < j; i, j = i+1, j-1 {
		cs[i], cs[j] = cs[j], cs[i]
	}
	return cs
}

func (e *ext) emit(s string) { e.out = append(e.out, s) }

func (e *ext) exprOps(n ast.Node) bool {
	cs := e.calls(n)
	for _, c := range cs {
		e.emit(c)
	}
	return len(cs) > 0
}

func (e *ext) block(b *ast.BlockStmt) {
	if b == nil {
		return
	}
	for _, s := range b.List {
		e.stmt(s)
	}
}

func (e *ext) stmt(s ast.Stmt) {
	switch v := s.(type) {
	case *ast.BlockStmt:
		e.block(v)
	case *ast.IfStmt:
		if v.Init != nil {
			e.stmt(v.Init)
		}
		e.emit("if " + render(e.fset, v.Cond) + " {")
		e.block(v.Body)
		if v.Else != nil {
			e.emit("} else {")
			e.stmt(v.Else)
		}
		e.emit("}")
	case *ast.ForStmt:
		if v.Init != nil {
			e.stmt(v.Init)
		}
		c := ""
		if v.Cond != nil {
			c = render(e.fset, v.Cond) + " "
		}
		e.emit("for " + c + "{")
		e.block(v.Body)
		if v.Post != nil {
			e.stmt(v.Post)
		}
		e.emit("}")
	case *ast.RangeStmt:
		e.emit("range " + render(e.fset, v.X) + " {")
		e.block(v.Body)
		e.emit("}")
	case *ast.SwitchStmt:
		if v.Init != nil {
			e.stmt(v.Init)
		}
		t := ""
		if v.Tag != nil {
			t = render(e.fset, v.Tag) + " "
		}
		e.emit("switch " + t + "{")
		for _, c := range v.Body.List {
			cc := c.(*ast.CaseClause)
			if cc.List == nil {
				e.emit("default:")
			} else {
				var l []string
				for _, x := range cc.List {
					l = append(l, render(e.fset, x))
				}
				e.emit("case " + strings.Join(l, ", ") + ":")
			}
			for _, b := range cc.Body {
				e.stmt(b)
			}
		}
		e.emit("}")
	case *ast.TypeSwitchStmt:
		e.emit("typeswitch {")
		for _, c := range v.Body.List {
			cc := c.(*ast.CaseClause)
			if cc.List == nil {
				e.emit("default:")
			} else {
				var l []string
				for _, x := range cc.List {
					l = append(l, render(e.fset, x))
				}
				e.emit("case " + strings.Join(l, ", ") + ":")
			}
			for _, b := range cc.Body {
				e.stmt(b)
			}
		}
		e.emit("}")
	case *ast.SelectStmt:
		e.emit("select {")
		for _, c := range v.Body.List {
			cc := c.(*ast.CommClause)
			if cc.Comm == nil {
				e.emit("default:")
			} else {
				e.emit("comm " + render(e.fset, cc.Comm) + ":")
			}
			for _, b := range cc.Body {
				e.stmt(b)
			}
		}
		e.emit("}")
	case *ast.BranchStmt:
		e.emit(v.Tok.String())
	case *ast.ReturnStmt:
		e.exprOps(v)
		e.emit("return")
	case *ast.DeferStmt:
		if fl, ok := v.Call.Fun.(*ast.FuncLit); ok {
			e.emit("defer {")
			e.block(fl.Body)
			e.emit("}")
		} else {
			e.emit("defer " + render(e.fset, v.Call))
		}
	case *ast.GoStmt:
		if fl, ok := v.Call.Fun.(*ast.FuncLit); ok {
			e.emit("go {")
			e.block(fl.Body)
			e.emit("}")
		} else {
			e.emit("go " + render(e.fset, v.Call))
		}
	case *ast.SendStmt:
		e.emit("send " + render(e.fset, v))
	case *ast.ExprStmt:
		if u, ok := v.X.(*ast.UnaryExpr); ok && u.Op == token.ARROW {
			e.emit("recv " + render(e.fset, v.X))
			return
		}
		e.exprOps(v)
	case *ast.AssignStmt:
		// channel receives and calls inside assignments
		for _, r := range v.Rhs {
			if u, ok := r.(*ast.UnaryExpr); ok && u.Op == token.ARROW {
				e.emit("recv " + render(e.fset, r))
			}
		}
		if len(e.calls(v)) > 0 {
			// keep the assignment's shape when it binds the result of shared operations
			e.emit(render(e.fset, v))
		}
	case *ast.IncDecStmt, *ast.DeclStmt, *ast.EmptyStmt, *ast.LabeledStmt:
		e.exprOps(v)
	default:
		e.exprOps(v)
	}
}

// Skeleton returns the skeleton of function `name` (method receiver type `recv`, "" for functions).
func Skeleton(path, recv, name string, keep *regexp.Regexp) (string, error) {
	fset := token.NewFileSet()
	f, err := parser.ParseFile(fset, path, nil, 0)
	if err != nil {
		return "", err
	}
	if keep == nil {
		keep = DefaultKeep
	}
	for _, d := range f.Decls {
		fd, ok := d.(*ast.FuncDecl)
		if !ok || fd.Name.Name != name {
			continue
		}
		r := ""
		if fd.Recv != nil && len(fd.Recv.List) > 0 {
			t := fd.Recv.List[0].Type
			if s, ok := t.(*ast.StarExpr); ok {
				t = s.X
			}
			if ix, ok := t.(*ast.IndexExpr); ok {
				t = ix.X
			}
			if ix, ok := t.(*ast.IndexListExpr); ok {
				t = ix.X
			}
			if id, ok := t.(*ast.Ident); ok {
				r = id.Name
			}
		}
		if r != recv {
			continue
		}
		e := &ext{fset: fset, keep: keep}
		e.block(fd.Body)
		return strings.Join(e.out, " ; "), nil
	}
	return "", fmt.Errorf("function %s.%s not found in %s", recv, name, path)
}

// Text returns the source text of the body of function `name` (method receiver type `recv`, "" for
// functions), comments dropped and white space normalised: a T-facts tie for code whose exact statement
// order matters and that no executable comparison reaches.
func Text(path, recv, name string) (string, error) {
	fset := token.NewFileSet()
	f, err := parser.ParseFile(fset, path, nil, 0)
	if err != nil {
		return "", err
	}
	for _, d := range f.Decls {
		fd, ok := d.(*ast.FuncDecl)
		if !ok || fd.Name.Name != name || fd.Body == nil {
			continue
		}
		r := ""
		if fd.Recv != nil && len(fd.Recv.List) > 0 {
			t := fd.Recv.List[0].Type
			if s, ok := t.(*ast.StarExpr); ok {
				t = s.X
			}
			if id, ok := t.(*ast.Ident); ok {
				r = id.Name
			}
		}
		if r != recv {
			continue
		}
		return render(fset, fd.Body), nil
	}
	return "", fmt.Errorf("function %s.%s not found in %s", recv, name, path)
}
