//go:build !only || only_c18

package main

import _ "verifharness/suites/c18"
