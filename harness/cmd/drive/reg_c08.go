//go:build !only || only_c08

package main

import _ "verifharness/suites/c08"
