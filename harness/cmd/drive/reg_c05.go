//go:build !only || only_c05

package main

import _ "verifharness/suites/c05"
