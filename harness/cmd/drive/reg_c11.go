//go:build !only || only_c11

package main

import _ "verifharness/suites/c11"
