//go:build !only || only_c17

package main

import _ "verifharness/suites/c17"
