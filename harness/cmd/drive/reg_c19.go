//go:build !only || only_c19

package main

import _ "verifharness/suites/c19"
