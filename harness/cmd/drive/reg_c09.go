//go:build !only || only_c09

package main

import _ "verifharness/suites/c09"
