//go:build !only || only_c01

package main

import _ "verifharness/suites/c01"
