//go:build !only || only_c16

package main

import _ "verifharness/suites/c16"
