// Command drive generates operation lines (gen) and runs them on the real minotaur code (run).
//
//	drive list
//	drive <suite> gen <seed> <tier> [shard nshards]   -> operation lines on stdout
//	drive <suite> run                                  -> stdin: operation lines, stdout: one output per line
package main

import (
	"bufio"
	"fmt"
	"os"
	"strconv"
	"strings"

	"verifharness/internal/proto"
	
)

func main() {
	if len(os.Args) >= 2 && os.Args[1] == "list" {
		for _, n := range proto.Names() {
			fmt.Println(n)
		}
		return
	}
	if len(os.Args) < 3 {
		fmt.Fprintln(os.Stderr, "usage: drive <suite> gen <seed> <tier> [shard nshards] | drive <suite> run")
		os.Exit(2)
	}
	s, ok := proto.Suites[os.Args[1]]
	if !ok {
		fmt.Fprintln(os.Stderr, "unknown suite", os.Args[1])
		os.Exit(2)
	}
	out := bufio.NewWriterSize(os.Stdout, 1<<16)
	defer out.Flush()
	switch os.Args[2] {
	case "gen":
		seed, tier, shard, nshards := uint64(1), "quick", 0, 1
		if len(os.Args) > 3 {
			seed, _ = strconv.ParseUint(os.Args[3], 10, 64)
		}
		if len(os.Args) > 4 {
			tier = os.Args[4]
		}
		if len(os.Args) > 6 {
			shard, _ = strconv.Atoi(os.Args[5])
			nshards, _ = strconv.Atoi(os.Args[6])
		}
		s.Gen(proto.NewRNG(seed*1000003+uint64(shard)), tier, shard, nshards, out)
	case "run":
		r := s.New()
		in := bufio.NewScanner(os.Stdin)
		in.Buffer(make([]byte, 1<<20), 1<<26)
		for in.Scan() {
			line := strings.TrimSpace(in.Text())
			if strings.HasPrefix(line, "#") {
				r.Reset()
				fmt.Fprintln(out, line)
				out.Flush()
				continue
			}
			if line == "" {
				fmt.Fprintln(out, "")
				continue
			}
			toks := strings.Fields(line)
			o := proto.Safe(func() string { return r.Step(toks) })
			fmt.Fprintln(out, o)
			out.Flush()
		}
	default:
		fmt.Fprintln(os.Stderr, "unknown mode", os.Args[2])
		os.Exit(2)
	}
}
