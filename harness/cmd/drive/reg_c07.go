//go:build !only || only_c07

package main

import _ "verifharness/suites/c07"
