//go:build !only || only_c14

package main

import _ "verifharness/suites/c14"
