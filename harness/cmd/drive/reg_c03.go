//go:build !only || only_c03

package main

import _ "verifharness/suites/c03"
