//go:build !only || only_c02

package main

import _ "verifharness/suites/c02"
