//go:build !only || only_c04

package main

import _ "verifharness/suites/c04"
