//go:build !only || only_c20

package main

import _ "verifharness/suites/c20"
