//go:build !only || only_c13

package main

import _ "verifharness/suites/c13"
