//go:build !only || only_c15

package main

import _ "verifharness/suites/c15"
