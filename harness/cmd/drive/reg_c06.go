//go:build !only || only_c06

package main

import _ "verifharness/suites/c06"
