//go:build !only || only_c10

package main

import _ "verifharness/suites/c10"
