//go:build !only || only_c12

package main

import _ "verifharness/suites/c12"
