// Package asys is the Layer-2 correspondence suite: a real vivid.ActorSystem runs under the
// controlled scheduler with every runner goroutine parked at the top of its mailbox loop
// ("mb.spop"), so that `run <actor>` lets exactly one actor handle exactly one message. The Lean
// model MV.Model.ActorSys executes the same operation lines; after every line both print the same
// digest (new handler observations, queue sizes, runner, spawned actors, timers, dead letters).
package asys

import (
	"fmt"
	"sort"
	"strings"
	"sync"
	"time"
	"unsafe"

	"github.com/kercylan98/minotaur/engine/prc"
	"github.com/kercylan98/minotaur/engine/vivid"
	"github.com/kercylan98/minotaur/engine/vivid/mailbox"
	"github.com/kercylan98/minotaur/engine/vivid/supervision"
	"github.com/kercylan98/minotaur/toolkit/log"
	"verifharness/internal/proto"
	"verifharness/internal/sched"
)

// ---------------------------------------------------------------- behaviours (scenario language)

type rule struct {
	pat     string // launch restarted restarting terminate terminated-self terminated-other terminated-any user:<tag> user-any dead any
	actions [][]string
}

type strategyDef struct {
	limit int
	table []string
}

type behDef struct {
	rules         []rule
	strategy      *strategyDef
	actorStrategy *strategyDef
}

type userMsg struct{ tag int }

// actorRec is the harness's record of one actor (shared by all incarnations).
type actorRec struct {
	aid    int
	beh    int
	ref    vivid.ActorRef
	inc    int
	log    []string
	seen   int
	mb     mailbox.Mailbox
	lastMb unsafe.Pointer
}

type Sys struct {
	mu       sync.Mutex // recvOf, dead, armed are also touched by timer goroutines
	sc       *sched.Sched
	sys      *vivid.ActorSystem
	behs     map[int]*behDef
	actors   []*actorRec            // by aid
	byURL    map[string]*actorRec   // ref URL -> record
	recvOf   map[int]unsafe.Pointer // tid -> mailbox pointer of the runner
	armed    []armedTimer
	dead     []string
	deadSeen int
	abyss    *recAbyss
	crashed  bool
	// hazard: the guard's graceful fan-out met a terminated child that it still lists; Go's map
	// iteration order then decides the order of two messages in the subscription actor's queue,
	// which the deterministic model cannot know. The generator discards such cases.
	events  []string // global, totally ordered record (same events as MV.Model.ActorSys.Event)
	hazard  bool
	current int // actor whose turn is running (-1: none)
	// fanDead: graceful terminate requests of the running turn's fan-out (`for _, child := range
	// ctx.children`, a Go map) that went to the dead letters; two of them in one turn appear in map
	// iteration order in the dead-letter record, which the deterministic model cannot know either.
	fanDead int
	// extra park sites (op `park`): besides "mb.spop" (one message per quantum) the runners also stop
	// at these mailbox sites, so that a quantum ends at every cross-actor interaction (fine suite)
	extra map[string]bool
}

type armedTimer struct {
	victim vivid.ActorRef
	sysNum int32
}

// ---------------------------------------------------------------- recording dead-letter process

type recAbyss struct {
	inner vivid.AbyssProcess
	s     *Sys
}

func (a *recAbyss) OnInitialize(system *vivid.ActorSystem) { a.inner.OnInitialize(system) }
func (a *recAbyss) Initialize(rc *prc.ResourceController, id *prc.ProcessId) {
	a.inner.Initialize(rc, id)
}
func (a *recAbyss) IsTerminated() bool              { return a.inner.IsTerminated() }
func (a *recAbyss) Terminate(source *prc.ProcessId) { a.inner.Terminate(source) }
func (a *recAbyss) DeliveryUserMessage(receiver, sender, forward *prc.ProcessId, message prc.Message) {
	a.s.mu.Lock()
	if t, ok := message.(*prc.MessageWrapper); ok && sender == nil && receiver != nil {
		if ot, isT := t.Message.(*vivid.OnTerminate); isT && ot.Gracefully && a.s.current >= 0 {
			a.s.fanDead++
			if a.s.current == 0 || a.s.fanDead >= 2 {
				a.s.hazard = true
			}
		}
	}
	a.s.dead = append(a.s.dead, fmt.Sprintf("%s>%s:%s", a.s.name(sender), a.s.name(receiver), a.s.fmtMsg(message)))
	a.s.mu.Unlock()
	a.inner.DeliveryUserMessage(receiver, sender, forward, message)
}
func (a *recAbyss) DeliverySystemMessage(receiver, sender, forward *prc.ProcessId, message prc.Message) {
	a.inner.DeliverySystemMessage(receiver, sender, forward, message)
}

// ---------------------------------------------------------------- dispatcher

type disp struct{ s *Sys }

// receiverOf extracts the receiver of a method value (m.process): a Go method value is a closure
// {code pointer, receiver}.
func receiverOf(f func()) unsafe.Pointer {
	type funcval struct {
		fn   uintptr
		recv unsafe.Pointer
	}
	fv := *(**funcval)(unsafe.Pointer(&f))
	return fv.recv
}

func (d *disp) Dispatch(f func()) {
	recv := receiverOf(f)
	tid := d.s.sc.Go(f)
	d.s.mu.Lock()
	d.s.recvOf[tid] = recv
	d.s.mu.Unlock()
}

// ---------------------------------------------------------------- the scripted actor

type scriptActor struct {
	s   *Sys
	rec *actorRec
	inc int
}

type scriptSupervisor struct {
	*scriptActor
	supervision.Strategy
}

func (s *Sys) name(ref vivid.ActorRef) string {
	if ref == nil {
		return "nil"
	}
	if r, ok := s.byURL[ref.URL().String()]; ok {
		return fmt.Sprint(r.aid)
	}
	// a reference to a never-registered address (see target): named by the actor id it stands for
	if i := strings.LastIndex(ref.GetLogicalAddress(), "/ghost-"); i >= 0 {
		return "g" + ref.GetLogicalAddress()[i+7:]
	}
	return "?" + ref.GetLogicalAddress()
}

func (s *Sys) fmtMsg(m prc.Message) string {
	if w, ok := m.(*prc.MessageWrapper); ok {
		m = w.Message
	}
	switch v := m.(type) {
	case *userMsg:
		return fmt.Sprintf("u%d", v.tag)
	case *vivid.OnTerminate:
		if v.Gracefully {
			return "graceful"
		}
		return "terminate"
	case *vivid.OnAbyssMessageEvent:
		return fmt.Sprintf("dead(%s>%s:%s)", s.name(v.Sender), s.name(v.Receiver), s.fmtMsg(v.Message))
	}
	if topic, payload, ok := vivid.VerifPublishPayload(m); ok {
		_ = topic
		return "publish(" + s.fmtMsg(payload) + ")"
	}
	return fmt.Sprintf("%T", m)
}

func (a *scriptActor) OnReceive(ctx vivid.ActorContext) {
	var obs string
	switch m := ctx.Message().(type) {
	case *vivid.OnLaunch:
		obs = "launch"
	case *vivid.OnRestarted:
		obs = "restarted"
	case *vivid.OnRestarting:
		obs = "restarting"
	case *vivid.OnTerminate:
		obs = "terminate"
	case *vivid.OnTerminated:
		obs = "terminated:" + a.s.name(m.TerminatedActor)
	case *userMsg:
		obs = fmt.Sprintf("user:%d", m.tag)
	case *vivid.OnAbyssMessageEvent:
		inner := m.Message
		if w, ok := inner.(*prc.MessageWrapper); ok {
			inner = w.Message
		}
		tag := 0
		if u, ok := inner.(*userMsg); ok {
			tag = u.tag
		}
		obs = fmt.Sprintf("dead:%s:%d", a.s.name(m.Receiver), tag)
	default:
		obs = fmt.Sprintf("other:%T", m)
	}
	a.rec.log = append(a.rec.log, fmt.Sprintf("%d/%s/%s", a.inc, obs, a.s.name(ctx.Sender())))
	if a.rec.aid >= 0 {
		a.s.events = append(a.s.events, fmt.Sprintf("h:%d:%d/%s/%s", a.rec.aid, a.inc, obs, a.s.name(ctx.Sender())))
	} else {
		a.s.events = append(a.s.events, fmt.Sprintf("h:?:%d/%s/%s", a.inc, obs, a.s.name(ctx.Sender())))
	}
	b := a.s.behs[a.rec.beh]
	if b == nil {
		return
	}
	for _, r := range b.rules {
		if matches(r.pat, obs, a.rec.aid, a.s) {
			for _, act := range r.actions {
				a.s.runAction(ctx, a.rec, act)
			}
			return
		}
	}
}

func matches(pat, obs string, self int, s *Sys) bool {
	switch {
	case pat == "any":
		return true
	case pat == "launch" || pat == "restarted" || pat == "restarting" || pat == "terminate":
		return obs == pat
	case pat == "terminated-any":
		return strings.HasPrefix(obs, "terminated:")
	case pat == "terminated-self":
		return obs == fmt.Sprintf("terminated:%d", self)
	case pat == "terminated-other":
		return strings.HasPrefix(obs, "terminated:") && obs != fmt.Sprintf("terminated:%d", self)
	case pat == "user-any":
		return strings.HasPrefix(obs, "user:")
	case strings.HasPrefix(pat, "user:"):
		return obs == pat
	case pat == "dead":
		return strings.HasPrefix(obs, "dead:")
	}
	return false
}

func (s *Sys) target(ctx vivid.ActorContext, t string) vivid.ActorRef {
	switch t {
	case "self":
		return ctx.Ref()
	case "parent":
		return ctx.Parent()
	case "sender":
		return ctx.Sender()
	}
	if k, ok := proto.Atoi(t); ok {
		if k >= 0 && k < len(s.actors) {
			return s.actors[k].ref
		}
		// an actor id that does not exist: a reference to a never-registered address
		return ctx.System().Context().Ref().Derivation(fmt.Sprintf("ghost-%d", k))
	}
	return nil
}

func (s *Sys) runAction(ctx vivid.ActorContext, rec *actorRec, act []string) {
	switch act[0] {
	case "tell":
		tag, _ := proto.Atoi(act[2])
		ctx.Tell(s.target(ctx, act[1]), &userMsg{tag})
	case "ask":
		tag, _ := proto.Atoi(act[2])
		ctx.Ask(s.target(ctx, act[1]), &userMsg{tag})
	case "reply":
		tag, _ := proto.Atoi(act[1])
		ctx.Reply(&userMsg{tag})
	case "spawn":
		b, _ := proto.Atoi(act[1])
		s.spawn(ctx, b)
	case "kill":
		t := s.target(ctx, act[1])
		s.events = append(s.events, "killreq:"+s.name(t))
		ctx.Terminate(t, act[2] == "g")
	case "watch":
		if t := s.target(ctx, act[1]); t != nil && !t.Equal(ctx.Ref()) { // scripted actors never watch themselves
			s.events = append(s.events, fmt.Sprintf("watch:%d:%s", rec.aid, s.name(t)))
			ctx.Watch(t)
		}
	case "unwatch":
		if t := s.target(ctx, act[1]); t != nil && !t.Equal(ctx.Ref()) {
			s.events = append(s.events, fmt.Sprintf("unwatch:%d:%s", rec.aid, s.name(t)))
			ctx.UnWatch(t)
		}
	case "panic":
		s.events = append(s.events, fmt.Sprintf("failed:%d", rec.aid))
		panic("scripted failure")
	}
}

func (s *Sys) strategyOf(d *strategyDef) supervision.Strategy {
	return supervision.OneForOne(d.limit, time.Millisecond, 2*time.Millisecond, supervision.FunctionalDecide(func(record *supervision.AccidentRecord) supervision.Directive {
		count := record.State.AccidentCount()
		dir := "restart"
		if len(d.table) > 0 {
			i := count - 1
			if i < 0 {
				i = 0
			}
			if i >= len(d.table) {
				i = len(d.table) - 1
			}
			dir = d.table[i]
		}
		sup := "?"
		if r, ok := record.Supervisor.(interface{ Ref() vivid.ActorRef }); ok {
			sup = s.name(r.Ref())
		}
		s.events = append(s.events, fmt.Sprintf("decided:%s:%s:%s:%d", sup, s.name(record.Victim), dir, count))
		switch dir {
		case "stop":
			return supervision.DirectiveStop
		case "resume":
			return supervision.DirectiveResume
		case "escalate":
			return supervision.DirectiveEscalate
		}
		// restart: a timer is armed unless the limit is exceeded
		if !(d.limit >= 0 && count > d.limit) {
			var n int32
			if mb := vivid.VerifMailboxOf(s.sys, record.Victim); mb != nil {
				_, n, _, _, _ = mailbox.VerifState(mb)
			}
			s.mu.Lock()
			s.armed = append(s.armed, armedTimer{victim: record.Victim, sysNum: n})
			s.mu.Unlock()
		}
		return supervision.DirectiveRestart
	}))
}

// spawn creates a scripted actor as a child of ctx's actor and assigns the next actor id.
func (s *Sys) spawn(ctx vivid.ActorContext, beh int) *actorRec {
	rec := &actorRec{beh: beh, aid: -1}
	b := s.behs[beh]
	inc := 0
	ref := ctx.ActorOfF(func() vivid.Actor {
		a := &scriptActor{s: s, rec: rec, inc: inc}
		inc++
		if b != nil && b.actorStrategy != nil {
			return &scriptSupervisor{scriptActor: a, Strategy: s.strategyOf(b.actorStrategy)}
		}
		return a
	}, func(d *vivid.ActorDescriptor) {
		if b != nil && b.strategy != nil {
			d.WithSupervisionStrategyProvider(supervision.FunctionalStrategyProvider(func() supervision.Strategy { return s.strategyOf(b.strategy) }))
		}
	})
	rec.ref = ref
	rec.aid = len(s.actors)
	s.events = append(s.events, fmt.Sprintf("spawned:%s:%d", s.name(ctx.Ref()), rec.aid))
	s.actors = append(s.actors, rec)
	s.byURL[ref.URL().String()] = rec
	return rec
}

// ---------------------------------------------------------------- system

func New(behs map[int]*behDef) *Sys {
	s := &Sys{behs: behs, byURL: map[string]*actorRec{}, recvOf: map[int]unsafe.Pointer{}, current: -1}
	s.sc = sched.New()
	s.sc.Filter = func(site string) bool { return site == "mb.spop" || s.extra[site] }
	vivid.VerifSetDefaultDispatcher(&disp{s})
	s.abyss = &recAbyss{inner: vivid.VerifNewAbyss(), s: s}
	s.sys = vivid.NewActorSystem(vivid.FunctionalActorSystemConfigurator(func(c *vivid.ActorSystemConfiguration) {
		spy := log.New(spyHandler{s})
		c.WithLoggerProvider(log.FunctionalLoggerProvider(func() *log.Logger { return spy }))
		c.WithAbyss(s.abyss)
	}))
	g := &actorRec{aid: 0, beh: 0, ref: vivid.VerifGuardRef(s.sys)}
	sub := &actorRec{aid: 1, beh: 1, ref: vivid.VerifSubscriptionRef(s.sys)}
	s.actors = []*actorRec{g, sub}
	s.byURL[g.ref.URL().String()] = g
	s.byURL[sub.ref.URL().String()] = sub
	return s
}

func (s *Sys) Close() {
	s.sc.Close()
}

// runnerOf returns the tid of the parked runner of actor rec (or -1).
func (s *Sys) runnerOf(rec *actorRec) int {
	mb := vivid.VerifMailboxOf(s.sys, rec.ref)
	var p unsafe.Pointer
	if mb != nil {
		p = mbPointer(mb)
	}
	s.mu.Lock()
	defer s.mu.Unlock()
	for _, tid := range s.sc.Live() {
		if rp, ok := s.recvOf[tid]; ok && p != nil && rp == p {
			return tid
		}
	}
	// the actor may have been unregistered while its runner is still parked: fall back to the
	// mailbox pointer remembered for the record
	if p == nil && rec.lastMb != nil {
		for _, tid := range s.sc.Live() {
			if rp, ok := s.recvOf[tid]; ok && rp == rec.lastMb {
				return tid
			}
		}
	}
	return -1
}

func mbPointer(m mailbox.Mailbox) unsafe.Pointer {
	switch v := m.(type) {
	case *mailbox.LockFree:
		return unsafe.Pointer(v)
	case *mailbox.GlobalOrderedLockFree:
		return unsafe.Pointer(v)
	}
	return nil
}

func (s *Sys) remember() {
	for _, r := range s.actors {
		if r.lastMb == nil {
			if mb := vivid.VerifMailboxOf(s.sys, r.ref); mb != nil {
				r.lastMb = mbPointer(mb)
				r.mb = mb
			}
		}
	}
}

// digest of what changed for actor a plus global counters
func (s *Sys) digest(rec *actorRec, before int) string {
	s.remember()
	newLog := rec.log[rec.seen:]
	rec.seen = len(rec.log)
	sysN, usrN := int32(0), int32(0)
	if rec.mb != nil {
		_, sysN, usrN, _, _ = mailbox.VerifState(rec.mb)
	}
	runner := 0
	if s.runnerOf(rec) >= 0 {
		runner = 1
	}
	return fmt.Sprintf("log+=[%s] sys=%d usr=%d runner=%d", strings.Join(newLog, " "), sysN, usrN, runner)
}

func (s *Sys) RunActor(aid int) string {
	if s.crashed {
		return "skipped"
	}
	if aid < 0 || aid >= len(s.actors) {
		return "skip"
	}
	rec := s.actors[aid]
	s.remember()
	tid := s.runnerOf(rec)
	if tid < 0 {
		return "skip"
	}
	before := len(s.actors)
	s.mu.Lock()
	s.current, s.fanDead = aid, 0
	s.mu.Unlock()
	site, _, _, ok := s.sc.Step(tid)
	s.current = -1
	if !ok {
		return "skip"
	}
	if site == "hang" {
		return "hang"
	}
	if s.sc.Crashed {
		// a panic escaped the runner (e.g. Escalate at the root, inside the recover handler): the
		// real process would be dead now
		s.crashed = true
		return "fatal"
	}
	return s.digest(rec, before)
}

// Fire waits until the oldest armed restart timer has delivered its message.
func (s *Sys) Fire() string {
	if s.crashed {
		return "skipped"
	}
	if len(s.armed) == 0 {
		return "none"
	}
	t := s.armed[0]
	s.armed = s.armed[1:]
	rec := s.byURL[t.victim.URL().String()]
	deadline := time.Now().Add(30 * time.Second)
	for {
		var n int32 = -1
		if rec != nil && rec.mb != nil {
			_, n, _, _, _ = mailbox.VerifState(rec.mb)
		}
		if n > t.sysNum || !vivid.VerifIsRegistered(s.sys, t.victim) {
			break
		}
		if time.Now().After(deadline) {
			return "hang"
		}
		time.Sleep(200 * time.Microsecond)
	}
	// the timer goroutine (not managed by the scheduler) may still be inside DeliverySystemMessage /
	// dispatch: the message is counted before the runner is handed to the dispatcher. Wait until the
	// victim's runner exists (or the victim is gone) — on a loaded machine that can take a while —, then
	// until every managed goroutine is parked
	for rec != nil && s.runnerOf(rec) < 0 && vivid.VerifIsRegistered(s.sys, t.victim) {
		if time.Now().After(deadline) {
			return "hang"
		}
		time.Sleep(200 * time.Microsecond)
	}
	time.Sleep(300 * time.Microsecond)
	s.sc.WaitQuiet()
	if rec == nil {
		return "fired ?"
	}
	return fmt.Sprintf("fired %d ", rec.aid) + s.digest(rec, len(s.actors))
}

var statusNames = []string{"alive", "restarting", "terminating", "terminated"}

// Dump prints the bookkeeping of every actor.
func (s *Sys) Dump() string {
	s.remember()
	var parts []string
	for _, r := range s.actors {
		st, ch, wa, acc := "?", []string{}, []string{}, 0
		if r.mb != nil {
			if info, ok := vivid.VerifInfo(r.mb); ok {
				st = statusNames[info.Status]
				for _, c := range info.Children {
					for _, o := range s.actors {
						if o.ref.GetLogicalAddress() == c {
							ch = append(ch, fmt.Sprint(o.aid))
						}
					}
				}
				for _, w := range info.Watchers {
					if o, ok := s.byURL[w]; ok {
						wa = append(wa, fmt.Sprint(o.aid))
					}
				}
				acc = info.Accidents
			}
		}
		sort.Strings(ch)
		sort.Strings(wa)
		reg := 0
		if vivid.VerifIsRegistered(s.sys, r.ref) {
			reg = 1
		}
		sysN, usrN := int32(0), int32(0)
		if r.mb != nil {
			_, sysN, usrN, _, _ = mailbox.VerifState(r.mb)
		}
		parts = append(parts, fmt.Sprintf("%d:%s,ch=[%s],w=[%s],acc=%d,reg=%d,q=%d/%d", r.aid, st, strings.Join(ch, " "), strings.Join(wa, " "), acc, reg, sysN, usrN))
	}
	return strings.Join(parts, " | ")
}

func (s *Sys) Log(aid int) string {
	if aid < 0 || aid >= len(s.actors) {
		return "bad-op"
	}
	return "[" + strings.Join(s.actors[aid].log, " ") + "]"
}

// Stuck lists the alive actors that hold messages but have no runner, once nothing is runnable and
// no timer is armed ("busy" otherwise): nobody will ever handle those messages.
func (s *Sys) Stuck() string {
	if len(s.armed) > 0 || len(s.Runnable()) > 0 {
		return "busy"
	}
	var l []string
	for _, r := range s.actors {
		if r.mb == nil || !vivid.VerifIsRegistered(s.sys, r.ref) {
			continue
		}
		info, ok := vivid.VerifInfo(r.mb)
		if !ok || statusNames[info.Status] != "alive" {
			continue
		}
		if _, sysN, usrN, _, _ := mailbox.VerifState(r.mb); sysN > 0 || usrN > 0 {
			l = append(l, fmt.Sprint(r.aid))
		}
	}
	return "[" + strings.Join(l, " ") + "]"
}

// Runnable lists the actors that currently have a parked runner.
func (s *Sys) Runnable() []int {
	s.remember()
	var l []int
	for _, r := range s.actors {
		if s.runnerOf(r) >= 0 {
			l = append(l, r.aid)
		}
	}
	return l
}
