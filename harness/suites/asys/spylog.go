package asys

import (
	"context"
	"log/slog"

	"github.com/kercylan98/minotaur/engine/vivid"
	"github.com/kercylan98/minotaur/engine/vivid/mailbox"
)

// spyHandler is a silent slog handler that recognises the guard's own supervision decision (the
// guard logs "unsupervised accidents" and answers Restart, which arms a back-off timer the harness
// could not see otherwise).
type spyHandler struct{ s *Sys }

func (h spyHandler) Enabled(ctx context.Context, level slog.Level) bool {
	return level >= slog.LevelWarn
}
func (h spyHandler) WithAttrs(attrs []slog.Attr) slog.Handler { return h }
func (h spyHandler) WithGroup(name string) slog.Handler       { return h }
func (h spyHandler) Handle(ctx context.Context, r slog.Record) error {
	info, actor := "", ""
	r.Attrs(func(a slog.Attr) bool {
		switch a.Key {
		case "info":
			info = a.Value.String()
		case "actor":
			actor = a.Value.String()
		}
		return true
	})
	if info != "unsupervised accidents" || actor == "" {
		return nil
	}
	s := h.s
	for _, rec := range s.actors {
		if rec.ref.GetLogicalAddress() == actor {
			var n int32
			if mb := vivid.VerifMailboxOf(s.sys, rec.ref); mb != nil {
				_, n, _, _, _ = mailbox.VerifState(mb)
			}
			s.mu.Lock()
			// OneForOne(10, ...): no timer once the count exceeds the limit (the victim is stopped)
			if info, ok := vivid.VerifInfo(rec.mbOrLookup(s)); !ok || info.Accidents <= 10 {
				s.armed = append(s.armed, armedTimer{victim: rec.ref, sysNum: n})
			}
			s.events = append(s.events, "decided:0:"+s.name(rec.ref)+":restart:"+itoa(accidents(rec, s)))
			s.mu.Unlock()
		}
	}
	return nil
}

func (r *actorRec) mbOrLookup(s *Sys) mailbox.Mailbox {
	if r.mb != nil {
		return r.mb
	}
	return vivid.VerifMailboxOf(s.sys, r.ref)
}

func accidents(r *actorRec, s *Sys) int {
	if info, ok := vivid.VerifInfo(r.mbOrLookup(s)); ok {
		return info.Accidents
	}
	return 0
}

func itoa(i int) string { return slog.IntValue(i).String() }
