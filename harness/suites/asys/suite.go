package asys

import (
	"bufio"
	"fmt"
	"strings"

	"verifharness/internal/proto"
)

// ---------------------------------------------------------------- runner (op lines -> real system)

type runner struct {
	behs map[int]*behDef
	s    *Sys
}

func (r *runner) Reset() {
	if r.s != nil {
		r.s.Close()
		r.s = nil
	}
	r.behs = map[int]*behDef{}
}

func parseStrategy(t []string) *strategyDef {
	if len(t) != 2 {
		return nil
	}
	lim, ok := proto.Atoi(t[0])
	if !ok {
		return nil
	}
	return &strategyDef{limit: lim, table: strings.Split(t[1], ",")}
}

func (r *runner) global(before int) string {
	s := r.s
	var sp []string
	for i := before; i < len(s.actors); i++ {
		sp = append(sp, fmt.Sprint(i))
	}
	nd := s.dead[s.deadSeen:]
	s.deadSeen = len(s.dead)
	return fmt.Sprintf("spawned=[%s] timers=%d dead+=[%s]", strings.Join(sp, " "), len(s.armed), strings.Join(nd, " "))
}

func (r *runner) Step(t []string) string {
	if t[0] == "beh" {
		if len(t) < 4 {
			return "bad-op"
		}
		id, ok := proto.Atoi(t[1])
		if !ok {
			return "bad-op"
		}
		b := r.behs[id]
		if b == nil {
			b = &behDef{}
			r.behs[id] = b
		}
		switch t[2] {
		case "rule":
			var acts [][]string
			var cur []string
			for _, x := range t[4:] {
				if x == ";" {
					if len(cur) > 0 {
						acts = append(acts, cur)
					}
					cur = nil
				} else {
					cur = append(cur, x)
				}
			}
			if len(cur) > 0 {
				acts = append(acts, cur)
			}
			b.rules = append(b.rules, rule{pat: t[3], actions: acts})
		case "strategy":
			b.strategy = parseStrategy(t[3:])
		case "actorstrategy":
			b.actorStrategy = parseStrategy(t[3:])
		default:
			return "bad-op"
		}
		return "ok"
	}
	if t[0] == "start" {
		if r.s != nil {
			r.s.Close()
		}
		r.s = New(r.behs)
		return "ok"
	}
	if r.s == nil {
		return "bad-op"
	}
	s := r.s
	if s.crashed {
		return "skipped"
	}
	num := func(i int) (int, bool) {
		if i >= len(t) {
			return 0, false
		}
		return proto.Atoi(t[i])
	}
	// protocol: an armed restart timer fires in real time, so the only operation allowed next is `fire`
	// (observations are fine); anything else is refused on both sides
	if len(s.armed) > 0 {
		switch t[0] {
		case "spawn", "tell", "kill", "shutdown", "run":
			return "need-fire"
		}
	}
	switch t[0] {
	case "spawn":
		b, ok := num(1)
		if !ok {
			return "bad-op"
		}
		before := len(s.actors)
		s.spawn(s.sys.Context(), b)
		s.sc.WaitQuiet()
		return r.global(before)
	case "tell":
		a, ok1 := num(1)
		tag, ok2 := num(2)
		if !ok1 || !ok2 {
			return "bad-op"
		}
		before := len(s.actors)
		s.sys.Tell(s.target(s.sys.Context(), fmt.Sprint(a)), &userMsg{tag})
		s.sc.WaitQuiet()
		return r.global(before)
	case "kill":
		a, ok := num(1)
		if !ok || len(t) != 3 {
			return "bad-op"
		}
		before := len(s.actors)
		kt := s.target(s.sys.Context(), fmt.Sprint(a))
		s.events = append(s.events, "killreq:"+s.name(kt))
		s.sys.Terminate(kt, t[2] == "g")
		s.sc.WaitQuiet()
		return r.global(before)
	case "shutdown":
		if len(t) != 2 {
			return "bad-op"
		}
		before := len(s.actors)
		// the request part of Shutdown (Shutdown itself blocks until the root has terminated)
		s.events = append(s.events, "killreq:0")
		s.sys.Terminate(s.actors[0].ref, t[1] == "g")
		s.sc.WaitQuiet()
		return r.global(before)
	case "run":
		a, ok := num(1)
		if !ok {
			return "bad-op"
		}
		before := len(s.actors)
		o := s.RunActor(a)
		if o == "skip" || o == "hang" || o == "fatal" || o == "skipped" {
			return o
		}
		return o + " " + r.global(before)
	case "fire":
		before := len(s.actors)
		o := s.Fire()
		if o == "none" || o == "hang" {
			return o
		}
		return o + " " + r.global(before)
	case "settle":
		bound := 400
		if len(s.extra) > 0 {
			bound = 2000
		}
		for i := 0; i < bound && (len(s.extra) == 0 || len(s.actors) < 80); i++ { // scripted behaviours may ping-pong / spawn for ever
			if len(s.armed) > 0 {
				if s.Fire() == "hang" {
					return "hang"
				}
				continue
			}
			l := s.Runnable()
			if len(l) == 0 {
				break
			}
			if s.RunActor(l[0]) == "hang" {
				return "hang"
			}
		}
		// restart timers still armed when the step budget is used up fire in real time: leaving them
		// armed would make every later observation a race (seen on a loaded machine: `dump` after the
		// closing `settle` of a restart loop showed the restart request already queued). Release them;
		// a fired timer only enqueues the request and arms nothing.
		for len(s.armed) > 0 && !s.crashed {
			if s.Fire() == "hang" {
				return "hang"
			}
		}
		s.deadSeen = len(s.dead)
		for _, a := range s.actors {
			a.seen = len(a.log)
		}
		return s.Dump()
	case "dump":
		return s.Dump()
	case "park":
		// park <site,site,...> | park none
		s.extra = map[string]bool{}
		if len(t) == 2 && t[1] != "none" {
			for _, x := range strings.Split(t[1], ",") {
				s.extra[x] = true
			}
		}
		return "ok"
	case "stuck":
		return s.Stuck()
	case "log":
		a, ok := num(1)
		if !ok {
			return "bad-op"
		}
		return s.Log(a)
	case "deadlog":
		return "[" + strings.Join(s.dead, " ") + "]"
	case "events":
		return "[" + strings.Join(s.events, " ") + "]"
	}
	return "bad-op"
}

// ---------------------------------------------------------------- generator

var pats = []string{"launch", "restarted", "restarting", "terminate", "terminated-self", "terminated-other", "user-any", "user:1", "user:2", "any"}

func genTarget(rng *proto.RNG) string {
	switch rng.Pick(3, 3, 3, 5) {
	case 0:
		return "self"
	case 1:
		return "parent"
	case 2:
		return "sender"
	}
	return fmt.Sprint(rng.Range(0, 9))
}

func genAction(rng *proto.RNG, beh, nb int, calm bool) string {
	wPanic := 3
	if calm {
		wPanic = 0
	}
	switch rng.Pick(6, 3, 3, 3, 3, 3, 1, wPanic) {
	case 0:
		return fmt.Sprintf("tell %s %d", genTarget(rng), rng.Range(1, 3))
	case 1:
		return fmt.Sprintf("ask %s %d", genTarget(rng), rng.Range(1, 3))
	case 2:
		return fmt.Sprintf("reply %d", rng.Range(1, 3))
	case 3:
		if beh+1 < 2+nb { // only spawn behaviours with a higher id: finite trees
			return fmt.Sprintf("spawn %d", rng.Range(beh+1, 2+nb-1))
		}
		return fmt.Sprintf("tell parent %d", rng.Range(1, 3))
	case 4:
		g := "n"
		if rng.Bool() {
			g = "g"
		}
		return fmt.Sprintf("kill %s %s", genTarget(rng), g)
	case 5:
		return "watch " + genTarget(rng)
	case 6:
		return "unwatch " + genTarget(rng)
	}
	return "panic"
}

func genDirectives(rng *proto.RNG, allowEscalate bool) string {
	return genDirectivesW(rng, allowEscalate, false)
}

// focus: supervision-centred cases prefer the directives whose handling is the most intricate
// (Resume is applied by the supervisor's goroutine, Escalate travels on)
func genDirectivesW(rng *proto.RNG, allowEscalate, focus bool) string {
	n := rng.Range(1, 3)
	var d []string
	for i := 0; i < n; i++ {
		wr, ws, wres, wesc := 5, 2, 2, 2
		if focus {
			wr, ws, wres, wesc = 2, 1, 4, 5
		}
		switch rng.Pick(wr, ws, wres, wesc) {
		case 0:
			d = append(d, "restart")
		case 1:
			d = append(d, "stop")
		case 2:
			d = append(d, "resume")
		default:
			if allowEscalate {
				d = append(d, "escalate")
			} else {
				d = append(d, "restart")
			}
		}
	}
	return strings.Join(d, ",")
}

func gen(rng *proto.RNG, tier string, shard, nshards int, w *bufio.Writer) {
	genMode(false, rng, tier, shard, nshards, w)
}

// the fine suite: the same scenarios, but a quantum of `run` also ends at every suspend / resume /
// push into a mailbox (`park`), so the schedules interleave the actors inside their turns
func genFine(rng *proto.RNG, tier string, shard, nshards int, w *bufio.Writer) {
	genMode(true, rng, tier, shard, nshards, w)
}

const fineSites = "mb.susp,mb.res,mb.spush,mb.upush"

func genMode(fine bool, rng *proto.RNG, tier string, shard, nshards int, w *bufio.Writer) {
	n := 24
	if tier == "thorough" {
		n = 200
	}
	for c := 0; c < n; c++ {
		var lines []string
		add := func(l string) { lines = append(lines, l) }
		nb := rng.Range(2, 5)
		calm := rng.Intn(4) == 0
		// focus: a supervision chain 2 -> 3 -> ... -> 6 whose deepest actors fail on user message 1,
		// the ancestors deciding mostly Resume / Escalate (several consecutive Escalate decisions)
		focus := c%3 == 1
		if focus {
			nb, calm = 5, false
		}
		// wfocus: a chain 2 -> 3 -> 4 whose members watch / unwatch each other (parent, child, grandchild,
		// never-existing addresses) on user messages 1 and 2, with many terminate requests in between:
		// watch requests before, racing with and after a termination, and un-watching one's own child
		wfocus := c%3 == 2
		if wfocus {
			nb, calm = 3, true
		}
		behs := map[int]*behDef{}
		r := &runner{behs: behs}
		for b := 2; b < 2+nb; b++ {
			top := b < 4
			// rules
			nr := rng.Range(1, 5)
			used := map[string]bool{}
			if focus {
				if b+1 < 2+nb {
					used["launch"] = true
					add(fmt.Sprintf("beh %d rule launch spawn %d", b, b+1))
				}
				if b >= 4 && rng.Intn(3) != 0 {
					used["user:1"] = true
					add(fmt.Sprintf("beh %d rule user:1 panic", b))
				}
			}
			if wfocus {
				if b+1 < 2+nb {
					used["launch"] = true
					add(fmt.Sprintf("beh %d rule launch spawn %d", b, b+1))
				}
				for tag := 1; tag <= 2; tag++ {
					var acts []string
					for a := rng.Range(1, 2); a > 0; a-- {
						op := "watch"
						if rng.Intn(3) == 0 {
							op = "unwatch"
						}
						tg := fmt.Sprint(rng.Range(2, 6))
						switch rng.Intn(5) {
						case 0:
							tg = "parent"
						case 1:
							tg = "sender"
						}
						acts = append(acts, op+" "+tg)
					}
					used[fmt.Sprintf("user:%d", tag)] = true
					add(fmt.Sprintf("beh %d rule user:%d %s", b, tag, strings.Join(acts, " ; ")))
				}
				nr = rng.Range(0, 2)
			}
			for k := 0; k < nr; k++ {
				p := pats[rng.Intn(len(pats))]
				if used[p] {
					continue
				}
				used[p] = true
				na := rng.Range(0, 3)
				var acts []string
				for a := 0; a < na; a++ {
					acts = append(acts, genAction(rng, b, nb, calm))
				}
				add(fmt.Sprintf("beh %d rule %s %s", b, p, strings.Join(acts, " ; ")))
			}
			if top || rng.Intn(3) == 0 {
				// an `escalate` in the victim's OWN strategy travels with the record up to the root,
				// where Escalate panics inside the recover handler (process-fatal, known finding):
				// generated only in supervisors' strategies
				add(fmt.Sprintf("beh %d strategy %d %s", b, rng.Range(-1, 3), genDirectivesW(rng, false, focus)))
			}
			if top || rng.Intn(4) == 0 || (focus && b+1 < 2+nb && rng.Intn(4) != 0) {
				add(fmt.Sprintf("beh %d actorstrategy %d %s", b, rng.Range(-1, 3), genDirectivesW(rng, !top, focus)))
			}
		}
		add("start")
		if fine {
			add("park " + fineSites)
		}
		for _, l := range lines {
			r.Step(strings.Fields(l))
		}
		do := func(l string) string {
			add(l)
			return r.Step(strings.Fields(l))
		}
		// both built-in actors handle their OnLaunch first in most cases
		if rng.Intn(5) != 0 {
			do("run 0")
			do("run 1")
		}
		ntop := rng.Range(1, 3)
		for k := 0; k < ntop; k++ {
			do(fmt.Sprintf("spawn %d", rng.Range(2, 3)))
		}
		steps := rng.Range(10, 120)
		for k := 0; k < steps; k++ {
			if r.s.crashed {
				break
			}
			if len(r.s.armed) > 0 {
				do("fire")
				continue
			}
			na := len(r.s.actors)
			wKill := 3
			if wfocus {
				wKill = 7
			}
			switch rng.Pick(10, 30, wKill, 1, 1, 1) {
			case 0:
				if focus && na > 2 && rng.Intn(3) != 0 {
					// the deepest actors of the chain, mostly the failing message
					do(fmt.Sprintf("tell %d %d", rng.Range(max(2, na-3), na-1), rng.Pick(3, 1)+1))
					continue
				}
				if wfocus && na > 2 {
					do(fmt.Sprintf("tell %d %d", rng.Range(2, na-1), rng.Range(1, 2)))
					continue
				}
				do(fmt.Sprintf("tell %d %d", rng.Range(0, na+1), rng.Range(1, 3)))
			case 1:
				l := r.s.Runnable()
				if len(l) == 0 {
					do(fmt.Sprintf("tell %d %d", rng.Range(2, na), rng.Range(1, 3)))
				} else {
					do(fmt.Sprintf("run %d", l[rng.Intn(len(l))]))
				}
			case 2:
				g := "n"
				if rng.Bool() {
					g = "g"
				}
				do(fmt.Sprintf("kill %d %s", rng.Range(2, na), g))
			case 3:
				do(fmt.Sprintf("run %d", rng.Range(0, na+1))) // possibly no runner / unknown: skip
			case 4:
				if na < 12 {
					do(fmt.Sprintf("spawn %d", rng.Range(2, 3)))
				}
			case 5:
				do("dump")
			}
		}
		if rng.Intn(3) != 0 {
			g := "n"
			if rng.Bool() {
				g = "g"
			}
			do("shutdown " + g)
		}
		do("settle")
		for a := 0; a < len(r.s.actors); a++ {
			add(fmt.Sprintf("log %d", a))
		}
		add("deadlog")
		add("events")
		if fine {
			add("stuck")
		}
		add("dump")
		hazard := r.s.hazard && !fine // the fine suite is judged, not compared: any order is a legal one
		r.Reset()
		if hazard {
			continue // see Sys.hazard: outcome depends on Go's map iteration order
		}
		fmt.Fprintf(w, "# case %d.%d\n", shard, c)
		for _, l := range lines {
			fmt.Fprintln(w, l)
		}
	}
}

// Register adds the suite.
func Register() {
	proto.Register(&proto.Suite{Name: "actorsys", Gen: gen, New: func() proto.Runner { r := &runner{}; r.Reset(); return r }})
	proto.Register(&proto.Suite{Name: "actorsys-fine", Gen: genFine, New: func() proto.Runner { r := &runner{}; r.Reset(); return r }})
}
