package c09

import (
	"bufio"
	"fmt"
	"os"
	"path/filepath"
	"strings"

	"verifharness/internal/facts"
	"verifharness/internal/proto"
)

// persist-facts (T-facts): the text of the functions that order loading, replaying and saving around the
// lifecycle turns (engine/vivid/actor_context.go), regenerated from the source on every run and compared
// with lean/Oracle/PersistFacts.lean. Two orders matter that the executable comparison does not reach with
// the in-memory storages: the recovering flag is raised only after a successful Load (a storage whose Load
// fails must not silence every later StateChanged), and a restart saves the journal AFTER the old instance
// handled OnTerminate/OnTerminated (events recorded there belong to the saved history).

var pfFuncs = []string{"recoveryPersistence", "Persistence", "internalPersistence", "tryRestarted"}

type pfRunner struct{}

func (pfRunner) Reset() {}
func (pfRunner) Step(t []string) string {
	if len(t) != 2 || t[0] != "text" {
		return "bad-op"
	}
	root := os.Getenv("VERIF_REPO")
	if root == "" {
		root = "/repo"
	}
	s, err := facts.Text(filepath.Join(root, "engine/vivid/actor_context.go"), "actorContext", t[1])
	if err != nil {
		return "err:" + strings.ReplaceAll(err.Error(), " ", "_")
	}
	return stripLogging(s)
}

// stripLogging removes `ctx.system.Logger().X(...)` statements: what is logged is no part of the fact
func stripLogging(s string) string {
	const pat = "ctx.system.Logger()."
	for {
		i := strings.Index(s, pat)
		if i < 0 {
			return strings.Join(strings.Fields(s), " ")
		}
		j := strings.Index(s[i+len(pat):], "(")
		if j < 0 {
			return s
		}
		k, depth := i+len(pat)+j, 0
		for ; k < len(s); k++ {
			if s[k] == '(' {
				depth++
			} else if s[k] == ')' {
				depth--
				if depth == 0 {
					break
				}
			}
		}
		if k >= len(s) {
			return s
		}
		s = s[:i] + s[k+1:]
	}
}

func pfGen(rng *proto.RNG, tier string, shard, nshards int, w *bufio.Writer) {
	if shard != 0 {
		return
	}
	fmt.Fprintln(w, "# case facts")
	for _, f := range pfFuncs {
		fmt.Fprintf(w, "text %s\n", f)
	}
}

func init() {
	proto.Register(&proto.Suite{Name: "persist-facts", Gen: pfGen, New: func() proto.Runner { return pfRunner{} }})
}
