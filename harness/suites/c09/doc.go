// Package c09 holds the harness suites of property C09 (registered from init functions).
package c09
