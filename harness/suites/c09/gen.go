package c09

import (
	"bufio"
	"fmt"
	"os"

	"verifharness/internal/proto"
)

// Generator of suite `persist`.
//
//  1. exhaustive: every history of length L over {ev, fail, recreate, persist} for every threshold 1..4
//     (quick L = 6, thorough L = 8; a history of length L checks all its prefixes, because every step
//     is answered and compared), and over the wider alphabet {ev, fail, recreate, persist, snap, clear}
//     for thresholds 2 and 3 (quick L = 5, thorough L = 6). After every step the stored record is
//     replayed (`replay`), the raw record, StateChanged's return value and the replay log are sampled.
//  2. seeded random long histories: thresholds 0..9 and 1000 (the default), event-heavy, failure-heavy
//     and stop-heavy mixes, bursts (un-acknowledged sends with failures in between), both storages, both
//     supervisors, both ways of naming.
//  3. pairs: two persistent actors with different persistence names under one parent, in the same
//     global MemoryStorage (or two recording storages): every interleaving of length L over
//     {ev, fail, recreate, persist} x {a, b} (quick L = 4, thorough L = 5), both records read after
//     every step; the random cases address a second actor with probability 1/3.
//  4. malformed stream: operations before `spawn`, a second `spawn`, wrong arity, non-numeric arguments.
type emitter struct {
	w       *bufio.Writer
	shard   int
	nshards int
	caseNo  int
	on      bool
}

func (e *emitter) begin(tag string) bool {
	e.on = e.caseNo%e.nshards == e.shard
	if e.on {
		fmt.Fprintf(e.w, "# case %d %s\n", e.caseNo, tag)
	}
	e.caseNo++
	return e.on
}

func (e *emitter) op(format string, a ...any) {
	if e.on {
		fmt.Fprintf(e.w, format+"\n", a...)
	}
}

var alphaCore = []string{"ev", "fail", "recreate", "persist"}
var alphaWide = []string{"ev", "fail", "recreate", "persist", "snap", "clear"}

func storageOf(i int) string {
	if i%2 == 0 {
		return "mem"
	}
	return "rec"
}

func namingOf(i int) string {
	if i%4 < 2 {
		return "name"
	}
	return "addr"
}

func exhaustive(e *emitter, alpha []string, thr, length int, tag string) {
	n := 1
	for i := 0; i < length; i++ {
		n *= len(alpha)
	}
	for code := 0; code < n; code++ {
		if !e.begin(fmt.Sprintf("%s thr=%d", tag, thr)) {
			continue
		}
		e.op("spawn %d %s now %s", thr, storageOf(e.caseNo), namingOf(e.caseNo))
		c := code
		v := 1
		for i := 0; i < length; i++ {
			o := alpha[c%len(alpha)]
			c /= len(alpha)
			if o == "ev" {
				e.op("ev %d", v)
				v++
				if (code+i)%3 == 0 {
					e.op("count")
				}
			} else {
				e.op(o)
				if o == "fail" || o == "recreate" {
					if (code+i)%2 == 0 {
						e.op("rlog")
					}
				}
			}
			e.op("replay")
			if (code+i)%2 == 1 {
				e.op("stored")
			}
		}
		e.op("saves")
		e.op("stored")
		e.op("get")
	}
}

func pairs(e *emitter, length int) {
	alpha := []string{"ev", "fail", "recreate", "persist", "@b ev", "@b fail", "@b recreate", "@b persist"}
	n := 1
	for i := 0; i < length; i++ {
		n *= len(alpha)
	}
	for code := 0; code < n; code++ {
		if !e.begin("pair") {
			continue
		}
		sto := "mem"
		if code%5 == 4 {
			sto = "rec"
		}
		e.op("spawn %d %s now %s", 2+code%2, sto, namingOf(code))
		e.op("@b spawn %d %s now %s", 2+(code/2)%2, sto, namingOf(code+2))
		c := code
		va, vb := 1, 101
		for i := 0; i < length; i++ {
			o := alpha[c%len(alpha)]
			c /= len(alpha)
			switch o {
			case "ev":
				e.op("ev %d", va)
				va++
			case "@b ev":
				e.op("@b ev %d", vb)
				vb++
			default:
				e.op(o)
			}
			e.op("stored")
			e.op("@b stored")
		}
		e.op("replay")
		e.op("@b replay")
		e.op("get")
		e.op("@b get")
	}
}

func randomCase(e *emitter, rng *proto.RNG, tier string) {
	thrs := []int{0, 1, 2, 3, 4, 5, 7, 9, 1000}
	thr := thrs[rng.Intn(len(thrs))]
	mix := rng.Intn(4)
	if !e.begin(fmt.Sprintf("random thr=%d mix=%d", thr, mix)) {
		return // every shard has its own stream (the driver seeds it with seed and shard)
	}
	sup := "now"
	if rng.Intn(3) == 0 {
		sup = "backoff"
	}
	sto := storageOf(rng.Intn(2))
	e.op("spawn %d %s %s %s", thr, sto, sup, namingOf(rng.Intn(4)))
	two := rng.Intn(3) == 0
	if two {
		e.op("@b spawn %d %s %s %s", thrs[rng.Intn(len(thrs))], sto, sup, namingOf(rng.Intn(4)))
	}
	n := rng.Range(20, 120)
	v := 1
	pre := ""
	// one case in three: the actor records a marker event while handling OnTerminate (stop and restart)
	if rng.Intn(3) == 0 {
		e.op("farewell %d", 900+rng.Intn(5))
		if two && rng.Bool() {
			e.op("@b farewell %d", 950+rng.Intn(5))
		}
	}
	for i := 0; i < n; i++ {
		if i > 0 && i%37 == 0 && rng.Intn(4) == 0 {
			e.op("farewell %d", []int{0, 990, 991}[rng.Intn(3)])
		}
		if two {
			pre = ""
			if rng.Bool() {
				pre = "@b "
			}
		}
		var k int
		switch mix {
		case 0: // event-heavy
			k = rng.Pick(60, 6, 6, 6, 3, 1, 4, 4, 4, 2, 2, 2)
		case 1: // failure-heavy
			k = rng.Pick(30, 25, 5, 5, 3, 1, 6, 6, 6, 4, 4, 2)
		case 2: // stop-heavy
			k = rng.Pick(30, 5, 25, 5, 3, 1, 6, 6, 6, 4, 4, 2)
		default: // everything
			k = rng.Pick(25, 10, 10, 10, 8, 5, 6, 6, 6, 4, 4, 4)
		}
		x := rng.Next()
		switch k {
		case 0:
			if x%7 == 0 {
				e.op(pre+"ev %d", -int(x>>8%50))
			} else {
				e.op(pre+"ev %d", v)
			}
			v++
		case 1:
			e.op(pre + "fail")
		case 2:
			e.op(pre + "recreate")
		case 3:
			e.op(pre + "persist")
		case 4:
			e.op(pre + "snap")
		case 5:
			e.op(pre + "clear")
		case 6:
			e.op(pre + "replay")
		case 7:
			e.op(pre + "stored")
		case 8:
			e.op(pre + "get")
		case 9:
			e.op(pre + "count")
		case 10:
			e.op(pre + "rlog")
		default:
			nb := int(x>>8%40) + 1
			kb := int(x >> 20 % 9)
			e.op(pre+"burst %d %d %d", nb, kb, v)
			v += nb
		}
	}
	e.op("saves")
	e.op("stored")
	e.op("replay")
	e.op("get")
	if two {
		e.op("@b saves")
		e.op("@b stored")
		e.op("@b replay")
		e.op("@b get")
	}
}

func malformed(e *emitter, rng *proto.RNG) {
	if e.begin("malformed") {
		e.op("ev 1")
		e.op("fail")
		e.op("stored")
		e.op("spawn")
		e.op("spawn x mem now name")
		e.op("spawn 2 disk now name")
		e.op("spawn 2 mem later name")
		e.op("spawn 2 mem now nick")
		e.op("spawn -1 mem now name")
		e.op("spawn 2 mem now name")
		e.op("spawn 3 rec now name")
		e.op("ev")
		e.op("ev x")
		e.op("ev 1 2")
		e.op("fail 1")
		e.op("recreate now")
		e.op("persist 1")
		e.op("burst 1")
		e.op("burst -1 0 0")
		e.op("burst 3 -1 0")
		e.op("burst a b c")
		e.op("frobnicate")
		e.op("@b")
		e.op("@b ev 1")
		e.op("@b frobnicate")
		e.op("@c ev 1")
		e.op("ev %d", 1+rng.Intn(5))
		e.op("get")
	}
}

// farewellCases: an event recorded while handling OnTerminate, for every threshold 0..3, at a restart and
// at a stop, alone and after ordinary events, then the next generation's state, the stored record and a
// further generation
func farewellCases(e *emitter) {
	for thr := 0; thr <= 3; thr++ {
		for _, end := range []string{"fail", "recreate"} {
			for pre := 0; pre <= 2; pre++ {
				if !e.begin(fmt.Sprintf("farewell thr=%d %s pre=%d", thr, end, pre)) {
					continue
				}
				e.op("spawn %d rec now name", thr)
				e.op("farewell 77")
				for i := 1; i <= pre; i++ {
					e.op("ev %d", i)
				}
				e.op(end)
				e.op("get")
				e.op("stored")
				e.op("saves")
				e.op("ev 5")
				e.op(end)
				e.op("get")
				e.op("farewell 0")
				e.op("recreate")
				e.op("get")
				e.op("replay")
			}
		}
	}
}

func genPersist(rng *proto.RNG, tier string, shard, nshards int, w *bufio.Writer) {
	e := &emitter{w: w, shard: shard, nshards: nshards}
	lenCore, lenWide, lenPair, nrand := 7, 5, 4, 600
	if tier == "thorough" {
		lenCore, lenWide, lenPair, nrand = 9, 7, 5, 6000
	}
	if tier == "smoke" {
		lenCore, lenWide, lenPair, nrand = 3, 2, 2, 20
	}
	// C03 re-runs this suite for the launch-before-replay clause only; it asks for one size step less
	// (the full sweep stays C09's).
	if os.Getenv("VERIF_PERSIST_LITE") != "" && tier != "smoke" {
		if tier == "thorough" {
			lenCore, lenWide, lenPair, nrand = 7, 5, 4, 600
		} else {
			lenCore, lenWide, lenPair, nrand = 5, 4, 3, 300
		}
	}
	for thr := 1; thr <= 4; thr++ {
		exhaustive(e, alphaCore, thr, lenCore, "core")
	}
	for thr := 2; thr <= 3; thr++ {
		exhaustive(e, alphaWide, thr, lenWide, "wide")
	}
	pairs(e, lenPair)
	farewellCases(e)
	for i := 0; i < nrand; i++ {
		randomCase(e, rng, tier)
	}
	malformed(e, rng)
}
