package c09

import (
	"fmt"
	"strconv"
	"strings"
	"sync"
	"sync/atomic"
	"time"

	"github.com/kercylan98/minotaur/engine/vivid"
	"github.com/kercylan98/minotaur/engine/vivid/persistence"
	"github.com/kercylan98/minotaur/engine/vivid/supervision"
	"github.com/kercylan98/minotaur/toolkit/log"
	"verifharness/internal/proto"
)

// Suite `persist`: a REAL persistent actor in a real vivid.ActorSystem (silent logger), driven one
// history step at a time; compared line by line with MV.Model.Persistence (oracle suite `persist`)
// and with the abstract specification (oracle suite `persist-spec`).
//
// The actor is the canonical event-sourced actor of property C09: its state is the list of all
// events it has applied (the free fold: loss, duplication and re-ordering are all visible), on
// OnPersistenceSnapshot it calls SaveSnapshot(copy of the full state), on a snapshot message it
// replaces its state, on an event message it applies the event and calls StateChanged.
//
//	spawn <thr> <mem|rec> <now|backoff> <name|addr>
//	                first op of a case: creates the actor with WithPersistenceEventThreshold(thr), the shipped
//	                MemoryStorage (mem) or a recording persistence.Storage (rec), a supervisor that restarts at
//	                once (now) or the shipped OneForOne with 1..2 ms back-off (backoff); persistence name given
//	                explicitly (name) or defaulted to the logical address (addr).     -> `<state> L<launches>`
//	ev <v>          command: StateChangeEventApply(event v) -> handler applies, StateChanged(v); then Reply
//	                -> `<state> msg=<same|changed> snd=<same|changed>` (Message()/Sender() right after StateChanged)
//	fail            the handler panics; the supervisor restarts the actor        -> `<state> L<launches>`
//	recreate        Terminate(ref,false), wait for the parent's OnTerminated, ActorOf again under the same
//	                persistence name                                             -> `<state> L<launches>`
//	persist         the handler calls ctx.Persistence()                          -> ok | err
//	snap            the handler calls ctx.SaveSnapshot(full state)               -> ok
//	clear           the handler calls ctx.ClearPersistence()                     -> ok
//	get             -> `<state>`
//	count           last value returned by StateChanged outside a replay          (spec: -)
//	rlog            values returned by StateChanged during the last launch's replay (spec: -)
//	stored          what the storage holds for the name: `none` | `S:<nil|[..]> E:[..]`  (spec: -)
//	replay          the stored record replayed by the harness (snapshot, then events) -> `<state>`
//	saves           (rec) the Save calls since the last `saves`: `{S:.. E:..} ...` | `-` (mem)   (spec: -)
//	@b <op ...>     the same operations addressed to a second persistent actor (own persistence name, same parent,
//	                same global MemoryStorage map): `@b spawn …`, `@b ev 5`, …
//	burst <n> <k> <v0>  n event commands v0, v0+1, … sent without waiting (Tell), a `fail` after every k-th
//	                (k = 0: none), then one ask                                   -> `<state> L<launches>`
const askTimeout = 20 * time.Second

type evT int     // event message
type snapT []int // snapshot message (a private copy of the full state)

type cmd struct {
	kind string
	v    int
}

type reply struct {
	state    []int
	launches int64
	msgSame  bool
	sndSame  bool
	count    int
	rlog     []int
	err      string
}

type pcmd struct {
	kind string
	slot *runner
}

var caseSeq atomic.Int64

// ---------------------------------------------------------------- recording storage

type recRecord struct {
	snap   persistence.Snapshot
	events []persistence.Event
}

type recStorage struct {
	mu   sync.Mutex
	recs map[string]recRecord
	log  []recRecord
}

func newRecStorage() *recStorage { return &recStorage{recs: map[string]recRecord{}} }

func (s *recStorage) Save(name persistence.Name, snapshot persistence.Snapshot, events []persistence.Event) error {
	s.mu.Lock()
	defer s.mu.Unlock()
	r := recRecord{snap: snapshot, events: append([]persistence.Event(nil), events...)}
	s.recs[name] = r
	s.log = append(s.log, r)
	return nil
}

func (s *recStorage) Load(name persistence.Name) (persistence.Snapshot, []persistence.Event, error) {
	s.mu.Lock()
	defer s.mu.Unlock()
	r, ok := s.recs[name]
	if !ok {
		return nil, nil, persistence.ErrorPersistenceNotHasRecord
	}
	return r.snap, append([]persistence.Event(nil), r.events...), nil
}

func (s *recStorage) Clear(name persistence.Name) error {
	s.mu.Lock()
	defer s.mu.Unlock()
	delete(s.recs, name)
	return nil
}

// ---------------------------------------------------------------- the persistent actor

type kid struct {
	r       *runner
	state   []int
	count   int
	rlog    []int
	inApply bool // an event message handled outside StateChangeEventApply is a replayed one
}

func (k *kid) OnReceive(ctx vivid.ActorContext) {
	switch m := ctx.Message().(type) {
	case *vivid.OnLaunch:
		k.state = nil
		k.r.launches.Add(1)
	case *vivid.OnTerminate:
		// a "logout / flush marker": an event recorded while handling OnTerminate belongs to the history that is
		// saved when the generation ends - at a stop AND at a restart (the old instance's farewell turns come
		// before the save)
		if v := k.r.farewell; v != 0 {
			k.inApply = true
			ctx.StateChangeEventApply(evT(v))
			k.inApply = false
		}
	case *vivid.OnPersistenceSnapshot:
		ctx.SaveSnapshot(snapT(append([]int(nil), k.state...)))
	case snapT:
		k.state = append([]int(nil), m...)
	case evT:
		k.state = append(k.state, int(m))
		m0, s0 := ctx.Message(), ctx.Sender()
		before := len(k.state)
		n := ctx.StateChanged(m)
		if len(k.state) != before {
			panic("state changed under StateChanged")
		}
		if !k.inApply {
			k.rlog = append(k.rlog, n)
		} else {
			k.count = n
		}
		k.r.msgSame = ctx.Message() == m0
		k.r.sndSame = sameRef(ctx.Sender(), s0)
	case *cmd:
		k.command(ctx, m)
	}
}

func sameRef(a, b vivid.ActorRef) bool {
	if a == nil || b == nil {
		return a == b
	}
	return a.Equal(b)
}

func (k *kid) answer(ctx vivid.ActorContext, asker vivid.ActorRef, errs string) {
	rp := &reply{state: append([]int(nil), k.state...), launches: k.r.launches.Load(), msgSame: k.r.msgSame,
		sndSame: k.r.sndSame, count: k.count, rlog: append([]int(nil), k.rlog...), err: errs}
	if sameRef(ctx.Sender(), asker) {
		ctx.Reply(rp) // the real path: Reply after StateChanged
	} else {
		// Sender() no longer names the asker: Reply would go astray (the ask would time out); answer the
		// remembered asker so that the case goes on, the divergence is reported through snd=changed
		rp.sndSame = false
		ctx.Ask(asker, rp)
	}
}

func (k *kid) command(ctx vivid.ActorContext, m *cmd) {
	asker := ctx.Sender()
	switch m.kind {
	case "ev":
		k.r.msgSame, k.r.sndSame = true, true
		k.inApply = true
		ctx.StateChangeEventApply(evT(m.v))
		k.inApply = false
		if ctx.Message() != vivid.Message(m) {
			k.r.msgSame = false
		}
		k.answer(ctx, asker, "")
	case "evq": // burst: no reply
		k.inApply = true
		ctx.StateChangeEventApply(evT(m.v))
		k.inApply = false
	case "fail":
		panic("failure injected by the harness")
	case "persist":
		e := ""
		if err := ctx.Persistence(); err != nil {
			e = "err"
		}
		k.answer(ctx, asker, e)
	case "snap":
		ctx.SaveSnapshot(snapT(append([]int(nil), k.state...)))
		k.answer(ctx, asker, "")
	case "clear":
		ctx.ClearPersistence()
		k.answer(ctx, asker, "")
	case "get":
		k.answer(ctx, asker, "")
	}
}

// ---------------------------------------------------------------- runner

type runner struct {
	farewell int // op `farewell v`: the actor records event v while handling OnTerminate (0 = nothing)
	sys      *vivid.ActorSystem
	parent   vivid.ActorRef
	termCh   chan struct{}
	host     *suiteRunner

	spawned   bool
	thr       int
	storage   string
	sup       string
	byAddr    bool
	pname     string // persistence name
	aname     string // actor name
	rec       *recStorage
	child     vivid.ActorRef
	stopping  vivid.ActorRef // the child being stopped (read by the parent actor)
	launches  atomic.Int64
	msgSame   bool
	sndSame   bool
	last      *reply
	savesSeen int
}

// suiteRunner owns the actor system and the parent actor (one of each per process: creating and
// terminating top-level actors from outside races with the guard's own turns); every case gets
// fresh slots. A `runner` is one slot: one persistent actor with its own persistence name. Slot `a` is
// addressed by plain operation lines, slot `b` by lines prefixed with `@b`; both live under the same
// parent and (storage `mem`) in the same global MemoryStorage map.
type suiteRunner struct {
	mu     sync.Mutex
	slots  map[string]*runner
	sys    *vivid.ActorSystem
	parent vivid.ActorRef
}

func (s *suiteRunner) Reset() {
	s.mu.Lock()
	old := make([]*runner, 0, len(s.slots))
	for _, r := range s.slots {
		old = append(old, r)
	}
	s.mu.Unlock()
	for _, r := range old { // the parent still finds the slots while their actors are being stopped
		r.cleanup()
	}
	s.mu.Lock()
	s.slots = map[string]*runner{}
	s.mu.Unlock()
}

func (s *suiteRunner) slot(id string) *runner {
	s.mu.Lock()
	defer s.mu.Unlock()
	if s.slots == nil {
		s.slots = map[string]*runner{}
	}
	r := s.slots[id]
	if r == nil {
		r = &runner{termCh: make(chan struct{}, 8), host: s}
		s.slots[id] = r
	}
	r.sys, r.parent = s.sys, s.parent
	return r
}

func (s *suiteRunner) Step(t []string) string {
	if t[0] == "@b" {
		if len(t) < 2 {
			return "bad-op"
		}
		return s.slot("b").Step(t[1:])
	}
	return s.slot("a").Step(t)
}

func (r *runner) cleanup() {
	if r.child != nil {
		r.stopChild()
	}
	if r.pname != "" {
		_ = persistence.NewMemoryStorage().Clear(r.pname)
	}
}

func (r *runner) boot() {
	if r.sys != nil {
		return
	}
	logger := log.NewSilentLogger()
	r.sys = vivid.NewActorSystem(vivid.FunctionalActorSystemConfigurator(func(config *vivid.ActorSystemConfiguration) {
		config.WithLoggerProvider(log.FunctionalLoggerProvider(func() *log.Logger { return logger }))
	}))
	host := r.host
	host.sys = r.sys
	// the parent: creates the persistent child in its own turn, supervises it, hears its OnTerminated
	r.parent = r.sys.ActorOfF(func() vivid.Actor {
		return vivid.FunctionalActor(func(ctx vivid.ActorContext) {
			switch m := ctx.Message().(type) {
			case *pcmd:
				switch m.kind {
				case "spawn":
					ctx.Reply(m.slot.spawnChild(ctx))
				case "stop":
					ctx.Terminate(m.slot.stopping, false)
					ctx.Reply("ok")
				}
			case *vivid.OnTerminated:
				host.mu.Lock()
				for _, r := range host.slots {
					if st := r.stopping; st != nil && m.TerminatedActor.Equal(st) {
						select {
						case r.termCh <- struct{}{}:
						default:
						}
					}
				}
				host.mu.Unlock()
			}
		})
	})
	host.parent = r.parent
}

func (r *runner) spawnChild(ctx vivid.ActorContext) vivid.ActorRef {
	return ctx.ActorOfF(func() vivid.Actor { return &kid{r: r} }, func(d *vivid.ActorDescriptor) {
		d.WithName(r.aname)
		if !r.byAddr {
			d.WithPersistenceName(r.pname)
		}
		d.WithPersistenceEventThreshold(r.thr)
		if r.storage == "rec" {
			d.WithPersistenceStorageProvider(persistence.FunctionalStorageProvider(func() persistence.Storage { return r.rec }))
		}
		d.WithSupervisionStrategyProvider(supervision.FunctionalStrategyProvider(func() supervision.Strategy {
			if r.sup == "backoff" {
				return supervision.OneForOne(-1, time.Millisecond, 2*time.Millisecond, supervision.FunctionalDecide(func(record *supervision.AccidentRecord) supervision.Directive {
					return supervision.DirectiveRestart
				}))
			}
			return supervision.FunctionalStrategy(func(record *supervision.AccidentRecord) {
				record.Supervisor.Restart(record.Victim)
			})
		}))
	})
}

func (r *runner) askParent(kind string) (any, bool) {
	v, err := r.sys.FutureAsk(r.parent, &pcmd{kind: kind, slot: r}, askTimeout).Result()
	return v, err == nil
}

func (r *runner) ask(c *cmd) (*reply, bool) {
	v, err := r.sys.FutureAsk(r.child, c, askTimeout).Result()
	if err != nil {
		return nil, false
	}
	rp, ok := v.(*reply)
	if ok {
		r.last = rp
	}
	return rp, ok
}

func (r *runner) stopChild() bool {
	for len(r.termCh) > 0 {
		<-r.termCh
	}
	r.host.mu.Lock()
	r.stopping = r.child
	r.host.mu.Unlock()
	if _, ok := r.askParent("stop"); !ok {
		return false
	}
	select {
	case <-r.termCh:
	case <-time.After(askTimeout):
		return false
	}
	// the registry entry is removed before the parent is notified
	deadline := time.Now().Add(askTimeout)
	for vivid.VerifIsRegistered(r.sys, r.child) && time.Now().Before(deadline) {
		time.Sleep(50 * time.Microsecond)
	}
	r.child = nil
	return true
}

func (r *runner) launchChild() string {
	v, ok := r.askParent("spawn")
	if !ok {
		return "timeout"
	}
	r.child = v.(vivid.ActorRef)
	if r.byAddr { // default persistence name: the logical address
		r.pname = r.child.GetLogicalAddress()
	}
	return r.stateL()
}

func (r *runner) stateL() string {
	rp, ok := r.ask(&cmd{kind: "get"})
	if !ok {
		return "timeout"
	}
	return fmt.Sprintf("%s L%d", proto.FmtInts(rp.state), rp.launches)
}

func fmtSnap(s persistence.Snapshot) string {
	if s == nil {
		return "nil"
	}
	if v, ok := s.(snapT); ok {
		return proto.FmtInts([]int(v))
	}
	return fmt.Sprintf("?%T", s)
}

func fmtEvents(es []persistence.Event) string {
	out := make([]int, 0, len(es))
	for _, e := range es {
		v, ok := e.(evT)
		if !ok {
			return fmt.Sprintf("?%T", e)
		}
		out = append(out, int(v))
	}
	return proto.FmtInts(out)
}

func (r *runner) load() (persistence.Snapshot, []persistence.Event, error) {
	if r.storage == "rec" {
		return r.rec.Load(r.pname)
	}
	return persistence.NewMemoryStorage().Load(r.pname)
}

func (r *runner) Step(t []string) string {
	if t[0] == "spawn" {
		if r.spawned {
			return "err:spawned"
		}
		if len(t) != 5 {
			return "bad-op"
		}
		thr, ok := proto.Atoi(t[1])
		if !ok || thr < 0 || (t[2] != "mem" && t[2] != "rec") || (t[3] != "now" && t[3] != "backoff") || (t[4] != "name" && t[4] != "addr") {
			return "bad-op"
		}
		r.thr, r.storage, r.sup, r.byAddr = thr, t[2], t[3], t[4] == "addr"
		r.boot()
		n := caseSeq.Add(1)
		r.aname = "kid" + strconv.FormatInt(n, 10)
		r.pname = ""
		if !r.byAddr {
			r.pname = "c09-" + strconv.FormatInt(n, 10)
			_ = persistence.NewMemoryStorage().Clear(r.pname)
		}
		r.rec = newRecStorage()
		r.spawned = true
		return r.launchChild()
	}
	switch t[0] {
	case "ev", "fail", "recreate", "persist", "snap", "clear", "get", "count", "rlog", "stored", "replay", "saves", "burst", "farewell":
	default:
		return "bad-op"
	}
	if !r.spawned {
		return "err:nospawn"
	}
	if r.child == nil {
		return "err:dead"
	}
	switch t[0] {
	case "farewell":
		if len(t) != 2 {
			return "bad-op"
		}
		v, ok := proto.Atoi(t[1])
		if !ok {
			return "bad-op"
		}
		r.farewell = v
		return "ok"
	case "ev":
		if len(t) != 2 {
			return "bad-op"
		}
		v, ok := proto.Atoi(t[1])
		if !ok {
			return "bad-op"
		}
		rp, ok := r.ask(&cmd{kind: "ev", v: v})
		if !ok {
			return "timeout"
		}
		return fmt.Sprintf("%s msg=%s snd=%s", proto.FmtInts(rp.state), sameStr(rp.msgSame), sameStr(rp.sndSame))
	case "fail":
		if len(t) != 1 {
			return "bad-op"
		}
		r.sys.Tell(r.child, &cmd{kind: "fail"})
		return r.stateL()
	case "recreate":
		if len(t) != 1 {
			return "bad-op"
		}
		if !r.stopChild() {
			return "timeout"
		}
		return r.launchChild()
	case "persist", "snap", "clear":
		if len(t) != 1 {
			return "bad-op"
		}
		rp, ok := r.ask(&cmd{kind: t[0]})
		if !ok {
			return "timeout"
		}
		if rp.err != "" {
			return rp.err
		}
		return "ok"
	case "get":
		if len(t) != 1 {
			return "bad-op"
		}
		rp, ok := r.ask(&cmd{kind: "get"})
		if !ok {
			return "timeout"
		}
		return proto.FmtInts(rp.state)
	case "count", "rlog":
		if len(t) != 1 {
			return "bad-op"
		}
		rp, ok := r.ask(&cmd{kind: "get"})
		if !ok {
			return "timeout"
		}
		if t[0] == "count" {
			return strconv.Itoa(rp.count)
		}
		return proto.FmtInts(rp.rlog)
	case "stored", "replay":
		if len(t) != 1 {
			return "bad-op"
		}
		// a round trip first: the actor is idle, everything it did is visible
		if _, ok := r.ask(&cmd{kind: "get"}); !ok {
			return "timeout"
		}
		snap, events, err := r.load()
		if t[0] == "stored" {
			if err != nil {
				return "none"
			}
			return "S:" + fmtSnap(snap) + " E:" + fmtEvents(events)
		}
		var st []int
		if err == nil {
			if s, ok := snap.(snapT); ok {
				st = append(st, s...)
			} else if snap != nil {
				return fmt.Sprintf("?%T", snap)
			}
			for _, e := range events {
				v, ok := e.(evT)
				if !ok {
					return fmt.Sprintf("?%T", e)
				}
				st = append(st, int(v))
			}
		}
		return proto.FmtInts(st)
	case "saves":
		if len(t) != 1 {
			return "bad-op"
		}
		if _, ok := r.ask(&cmd{kind: "get"}); !ok {
			return "timeout"
		}
		if r.storage != "rec" {
			return "-"
		}
		r.rec.mu.Lock()
		defer r.rec.mu.Unlock()
		var sb []string
		for _, s := range r.rec.log[r.savesSeen:] {
			sb = append(sb, "{S:"+fmtSnap(s.snap)+" E:"+fmtEvents(s.events)+"}")
		}
		r.savesSeen = len(r.rec.log)
		if len(sb) == 0 {
			return "{}"
		}
		return strings.Join(sb, " ")
	case "burst":
		if len(t) != 4 {
			return "bad-op"
		}
		n, ok1 := proto.Atoi(t[1])
		k, ok2 := proto.Atoi(t[2])
		v0, ok3 := proto.Atoi(t[3])
		if !ok1 || !ok2 || !ok3 || n < 0 || n > 5000 || k < 0 {
			return "bad-op"
		}
		for i := 0; i < n; i++ {
			r.sys.Tell(r.child, &cmd{kind: "evq", v: v0 + i})
			if k > 0 && (i+1)%k == 0 {
				r.sys.Tell(r.child, &cmd{kind: "fail"})
			}
		}
		return r.stateL()
	}
	return "bad-op"
}

func sameStr(b bool) string {
	if b {
		return "same"
	}
	return "changed"
}

func init() {
	proto.Register(&proto.Suite{Name: "persist", Gen: genPersist, New: func() proto.Runner { return &suiteRunner{} }})
}
