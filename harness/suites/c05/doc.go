// Package c05 holds the harness suites of property C05 (registered from init functions).
package c05
