package c05

import "verifharness/suites/asys"

func init() { asys.Register() }
