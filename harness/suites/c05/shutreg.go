package c05

// Suite `shutdown-registry` (end to end, judged): "Shutdown returns only after every actor has
// terminated, and afterwards no actor or temporary reply address remains registered" on a real
// vivid system with a tree of actors and future-based asks of every outcome (answered, timed out
// against a silent actor, timed out against a dead address, still outstanding when Shutdown starts).
//
//	tree <depth> <fanout>                 build the system: every actor spawns <fanout> children down to <depth>
//	asks <n> <echo|silent|dead> <timeout_us> <sys|ctx>   n asks, each awaited            -> "done=<n> ok=<k> timeout=<j>"
//	pending <n> <timeout_ms>              n asks to the silent actor, NOT awaited (outstanding at shutdown) -> "ok"
//	shutdown <g|n>                        Shutdown(gracefully) with a watchdog             -> "returned alive=<k>" | "hang"
//	registry                              waits until outstanding asks have completed (their timeout + margin),
//	                                      then lists what is still registered             -> "[addr ...]"
//
// `alive` is the number of actors whose OnTerminated had not been handled when Shutdown returned.

import (
	"bufio"
	"fmt"
	"sort"
	"strings"
	"sync"
	"sync/atomic"
	"time"

	"github.com/kercylan98/minotaur/engine/vivid"
	"github.com/kercylan98/minotaur/toolkit/log"
	"verifharness/internal/proto"
)

type srPing struct{}
type srMute struct{}
type srGo struct{ run func(ctx vivid.ActorContext) }

type shutregRunner struct {
	sys        *vivid.ActorSystem
	launched   atomic.Int64
	terminated atomic.Int64
	nodes      []vivid.ActorRef
	mu         sync.Mutex
	silent     vivid.ActorRef
	echo       vivid.ActorRef
	dead       vivid.ActorRef
	pendingEnd time.Time
	pend       []func() (any, error)
	down       bool
}

func (r *shutregRunner) Reset() {
	if r.sys != nil && !r.down {
		done := make(chan struct{})
		go func() { defer func() { recover() }(); r.sys.Shutdown(false); close(done) }()
		select {
		case <-done:
		case <-time.After(3 * time.Second):
		}
	}
	*r = shutregRunner{}
}

func (r *shutregRunner) node(depth, fanout int) vivid.Actor {
	return vivid.FunctionalActor(func(ctx vivid.ActorContext) {
		switch m := ctx.Message().(type) {
		case *vivid.OnLaunch:
			r.launched.Add(1)
			if depth > 0 {
				for i := 0; i < fanout; i++ {
					ref := ctx.ActorOfF(func() vivid.Actor { return r.node(depth-1, fanout) })
					r.mu.Lock()
					r.nodes = append(r.nodes, ref)
					r.mu.Unlock()
				}
			}
		case *vivid.OnTerminated:
			if m.TerminatedActor.Equal(ctx.Ref()) {
				r.terminated.Add(1)
			}
		case *srPing:
			ctx.Reply(&srPing{})
		case *srGo:
			m.run(ctx)
		}
	})
}

func (r *shutregRunner) Step(t []string) string {
	switch {
	case t[0] == "tree" && len(t) == 3:
		depth, ok1 := proto.Atoi(t[1])
		fanout, ok2 := proto.Atoi(t[2])
		if !ok1 || !ok2 || depth < 0 || depth > 4 || fanout < 1 || fanout > 3 || r.sys != nil {
			return "bad-op"
		}
		logger := log.NewSilentLogger()
		r.sys = vivid.NewActorSystem(vivid.FunctionalActorSystemConfigurator(func(config *vivid.ActorSystemConfiguration) {
			config.WithLoggerProvider(log.FunctionalLoggerProvider(func() *log.Logger { return logger }))
		}))
		root := r.sys.ActorOfF(func() vivid.Actor { return r.node(depth, fanout) })
		r.mu.Lock()
		r.nodes = append(r.nodes, root)
		r.mu.Unlock()
		r.echo = root
		r.silent = r.sys.ActorOfF(func() vivid.Actor {
			return vivid.FunctionalActor(func(ctx vivid.ActorContext) {
				switch m := ctx.Message().(type) {
				case *vivid.OnLaunch:
					r.launched.Add(1)
				case *vivid.OnTerminated:
					if m.TerminatedActor.Equal(ctx.Ref()) {
						r.terminated.Add(1)
					}
				}
			})
		})
		// an actor that is already gone: asks to it time out (the request is a dead letter)
		r.dead = r.sys.ActorOfF(func() vivid.Actor {
			return vivid.FunctionalActor(func(ctx vivid.ActorContext) {
				switch m := ctx.Message().(type) {
				case *vivid.OnLaunch:
					r.launched.Add(1)
				case *vivid.OnTerminated:
					if m.TerminatedActor.Equal(ctx.Ref()) {
						r.terminated.Add(1)
					}
				}
			})
		})
		want := int64(2)
		n := int64(1)
		for d, layer := 0, int64(1); d < depth; d++ {
			layer *= int64(fanout)
			n += layer
		}
		want += n
		deadline := time.Now().Add(5 * time.Second)
		for r.launched.Load() < want && time.Now().Before(deadline) {
			time.Sleep(time.Millisecond)
		}
		r.sys.Terminate(r.dead, false)
		for r.terminated.Load() < 1 && time.Now().Before(deadline) {
			time.Sleep(time.Millisecond)
		}
		return fmt.Sprintf("launched=%d", r.launched.Load())
	case t[0] == "asks" && len(t) == 5 && r.sys != nil && !r.down:
		n, ok1 := proto.Atoi(t[1])
		tus, ok2 := proto.Atoi(t[3])
		if !ok1 || !ok2 || n < 1 || n > 64 || tus < 1 {
			return "bad-op"
		}
		var target vivid.ActorRef
		switch t[2] {
		case "echo":
			target = r.echo
		case "silent":
			target = r.silent
		case "dead":
			target = r.dead
		default:
			return "bad-op"
		}
		timeout := time.Duration(tus) * time.Microsecond
		var okN, toN, done atomic.Int64
		one := func(get func() (any, error)) {
			ch := make(chan error, 1)
			go func() {
				defer func() {
					if recover() != nil {
						ch <- fmt.Errorf("panic")
					}
				}()
				_, err := get()
				ch <- err
			}()
			select {
			case err := <-ch:
				done.Add(1)
				if err == nil {
					okN.Add(1)
				} else {
					toN.Add(1)
				}
			case <-time.After(timeout + 20*time.Second):
			}
		}
		var wg sync.WaitGroup
		for i := 0; i < n; i++ {
			wg.Add(1)
			switch t[4] {
			case "sys":
				go func() {
					defer wg.Done()
					f := r.sys.FutureAsk(target, &srPing{}, timeout)
					one(func() (any, error) { return f.Result() })
				}()
			case "ctx":
				r.mu.Lock()
				via := r.nodes[i%len(r.nodes)]
				r.mu.Unlock()
				var f interface{ Result() (vivid.Message, error) }
				started := make(chan struct{})
				r.sys.Tell(via, &srGo{run: func(ctx vivid.ActorContext) {
					f = ctx.FutureAsk(target, &srPing{}, timeout)
					close(started)
				}})
				go func() {
					defer wg.Done()
					select {
					case <-started:
						one(func() (any, error) { return f.Result() })
					case <-time.After(10 * time.Second):
					}
				}()
			default:
				wg.Done()
				return "bad-op"
			}
		}
		wg.Wait()
		return fmt.Sprintf("done=%d ok=%d timeout=%d", done.Load(), okN.Load(), toN.Load())
	case t[0] == "pending" && len(t) == 3 && r.sys != nil && !r.down:
		n, ok1 := proto.Atoi(t[1])
		tms, ok2 := proto.Atoi(t[2])
		if !ok1 || !ok2 || n < 1 || n > 32 || tms < 1 || tms > 2000 {
			return "bad-op"
		}
		timeout := time.Duration(tms) * time.Millisecond
		for i := 0; i < n; i++ {
			f := r.sys.FutureAsk(r.silent, &srPing{}, timeout)
			r.pend = append(r.pend, func() (any, error) { return f.Result() })
		}
		if e := time.Now().Add(timeout); e.After(r.pendingEnd) {
			r.pendingEnd = e
		}
		return "ok"
	case t[0] == "shutdown" && len(t) == 2 && r.sys != nil && !r.down:
		g := t[1] == "g"
		done := make(chan struct{})
		var alive int64
		go func() {
			defer func() { recover(); close(done) }()
			r.sys.Shutdown(g)
			alive = r.launched.Load() - r.terminated.Load()
		}()
		select {
		case <-done:
			r.down = true
			return fmt.Sprintf("returned alive=%d", alive)
		case <-time.After(20 * time.Second):
			r.down = true
			return "hang"
		}
	case t[0] == "registry" && len(t) == 1 && r.sys != nil:
		// outstanding asks complete at their timeout; each completed ask releases its address
		for _, get := range r.pend {
			ch := make(chan struct{})
			go func() { defer func() { recover(); close(ch) }(); _, _ = get() }()
			select {
			case <-ch:
			case <-time.After(time.Until(r.pendingEnd) + 20*time.Second):
			}
		}
		var addrs []string
		deadline := time.Now().Add(5 * time.Second)
		for {
			addrs = addrs[:0]
			for _, a := range vivid.VerifRegistryAddresses(r.sys) {
				addrs = append(addrs, string(a))
			}
			if len(addrs) == 0 || time.Now().After(deadline) {
				break
			}
			time.Sleep(5 * time.Millisecond)
		}
		sort.Strings(addrs)
		if len(addrs) > 6 {
			addrs = append(addrs[:6], fmt.Sprintf("+%d", len(addrs)-6))
		}
		return "[" + strings.Join(addrs, " ") + "]"
	}
	return "bad-op"
}

func shutregGen(rng *proto.RNG, tier string, shard, nshards int, w *bufio.Writer) {
	n := 3
	if tier == "thorough" {
		n = 20
	}
	kinds := []string{"echo", "silent", "dead"}
	for c := 0; c < n; c++ {
		fmt.Fprintf(w, "# case %d.%d\n", shard, c)
		fmt.Fprintf(w, "tree %d %d\n", rng.Range(0, 3), rng.Range(1, 2))
		for k := rng.Range(1, 4); k > 0; k-- {
			kind := kinds[rng.Intn(3)]
			tus := []int{1, 50, 2000, 20000}[rng.Intn(4)]
			if kind == "echo" && rng.Bool() {
				tus = 2000000
			}
			via := "sys"
			if rng.Bool() {
				via = "ctx"
			}
			fmt.Fprintf(w, "asks %d %s %d %s\n", rng.Range(1, 8), kind, tus, via)
		}
		if rng.Intn(3) == 0 {
			fmt.Fprintf(w, "pending %d %d\n", rng.Range(1, 4), []int{5, 60, 300}[rng.Intn(3)])
		}
		g := "n"
		if rng.Bool() {
			g = "g"
		}
		fmt.Fprintf(w, "shutdown %s\n", g)
		fmt.Fprintln(w, "registry")
	}
}

func init() {
	proto.Register(&proto.Suite{Name: "shutdown-registry", Gen: shutregGen, New: func() proto.Runner { return &shutregRunner{} }})
}
