package c12

import (
	"bufio"
	"fmt"
	"os"
	"path/filepath"
	"regexp"
	"strings"

	"verifharness/internal/facts"
	"verifharness/internal/proto"
)

// registry-facts (T-facts): the skeleton of shared-memory operations of Register / Unregister /
// GetProcess (engine/prc/resource_controller.go) and of actorProcess.IsTerminated / Terminate
// (engine/vivid/actor_process.go), regenerated from /repo's source on every run and compared with
// the table the Lean model was transcribed from (MV.Model.RegistryFacts).

func repoRoot() string {
	if r := os.Getenv("VERIF_REPO"); r != "" {
		return r
	}
	return "/repo"
}

var keepRC = regexp.MustCompile(`^(verifhook\.At|[A-Za-z_][A-Za-z0-9_]*(\.[A-Za-z_][A-Za-z0-9_]*)*\.(Load|Store|LoadOrStore|LoadAndDelete|Delete|Compute|Swap|CompareAndSwap|Range|IsTerminated|Terminate|Initialize|Resolve|Belong)\()`)

var factTargets = [][3]string{ // key, file, receiver
	{"rc", "engine/prc/resource_controller.go", "ResourceController"},
	{"ap", "engine/vivid/actor_process.go", "actorProcess"},
}

var factFuncs = map[string][]string{
	"rc": {"Register", "Unregister", "GetProcess"},
	"ap": {"IsTerminated", "Terminate"},
}

type factsRunner struct{}

func (factsRunner) Reset() {}
func (factsRunner) Step(t []string) string {
	if len(t) != 3 || t[0] != "facts" {
		return "bad-op"
	}
	for _, ft := range factTargets {
		if ft[0] == t[1] {
			s, err := facts.Skeleton(filepath.Join(repoRoot(), ft[1]), ft[2], t[2], keepRC)
			if err != nil {
				return "err:" + strings.ReplaceAll(err.Error(), " ", "_")
			}
			if s == "" {
				return "(none)"
			}
			return s
		}
	}
	return "bad-op"
}

func factsGen(rng *proto.RNG, tier string, shard, nshards int, w *bufio.Writer) {
	if shard != 0 {
		return
	}
	fmt.Fprintln(w, "# case facts")
	for _, ft := range factTargets {
		for _, f := range factFuncs[ft[0]] {
			fmt.Fprintf(w, "facts %s %s\n", ft[0], f)
		}
	}
	fmt.Fprintln(w, "# case malformed")
	fmt.Fprintln(w, "facts rc")
	fmt.Fprintln(w, "facts zz Register")
}

func init() {
	proto.Register(&proto.Suite{Name: "registry-facts", Gen: factsGen, New: func() proto.Runner { return factsRunner{} }})
}
