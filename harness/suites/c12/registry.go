package c12

// registry (T-sched): the instrumented prc.ResourceController runs under the controlled scheduler,
// one scheduling quantum (= one shared-memory operation, the one behind a verifhook.At("rc.…")
// line) per `run` line, and the Lean model (MV.Model.Registry) executes the same schedule. Every
// line carries the whole shared state (map, terminated flags, caches of the reference objects); the
// `drain` line carries the recorded call/return history, which the judge checks for linearizability.

import (
	"bufio"
	"fmt"
	"sort"
	"strings"
	"sync/atomic"

	"github.com/kercylan98/minotaur/engine/prc"
	"verifharness/internal/proto"
	"verifharness/internal/sched"
)

// proc mirrors vivid.actorProcess for the purposes of the registry: an atomic terminated flag.
type proc struct {
	id         int // display id, assigned when the registering thread executes LoadOrStore (0 = none yet)
	sub        bool
	terminated atomic.Bool
	inited     atomic.Bool
}

func (p *proc) Initialize(rc *prc.ResourceController, id *prc.ProcessId) { p.inited.Store(true) }
func (p *proc) DeliveryUserMessage(receiver, sender, forward *prc.ProcessId, message prc.Message) {
}
func (p *proc) DeliverySystemMessage(receiver, sender, forward *prc.ProcessId, message prc.Message) {
}
func (p *proc) IsTerminated() bool              { return p.terminated.Load() }
func (p *proc) Terminate(source *prc.ProcessId) { p.terminated.Store(true) }

func fmtProc(p prc.Process) string {
	if p == nil {
		return "-"
	}
	q, ok := p.(*proc)
	if !ok {
		return "?"
	}
	if q.sub {
		return "sub"
	}
	return fmt.Sprintf("p%d", q.id)
}

type refKey struct{ addr, id int }

type thr struct {
	kind string // reg | unreg | get
	addr int
	p    *proc  // reg: the process object
	res  string // result once finished
	fin  bool
}

// Run is one registry under the controlled scheduler.
type Run struct {
	sc       *sched.Sched
	rc       *prc.ResourceController
	sub      *proc
	nextProc int
	procs    []*proc
	addrs    []int
	refs     map[refKey]*prc.ProcessId
	refKeys  []refKey
	threads  map[int]*thr
	hist     []string
}

func logical(a int) string { return fmt.Sprintf("/a%d", a) }

func NewRun() *Run {
	sc := sched.New()
	sc.Filter = func(site string) bool { return strings.HasPrefix(site, "rc.") }
	r := &Run{sc: sc, sub: &proc{sub: true}, nextProc: 1, refs: map[refKey]*prc.ProcessId{}, threads: map[int]*thr{}}
	r.rc = prc.NewResourceController(prc.FunctionalResourceControllerConfigurator(func(c *prc.ResourceControllerConfiguration) {
		c.WithNotFoundSubstitute(r.sub)
	}))
	return r
}

func (r *Run) Close() { r.sc.Close() }

func (r *Run) addAddr(a int) {
	for _, x := range r.addrs {
		if x == a {
			return
		}
	}
	r.addrs = append(r.addrs, a)
	sort.Ints(r.addrs)
}

func (r *Run) ref(a, id int) *prc.ProcessId {
	k := refKey{a, id}
	if p, ok := r.refs[k]; ok {
		return p
	}
	p := prc.NewProcessId(r.rc.GetPhysicalAddress(), logical(a))
	r.refs[k] = p
	r.refKeys = append(r.refKeys, k)
	sort.Slice(r.refKeys, func(i, j int) bool {
		x, y := r.refKeys[i], r.refKeys[j]
		return x.addr < y.addr || (x.addr == y.addr && x.id < y.id)
	})
	return p
}

func (r *Run) shared() string {
	var m, t, c []string
	for _, a := range r.addrs {
		p, ok := r.rc.VerifLoad(logical(a))
		if !ok {
			p = nil
		}
		m = append(m, fmt.Sprintf("%d:%s", a, fmtProc(p)))
	}
	for _, p := range r.procs {
		if p.terminated.Load() {
			t = append(t, fmt.Sprintf("p%d", p.id))
		}
	}
	for _, k := range r.refKeys {
		c = append(c, fmt.Sprintf("%d.%d:%s", k.addr, k.id, fmtProc(r.refs[k].VerifCache())))
	}
	return fmt.Sprintf("map=[%s] term=[%s] cache=[%s]", strings.Join(m, " "), strings.Join(t, " "), strings.Join(c, " "))
}

// Spawn starts a thread: reg <a> | unreg <a> | get <a> <r>
func (r *Run) Spawn(t []string) string {
	var tid int
	switch {
	case (len(t) == 2 || len(t) == 3) && t[0] == "reg":
		a, ok := proto.Atoi(t[1])
		if !ok || a < 0 {
			return "bad-op"
		}
		r.addAddr(a)
		th := &thr{kind: "reg", addr: a, p: &proc{}}
		id := prc.NewProcessId(r.rc.GetPhysicalAddress(), logical(a))
		if len(t) == 3 {
			// `reg <a> <r>`: register through the reference object <r> that lookups also use (what
			// future.New / ActorOf do: the id handed to Register is the reference they give out)
			ri, ok2 := proto.Atoi(t[2])
			if !ok2 || ri < 0 {
				return "bad-op"
			}
			id = r.ref(a, ri)
		}
		tid = r.sc.NumThreads()
		r.threads[tid] = th
		r.hist = append(r.hist, fmt.Sprintf("c%d:reg:%d", tid, a))
		r.sc.Go(func() {
			_, exist := r.rc.Register(id, th.p)
			switch {
			case exist && th.p.inited.Load():
				th.res = "exist:initialized"
			case exist:
				th.res = "exist"
			case !th.p.inited.Load():
				th.res = fmt.Sprintf("ok:p%d:not-initialized", th.p.id)
			default:
				th.res = fmt.Sprintf("ok:p%d", th.p.id)
			}
			th.fin = true
		})
	case len(t) == 2 && t[0] == "unreg":
		a, ok := proto.Atoi(t[1])
		if !ok || a < 0 {
			return "bad-op"
		}
		r.addAddr(a)
		th := &thr{kind: "unreg", addr: a}
		id := prc.NewProcessId(r.rc.GetPhysicalAddress(), logical(a))
		tid = r.sc.NumThreads()
		r.threads[tid] = th
		r.hist = append(r.hist, fmt.Sprintf("c%d:unreg:%d", tid, a))
		r.sc.Go(func() {
			r.rc.Unregister(nil, id)
			th.res = "unit"
			th.fin = true
		})
	case len(t) == 3 && t[0] == "get":
		a, ok1 := proto.Atoi(t[1])
		ri, ok2 := proto.Atoi(t[2])
		if !ok1 || !ok2 || a < 0 || ri < 0 {
			return "bad-op"
		}
		r.addAddr(a)
		ref := r.ref(a, ri)
		th := &thr{kind: "get", addr: a}
		tid = r.sc.NumThreads()
		r.threads[tid] = th
		r.hist = append(r.hist, fmt.Sprintf("c%d:get:%d", tid, a))
		r.sc.Go(func() {
			th.res = fmtProc(r.rc.GetProcess(ref))
			th.fin = true
		})
	default:
		return "bad-op"
	}
	site, done, _ := r.sc.Site(tid)
	if done {
		// the call returned without reaching a yield point (not possible in the code the model was
		// transcribed from): record the return so that the history stays complete
		th := r.threads[tid]
		ret := "panic"
		if th.fin {
			ret = th.res
			r.hist = append(r.hist, fmt.Sprintf("r%d:%s", tid, th.res))
		}
		return fmt.Sprintf("t%d@done ret=%s", tid, ret)
	}
	return fmt.Sprintf("t%d@%s", tid, site)
}

func (r *Run) Live() []int { return r.sc.Live() }

// RunThread executes one quantum of thread tid.
func (r *Run) RunThread(tid int) string {
	before, _, exists := r.sc.Site(tid)
	if !exists {
		return "skip"
	}
	th := r.threads[tid]
	if before == "rc.reg.los" && th != nil && th.p != nil && th.p.id == 0 {
		// the process object gets its display name when it is handed to LoadOrStore
		th.p.id = r.nextProc
		r.nextProc++
		r.procs = append(r.procs, th.p)
	}
	site, done, _, ok := r.sc.Step(tid)
	if !ok {
		return "skip"
	}
	ret := "-"
	if done {
		site = "done"
		if th != nil && th.fin {
			ret = th.res
			r.hist = append(r.hist, fmt.Sprintf("r%d:%s", tid, th.res))
		} else {
			ret = "panic"
		}
	}
	return fmt.Sprintf("t%d@%s ret=%s %s", tid, site, ret, r.shared())
}

// Drain runs the lowest live thread until nobody is live and prints the history.
func (r *Run) Drain() string {
	for i := 0; i < 3000; i++ {
		l := r.sc.Live()
		if len(l) == 0 {
			break
		}
		r.RunThread(l[0])
	}
	return fmt.Sprintf("hist=[%s] %s", strings.Join(r.hist, " "), r.shared())
}

type runner struct{ r *Run }

func (x *runner) Reset() {
	if x.r != nil {
		x.r.Close()
		x.r = nil
	}
}

func (x *runner) Step(t []string) string {
	if len(t) == 1 && t[0] == "registry" {
		x.Reset()
		x.r = NewRun()
		return "ok"
	}
	if x.r == nil {
		x.r = NewRun()
	}
	switch {
	case t[0] == "spawn":
		return x.r.Spawn(t[1:])
	case t[0] == "run" && len(t) == 2:
		k, ok := proto.Atoi(t[1])
		if !ok {
			return "bad-op"
		}
		return x.r.RunThread(k)
	case t[0] == "getnil" && len(t) == 1:
		return fmtProc(x.r.rc.GetProcess(nil))
	case t[0] == "drain" && len(t) == 1:
		return x.r.Drain()
	}
	return "bad-op"
}

// ---------------------------------------------------------------- generation

// a scenario: a sequential prefix (each operation runs to completion before the next starts: builds
// registrations and warm caches), threads that are all started before any of them runs, and late
// threads that are started the moment a given initial thread has returned (so that their call is
// ordered after that return in the recorded history).
type lateSpawn struct {
	after int // index into spawns
	op    []string
}

type scenario struct {
	setup  [][]string
	spawns [][]string
	late   []lateSpawn
}

func scenarios(tier string) []scenario {
	setups := [][][]string{
		{},
		{{"reg", "0"}},
		{{"reg", "0"}, {"get", "0", "0"}}, // warm shared cache
		{{"reg", "0"}, {"get", "0", "0"}, {"get", "0", "1"}},               // two warm caches
		{{"reg", "0"}, {"get", "0", "0"}, {"unreg", "0"}},                  // stale cache of a removed process
		{{"reg", "0"}, {"get", "0", "0"}, {"unreg", "0"}, {"reg", "0"}},    // address reused, stale cache
		{{"reg", "0"}, {"reg", "1"}, {"get", "0", "0"}, {"get", "1", "0"}}, // two addresses
		{{"reg", "0"}, {"reg", "0", "0"}},                                  // a refused registration through reference 0
	}
	kinds := [][]string{
		{"reg", "0"}, {"unreg", "0"}, {"get", "0", "0"}, {"get", "0", "1"},
		{"reg", "1"}, {"unreg", "1"}, {"get", "1", "0"},
	}
	lateKinds := [][]string{{"get", "0", "0"}, {"get", "0", "1"}, {"reg", "0"}}
	maxThreads, maxWithLate := 3, 2
	if tier == "thorough" {
		maxThreads, maxWithLate = 4, 3
	}
	var out []scenario
	var rec func(start int, cur [][]string)
	for si, su := range setups {
		// the second address only where it adds something: from the empty registry and from the
		// two-address setup
		nk := 4
		if si == 0 || si == len(setups)-1 {
			nk = len(kinds)
		}
		rec = func(start int, cur [][]string) {
			if len(cur) >= 2 {
				touches0 := false
				for _, c := range cur {
					if c[1] == "0" {
						touches0 = true
					}
				}
				if touches0 {
					sp := append([][]string(nil), cur...)
					out = append(out, scenario{setup: su, spawns: sp})
					if len(cur) <= maxWithLate {
						for after := range sp {
							if after > 0 && strings.Join(sp[after], " ") == strings.Join(sp[after-1], " ") {
								continue // symmetric
							}
							for _, lk := range lateKinds {
								out = append(out, scenario{setup: su, spawns: sp, late: []lateSpawn{{after, lk}}})
							}
						}
					}
				}
			}
			if len(cur) == maxThreads {
				return
			}
			for k := start; k < nk; k++ {
				rec(k, append(cur, kinds[k]))
			}
		}
		rec(0, nil)
	}
	return out
}

// replay executes the setup and a schedule prefix on a fresh registry (caller closes it) and
// returns the operation lines that reproduce it.
func replay(sc scenario, prefix []int) (*Run, []string) {
	r := NewRun()
	lines := []string{"registry"}
	for _, s := range sc.setup {
		r.Spawn(s)
		lines = append(lines, "spawn "+strings.Join(s, " "))
		for {
			l := r.Live()
			if len(l) == 0 {
				break
			}
			r.RunThread(l[0])
			lines = append(lines, fmt.Sprintf("run %d", l[0]))
		}
	}
	base := r.sc.NumThreads()
	for _, s := range sc.spawns {
		r.Spawn(s)
		lines = append(lines, "spawn "+strings.Join(s, " "))
	}
	started := make([]bool, len(sc.late))
	for _, t := range prefix {
		r.RunThread(t)
		lines = append(lines, fmt.Sprintf("run %d", t))
		for i, l := range sc.late {
			if !started[i] {
				if _, done, _ := r.sc.Site(base + l.after); done {
					started[i] = true
					r.Spawn(l.op)
					lines = append(lines, "spawn "+strings.Join(l.op, " "))
				}
			}
		}
	}
	return r, lines
}

// dfs enumerates every complete schedule of the scenario with at most bound pre-emptions
// (stateless exploration of the real code), calling emit for each.
func dfs(sc scenario, bound int, limit int, emit func(lines []string)) {
	n := 0
	var rec func(prefix []int, pre int)
	rec = func(prefix []int, pre int) {
		if n >= limit {
			return
		}
		r, lines := replay(sc, prefix)
		live := r.Live()
		r.Close()
		if len(live) == 0 || len(prefix) >= 100 {
			n++
			emit(lines)
			return
		}
		last := -1
		if len(prefix) > 0 {
			last = prefix[len(prefix)-1]
		}
		lastLive := false
		for _, t := range live {
			if t == last {
				lastLive = true
			}
		}
		order := live
		if lastLive {
			order = []int{last}
			for _, t := range live {
				if t != last {
					order = append(order, t)
				}
			}
		}
		for _, t := range order {
			cost := 0
			if lastLive && t != last {
				cost = 1
			}
			if pre+cost > bound {
				continue
			}
			rec(append(prefix, t), pre+cost)
		}
	}
	rec(nil, 0)
}

func gen(rng *proto.RNG, tier string, shard, nshards int, w *bufio.Writer) {
	caseNo := 0
	emit := func(lines []string) {
		fmt.Fprintf(w, "# case %d.%d\n", shard, caseNo)
		for _, l := range lines {
			fmt.Fprintln(w, l)
		}
		caseNo++
	}
	bound, limit := 2, 250
	if tier == "thorough" {
		bound, limit = 3, 300
	}
	// (ii) systematic: pre-emption bounded DFS over the scenario family (scenarios sharded)
	for i, sc := range scenarios(tier) {
		if i%nshards != shard {
			continue
		}
		dfs(sc, bound, limit, func(lines []string) {
			emit(append(append([]string(nil), lines...), "drain"))
		})
	}
	// (iii) random: threads arrive late, 1-3 addresses, shared and private reference objects,
	// uniformly random choice among the live threads; at most 5 threads live at a time and 12
	// operations per case (the judge searches linearisations)
	nRandom := 150
	if tier == "thorough" {
		nRandom = 500
	}
	for c := 0; c < nRandom; c++ {
		r := NewRun()
		lines := []string{"registry"}
		nAddr := rng.Range(1, 3)
		ops := 0
		spawn := func() {
			var s []string
			a := fmt.Sprint(rng.Intn(nAddr))
			switch rng.Pick(3, 3, 5) {
			case 0:
				s = []string{"reg", a}
				if rng.Intn(3) == 0 {
					s = append(s, fmt.Sprint(rng.Intn(2)))
				}
			case 1:
				s = []string{"unreg", a}
			default:
				s = []string{"get", a, fmt.Sprint(rng.Intn(2))}
			}
			r.Spawn(s)
			ops++
			lines = append(lines, "spawn "+strings.Join(s, " "))
		}
		maxOps := rng.Range(3, 12)
		for k := rng.Range(1, 3); k > 0; k-- {
			spawn()
		}
		for k := 0; k < 200; k++ {
			live := r.Live()
			if ops < maxOps && len(live) < 5 && (len(live) == 0 || rng.Intn(4) == 0) {
				spawn()
				continue
			}
			if len(live) == 0 {
				break
			}
			t := live[rng.Intn(len(live))]
			r.RunThread(t)
			lines = append(lines, fmt.Sprintf("run %d", t))
			if rng.Intn(25) == 0 {
				k := rng.Intn(30) // mostly malformed: finished / unknown thread
				r.RunThread(k)
				lines = append(lines, fmt.Sprintf("run %d", k))
			}
			if rng.Intn(40) == 0 {
				lines = append(lines, "getnil")
			}
		}
		r.Close()
		lines = append(lines, "drain")
		emit(lines)
	}
	// malformed stream
	if shard == 0 {
		emit([]string{"registry", "spawn", "spawn reg", "spawn reg x", "spawn get 0", "spawn frob 0", "run", "run x", "run 7", "getnil", "drain"})
	}
}

func init() {
	proto.Register(&proto.Suite{Name: "registry", Gen: gen, New: func() proto.Runner { return &runner{} }})
}
