package c12

// Suite `refreuse` (sequential, compared with a Lean specification): a reference object that is recycled
// for another address - `Reset()` and refill, or `proto.Unmarshal` into it, as a message decoder does with
// pooled messages - must resolve to the CURRENT registrant of its NEW address (or to dead letters), never to
// what it had cached for the old address.
//
//	reg <x>            register a fresh process at /a<x>            -> p<n> | exists
//	unreg <x>          unregister /a<x>                             -> ok
//	reuse <x> <y> <how>  ref := id(/a<x>); GetProcess(ref); recycle ref for /a<y> (how: reset | unmarshal | merge);
//	                   GetProcess(ref)                              -> "<first> <second>" (p<n> or sub)

import (
	"bufio"
	"fmt"

	"github.com/kercylan98/minotaur/engine/prc"
	"google.golang.org/protobuf/proto"
	vproto "verifharness/internal/proto"
)

type reuseRunner struct {
	rc   *prc.ResourceController
	sub  *proc
	next int
}

func (r *reuseRunner) Reset() {
	r.sub = &proc{sub: true}
	r.next = 1
	r.rc = prc.NewResourceController(prc.FunctionalResourceControllerConfigurator(func(c *prc.ResourceControllerConfiguration) {
		c.WithNotFoundSubstitute(r.sub)
	}))
}

func (r *reuseRunner) id(a int) *prc.ProcessId {
	return prc.NewProcessId(r.rc.GetPhysicalAddress(), logical(a))
}

func (r *reuseRunner) Step(t []string) string {
	if r.rc == nil {
		r.Reset()
	}
	num := func(i int) (int, bool) {
		if i >= len(t) {
			return 0, false
		}
		v, ok := vproto.Atoi(t[i])
		return v, ok && v >= 0 && v < 8
	}
	switch {
	case t[0] == "reg" && len(t) == 2:
		a, ok := num(1)
		if !ok {
			return "bad-op"
		}
		p := &proc{id: r.next}
		if _, exist := r.rc.Register(r.id(a), p); exist {
			return "exists"
		}
		r.next++
		return fmtProc(p)
	case t[0] == "unreg" && len(t) == 2:
		a, ok := num(1)
		if !ok {
			return "bad-op"
		}
		r.rc.Unregister(nil, r.id(a))
		return "ok"
	case t[0] == "reuse" && len(t) == 4:
		x, ok1 := num(1)
		y, ok2 := num(2)
		if !ok1 || !ok2 || (t[3] != "reset" && t[3] != "unmarshal" && t[3] != "merge") {
			return "bad-op"
		}
		ref := r.id(x)
		first := fmtProc(r.rc.GetProcess(ref))
		other := r.id(y)
		switch t[3] {
		case "reset":
			ref.Reset()
			ref.LogicalAddress, ref.PhysicalAddress = other.LogicalAddress, other.PhysicalAddress
		case "unmarshal":
			b, err := proto.Marshal(other)
			if err != nil {
				return "err:marshal"
			}
			if err := proto.Unmarshal(b, ref); err != nil { // Unmarshal resets the message first
				return "err:unmarshal"
			}
		case "merge":
			ref.Reset()
			proto.Merge(ref, other)
		}
		return first + " " + fmtProc(r.rc.GetProcess(ref))
	}
	return "bad-op"
}

func reuseGen(rng *vproto.RNG, tier string, shard, nshards int, w *bufio.Writer) {
	n := 40
	if tier == "thorough" {
		n = 400
	}
	hows := []string{"reset", "unmarshal", "merge"}
	for c := 0; c < n; c++ {
		fmt.Fprintf(w, "# case %d.%d\n", shard, c)
		for k := rng.Range(3, 14); k > 0; k-- {
			switch rng.Pick(3, 1, 4) {
			case 0:
				fmt.Fprintf(w, "reg %d\n", rng.Intn(4))
			case 1:
				fmt.Fprintf(w, "unreg %d\n", rng.Intn(4))
			case 2:
				fmt.Fprintf(w, "reuse %d %d %s\n", rng.Intn(4), rng.Intn(4), hows[rng.Intn(3)])
			}
		}
	}
	if shard == 0 {
		fmt.Fprintf(w, "# case malformed\nreg 9\nreuse 1 2 x\nbogus\nreuse 1\n")
	}
}

func init() {
	vproto.Register(&vproto.Suite{Name: "refreuse", Gen: reuseGen, New: func() vproto.Runner { return &reuseRunner{} }})
}
