package c12

// address (T-diff): Derivation / Equal / Clone / URL of prc.ProcessId against MV.Model.Address, exact
// comparison. Strings travel as tokens `s:<characters>`, a nil reference as `nil`.

import (
	"bufio"
	"fmt"
	"strings"

	"github.com/kercylan98/minotaur/engine/prc"
	"verifharness/internal/proto"
)

func parseStr(t string) (string, bool) {
	if !strings.HasPrefix(t, "s:") {
		return "", false
	}
	return t[2:], true
}

func parsePid(t []string) (*prc.ProcessId, []string, bool) {
	if len(t) >= 1 && t[0] == "nil" {
		return nil, t[1:], true
	}
	if len(t) >= 2 {
		p, ok1 := parseStr(t[0])
		l, ok2 := parseStr(t[1])
		if ok1 && ok2 {
			return prc.NewProcessId(p, l), t[2:], true
		}
	}
	return nil, nil, false
}

func fmtPid(p *prc.ProcessId) string {
	return "s:" + p.GetPhysicalAddress() + " s:" + p.GetLogicalAddress()
}

type addrRunner struct{}

func (addrRunner) Reset() {}
func (addrRunner) Step(t []string) string {
	strs := func(ts []string) ([]string, bool) {
		out := make([]string, len(ts))
		for i, x := range ts {
			s, ok := parseStr(x)
			if !ok {
				return nil, false
			}
			out[i] = s
		}
		return out, true
	}
	switch t[0] {
	case "deriv":
		s, ok := strs(t[1:])
		if !ok || len(s) != 3 {
			return "bad-op"
		}
		return fmtPid(prc.NewProcessId(s[0], s[1]).Derivation(s[2]))
	case "deriv2":
		s, ok := strs(t[1:])
		if !ok || len(s) != 4 {
			return "bad-op"
		}
		return fmtPid(prc.NewProcessId(s[0], s[1]).Derivation(s[2]).Derivation(s[3]))
	case "collide", "collidex":
		s, ok := strs(t[1:])
		if !ok || len(s) != 4 {
			return "bad-op"
		}
		parent := prc.NewProcessId(s[0], s[1])
		return fmt.Sprint(parent.Derivation(s[2]).Equal(parent.Derivation(s[3])))
	case "equal":
		a, rest, ok := parsePid(t[1:])
		if !ok {
			return "bad-op"
		}
		b, rest, ok := parsePid(rest)
		if !ok || len(rest) != 0 {
			return "bad-op"
		}
		return fmt.Sprint(a.Equal(b))
	case "clone":
		s, ok := strs(t[1:])
		if !ok || len(s) != 2 {
			return "bad-op"
		}
		return fmtPid(prc.NewProcessId(s[0], s[1]).Clone())
	case "url", "urlstr":
		a, rest, ok := parsePid(t[1:])
		if !ok || len(rest) != 0 {
			return "bad-op"
		}
		u := a.URL()
		if t[0] == "url" {
			return "s:" + u.Scheme + " s:" + u.Host + " s:" + u.Path
		}
		return "s:" + u.String()
	}
	return "bad-op"
}

// all strings over the alphabet up to length n, shortest first
func allStrings(alphabet string, n int) []string {
	out := []string{""}
	prev := []string{""}
	for l := 1; l <= n; l++ {
		var cur []string
		for _, p := range prev {
			for _, c := range alphabet {
				cur = append(cur, p+string(c))
			}
		}
		out = append(out, cur...)
		prev = cur
	}
	return out
}

// slashTwin reports the collision DESIGN noted: under a parent other than "/", the names n and
// "/"+n (n not starting with "/") are normalised to the same suffix.
func slashTwin(ld, n1, n2 string) bool {
	if ld == "/" {
		return false
	}
	return (n2 == "/"+n1 && !strings.HasPrefix(n1, "/")) || (n1 == "/"+n2 && !strings.HasPrefix(n2, "/"))
}

func addrGen(rng *proto.RNG, tier string, shard, nshards int, w *bufio.Writer) {
	caseNo := 0
	var cur []string
	flush := func() {
		if len(cur) == 0 {
			return
		}
		if caseNo%nshards == shard {
			fmt.Fprintf(w, "# case %d\n", caseNo)
			for _, l := range cur {
				fmt.Fprintln(w, l)
			}
		}
		caseNo++
		cur = cur[:0]
	}
	add := func(format string, a ...any) {
		cur = append(cur, fmt.Sprintf(format, a...))
		if len(cur) >= 100 {
			flush()
		}
	}
	const alpha = "a/-0"
	s4 := allStrings(alpha, 4)
	s3 := allStrings(alpha, 3)
	s2 := allStrings(alpha, 2)
	s1 := allStrings(alpha, 1)
	collide := func(p, ld, n1, n2 string) {
		op := "collide"
		if slashTwin(ld, n1, n2) {
			op = "collidex"
		}
		add("%s s:%s s:%s s:%s s:%s", op, p, ld, n1, n2)
	}
	// (ii) exhaustive small sweep
	//   Derivation: every parent address up to length 2 (quick) / 4 (thorough) x every name up to length 4
	parents := s2
	if tier == "thorough" {
		parents = s4
	}
	for _, ld := range parents {
		for _, n := range s4 {
			add("deriv s:a s:%s s:%s", ld, n)
		}
	}
	flush()
	//   injectivity: every pair of names up to length 3 under parents up to length 1 (quick) / 2 (thorough)
	//   and a few longer ones
	cparents := append(append([]string(nil), s1...), "/a", "/a/", "//", "/a/0")
	if tier == "thorough" {
		cparents = append(append([]string(nil), s2...), "/a/", "/a/0", "/-/a")
	}
	for _, ld := range cparents {
		for _, n1 := range s3 {
			for _, n2 := range s3 {
				collide("a", ld, n1, n2)
			}
		}
	}
	flush()
	//   two-step derivation
	for _, ld := range s1 {
		for _, n1 := range s2 {
			for _, n2 := range s2 {
				add("deriv2 s:0 s:%s s:%s s:%s", ld, n1, n2)
			}
		}
	}
	flush()
	//   Equal / Clone / URL: all pairs of references over 3 nodes x addresses up to length 2, plus nil
	nodes := []string{"", "a", "a0"}
	type pid struct {
		nilp bool
		p, l string
	}
	var pids []pid
	pids = append(pids, pid{nilp: true})
	for _, p := range nodes {
		for _, l := range s2 {
			pids = append(pids, pid{false, p, l})
		}
	}
	tok := func(x pid) string {
		if x.nilp {
			return "nil"
		}
		return "s:" + x.p + " s:" + x.l
	}
	for _, a := range pids {
		for _, b := range pids {
			add("equal %s %s", tok(a), tok(b))
		}
	}
	flush()
	for _, a := range pids {
		add("url %s", tok(a))
		add("urlstr %s", tok(a))
		if !a.nilp {
			add("clone %s", tok(a))
		}
	}
	flush()
	// (iii) random strings (printable ASCII without the space; slashes frequent)
	rs := func() string {
		n := rng.Pick(1, 3, 3, 3, 2, 2, 1, 1, 1)
		var sb strings.Builder
		for i := 0; i < n; i++ {
			switch rng.Pick(3, 6, 1) {
			case 0:
				sb.WriteByte('/')
			case 1:
				sb.WriteByte("abcxyz019-_.~"[rng.Intn(13)])
			default:
				sb.WriteByte(byte(33 + rng.Intn(94)))
			}
		}
		return sb.String()
	}
	nRandom := 3000
	if tier == "thorough" {
		nRandom = 60000
	}
	for i := 0; i < nRandom; i++ {
		switch rng.Pick(3, 4, 3, 1, 2, 1) {
		case 0:
			add("deriv s:%s s:%s s:%s", rs(), rs(), rs())
		case 1:
			ld, n1 := rs(), rs()
			n2 := rs()
			switch rng.Intn(4) {
			case 0:
				n2 = n1
			case 1:
				n2 = strings.TrimPrefix(n1, "/") // near miss: differs by the leading slash only
			}
			collide(rs(), ld, n1, n2)
		case 2:
			p, l := rs(), rs()
			p2, l2 := p, l
			if rng.Bool() {
				p2 = rs()
			}
			if rng.Bool() {
				l2 = rs()
			}
			add("equal s:%s s:%s s:%s s:%s", p, l, p2, l2)
		case 3:
			add("clone s:%s s:%s", rs(), rs())
		case 4:
			p, l := rs(), rs()
			add("url s:%s s:%s", p, l)
			add("urlstr s:%s s:%s", p, l)
		default:
			add("deriv2 s:%s s:%s s:%s s:%s", rs(), rs(), rs(), rs())
		}
	}
	flush()
	// malformed stream
	for _, l := range []string{"deriv", "deriv s:a", "deriv a b c", "collide s:a s:b s:c", "equal", "equal nil", "equal s:a", "equal nil nil nil",
		"clone nil", "url", "url s:a", "urlstr x y", "frob s:a", "equal nil nil", "url nil", "urlstr nil"} {
		add("%s", l)
	}
	flush()
}

func init() {
	proto.Register(&proto.Suite{Name: "address", Gen: addrGen, New: func() proto.Runner { return addrRunner{} }})
}
