// Package c12 holds the harness suites of property C12 (registered from init functions).
package c12
