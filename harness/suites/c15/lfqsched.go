package c15

// lfq-sched (T-sched): the instrumented queues.LFQueue (Michael–Scott) runs under the controlled
// scheduler, one atomic operation per `run` line (the quantum from one verifhook.At("lfq.…") site to
// the next), and the Lean model MV.Model.LFQueue executes the SAME schedule with its `step` function
// (one atomic operation per step). Compared on every line: the site the thread is parked at next
// (= the program counter of the model) and what the calls that completed in this quantum returned.
//
//	queue                         fresh queue
//	spawn <op>…                   a thread with the program <op>… (p<v> = Push(v), o = Pop)   -> t<k>@<site>
//	run <k>                       one quantum of thread k                                      -> t<k>@<site> ret=[…]
//	drain                         runs the lowest live thread until nobody is live, then pops until nil
//	                                                                                            -> popped=[t:v …] rest=[…]

import (
	"bufio"
	"fmt"
	"strconv"
	"strings"
	"unsafe"

	"github.com/kercylan98/minotaur/toolkit/queues"
	"verifharness/internal/proto"
	"verifharness/internal/sched"
)

type lfqRun struct {
	sc     *sched.Sched
	q      *queues.LFQueue
	rets   map[int][]string // results of the calls a thread completed since they were last reported
	popped []string
}

func newLfqRun() *lfqRun {
	sc := sched.New()
	sc.Filter = func(site string) bool { return strings.HasPrefix(site, "lfq.") }
	return &lfqRun{sc: sc, q: queues.NewLFQueue(), rets: map[int][]string{}}
}

func (r *lfqRun) close() { r.sc.Close() }

func parseProg(t []string) ([]int64, []bool, bool) {
	var vals []int64
	var isPush []bool
	for _, x := range t {
		switch {
		case x == "o":
			vals = append(vals, 0)
			isPush = append(isPush, false)
		case strings.HasPrefix(x, "p"):
			v, err := strconv.ParseInt(x[1:], 10, 64)
			if err != nil {
				return nil, nil, false
			}
			vals = append(vals, v)
			isPush = append(isPush, true)
		default:
			return nil, nil, false
		}
	}
	return vals, isPush, len(vals) > 0
}

func (r *lfqRun) spawn(t []string) string {
	vals, isPush, ok := parseProg(t)
	if !ok {
		return "bad-op"
	}
	tid := r.sc.NumThreads()
	r.sc.Go(func() {
		for i := range vals {
			if isPush[i] {
				v := vals[i]
				r.q.Push(unsafe.Pointer(&v))
			} else {
				p := r.q.Pop()
				if p == nil {
					r.rets[tid] = append(r.rets[tid], "nil")
				} else {
					v := *(*int64)(p)
					r.rets[tid] = append(r.rets[tid], fmt.Sprint(v))
					r.popped = append(r.popped, fmt.Sprintf("%d:%d", tid, v))
				}
			}
		}
	})
	site, done, _ := r.sc.Site(tid)
	if done {
		site = "done"
	}
	return fmt.Sprintf("t%d@%s", tid, site)
}

func (r *lfqRun) run(tid int) string {
	_, _, exists := r.sc.Site(tid)
	if !exists {
		return "skip"
	}
	site, done, _, ok := r.sc.Step(tid)
	if !ok {
		return "skip"
	}
	if done {
		site = "done"
	}
	ret := r.rets[tid]
	r.rets[tid] = nil
	return fmt.Sprintf("t%d@%s ret=[%s]", tid, site, strings.Join(ret, " "))
}

func (r *lfqRun) drain() string {
	for i := 0; i < 100000; i++ {
		l := r.sc.Live()
		if len(l) == 0 {
			break
		}
		r.run(l[0])
	}
	var rest []string
	for i := 0; i < 100000; i++ {
		p := r.q.Pop() // unmanaged goroutine: passes through the hooks
		if p == nil {
			break
		}
		rest = append(rest, fmt.Sprint(*(*int64)(p)))
	}
	return fmt.Sprintf("popped=[%s] rest=[%s]", strings.Join(r.popped, " "), strings.Join(rest, " "))
}

type lfqSchedRunner struct{ r *lfqRun }

func (x *lfqSchedRunner) Reset() {
	if x.r != nil {
		x.r.close()
		x.r = nil
	}
}

func (x *lfqSchedRunner) Step(t []string) string {
	if t[0] == "queue" && len(t) == 1 {
		x.Reset()
		x.r = newLfqRun()
		return "ok"
	}
	if x.r == nil {
		x.r = newLfqRun()
	}
	switch {
	case t[0] == "spawn" && len(t) >= 2:
		return x.r.spawn(t[1:])
	case t[0] == "run" && len(t) == 2:
		k, ok := proto.Atoi(t[1])
		if !ok {
			return "bad-op"
		}
		return x.r.run(k)
	case t[0] == "drain" && len(t) == 1:
		return x.r.drain()
	}
	return "bad-op"
}

func lfqSchedGen(rng *proto.RNG, tier string, shard, nshards int, w *bufio.Writer) {
	caseNo := 0
	emit := func(lines []string) {
		if caseNo%nshards == shard {
			fmt.Fprintf(w, "# case %d\n", caseNo)
			for _, l := range lines {
				fmt.Fprintln(w, l)
			}
		}
		caseNo++
	}
	next := int64(0)
	genProg := func(maxOps int, pushBias int) string {
		n := rng.Range(1, maxOps)
		var ops []string
		for i := 0; i < n; i++ {
			if rng.Intn(10) < pushBias {
				next++
				ops = append(ops, fmt.Sprintf("p%d", next))
			} else {
				ops = append(ops, "o")
			}
		}
		return strings.Join(ops, " ")
	}
	// (ii) systematic: two threads with one call each, every interleaving (each call is at most 6 atomic
	// operations when undisturbed; schedules are enumerated as bit strings and cut when a thread ends)
	for _, pair := range [][2]string{{"p1", "p2"}, {"p1", "o"}, {"o", "o"}, {"p1 o", "p2"}, {"p1", "p2 o"}} {
		for bits := 0; bits < 1<<10; bits++ {
			lines := []string{"queue", "spawn " + pair[0], "spawn " + pair[1]}
			for k := 0; k < 10; k++ {
				lines = append(lines, fmt.Sprintf("run %d", (bits>>k)&1))
			}
			lines = append(lines, "drain")
			emit(lines)
		}
	}
	// (iii) random: 2-4 threads, programs of 1-4 calls, late arrivals, sticky and uniform schedules
	n := 400
	if tier == "thorough" {
		n = 6000
	}
	for c := 0; c < n; c++ {
		next = 0
		r := newLfqRun()
		lines := []string{"queue"}
		nth := 0
		spawn := func() {
			p := genProg(4, []int{5, 7, 3}[rng.Intn(3)])
			r.spawn(strings.Fields(p))
			lines = append(lines, "spawn "+p)
			nth++
		}
		for k := rng.Range(2, 3); k > 0; k-- {
			spawn()
		}
		sticky := rng.Intn(3)
		last := -1
		for k := 0; k < 300; k++ {
			live := r.sc.Live()
			if len(live) == 0 {
				if nth < 4 && rng.Bool() {
					spawn()
					continue
				}
				break
			}
			if nth < 4 && rng.Intn(25) == 0 {
				spawn()
				continue
			}
			t := live[rng.Intn(len(live))]
			if sticky > 0 && last >= 0 && rng.Intn(sticky+2) != 0 {
				for _, l := range live {
					if l == last {
						t = last
					}
				}
			}
			last = t
			r.run(t)
			lines = append(lines, fmt.Sprintf("run %d", t))
			if rng.Intn(40) == 0 {
				lines = append(lines, fmt.Sprintf("run %d", rng.Range(5, 9))) // unknown thread
			}
		}
		r.close()
		lines = append(lines, "drain")
		emit(lines)
	}
	if shard == 0 {
		fmt.Fprintln(w, "# case malformed\nqueue\nspawn\nspawn x\nspawn p\nrun\nrun a\nbogus")
	}
}

func init() {
	proto.Register(&proto.Suite{Name: "lfq-sched", Gen: lfqSchedGen, New: func() proto.Runner { return &lfqSchedRunner{} }})
}
