package c15

import (
	"bufio"
	"fmt"

	"github.com/kercylan98/minotaur/toolkit/buffer"
	"verifharness/internal/proto"
)

// ring: buffer.Ring[int] against MV.Model.Ring (model) and the list queue (spec).

type ringRunner struct{ b *buffer.Ring[int] }

func (r *ringRunner) Reset() { r.b = buffer.NewRing[int]() }

func (r *ringRunner) Step(t []string) string {
	switch {
	case t[0] == "new" && len(t) == 2:
		k, ok := proto.Atoi(t[1])
		if !ok {
			return "bad-op"
		}
		r.b = buffer.NewRing[int](k)
		return "ok"
	case t[0] == "new" && len(t) == 1:
		r.b = buffer.NewRing[int]()
		return "ok"
	case t[0] == "write" && len(t) == 2:
		v, ok := proto.Atoi(t[1])
		if !ok {
			return "bad-op"
		}
		r.b.Write(v)
		return "ok"
	case t[0] == "read" && len(t) == 1:
		v, err := r.b.Read()
		if err != nil {
			return "empty"
		}
		return fmt.Sprint(v)
	case t[0] == "readmulti" && len(t) == 2:
		n, ok := proto.Atoi(t[1])
		if !ok {
			return "bad-op"
		}
		d, err := r.b.ReadMulti(n)
		if err != nil {
			return "empty"
		}
		if d == nil {
			return "nil"
		}
		return proto.FmtInts(d)
	case t[0] == "readall" && len(t) == 1:
		d := r.b.ReadAll()
		if d == nil {
			return "nil"
		}
		return proto.FmtInts(d)
	case t[0] == "peek" && len(t) == 1:
		v, err := r.b.Peek()
		if err != nil {
			return "empty"
		}
		return fmt.Sprint(v)
	case t[0] == "isempty" && len(t) == 1:
		return fmt.Sprint(r.b.IsEmpty())
	case t[0] == "len" && len(t) == 1:
		return fmt.Sprint(r.b.Len())
	case t[0] == "cap" && len(t) == 1:
		return fmt.Sprint(r.b.Cap())
	case t[0] == "reset" && len(t) == 1:
		r.b.Reset()
		return "ok"
	}
	return "bad-op"
}

// ringOps enumerates the op alphabet used by the exhaustive sweep.
func ringAlphabet(next *int) []func() string {
	w := func() string { *next++; return fmt.Sprintf("write %d", *next) }
	return []func() string{
		w,
		func() string { return "read" },
		func() string { return "readmulti 2" },
		func() string { return "readmulti 3" },
		func() string { return "readall" },
		func() string { return "peek" },
		func() string { return "len" },
		func() string { return "reset" },
	}
}

func ringGen(rng *proto.RNG, tier string, shard, nshards int, w *bufio.Writer) {
	caseNo := 0
	emit := func(lines []string) {
		if caseNo%nshards == shard {
			fmt.Fprintf(w, "# case %d\n", caseNo)
			for _, l := range lines {
				fmt.Fprintln(w, l)
			}
		}
		caseNo++
	}
	// (ii) exhaustive: all op sequences over the alphabet up to maxLen, for capacities 2..maxCap
	maxLen, maxCap := 5, 3
	if tier == "thorough" {
		maxLen, maxCap = 7, 4
	}
	nAlpha := 8
	for capa := 2; capa <= maxCap; capa++ {
		var rec func(prefix []int)
		rec = func(prefix []int) {
			if len(prefix) > 0 {
				next := 0
				alpha := ringAlphabet(&next)
				lines := []string{fmt.Sprintf("new %d", capa)}
				for _, a := range prefix {
					lines = append(lines, alpha[a]())
				}
				// observe the whole remaining content at the end
				lines = append(lines, "len", "isempty", "readall", "isempty")
				if len(prefix) == maxLen {
					emit(lines)
				}
			}
			if len(prefix) == maxLen {
				return
			}
			for a := 0; a < nAlpha; a++ {
				rec(append(prefix, a))
			}
		}
		rec(nil)
	}
	// (iii) random structured sequences: mostly valid, with bulk reads straddling the wrap and growth
	nRandom, maxOps := 300, 120
	if tier == "thorough" {
		nRandom, maxOps = 4000, 600
	}
	for i := 0; i < nRandom; i++ {
		var lines []string
		capChoices := []int{-1, 0, 1, 2, 3, 4, 5, 7, 8, 16, 512, 1024, 1500}
		capa := capChoices[rng.Intn(len(capChoices))]
		if rng.Intn(10) == 0 {
			lines = append(lines, "new")
		} else {
			lines = append(lines, fmt.Sprintf("new %d", capa))
		}
		n := rng.Range(1, maxOps)
		next := 0
		// phase bias: fill-heavy or drain-heavy, switching
		fill := 6
		for j := 0; j < n; j++ {
			if rng.Intn(12) == 0 {
				fill = rng.Range(1, 9)
			}
			switch rng.Pick(fill*3, (10-fill)*2, 4, 1, 1, 1, 1, 1, 1, 1) {
			case 0:
				next++
				lines = append(lines, fmt.Sprintf("write %d", next))
			case 1:
				lines = append(lines, "read")
			case 2:
				lines = append(lines, fmt.Sprintf("readmulti %d", rng.Range(-1, 9)))
			case 3:
				lines = append(lines, "readall")
			case 4:
				lines = append(lines, "peek")
			case 5:
				lines = append(lines, "len")
			case 6:
				lines = append(lines, "isempty")
			case 7:
				lines = append(lines, "cap")
			case 8:
				if rng.Intn(4) == 0 {
					lines = append(lines, "reset")
				} else {
					lines = append(lines, "len")
				}
			case 9:
				// burst of writes to force growth (also beyond 1024 sometimes)
				k := rng.Range(2, 40)
				if rng.Intn(20) == 0 {
					k = rng.Range(1000, 1400)
				}
				for x := 0; x < k; x++ {
					next++
					lines = append(lines, fmt.Sprintf("write %d", next))
				}
			}
		}
		lines = append(lines, "len", "readall", "isempty")
		emit(lines)
	}
}

func init() {
	proto.Register(&proto.Suite{Name: "ring", Gen: ringGen, New: func() proto.Runner { r := &ringRunner{}; r.Reset(); return r }})
}
