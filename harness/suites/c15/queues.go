package c15

import (
	"bufio"
	"fmt"
	"runtime"
	"strconv"
	"strings"
	"sync"
	"sync/atomic"
	"unsafe"

	"github.com/kercylan98/minotaur/toolkit/buffer"
	"github.com/kercylan98/minotaur/toolkit/channels"
	"github.com/kercylan98/minotaur/toolkit/queues"
	"verifharness/internal/proto"
)

// lfq-seq / mpsc-seq: queues.LFQueue and queues.MPSC driven from one goroutine against the
// interleaving models run one call at a time (model) and the list queue (spec).
//
// lfq-conc / mpsc-conc / unbounded-conc / unbounded-backlog-conc: P producers x K values (+ C consumers) on
// the real, un-instrumented queue (for the two backlog buffers: Put by the producers, Get()+Load() by the consumers);
// the recorded per-consumer pop sequences are judged by MV.Spec.ConcQueue.judge.

type cqueue interface {
	push(v int)
	pop() (int, bool)
}

type lfq struct{ q *queues.LFQueue }

func (l lfq) push(v int) { p := new(int); *p = v; l.q.Push(unsafe.Pointer(p)) }
func (l lfq) pop() (int, bool) {
	p := l.q.Pop()
	if p == nil {
		return 0, false
	}
	return *(*int)(p), true
}

type mpsc struct{ q *queues.MPSC }

func (m mpsc) push(v int) { m.q.Push(v) }
func (m mpsc) pop() (int, bool) {
	v := m.q.Pop()
	if v == nil {
		return 0, false
	}
	return v.(int), true
}

// ubq: buffer.Unbounded used the documented way (receive on Get(), then Load()) by concurrent goroutines
type ubq struct{ b ubuf }

func (u ubq) push(v int) { u.b.Put(v) }
func (u ubq) pop() (int, bool) {
	select {
	case v, ok := <-u.b.Get():
		if !ok {
			return 0, false
		}
		u.b.Load()
		return v, true
	default:
		return 0, false
	}
}

type qseqRunner struct {
	mk func() cqueue
	q  cqueue
}

func (r *qseqRunner) Reset() { r.q = r.mk() }

func (r *qseqRunner) Step(t []string) string {
	switch {
	case t[0] == "new" && len(t) == 1:
		r.q = r.mk()
		return "ok"
	case t[0] == "push" && len(t) == 2:
		v, ok := proto.Atoi(t[1])
		if !ok {
			return "bad-op"
		}
		r.q.push(v)
		return "ok"
	case t[0] == "pop" && len(t) == 1:
		v, ok := r.q.pop()
		if !ok {
			return "nil"
		}
		return fmt.Sprint(v)
	case t[0] == "empty" && len(t) == 1:
		if m, ok := r.q.(mpsc); ok {
			return fmt.Sprint(m.q.Empty())
		}
		return "bad-op"
	}
	return "bad-op"
}

func qseqGen(withEmpty bool) func(rng *proto.RNG, tier string, shard, nshards int, w *bufio.Writer) {
	return func(rng *proto.RNG, tier string, shard, nshards int, w *bufio.Writer) {
		caseNo := 0
		emit := func(lines []string) {
			if caseNo%nshards == shard {
				fmt.Fprintf(w, "# case %d\n", caseNo)
				for _, l := range lines {
					fmt.Fprintln(w, l)
				}
			}
			caseNo++
		}
		alpha := []string{"push", "pop"}
		if withEmpty {
			alpha = append(alpha, "empty")
		}
		// exhaustive: all sequences of exactly maxLen calls
		maxLen := 9
		if tier == "thorough" {
			maxLen = 12
		}
		if withEmpty {
			maxLen -= 2
		}
		idx := make([]int, maxLen)
		for {
			next := 0
			lines := make([]string, 0, maxLen+3)
			for _, a := range idx {
				if alpha[a] == "push" {
					next++
					lines = append(lines, fmt.Sprintf("push %d", next))
				} else {
					lines = append(lines, alpha[a])
				}
			}
			lines = append(lines, "pop", "pop", "pop")
			emit(lines)
			k := maxLen - 1
			for k >= 0 {
				idx[k]++
				if idx[k] < len(alpha) {
					break
				}
				idx[k] = 0
				k--
			}
			if k < 0 {
				break
			}
		}
		// random: long fill/drain phases, negative and large values
		nRandom, maxOps := 200, 200
		if tier == "thorough" {
			nRandom, maxOps = 3000, 1500
		}
		for i := 0; i < nRandom; i++ {
			var lines []string
			n := rng.Range(1, maxOps)
			fill := 6
			for j := 0; j < n; j++ {
				if rng.Intn(15) == 0 {
					fill = rng.Range(1, 9)
				}
				ew := 0
				if withEmpty {
					ew = 2
				}
				switch rng.Pick(fill, 10-fill, ew, 1) {
				case 0:
					lines = append(lines, fmt.Sprintf("push %d", rng.Range(-1000, 1000000)))
				case 1:
					lines = append(lines, "pop")
				case 2:
					lines = append(lines, "empty")
				case 3:
					if rng.Intn(10) == 0 {
						lines = append(lines, "new")
					} else {
						lines = append(lines, "pop")
					}
				}
			}
			lines = append(lines, "pop", "pop")
			emit(lines)
		}
		// malformed
		bad := []string{"push", "push x", "push 1 2", "pop 1", "peek", "empty 0", "PUSH 1", "new 2"}
		for i := 0; i < 10; i++ {
			emit([]string{"push 1", bad[rng.Intn(len(bad))], "pop", bad[rng.Intn(len(bad))], "pop"})
		}
	}
}

// ---------------------------------------------------------------- concurrent, judged

const prodBase = 1000000

type qconcRunner struct {
	mk     func() cqueue
	single bool // single consumer only (MPSC)
}

func (r *qconcRunner) Reset() {}

func fmtGroups(groups [][]int, drain []int) string {
	var sb strings.Builder
	for _, g := range groups {
		sb.WriteString("c")
		for _, v := range g {
			sb.WriteByte(' ')
			sb.WriteString(strconv.Itoa(v))
		}
		sb.WriteString(" ; ")
	}
	sb.WriteString("d")
	for _, v := range drain {
		sb.WriteByte(' ')
		sb.WriteString(strconv.Itoa(v))
	}
	return sb.String()
}

// run P K C: P producers push p*prodBase+1..+K each, C consumers pop concurrently until the
// producers have finished and a pop (started after that) found the queue empty; then the calling
// goroutine drains what is left. All goroutines start together.
func (r *qconcRunner) Step(t []string) string {
	if t[0] != "run" || len(t) != 4 {
		return "bad-op"
	}
	P, ok1 := proto.Atoi(t[1])
	K, ok2 := proto.Atoi(t[2])
	C, ok3 := proto.Atoi(t[3])
	if !ok1 || !ok2 || !ok3 || P < 0 || K < 0 || C < 0 || P > 64 || K > 100000 || C > 64 || (r.single && C > 1) {
		return "bad-op"
	}
	if runtime.GOMAXPROCS(0) < 4 {
		runtime.GOMAXPROCS(4)
	}
	q := r.mk()
	var producersDone atomic.Bool
	var pw, cw sync.WaitGroup
	start := make(chan struct{})
	groups := make([][]int, C)
	for p := 0; p < P; p++ {
		pw.Add(1)
		go func(p int) {
			defer pw.Done()
			<-start
			for k := 1; k <= K; k++ {
				q.push(p*prodBase + k)
				if k%16 == 0 {
					runtime.Gosched()
				}
			}
		}(p)
	}
	for c := 0; c < C; c++ {
		cw.Add(1)
		go func(c int) {
			defer cw.Done()
			<-start
			var got []int
			for {
				done := producersDone.Load()
				v, ok := q.pop()
				if ok {
					got = append(got, v)
					continue
				}
				if done {
					break
				}
				runtime.Gosched()
			}
			groups[c] = got
		}(c)
	}
	close(start)
	pw.Wait()
	producersDone.Store(true)
	cw.Wait()
	var drain []int
	for {
		v, ok := q.pop()
		if !ok {
			break
		}
		drain = append(drain, v)
	}
	return fmtGroups(groups, drain)
}

func qconcGen(single bool) func(rng *proto.RNG, tier string, shard, nshards int, w *bufio.Writer) {
	return func(rng *proto.RNG, tier string, shard, nshards int, w *bufio.Writer) {
		nCases, reps := 160, 4
		if tier == "thorough" {
			nCases, reps = 800, 6
		}
		for caseNo := 0; caseNo < nCases; caseNo++ {
			var lines []string
			for i := 0; i < reps; i++ {
				P := rng.Range(1, 4)
				K := []int{1, 2, 3, 10, 50, 200, 1000}[rng.Intn(7)]
				C := rng.Range(0, 3)
				if single && C > 1 {
					C = 1
				}
				lines = append(lines, fmt.Sprintf("run %d %d %d", P, K, C))
			}
			if caseNo%8 == 7 {
				lines = append(lines, "run 0 5 1", "run 2 0 1", "run x 1 1", "run 1 1", "pop")
			}
			if caseNo%nshards == shard {
				fmt.Fprintf(w, "# case %d\n", caseNo)
				for _, l := range lines {
					fmt.Fprintln(w, l)
				}
			}
		}
	}
}

func init() {
	mkL := func() cqueue { return lfq{queues.NewLFQueue()} }
	mkM := func() cqueue { return mpsc{queues.NewMPSC()} }
	proto.Register(&proto.Suite{Name: "lfq-seq", Gen: qseqGen(false), New: func() proto.Runner { r := &qseqRunner{mk: mkL}; r.Reset(); return r }})
	proto.Register(&proto.Suite{Name: "mpsc-seq", Gen: qseqGen(true), New: func() proto.Runner { r := &qseqRunner{mk: mkM}; r.Reset(); return r }})
	proto.Register(&proto.Suite{Name: "lfq-conc", Gen: qconcGen(false), New: func() proto.Runner { return &qconcRunner{mk: mkL} }})
	proto.Register(&proto.Suite{Name: "unbounded-conc", Gen: qconcGen(false), New: func() proto.Runner {
		return &qconcRunner{mk: func() cqueue { return ubq{buffer.NewUnbounded[int]()} }}
	}})
	proto.Register(&proto.Suite{Name: "unbounded-backlog-conc", Gen: qconcGen(false), New: func() proto.Runner {
		return &qconcRunner{mk: func() cqueue { return ubq{channels.NewUnboundedBacklog[int]()} }}
	}})
	proto.Register(&proto.Suite{Name: "mpsc-conc", Gen: qconcGen(true), New: func() proto.Runner { return &qconcRunner{mk: mkM, single: true} }})
}
