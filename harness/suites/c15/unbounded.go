package c15

import (
	"bufio"
	"fmt"

	"github.com/kercylan98/minotaur/toolkit/buffer"
	"github.com/kercylan98/minotaur/toolkit/channels"
	"verifharness/internal/proto"
)

// unbounded / unbounded-backlog: buffer.Unbounded[int] and channels.UnboundedBacklog[int] (the same code
// twice) against MV.Model.Unbounded (model) and the closable list queue (spec), driven from one
// goroutine. `take` is the documented consuming step (receive on Get(), then Load()); `recv` is the
// bare non-blocking receive.

type ubuf interface {
	Put(int)
	Load()
	Get() <-chan int
	Close()
	IsClosed() bool
}

type unboundedRunner struct {
	mk func() ubuf
	b  ubuf
}

func (r *unboundedRunner) Reset() { r.b = r.mk() }

func (r *unboundedRunner) recv(load bool) string {
	select {
	case v, ok := <-r.b.Get():
		if !ok {
			return "closed"
		}
		if load {
			r.b.Load()
		}
		return fmt.Sprint(v)
	default:
		return "empty"
	}
}

func (r *unboundedRunner) Step(t []string) string {
	switch {
	case t[0] == "new" && len(t) == 1:
		r.b = r.mk()
		return "ok"
	case t[0] == "put" && len(t) == 2:
		v, ok := proto.Atoi(t[1])
		if !ok {
			return "bad-op"
		}
		r.b.Put(v)
		return "ok"
	case t[0] == "load" && len(t) == 1:
		r.b.Load()
		return "ok"
	case t[0] == "recv" && len(t) == 1:
		return r.recv(false)
	case t[0] == "take" && len(t) == 1:
		return r.recv(true)
	case t[0] == "close" && len(t) == 1:
		r.b.Close()
		return "ok"
	case t[0] == "isclosed" && len(t) == 1:
		return fmt.Sprint(r.b.IsClosed())
	}
	return "bad-op"
}

func unboundedGen(rng *proto.RNG, tier string, shard, nshards int, w *bufio.Writer) {
	caseNo := 0
	emit := func(lines []string) {
		if caseNo%nshards == shard {
			fmt.Fprintf(w, "# case %d\n", caseNo)
			for _, l := range lines {
				fmt.Fprintln(w, l)
			}
		}
		caseNo++
	}
	// (ii) exhaustive: every sequence of exactly maxLen ops, first over the documented-use alphabet
	// (the spec decides every answer), then including the bare receive (model only after it).
	sweep := func(alpha []string, maxLen int) {
		idx := make([]int, maxLen)
		for {
			next := 0
			lines := make([]string, 0, maxLen+5)
			for _, a := range idx {
				if alpha[a] == "put" {
					next++
					lines = append(lines, fmt.Sprintf("put %d", next))
				} else {
					lines = append(lines, alpha[a])
				}
			}
			lines = append(lines, "isclosed", "take", "take", "take", "take")
			emit(lines)
			k := maxLen - 1
			for k >= 0 {
				idx[k]++
				if idx[k] < len(alpha) {
					break
				}
				idx[k] = 0
				k--
			}
			if k < 0 {
				break
			}
		}
	}
	l1, l2 := 6, 5
	if tier == "thorough" {
		l1, l2 = 8, 7
	}
	sweep([]string{"put", "take", "load", "close", "isclosed"}, l1)
	sweep([]string{"put", "recv", "take", "load", "close"}, l2)
	// (iii) random structured: long fill/drain phases, rare close, with or without bare receives
	nRandom, maxOps := 300, 150
	if tier == "thorough" {
		nRandom, maxOps = 4000, 800
	}
	for i := 0; i < nRandom; i++ {
		var lines []string
		raw := rng.Intn(3) == 0
		n := rng.Range(1, maxOps)
		next := 0
		fill := 6
		closeW := 0
		if rng.Intn(3) == 0 {
			closeW = 1
		}
		for j := 0; j < n; j++ {
			if rng.Intn(12) == 0 {
				fill = rng.Range(1, 9)
			}
			rw := 0
			if raw {
				rw = 3
			}
			switch rng.Pick(fill*3, (10-fill)*3, 3, closeW, 1, rw, 1) {
			case 0:
				next++
				lines = append(lines, fmt.Sprintf("put %d", next))
			case 1:
				lines = append(lines, "take")
			case 2:
				lines = append(lines, "load")
			case 3:
				if rng.Intn(6) == 0 {
					lines = append(lines, "close")
				} else {
					lines = append(lines, "isclosed")
				}
			case 4:
				lines = append(lines, "isclosed")
			case 5:
				lines = append(lines, "recv")
			case 6:
				k := rng.Range(2, 30)
				for x := 0; x < k; x++ {
					next++
					lines = append(lines, fmt.Sprintf("put %d", next))
				}
			}
		}
		k := rng.Range(0, 6)
		for x := 0; x < k; x++ {
			lines = append(lines, "take")
		}
		lines = append(lines, "isclosed")
		emit(lines)
	}
	// (iv) malformed stream: unknown / ill-typed operations must be answered bad-op by every side
	for i := 0; i < 20; i++ {
		bad := []string{"put", "put x", "put 1 2", "take 1", "recv now", "pop", "write 3", "close 1", "load 0", "new 3", "isclosed ?", "PUT 1"}
		lines := []string{"put 1", bad[rng.Intn(len(bad))], "put 2", bad[rng.Intn(len(bad))], "take", "take", "take"}
		emit(lines)
	}
}

func init() {
	proto.Register(&proto.Suite{Name: "unbounded", Gen: unboundedGen, New: func() proto.Runner {
		r := &unboundedRunner{mk: func() ubuf { return buffer.NewUnbounded[int]() }}
		r.Reset()
		return r
	}})
	proto.Register(&proto.Suite{Name: "unbounded-backlog", Gen: unboundedGen, New: func() proto.Runner {
		r := &unboundedRunner{mk: func() ubuf { return channels.NewUnboundedBacklog[int]() }}
		r.Reset()
		return r
	}})
}
