// Package c15 holds the harness suites of property C15 (registered from init functions).
package c15
