package c15

import (
	"bufio"
	"fmt"
	"go/ast"
	"go/parser"
	"go/token"
	"os"
	"path/filepath"
	"strings"

	"verifharness/internal/proto"
)

// queue-facts (T-facts): `facts <file> <Func>` parses the file (see factFiles) of /repo/toolkit with go/ast and prints
// the body of method <Func> in a canonical one-line form: atomic calls renamed (load/cas/swap/store),
// pointer casts, `&` and parentheses dropped, `for {}` -> loop{}, if/else skeleton kept, `:=` -> `=`.
// The Lean models hold the same text as the program they were transcribed from
// (MV.Model.LFQueue.pushProg, ...); any re-ordering, removal or addition of a shared-memory
// operation in the Go code changes the print and breaks the tie.

func repoDir() string {
	if d := os.Getenv("VERIF_REPO"); d != "" {
		return d
	}
	return "/repo"
}

func canonExpr(e ast.Expr) string {
	switch x := e.(type) {
	case *ast.Ident:
		return x.Name
	case *ast.BasicLit:
		return x.Value
	case *ast.ParenExpr:
		return canonExpr(x.X)
	case *ast.StarExpr:
		return canonExpr(x.X)
	case *ast.UnaryExpr:
		if x.Op == token.AND {
			if cl, ok := x.X.(*ast.CompositeLit); ok {
				return canonNew(cl)
			}
			return canonExpr(x.X)
		}
		return x.Op.String() + canonExpr(x.X)
	case *ast.SelectorExpr:
		return canonExpr(x.X) + "." + x.Sel.Name
	case *ast.BinaryExpr:
		return canonExpr(x.X) + x.Op.String() + canonExpr(x.Y)
	case *ast.IndexExpr:
		return canonExpr(x.X)
	case *ast.CompositeLit:
		return canonNew(x)
	case *ast.CallExpr:
		return canonCall(x)
	case *ast.TypeAssertExpr:
		return canonExpr(x.X)
	}
	return fmt.Sprintf("unknown<%T>", e)
}

func canonNew(cl *ast.CompositeLit) string {
	var args []string
	for _, el := range cl.Elts {
		if kv, ok := el.(*ast.KeyValueExpr); ok {
			args = append(args, canonExpr(kv.Value))
		} else {
			args = append(args, canonExpr(el))
		}
	}
	return "new(" + strings.Join(args, ",") + ")"
}

// isCast: a conversion to a pointer type, e.g. (*lfNode)(x), unsafe.Pointer(x), (*unsafe.Pointer)(x)
func isCast(c *ast.CallExpr) bool {
	if len(c.Args) != 1 {
		return false
	}
	f := c.Fun
	for {
		if p, ok := f.(*ast.ParenExpr); ok {
			f = p.X
			continue
		}
		break
	}
	switch x := f.(type) {
	case *ast.StarExpr:
		return true
	case *ast.SelectorExpr:
		if id, ok := x.X.(*ast.Ident); ok && id.Name == "unsafe" && x.Sel.Name == "Pointer" {
			return true
		}
	}
	return false
}

func canonCall(c *ast.CallExpr) string {
	if isCast(c) {
		return canonExpr(c.Args[0])
	}
	name := ""
	if sel, ok := c.Fun.(*ast.SelectorExpr); ok {
		if id, ok := sel.X.(*ast.Ident); ok && id.Name == "atomic" {
			switch sel.Sel.Name {
			case "LoadPointer":
				name = "load"
			case "CompareAndSwapPointer":
				name = "cas"
			case "SwapPointer":
				name = "swap"
			case "StorePointer":
				name = "store"
			default:
				name = "atomic." + sel.Sel.Name
			}
		}
	}
	if name == "" {
		if id, ok := c.Fun.(*ast.Ident); ok && id.Name == "new" && len(c.Args) == 1 {
			return "new(" + canonExpr(c.Args[0]) + ")"
		}
		name = canonExpr(c.Fun)
	}
	var args []string
	for _, a := range c.Args {
		args = append(args, canonExpr(a))
	}
	return name + "(" + strings.Join(args, ",") + ")"
}

// hookSite: the site name of a `verifhook.At("…")` statement ("" for anything else)
func hookSite(s ast.Stmt) string {
	es, ok := s.(*ast.ExprStmt)
	if !ok {
		return ""
	}
	c, ok := es.X.(*ast.CallExpr)
	if !ok || len(c.Args) != 1 {
		return ""
	}
	sel, ok := c.Fun.(*ast.SelectorExpr)
	if !ok || sel.Sel.Name != "At" {
		return ""
	}
	if id, ok := sel.X.(*ast.Ident); !ok || id.Name != "verifhook" {
		return ""
	}
	if l, ok := c.Args[0].(*ast.BasicLit); ok {
		return strings.Trim(l.Value, "\"")
	}
	return "?"
}

// withHooks: print the yield points as `@site` (op `hooked`); otherwise they are dropped — they are
// inert instrumentation, the program text the models were transcribed from does not contain them
var withHooks bool

func canonBlock(b *ast.BlockStmt) string {
	var parts []string
	for _, s := range b.List {
		if site := hookSite(s); site != "" {
			if withHooks {
				parts = append(parts, "@"+site)
			}
			continue
		}
		parts = append(parts, canonStmt(s))
	}
	return strings.Join(parts, "; ")
}

func canonStmt(s ast.Stmt) string {
	switch x := s.(type) {
	case *ast.AssignStmt:
		var l, r []string
		for _, e := range x.Lhs {
			l = append(l, canonExpr(e))
		}
		for _, e := range x.Rhs {
			r = append(r, canonExpr(e))
		}
		return strings.Join(l, ",") + "=" + strings.Join(r, ",")
	case *ast.ExprStmt:
		return canonExpr(x.X)
	case *ast.ReturnStmt:
		var r []string
		for _, e := range x.Results {
			r = append(r, canonExpr(e))
		}
		if len(r) == 0 {
			return "return"
		}
		return "return " + strings.Join(r, ",")
	case *ast.ForStmt:
		if x.Init == nil && x.Cond == nil && x.Post == nil {
			return "loop{ " + canonBlock(x.Body) + " }"
		}
		return "unknown<for>"
	case *ast.IfStmt:
		if x.Init != nil {
			return "unknown<if-init>"
		}
		out := "if(" + canonExpr(x.Cond) + "){ " + canonBlock(x.Body) + " }"
		switch e := x.Else.(type) {
		case nil:
		case *ast.BlockStmt:
			out += " else{ " + canonBlock(e) + " }"
		case *ast.IfStmt:
			out += " else " + canonStmt(e)
		}
		return out
	case *ast.BlockStmt:
		return "{ " + canonBlock(x) + " }"
	case *ast.BranchStmt:
		return strings.ToLower(x.Tok.String())
	case *ast.DeferStmt:
		return "defer " + canonCall(x.Call)
	case *ast.GoStmt:
		if fl, ok := x.Call.Fun.(*ast.FuncLit); ok {
			return "go{ " + canonBlock(fl.Body) + " }"
		}
		return "go " + canonCall(x.Call)
	case *ast.RangeStmt:
		return "range(" + canonExpr(x.X) + "){ " + canonBlock(x.Body) + " }"
	case *ast.SendStmt:
		return "send(" + canonExpr(x.Chan) + "," + canonExpr(x.Value) + ")"
	}
	return fmt.Sprintf("unknown<%T>", s)
}

// factFiles: the files whose shared-memory / lock operation order the Lean models were transcribed from
var factFiles = map[string]string{
	"lock_free.go":      "queues/lock_free.go",
	"mpsc.go":           "queues/mpsc.go",
	"ring_unbounded.go": "buffer/ring_unbounded.go",
}

func canonFunc(file, fn string) string {
	rel, ok := factFiles[file]
	if !ok {
		return "bad-op"
	}
	fset := token.NewFileSet()
	f, err := parser.ParseFile(fset, filepath.Join(repoDir(), "toolkit", filepath.FromSlash(rel)), nil, 0)
	if err != nil {
		return "bad-op"
	}
	for _, d := range f.Decls {
		fd, ok := d.(*ast.FuncDecl)
		if !ok || fd.Recv == nil || fd.Name.Name != fn || fd.Body == nil {
			continue
		}
		return canonBlock(fd.Body)
	}
	return "bad-op"
}

type factsRunner struct{}

func (factsRunner) Reset() {}
func (factsRunner) Step(t []string) string {
	if t[0] == "facts" && len(t) == 3 {
		return canonFunc(t[1], t[2])
	}
	if t[0] == "hooked" && len(t) == 3 {
		// the same text with the yield points of the controlled scheduler printed as `@site`: every atomic
		// operation of the lock-free queue is preceded by exactly one yield point (suite lfq-sched)
		withHooks = true
		defer func() { withHooks = false }()
		return canonFunc(t[1], t[2])
	}
	return "bad-op"
}

func factsGen(rng *proto.RNG, tier string, shard, nshards int, w *bufio.Writer) {
	if shard != 0 {
		return
	}
	fmt.Fprintln(w, "# case 0")
	for _, l := range []string{"facts lock_free.go Push", "facts lock_free.go Pop", "facts mpsc.go Push", "facts mpsc.go Pop", "facts mpsc.go Empty",
		"facts ring_unbounded.go Write", "facts ring_unbounded.go Close", "facts ring_unbounded.go process",
		"hooked lock_free.go Push", "hooked lock_free.go Pop",
		"facts mpsc.go Peek", "facts nofile.go Push", "facts ../queues/mpsc.go Push", "facts", "facts mpsc.go"} {
		fmt.Fprintln(w, l)
	}
}

func init() {
	proto.Register(&proto.Suite{Name: "queue-facts", Gen: factsGen, New: func() proto.Runner { return factsRunner{} }})
}
