package c15

import (
	"bufio"
	"context"
	"fmt"
	"runtime"
	"strconv"
	"strings"
	"sync"
	"sync/atomic"
	"time"

	"github.com/kercylan98/minotaur/toolkit/buffer"
	"github.com/kercylan98/minotaur/toolkit/channels"
	"verifharness/internal/proto"
)

// ring-unbounded / unbounded-ring: buffer.RingUnbounded[int] and channels.UnboundedRing[int] with W
// concurrent writers, one closer (Close or context cancellation, after the writers or racing with
// them) and one reader that reads the output channel until it is closed. The recorded history
// (what was certainly accepted, what came out, whether the output ended) is judged by
// MV.Spec.Pump.judge. Nothing here depends on timing except the last-resort cap after which "the
// output never ended" is reported (pumpCap, far above anything a loaded machine needs; a correct
// pump closes within microseconds of the close/cancel).

const pumpCap = 20 * time.Second

type pumpRunner struct{ kind string }

func (r *pumpRunner) Reset() {}

type pumpObj struct {
	write func(v int) (accepted bool, known bool) // known: the API says whether it was accepted
	close func()
	out   <-chan int
}

func (r *pumpRunner) mk(B int, cancelMode bool) (*pumpObj, bool) {
	switch r.kind {
	case "ring-unbounded":
		if cancelMode {
			return nil, false
		}
		b := buffer.NewRingUnbounded[int](B)
		return &pumpObj{
			write: func(v int) (bool, bool) { b.Write(v); return false, false },
			close: func() { <-b.Close() }, // Close returns the signal that the pump has finished
			out:   b.Read(),
		}, true
	case "unbounded-ring":
		ctx, cancel := context.WithCancel(context.Background())
		u := channels.NewUnboundedRing[int](ctx)
		o := &pumpObj{
			write: func(v int) (bool, bool) { return u.Put(v) == nil, true },
			out:   u.Get(),
		}
		if cancelMode {
			o.close = cancel
		} else {
			o.close = func() { u.Close(); _ = cancel }
		}
		return o, true
	}
	return nil, false
}

// pump W K B mode D
//
//	W writers write w*prodBase+1..+K; B = channel capacity (RingUnbounded only); mode = after (close
//	when all writers have returned) | race (closer runs concurrently, D scheduler yields first) |
//	cancel-after | cancel-race (UnboundedRing: cancel the context instead of Close).
func (r *pumpRunner) Step(t []string) string {
	if t[0] != "pump" || len(t) != 6 {
		return "bad-op"
	}
	W, ok1 := proto.Atoi(t[1])
	K, ok2 := proto.Atoi(t[2])
	B, ok3 := proto.Atoi(t[3])
	mode := t[4]
	D, ok4 := proto.Atoi(t[5])
	if !ok1 || !ok2 || !ok3 || !ok4 || W < 1 || W > 16 || K < 0 || K > 100000 || B < 0 || B > 100000 || D < 0 || D > 100000 {
		return "bad-op"
	}
	cancelMode, race := false, false
	switch mode {
	case "after":
	case "race":
		race = true
	case "cancel-after":
		cancelMode = true
	case "cancel-race":
		cancelMode, race = true, true
	default:
		return "bad-op"
	}
	if runtime.GOMAXPROCS(0) < 4 {
		runtime.GOMAXPROCS(4)
	}
	o, ok := r.mk(B, cancelMode)
	if !ok {
		return "bad-op"
	}
	var closeStarted atomic.Bool
	lo := make([]int, W)
	hi := make([]int, W)
	var ww sync.WaitGroup
	start := make(chan struct{})
	for w := 0; w < W; w++ {
		ww.Add(1)
		go func(w int) {
			defer ww.Done()
			<-start
			for k := 1; k <= K; k++ {
				acc, known := o.write(w*prodBase + k)
				if known {
					if acc {
						// accepted values must form a prefix of the writes; a later acceptance after a
						// rejection shows up as a gap in the judged output
						lo[w]++
						hi[w]++
					}
				} else {
					hi[w] = k
					if !closeStarted.Load() {
						lo[w] = k // this Write returned before Close was called: certainly accepted
					}
				}
				if k%8 == 0 {
					runtime.Gosched()
				}
			}
		}(w)
	}
	var mu sync.Mutex
	var out []int
	readerDone := make(chan struct{})
	go func() {
		for v := range o.out {
			mu.Lock()
			out = append(out, v)
			mu.Unlock()
		}
		close(readerDone)
	}()
	closerDone := make(chan struct{})
	go func() {
		defer close(closerDone)
		<-start
		if race {
			for i := 0; i < D; i++ {
				runtime.Gosched()
			}
		} else {
			ww.Wait()
		}
		closeStarted.Store(true)
		o.close()
	}()
	close(start)
	ww.Wait()
	closed := true
	timer := time.NewTimer(pumpCap)
	defer timer.Stop()
	select {
	case <-closerDone:
	case <-timer.C:
		closed = false
	}
	if closed {
		select {
		case <-readerDone:
		case <-timer.C:
			closed = false
		}
	}
	mu.Lock()
	snapshot := append([]int(nil), out...)
	mu.Unlock()
	var sb strings.Builder
	sb.WriteString("lo")
	for _, v := range lo {
		sb.WriteByte(' ')
		sb.WriteString(strconv.Itoa(v))
	}
	sb.WriteString(" ; hi")
	for _, v := range hi {
		sb.WriteByte(' ')
		sb.WriteString(strconv.Itoa(v))
	}
	sb.WriteString(" ; out")
	for _, v := range snapshot {
		sb.WriteByte(' ')
		sb.WriteString(strconv.Itoa(v))
	}
	fmt.Fprintf(&sb, " ; closed %v", closed)
	return sb.String()
}

func pumpGen(kind string) func(rng *proto.RNG, tier string, shard, nshards int, w *bufio.Writer) {
	return func(rng *proto.RNG, tier string, shard, nshards int, w *bufio.Writer) {
		nCases, reps := 64, 5
		if tier == "thorough" {
			nCases, reps = 600, 8
		}
		modes := []string{"after", "race"}
		if kind == "unbounded-ring" {
			modes = append(modes, "cancel-after", "cancel-race")
		}
		for caseNo := 0; caseNo < nCases; caseNo++ {
			var lines []string
			// one scenario per case, repeated: the interleaving differs from repetition to repetition
			W := rng.Range(1, 3)
			K := []int{0, 1, 1, 2, 3, 10, 40, 1500}[rng.Intn(8)]
			B := []int{0, 1, 2, 16, 1024}[rng.Intn(5)]
			mode := modes[rng.Intn(len(modes))]
			D := []int{0, 1, 2, 5, 20, 100}[rng.Intn(6)]
			for i := 0; i < reps; i++ {
				lines = append(lines, fmt.Sprintf("pump %d %d %d %s %d", W, K, B, mode, D))
			}
			if caseNo%16 == 15 {
				lines = append(lines, "pump 0 1 1 after 0", "pump 1 1 1 later 0", "pump 1 x 1 after 0", "pump 1 1 1 after", "drain")
			}
			if caseNo%nshards == shard {
				fmt.Fprintf(w, "# case %d\n", caseNo)
				for _, l := range lines {
					fmt.Fprintln(w, l)
				}
			}
		}
	}
}

func init() {
	for _, k := range []string{"ring-unbounded", "unbounded-ring"} {
		k := k
		proto.Register(&proto.Suite{Name: k, Gen: pumpGen(k), New: func() proto.Runner { return &pumpRunner{kind: k} }})
	}
}
