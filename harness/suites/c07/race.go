package c07

// Suite `future-race` (judged, un-serialised): the same operations as the `future` suite, but the
// goroutines run free (no controlled scheduler) against one real future per repetition, all released
// by one barrier. This is the search that finds a concrete failing run when an edit keeps the hook
// lines in place but makes an operation non-atomic (the controlled scheduler runs everything between
// two hook lines as one quantum and cannot see that). Every repetition yields one observation in the
// format of the `future` suite's final line; equal observations are counted; the Lean judge runs
// MV.Spec.Future.verdict on each distinct one.
//
//	race <repliers> <errRepliers> <closers> <timer 0|1> <forwarders> <readers> <reps>

import (
	"bufio"
	"fmt"
	"runtime"
	"sort"
	"strings"
	"sync"
	"sync/atomic"
	"time"

	"github.com/kercylan98/minotaur/engine/future"
	"github.com/kercylan98/minotaur/engine/prc"
	"verifharness/internal/proto"
)

type raceRunner struct{}

func (raceRunner) Reset() {}

func (raceRunner) Step(t []string) string {
	if len(t) != 8 || t[0] != "race" {
		return "bad-op"
	}
	var a [7]int
	for i := range a {
		v, ok := proto.Atoi(t[i+1])
		if !ok || v < 0 {
			return "bad-op"
		}
		a[i] = v
	}
	nRep, nErr, nClose, timer, nFwd, nRead, reps := a[0], a[1], a[2], a[3], a[4], a[5], a[6]
	if timer > 1 || nRep+nErr+nClose+timer == 0 || nRep+nErr+nClose+nFwd+nRead > 64 || nFwd > 4 || reps < 1 || reps > 1000000 {
		return "bad-op"
	}
	var mu sync.Mutex
	dead := 0
	fwdLogs := map[*prc.ProcessId][]string{}
	rc := prc.NewResourceController(prc.FunctionalResourceControllerConfigurator(func(c *prc.ResourceControllerConfiguration) {
		c.WithPhysicalAddress(phys)
		c.WithNotFoundSubstitute(&stub{on: func(sender *prc.ProcessId, message prc.Message) { mu.Lock(); dead++; mu.Unlock() }})
	}))
	for n := 0; n < 4; n++ {
		n := n
		rc.Register(prc.NewProcessId(phys, fmt.Sprintf("/w/%d", n)), &stub{on: func(sender *prc.ProcessId, message prc.Message) {
			var e error
			if message != nil {
				e, _ = message.(error)
			}
			mu.Lock()
			fwdLogs[sender] = append(fwdLogs[sender], fmt.Sprintf("%d/%s", n, fmtErr(e)))
			mu.Unlock()
		}})
	}
	counts := map[string]int{}
	// wall-clock budget: on an oversubscribed machine a spinning barrier can take a scheduler time slice
	// per repetition; the op then stops early and reports how many repetitions it did
	began, done := time.Now(), 0
	for rep := 0; rep < reps && time.Since(began) < 10*time.Second; rep++ {
		done++
		timeout := time.Duration(0)
		if timer == 1 {
			timeout = time.Hour
		}
		id := prc.NewProcessId(phys, addrOf(1))
		f := future.New[prc.Message](rc, id, timeout)
		// spinning barrier: the goroutines must hit the future within nanoseconds of each other
		var start atomic.Bool
		var ready atomic.Int32
		nGo := 0
		var wg sync.WaitGroup
		crashes, doubleClose := 0, 0
		var results, fwdReq []string
		run := func(body func()) {
			wg.Add(1)
			nGo++
			go func() {
				defer wg.Done()
				defer func() {
					if p := recover(); p != nil {
						mu.Lock()
						if strings.Contains(fmt.Sprint(p), "close of closed channel") {
							doubleClose++
						} else {
							crashes++
						}
						mu.Unlock()
					}
				}()
				ready.Add(1)
				for spins := 1; !start.Load(); spins++ {
					if spins%256 == 0 {
						runtime.Gosched() // do not starve the others when there are fewer cores than goroutines
					}
				}
				body()
			}()
		}
		deliver := func(m prc.Message) {
			to := prc.NewProcessId(phys, addrOf(1))
			rc.GetProcess(to).DeliveryUserMessage(to, nil, nil, prc.WrapMessage(nil, to, m))
		}
		for i := 0; i < nRep; i++ {
			i := i
			run(func() { deliver(&payload{0, i + 1}) })
		}
		for i := 0; i < nErr; i++ {
			i := i
			run(func() { deliver(&replyErr{0, i + 1}) })
		}
		for i := 0; i < nClose; i++ {
			i := i
			run(func() { f.Close(&reasonErr{i + 1}) })
		}
		if timer == 1 {
			run(func() { future.VerifFireTimer(f) })
		}
		for i := 0; i < nFwd; i++ {
			i := i
			run(func() {
				f.Forward(prc.NewProcessId(phys, fmt.Sprintf("/w/%d", i)))
				mu.Lock()
				fwdReq = append(fwdReq, fmt.Sprint(i))
				mu.Unlock()
			})
		}
		for i := 0; i < nRead; i++ {
			run(func() {
				for j := 0; j < 2; j++ {
					m, err := f.Result()
					mu.Lock()
					results = append(results, fmtVal(m)+"/"+fmtErr(err))
					mu.Unlock()
				}
			})
		}
		for spins := 0; int(ready.Load()) < nGo; spins++ {
			if spins > 1000 {
				runtime.Gosched()
			}
		}
		start.Store(true)
		wg.Wait()
		s, _ := future.VerifState(f)
		d := 0
		if s.DoneClosed {
			d = 1 + doubleClose
		}
		p := rc.GetProcess(prc.NewProcessId(phys, addrOf(1)))
		fo, isF := p.(future.Future[prc.Message])
		reg := isF && fo == f
		if reg {
			rc.Unregister(id, id) // keep the address free for the next repetition
		}
		mu.Lock()
		fl := fwdLogs[f.Ref()]
		delete(fwdLogs, f.Ref())
		mu.Unlock()
		// the order in which concurrent Forward calls returned is not the order in which they took the
		// lock; the judge compares forward targets as multisets, so sort both
		sort.Strings(fwdReq)
		obs := fmt.Sprintf("crashes=%d F k=0 addr=1 tmo=%s rc=%s closed=%s done=%d reg=%s timer=%s pfw=%d res=%s fwd=%s req=%s",
			crashes, b01(timer == 1), b01(s.RCSet), b01(s.Closed), d, b01(reg), b01(future.VerifStopTimer(f)), s.Forwards,
			commaOr(results), commaOr(fl), commaOr(fwdReq))
		counts[obs]++
	}
	keys := make([]string, 0, len(counts))
	for k := range counts {
		keys = append(keys, k)
	}
	sort.Strings(keys)
	parts := []string{fmt.Sprintf("reps=%d distinct=%d", done, len(keys))}
	for _, k := range keys {
		parts = append(parts, fmt.Sprintf("n=%d %s", counts[k], k))
	}
	return strings.Join(parts, " | ")
}

func raceGen(rng *proto.RNG, tier string, shard, nshards int, w *bufio.Writer) {
	caseNo := 0
	emit := func(line string) {
		if caseNo%nshards == shard {
			fmt.Fprintf(w, "# case %d\n%s\n", caseNo, line)
		}
		caseNo++
	}
	// the windows searched for are a few instructions wide (hit rates around 1e-4 per repetition were
	// measured for a CAS replaced by load+store), hence thousands of repetitions per configuration
	reps := 3000
	if tier == "thorough" {
		reps = 20000
	}
	// systematic: the completion races
	for _, c := range [][6]int{
		{2, 0, 0, 0, 0, 2}, {1, 0, 0, 1, 0, 2}, {1, 1, 0, 0, 0, 2}, {0, 0, 2, 0, 0, 1}, {1, 0, 1, 1, 0, 2},
		{3, 1, 1, 1, 2, 3}, {1, 0, 1, 0, 3, 1}, {0, 1, 0, 1, 2, 2}, {4, 0, 0, 0, 0, 0}, {0, 0, 1, 1, 4, 0},
		{0, 0, 4, 0, 0, 0}, {0, 0, 8, 0, 0, 0}, {0, 0, 3, 1, 0, 0}, {2, 0, 2, 0, 0, 0}, {0, 2, 2, 0, 0, 0}, {0, 0, 6, 0, 0, 1},
	} {
		emit(fmt.Sprintf("race %d %d %d %d %d %d %d", c[0], c[1], c[2], c[3], c[4], c[5], reps))
	}
	n := 10
	if tier == "thorough" {
		n = 60
	}
	for i := 0; i < n; i++ {
		r, e, c, tm := rng.Intn(5), rng.Intn(3), rng.Intn(3), rng.Intn(2)
		if r+e+c+tm == 0 {
			r = 1
		}
		emit(fmt.Sprintf("race %d %d %d %d %d %d %d", r, e, c, tm, rng.Intn(4), rng.Intn(4), rng.Range(50, reps/2)))
	}
	if shard == 0 {
		fmt.Fprintf(w, "# case malformed\nrace\nrace 0 0 0 0 1 1 10\nrace 1 0 0 2 0 0 10\nrace 1 0 0 0 9 0 10\nrace 1 0 0 0 0 0 0\nrace x 0 0 0 0 0 1\n")
	}
}

func init() {
	proto.Register(&proto.Suite{Name: "future-race", Gen: raceGen, New: func() proto.Runner { return raceRunner{} }})
}
