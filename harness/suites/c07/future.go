package c07

// Suite `future` (T-sched): real future.Future objects registered in a real prc.ResourceController
// run under the controlled scheduler (goroutines park at the verifhook sites "fut.…" of
// engine/future/future.go and at the yield points of this harness); the Lean model
// MV.Model.Future executes the same schedule, one quantum = one model step, and every line is
// compared. The final line (drain) is also judged with MV.Spec.Future.verdict.

import (
	"bufio"
	"errors"
	"fmt"
	"runtime"
	"strings"
	"sync"
	"time"

	"github.com/kercylan98/minotaur/engine/future"
	"github.com/kercylan98/minotaur/engine/prc"
	"verifharness/internal/proto"
	"verifharness/internal/sched"
)

type payload struct {
	tag, val int
}

type replyErr struct {
	tag, val int
}

func (e *replyErr) Error() string { return fmt.Sprintf("reply:%d.%d", e.tag, e.val) }

type reasonErr struct{ n int }

func (e *reasonErr) Error() string { return fmt.Sprintf("reason:%d", e.n) }

func fmtErr(err error) string {
	if err == nil {
		return "nil"
	}
	if errors.Is(err, future.ErrorFutureTimeout) {
		return "timeout"
	}
	return err.Error()
}

func fmtVal(m prc.Message) string {
	if w, ok := m.(*prc.MessageWrapper); ok {
		m = w.Message
	}
	switch v := m.(type) {
	case nil:
		return "-"
	case *payload:
		return fmt.Sprintf("%d.%d", v.tag, v.val)
	case *replyErr:
		return fmt.Sprintf("E%d.%d", v.tag, v.val)
	}
	return fmt.Sprintf("?%T", m)
}

func commaOr(l []string) string {
	if len(l) == 0 {
		return "-"
	}
	return strings.Join(l, ",")
}

func b01(b bool) string {
	if b {
		return "1"
	}
	return "0"
}

// stub is a prc.Process that records what it is sent (forward targets, dead letters).
type stub struct {
	on func(sender *prc.ProcessId, message prc.Message)
}

func (s *stub) Initialize(rc *prc.ResourceController, id *prc.ProcessId) {}
func (s *stub) DeliveryUserMessage(receiver, sender, forward *prc.ProcessId, message prc.Message) {
	s.on(sender, message)
}
func (s *stub) DeliverySystemMessage(receiver, sender, forward *prc.ProcessId, message prc.Message) {
	s.on(sender, message)
}
func (s *stub) IsTerminated() bool              { return false }
func (s *stub) Terminate(source *prc.ProcessId) {}

type fut struct {
	addr    int
	tmo     bool
	obj     future.Future[prc.Message] // known once registered or returned
	ready   bool                       // New has returned
	results []string
	fwdLog  []string
	fwdReq  []string
}

type futRun struct {
	mu      sync.Mutex // after Close the released goroutines run free: they must not touch the run any more
	stopped bool
	sc      *sched.Sched
	rc      *prc.ResourceController
	futs    []*fut
	newOf   map[int]*fut   // tid of a `new` thread -> the future it creates (from its fut.reg quantum on)
	newArgs map[int][2]int // tid of a `new` thread -> (addr, tmo)
	arg     map[int]int    // tid -> index of the future whose handle the thread needs
	crashed map[int]bool
	dead    int
	crashes int
	byRef   map[*prc.ProcessId]*fut
}

const phys = "verif"

func addrOf(a int) string { return fmt.Sprintf("/f/%d", a) }

func newFutRun() *futRun {
	r := &futRun{newOf: map[int]*fut{}, newArgs: map[int][2]int{}, arg: map[int]int{},
		crashed: map[int]bool{}, byRef: map[*prc.ProcessId]*fut{}}
	r.sc = sched.New()
	r.sc.Filter = func(site string) bool { return strings.HasPrefix(site, "fut.") }
	deadStub := &stub{on: func(sender *prc.ProcessId, message prc.Message) { r.do(func() { r.dead++ }) }}
	r.rc = prc.NewResourceController(prc.FunctionalResourceControllerConfigurator(func(c *prc.ResourceControllerConfiguration) {
		c.WithPhysicalAddress(phys)
		c.WithNotFoundSubstitute(deadStub)
	}))
	for n := 0; n < 4; n++ {
		n := n
		r.rc.Register(prc.NewProcessId(phys, fmt.Sprintf("/w/%d", n)), &stub{on: func(sender *prc.ProcessId, message prc.Message) {
			r.do(func() {
				if f := r.byRef[sender]; f != nil {
					var e error
					if message != nil {
						e, _ = message.(error)
					}
					f.fwdLog = append(f.fwdLog, fmt.Sprintf("%d/%s", n, fmtErr(e)))
				}
			})
		}})
	}
	return r
}

func (r *futRun) Close() {
	r.mu.Lock()
	r.stopped = true
	r.mu.Unlock()
	r.sc.Close()
}

// do runs f on the run's bookkeeping unless the run has been closed (then the calling goroutine,
// which is running free, ends).
func (r *futRun) do(f func()) {
	r.mu.Lock()
	defer r.mu.Unlock()
	if r.stopped {
		runtime.Goexit()
	}
	f()
}

// spawn starts body as a managed goroutine; a panic in it is recorded (the thread "crashed").
// Every body begins with a yield (or a hook inside future.New), so tid is set before it is read.
func (r *futRun) spawn(arg int, body func()) int {
	var tid int
	tid = r.sc.Go(func() {
		defer func() {
			if p := recover(); p != nil {
				r.mu.Lock()
				if !r.stopped {
					r.crashed[tid] = true
					r.crashes++
				}
				r.mu.Unlock()
			}
		}()
		body()
	})
	r.arg[tid] = arg
	return tid
}

func (r *futRun) handle(k int) *fut {
	if k < 0 || k >= len(r.futs) || !r.futs[k].ready {
		return nil
	}
	return r.futs[k]
}

// Spawn starts a thread: new <a> <tmo> | reply <tag> <val> <isErr> | close <k> <n|nil> | forward <k> <ref> | result <k>
func (r *futRun) Spawn(t []string) string {
	var tid int
	switch {
	case len(t) == 3 && t[0] == "new":
		a, ok1 := proto.Atoi(t[1])
		tm, ok2 := proto.Atoi(t[2])
		if !ok1 || !ok2 || a < 0 || (tm != 0 && tm != 1) {
			return "bad-op"
		}
		timeout := time.Duration(0)
		if tm == 1 {
			timeout = time.Hour // never fires by itself; the `timer` thread fires it under the scheduler
		}
		id := prc.NewProcessId(phys, addrOf(a))
		tid = r.spawn(-1, func() {
			f := future.New[prc.Message](r.rc, id, timeout)
			// New has returned (still inside the quantum of its last operation)
			r.do(func() {
				rec := r.newOf[tid]
				rec.obj = f
				rec.ready = true
				r.byRef[f.Ref()] = rec
				if s, _ := future.VerifState(f); s.TimerSet {
					r.spawn(-1, func() {
						r.sc.Yield("fut.timer")
						r.do(func() {})
						future.VerifFireTimer(f)
					})
				}
			})
		})
		r.newArgs[tid] = [2]int{a, tm}
	case len(t) == 4 && t[0] == "reply":
		tag, ok1 := proto.Atoi(t[1])
		val, ok2 := proto.Atoi(t[2])
		ie, ok3 := proto.Atoi(t[3])
		if !ok1 || !ok2 || !ok3 || tag < 0 || val < 0 || (ie != 0 && ie != 1) {
			return "bad-op"
		}
		tid = r.spawn(tag, func() {
			r.sc.Yield("fut.route")
			var f *fut
			r.do(func() { f = r.futs[tag] })
			// a fresh reference to the sender address the request carried (no reference cache involved)
			to := prc.NewProcessId(phys, addrOf(f.addr))
			var m prc.Message = &payload{tag, val}
			if ie == 1 {
				m = &replyErr{tag, val}
			}
			r.rc.GetProcess(to).DeliveryUserMessage(to, nil, nil, prc.WrapMessage(nil, to, m))
		})
	case len(t) == 3 && t[0] == "close":
		k, ok1 := proto.Atoi(t[1])
		var reason error
		if t[2] != "nil" {
			n, ok := proto.Atoi(t[2])
			if !ok || n < 0 {
				return "bad-op"
			}
			reason = &reasonErr{n}
		}
		if !ok1 || k < 0 {
			return "bad-op"
		}
		tid = r.spawn(k, func() {
			r.sc.Yield("fut.close")
			var f *fut
			r.do(func() { f = r.futs[k] })
			f.obj.Close(reason)
		})
	case len(t) == 3 && t[0] == "forward":
		k, ok1 := proto.Atoi(t[1])
		n, ok2 := proto.Atoi(t[2])
		if !ok1 || !ok2 || k < 0 || n < 0 || n > 3 {
			return "bad-op"
		}
		tid = r.spawn(k, func() {
			r.sc.Yield("fut.fwd")
			var f *fut
			r.do(func() { f = r.futs[k] })
			f.obj.Forward(prc.NewProcessId(phys, fmt.Sprintf("/w/%d", n)))
			r.do(func() { f.fwdReq = append(f.fwdReq, fmt.Sprint(n)) })
		})
	case len(t) == 2 && t[0] == "result":
		k, ok1 := proto.Atoi(t[1])
		if !ok1 || k < 0 {
			return "bad-op"
		}
		tid = r.spawn(k, func() {
			r.sc.Yield("fut.res")
			var f *fut
			r.do(func() { f = r.futs[k] })
			m, err := f.obj.Result()
			r.do(func() { f.results = append(f.results, fmtVal(m)+"/"+fmtErr(err)) })
		})
	default:
		return "bad-op"
	}
	site, _, _ := r.sc.Site(tid)
	return fmt.Sprintf("t%d@%s", tid, site)
}

// enabled: may the parked thread tid take its next step (the model's `trans` is not `none`)?
func (r *futRun) enabled(tid int) bool {
	site, done, exists := r.sc.Site(tid)
	if !exists || done || site == "" {
		return false
	}
	switch site {
	case "fut.route", "fut.close", "fut.fwd", "fut.res":
		return r.handle(r.arg[tid]) != nil
	case "fut.wait": // <-f.done would block
		s, _ := future.VerifState(r.futs[r.arg[tid]].obj)
		return s.DoneClosed
	}
	return true
}

func (r *futRun) Enabled() []int {
	var l []int
	for _, t := range r.sc.Live() {
		if r.enabled(t) {
			l = append(l, t)
		}
	}
	return l
}

func (r *futRun) registeredTo(f *fut) bool {
	if f.obj == nil {
		return false
	}
	p := r.rc.GetProcess(prc.NewProcessId(phys, addrOf(f.addr)))
	fo, ok := p.(future.Future[prc.Message])
	return ok && fo == f.obj
}

func (r *futRun) state() string {
	var sb strings.Builder
	for k, f := range r.futs {
		var s future.VerifSnapshot
		if f.obj != nil {
			s, _ = future.VerifState(f.obj)
		}
		d := 0
		if s.DoneClosed {
			d = 1
		}
		fmt.Fprintf(&sb, "F%d[a=%d c=%s d=%d m=%s e=%s rc=%s tm=%s fw=%d reg=%s res=%s fwd=%s] ", k, f.addr, b01(s.Closed), d,
			fmtVal(s.Message), fmtErr(s.Err), b01(s.RCSet), b01(s.TimerSet), s.Forwards, b01(r.registeredTo(f)),
			commaOr(f.results), commaOr(f.fwdLog))
	}
	fmt.Fprintf(&sb, "dead=%d crashes=%d", r.dead, r.crashes)
	return sb.String()
}

// RunThread executes one quantum of thread tid.
func (r *futRun) RunThread(tid int) string {
	if !r.enabled(tid) {
		return "skip"
	}
	before, _, _ := r.sc.Site(tid)
	var rec *fut
	if before == "fut.reg" {
		// this quantum is rc.Register's LoadOrStore: the future gets its index now
		a := r.newArgs[tid]
		rec = &fut{addr: a[0], tmo: a[1] == 1}
		r.futs = append(r.futs, rec)
		r.newOf[tid] = rec
	}
	site, done, spawned, ok := r.sc.Step(tid)
	if !ok {
		return "skip"
	}
	if rec != nil && rec.obj == nil {
		// registered, Initialize not finished: the object is reachable through the registry
		p := r.rc.GetProcess(prc.NewProcessId(phys, addrOf(rec.addr)))
		if fo, isF := p.(future.Future[prc.Message]); isF {
			rec.obj = fo
		}
	}
	if r.crashed[tid] {
		site = "crashed"
	} else if done {
		site = "done"
	}
	sp := make([]string, len(spawned))
	for i, s := range spawned {
		sp[i] = fmt.Sprintf("t%d", s)
	}
	return fmt.Sprintf("t%d@%s spawn=[%s] %s", tid, site, strings.Join(sp, " "), r.state())
}

// Drain runs the lowest enabled thread until nobody is enabled and prints the final observation.
func (r *futRun) Drain() string {
	for i := 0; i < 3000; i++ {
		l := r.Enabled()
		if len(l) == 0 {
			break
		}
		r.RunThread(l[0])
	}
	var live []string
	for _, t := range r.sc.Live() {
		site, _, _ := r.sc.Site(t)
		live = append(live, fmt.Sprintf("t%d@%s", t, site))
	}
	parts := []string{fmt.Sprintf("crashes=%d dead=%d live=%s", r.crashes, r.dead, commaOr(live))}
	for k, f := range r.futs {
		var s future.VerifSnapshot
		timer := false
		if f.obj != nil {
			s, _ = future.VerifState(f.obj)
			timer = future.VerifStopTimer(f.obj)
		}
		d := 0
		if s.DoneClosed {
			d = 1
		}
		parts = append(parts, fmt.Sprintf("F k=%d addr=%d tmo=%s rc=%s closed=%s done=%d reg=%s timer=%s pfw=%d res=%s fwd=%s req=%s",
			k, f.addr, b01(f.tmo), b01(s.RCSet), b01(s.Closed), d, b01(r.registeredTo(f)), b01(timer), s.Forwards,
			commaOr(f.results), commaOr(f.fwdLog), commaOr(f.fwdReq)))
	}
	return strings.Join(parts, " | ")
}

type futRunner struct{ r *futRun }

func (x *futRunner) Reset() {
	if x.r != nil {
		x.r.Close()
		x.r = nil
	}
}

func (x *futRunner) Step(t []string) string {
	if x.r == nil {
		x.r = newFutRun()
	}
	switch {
	case t[0] == "spawn":
		return x.r.Spawn(t[1:])
	case t[0] == "run" && len(t) == 2:
		k, ok := proto.Atoi(t[1])
		if !ok {
			return "bad-op"
		}
		return x.r.RunThread(k)
	case t[0] == "drain" && len(t) == 1:
		return x.r.Drain()
	}
	return "bad-op"
}

// ---------------------------------------------------------------- generation

type futScenario [][]string

func sp(s string) []string { return strings.Fields(s) }

func futScenarios() []futScenario {
	return []futScenario{
		// one ask: reply ∥ timer ∥ reader
		{sp("new 1 1"), sp("reply 0 5 0"), sp("result 0")},
		// two overlapping replies, two readers
		{sp("new 1 1"), sp("reply 0 5 0"), sp("reply 0 6 0"), sp("result 0"), sp("result 0")},
		// reply ∥ error reply
		{sp("new 2 1"), sp("reply 0 5 0"), sp("reply 0 7 1"), sp("result 0")},
		// error reply ∥ timer, no other completion
		{sp("new 2 1"), sp("reply 0 7 1"), sp("result 0")},
		// Close(reason) ∥ reply ∥ timer
		{sp("new 3 1"), sp("close 0 4"), sp("reply 0 5 0"), sp("result 0")},
		// Close(nil) ∥ Close(reason), no timeout
		{sp("new 3 0"), sp("close 0 nil"), sp("close 0 9"), sp("result 0")},
		// Forward ∥ reply ∥ Forward
		{sp("new 4 1"), sp("forward 0 1"), sp("reply 0 5 0"), sp("forward 0 2")},
		// Forward ∥ Close(reason)
		{sp("new 4 0"), sp("forward 0 1"), sp("close 0 3"), sp("forward 0 2"), sp("result 0")},
		// two futures, replies for both, a stray reply
		{sp("new 1 1"), sp("new 2 0"), sp("reply 0 5 0"), sp("reply 1 6 0"), sp("result 0"), sp("result 1")},
		// no timeout, no reply: the reader waits for ever
		{sp("new 5 0"), sp("result 0"), sp("forward 0 0")},
		// the same address twice: the second future is never initialised
		{sp("new 6 1"), sp("new 6 1"), sp("reply 1 8 0"), sp("result 0"), sp("result 1")},
		{sp("new 6 0"), sp("new 6 1"), sp("close 1 2"), sp("result 1")},
		// address reuse after release
		{sp("new 7 0"), sp("close 0 1"), sp("new 7 1"), sp("reply 1 3 0"), sp("reply 0 4 0"), sp("result 1")},
	}
}

func futReplay(sc futScenario, prefix []int) *futRun {
	r := newFutRun()
	for _, s := range sc {
		r.Spawn(s)
	}
	for _, t := range prefix {
		r.RunThread(t)
	}
	return r
}

// futDFS enumerates complete schedules of the scenario with at most bound pre-emptions (stateless
// exploration of the real code); the order in which alternatives are tried is drawn from rng.
func futDFS(rng *proto.RNG, sc futScenario, bound int, limit int, emit func(sched []int)) {
	n := 0
	var rec func(prefix []int, pre int)
	rec = func(prefix []int, pre int) {
		if n >= limit {
			return
		}
		r := futReplay(sc, prefix)
		live := r.Enabled()
		r.Close()
		if len(live) == 0 || len(prefix) >= 200 {
			n++
			emit(append([]int(nil), prefix...))
			return
		}
		last := -1
		if len(prefix) > 0 {
			last = prefix[len(prefix)-1]
		}
		lastLive := false
		var others []int
		for _, t := range live {
			if t == last {
				lastLive = true
			} else {
				others = append(others, t)
			}
		}
		for i := len(others) - 1; i > 0; i-- {
			j := rng.Intn(i + 1)
			others[i], others[j] = others[j], others[i]
		}
		order := others
		if lastLive {
			order = append([]int{last}, others...)
			// sometimes try a pre-emption first so that the limit does not always cut the same part
			if len(others) > 0 && rng.Intn(3) == 0 {
				order = append(others, last)
			}
		}
		for _, t := range order {
			cost := 0
			if lastLive && t != last {
				cost = 1
			}
			if pre+cost > bound {
				continue
			}
			rec(append(prefix, t), pre+cost)
		}
	}
	rec(nil, 0)
}

func futGen(rng *proto.RNG, tier string, shard, nshards int, w *bufio.Writer) {
	caseNo := 0
	emit := func(lines []string) {
		fmt.Fprintf(w, "# case %d.%d\n", shard, caseNo)
		for _, l := range lines {
			fmt.Fprintln(w, l)
		}
		caseNo++
	}
	bound, limit := 2, 200
	if tier == "thorough" {
		bound, limit = 3, 1200
	}
	for i, sc := range futScenarios() {
		if i%nshards != shard {
			continue
		}
		futDFS(rng, sc, bound, limit, func(s []int) {
			var lines []string
			for _, x := range sc {
				lines = append(lines, "spawn "+strings.Join(x, " "))
			}
			for _, t := range s {
				lines = append(lines, fmt.Sprintf("run %d", t))
			}
			lines = append(lines, "drain")
			emit(lines)
		})
	}
	// random: up to 3 futures, late arrivals, uniformly random choice among enabled threads
	nRandom := 80
	if tier == "thorough" {
		nRandom = 400
	}
	for c := 0; c < nRandom; c++ {
		r := newFutRun()
		var lines []string
		nNew, nThreads := 0, 0
		spawn := func() {
			var s []string
			k := 0
			if nNew > 0 {
				k = rng.Intn(nNew)
			}
			switch {
			case nNew == 0 || (nNew < 3 && rng.Intn(5) == 0):
				a := rng.Range(1, 3)
				if rng.Intn(4) != 0 {
					a = 10 + nNew // mostly fresh addresses
				}
				s = []string{"new", fmt.Sprint(a), fmt.Sprint(rng.Pick(1, 3))}
				nNew++
			default:
				switch rng.Pick(5, 2, 2, 3, 3) {
				case 0:
					s = []string{"reply", fmt.Sprint(k), fmt.Sprint(rng.Intn(50)), "0"}
				case 1:
					s = []string{"reply", fmt.Sprint(k), fmt.Sprint(rng.Intn(50)), "1"}
				case 2:
					if rng.Intn(4) == 0 {
						s = []string{"close", fmt.Sprint(k), "nil"}
					} else {
						s = []string{"close", fmt.Sprint(k), fmt.Sprint(rng.Intn(9))}
					}
				case 3:
					s = []string{"forward", fmt.Sprint(k), fmt.Sprint(rng.Intn(4))}
				default:
					s = []string{"result", fmt.Sprint(k)}
				}
			}
			r.Spawn(s)
			nThreads++
			lines = append(lines, "spawn "+strings.Join(s, " "))
		}
		for k := rng.Range(2, 5); k > 0; k-- {
			spawn()
		}
		steps := rng.Range(10, 120)
		last := -1
		for k := 0; k < steps; k++ {
			if rng.Intn(7) == 0 && nThreads < 12 {
				spawn()
				continue
			}
			live := r.Enabled()
			if len(live) == 0 {
				if nThreads >= 12 {
					break
				}
				spawn()
				continue
			}
			t := live[rng.Intn(len(live))]
			// sticky: mostly continue the last thread (long runs with rare switches)
			if rng.Intn(3) != 0 {
				for _, x := range live {
					if x == last {
						t = x
					}
				}
			}
			last = t
			r.RunThread(t)
			lines = append(lines, fmt.Sprintf("run %d", t))
			if rng.Intn(20) == 0 {
				// malformed: a thread that does not exist, has finished or is not enabled
				lines = append(lines, fmt.Sprintf("run %d", rng.Intn(30)))
				// (not executed here: a disabled thread answers `skip` and changes nothing — unless it
				// happens to be enabled, then the replay below runs it and the rest may be skipped lines)
				r.Close()
				r = futReplayLines(lines)
			}
		}
		r.Close()
		lines = append(lines, "drain")
		emit(lines)
	}
	// malformed stream
	if shard == 0 {
		emit([]string{"spawn new x 1", "spawn reply 0", "spawn close 0", "spawn forward 0 -1", "spawn result", "spawn timer 0",
			"run 0", "run x", "bogus", "spawn result 3", "run 0", "spawn new 1 1", "run 0", "run 0", "run 1", "drain"})
	}
}

// futReplayLines re-executes spawn/run lines on a fresh run.
func futReplayLines(lines []string) *futRun {
	r := newFutRun()
	for _, l := range lines {
		t := strings.Fields(l)
		if t[0] == "spawn" {
			r.Spawn(t[1:])
		} else if t[0] == "run" {
			k, _ := proto.Atoi(t[1])
			r.RunThread(k)
		}
	}
	return r
}

func init() {
	proto.Register(&proto.Suite{Name: "future", Gen: futGen, New: func() proto.Runner { return &futRunner{} }})
}
