// Package c07 holds the harness suites of property C07 (registered from init functions).
package c07
