package c07

// Suite `ask` (end to end, judged): real vivid actors, the three ask entry points
// (actorContext.FutureAsk, ActorSystem.FutureAsk, the typed helper vivid.FutureAsk[M]), 1–16
// concurrent askers, echo / silent / error-replying / double-replying / late receivers, timeouts from
// 1 µs to 50 ms and a generous one. Every ask is classified (own reply, timeout, …); the Lean judge
// (MV.Spec.Future.askVerdict) decides on the classes. Nothing here is compared with "how long it
// took" except one-sidedly with a wide margin (completion later than timeout + 10 s).
//
//	ask <ctx|sys|typed|sysspawn> <askers> <each> <echo|silent|error|double|late> <timeout_us>

import (
	"bufio"
	"errors"
	"fmt"
	"sort"
	"strings"
	"sync"
	"sync/atomic"
	"time"

	"github.com/kercylan98/minotaur/engine/future"
	"github.com/kercylan98/minotaur/engine/vivid"
	"github.com/kercylan98/minotaur/toolkit/log"
	"verifharness/internal/proto"
)

type askMsg struct{ asker, seq int }
type askReply struct{ asker, seq, n int }
type askErr struct{ asker, seq int }

func (e *askErr) Error() string { return fmt.Sprintf("ask-error %d.%d", e.asker, e.seq) }

type goMsg struct {
	run func(ctx vivid.ActorContext)
}

// margins are wide on purpose: the sandbox may be heavily loaded (stalls of several seconds were seen)
const hangMargin = 30 * time.Second
const lateMargin = 10 * time.Second

var askClasses = []string{"own", "timeout", "errreply", "second", "wrong", "wrongerr", "errvalue", "nilok", "other", "hang", "panic", "unstable", "skipped"}

type askTally struct {
	mu    sync.Mutex
	n     map[string]int
	late  int
	maxMs int64 // slowest completion (diagnostics only; never judged)
}

func (t *askTally) add(c string, late bool) {
	t.mu.Lock()
	t.n[c]++
	if late {
		t.late++
	}
	t.mu.Unlock()
}

func (t *askTally) took(d time.Duration) {
	t.mu.Lock()
	if ms := d.Milliseconds(); ms > t.maxMs {
		t.maxMs = ms
	}
	t.mu.Unlock()
}

// classify one completed ask
func classify(asker, seq int, v any, err error) string {
	if err != nil {
		var ae *askErr
		switch {
		case errors.Is(err, future.ErrorFutureTimeout):
			if v == nil || isNilReply(v) {
				return "timeout"
			}
			return "other"
		case errors.As(err, &ae):
			if ae.asker == asker && ae.seq == seq {
				return "errreply"
			}
			return "wrongerr"
		}
		return "other"
	}
	switch m := v.(type) {
	case nil:
		return "nilok"
	case *askReply:
		if m == nil {
			return "nilok"
		}
		if m.asker != asker || m.seq != seq {
			return "wrong"
		}
		if m.n != 0 {
			return "second"
		}
		return "own"
	case error:
		return "errvalue"
	}
	return "other"
}

func isNilReply(v any) bool {
	r, ok := v.(*askReply)
	return ok && r == nil
}

type askOutcome struct {
	v   any
	err error
	pan bool
}

// await runs get (a Result call) with hang detection.
func await(get func() (any, error), limit time.Duration) (o askOutcome, hung bool) {
	ch := make(chan askOutcome, 1)
	go func() {
		defer func() {
			if p := recover(); p != nil {
				ch <- askOutcome{pan: true}
			}
		}()
		v, err := get()
		ch <- askOutcome{v: v, err: err}
	}()
	select {
	case o = <-ch:
		return o, false
	case <-time.After(limit):
		// prefer a result that is there by now (the whole process may have been stalled)
		select {
		case o = <-ch:
			return o, false
		default:
		}
		return o, true
	}
}

type askRunner struct{}

func (askRunner) Reset() {}

func (askRunner) Step(t []string) string {
	if len(t) == 3 && t[0] == "askrestart" {
		return askRestart(t)
	}
	if len(t) != 6 || t[0] != "ask" {
		return "bad-op"
	}
	entry, recvKind := t[1], t[4]
	askers, ok1 := proto.Atoi(t[2])
	each, ok2 := proto.Atoi(t[3])
	tus, ok3 := proto.Atoi(t[5])
	if !ok1 || !ok2 || !ok3 || askers < 1 || askers > 64 || each < 1 || each > 100000 || tus < 1 {
		return "bad-op"
	}
	switch entry {
	case "ctx", "sys", "typed", "sysspawn":
	default:
		return "bad-op"
	}
	switch recvKind {
	case "echo", "silent", "error", "double", "late":
	default:
		return "bad-op"
	}
	timeout := time.Duration(tus) * time.Microsecond
	logger := log.NewSilentLogger()
	sys := vivid.NewActorSystem(vivid.FunctionalActorSystemConfigurator(func(config *vivid.ActorSystemConfiguration) {
		config.WithLoggerProvider(log.FunctionalLoggerProvider(func() *log.Logger { return logger }))
	}))
	var req, nilreq atomic.Int64
	receiver := sys.ActorOfF(func() vivid.Actor {
		return vivid.FunctionalActor(func(ctx vivid.ActorContext) {
			switch m := ctx.Message().(type) {
			case *askMsg:
				req.Add(1)
				switch recvKind {
				case "echo":
					ctx.Reply(&askReply{m.asker, m.seq, 0})
				case "error":
					ctx.Reply(&askErr{m.asker, m.seq})
				case "double":
					ctx.Reply(&askReply{m.asker, m.seq, 0})
					ctx.Reply(&askReply{m.asker, m.seq, 1})
				case "late":
					sender := ctx.Sender()
					go func() {
						time.Sleep(timeout + 300*time.Millisecond)
						sys.Tell(sender, &askReply{m.asker, m.seq, 0})
					}()
				}
			case nil:
				nilreq.Add(1)
			}
		})
	}, func(d *vivid.ActorDescriptor) { d.WithName("receiver") })

	tally := &askTally{n: map[string]int{}}
	var anyHang atomic.Bool
	one := func(asker, seq int, start func() func() (any, error)) {
		t0 := time.Now()
		get := start()
		limit := timeout + hangMargin
		if limit > 40*time.Second {
			// only the generous timeout is that long, and it is only used with receivers whose answer is
			// due at once: no result after 40 s is reported as a hang (the judge demands a result there)
			limit = 40 * time.Second
		}
		o, hung := await(get, limit)
		if hung {
			anyHang.Store(true)
			tally.add("hang", false)
			return
		}
		late := time.Since(t0) > timeout+lateMargin
		tally.took(time.Since(t0))
		if o.pan {
			tally.add("panic", late)
			return
		}
		c := classify(asker, seq, o.v, o.err)
		// exactly once: a second Result() returns the same pair
		o2, hung2 := await(get, hangMargin)
		if hung2 || o2.pan || o2.err != o.err || o2.v != o.v {
			c = "unstable"
		}
		tally.add(c, late)
	}
	loop := func(asker int, start func(seq int) func() (any, error)) {
		for s := 0; s < each; s++ {
			if anyHang.Load() {
				// an ask hangs: do not start further ones (the op would take for ever)
				tally.add("skipped", false)
				continue
			}
			s := s
			one(asker, s, func() func() (any, error) { return start(s) })
		}
	}
	// asker actors for the ctx entry point are created before the baseline is taken
	var askerRefs []vivid.ActorRef
	if entry == "ctx" {
		for a := 0; a < askers; a++ {
			askerRefs = append(askerRefs, sys.ActorOfF(func() vivid.Actor {
				return vivid.FunctionalActor(func(ctx vivid.ActorContext) {
					if g, ok := ctx.Message().(*goMsg); ok {
						g.run(ctx)
					}
				})
			}))
		}
	}
	waitLaunched(sys, 2+1+len(askerRefs))
	before := len(vivid.VerifRegistryAddresses(sys))

	var wg sync.WaitGroup
	spawned := 0
	for a := 0; a < askers; a++ {
		a := a
		wg.Add(1)
		switch entry {
		case "sys", "sysspawn":
			go func() {
				defer wg.Done()
				loop(a, func(seq int) func() (any, error) {
					f := sys.FutureAsk(receiver, &askMsg{a, seq}, timeout)
					return func() (any, error) { return f.Result() }
				})
			}()
		case "typed":
			go func() {
				defer wg.Done()
				loop(a, func(seq int) func() (any, error) {
					f := vivid.FutureAsk[*askReply](sys, receiver, &askMsg{a, seq}, timeout)
					return func() (any, error) { v, err := f.Result(); return v, err }
				})
			}()
		case "ctx":
			sys.Tell(askerRefs[a], &goMsg{run: func(ctx vivid.ActorContext) {
				defer wg.Done()
				loop(a, func(seq int) func() (any, error) {
					f := ctx.FutureAsk(receiver, &askMsg{a, seq}, timeout)
					return func() (any, error) { return f.Result() }
				})
			}})
		}
	}
	spawnPanic := false
	if entry == "sysspawn" {
		// one more goroutine creates children of the same context (ActorOf draws names from the same
		// id counter) while the askers run
		wg.Add(1)
		go func() {
			defer wg.Done()
			defer func() {
				if p := recover(); p != nil {
					spawnPanic = true
				}
			}()
			for i := 0; i < each && !anyHang.Load(); i++ {
				sys.ActorOfF(func() vivid.Actor { return vivid.FunctionalActor(func(ctx vivid.ActorContext) {}) })
				spawned++
			}
		}()
	}
	wg.Wait()
	// registry: every temporary reply address is gone (event-driven wait with a cap)
	delta := 0
	// (every ask has completed; Unregister follows close(done) in the completing goroutine, so only
	// scheduling delay is waited for here)
	deadline := time.Now().Add(5 * time.Second)
	for {
		delta = len(vivid.VerifRegistryAddresses(sys)) - before - spawned
		if delta == 0 || time.Now().After(deadline) {
			break
		}
		time.Sleep(5 * time.Millisecond)
	}
	leaked := ""
	if delta != 0 {
		addrs := vivid.VerifRegistryAddresses(sys)
		sort.Strings(addrs)
		if len(addrs) > 0 {
			leaked = " sample=" + addrs[len(addrs)-1]
		}
	}
	var sb strings.Builder
	for _, c := range askClasses {
		fmt.Fprintf(&sb, "%s=%d ", c, tally.n[c])
	}
	fmt.Fprintf(&sb, "late=%d req=%d nilreq=%d regdelta=%d spawnpanic=%s maxms=%d%s", tally.late, req.Load(), nilreq.Load(), delta, b01(spawnPanic), tally.maxMs, leaked)
	return sb.String()
}

type askBoom struct{}

// askRestart: `askrestart <pending> <after>` — an actor has <pending> asks outstanding (silent receiver,
// 1.5 s timeout), fails and is restarted by the guard, and then asks the echo receiver <after> times
// through the context of its new incarnation. The reply addresses of the old and the new incarnation
// must not collide: every new ask gets its own reply (own=<after>), none hangs, the outstanding ones
// time out (ptimeout=<pending>), and every address is released.
func askRestart(t []string) string {
	pending, ok1 := proto.Atoi(t[1])
	after, ok2 := proto.Atoi(t[2])
	if !ok1 || !ok2 || pending < 0 || pending > 32 || after < 1 || after > 64 {
		return "bad-op"
	}
	logger := log.NewSilentLogger()
	sys := vivid.NewActorSystem(vivid.FunctionalActorSystemConfigurator(func(config *vivid.ActorSystemConfiguration) {
		config.WithLoggerProvider(log.FunctionalLoggerProvider(func() *log.Logger { return logger }))
	}))
	var req, nilreq, launches atomic.Int64
	echo := sys.ActorOfF(func() vivid.Actor {
		return vivid.FunctionalActor(func(ctx vivid.ActorContext) {
			switch m := ctx.Message().(type) {
			case *askMsg:
				req.Add(1)
				ctx.Reply(&askReply{m.asker, m.seq, 0})
			case nil:
				nilreq.Add(1)
			}
		})
	})
	silent := sys.ActorOfF(func() vivid.Actor { return vivid.FunctionalActor(func(ctx vivid.ActorContext) {}) })
	asker := sys.ActorOfF(func() vivid.Actor {
		return vivid.FunctionalActor(func(ctx vivid.ActorContext) {
			switch m := ctx.Message().(type) {
			case *vivid.OnLaunch:
				launches.Add(1)
			case *goMsg:
				m.run(ctx)
			case *askBoom:
				panic("askrestart: scripted failure")
			}
		})
	})
	waitLaunched(sys, 2+3)
	before := len(vivid.VerifRegistryAddresses(sys))
	tally := &askTally{n: map[string]int{}}
	pendTimeout := 1500 * time.Millisecond
	var pend []func() (any, error)
	started := make(chan struct{})
	sys.Tell(asker, &goMsg{run: func(ctx vivid.ActorContext) {
		for i := 0; i < pending; i++ {
			f := ctx.FutureAsk(silent, &askMsg{0, 1000 + i}, pendTimeout)
			pend = append(pend, func() (any, error) { return f.Result() })
		}
		close(started)
	}})
	select {
	case <-started:
	case <-time.After(10 * time.Second):
	}
	sys.Tell(asker, &askBoom{})
	deadline := time.Now().Add(15 * time.Second)
	for launches.Load() < 2 && time.Now().Before(deadline) {
		time.Sleep(time.Millisecond)
	}
	generous := 60 * time.Second
	doneAll := make(chan struct{})
	sys.Tell(asker, &goMsg{run: func(ctx vivid.ActorContext) {
		defer close(doneAll)
		hung := false
		for s := 0; s < after; s++ {
			if hung {
				tally.add("skipped", false)
				continue
			}
			f := ctx.FutureAsk(echo, &askMsg{0, s}, generous)
			o, h := await(func() (any, error) { return f.Result() }, 8*time.Second)
			switch {
			case h:
				hung = true
				tally.add("hang", false)
			case o.pan:
				tally.add("panic", false)
			default:
				tally.add(classify(0, s, o.v, o.err), false)
			}
		}
	}})
	select {
	case <-doneAll:
	case <-time.After(time.Duration(after)*9*time.Second + 20*time.Second):
	}
	ptimeout := 0
	for _, get := range pend {
		o, h := await(get, pendTimeout+hangMargin)
		if !h && !o.pan && errors.Is(o.err, future.ErrorFutureTimeout) {
			ptimeout++
		}
	}
	delta := 0
	dl := time.Now().Add(5 * time.Second)
	for {
		delta = len(vivid.VerifRegistryAddresses(sys)) - before
		if delta == 0 || time.Now().After(dl) {
			break
		}
		time.Sleep(5 * time.Millisecond)
	}
	var sb strings.Builder
	for _, c := range askClasses {
		fmt.Fprintf(&sb, "%s=%d ", c, tally.n[c])
	}
	fmt.Fprintf(&sb, "late=0 req=%d nilreq=%d regdelta=%d spawnpanic=0 maxms=0 ptimeout=%d launches=%d", req.Load(), nilreq.Load(), delta, ptimeout, launches.Load())
	done := make(chan struct{})
	go func() { defer func() { recover(); close(done) }(); sys.Shutdown(false) }()
	select {
	case <-done:
	case <-time.After(5 * time.Second):
	}
	return sb.String()
}

// waitLaunched waits (bounded) until n processes besides the dead-letter process are registered.
func waitLaunched(sys *vivid.ActorSystem, n int) {
	deadline := time.Now().Add(2 * time.Second)
	for len(vivid.VerifRegistryAddresses(sys)) < n+1 && time.Now().Before(deadline) {
		time.Sleep(200 * time.Microsecond)
	}
}

func askGen(rng *proto.RNG, tier string, shard, nshards int, w *bufio.Writer) {
	caseNo := 0
	emit := func(line string) {
		if caseNo%nshards == shard {
			fmt.Fprintf(w, "# case %d\n%s\n", caseNo, line)
		}
		caseNo++
	}
	entries := []string{"ctx", "sys", "typed", "sysspawn"}
	recvs := []string{"echo", "silent", "error", "double", "late"}
	generous := 60000000
	// (ii) small systematic sweep: every entry × receiver, one and several askers, generous timeout for
	// the replying receivers (the outcome is then determined), 20 ms for the silent ones
	for _, e := range entries {
		for _, r := range recvs {
			for _, n := range []int{1, 4} {
				tus := generous
				each := 6
				if r == "silent" || r == "late" {
					tus, each = 20000, 2
				}
				emit(fmt.Sprintf("ask %s %d %d %s %d", e, n, each, r, tus))
			}
		}
	}
	// concurrent askers sharing the id counter of the root context: many asks
	heavy := 600
	if tier == "thorough" {
		heavy = 4000
	}
	for _, e := range []string{"sys", "typed", "sysspawn"} {
		emit(fmt.Sprintf("ask %s 16 %d echo %d", e, heavy, generous))
		emit(fmt.Sprintf("ask %s 8 %d error %d", e, heavy/2, generous))
	}
	emit(fmt.Sprintf("ask ctx 16 %d echo %d", heavy/4, generous))
	// asks outstanding across a restart of the asking actor, then asks of the new incarnation
	for _, pa := range [][2]int{{1, 3}, {3, 6}, {0, 2}} {
		emit(fmt.Sprintf("askrestart %d %d", pa[0], pa[1]))
	}
	// (iii) random: small timeouts racing the reply
	n := 30
	if tier == "thorough" {
		n = 200
	}
	tmos := []int{1, 2, 5, 10, 30, 100, 300, 1000, 3000, 10000, 50000}
	for i := 0; i < n; i++ {
		e := entries[rng.Intn(len(entries))]
		r := recvs[rng.Pick(5, 1, 3, 3, 1)]
		askers := []int{1, 2, 3, 4, 8, 16}[rng.Intn(6)]
		each := rng.Range(1, 40)
		tus := tmos[rng.Intn(len(tmos))]
		if r == "silent" || r == "late" {
			each = rng.Range(1, 3)
			if tus > 10000 {
				tus = 10000
			}
		}
		emit(fmt.Sprintf("ask %s %d %d %s %d", e, askers, each, r, tus))
	}
	// malformed
	if shard == 0 {
		fmt.Fprintf(w, "# case malformed\nask\nask sys 0 1 echo 10\nask sys 1 1 echo 0\nask nobody 1 1 echo 10\nask sys 1 1 shout 10\nask sys x 1 echo 10\nbogus 1\n")
	}
}

func init() {
	proto.Register(&proto.Suite{Name: "ask", Gen: askGen, New: func() proto.Runner { return askRunner{} }})
}
