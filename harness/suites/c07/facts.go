package c07

// Suite `future-facts` (T-facts): the skeleton of shared-memory operations of every function the
// model MV.Model.Future was transcribed from, regenerated from /repo's source with go/ast on every
// run and compared with the table in MV.Model.FutureFacts. Unlike the generic extractor this one
// also keeps plain assignments (f.message = …, f.err = …, fp.ref = id, f.rc = rc, reply =
// wrapper.Message), because their position relative to close(f.done) / rc.Register and which value
// is switched on is what the proofs use.
//
//	facts <file-key> <Func>

import (
	"bufio"
	"bytes"
	"fmt"
	"go/ast"
	"go/parser"
	"go/printer"
	"go/token"
	"os"
	"path/filepath"
	"regexp"
	"strings"

	"verifharness/internal/proto"
)

func repoRoot() string {
	if r := os.Getenv("VERIF_REPO"); r != "" {
		return r
	}
	return "/repo"
}

var factFiles = map[string]string{
	"future":  "engine/future/future.go",
	"context": "engine/vivid/actor_context.go",
	"system":  "engine/vivid/actor_system.go",
	"typed":   "engine/vivid/future.go",
}

// [file-key, receiver type ("" = plain function), function]
var factFuncs = [][3]string{
	{"future", "", "New"},
	{"future", "futureProcess", "Initialize"},
	{"future", "futureProcess", "DeliveryUserMessage"},
	{"future", "futureProcess", "DeliverySystemMessage"},
	{"future", "futureProcess", "Close"},
	{"future", "futureProcess", "complete"},
	{"future", "futureProcess", "Forward"},
	{"future", "futureProcess", "execForward"},
	{"future", "futureProcess", "Result"},
	{"future", "futureProcess", "IsTerminated"},
	{"context", "actorContext", "nextChildGuid"},
	{"context", "actorContext", "FutureAsk"},
	{"context", "actorContext", "deliveryUserMessage"},
	{"system", "ActorSystem", "FutureAsk"},
	{"typed", "", "FutureAsk"},
}

var factKeep = regexp.MustCompile(`^(atomic\.|verifhook\.At|close\(|time\.AfterFunc\(|future\.New\[|prc\.WrapMessage\(|[A-Za-z_][A-Za-z0-9_]*(\.[A-Za-z_][A-Za-z0-9_]*)*\.(Lock|Unlock|Load|Store|Add|CompareAndSwap|Register|Unregister|GetProcess|Stop|Close|complete|execForward|Forward|DeliveryUserMessage|deliveryUserMessage|findProcess|nextChildGuid|FutureAsk|Result)\()`)

type fx struct {
	fset *token.FileSet
	recv string // receiver variable name ("" = none)
	out  []string
}

func (e *fx) render(n ast.Node) string {
	var b bytes.Buffer
	printer.Fprint(&b, e.fset, n)
	return strings.Join(strings.Fields(b.String()), " ")
}

func (e *fx) hasKeptCall(n ast.Node) bool {
	found := false
	ast.Inspect(n, func(x ast.Node) bool {
		if _, ok := x.(*ast.FuncLit); ok {
			return false
		}
		if c, ok := x.(*ast.CallExpr); ok && factKeep.MatchString(e.render(c)) {
			found = true
		}
		return !found
	})
	return found
}

// assignsField: an assignment whose left side is a field of a local struct pointer (f.x, fp.x, ctx.x)
func (e *fx) assignsField(s ast.Stmt) bool {
	switch v := s.(type) {
	case *ast.AssignStmt:
		for _, l := range v.Lhs {
			if sel, ok := l.(*ast.SelectorExpr); ok {
				if _, ok := sel.X.(*ast.Ident); ok {
					return true
				}
			}
		}
	case *ast.IncDecStmt:
		if _, ok := v.X.(*ast.SelectorExpr); ok {
			return true
		}
	}
	return false
}

func (e *fx) emit(s string) { e.out = append(e.out, s) }

func (e *fx) block(b *ast.BlockStmt) {
	if b == nil {
		return
	}
	for _, s := range b.List {
		e.stmt(s)
	}
}

func (e *fx) funcLit(prefix string, call *ast.CallExpr) bool {
	if fl, ok := call.Fun.(*ast.FuncLit); ok {
		e.emit(prefix + " {")
		e.block(fl.Body)
		e.emit("}")
		return true
	}
	return false
}

func (e *fx) stmt(s ast.Stmt) {
	switch v := s.(type) {
	case *ast.BlockStmt:
		e.block(v)
	case *ast.IfStmt:
		if v.Init != nil {
			e.stmt(v.Init)
		}
		e.emit("if " + e.render(v.Cond) + " {")
		e.block(v.Body)
		if v.Else != nil {
			e.emit("} else {")
			e.stmt(v.Else)
		}
		e.emit("}")
	case *ast.ForStmt, *ast.RangeStmt:
		var body *ast.BlockStmt
		head := "for {"
		if r, ok := v.(*ast.RangeStmt); ok {
			head, body = "range "+e.render(r.X)+" {", r.Body
		} else {
			f := v.(*ast.ForStmt)
			body = f.Body
			if f.Cond != nil {
				head = "for " + e.render(f.Cond) + " {"
			}
		}
		e.emit(head)
		e.block(body)
		e.emit("}")
	case *ast.SwitchStmt, *ast.TypeSwitchStmt:
		var body *ast.BlockStmt
		head := "switch {"
		if t, ok := v.(*ast.TypeSwitchStmt); ok {
			head, body = "typeswitch "+e.render(t.Assign)+" {", t.Body
		} else {
			sw := v.(*ast.SwitchStmt)
			body = sw.Body
			if sw.Tag != nil {
				head = "switch " + e.render(sw.Tag) + " {"
			}
		}
		e.emit(head)
		for _, c := range body.List {
			cc := c.(*ast.CaseClause)
			if cc.List == nil {
				e.emit("default:")
			} else {
				var l []string
				for _, x := range cc.List {
					l = append(l, e.render(x))
				}
				e.emit("case " + strings.Join(l, ", ") + ":")
			}
			for _, b := range cc.Body {
				e.stmt(b)
			}
		}
		e.emit("}")
	case *ast.ReturnStmt:
		if e.hasKeptCall(v) {
			e.emit(e.render(v))
		} else {
			e.emit("return")
		}
	case *ast.DeferStmt:
		if !e.funcLit("defer", v.Call) {
			e.emit(e.render(v))
		}
	case *ast.GoStmt:
		if !e.funcLit("go", v.Call) {
			e.emit(e.render(v))
		}
	case *ast.ExprStmt:
		if u, ok := v.X.(*ast.UnaryExpr); ok && u.Op == token.ARROW {
			e.emit("recv " + e.render(v.X))
			return
		}
		if e.hasKeptCall(v) {
			e.emit(e.render(v))
		}
	case *ast.AssignStmt:
		// a function literal on the right (timer callback): keep its body
		for _, r := range v.Rhs {
			if c, ok := r.(*ast.CallExpr); ok {
				for _, a := range c.Args {
					if fl, ok := a.(*ast.FuncLit); ok {
						e.emit(e.render(v.Lhs[0]) + " = " + e.render(c.Fun) + "(…, func() {")
						e.block(fl.Body)
						e.emit("})")
						return
					}
				}
			}
		}
		// every assignment is kept (the functions are small; which value goes where is the point)
		e.emit(e.render(v))
	case *ast.IncDecStmt:
		if e.assignsField(v) {
			e.emit(e.render(v))
		}
	case *ast.BranchStmt:
		e.emit(v.Tok.String())
	}
}

func skeleton(path, recv, name string) (string, error) {
	fset := token.NewFileSet()
	f, err := parser.ParseFile(fset, path, nil, 0)
	if err != nil {
		return "", err
	}
	for _, d := range f.Decls {
		fd, ok := d.(*ast.FuncDecl)
		if !ok || fd.Name.Name != name {
			continue
		}
		r := ""
		if fd.Recv != nil && len(fd.Recv.List) > 0 {
			t := fd.Recv.List[0].Type
			if s, ok := t.(*ast.StarExpr); ok {
				t = s.X
			}
			if ix, ok := t.(*ast.IndexExpr); ok {
				t = ix.X
			}
			if ix, ok := t.(*ast.IndexListExpr); ok {
				t = ix.X
			}
			if id, ok := t.(*ast.Ident); ok {
				r = id.Name
			}
		}
		if r != recv {
			continue
		}
		e := &fx{fset: fset}
		e.block(fd.Body)
		return strings.Join(e.out, " ; "), nil
	}
	return "", fmt.Errorf("function %s.%s not found in %s", recv, name, path)
}

type factsRunner struct{}

func (factsRunner) Reset() {}
func (factsRunner) Step(t []string) string {
	if len(t) != 3 || t[0] != "facts" {
		return "bad-op"
	}
	for _, ff := range factFuncs {
		if ff[0] == t[1] && ff[2] == t[2] {
			s, err := skeleton(filepath.Join(repoRoot(), factFiles[ff[0]]), ff[1], ff[2])
			if err != nil {
				return "err:" + strings.ReplaceAll(err.Error(), " ", "_")
			}
			if s == "" {
				return "(nothing)"
			}
			return s
		}
	}
	return "bad-op"
}

func factsGen(rng *proto.RNG, tier string, shard, nshards int, w *bufio.Writer) {
	if shard != 0 {
		return
	}
	fmt.Fprintln(w, "# case facts")
	for _, ff := range factFuncs {
		fmt.Fprintf(w, "facts %s %s\n", ff[0], ff[2])
	}
	fmt.Fprintln(w, "# case malformed")
	fmt.Fprintln(w, "facts future Nope")
	fmt.Fprintln(w, "facts nowhere New")
	fmt.Fprintln(w, "facts")
}

func init() {
	proto.Register(&proto.Suite{Name: "future-facts", Gen: factsGen, New: func() proto.Runner { return factsRunner{} }})
}
