package mbx

import (
	"bufio"
	"fmt"
	"sync"
	"sync/atomic"
	"time"

	"github.com/kercylan98/minotaur/engine/vivid/dispatcher"
	"github.com/panjf2000/ants/v2"
	"verifharness/internal/proto"
)

// dispatchers: both shipped dispatchers run every submitted function exactly once (the model's
// assumption "Dispatch(f) = a new thread that runs f once"), also when the ants pool is saturated
// (non-blocking pool -> `go f()` fallback) or already released.

type dispRunner struct{}

func (dispRunner) Reset() {}

func (dispRunner) Step(t []string) string {
	if len(t) < 3 {
		return "bad-op"
	}
	n, ok := proto.Atoi(t[len(t)-1])
	if !ok || n < 0 || n > 100000 {
		return "bad-op"
	}
	var d dispatcher.Dispatcher
	switch t[0] {
	case "goroutine":
		d = dispatcher.NewGoroutine()
	case "ants":
		size, ok := proto.Atoi(t[1])
		if !ok {
			return "bad-op"
		}
		var opts []ants.Option
		released := false
		for _, o := range t[2 : len(t)-1] {
			switch o {
			case "nonblocking":
				opts = append(opts, ants.WithNonblocking(true))
			case "released":
				released = true
			case "plain":
			default:
				return "bad-op"
			}
		}
		a, err := dispatcher.NewAnts(size, opts...)
		if err != nil {
			return "err:newants"
		}
		if released {
			p, err2 := ants.NewPool(1)
			_ = p
			_ = err2
		}
		d = a
	default:
		return "bad-op"
	}
	counts := make([]int32, n)
	var wg sync.WaitGroup
	wg.Add(n)
	gate := make(chan struct{})
	for i := 0; i < n; i++ {
		i := i
		d.Dispatch(func() {
			if i%3 == 0 {
				<-gate // keep some workers busy so that a small pool saturates
			}
			atomic.AddInt32(&counts[i], 1)
			wg.Done()
		})
	}
	close(gate)
	done := make(chan struct{})
	go func() { wg.Wait(); close(done) }()
	select {
	case <-done:
	case <-time.After(20 * time.Second):
		return "hang"
	}
	time.Sleep(2 * time.Millisecond) // a duplicate execution would show up as a count of 2
	bad := 0
	for _, c := range counts {
		if c != 1 {
			bad++
		}
	}
	return fmt.Sprintf("dispatched=%d not-exactly-once=%d", n, bad)
}

func dispGen(rng *proto.RNG, tier string, shard, nshards int, w *bufio.Writer) {
	if shard != 0 {
		return
	}
	k := 0
	emit := func(l string) { fmt.Fprintf(w, "# case d%d\n%s\n", k, l); k++ }
	for _, n := range []int{0, 1, 2, 17, 500} {
		emit(fmt.Sprintf("goroutine - %d", n))
	}
	for _, size := range []int{1, 2, 8} {
		for _, n := range []int{1, 3, 40} {
			emit(fmt.Sprintf("ants %d nonblocking %d", size, n))
		}
	}
	reps := 3
	if tier == "thorough" {
		reps = 40
	}
	for i := 0; i < reps; i++ {
		emit(fmt.Sprintf("ants %d nonblocking %d", rng.Range(1, 4), rng.Range(1, 300)))
		emit(fmt.Sprintf("goroutine - %d", rng.Range(1, 300)))
	}
}

func RegisterDispatch() {
	proto.Register(&proto.Suite{Name: "dispatchers", Gen: dispGen, New: func() proto.Runner { return dispRunner{} }})
}
