package mbx

import (
	"bufio"
	"fmt"
	"os"
	"path/filepath"
	"strings"

	"verifharness/internal/facts"
	"verifharness/internal/proto"
)

// mailbox-facts (T-facts): the skeleton of shared-memory operations of every mailbox function,
// regenerated from /repo's source on every run and compared with the table the Lean model was
// transcribed from (MV.Model.MailboxFacts). Type names are normalised so that both mailbox files
// must yield the same program.

func repoRoot() string {
	if r := os.Getenv("VERIF_REPO"); r != "" {
		return r
	}
	return "/repo"
}

var mbFuncs = []string{"Suspend", "Resume", "DeliveryUserMessage", "DeliverySystemMessage", "dispatch", "process", "processHandle"}

type factsRunner struct{}

func (factsRunner) Reset() {}
func (factsRunner) Step(t []string) string {
	if len(t) != 3 || t[0] != "facts" {
		return "bad-op"
	}
	file, recv := "lock_free.go", "LockFree"
	if t[1] == "globalordered" {
		file, recv = "global_ordered_lock_free.go", "GlobalOrderedLockFree"
	} else if t[1] != "lockfree" {
		return "bad-op"
	}
	s, err := facts.Skeleton(filepath.Join(repoRoot(), "engine/vivid/mailbox", file), recv, t[2], nil)
	if err != nil {
		return "err:" + strings.ReplaceAll(err.Error(), " ", "_")
	}
	return s
}

func factsGen(rng *proto.RNG, tier string, shard, nshards int, w *bufio.Writer) {
	if shard != 0 {
		return
	}
	fmt.Fprintln(w, "# case facts")
	for _, k := range []string{"lockfree", "globalordered"} {
		for _, f := range mbFuncs {
			fmt.Fprintf(w, "facts %s %s\n", k, f)
		}
	}
}

func RegisterFacts() {
	proto.Register(&proto.Suite{Name: "mailbox-facts", Gen: factsGen, New: func() proto.Runner { return factsRunner{} }})
}
