// Package mbx is the T-sched suite for the two lock-free mailboxes: the instrumented Go mailbox
// runs under the controlled scheduler, one scheduling quantum per `run` line, and the Lean model
// (MV.Model.Mailbox) executes the same schedule. Shared by C01 and C02.
package mbx

import (
	"bufio"
	"fmt"
	"strings"

	"github.com/kercylan98/minotaur/engine/prc"
	"github.com/kercylan98/minotaur/engine/vivid/mailbox"
	"verifharness/internal/proto"
	"verifharness/internal/sched"
)

type msg struct {
	id     int
	panics bool
}

func (m *msg) String() string {
	if m.panics {
		return fmt.Sprintf("%d!", m.id)
	}
	return fmt.Sprint(m.id)
}

type recipient struct {
	sc    *sched.Sched
	trace []string
}

func (r *recipient) handle(kind string, message prc.Message) {
	m := message.(*msg)
	r.sc.Yield("h.enter")
	r.trace = append(r.trace, "enter:"+kind+":"+m.String())
	r.sc.Yield("h.in")
	r.trace = append(r.trace, "exit:"+kind+":"+m.String())
	if m.panics {
		panic("handler failure")
	}
}
func (r *recipient) ProcessUserMessage(message prc.Message)   { r.handle("u", message) }
func (r *recipient) ProcessSystemMessage(message prc.Message) { r.handle("s", message) }
func (r *recipient) ProcessAccident(reason prc.Message) {
	r.sc.Yield("h.acc")
	r.trace = append(r.trace, "accident")
}

type disp struct{ sc *sched.Sched }

func (d *disp) Dispatch(f func()) { d.sc.Go(f) }

// Run is one mailbox under the controlled scheduler.
type Run struct {
	sc      *sched.Sched
	mb      mailbox.Mailbox
	rec     *recipient
	pushedS []int
	pushedU []int
	kinds   map[int]*msg // tid -> message a sender thread is about to push
	sysTid  map[int]bool
	seen    int // trace entries already reported
}

func NewRun(kind string) *Run {
	sc := sched.New()
	sc.Filter = func(site string) bool { return strings.HasPrefix(site, "mb.") || strings.HasPrefix(site, "h.") }
	rec := &recipient{sc: sc}
	r := &Run{sc: sc, rec: rec, kinds: map[int]*msg{}, sysTid: map[int]bool{}}
	if kind == "globalordered" {
		r.mb = mailbox.NewGlobalOrderedLockFree(&disp{sc}, rec)
	} else {
		r.mb = mailbox.NewLockFree(&disp{sc}, rec)
	}
	return r
}

func (r *Run) Close() { r.sc.Close() }

func (r *Run) state() string {
	st, sn, un, su, _ := mailbox.VerifState(r.mb)
	return fmt.Sprintf("run=%d susp=%d sys=%d usr=%d", st, su, sn, un)
}

// Spawn starts a thread: u <id> <p> | s <id> <p> | susp | res
func (r *Run) Spawn(t []string) string {
	var tid int
	switch {
	case len(t) == 3 && (t[0] == "u" || t[0] == "s"):
		id, ok1 := proto.Atoi(t[1])
		p, ok2 := proto.Atoi(t[2])
		if !ok1 || !ok2 {
			return "bad-op"
		}
		m := &msg{id: id, panics: p != 0}
		if t[0] == "u" {
			tid = r.sc.Go(func() { r.mb.DeliveryUserMessage(m) })
		} else {
			tid = r.sc.Go(func() { r.mb.DeliverySystemMessage(m) })
			r.sysTid[tid] = true
		}
		r.kinds[tid] = m
	case len(t) == 1 && t[0] == "susp":
		tid = r.sc.Go(func() { r.mb.Suspend() })
	case len(t) == 1 && t[0] == "res":
		tid = r.sc.Go(func() { r.mb.Resume() })
	default:
		return "bad-op"
	}
	site, _, _ := r.sc.Site(tid)
	return fmt.Sprintf("t%d@%s", tid, site)
}

func (r *Run) Live() []int { return r.sc.Live() }

// RunThread executes one quantum of thread tid.
func (r *Run) RunThread(tid int) string {
	before, _, exists := r.sc.Site(tid)
	if !exists {
		return "skip"
	}
	site, done, spawned, ok := r.sc.Step(tid)
	if !ok {
		return "skip"
	}
	// push linearisation order: the quantum that started at mb.upush / mb.spush performed the push
	if before == "mb.upush" {
		r.pushedU = append(r.pushedU, r.kinds[tid].id)
	} else if before == "mb.spush" {
		r.pushedS = append(r.pushedS, r.kinds[tid].id)
	}
	if done {
		site = "done"
	}
	ev := r.rec.trace[r.seen:]
	r.seen = len(r.rec.trace)
	sp := make([]string, len(spawned))
	for i, s := range spawned {
		sp[i] = fmt.Sprintf("t%d", s)
	}
	return fmt.Sprintf("t%d@%s ev=[%s] spawn=[%s] %s", tid, site, strings.Join(ev, " "), strings.Join(sp, " "), r.state())
}

// Drain runs the lowest live thread until nobody is live and prints the final line.
func (r *Run) Drain() string {
	for i := 0; i < 3000; i++ {
		l := r.sc.Live()
		if len(l) == 0 {
			break
		}
		r.RunThread(l[0])
	}
	var eS, eU []int
	for _, e := range r.rec.trace {
		var k string
		var id int
		if strings.HasPrefix(e, "enter:") {
			p := strings.Split(e, ":")
			k = p[1]
			fmt.Sscanf(strings.TrimSuffix(p[2], "!"), "%d", &id)
			if k == "s" {
				eS = append(eS, id)
			} else {
				eU = append(eU, id)
			}
		}
	}
	return fmt.Sprintf("%s trace=[%s] pushedS=%s pushedU=%s enteredS=%s enteredU=%s", r.state(),
		strings.Join(r.rec.trace, " "), proto.FmtInts(r.pushedS), proto.FmtInts(r.pushedU), proto.FmtInts(eS), proto.FmtInts(eU))
}

type runner struct{ r *Run }

func (x *runner) Reset() {
	if x.r != nil {
		x.r.Close()
		x.r = nil
	}
}

func (x *runner) Step(t []string) string {
	if t[0] == "mailbox" {
		x.Reset()
		k := "lockfree"
		if len(t) > 1 {
			k = t[1]
		}
		x.r = NewRun(k)
		return "ok"
	}
	if x.r == nil {
		x.r = NewRun("lockfree")
	}
	switch {
	case t[0] == "spawn":
		return x.r.Spawn(t[1:])
	case t[0] == "run" && len(t) == 2:
		k, ok := proto.Atoi(t[1])
		if !ok {
			return "bad-op"
		}
		return x.r.RunThread(k)
	case t[0] == "drain" && len(t) == 1:
		return x.r.Drain()
	}
	return "bad-op"
}

// ---------------------------------------------------------------- generation

type scenario struct {
	kind   string
	spawns [][]string
}

func scenarios() []scenario {
	var out []scenario
	id := 0
	for _, kind := range []string{"lockfree", "globalordered"} {
		for nu := 1; nu <= 2; nu++ {
			for ns := 0; ns <= 1; ns++ {
				for sr := 0; sr < 4; sr++ { // bit0: suspender, bit1: resumer
					for pk := 0; pk < 3; pk++ { // 0 none, 1 first user msg panics, 2 sys msg panics
						if pk == 2 && ns == 0 {
							continue
						}
						var sp [][]string
						for u := 0; u < nu; u++ {
							id++
							p := "0"
							if pk == 1 && u == 0 {
								p = "1"
							}
							sp = append(sp, []string{"u", fmt.Sprint(id), p})
						}
						for s := 0; s < ns; s++ {
							id++
							p := "0"
							if pk == 2 {
								p = "1"
							}
							sp = append(sp, []string{"s", fmt.Sprint(id), p})
						}
						if sr&1 != 0 {
							sp = append(sp, []string{"susp"})
						}
						if sr&2 != 0 {
							sp = append(sp, []string{"res"})
						}
						out = append(out, scenario{kind, sp})
					}
				}
			}
		}
	}
	return out
}

// replay executes a schedule prefix on a fresh mailbox and returns the run (caller closes it).
func replay(sc scenario, prefix []int) *Run {
	r := NewRun(sc.kind)
	for _, s := range sc.spawns {
		r.Spawn(s)
	}
	for _, t := range prefix {
		r.RunThread(t)
	}
	return r
}

// dfs enumerates every complete schedule of the scenario with at most bound pre-emptions
// (stateless exploration of the real code), calling emit for each.
func dfs(sc scenario, bound int, limit int, emit func(sched []int)) {
	n := 0
	var rec func(prefix []int, pre int)
	rec = func(prefix []int, pre int) {
		if n >= limit {
			return
		}
		r := replay(sc, prefix)
		live := r.Live()
		r.Close()
		if len(live) == 0 || len(prefix) >= 300 {
			// complete schedule (or a run that does not terminate: cut, the model must agree so far)
			n++
			emit(append([]int(nil), prefix...))
			return
		}
		last := -1
		if len(prefix) > 0 {
			last = prefix[len(prefix)-1]
		}
		lastLive := false
		for _, t := range live {
			if t == last {
				lastLive = true
			}
		}
		// continue the same thread first (no pre-emption), then the others
		order := live
		if lastLive {
			order = []int{last}
			for _, t := range live {
				if t != last {
					order = append(order, t)
				}
			}
		}
		for _, t := range order {
			cost := 0
			if lastLive && t != last {
				cost = 1
			}
			if pre+cost > bound {
				continue
			}
			rec(append(prefix, t), pre+cost)
		}
	}
	rec(nil, 0)
}

func gen(rng *proto.RNG, tier string, shard, nshards int, w *bufio.Writer) {
	caseNo := 0
	emit := func(lines []string) {
		fmt.Fprintf(w, "# case %d.%d\n", shard, caseNo)
		for _, l := range lines {
			fmt.Fprintln(w, l)
		}
		caseNo++
	}
	header := func(sc scenario) []string {
		lines := []string{"mailbox " + sc.kind}
		for _, s := range sc.spawns {
			lines = append(lines, "spawn "+strings.Join(s, " "))
		}
		return lines
	}
	bound, limit := 2, 150
	if tier == "thorough" {
		bound, limit = 3, 3000
	}
	// (ii) systematic: pre-emption bounded DFS over the scenario family (scenarios sharded)
	for i, sc := range scenarios() {
		if i%nshards != shard {
			continue
		}
		dfs(sc, bound, limit, func(s []int) {
			lines := header(sc)
			for _, t := range s {
				lines = append(lines, fmt.Sprintf("run %d", t))
			}
			lines = append(lines, "drain")
			emit(lines)
		})
	}
	// (ii') a long burst handled in ONE runner activation (nothing in the protocol may depend on how many
	// messages a runner has already handled): 330 user messages are queued, then the runner works through
	// them; as soon as a second live thread shows up (only a defective mailbox dispatches one here) the two
	// are run alternately, quantum by quantum, so that an overlap of handlers becomes visible
	if shard == 0 {
		for _, kind := range []string{"lockfree", "globalordered"} {
			r := NewRun(kind)
			lines := []string{"mailbox " + kind}
			for id := 1; id <= 330; id++ {
				sp := []string{"u", fmt.Sprint(id), "0"}
				r.Spawn(sp)
				lines = append(lines, "spawn "+strings.Join(sp, " "))
			}
			// the senders push and leave (lowest thread first); the first one dispatches the runner.
			// Should a second runner ever be live: park the first one inside the handler (`h.in`), then
			// drive the second one into the handler as well
			phase := 0
			for guard := 0; guard < 40000; guard++ {
				live := r.Live()
				if len(live) == 0 {
					break
				}
				t := live[0]
				if len(live) >= 2 && live[0] >= 330 {
					switch phase {
					case 0, 1:
						t = live[phase]
					default:
						t = live[guard%2]
					}
				}
				out := r.RunThread(t)
				lines = append(lines, fmt.Sprintf("run %d", t))
				if len(live) >= 2 && live[0] >= 330 && phase < 2 && strings.Contains(out, "@h.in") {
					phase++
				}
			}
			r.Close()
			lines = append(lines, "drain")
			emit(lines)
		}
	}
	// (iii) random: more threads, late arrivals, uniformly random choice among live threads
	nRandom := 40
	if tier == "thorough" {
		nRandom = 600
	}
	for c := 0; c < nRandom; c++ {
		kind := "lockfree"
		if rng.Bool() {
			kind = "globalordered"
		}
		r := NewRun(kind)
		lines := []string{"mailbox " + kind}
		id := 0
		spawn := func() {
			var s []string
			switch rng.Pick(6, 3, 1, 2) {
			case 0:
				id++
				p := "0"
				if rng.Intn(6) == 0 {
					p = "1"
				}
				s = []string{"u", fmt.Sprint(id), p}
			case 1:
				id++
				p := "0"
				if rng.Intn(6) == 0 {
					p = "1"
				}
				s = []string{"s", fmt.Sprint(id), p}
			case 2:
				s = []string{"susp"}
			default:
				s = []string{"res"}
			}
			r.Spawn(s)
			lines = append(lines, "spawn "+strings.Join(s, " "))
		}
		for k := rng.Range(1, 4); k > 0; k-- {
			spawn()
		}
		steps := rng.Range(10, 160)
		for k := 0; k < steps; k++ {
			if rng.Intn(8) == 0 && id < 14 {
				spawn()
				continue
			}
			live := r.Live()
			if len(live) == 0 {
				if id >= 14 {
					break
				}
				spawn()
				continue
			}
			// sticky choice: mostly continue the last thread to get long runs with rare switches
			t := live[rng.Intn(len(live))]
			r.RunThread(t)
			lines = append(lines, fmt.Sprintf("run %d", t))
			if rng.Intn(25) == 0 {
				lines = append(lines, fmt.Sprintf("run %d", rng.Intn(30))) // malformed: dead / unknown thread
				r.RunThread(-1)
			}
		}
		r.Close()
		lines = append(lines, "drain")
		emit(lines)
	}
}

// Register adds the suite under the given name.
func Register() {
	proto.Register(&proto.Suite{Name: "mailbox", Gen: gen, New: func() proto.Runner { return &runner{} }})
}
