package c20

import (
	"bufio"
	"fmt"
	"strconv"
	"strings"

	"github.com/kercylan98/minotaur/toolkit/navigate/astar"
	"verifharness/internal/proto"
)

// astar / astarj: astar.Find on integer-weighted graphs against MV.Model.AStar (exact path, the Go
// heap's tie-breaking is part of the model), the abstract optimum (spec) and the Lean judge
// (path valid, cost = sum, cost = optimum when the heuristic is consistent).

type agraph struct {
	n     int
	nbrs  [][]int
	cost  map[[2]int]float64
	gridW int
	htab  []float64
}

func (g *agraph) GetNodeId(v int) int       { return v }
func (g *agraph) GetNeighbours(v int) []int { return g.nbrs[v] }

type astarRunner struct{ g *agraph }

func (r *astarRunner) Reset() { r.g = &agraph{cost: map[[2]int]float64{}} }

func absInt(a int) int {
	if a < 0 {
		return -a
	}
	return a
}

func (g *agraph) heur(a, goal int) float64 {
	if g.gridW > 0 {
		return float64(absInt(a%g.gridW-goal%g.gridW) + absInt(a/g.gridW-goal/g.gridW))
	}
	return g.htab[a]
}

func natTok(s string) (int, bool) {
	if s == "" || s[0] == '+' || s[0] == '-' || strings.Contains(s, "_") {
		return 0, false
	}
	v, err := strconv.Atoi(s)
	if err != nil || v < 0 {
		return 0, false
	}
	return v, true
}

func natToks(t []string) ([]int, bool) {
	out := make([]int, len(t))
	for i, s := range t {
		v, ok := natTok(s)
		if !ok {
			return nil, false
		}
		out[i] = v
	}
	return out, true
}

func (g *agraph) addEdge(u, v, w int) {
	g.nbrs[u] = append(g.nbrs[u], v)
	g.cost[[2]int{u, v}] = float64(w)
}

func fmtNum(f float64) string {
	if f == float64(int64(f)) {
		return strconv.FormatInt(int64(f), 10)
	}
	return strconv.FormatFloat(f, 'g', -1, 64)
}

// run the real A*
func (g *agraph) find(s, e int) []int {
	return astar.Find[int, int](g, s, e,
		func(a, b int) float64 { return g.cost[[2]int{a, b}] },
		func(a, b int) float64 { return g.heur(a, b) })
}

func (g *agraph) pathCost(p []int) float64 {
	c := 0.0
	for i := 1; i < len(p); i++ {
		c += g.cost[[2]int{p[i-1], p[i]}]
	}
	return c
}

// the harness's own Dijkstra (O(n^2), no heap) for the cross-check
func (g *agraph) dijkstra(s, e int) (float64, bool) {
	const inf = 1e300
	dist := make([]float64, g.n)
	done := make([]bool, g.n)
	for i := range dist {
		dist[i] = inf
	}
	dist[s] = 0
	for {
		u := -1
		for i := 0; i < g.n; i++ {
			if !done[i] && dist[i] < inf && (u < 0 || dist[i] < dist[u]) {
				u = i
			}
		}
		if u < 0 {
			break
		}
		done[u] = true
		for _, v := range g.nbrs[u] {
			if d := dist[u] + g.cost[[2]int{u, v}]; d < dist[v] {
				dist[v] = d
			}
		}
	}
	return dist[e], dist[e] < inf
}

func (r *astarRunner) Step(t []string) string {
	g := r.g
	switch {
	case t[0] == "graph" && len(t) == 2:
		n, ok := natTok(t[1])
		if !ok || n > 5000 {
			return "bad-op"
		}
		r.g = &agraph{n: n, nbrs: make([][]int, n), cost: map[[2]int]float64{}, htab: make([]float64, n)}
		return "ok"
	case (t[0] == "edge" || t[0] == "uedge") && len(t) == 4:
		a, ok := natToks(t[1:])
		if !ok || a[0] >= g.n || a[1] >= g.n || a[2] > 1000000 || g.gridW != 0 {
			return "bad-op"
		}
		g.addEdge(a[0], a[1], a[2])
		if t[0] == "uedge" {
			g.addEdge(a[1], a[0], a[2])
		}
		return "ok"
	case t[0] == "hs":
		a, ok := natToks(t[1:])
		if !ok || len(a) != g.n || g.gridW != 0 {
			return "bad-op"
		}
		for _, x := range a {
			if x > 1000000 {
				return "bad-op"
			}
		}
		for i, x := range a {
			g.htab[i] = float64(x)
		}
		return "ok"
	case t[0] == "grid" && len(t) == 4:
		a, ok := natToks(t[1:])
		if !ok || a[0] <= 0 || a[1] <= 0 || a[0] > 30 || a[1] > 30 || a[0]*a[1] > 30 || a[2] >= 1<<uint(a[0]*a[1]) {
			return "bad-op"
		}
		w, h, mask := a[0], a[1], a[2]
		n := w * h
		ng := &agraph{n: n, nbrs: make([][]int, n), cost: map[[2]int]float64{}, gridW: w}
		free := func(c int) bool { return mask&(1<<uint(c)) == 0 }
		for c := 0; c < n; c++ {
			x, y := c%w, c/w
			var cand []int
			if y > 0 {
				cand = append(cand, c-w)
			}
			if x+1 < w {
				cand = append(cand, c+1)
			}
			if y+1 < h {
				cand = append(cand, c+w)
			}
			if x > 0 {
				cand = append(cand, c-1)
			}
			for _, d := range cand {
				if free(d) {
					ng.addEdge(c, d, 1)
				}
			}
		}
		r.g = ng
		return "ok"
	case (t[0] == "find" || t[0] == "cost" || t[0] == "dij") && len(t) == 3:
		a, ok := natToks(t[1:])
		if !ok || a[0] >= g.n || a[1] >= g.n {
			return "bad-op"
		}
		if t[0] == "dij" {
			d, ok := g.dijkstra(a[0], a[1])
			if !ok {
				return "none"
			}
			return fmtNum(d)
		}
		return guardedSmall(func() string {
			p := g.find(a[0], a[1])
			if len(p) == 0 {
				return "none"
			}
			if t[0] == "cost" {
				return fmtNum(g.pathCost(p))
			}
			return fmtNum(g.pathCost(p)) + " " + proto.FmtInts(p)
		})
	}
	return "bad-op"
}

// ---- generator

type caseEmitter struct {
	caseNo, shard, nshards int
	w                      *bufio.Writer
}

func (e *caseEmitter) emit(lines []string) {
	if e.caseNo%e.nshards == e.shard {
		fmt.Fprintf(e.w, "# case %d\n", e.caseNo)
		for _, l := range lines {
			fmt.Fprintln(e.w, l)
		}
	}
	e.caseNo++
}

// mine reports whether the next case belongs to this shard (to skip building its lines otherwise)
func (e *caseEmitter) mine() bool { return e.caseNo%e.nshards == e.shard }
func (e *caseEmitter) skip()      { e.caseNo++ }

func gridCase(w, h, mask int) []string {
	lines := []string{fmt.Sprintf("grid %d %d %d", w, h, mask)}
	n := w * h
	for s := 0; s < n; s++ {
		for g := 0; g < n; g++ {
			lines = append(lines, fmt.Sprintf("find %d %d", s, g))
		}
	}
	return lines
}

// reverse Dijkstra distances to goal on the generated edge list (for consistent heuristics)
func distTo(n int, edges [][3]int, goal int) []int {
	const inf = 1 << 40
	d := make([]int, n)
	for i := range d {
		d[i] = inf
	}
	d[goal] = 0
	for it := 0; it < n; it++ {
		ch := false
		for _, e := range edges {
			if d[e[1]] < inf && d[e[1]]+e[2] < d[e[0]] {
				d[e[0]] = d[e[1]] + e[2]
				ch = true
			}
		}
		if !ch {
			break
		}
	}
	for i := range d {
		if d[i] >= inf {
			d[i] = 0
		}
	}
	return d
}

func astarGen(rng *proto.RNG, tier string, shard, nshards int, w *bufio.Writer) {
	e := &caseEmitter{shard: shard, nshards: nshards, w: w}
	thorough := tier == "thorough"
	// (ii) exhaustive: every obstacle layout of the 3x3, 3x4 and 4x3 grids with every start/goal pair;
	// thorough: also 2x5, 5x2 completely and a deterministic 1/16 sample of the 4x4 layouts
	shapes := [][2]int{{3, 3}, {3, 4}, {4, 3}}
	if thorough {
		shapes = append(shapes, [2]int{2, 5}, [2]int{5, 2}, [2]int{4, 4})
	}
	for _, wh := range shapes {
		n := wh[0] * wh[1]
		for mask := 0; mask < 1<<uint(n); mask++ {
			if n == 16 && (mask*2654435761)%16 != 0 {
				continue
			}
			if e.mine() {
				e.emit(gridCase(wh[0], wh[1], mask))
			} else {
				e.skip()
			}
		}
	}
	// other grid shapes, random layouts, random pairs
	nGrid := 150
	if thorough {
		nGrid = 600
	}
	for i := 0; i < nGrid; i++ {
		gw := rng.Range(1, 6)
		gh := rng.Range(1, 30/gw)
		if gh > 6 {
			gh = rng.Range(1, 6)
		}
		n := gw * gh
		mask := 0
		dens := rng.Range(0, 5)
		for c := 0; c < n; c++ {
			if rng.Intn(10) < dens {
				mask |= 1 << uint(c)
			}
		}
		lines := []string{fmt.Sprintf("grid %d %d %d", gw, gh, mask)}
		for k := 0; k < 40; k++ {
			lines = append(lines, fmt.Sprintf("find %d %d", rng.Intn(n), rng.Intn(n)))
		}
		e.emit(lines)
	}
	// (iii) random weighted graphs
	nRand := 400
	if thorough {
		nRand = 3000
	}
	for i := 0; i < nRand; i++ {
		var n int
		switch rng.Pick(4, 4, 2, 1) {
		case 0:
			n = rng.Range(1, 8)
		case 1:
			n = rng.Range(5, 40)
		case 2:
			n = rng.Range(30, 100)
		default:
			n = rng.Range(100, 200)
		}
		lines := []string{fmt.Sprintf("graph %d", n)}
		var edges [][3]int
		seen := map[[2]int]bool{}
		maxW := []int{1, 3, 9, 9, 100}[rng.Intn(5)]
		minW := 0
		if rng.Intn(3) == 0 {
			minW = 1
		}
		deg := rng.Range(1, 4)
		m := n * deg
		if n > 60 {
			m = n * rng.Range(1, 3)
		}
		undirected := rng.Bool()
		for k := 0; k < m; k++ {
			u, v := rng.Intn(n), rng.Intn(n)
			if rng.Intn(4) != 0 && n > 1 { // mostly local edges → long shortest paths
				v = (u + rng.Range(1, 3)) % n
			}
			if seen[[2]int{u, v}] && rng.Intn(8) != 0 { // occasionally a duplicate neighbour (cost overwritten)
				continue
			}
			wt := rng.Range(minW, maxW)
			seen[[2]int{u, v}] = true
			if undirected {
				seen[[2]int{v, u}] = true
				lines = append(lines, fmt.Sprintf("uedge %d %d %d", u, v, wt))
				edges = append(edges, [3]int{u, v, wt}, [3]int{v, u, wt})
			} else {
				lines = append(lines, fmt.Sprintf("edge %d %d %d", u, v, wt))
				edges = append(edges, [3]int{u, v, wt})
			}
		}
		// duplicates overwrite the cost: keep only the last weight per pair for the heuristic computation
		last := map[[2]int]int{}
		for _, ed := range edges {
			last[[2]int{ed[0], ed[1]}] = ed[2]
		}
		for k := range edges {
			edges[k][2] = last[[2]int{edges[k][0], edges[k][1]}]
		}
		nq := 6
		if n > 60 {
			nq = 3
		}
		for q := 0; q < nq; q++ {
			goal := rng.Intn(n)
			hmode := rng.Pick(3, 3, 2, 2, 2)
			switch hmode {
			case 0: // zero heuristic (Dijkstra)
				lines = append(lines, "hs"+strings.Repeat(" 0", n))
			case 1, 2, 3: // consistent: exact distance to the goal, halved, or capped
				d := distTo(n, edges, goal)
				capv := rng.Range(0, 12)
				var sb strings.Builder
				sb.WriteString("hs")
				for _, x := range d {
					if hmode == 2 {
						x /= 2
					}
					if hmode == 3 && x > capv {
						x = capv
					}
					fmt.Fprintf(&sb, " %d", x)
				}
				lines = append(lines, sb.String())
			default: // arbitrary (usually inconsistent): exact correspondence and path validity only
				var sb strings.Builder
				sb.WriteString("hs")
				for k := 0; k < n; k++ {
					fmt.Fprintf(&sb, " %d", rng.Intn(2*maxW+2))
				}
				lines = append(lines, sb.String())
			}
			for k := 0; k < 3; k++ {
				s := rng.Intn(n)
				lines = append(lines, fmt.Sprintf("find %d %d", s, goal))
				if k == 0 {
					lines = append(lines, fmt.Sprintf("cost %d %d", s, goal), fmt.Sprintf("dij %d %d", s, goal))
				}
			}
			// a query towards another goal with the same (still consistent as a function) table
			lines = append(lines, fmt.Sprintf("find %d %d", rng.Intn(n), rng.Intn(n)))
		}
		e.emit(lines)
	}
	// (iv) malformed stream
	bad := []string{"find 0 0", "graph", "graph x", "graph -1", "graph 3", "edge 0 3 1", "edge 3 0 1", "edge 0 1 -2",
		"edge 0 1", "edge 0 1 1.5", "edge 0 1 2", "hs 1 2", "hs 1 2 x", "hs 0 0 0", "find 0 3", "find 3 0", "find 0", "find a b",
		"find 0 1", "find 1 0", "cost 1 0", "dij 1 0", "dij 0 9", "grid 0 3 0", "grid 3 0 0", "grid 3 3 512", "grid 6 6 0",
		"grid 2 2 x", "grid 2 2 6", "edge 0 1 1", "uedge 0 1 1", "hs 0 0 0 0", "find 0 3", "find 0 1", "find 1 0", "find 4 0",
		"graph 0", "find 0 0", "bogus", "graph 1", "find 0 0", "edge 0 0 0", "find 0 0", "cost 0 0", "edge 0 0 1000001", "graph 5001"}
	e.emit(bad)
	for i := 0; i < 20; i++ {
		var lines []string
		for k := 0; k < 25; k++ {
			lines = append(lines, bad[rng.Intn(len(bad))])
		}
		e.emit(lines)
	}
}

func init() {
	mk := func() proto.Runner { r := &astarRunner{}; r.Reset(); return r }
	proto.Register(&proto.Suite{Name: "astar", Gen: astarGen, New: mk})
	proto.Register(&proto.Suite{Name: "astarj", Gen: astarGen, New: mk})
}
