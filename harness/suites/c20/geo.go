package c20

import (
	"bufio"
	"fmt"
	"math"
	"sort"
	"strconv"
	"strings"

	"github.com/kercylan98/minotaur/toolkit/geometry"
	"verifharness/internal/proto"
)

// geo: predicates / exactly representable results of toolkit/geometry against MV.Model.Geometry
// (exact text) and the brute-force definitions (spec).
// geonum: numeric results (printed with %.12g) judged by the Lean judge within 1e-9.
//
// All inputs are small integers or dyadic fractions, so every comparison made by the float64 code is
// decided as in exact arithmetic (see MV/Model/Geometry.lean for the argument per function).

type geoRunner struct{}

func (geoRunner) Reset() {}

func decTok(s string) (float64, bool) {
	if s == "" {
		return 0, false
	}
	for _, c := range s {
		if !(c >= '0' && c <= '9' || c == '.' || c == '-' || c == '+' || c == 'e' || c == 'E') {
			return 0, false
		}
	}
	if strings.Count(s, ".") > 1 || s == "." || s == "-" || s == "+" || s == "-." || s == "+." {
		return 0, false
	}
	f, err := strconv.ParseFloat(s, 64)
	if err != nil || math.IsNaN(f) || math.IsInf(f, 0) {
		return 0, false
	}
	return f, true
}

func decToks(t []string) ([]float64, bool) {
	out := make([]float64, len(t))
	for i, s := range t {
		v, ok := decTok(s)
		if !ok {
			return nil, false
		}
		out[i] = v
	}
	return out, true
}

// exact decimal text of an exactly representable value
func fmtExact(f float64) string {
	if f == 0 {
		return "0"
	}
	return strconv.FormatFloat(f, 'f', -1, 64)
}

// %.12g with canonical non-finite values
func fmtG(f float64) string {
	switch {
	case math.IsNaN(f):
		return "nan"
	case math.IsInf(f, 1):
		return "inf"
	case math.IsInf(f, -1):
		return "-inf"
	}
	s := fmt.Sprintf("%.12g", f)
	if s == "-0" {
		return "0"
	}
	return s
}

func pt(x, y float64) geometry.Point { return geometry.NewPoint(x, y) }

// "n x1 y1 .. xn yn rest.." -> polygon, rest
func parsePolyToks(t []string) (geometry.Polygon, []float64, bool) {
	if len(t) < 1 {
		return nil, nil, false
	}
	n, ok := natTok(t[0])
	if !ok || n > 64 {
		return nil, nil, false
	}
	v, ok := decToks(t[1:])
	if !ok || len(v) < 2*n {
		return nil, nil, false
	}
	var p geometry.Polygon
	for i := 0; i < n; i++ {
		p = append(p, pt(v[2*i], v[2*i+1]))
	}
	return p, v[2*n:], true
}

func (geoRunner) Step(t []string) string {
	op := t[0]
	switch op {
	case "inside", "onedge":
		p, rest, ok := parsePolyToks(t[1:])
		if !ok || len(rest) != 2 || (op == "inside" && len(p) < 1) || (op == "onedge" && len(p) < 3) {
			return "bad-op"
		}
		if op == "inside" {
			return strconv.FormatBool(p.IsPointInside(pt(rest[0], rest[1])))
		}
		return strconv.FormatBool(p.IsPointOnEdge(pt(rest[0], rest[1])))
	}
	v, ok := decToks(t[1:])
	if !ok {
		return "bad-op"
	}
	switch {
	case op == "onseg" && len(v) == 6:
		return strconv.FormatBool(geometry.NewLineSegment(pt(v[0], v[1]), pt(v[2], v[3])).IsPointOnSegment(pt(v[4], v[5])))
	case op == "collinear" && len(v) == 8:
		return strconv.FormatBool(geometry.CalcLineSegmentCollinearWithEpsilon(
			geometry.NewLineSegment(pt(v[0], v[1]), pt(v[2], v[3])), geometry.NewLineSegment(pt(v[4], v[5]), pt(v[6], v[7])), 1e-4))
	case op == "overlap" && len(v) == 8:
		l, ok := geometry.CalcLineSegmentOverlap(
			geometry.NewLineSegment(pt(v[0], v[1]), pt(v[2], v[3])), geometry.NewLineSegment(pt(v[4], v[5]), pt(v[6], v[7])))
		if !ok {
			return "false"
		}
		return fmt.Sprintf("true %s %s %s %s", fmtExact(l[0].GetX()), fmtExact(l[0].GetY()), fmtExact(l[1].GetX()), fmtExact(l[1].GetY()))
	case op == "ccontains" && len(v) == 5:
		return strconv.FormatBool(geometry.NewCircle(pt(v[0], v[1]), v[2]).Contains(pt(v[3], v[4])))
	case op == "cintersect" && len(v) == 6:
		return strconv.FormatBool(geometry.NewCircle(pt(v[0], v[1]), v[2]).Intersect(geometry.NewCircle(pt(v[3], v[4]), v[5])))
	case op == "coverlap" && len(v) == 6:
		return strconv.FormatBool(geometry.NewCircle(pt(v[0], v[1]), v[2]).Overlap(geometry.NewCircle(pt(v[3], v[4]), v[5])))
	case op == "area2" && len(v) == 6:
		return fmtExact(geometry.CalcTriangleAreaTwice(pt(v[0], v[1]), pt(v[2], v[3]), pt(v[4], v[5])))
	case op == "dist2" && len(v) == 4:
		return fmtExact(pt(v[0], v[1]).DistanceSquared2D(pt(v[2], v[3])))
	}
	return "bad-op"
}

type geonumRunner struct{}

func (geonumRunner) Reset() {}

func (geonumRunner) Step(t []string) string {
	op := t[0]
	switch op {
	case "rcentroid", "vcentroid", "pcentroid":
		p, rest, ok := parsePolyToks(t[1:])
		if !ok || len(rest) != 0 {
			return "bad-op"
		}
		var c geometry.Point
		switch op {
		case "rcentroid":
			c = geometry.CalcRectangleVerticesCentroid(p)
		case "vcentroid":
			c = geometry.CalcPolygonVerticesCentroid(p)
		default:
			c = geometry.CalcPolygonCentroid(p)
		}
		return fmtG(c.GetX()) + " " + fmtG(c.GetY())
	case "polyproj":
		p, rest, ok := parsePolyToks(t[1:])
		if !ok || len(rest) != 2 || len(p) < 3 {
			return "bad-op"
		}
		q, d := geometry.CalcPolygonPointProjection(p, pt(rest[0], rest[1]))
		return fmtG(q.GetX()) + " " + fmtG(q.GetY()) + " " + fmtG(d)
	}
	v, ok := decToks(t[1:])
	if !ok {
		return "bad-op"
	}
	switch {
	case op == "closest" && len(v) == 6:
		q := geometry.NewLineSegment(pt(v[0], v[1]), pt(v[2], v[3])).ClosestPoint(pt(v[4], v[5]))
		return fmtG(q.GetX()) + " " + fmtG(q.GetY())
	case op == "dist" && len(v) == 4:
		return fmtG(pt(v[0], v[1]).Distance2D(pt(v[2], v[3])))
	case op == "segdist" && len(v) == 6:
		return fmtG(geometry.CalcLineSegmentDistanceToPoint(geometry.NewLineSegment(pt(v[0], v[1]), pt(v[2], v[3])), pt(v[4], v[5])))
	}
	return "bad-op"
}

// ---- generators

type ipt struct{ x, y int }

func cross(o, a, b ipt) int { return (a.x-o.x)*(b.y-o.y) - (a.y-o.y)*(b.x-o.x) }

// strictly convex hull (counter-clockwise) of lattice points
func hull(ps []ipt) []ipt {
	sort.Slice(ps, func(i, j int) bool { return ps[i].x < ps[j].x || (ps[i].x == ps[j].x && ps[i].y < ps[j].y) })
	var u []ipt
	for _, p := range ps {
		if len(u) > 0 && u[len(u)-1] == p {
			continue
		}
		u = append(u, p)
	}
	ps = u
	if len(ps) < 3 {
		return ps
	}
	var h []ipt
	for _, p := range ps {
		for len(h) >= 2 && cross(h[len(h)-2], h[len(h)-1], p) <= 0 {
			h = h[:len(h)-1]
		}
		h = append(h, p)
	}
	lo := len(h) + 1
	for i := len(ps) - 2; i >= 0; i-- {
		p := ps[i]
		for len(h) >= lo && cross(h[len(h)-2], h[len(h)-1], p) <= 0 {
			h = h[:len(h)-1]
		}
		h = append(h, p)
	}
	return h[:len(h)-1]
}

func randConvex(rng *proto.RNG, lo, hi int) []ipt {
	for {
		n := rng.Range(3, 12)
		ps := make([]ipt, n)
		for i := range ps {
			ps[i] = ipt{rng.Range(lo, hi), rng.Range(lo, hi)}
		}
		h := hull(ps)
		if len(h) >= 3 {
			// random rotation of the start vertex and random orientation
			k := rng.Intn(len(h))
			h = append(append([]ipt{}, h[k:]...), h[:k]...)
			if rng.Bool() {
				for i, j := 0, len(h)-1; i < j; i, j = i+1, j-1 {
					h[i], h[j] = h[j], h[i]
				}
			}
			return h
		}
	}
}

func polyStr(p []ipt) string {
	var sb strings.Builder
	fmt.Fprintf(&sb, "%d", len(p))
	for _, q := range p {
		fmt.Fprintf(&sb, " %d %d", q.x, q.y)
	}
	return sb.String()
}

// half-integers as decimal text
func halfStr(twice int) string {
	if twice%2 == 0 {
		return strconv.Itoa(twice / 2)
	}
	return strconv.FormatFloat(float64(twice)/2, 'f', -1, 64)
}

func chunkEmit(e *caseEmitter, lines []string, size int) {
	for i := 0; i < len(lines); i += size {
		j := i + size
		if j > len(lines) {
			j = len(lines)
		}
		e.emit(lines[i:j])
	}
}

var geoBad = []string{"onseg 0 0 1 1", "onseg 0 0 1 1 x 0", "onseg", "overlap 0 0 1 1 2 2", "inside 3 0 0 1 0 0 1 0", "inside 0 1 1",
	"inside x 1 1", "inside 3 0 0 1 0 1 1", "onedge 2 0 0 1 1 0 0", "onedge 3 0 0 1 0 0 1 0.5", "ccontains 0 0 1 1", "cintersect 0 0 1 1 1",
	"coverlap 0 0 1 1 1 a", "area2 0 0 1 1", "dist2 1 2 3", "collinear 0 0 1 1 2 2 3", "bogus 1 2", "onseg 0 0 1 1 1..5 0", "onseg 0 0 1 1 NaN 0",
	"ccontains 0 0 -1 0 0", "ccontains 0 0 0 0 0", "coverlap 0 0 0 0 0 0", "cintersect 0 0 0 0 0 0", "cintersect 0 0 -1 0 0 -1", "inside 1 0 0 0 0", "inside 2 0 0 2 2 1 1"}

func geoGen(rng *proto.RNG, tier string, shard, nshards int, w *bufio.Writer) {
	e := &caseEmitter{shard: shard, nshards: nshards, w: w}
	thorough := tier == "thorough"
	var lines []string
	// (ii) exhaustive lattice sweeps
	L := 3
	if thorough {
		L = 4
	}
	for ax := 0; ax < L; ax++ {
		for ay := 0; ay < L; ay++ {
			for bx := 0; bx < L; bx++ {
				for by := 0; by < L; by++ {
					for px := 0; px < L; px++ {
						for py := 0; py < L; py++ {
							lines = append(lines, fmt.Sprintf("onseg %d %d %d %d %d %d", ax, ay, bx, by, px, py))
						}
					}
				}
			}
		}
	}
	// collinear quadruples on a horizontal, a vertical, a diagonal and a skew line: all orders of 4 parameters in 0..M
	M := 4
	if thorough {
		M = 6
	}
	dirs := [][4]int{{0, 0, 1, 0}, {2, -1, 0, 1}, {0, 0, 1, 1}, {1, 5, 2, -1}, {3, 3, -1, 0}, {0, 4, -1, -2}}
	for _, d := range dirs {
		for a := 0; a <= M; a++ {
			for b := 0; b <= M; b++ {
				for c := 0; c <= M; c++ {
					for dd := 0; dd <= M; dd++ {
						P := func(t int) string { return fmt.Sprintf("%d %d", d[0]+t*d[2], d[1]+t*d[3]) }
						lines = append(lines, fmt.Sprintf("overlap %s %s %s %s", P(a), P(b), P(c), P(dd)))
						if a == 0 {
							lines = append(lines, fmt.Sprintf("collinear %s %s %s %s", P(a), P(b), P(c), P(dd)))
						}
					}
				}
			}
		}
	}
	// circles: every lattice point against every radius (integers and halves) — (3,4,5), (6,8,10), (5,12,13) hit the boundary exactly
	R := 7
	if thorough {
		R = 14
	}
	for r2 := -2; r2 <= 2*R; r2++ {
		for px := -R; px <= R; px++ {
			for py := 0; py <= R; py++ {
				lines = append(lines, fmt.Sprintf("ccontains 0 0 %s %d %d", halfStr(r2), px, py))
			}
		}
	}
	for r1 := 0; r1 <= 6; r1++ {
		for r2 := -1; r2 <= 6; r2++ {
			for dx := 0; dx <= 13; dx++ {
				for _, dy := range []int{0, 4, 12} {
					lines = append(lines, fmt.Sprintf("cintersect 1 2 %s %d %d %s", halfStr(r1), 1+dx, 2+dy, halfStr(r2)),
						fmt.Sprintf("coverlap 1 2 %s %d %d %s", halfStr(r1), 1+dx, 2+dy, halfStr(r2)))
				}
			}
		}
	}
	// polygons on a small lattice: all triangles with vertices in 0..2 x 0..2 (incl. degenerate), some fixed quads; every lattice point
	var small [][]ipt
	for a := 0; a < 9; a++ {
		for b := 0; b < 9; b++ {
			for c := 0; c < 9; c++ {
				if a != b && b != c && a != c && (thorough || (a*81+b*9+c)%3 == 0) {
					small = append(small, []ipt{{a % 3 * 2, a / 3 * 2}, {b % 3 * 2, b / 3 * 2}, {c % 3 * 2, c / 3 * 2}})
				}
			}
		}
	}
	small = append(small, []ipt{{0, 0}, {4, 0}, {4, 4}, {0, 4}}, []ipt{{0, 4}, {4, 4}, {4, 0}, {0, 0}}, []ipt{{2, 0}, {4, 2}, {2, 4}, {0, 2}},
		[]ipt{{0, 0}, {4, 0}, {4, 4}, {2, 1}, {0, 4}}, []ipt{{0, 0}, {4, 0}, {4, 1}, {1, 1}, {1, 3}, {4, 3}, {4, 4}, {0, 4}})
	for _, p := range small {
		for px := -1; px <= 5; px++ {
			for py := -1; py <= 5; py++ {
				lines = append(lines, fmt.Sprintf("inside %s %d %d", polyStr(p), px, py), fmt.Sprintf("onedge %s %d %d", polyStr(p), px, py))
			}
		}
	}
	chunkEmit(e, lines, 400)
	// (iii) random structured
	nRand := 400
	if thorough {
		nRand = 4000
	}
	for i := 0; i < nRand; i++ {
		var ls []string
		C := []int{4, 10, 50}[rng.Intn(3)]
		rp := func() ipt { return ipt{rng.Range(-C, C), rng.Range(-C, C)} }
		for k := 0; k < 60; k++ {
			switch rng.Pick(5, 4, 2, 5, 3, 1) {
			case 0: // on-segment: points on the segment, beyond the ends, slightly off
				a := rp()
				d := ipt{rng.Range(-6, 6), rng.Range(-6, 6)}
				m := rng.Range(0, 6)
				switch rng.Intn(5) {
				case 0:
					d = ipt{d.x, 0}
				case 1:
					d = ipt{0, d.y}
				case 2:
					m = 0 // zero-length segment
				}
				b := ipt{a.x + m*d.x, a.y + m*d.y}
				t := rng.Range(-1, m+1)
				p := ipt{a.x + t*d.x, a.y + t*d.y}
				switch rng.Intn(6) {
				case 0:
					p.x += rng.Range(-1, 1)
				case 1:
					p.y += rng.Range(-1, 1)
				}
				if rng.Bool() {
					a, b = b, a
				}
				ls = append(ls, fmt.Sprintf("onseg %d %d %d %d %d %d", a.x, a.y, b.x, b.y, p.x, p.y))
				// just beyond an end point, along the segment (inside the 1e-9 slack of the distance test; only
				// the bounding-box test rejects it)
				if (d.x == 0 || d.y == 0 || d.x == d.y) && m > 0 && (d.x != 0 || d.y != 0) {
					sx, sy := 0, 0
					if b.x > a.x {
						sx = 1
					} else if b.x < a.x {
						sx = -1
					}
					if b.y > a.y {
						sy = 1
					} else if b.y < a.y {
						sy = -1
					}
					off := func(v, s int) string {
						if s == 0 {
							return strconv.Itoa(v)
						}
						// v + s*1e-10 as exact decimal text
						if s > 0 {
							return fmt.Sprintf("%d.0000000001", v)
						}
						return fmt.Sprintf("%d.9999999999", v-1)
					}
					if b.x >= 0 && b.y >= 0 && b.x-1 >= 0 && b.y-1 >= 0 {
						ls = append(ls, fmt.Sprintf("onseg %d %d %d %d %s %s", a.x, a.y, b.x, b.y, off(b.x, sx), off(b.y, sy)))
					}
				}
			case 1: // overlap / collinear of segments on one line (random direction) or not
				o := rp()
				d := ipt{rng.Range(-3, 3), rng.Range(-3, 3)}
				ts := [4]int{rng.Range(-4, 4), rng.Range(-4, 4), rng.Range(-4, 4), rng.Range(-4, 4)}
				if rng.Intn(4) == 0 {
					ts[rng.Intn(4)] = ts[rng.Intn(4)]
				}
				P := make([]ipt, 4)
				for j := range P {
					P[j] = ipt{o.x + ts[j]*d.x, o.y + ts[j]*d.y}
				}
				if rng.Intn(5) == 0 {
					P[rng.Intn(4)].y += rng.Range(-1, 1)
				}
				s := fmt.Sprintf("%d %d %d %d %d %d %d %d", P[0].x, P[0].y, P[1].x, P[1].y, P[2].x, P[2].y, P[3].x, P[3].y)
				ls = append(ls, "overlap "+s, "collinear "+s)
			case 2: // overlap with half-integer coordinates on an axis-aligned line
				y := rng.Range(-C, C)
				xs := [4]int{rng.Range(-9, 9), rng.Range(-9, 9), rng.Range(-9, 9), rng.Range(-9, 9)}
				if rng.Bool() {
					ls = append(ls, fmt.Sprintf("overlap %s %d %s %d %s %d %s %d", halfStr(xs[0]), y, halfStr(xs[1]), y, halfStr(xs[2]), y, halfStr(xs[3]), y))
				} else {
					ls = append(ls, fmt.Sprintf("overlap %d %s %d %s %d %s %d %s", y, halfStr(xs[0]), y, halfStr(xs[1]), y, halfStr(xs[2]), y, halfStr(xs[3])))
				}
			case 3: // convex polygon containment
				p := randConvex(rng, -C, C)
				for q := 0; q < 4; q++ {
					x := rp()
					if rng.Intn(3) == 0 { // a vertex or an edge midpoint (when it is a lattice point)
						j := rng.Intn(len(p))
						x = p[j]
						n := p[(j+1)%len(p)]
						if rng.Bool() && (x.x+n.x)%2 == 0 && (x.y+n.y)%2 == 0 {
							x = ipt{(x.x + n.x) / 2, (x.y + n.y) / 2}
						}
					}
					ls = append(ls, fmt.Sprintf("inside %s %d %d", polyStr(p), x.x, x.y), fmt.Sprintf("onedge %s %d %d", polyStr(p), x.x, x.y))
				}
			case 4: // circles
				c := rp()
				trip := [][3]int{{3, 4, 5}, {5, 12, 13}, {8, 15, 17}, {6, 8, 10}, {0, 7, 7}, {20, 21, 29}}[rng.Intn(6)]
				p := ipt{c.x + trip[0]*(1-2*rng.Intn(2)), c.y + trip[1]*(1-2*rng.Intn(2))}
				if rng.Bool() {
					p = ipt{c.x + trip[1], c.y - trip[0]}
				}
				r := trip[2] + rng.Range(-1, 1)*rng.Intn(2)
				ls = append(ls, fmt.Sprintf("ccontains %d %d %d %d %d", c.x, c.y, r, p.x, p.y))
				r1 := rng.Range(0, r+1)
				ls = append(ls, fmt.Sprintf("cintersect %d %d %d %d %d %d", c.x, c.y, r1, p.x, p.y, r-r1),
					fmt.Sprintf("coverlap %d %d %d %d %d %d", c.x, c.y, r1, p.x, p.y, r-r1),
					fmt.Sprintf("coverlap %d %d %s %d %d %s", c.x, c.y, halfStr(2*r1+1), p.x, p.y, halfStr(2*(r-r1)-1)))
			default:
				a, b, c := rp(), rp(), rp()
				ls = append(ls, fmt.Sprintf("area2 %d %d %d %d %d %d", a.x, a.y, b.x, b.y, c.x, c.y), fmt.Sprintf("dist2 %d %d %s %d", a.x, a.y, halfStr(2*b.x+1), b.y))
			}
		}
		e.emit(ls)
	}
	// (iv) malformed
	e.emit(geoBad)
}

var geonumBad = []string{"closest 0 0 1 1 2", "closest a 0 1 1 2 2", "rcentroid 4 0 0 1 1", "vcentroid x", "pcentroid 3 0 0 1 0 0 1 5", "dist 0 0 1",
	"segdist 0 0 1 1", "polyproj 2 0 0 1 1 5 5", "polyproj 3 0 0 1 0 0 1 5", "bogus", "vcentroid 0", "rcentroid 0", "pcentroid 0",
	"pcentroid 3 0 0 1 1 2 2", "pcentroid 2 0 0 1 1", "closest 0 0 0 0 0 0", "closest 1 1 1 1 5 5", "segdist 2 2 2 2 5 6", "dist 1 1 1 1"}

func geonumGen(rng *proto.RNG, tier string, shard, nshards int, w *bufio.Writer) {
	e := &caseEmitter{shard: shard, nshards: nshards, w: w}
	thorough := tier == "thorough"
	var lines []string
	L := 3
	if thorough {
		L = 4
	}
	for ax := 0; ax < L; ax++ {
		for ay := 0; ay < L; ay++ {
			for bx := 0; bx < L; bx++ {
				for by := 0; by < L; by++ {
					for px := -1; px < L+1; px++ {
						for py := -1; py < L+1; py++ {
							s := fmt.Sprintf("%d %d %d %d %d %d", ax, ay, bx, by, px, py)
							lines = append(lines, "closest "+s, "segdist "+s)
						}
					}
				}
			}
		}
	}
	// rectangles in all vertex orders / rotations, symmetric shapes
	for x0 := -1; x0 <= 1; x0++ {
		for y0 := 0; y0 <= 2; y0++ {
			for wd := 1; wd <= 4; wd++ {
				for ht := 1; ht <= 3; ht++ {
					r := []ipt{{x0, y0}, {x0 + wd, y0}, {x0 + wd, y0 + ht}, {x0, y0 + ht}}
					for k := 0; k < 4; k++ {
						rr := append(append([]ipt{}, r[k:]...), r[:k]...)
						lines = append(lines, "rcentroid "+polyStr(rr), "vcentroid "+polyStr(rr), "pcentroid "+polyStr(rr))
					}
				}
			}
		}
	}
	chunkEmit(e, lines, 400)
	nRand := 400
	if thorough {
		nRand = 4000
	}
	for i := 0; i < nRand; i++ {
		var ls []string
		C := []int{4, 10, 50}[rng.Intn(3)]
		rp := func() ipt { return ipt{rng.Range(-C, C), rng.Range(-C, C)} }
		for k := 0; k < 50; k++ {
			switch rng.Pick(5, 4, 2, 3) {
			case 0:
				a, b, p := rp(), rp(), rp()
				switch rng.Intn(6) {
				case 0:
					b = a
				case 1:
					b.y = a.y
				case 2:
					b.x = a.x
				}
				s := fmt.Sprintf("%d %d %d %d %d %d", a.x, a.y, b.x, b.y, p.x, p.y)
				ls = append(ls, "closest "+s, "segdist "+s)
				ls = append(ls, fmt.Sprintf("closest %s %d %d %d %s %s", halfStr(2*a.x+1), a.y, b.x, b.y, halfStr(2*p.x+1), halfStr(2*p.y+1)))
			case 1: // centroids: centrally symmetric polygons (parallelograms, hexagons), random convex polygons
				var p []ipt
				switch rng.Intn(4) {
				case 0: // parallelogram a, a+u, a+u+v, a+v
					a := rp()
					u, v := ipt{rng.Range(1, 6), rng.Range(-3, 3)}, ipt{rng.Range(-3, 3), rng.Range(1, 6)}
					p = []ipt{a, {a.x + u.x, a.y + u.y}, {a.x + u.x + v.x, a.y + u.y + v.y}, {a.x + v.x, a.y + v.y}}
				case 1: // hexagon symmetric about c: c±u, c±v, c±w
					c := rp()
					u, v, ww := ipt{rng.Range(2, 5), rng.Range(-1, 1)}, ipt{rng.Range(0, 2), rng.Range(2, 5)}, ipt{-rng.Range(1, 3), rng.Range(1, 3)}
					p = []ipt{{c.x + u.x, c.y + u.y}, {c.x + v.x, c.y + v.y}, {c.x + ww.x, c.y + ww.y}, {c.x - u.x, c.y - u.y}, {c.x - v.x, c.y - v.y}, {c.x - ww.x, c.y - ww.y}}
				case 2: // axis-aligned rectangle, random start/orientation
					a := rp()
					wd, ht := rng.Range(1, 9), rng.Range(1, 9)
					p = []ipt{a, {a.x + wd, a.y}, {a.x + wd, a.y + ht}, {a.x, a.y + ht}}
					if rng.Bool() {
						p = []ipt{p[3], p[2], p[1], p[0]}
					}
					kk := rng.Intn(4)
					p = append(append([]ipt{}, p[kk:]...), p[:kk]...)
				default:
					p = randConvex(rng, -C, C)
				}
				ls = append(ls, "rcentroid "+polyStr(p), "vcentroid "+polyStr(p), "pcentroid "+polyStr(p))
			case 2:
				a, b := rp(), rp()
				ls = append(ls, fmt.Sprintf("dist %d %d %d %d", a.x, a.y, b.x, b.y), fmt.Sprintf("dist %d %d %d %d", a.x, a.y, a.x, a.y))
			default:
				p := randConvex(rng, -C, C)
				x := rp()
				ls = append(ls, fmt.Sprintf("polyproj %s %d %d", polyStr(p), x.x, x.y))
			}
		}
		e.emit(ls)
	}
	e.emit(geonumBad)
}

func init() {
	proto.Register(&proto.Suite{Name: "geo", Gen: geoGen, New: func() proto.Runner { return geoRunner{} }})
	proto.Register(&proto.Suite{Name: "geonum", Gen: geonumGen, New: func() proto.Runner { return geonumRunner{} }})
}
