package c20

import (
	"bufio"
	"fmt"
	"strings"

	"github.com/kercylan98/minotaur/toolkit/geometry"
	"github.com/kercylan98/minotaur/toolkit/navigate/navmesh"
	"verifharness/internal/proto"
)

// funnel: navmesh.VerifStringPull (the unexported funnel.stringPull, build tag verif) against
// MV.Model.Funnel, exact text (portal coordinates are small integers / halves; every triangle-area
// sign is exact).
// navmesh: NavMesh.FindPath judged by the Lean judge (start/end, vertices and dense samples of every
// leg inside the closed union of the polygons, a path exists between connected interior points).

type funnelRunner struct{}

func (funnelRunner) Reset() {}

func fmtPtsG(ps []geometry.Vector2) string {
	var sb strings.Builder
	sb.WriteByte('[')
	for i, p := range ps {
		if i > 0 {
			sb.WriteString("; ")
		}
		sb.WriteString(fmtG(p.GetX()) + " " + fmtG(p.GetY()))
	}
	sb.WriteByte(']')
	return sb.String()
}

func (funnelRunner) Step(t []string) string {
	if t[0] != "pull" || len(t) < 2 {
		return "bad-op"
	}
	n, ok := natTok(t[1])
	if !ok {
		return "bad-op"
	}
	v, ok := decToks(t[2:])
	if !ok || len(v) != 4*n || n > 200 {
		return "bad-op"
	}
	portals := make([][2]geometry.Vector2, n)
	for i := 0; i < n; i++ {
		portals[i] = [2]geometry.Vector2{pt(v[4*i], v[4*i+1]), pt(v[4*i+2], v[4*i+3])}
	}
	return guardedSmall(func() string { return fmtPtsG(navmesh.VerifStringPull(portals)) })
}

type navRunner struct {
	polys []geometry.Polygon
	nm    *navmesh.NavMesh
}

func (r *navRunner) Reset() { r.polys, r.nm = nil, nil }

func (r *navRunner) Step(t []string) string {
	switch t[0] {
	case "mesh":
		if len(t) != 1 {
			return "bad-op"
		}
		r.Reset()
		return "ok"
	case "poly":
		p, rest, ok := parsePolyToks(t[1:])
		if !ok || len(rest) != 0 || len(p) < 3 || r.nm != nil {
			return "bad-op"
		}
		r.polys = append(r.polys, p)
		return "ok"
	case "build":
		if len(t) != 1 || r.nm != nil || len(r.polys) == 0 {
			return "bad-op"
		}
		return guarded(func() string { r.nm = navmesh.NewNavMesh(r.polys, 0); return "ok" })
	case "path":
		v, ok := decToks(t[1:])
		if !ok || len(v) != 4 || r.nm == nil {
			return "bad-op"
		}
		return guarded(func() string {
			p := r.nm.FindPath(pt(v[0], v[1]), pt(v[2], v[3]))
			if len(p) == 0 {
				return "none"
			}
			return fmtPtsG(p)
		})
	}
	return "bad-op"
}

// ---- generators

func portalLine(ps [][4]int) string {
	var sb strings.Builder
	fmt.Fprintf(&sb, "pull %d", len(ps))
	for _, p := range ps {
		fmt.Fprintf(&sb, " %d %d %d %d", p[0], p[1], p[2], p[3])
	}
	return sb.String()
}

func funnelGen(rng *proto.RNG, tier string, shard, nshards int, w *bufio.Writer) {
	e := &caseEmitter{shard: shard, nshards: nshards, w: w}
	thorough := tier == "thorough"
	var lines []string
	// (ii) exhaustive: start, one or two portals on a 3x3 lattice, end
	for l := 0; l < 9; l++ {
		for r := 0; r < 9; r++ {
			for en := 0; en < 9; en++ {
				for st := 0; st < 9; st += 4 {
					lines = append(lines, portalLine([][4]int{{st % 3, st / 3, st % 3, st / 3}, {l % 3, l / 3, r % 3, r / 3}, {en % 3, en / 3, en % 3, en / 3}}))
				}
			}
		}
	}
	step := 5
	if thorough {
		step = 1
	}
	k := 0
	for l1 := 0; l1 < 9; l1++ {
		for r1 := 0; r1 < 9; r1++ {
			for l2 := 0; l2 < 9; l2++ {
				for r2 := 0; r2 < 9; r2++ {
					for en := 0; en < 9; en++ {
						k++
						if k%step != 0 {
							continue
						}
						lines = append(lines, portalLine([][4]int{{0, 1, 0, 1}, {l1 % 3, l1 / 3, r1 % 3, r1 / 3}, {l2 % 3, l2 / 3, r2 % 3, r2 / 3}, {en % 3, en / 3, en % 3, en / 3}}))
					}
				}
			}
		}
	}
	chunkEmit(e, lines, 400)
	// (iii) random corridors
	nRand := 600
	if thorough {
		nRand = 6000
	}
	for i := 0; i < nRand; i++ {
		var ls []string
		for q := 0; q < 20; q++ {
			n := rng.Range(0, 12)
			if rng.Intn(10) == 0 {
				n = rng.Range(12, 40)
			}
			var ps [][4]int
			mode := rng.Intn(4)
			x, y := rng.Range(-5, 5), rng.Range(-5, 5)
			ps = append(ps, [4]int{x, y, x, y})
			flip := rng.Bool()
			var prev [4]int
			for j := 0; j < n; j++ {
				var p [4]int
				switch mode {
				case 0, 1: // a corridor advancing in +x with wandering walls; walls share vertices now and then (fans)
					cx := x + 2*(j+1)
					lo := y + rng.Range(-3, 1)
					hi := lo + rng.Range(0, 4)
					p = [4]int{cx + rng.Range(-1, 1), hi, cx + rng.Range(-1, 1), lo}
					if j > 0 && rng.Intn(3) == 0 {
						p[0], p[1] = prev[0], prev[1]
					} else if j > 0 && rng.Intn(3) == 0 {
						p[2], p[3] = prev[2], prev[3]
					}
					if mode == 1 || flip {
						p = [4]int{p[2], p[3], p[0], p[1]}
					}
				default: // arbitrary lattice points (crossed, degenerate, repeated portals)
					p = [4]int{rng.Range(-4, 4), rng.Range(-4, 4), rng.Range(-4, 4), rng.Range(-4, 4)}
					if j > 0 && rng.Intn(4) == 0 {
						p = prev
					}
				}
				prev = p
				ps = append(ps, p)
			}
			ex, ey := x+2*(n+1)+rng.Range(-1, 1), y+rng.Range(-3, 3)
			if mode >= 2 {
				ex, ey = rng.Range(-5, 5), rng.Range(-5, 5)
			}
			ps = append(ps, [4]int{ex, ey, ex, ey})
			if rng.Intn(30) == 0 {
				ps = ps[:1]
			}
			ls = append(ls, portalLine(ps))
		}
		e.emit(ls)
	}
	// (iv) malformed
	e.emit([]string{"pull", "pull x", "pull 1 0 0", "pull 1 0 0 0 0", "pull 0", "pull 2 0 0 0 0 1 1 1", "pull 2 0 0 0 0 1 1 1 1", "pull 2 0 0 0 0 1 1 1 a", "bogus 1", "pull 201"})
}

// ---- nav meshes

type rect struct{ x0, y0, x1, y1 int }

func rectPoly(rng *proto.RNG, r rect) []ipt {
	p := []ipt{{r.x0, r.y0}, {r.x1, r.y0}, {r.x1, r.y1}, {r.x0, r.y1}}
	if rng.Bool() {
		p = []ipt{p[3], p[2], p[1], p[0]}
	}
	k := rng.Intn(4)
	return append(append([]ipt{}, p[k:]...), p[:k]...)
}

// guillotine subdivision of r into rectangles (T-junctions between cells of different sizes)
func subdivide(rng *proto.RNG, r rect, depth int, out *[]rect) {
	wd, ht := r.x1-r.x0, r.y1-r.y0
	if depth == 0 || (wd < 2 && ht < 2) || rng.Intn(5) == 0 {
		*out = append(*out, r)
		return
	}
	if (wd >= 2 && rng.Bool()) || ht < 2 {
		c := r.x0 + rng.Range(1, wd-1)
		subdivide(rng, rect{r.x0, r.y0, c, r.y1}, depth-1, out)
		subdivide(rng, rect{c, r.y0, r.x1, r.y1}, depth-1, out)
	} else {
		c := r.y0 + rng.Range(1, ht-1)
		subdivide(rng, rect{r.x0, r.y0, r.x1, c}, depth-1, out)
		subdivide(rng, rect{r.x0, c, r.x1, r.y1}, depth-1, out)
	}
}

func navCase(polys [][]ipt, queries []string) []string {
	ls := []string{"mesh"}
	for _, p := range polys {
		ls = append(ls, "poly "+polyStr(p))
	}
	ls = append(ls, "build")
	return append(ls, queries...)
}

func navGen(rng *proto.RNG, tier string, shard, nshards int, w *bufio.Writer) {
	e := &caseEmitter{shard: shard, nshards: nshards, w: w}
	thorough := tier == "thorough"
	// the mesh of the package's own example
	e.emit(navCase([][]ipt{{{5, 5}, {15, 5}, {15, 15}, {5, 15}}, {{15, 5}, {25, 5}, {25, 15}, {15, 15}}, {{15, 15}, {25, 15}, {25, 25}, {15, 25}}},
		[]string{"path 6 6 18 24", "path 18 24 6 6", "path 6 6 7 7", "path 6 6 24 6", "path 24 6 16 24", "path 0 0 6 6", "path 6 6 0 0", "path 6 6 30 30"}))
	// (ii) exhaustive: every subset of the cells of a 2x2 and a 3x2 block of unit-ish rectangles, every ordered pair of cell centres
	for _, dims := range [][2]int{{2, 2}, {3, 2}, {2, 3}} {
		W, H := dims[0], dims[1]
		n := W * H
		for mask := 1; mask < 1<<uint(n); mask++ {
			if !e.mine() {
				e.skip()
				continue
			}
			var polys [][]ipt
			var centres []string
			for c := 0; c < n; c++ {
				if mask&(1<<uint(c)) != 0 {
					x, y := c%W, c/W
					polys = append(polys, []ipt{{2 * x, 2 * y}, {2*x + 2, 2 * y}, {2*x + 2, 2*y + 2}, {2 * x, 2*y + 2}})
					centres = append(centres, fmt.Sprintf("%d %d", 2*x+1, 2*y+1))
				}
			}
			var qs []string
			for _, a := range centres {
				for _, b := range centres {
					qs = append(qs, "path "+a+" "+b)
				}
			}
			e.emit(navCase(polys, qs))
		}
	}
	// (iii) random meshes
	nRand := 400
	if thorough {
		nRand = 4000
	}
	for i := 0; i < nRand; i++ {
		var polys [][]ipt
		var inner []string // strictly interior query points
		switch rng.Pick(3, 3, 3) {
		case 0: // grid of rectangles of varying widths/heights with holes
			W, H := rng.Range(1, 5), rng.Range(1, 5)
			xs, ys := []int{rng.Range(-3, 3)}, []int{rng.Range(-3, 3)}
			for k := 0; k < W; k++ {
				xs = append(xs, xs[k]+rng.Range(1, 3)*2)
			}
			for k := 0; k < H; k++ {
				ys = append(ys, ys[k]+rng.Range(1, 3)*2)
			}
			hole := rng.Range(0, 4)
			for x := 0; x < W; x++ {
				for y := 0; y < H; y++ {
					if rng.Intn(10) < hole {
						continue
					}
					r := rect{xs[x], ys[y], xs[x+1], ys[y+1]}
					polys = append(polys, rectPoly(rng, r))
					inner = append(inner, fmt.Sprintf("%d %d", (r.x0+r.x1)/2, (r.y0+r.y1)/2), fmt.Sprintf("%s %s", halfStr(2*r.x0+1), halfStr(2*r.y1-1)))
				}
			}
		case 1: // guillotine tiling (T-junctions), some cells dropped
			var rs []rect
			subdivide(rng, rect{0, 0, rng.Range(2, 6) * 2, rng.Range(2, 6) * 2}, rng.Range(1, 5), &rs)
			drop := rng.Range(0, 3)
			for _, r := range rs {
				if rng.Intn(10) < drop {
					continue
				}
				polys = append(polys, rectPoly(rng, r))
				inner = append(inner, fmt.Sprintf("%s %s", halfStr(r.x0+r.x1), halfStr(r.y0+r.y1)), fmt.Sprintf("%s %s", halfStr(2*r.x1-1), halfStr(2*r.y0+1)))
			}
		default: // triangles of a jittered grid (random convex cells), some dropped
			W, H := rng.Range(1, 4), rng.Range(1, 4)
			vx := make([][]ipt, W+1)
			for x := 0; x <= W; x++ {
				vx[x] = make([]ipt, H+1)
				for y := 0; y <= H; y++ {
					vx[x][y] = ipt{4*x + rng.Range(-1, 1), 4*y + rng.Range(-1, 1)}
				}
			}
			drop := rng.Range(0, 2)
			for x := 0; x < W; x++ {
				for y := 0; y < H; y++ {
					a, b, c, d := vx[x][y], vx[x+1][y], vx[x+1][y+1], vx[x][y+1]
					var tris [][]ipt
					if rng.Bool() {
						tris = [][]ipt{{a, b, c}, {a, c, d}}
					} else {
						tris = [][]ipt{{a, b, d}, {b, c, d}}
					}
					if rng.Intn(4) == 0 && cross(a, b, c) > 0 && cross(b, c, d) > 0 && cross(c, d, a) > 0 && cross(d, a, b) > 0 {
						tris = [][]ipt{{a, b, c, d}} // keep the convex quad whole
					}
					for _, t := range tris {
						if rng.Intn(10) < drop {
							continue
						}
						if rng.Bool() { // orientation
							for i2, j2 := 0, len(t)-1; i2 < j2; i2, j2 = i2+1, j2-1 {
								t[i2], t[j2] = t[j2], t[i2]
							}
						}
						polys = append(polys, t)
						// (2a+b+c)/4 is strictly inside a triangle; for the quad use the midpoint of a diagonal
						if len(t) == 3 {
							inner = append(inner, fmt.Sprintf("%s %s", strQuarter(2*t[0].x+t[1].x+t[2].x), strQuarter(2*t[0].y+t[1].y+t[2].y)))
						} else {
							inner = append(inner, fmt.Sprintf("%s %s", halfStr(t[0].x+t[2].x), halfStr(t[0].y+t[2].y)))
						}
					}
				}
			}
		}
		if len(polys) == 0 {
			continue
		}
		var qs []string
		nq := 12
		for k := 0; k < nq && len(inner) > 0; k++ {
			qs = append(qs, "path "+inner[rng.Intn(len(inner))]+" "+inner[rng.Intn(len(inner))])
		}
		// a point outside the mesh now and then (nothing is required of the answer except: no panic, no path vertex outside)
		if rng.Intn(3) == 0 && len(inner) > 0 {
			qs = append(qs, fmt.Sprintf("path %s %d %d", inner[0], rng.Range(-9, -6), rng.Range(-9, -6)), fmt.Sprintf("path %d %d %s", rng.Range(30, 40), 1, inner[0]))
		}
		e.emit(navCase(polys, qs))
	}
	// (iv) malformed
	e.emit([]string{"path 0 0 1 1", "build", "poly 2 0 0 1 1", "poly 3 0 0 1 0", "poly x", "mesh 1", "poly 3 0 0 4 0 0 4", "build 1", "build", "build", "poly 3 0 0 1 0 0 1",
		"path 1 1", "path a b c d", "path 1 1 1 1", "path 1 1 9 9", "bogus"})
}

func strQuarter(q int) string {
	s := fmt.Sprintf("%g", float64(q)/4)
	return s
}

func init() {
	proto.Register(&proto.Suite{Name: "funnel", Gen: funnelGen, New: func() proto.Runner { return funnelRunner{} }})
	proto.Register(&proto.Suite{Name: "navmesh", Gen: navGen, New: func() proto.Runner { r := &navRunner{}; return r }})
}
