// Package c20 holds the harness suites of property C20 (registered from init functions).
package c20
