package c20

import (
	"os"
	"runtime"
	"time"
)

// guarded runs one operation of the real code under a watchdog: a regression (or a mutation) that
// makes A*, the funnel or FindPath loop forever allocates without bound (stringPull appends a point
// per restart, Find pushes a path per expansion).  When the operation exceeds the time or heap budget
// the runner process exits; the driver then records `fatal` for this operation, skips the rest of the
// case and continues with the next case in a fresh process.  Keeps every runner far below 1 GB.
const (
	guardMaxHeap = 150 << 20 // bytes of live heap
	guardMaxTime = 5 * time.Second
)

func guarded(f func() string) string { return guardedWith(guardMaxHeap, guardMaxTime, f) }

// guardedSmall: for operations that normally finish in well under a millisecond (A* on <= 200 nodes,
// string pulling of <= 200 portals)
func guardedSmall(f func() string) string { return guardedWith(48<<20, 1500*time.Millisecond, f) }

func guardedWith(maxHeap uint64, maxTime time.Duration, f func() string) string {
	done := make(chan string, 1)
	pan := make(chan any, 1)
	go func() {
		defer func() {
			if r := recover(); r != nil {
				pan <- r
			}
		}()
		done <- f()
	}()
	start := time.Now()
	tick := time.NewTicker(5 * time.Millisecond)
	defer tick.Stop()
	var ms runtime.MemStats
	for {
		select {
		case s := <-done:
			return s
		case r := <-pan:
			panic(r) // re-raised on the runner's goroutine: the driver's recover prints `panic`
		case <-tick.C:
			runtime.ReadMemStats(&ms)
			if ms.HeapAlloc > maxHeap || time.Since(start) > maxTime {
				os.Exit(3)
			}
		}
	}
}
