package c08

import (
	"bufio"
	"bytes"
	"fmt"
	"go/ast"
	"go/parser"
	"go/printer"
	"go/token"
	"os"
	"path/filepath"
	"strings"

	"verifharness/internal/proto"
)

// Suite `timer-facts` (T-facts): the "callbacks are turns of the owner" clause of C08 is inherited
// from C01 (one message at a time) because every timer callback of an actor is *posted* to the
// actor's own mailbox as a system message `onSchedulerFunc` and executed by `processMessage`. That is
// a fact about the source text of five small functions and one `case` clause of
// engine/vivid/actor_context.go; it is regenerated from /repo on every run and compared with the text
// recorded on the Lean side (Oracle.C08.timerFacts). The whole body is compared (whitespace
// normalised): the only thing the function handed to the scheduler may do is
// `ctx.deliverySystemMessage(ctx.ref, ctx.ref, ctx.ref, nil, onSchedulerFunc(func() { function(ctx) }))`.
//
//	facts <Func>                    body of (*actorContext).<Func>
//	facts-case <Func> <CaseType>    body of the `case <CaseType>:` clause of the last type switch in <Func>
//	facts-chrono <Func>             body of (*chrono.Scheduler).<Func> (how the call maps to task())
//	facts-task <Func>               body of (*chrono.schedulerTask).<Func>

func repoRoot() string {
	if r := os.Getenv("VERIF_REPO"); r != "" {
		return r
	}
	return "/repo"
}

func render(fset *token.FileSet, n ast.Node) string {
	var b bytes.Buffer
	printer.Fprint(&b, fset, n)
	return strings.Join(strings.Fields(b.String()), " ")
}

func findMethod(f *ast.File, recv, name string) *ast.FuncDecl {
	for _, d := range f.Decls {
		fd, ok := d.(*ast.FuncDecl)
		if !ok || fd.Name.Name != name || fd.Recv == nil || len(fd.Recv.List) == 0 {
			continue
		}
		t := fd.Recv.List[0].Type
		if s, ok := t.(*ast.StarExpr); ok {
			t = s.X
		}
		if id, ok := t.(*ast.Ident); ok && id.Name == recv {
			return fd
		}
	}
	return nil
}

type timerFactsRunner struct{}

func (timerFactsRunner) Reset() {}
func (timerFactsRunner) Step(t []string) string {
	path := filepath.Join(repoRoot(), "engine/vivid/actor_context.go")
	if len(t) == 2 && t[0] == "facts-chrono" {
		path = filepath.Join(repoRoot(), "toolkit/chrono/scheduler.go")
	}
	if len(t) == 2 && t[0] == "facts-task" {
		path = filepath.Join(repoRoot(), "toolkit/chrono/scheduler_task.go")
	}
	fset := token.NewFileSet()
	f, err := parser.ParseFile(fset, path, nil, 0)
	if err != nil {
		return "err:parse"
	}
	switch {
	case len(t) == 2 && t[0] == "facts-task":
		fd := findMethod(f, "schedulerTask", t[1])
		if fd == nil {
			return "err:not-found"
		}
		return render(fset, fd.Body)
	case len(t) == 2 && t[0] == "facts-chrono":
		fd := findMethod(f, "Scheduler", t[1])
		if fd == nil {
			return "err:not-found"
		}
		return render(fset, fd.Body)
	case len(t) == 2 && t[0] == "facts":
		fd := findMethod(f, "actorContext", t[1])
		if fd == nil {
			return "err:not-found"
		}
		return render(fset, fd.Body)
	case len(t) == 3 && t[0] == "facts-case":
		fd := findMethod(f, "actorContext", t[1])
		if fd == nil {
			return "err:not-found"
		}
		var found []string
		ast.Inspect(fd.Body, func(n ast.Node) bool {
			cc, ok := n.(*ast.CaseClause)
			if !ok {
				return true
			}
			for _, x := range cc.List {
				if render(fset, x) == t[2] {
					var parts []string
					for _, s := range cc.Body {
						parts = append(parts, render(fset, s))
					}
					found = append(found, strings.Join(parts, " ; "))
				}
			}
			return true
		})
		if len(found) == 0 {
			return "err:no-case"
		}
		return strings.Join(found, " || ")
	}
	return "bad-op"
}

var timerFuncs = []string{"CronTask", "ImmediateCronTask", "AfterTask", "RepeatedTask", "DayMomentTask", "StopTask", "initScheduler", "refreshIdleDeadline", "setExpireDuration"}

func timerFactsGen(rng *proto.RNG, tier string, shard, nshards int, w *bufio.Writer) {
	if shard != 0 {
		return
	}
	fmt.Fprintln(w, "# case facts")
	for _, f := range timerFuncs {
		fmt.Fprintf(w, "facts %s\n", f)
	}
	fmt.Fprintln(w, "facts-case processMessage onSchedulerFunc")
	// how the public registration calls map to task(name, after, interval, expr, times, …)
	for _, f := range []string{"RegisterAfterTask", "RegisterRepeatedTask", "RegisterCronTask", "RegisterDayMomentTask", "Close"} {
		fmt.Fprintf(w, "facts-chrono %s\n", f)
	}
	// the two repaired functions: the nil-checked Stop of schedulerTask.close and the non-waiting,
	// idempotent Scheduler.Close (its hang is a rare race the real-time suites cannot hit on demand)
	fmt.Fprintln(w, "facts-task close")
	// Next: the wait for the expiration of the run that is starting (what makes "not early" true for an
	// unconstrained wheel), the kill / count test and the trigger bump; caller: kill check before the call
	fmt.Fprintln(w, "facts-task Next")
	fmt.Fprintln(w, "facts-task caller")
}

func init() {
	proto.Register(&proto.Suite{Name: "timer-facts", Gen: timerFactsGen, New: func() proto.Runner { return timerFactsRunner{} }})
}
