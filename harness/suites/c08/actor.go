package c08

import (
	"bufio"
	"fmt"
	"os"
	"runtime"
	"strconv"
	"strings"
	"sync"
	"sync/atomic"
	"time"

	"github.com/kercylan98/minotaur/engine/vivid"
	"github.com/kercylan98/minotaur/engine/vivid/supervision"
	"github.com/kercylan98/minotaur/toolkit/log"
	"verifharness/internal/proto"
)

// Suite `actor-timers`: a real vivid actor system (silent logger) with one actor that registers
// after/repeated tasks from its message handler, compared with MV.Model.ActorTimers.
//
//	spawn <idle> <expire>     first line of a case (ms, 0 = not configured)
//	after <name> <ms> | repeat <name> <after> <interval> <times> | stop <name> | ping   (messages; `dead` once terminated)
//	busy <ms>                 a message whose handler takes <ms>
//	term <ms>                 Terminate(ref, false); the OnTerminate handler takes <ms>
//	crash <ms>                the handler panics, the supervisor restarts at once; the OnRestarting handler takes <ms>
//	wait <ms> | counts | alive | flags | late | stale
//
// Evidence recorded inside the callbacks (independent of which goroutine runs them): the handler flag
// must be clear (a callback never overlaps a handler), the owner must not have seen its own
// OnTerminated yet (`after-terminated`), the incarnation must be the one that registered the task
// (`stale`), the real time must not be before the due time (minus earlySlackMs) (`early`). Idle-deadline and
// expiry are judged one-sidedly: the OnTerminate of a termination nobody asked for must not come before
// last turn + idle - earlySlackMs (or creation + expire - earlySlackMs).
// Timing discipline as in the `scheduler` suite (absolute schedule, event-driven settling, validity
// check on the real clock, `-` when the machine was too slow).

type areg struct {
	sim      *stask
	rBase    time.Time
	inc      int64
	count    atomic.Int64
	early    atomic.Bool
	overlap  atomic.Bool
	afterTer atomic.Bool
	stale    atomic.Bool
}

type cmd struct {
	kind           string
	name, a, iv, k int
	ack            chan string
	reg            *areg
}

type actorRunner struct {
	sys         *vivid.ActorSystem
	ref         vivid.ActorRef
	sim         *asim
	t0          time.Time
	vnow        int
	regs        []*areg
	invalid     bool
	special     bool // the case contains a slow lifecycle turn: counts are not compared
	flagSettled bool

	inHandler   atomic.Int32
	plain       int // written by handler turns and callback turns only; -race build detects a callback outside the actor
	incarnation atomic.Int64
	launched    atomic.Int64
	terminated  atomic.Bool
	termAsked   atomic.Bool
	termAt      atomic.Int64 // wall clock (ns) at which the actor handled its own OnTerminated
	lifeMu      sync.Mutex
	life        [][]string // per incarnation (instance obtained from the provider): lifecycle/user messages handled, in order
	termEarly   atomic.Bool
	idleDue     atomic.Bool  // some turn began >= idle-tick after the previous one ended
	lastTurn    atomic.Int64 // unix nanos of the end of the last turn (handler or callback)
	created     time.Time
	idle, exp   int
	slowTerm    atomic.Int64
	slowRestart atomic.Int64
	restarting  atomic.Int32
}

// actorSuiteRunner gives every case a fresh actorRunner (the struct holds atomics)
type actorSuiteRunner struct{ r *actorRunner }

func (a *actorSuiteRunner) Reset() {
	if a.r != nil {
		a.r.shutdown()
	}
	a.r = &actorRunner{}
}

func (a *actorSuiteRunner) Step(t []string) string {
	if a.r == nil || (len(t) == 3 && t[0] == "spawn" && a.r.sys != nil) {
		a.Reset() // a second `spawn` starts over, as in the model
	}
	return a.r.Step(t)
}

func (r *actorRunner) shutdown() {
	if r.sys != nil {
		done := make(chan struct{})
		sys := r.sys
		go func() {
			defer func() { recover(); close(done) }()
			sys.Shutdown(false)
		}()
		select {
		case <-done:
		case <-time.After(3 * time.Second):
		}
		r.sys = nil
	}
}

// turnBegins / turnEnds keep the evidence for the idle deadline: `:idle:` is re-armed at the end of
// every turn and stopped at the beginning of the next one, so an idle timer can only have fired
// legitimately if some turn began at least idle-tick after the previous one ended (or none began).
func (r *actorRunner) turnBegins() {
	if r.idle > 0 {
		gap := time.Duration(time.Now().UnixNano()-r.lastTurn.Load()) * time.Nanosecond
		if gap >= time.Duration(r.idle-earlySlackMs)*time.Millisecond {
			r.idleDue.Store(true)
		}
	}
}

func (r *actorRunner) turnEnds() { r.lastTurn.Store(time.Now().UnixNano()) }

func (r *actorRunner) receive(ctx vivid.ActorContext) {
	r.inHandler.Store(1)
	r.plain++
	r.turnBegins()
	defer func() {
		r.turnEnds()
		r.inHandler.Store(0)
	}()
	switch m := ctx.Message().(type) {
	case *vivid.OnLaunch:
		r.launched.Add(1)
	case *vivid.OnRestarting:
		if d := r.slowRestart.Load(); d > 0 {
			time.Sleep(time.Duration(d) * time.Millisecond)
		}
	case *vivid.OnTerminate:
		if !r.termAsked.Load() && r.incarnationStable() {
			now := wallNow()
			ok := false
			slack := time.Duration(earlySlackMs) * time.Millisecond
			if r.idle > 0 && r.idleDue.Load() {
				ok = true
			}
			if r.exp > 0 && !now.Before(r.created.Add(time.Duration(r.exp)*time.Millisecond-slack)) {
				ok = true
			}
			if !ok {
				r.termEarly.Store(true)
			}
		}
		if d := r.slowTerm.Load(); d > 0 {
			time.Sleep(time.Duration(d) * time.Millisecond)
		}
	case *vivid.OnTerminated:
		if r.restarting.Load() == 0 && m.TerminatedActor.GetLogicalAddress() == ctx.Ref().GetLogicalAddress() {
			r.termAt.Store(time.Now().UnixNano())
			r.terminated.Store(true)
		}
	case *cmd:
		r.handle(ctx, m)
	}
}

// note records, per instance handed out by the provider, what the instance handles (suite
// lifecycle-timers: judged by the lifecycle automaton of property C03).
func (r *actorRunner) note(inc int, ctx vivid.ActorContext) {
	k := "other"
	switch m := ctx.Message().(type) {
	case *vivid.OnLaunch:
		k = "launch"
	case *vivid.OnRestarted:
		k = "restarted"
	case *vivid.OnRestarting:
		k = "restarting"
	case *vivid.OnTerminate:
		k = "terminate"
	case *vivid.OnTerminated:
		if m.TerminatedActor.GetLogicalAddress() == ctx.Ref().GetLogicalAddress() {
			k = "terminated"
		} else {
			k = "terminated-other"
		}
	case *cmd:
		k = "user"
	}
	r.lifeMu.Lock()
	for len(r.life) <= inc {
		r.life = append(r.life, nil)
	}
	r.life[inc] = append(r.life[inc], k)
	r.lifeMu.Unlock()
}

func (r *actorRunner) lifecycle() string {
	r.lifeMu.Lock()
	defer r.lifeMu.Unlock()
	var parts []string
	for i, l := range r.life {
		parts = append(parts, fmt.Sprintf("%d:[%s]", i, strings.Join(l, " ")))
	}
	return strings.Join(parts, " ")
}

// OnTerminate is also delivered to the old instance during a restart (tryRestarted); that is asked for.
func (r *actorRunner) incarnationStable() bool { return r.restarting.Load() == 0 }

func (r *actorRunner) handle(ctx vivid.ActorContext, m *cmd) {
	if m.kind == "crash" {
		m.ack <- "ok"
		panic("crash requested by the harness")
	}
	out := "ok"
	func() {
		defer func() {
			if e := recover(); e != nil {
				out = "panic"
			}
		}()
		sname := strconv.Itoa(m.name)
		switch m.kind {
		case "after":
			m.reg.inc = r.incarnation.Load()
			m.reg.rBase = wallNow()
			ctx.AfterTask(sname, time.Duration(m.a)*time.Millisecond, r.callback(m.reg))
		case "repeat":
			m.reg.inc = r.incarnation.Load()
			m.reg.rBase = wallNow()
			ctx.RepeatedTask(sname, time.Duration(m.a)*time.Millisecond, time.Duration(m.iv)*time.Millisecond, m.k, r.callback(m.reg))
		case "stop":
			ctx.StopTask(sname)
		case "ping":
		case "busy":
			time.Sleep(time.Duration(m.a) * time.Millisecond)
		}
	}()
	m.ack <- out
}

func (r *actorRunner) callback(g *areg) func(ctx vivid.ActorContext) {
	return func(ctx vivid.ActorContext) {
		now := wallNow()
		if r.inHandler.Load() != 0 {
			g.overlap.Store(true)
		}
		r.plain++
		r.turnBegins()
		k := g.count.Add(1) - 1
		if tooMany(g.rBase, g.sim.after, g.sim.interval, now, k+1) {
			g.early.Store(true)
		}
		if r.terminated.Load() {
			g.afterTer.Store(true)
		}
		if r.incarnation.Load() != g.inc {
			g.stale.Store(true)
		}
		r.turnEnds()
	}
}

func (r *actorRunner) spawn(idle, exp int) string {
	logger := log.NewSilentLogger()
	r.sys = vivid.NewActorSystem(vivid.FunctionalActorSystemConfigurator(func(config *vivid.ActorSystemConfiguration) {
		config.WithLoggerProvider(log.FunctionalLoggerProvider(func() *log.Logger { return logger }))
	}))
	r.idle, r.exp = idle, exp
	r.sim = newAsim(idle, exp)
	r.incarnation.Store(-1)
	r.created = wallNow()
	r.lastTurn.Store(r.created.UnixNano())
	r.ref = r.sys.ActorOfF(func() vivid.Actor {
		inc := int(r.incarnation.Add(1))
		return vivid.FunctionalActor(func(ctx vivid.ActorContext) {
			r.note(inc, ctx)
			r.receive(ctx)
		})
	}, func(d *vivid.ActorDescriptor) {
		d.WithName("timers")
		if idle > 0 {
			d.WithIdleDeadline(time.Duration(idle) * time.Millisecond)
		}
		if exp > 0 {
			d.WithExpireDuration(time.Duration(exp) * time.Millisecond)
		}
		d.WithSupervisionStrategyProvider(supervision.FunctionalStrategyProvider(func() supervision.Strategy {
			return supervision.FunctionalStrategy(func(record *supervision.AccidentRecord) {
				record.Supervisor.Restart(record.Victim)
			})
		}))
	})
	deadline := time.Now().Add(3 * time.Second)
	for r.launched.Load() < 1 && time.Now().Before(deadline) {
		time.Sleep(200 * time.Microsecond)
	}
	if r.launched.Load() < 1 {
		return "timeout"
	}
	r.t0 = time.Now()
	r.vnow = 0
	return "ok"
}

// settle: absolute schedule, then wait (capped) for what the ideal run has produced by now
func (r *actorRunner) settle() {
	target := r.t0.Add(time.Duration(r.vnow) * time.Millisecond)
	if d := time.Until(target); d > 0 {
		time.Sleep(d)
	}
	n := len(r.regs)
	res := waitCounts(n+1, func(i int) (int64, int64) {
		if i < n {
			return r.regs[i].count.Load(), int64(r.regs[i].sim.turns)
		}
		// last: the termination the ideal run has seen
		if !r.sim.live && !r.terminated.Load() {
			return 0, 1
		}
		return 1, 1
	})
	if res == starved {
		r.invalid = true
	}
}

// the next post of the ideal run must still be `margin` away on the real clock
func (r *actorRunner) clearOfNext(margin time.Duration) bool {
	n := r.sim.nextDue()
	if n < 0 {
		return true
	}
	next := r.t0.Add(time.Duration(n) * time.Millisecond)
	return !time.Now().After(next.Add(-margin))
}

// lateSelfTermination: the ideal actor has terminated itself (idle deadline / expiry) while a user
// task was pending; the real actor does the same a little later (late is never a violation). If it was
// so much later that the pending task's due time came first (within the margin), that task fired once
// more - legitimately - and the counts of this case are not determined by the ideal run.
func (r *actorRunner) lateSelfTermination() bool {
	n := r.sim.lostNext
	if n < 0 {
		return false
	}
	limit := r.t0.Add(time.Duration(n) * time.Millisecond).Add(-cancelMargin)
	ta := r.termAt.Load()
	if ta == 0 {
		return time.Now().After(limit)
	}
	return time.Unix(0, ta).After(limit)
}

func (r *actorRunner) decision(f func() string) string {
	r.settle()
	if r.sim.conflict {
		r.invalid = true
	}
	if !r.clearOfNext(cancelMargin + 5*time.Millisecond) {
		r.invalid = true
	}
	// the next post of the ideal run as it stood BEFORE the decision: the decision may cancel or
	// replace that very task (stop, re-registration, crash -> Clear, terminate -> Close), and it is
	// carried out by a message to the actor - on a stalled machine the message can be handled after the
	// post it was meant to prevent. Decisions that take virtual time themselves (busy/crash/term with a
	// duration) are `special`: their counts are never compared.
	v0, before := r.vnow, r.sim.nextDue()
	out := f()
	if r.vnow == v0 && before >= 0 && time.Now().After(r.t0.Add(time.Duration(before)*time.Millisecond).Add(-cancelMargin)) {
		// counts of this case are not determined any more (flags such as `early` stay)
		r.invalid = true
	}
	return out
}

func (r *actorRunner) send(m *cmd) string {
	m.ack = make(chan string, 2)
	r.sys.Tell(r.ref, m)
	var got string
	res := pollUntil(3*time.Second, func() bool {
		select {
		case got = <-m.ack:
			return true
		default:
			return r.terminated.Load()
		}
	})
	if got != "" {
		return got
	}
	if res == settled {
		// the actor has terminated although the ideal run says it is alive: either the machine
		// stalled for longer than the idle deadline / until the expiry (legitimate on the real
		// clock: not determined), or the termination was early (reported as such)
		select {
		case got = <-m.ack:
			return got
		case <-time.After(50 * time.Millisecond):
		}
		r.invalid = true
		if r.termEarly.Load() && !r.sim.conflict {
			return "dead early"
		}
		return "-"
	}
	r.invalid = true
	if res == starved {
		return "-"
	}
	debugDump("noack")
	return "noack"
}

func (r *actorRunner) flagsOf() (early, overlap, afterTer, stale bool) {
	for _, g := range r.regs {
		early = early || g.early.Load()
		overlap = overlap || g.overlap.Load()
		afterTer = afterTer || g.afterTer.Load()
		stale = stale || g.stale.Load()
	}
	early = early || (r.termEarly.Load() && !r.sim.conflict)
	return
}

func (r *actorRunner) Step(t []string) string {
	atoi := func(i int) (int, bool) {
		if i >= len(t) {
			return 0, false
		}
		return proto.Atoi(t[i])
	}
	if t[0] == "spawn" {
		i, ok1 := atoi(1)
		e, ok2 := atoi(2)
		if len(t) != 3 || !ok1 || !ok2 || i < 0 || e < 0 || r.sys != nil {
			return "bad-op"
		}
		return r.spawn(i, e)
	}
	if r.sys == nil {
		if s := r.spawn(0, 0); s != "ok" {
			return s
		}
	}
	if t[0] != "flags" && t[0] != "late" && t[0] != "stale" {
		r.flagSettled = false
	}
	switch t[0] {
	case "after", "repeat", "stop", "ping":
		m := &cmd{kind: t[0]}
		ok := true
		var o bool
		switch t[0] {
		case "after":
			ok = len(t) == 3
			m.name, o = atoi(1)
			ok = ok && o
			m.a, o = atoi(2)
			ok = ok && o
			m.iv, m.k = tickMs, 1
		case "repeat":
			ok = len(t) == 5
			m.name, o = atoi(1)
			ok = ok && o
			m.a, o = atoi(2)
			ok = ok && o
			m.iv, o = atoi(3)
			ok = ok && o
			m.k, o = atoi(4)
			ok = ok && o
		case "stop":
			ok = len(t) == 2
			m.name, o = atoi(1)
			ok = ok && o
		case "ping":
			ok = len(t) == 1
		}
		if !ok || m.name < 0 || m.name >= idleName {
			return "bad-op"
		}
		return r.decision(func() string {
			st, live := r.sim.tell(t[0], m.name, m.a, m.iv, m.k)
			if !live {
				// the message goes to the dead letters; nothing answers
				r.sys.Tell(r.ref, m)
				return "dead"
			}
			if st != nil {
				m.reg = &areg{sim: st}
			}
			out := r.send(m)
			if out == "ok" && m.reg != nil {
				r.regs = append(r.regs, m.reg)
			}
			if out != "ok" {
				r.invalid = true
			}
			return out
		})
	case "busy":
		d, ok1 := atoi(1)
		if len(t) != 2 || !ok1 || d < 0 {
			return "bad-op"
		}
		r.settle()
		if !r.sim.busy(d) {
			return "dead"
		}
		r.vnow += d
		return r.send(&cmd{kind: "busy", a: d})
	case "term":
		d, ok1 := atoi(1)
		if len(t) != 2 || !ok1 || d < 0 {
			return "bad-op"
		}
		if d > 0 {
			r.special = true
		}
		return r.decision(func() string {
			wasLive := r.sim.live
			r.sim.term(d)
			r.vnow += d
			r.slowTerm.Store(int64(d))
			r.termAsked.Store(true)
			r.sys.Terminate(r.ref, false)
			if !wasLive {
				return "ok"
			}
			switch pollUntil(3*time.Second+time.Duration(d)*time.Millisecond, func() bool { return r.terminated.Load() }) {
			case lost:
				r.invalid = true
				return "timeout"
			case starved:
				r.invalid = true
				return "-"
			}
			return "ok"
		})
	case "crash":
		d, ok1 := atoi(1)
		if len(t) != 2 || !ok1 || d < 0 {
			return "bad-op"
		}
		if d > 0 {
			r.special = true
		}
		return r.decision(func() string {
			if !r.sim.crash(d) {
				r.sys.Tell(r.ref, &cmd{kind: "ping", ack: make(chan string, 2)})
				return "dead"
			}
			r.vnow += d
			r.slowRestart.Store(int64(d))
			before := r.launched.Load()
			r.restarting.Store(1)
			out := r.send(&cmd{kind: "crash"})
			if out != "ok" {
				r.invalid = true
				return out
			}
			switch pollUntil(3*time.Second+time.Duration(d)*time.Millisecond, func() bool { return r.launched.Load() > before }) {
			case lost:
				r.invalid = true
				return "timeout"
			case starved:
				r.invalid = true
				return "-"
			}
			r.restarting.Store(0)
			return "ok"
		})
	case "wait":
		d, ok1 := atoi(1)
		if len(t) != 2 || !ok1 || d < 0 {
			return "bad-op"
		}
		r.vnow += d
		r.sim.wait(d)
		if dd := time.Until(r.t0.Add(time.Duration(r.vnow) * time.Millisecond)); dd > 0 {
			time.Sleep(dd)
		}
		return "ok"
	case "counts":
		if len(t) != 1 {
			return "bad-op"
		}
		return r.decision(func() string {
			cs := make([]int, len(r.regs))
			for i, g := range r.regs {
				cs[i] = int(g.count.Load())
			}
			early, overlap, _, _ := r.flagsOf()
			s := proto.FmtInts(cs)
			if early {
				s += " early"
			}
			if overlap {
				s += " overlap"
			}
			if early || overlap {
				return s
			}
			if r.invalid || r.special {
				return "-"
			}
			if !r.clearOfNext(cancelMargin) || r.lateSelfTermination() {
				r.invalid = true
				return "-"
			}
			return s
		})
	case "lifecycle":
		if len(t) != 1 {
			return "bad-op"
		}
		r.settle()
		time.Sleep(20 * time.Millisecond)
		return r.lifecycle()
	case "alive":
		if len(t) != 1 {
			return "bad-op"
		}
		return r.decision(func() string {
			if r.termEarly.Load() && !r.sim.conflict {
				return "false early"
			}
			if r.invalid {
				return "-"
			}
			v := !r.terminated.Load()
			if !r.clearOfNext(cancelMargin) {
				r.invalid = true
				return "-"
			}
			if !v && r.sim.live {
				// terminated although the ideal run says alive, and not early (checked above): the
				// machine stalled for longer than the idle deadline / until the expiry, which is
				// legitimate on the real clock - this case is not determined by the ideal run any more
				r.invalid = true
				return "-"
			}
			return strconv.FormatBool(v)
		})
	case "flags", "late", "stale":
		if len(t) != 1 {
			return "bad-op"
		}
		if !r.flagSettled {
			r.settle()
			// give already posted callbacks the time to run
			time.Sleep(30 * time.Millisecond)
			r.flagSettled = true
		}
		early, overlap, afterTer, stale := r.flagsOf()
		switch t[0] {
		case "late":
			if afterTer {
				return "after-terminated"
			}
			if r.special && os.Getenv("C08_DEBUG") != "" {
				for i, g := range r.regs {
					fmt.Fprintf(os.Stderr, "late=none: reg %d count=%d afterTer=%v terminated=%v\n", i, g.count.Load(), g.afterTer.Load(), r.terminated.Load())
				}
			}
			return "none"
		case "stale":
			if stale {
				return "stale"
			}
			return "none"
		}
		var fl []string
		if early {
			fl = append(fl, "early")
		}
		if overlap {
			fl = append(fl, "overlap")
		}
		if len(fl) == 0 {
			return "none"
		}
		return strings.Join(fl, ",")
	}
	return "bad-op"
}

// ---------------------------------------------------------------- generator

type aop struct {
	line     string
	decision bool
}

// applyA replays one op on the ideal simulation; false = a decision that is not admissible here
func applyA(s **asim, line string) bool {
	t := strings.Fields(line)
	at := func(i int) int { v, _ := strconv.Atoi(t[i]); return v }
	switch t[0] {
	case "spawn":
		*s = newAsim(at(1), at(2))
		return true
	case "wait":
		(*s).wait(at(1))
		return true
	case "flags", "late", "stale":
		return true
	}
	if *s == nil {
		*s = newAsim(0, 0)
	}
	if t[0] != "busy" && !(*s).admissible() {
		return false
	}
	switch t[0] {
	case "after":
		(*s).tell("after", at(1), at(2), tickMs, 1)
	case "repeat":
		(*s).tell("repeat", at(1), at(2), at(3), at(4))
	case "stop":
		(*s).tell("stop", at(1), 0, 0, 0)
	case "ping":
		(*s).tell("ping", 0, 0, 0, 0)
	case "busy":
		(*s).busy(at(1))
	case "term":
		(*s).term(at(1))
	case "crash":
		(*s).crash(at(1))
	}
	return true
}

func validA(ops []string) bool {
	var s *asim
	for _, o := range ops {
		if !applyA(&s, o) {
			return false
		}
		if s != nil && s.conflict {
			return false
		}
	}
	return true
}

func actorSweep() [][]string {
	var out [][]string
	add := func(ops ...string) {
		if validA(ops) {
			out = append(out, ops)
		}
	}
	kinds := []string{"after 0 70", "repeat 0 70 100 2", "repeat 0 70 100 3", "repeat 0 70 100 -1", "repeat 0 70 100 0"}
	enders := []string{"stop 0", "after 0 70", "repeat 0 70 100 -1", "crash 0", "term 0", "ping", "stop 1"}
	for _, k := range kinds {
		add("spawn 0 0", k, "wait 500", "counts", "flags", "alive")
		for _, e := range enders {
			for _, ph := range []int{0, 100, 200, 400} {
				ops := []string{"spawn 0 0", k}
				if ph > 0 {
					ops = append(ops, fmt.Sprintf("wait %d", ph))
				}
				ops = append(ops, "counts", e, "wait 200", "counts", "wait 300", "counts", "alive", "flags", "late", "stale")
				add(ops...)
			}
		}
	}
	// callbacks never overlap a handler: a busy handler spanning several due times
	for _, k := range []string{"repeat 0 70 100 3", "repeat 0 10 10 5", "after 0 30"} {
		add("spawn 0 0", k, "busy 250", "wait 150", "counts", "flags", "late", "stale")
		add("spawn 0 0", k, "wait 100", "busy 130", "wait 270", "counts", "flags", "late", "stale")
	}
	// idle deadline / expiry
	for _, idle := range []int{200, 300} {
		add(fmt.Sprintf("spawn %d 0", idle), "wait 100", "alive", fmt.Sprintf("wait %d", idle), "alive", "ping", "flags")
		add(fmt.Sprintf("spawn %d 0", idle), "wait 100", "ping", "wait 100", "ping", "wait 100", "alive", fmt.Sprintf("wait %d", idle), "alive")
		add(fmt.Sprintf("spawn %d 0", idle), "repeat 0 70 100 4", "wait 400", "alive", "counts", fmt.Sprintf("wait %d", idle), "alive", "counts", "flags", "late", "stale")
		add(fmt.Sprintf("spawn %d 0", idle), "repeat 0 70 100 -1", "wait 800", "alive", "counts", "stop 0", fmt.Sprintf("wait %d", idle+100), "alive", "counts")
		add(fmt.Sprintf("spawn %d 0", idle), "wait 100", "crash 0", "wait 100", "alive", fmt.Sprintf("wait %d", idle), "alive")
	}
	for _, exp := range []int{270, 470} {
		add(fmt.Sprintf("spawn 0 %d", exp), "wait 200", "alive", "ping", "wait 400", "alive", "ping")
		add(fmt.Sprintf("spawn 0 %d", exp), "repeat 0 70 100 -1", "wait 200", "alive", "counts", "wait 400", "alive", "counts", "flags", "late", "stale")
		add(fmt.Sprintf("spawn 0 %d", exp), "wait 100", "crash 0", "wait 100", "alive", "wait 400", "alive")
		add(fmt.Sprintf("spawn 300 %d", exp), "wait 100", "ping", "wait 100", "alive", "wait 400", "alive")
	}
	// termination / restart with tasks in every state
	add("spawn 0 0", "after 0 70", "repeat 1 70 100 -1", "repeat 2 170 100 2", "wait 100", "term 0", "wait 300", "counts", "after 3 70", "stop 1", "ping", "flags")
	add("spawn 0 0", "after 0 70", "repeat 1 70 100 -1", "repeat 2 170 100 2", "wait 100", "crash 0", "wait 300", "counts", "after 0 70", "wait 100", "counts", "flags", "late", "stale")
	add("spawn 0 0", "term 0", "term 0", "crash 0", "alive", "counts")
	add("spawn 0 0", "crash 0", "crash 0", "after 0 70", "wait 100", "counts", "flags", "late", "stale")
	return out
}

// cases that exhibit the recorded deviation: callbacks already posted run after termination / restart
func actorSlowCases() [][]string {
	return [][]string{
		{"spawn 0 0", "repeat 0 10 10 -1", "wait 100", "term 80", "flags", "late", "alive"},
		{"spawn 0 0", "repeat 0 10 10 -1", "wait 100", "crash 80", "flags", "stale", "alive"},
	}
}

func randomActorCase(rng *proto.RNG) []string {
	afters := []int{70, 70, 170, 270, 0, 370}
	intervals := []int{100, 100, 200, 300, 400}
	waits := []int{100, 100, 200, 300}
	for attempt := 0; attempt < 200; attempt++ {
		idle, exp := 0, 0
		switch rng.Pick(6, 2, 1, 1) {
		case 1:
			idle = []int{300, 400, 500}[rng.Intn(3)]
		case 2:
			exp = []int{470, 670, 870}[rng.Intn(3)]
		case 3:
			idle, exp = []int{300, 400}[rng.Intn(2)], []int{670, 870}[rng.Intn(2)]
		}
		ops := []string{fmt.Sprintf("spawn %d %d", idle, exp)}
		n := rng.Range(4, 11)
		good := true
		for i := 0; i < n && good; i++ {
			var op string
			pick := rng.Pick(4, 8, 3, 1, 4, 3, 1, 1, 1, 1)
			if i == 0 {
				pick = rng.Intn(2) // a case starts with a registration
			}
			switch pick {
			case 0:
				op = fmt.Sprintf("after %d %d", rng.Intn(3), afters[rng.Intn(len(afters))])
			case 1:
				op = fmt.Sprintf("repeat %d %d %d %d", rng.Intn(3), afters[rng.Intn(4)], intervals[rng.Intn(len(intervals))], []int{2, 3, 4, -1, 0, 1}[rng.Intn(6)])
			case 2:
				op = fmt.Sprintf("stop %d", rng.Intn(3))
			case 3:
				op = "ping"
			case 4:
				op = fmt.Sprintf("wait %d", waits[rng.Intn(len(waits))])
			case 5:
				op = "counts"
			case 6:
				op = "alive"
			case 7:
				op = "crash 0"
			case 8:
				if i < n/2 {
					op = "counts"
				} else {
					op = "term 0"
				}
			case 9:
				op = fmt.Sprintf("busy %d", []int{30, 130, 250}[rng.Intn(3)])
			}
			cand := append(append([]string{}, ops...), op)
			if validA(cand) {
				ops = cand
				continue
			}
			fixed := false
			for _, wv := range []int{100, 50, 150, 200} {
				cand = append(append([]string{}, ops...), fmt.Sprintf("wait %d", wv), op)
				if validA(cand) {
					ops, fixed = cand, true
					break
				}
			}
			if !fixed {
				good = false
			}
		}
		if !good {
			continue
		}
		for _, tail := range [][]string{{"wait 200", "counts", "wait 300", "counts", "alive", "flags", "late", "stale"}, {"wait 100", "wait 200", "counts", "wait 300", "counts", "alive", "flags", "late", "stale"},
			{"wait 150", "counts", "wait 300", "counts", "alive", "flags", "late", "stale"}} {
			cand := append(append([]string{}, ops...), tail...)
			if validA(cand) {
				return cand
			}
		}
	}
	return []string{"spawn 0 0", "after 0 70", "wait 200", "counts", "flags", "late", "stale"}
}

func actorGen(rng *proto.RNG, tier string, shard, nshards int, w *bufio.Writer) {
	// the driver seeds shard k with seed*1000003+k, and SplitMix64 streams of consecutive seeds are
	// the same stream shifted by one draw: re-seed from a mixed output so that shards are unrelated
	rng = proto.NewRNG(rng.Next())
	no := 0
	budget := 45000
	if tier == "thorough" {
		budget = 300000
	}
	used := 0
	emit := func(tag string, ops []string) {
		if no%nshards == shard {
			emitCase(w, no, tag, ops)
			used += virtualLen(ops) + 60
		}
		no++
	}
	for _, c := range actorSlowCases() {
		emit("slow", c)
	}
	emit("malformed", []string{"spawn 0 0", "bogus", "after", "after 1000000 70", "repeat 0 1 2", "wait -1", "spawn 0 0", "stop", "counts 1"})
	for _, c := range actorSweep() {
		emit("sweep", c)
	}
	for used < budget {
		c := randomActorCase(rng)
		emitCase(w, no*nshards+shard, "random", c)
		used += virtualLen(c) + 60
		no++
	}
}

// lifeGen (suite lifecycle-timers, part of property C03's check): expiry and idle deadline combined with
// crashes whose restart takes longer than the remaining lifetime, with asked terminations and with
// timers; every case ends with `lifecycle`, the only line that is judged (by the lifecycle automaton).
func lifeGen(rng *proto.RNG, tier string, shard, nshards int, w *bufio.Writer) {
	rng = proto.NewRNG(rng.Next())
	no := 0
	emit := func(tag string, ops []string) {
		if no%nshards == shard {
			emitCase(w, no, tag, ops)
		}
		no++
	}
	ds := []int{0, 120, 260}
	for _, exp := range []int{0, 120, 200} {
		for _, idle := range []int{0, 150} {
			for _, pre := range []int{0, 60} {
				for _, d := range ds {
					ops := []string{fmt.Sprintf("spawn %d %d", idle, exp), "after 0 30", fmt.Sprintf("wait %d", pre), "ping",
						fmt.Sprintf("crash %d", d), "ping", "wait 100", fmt.Sprintf("crash %d", d/2), fmt.Sprintf("wait %d", exp+idle+150), "lifecycle"}
					emit("expiry-restart", ops)
				}
			}
		}
	}
	emit("plain", []string{"spawn 0 0", "ping", "crash 0", "ping", "term 0", "lifecycle"})
	emit("plain", []string{"spawn 0 0", "repeat 0 10 10 -1", "wait 50", "crash 30", "wait 50", "term 20", "wait 50", "lifecycle"})
	n := 40
	if tier == "thorough" {
		n = 400
	}
	for i := 0; i < n; i++ {
		exp, idle := rng.Pick(1, 2, 2, 1)*80, rng.Pick(3, 1, 1)*120
		ops := []string{fmt.Sprintf("spawn %d %d", idle, exp)}
		for j, k := 0, 2+rng.Intn(5); j < k; j++ {
			switch rng.Intn(6) {
			case 0:
				ops = append(ops, fmt.Sprintf("after %d %d", rng.Intn(3), 10+rng.Intn(150)))
			case 1:
				ops = append(ops, fmt.Sprintf("wait %d", 20+rng.Intn(200)))
			case 2, 3:
				ops = append(ops, fmt.Sprintf("crash %d", rng.Pick(2, 1, 1, 1)*90))
			case 4:
				ops = append(ops, "ping")
			case 5:
				ops = append(ops, fmt.Sprintf("busy %d", 20+rng.Intn(150)))
			}
		}
		if rng.Intn(3) == 0 {
			ops = append(ops, fmt.Sprintf("term %d", rng.Intn(2)*40))
		}
		ops = append(ops, fmt.Sprintf("wait %d", exp+idle+150), "lifecycle")
		emit("random", ops)
	}
}

func init() {
	proto.Register(&proto.Suite{Name: "actor-timers", Gen: actorGen, New: func() proto.Runner { return &actorSuiteRunner{} }})
	proto.Register(&proto.Suite{Name: "lifecycle-timers", Gen: lifeGen, New: func() proto.Runner { return &actorSuiteRunner{} }})
}

// debugDump prints all goroutine stacks to stderr when C08_DEBUG is set (diagnosis of hangs only).
func debugDump(what string) {
	if os.Getenv("C08_DEBUG") == "" {
		return
	}
	buf := make([]byte, 1<<20)
	n := runtime.Stack(buf, true)
	fmt.Fprintf(os.Stderr, "=== %s ===\n%s\n", what, buf[:n])
}
