package c08

import (
	"bufio"
	"fmt"
	"os"
	"sort"
	"strconv"
	"strings"
	"sync/atomic"
	"time"

	"github.com/kercylan98/minotaur/toolkit/chrono"
	"verifharness/internal/proto"
)

// Suite `scheduler`: the real chrono.Scheduler in REAL time at coarse grain (tick 10 ms), compared
// with the virtual-time model MV.Model.Scheduler (ideal timing) and the closed-form spec.
//
//	after <name> <ms> | repeat <name> <after> <interval> <times> | cron <name>
//	unreg <name> | clear | close | wait <ms> | counts | tasks | cronwait <i> <k> | cronquiet <i> <ms>
//
// How real time is made comparable with virtual time without ever alarming on lateness:
//
//   - the case runs on an absolute schedule (virtual time T is real time t0+T; the runner sleeps
//     until then, it never runs ahead);
//   - the generator only emits cases in which every *decision* (register/unreg/clear/close/counts/
//     tasks) at virtual time T has no due time of a live task in (T-marginAfter, T+marginBefore);
//   - before a decision the runner WAITS, event-driven, until every firing that is due by T under
//     ideal timing has been counted (cap settleCap; a firing missing after the cap is reported as it
//     is — a lost timer — and is the only way lateness can show);
//   - then it checks on the REAL clock that the next firing of every live task cannot legitimately
//     have happened yet and will still be at least cancelMargin away when the decision has been
//     carried out (real registration time + after + k*interval - cancelMargin). If the machine was
//     so slow that this does not hold, the case is marked invalid and all later counts are answered
//     `-` (not determined) instead of being compared;
//   - "early" is judged on the real clock per firing: firing k of a registration made at real time r
//     must not come before r + after + k*interval - earlySlackMs (schedulerTask.Next waits for the
//     expiration of the run that is starting, whenever the wheel hands the timer out; the slack covers
//     the millisecond truncation of expirations and reading two clocks). An early firing appends
//     ` early` to the counts line.
//
// A correct implementation therefore answers exactly what the model answers whenever the answer is
// not `-`: more firings than the model = over-firing / firing after cancel or replace; fewer = lost.

const (
	tickMs       = 10
	// earlySlackMs: since the fix "a task is not run before its due time" a firing never comes before its
	// due time; 1 ms for the millisecond truncation of the wheel's expirations + 1 ms for reading two clocks
	earlySlackMs = 2
	marginAfter  = 20 // ms: a due time before a decision is at least this far before it (virtual)
	marginBefore = 70 // ms: a due time after a decision is at least this far after it (virtual)
	cancelMargin = 50 * time.Millisecond
	settleCap    = 5 * time.Second
)

type sreg struct {
	name     int
	cron     bool
	after    int // ms, clamped
	interval int // ms, clamped
	total    int
	vBase    int       // virtual registration time
	rBase    time.Time // real time just before the Register call
	vCancel  int       // virtual cancel time, -1 = live
	dead     bool      // registered on a closed scheduler: never fires
	count    atomic.Int64
	early    atomic.Bool
}

// ideal number of firings by virtual time T
func (r *sreg) expected(T int) int {
	if r.dead || r.cron {
		return 0
	}
	if r.vCancel >= 0 && r.vCancel < T {
		T = r.vCancel
	}
	if T < r.vBase+r.after {
		return 0
	}
	k := (T-r.vBase-r.after)/r.interval + 1
	if r.total > 0 && k > r.total {
		k = r.total
	}
	return k
}

func (r *sreg) fire() {
	now := wallNow()
	k := r.count.Add(1) - 1
	if r.cron {
		ms := now.UnixMilli() % 1000
		if ms >= 500 && ms < 1000-earlySlackMs {
			r.early.Store(true)
		}
		return
	}
	if tooMany(r.rBase, r.after, r.interval, now, k+1) {
		r.early.Store(true)
		if p := os.Getenv("C08_DEBUG_FILE"); p != "" {
			if f, err := os.OpenFile(p, os.O_APPEND|os.O_CREATE|os.O_WRONLY, 0o644); err == nil {
				fmt.Fprintf(f, "early: name %d firing#%d after=%d interval=%d total=%d vBase=%d since-reg=%v\n", r.name, k+1, r.after, r.interval, r.total, r.vBase, now.Sub(r.rBase))
				f.Close()
			}
		}
	}
}

// tooMany is the order-independent form of "not early": by the time `now` a task registered at
// `base` (wall clock, read just before the registration call) may have started at most as many
// firings as it has due times base+after+i*interval that are no more than one tick (+1 ms of
// millisecond truncation) ahead. Counting instead of indexing matters because the library starts a
// goroutine per firing: when it catches up after a delay two firings can overtake each other, and
// "the k-th callback to arrive" need not be the k-th firing.
func tooMany(base time.Time, after, interval int, now time.Time, started int64) bool {
	slack := time.Duration(earlySlackMs) * time.Millisecond
	d := now.Add(slack).Sub(base) - time.Duration(after)*time.Millisecond
	if d < 0 {
		return started > 0
	}
	allowed := int64(d/(time.Duration(interval)*time.Millisecond)) + 1
	return started > allowed
}

type schedRunner struct {
	s        *chrono.Scheduler
	t0       time.Time
	vnow     int
	regs     []*sreg
	ghosts   []*sreg // registrations made on a closed scheduler
	table    map[int]*sreg
	stopped  bool
	invalid  bool
	cronMode bool
}

func (r *schedRunner) shutdown() {
	if r.s != nil && !r.stopped {
		func() {
			defer func() { recover() }()
			r.s.Close()
		}()
	}
	r.s = nil
}

func (r *schedRunner) Reset() {
	r.shutdown()
	r.s = chrono.NewScheduler(tickMs*time.Millisecond, 10)
	r.t0 = time.Now()
	r.vnow = 0
	r.regs, r.ghosts = nil, nil
	r.table = map[int]*sreg{}
	r.stopped, r.invalid, r.cronMode = false, false, false
}

// wallNow is the wall clock without Go's monotonic reading: the timing wheel computes expirations
// from time.Now().UTC() (wall clock), so "early" must be judged on the same clock — a wall-clock
// step between registration and firing would otherwise look like an early or late timer.
func wallNow() time.Time { return time.Now().Round(0) }

func clampMs(d int) int {
	if d < tickMs {
		return tickMs
	}
	return d
}

// settle: sleep until the virtual instant, then wait (event-driven, capped) for every firing that is
// due by now under ideal timing.
func (r *schedRunner) settle() {
	target := r.t0.Add(time.Duration(r.vnow) * time.Millisecond)
	if d := time.Until(target); d > 0 {
		time.Sleep(d)
	}
	if r.cronMode {
		return
	}
	missing := waitCounts(len(r.regs), func(i int) (int64, int64) {
		return r.regs[i].count.Load(), int64(r.regs[i].expected(r.vnow))
	})
	if missing == starved {
		r.invalid = true
	}
}

const (
	settled = iota
	lost    // the cap expired on a responsive machine: a firing is missing (reported as it is)
	starved // the cap expired, but this very loop was descheduled for long stretches: not determined
)

// pollUntil polls cond (every 0.3 ms) for at most `limit`; like waitCounts it tells a starved process
// from a responsive one when the limit expires.
func pollUntil(limit time.Duration, cond func() bool) int {
	const starveGap = 250 * time.Millisecond
	deadline := time.Now().Add(limit)
	var worst time.Duration
	for !cond() {
		t := time.Now()
		if t.After(deadline) {
			if worst >= starveGap {
				return starved
			}
			return lost
		}
		time.Sleep(300 * time.Microsecond)
		if d := time.Since(t); d > worst {
			worst = d
		}
	}
	return settled
}

// waitCounts waits (event-driven, capped by settleCap) until have(i) >= want(i) for all i. It measures
// its own scheduling latency while it polls: a sleep of 0.3 ms that takes more than starveGap means
// the process is being starved, and then a missing firing proves nothing (late is never bad).
func waitCounts(n int, get func(i int) (have, want int64)) int {
	const starveGap = 250 * time.Millisecond
	deadline := time.Now().Add(settleCap)
	var worst time.Duration
	for i := 0; i < n; i++ {
		for {
			have, want := get(i)
			if have >= want {
				break
			}
			t := time.Now()
			if t.After(deadline) {
				if worst >= starveGap {
					return starved
				}
				return lost
			}
			time.Sleep(300 * time.Microsecond)
			if d := time.Since(t); d > worst {
				worst = d
			}
		}
	}
	return settled
}

// the next firing of every task that was live when the decision began must still be at least
// `margin` away on the real clock
func (r *schedRunner) clearOfNextFiring(live []*sreg, margin time.Duration) bool {
	now := wallNow()
	for _, g := range live {
		k := g.expected(r.vnow)
		if g.total > 0 && k >= g.total {
			continue
		}
		next := g.rBase.Add(time.Duration(g.after+k*g.interval) * time.Millisecond)
		if now.After(next.Add(-margin)) {
			return false
		}
	}
	return true
}

// decision wraps an operation that reads or changes which firings are still to come.
func (r *schedRunner) decision(f func() string) string {
	r.settle()
	var live []*sreg
	for _, g := range r.regs {
		if !g.dead && !g.cron && g.vCancel < 0 {
			live = append(live, g)
		}
	}
	if !r.cronMode && !r.clearOfNextFiring(live, cancelMargin+5*time.Millisecond) {
		r.invalid = true
	}
	out := f()
	if !r.cronMode && !r.clearOfNextFiring(live, cancelMargin) {
		r.invalid = true
		// the decision itself took so long that a firing may have slipped in between the check and
		// the read: a plain count list is not determined (flags such as `early` stay)
		if strings.HasPrefix(out, "[") && strings.HasSuffix(out, "]") && len(live) > 0 {
			return "-"
		}
	}
	return out
}

// alignCron: a cancel that concerns a live cron task is made between 200 and 600 ms past the second
func (r *schedRunner) alignCron() {
	if !r.cronMode {
		return
	}
	ms := time.Now().UnixMilli() % 1000
	if ms < 200 {
		time.Sleep(time.Duration(200-ms) * time.Millisecond)
	} else if ms > 600 {
		time.Sleep(time.Duration(1200-ms) * time.Millisecond)
	}
}

func (r *schedRunner) cancelShadow(g *sreg) {
	if g != nil && g.vCancel < 0 {
		g.vCancel = r.vnow
	}
}

func (r *schedRunner) register(name, after, interval, total int, cron bool) string {
	g := &sreg{name: name, cron: cron, after: clampMs(after), interval: clampMs(interval), total: total,
		vBase: r.vnow, vCancel: -1, dead: r.stopped}
	return r.decision(func() string {
		r.alignCron()
		out := proto.Safe(func() string {
			g.rBase = wallNow()
			sname := strconv.Itoa(name)
			if cron {
				if err := r.s.RegisterCronTask(sname, "* * * * * * *", g.fire); err != nil {
					return "err:cron"
				}
			} else if total == 1 && interval == tickMs {
				r.s.RegisterAfterTask(sname, time.Duration(after)*time.Millisecond, g.fire)
			} else {
				r.s.RegisterRepeatedTask(sname, time.Duration(after)*time.Millisecond, time.Duration(interval)*time.Millisecond, total, g.fire)
			}
			return "ok"
		})
		if r.stopped {
			// a closed scheduler ignores the registration: no task object, and it must never fire
			r.ghosts = append(r.ghosts, g)
			return out
		}
		// shadow bookkeeping mirrors what the code does even when it panics half-way: the old task is
		// closed first; the new one is inserted only if nothing panicked.
		r.cancelShadow(r.table[name])
		if out == "ok" {
			r.regs = append(r.regs, g)
			r.table[name] = g
		} else {
			r.invalid = true
		}
		return out
	})
}

func (r *schedRunner) Step(t []string) string {
	if r.s == nil {
		r.Reset()
	}
	atoi := func(i int) (int, bool) {
		if i >= len(t) {
			return 0, false
		}
		return proto.Atoi(t[i])
	}
	switch t[0] {
	case "after":
		n, ok1 := atoi(1)
		d, ok2 := atoi(2)
		if len(t) != 3 || !ok1 || !ok2 || n < 0 {
			return "bad-op"
		}
		return r.register(n, d, tickMs, 1, false)
	case "repeat":
		n, ok1 := atoi(1)
		a, ok2 := atoi(2)
		iv, ok3 := atoi(3)
		k, ok4 := atoi(4)
		if len(t) != 5 || !ok1 || !ok2 || !ok3 || !ok4 || n < 0 {
			return "bad-op"
		}
		return r.register(n, a, iv, k, false)
	case "cron":
		n, ok1 := atoi(1)
		if len(t) != 2 || !ok1 || n < 0 {
			return "bad-op"
		}
		r.cronMode = true
		return r.register(n, 0, 0, 0, true)
	case "unreg":
		n, ok1 := atoi(1)
		if len(t) != 2 || !ok1 || n < 0 {
			return "bad-op"
		}
		return r.decision(func() string {
			r.alignCron()
			out := proto.Safe(func() string { r.s.UnregisterTask(strconv.Itoa(n)); return "ok" })
			r.cancelShadow(r.table[n])
			delete(r.table, n)
			if out != "ok" {
				r.invalid = true
			}
			return out
		})
	case "clear", "close":
		if len(t) != 1 {
			return "bad-op"
		}
		return r.decision(func() string {
			r.alignCron()
			out := proto.Safe(func() string {
				if t[0] == "clear" {
					r.s.Clear()
				} else {
					r.s.Close()
				}
				return "ok"
			})
			for n, g := range r.table {
				r.cancelShadow(g)
				delete(r.table, n)
			}
			if t[0] == "close" {
				r.stopped = true
			}
			if out != "ok" {
				r.invalid = true
			}
			return out
		})
	case "wait":
		d, ok1 := atoi(1)
		if len(t) != 2 || !ok1 || d < 0 {
			return "bad-op"
		}
		r.vnow += d
		target := r.t0.Add(time.Duration(r.vnow) * time.Millisecond)
		if dd := time.Until(target); dd > 0 {
			time.Sleep(dd)
		}
		return "ok"
	case "counts":
		if len(t) != 1 {
			return "bad-op"
		}
		return r.decision(func() string {
			var sb strings.Builder
			sb.WriteByte('[')
			early := false
			for i, g := range r.regs {
				if i > 0 {
					sb.WriteByte(' ')
				}
				if g.cron {
					sb.WriteByte('c')
				} else {
					sb.WriteString(strconv.FormatInt(g.count.Load(), 10))
				}
				early = early || g.early.Load()
			}
			sb.WriteByte(']')
			for _, g := range r.ghosts {
				if g.count.Load() > 0 {
					sb.WriteString(" fired-after-close")
					return sb.String()
				}
			}
			if early {
				sb.WriteString(" early")
				return sb.String()
			}
			if r.invalid || r.cronMode {
				return "-"
			}
			return sb.String()
		})
	case "tasks":
		if len(t) != 1 {
			return "bad-op"
		}
		return r.decision(func() string {
			var ns []int
			for _, s := range r.s.GetRegisteredTasks() {
				v, err := strconv.Atoi(s)
				if err != nil {
					return "err:name"
				}
				ns = append(ns, v)
			}
			sort.Ints(ns)
			return proto.FmtInts(ns)
		})
	case "cronwait":
		i, ok1 := atoi(1)
		k, ok2 := atoi(2)
		if len(t) != 3 || !ok1 || !ok2 || i < 0 || i >= len(r.regs) || !r.regs[i].cron || r.regs[i].vCancel >= 0 || r.stopped {
			return "bad-op"
		}
		g := r.regs[i]
		deadline := time.Now().Add(time.Duration(k+1)*time.Second + 2*time.Second)
		for g.count.Load() < int64(k) {
			if time.Now().After(deadline) {
				return "timeout"
			}
			time.Sleep(time.Millisecond)
		}
		if g.early.Load() {
			return "early"
		}
		return "ok"
	case "cronquiet":
		i, ok1 := atoi(1)
		d, ok2 := atoi(2)
		if len(t) != 3 || !ok1 || !ok2 || i < 0 || i >= len(r.regs) || d < 0 {
			return "bad-op"
		}
		g := r.regs[i]
		c0 := g.count.Load()
		time.Sleep(time.Duration(d) * time.Millisecond)
		r.vnow += d
		r.t0 = time.Now().Add(-time.Duration(r.vnow) * time.Millisecond)
		if g.vCancel < 0 && !g.dead {
			return "-"
		}
		return strconv.FormatInt(g.count.Load()-c0, 10)
	}
	return "bad-op"
}

// ---------------------------------------------------------------- generator

type gtask struct {
	base, after, interval, total int
	cancel                       int // -1 live
	dead                         bool
}

// dueIn reports whether the task has a due time in the open interval (lo, hi)
func (g *gtask) dueIn(lo, hi int) bool {
	if g.dead {
		return false
	}
	for k := 0; g.total <= 0 || k < g.total; k++ {
		f := g.base + g.after + k*g.interval
		if f >= hi {
			return false
		}
		if g.cancel >= 0 && f > g.cancel {
			return false
		}
		if f > lo {
			return true
		}
	}
	return false
}

type gsim struct {
	now     int
	tasks   []*gtask
	table   map[int]*gtask
	stopped bool
}

func newSim() *gsim { return &gsim{table: map[int]*gtask{}} }

// admissible: a decision at the current time keeps the margins to every live task's due times
func (s *gsim) admissible() bool {
	for _, g := range s.tasks {
		if g.cancel >= 0 {
			continue
		}
		if g.dueIn(s.now-marginAfter, s.now+marginBefore) {
			return false
		}
	}
	return true
}

// apply returns false when the op is a decision that is not admissible at this time
func (s *gsim) apply(t []string) bool {
	at := func(i int) int { v, _ := strconv.Atoi(t[i]); return v }
	switch t[0] {
	case "wait":
		s.now += at(1)
		return true
	}
	if !s.admissible() {
		return false
	}
	cancel := func(g *gtask) {
		if g != nil && g.cancel < 0 {
			g.cancel = s.now
		}
	}
	switch t[0] {
	case "after", "repeat":
		if s.stopped {
			break
		}
		n := at(1)
		g := &gtask{base: s.now, after: clampMs(at(2)), interval: tickMs, total: 1, cancel: -1}
		if t[0] == "repeat" {
			g.interval, g.total = clampMs(at(3)), at(4)
		}
		cancel(s.table[n])
		s.tasks = append(s.tasks, g)
		s.table[n] = g
		// nothing is decided about the new task at its own registration; later decisions must
		// respect the margins to its due times, which admissible() checks then.
	case "unreg":
		cancel(s.table[at(1)])
		delete(s.table, at(1))
	case "clear", "close":
		for n, g := range s.table {
			cancel(g)
			delete(s.table, n)
		}
		if t[0] == "close" {
			s.stopped = true
		}
	}
	return true
}

func emitCase(w *bufio.Writer, no int, tag string, ops []string) {
	fmt.Fprintf(w, "# case %d %s\n", no, tag)
	for _, o := range ops {
		fmt.Fprintln(w, o)
	}
}

// validCase replays the ops through the ideal simulation and reports whether every decision is admissible
func validCase(ops []string) bool {
	s := newSim()
	for _, o := range ops {
		if !s.apply(strings.Fields(o)) {
			return false
		}
	}
	return true
}

func virtualLen(ops []string) int {
	n := 0
	for _, o := range ops {
		f := strings.Fields(o)
		if f[0] == "wait" {
			v, _ := strconv.Atoi(f[1])
			n += v
		}
	}
	return n + 30
}

// phase sweep: every kind of task x every way of ending it x every phase of its life
func phaseCases() [][]string {
	kinds := []string{"after 0 70", "after 0 0", "repeat 0 70 100 2", "repeat 0 70 100 3", "repeat 0 70 100 -1",
		"repeat 0 70 100 0", "repeat 0 -5 100 2", "repeat 0 70 200 2"}
	enders := []string{"", "unreg 0", "after 0 70", "repeat 0 70 100 2", "repeat 0 70 100 -1", "clear", "close", "unreg 1", "after 1 70"}
	var out [][]string
	for _, k := range kinds {
		for _, e := range enders {
			for _, phase := range []int{0, 100, 200, 300, 500} {
				if e == "" && phase != 0 {
					continue
				}
				ops := []string{k}
				if phase > 0 {
					ops = append(ops, fmt.Sprintf("wait %d", phase))
				}
				ops = append(ops, "counts")
				if e != "" {
					ops = append(ops, e, "tasks")
				}
				ops = append(ops, "wait 200", "counts", "wait 300", "counts", "tasks")
				if validCase(ops) {
					out = append(out, ops)
				}
			}
		}
	}
	return out
}

// burst: fast finite tasks (interval = tick) that finish between two decisions
func burstCases() [][]string {
	var out [][]string
	for _, n := range []int{1, 2, 3, 5, 8} {
		for _, iv := range []int{-3, 0, 10, 20} {
			for _, a := range []int{-10, 0, 10, 30} {
				span := clampMs(a) + (n-1)*clampMs(iv)
				w := ((span+marginAfter)/100 + 1) * 100
				ops := []string{fmt.Sprintf("repeat 0 %d %d %d", a, iv, n), fmt.Sprintf("wait %d", w), "counts",
					"wait 100", "counts", "unreg 0", "wait 100", "counts", "tasks"}
				if validCase(ops) {
					out = append(out, ops)
				}
			}
		}
	}
	return out
}

func malformedCases() [][]string {
	return [][]string{
		{"unreg 0", "clear", "tasks", "counts", "close", "tasks"},
		{"close", "close"},
		{"close", "after 0 70", "repeat 1 70 100 2", "tasks", "wait 300", "counts", "unreg 0", "clear", "tasks"},
		{"after 0 70", "close", "wait 200", "counts", "tasks", "unreg 0", "clear"},
		{"repeat 0 70 100 -1", "close", "wait 300", "counts", "close"},
		{"repeat 0 70 100 -7", "wait 300", "counts", "unreg 0", "wait 200", "counts"},
		{"repeat 0 70 100 1000000", "wait 300", "counts", "clear", "wait 200", "counts"},
		{"after 0 -100000", "wait 100", "counts"},
		{"repeat 0 -1 -1 3", "wait 100", "counts"},
		{"unreg 5", "unreg 5", "after 5 70", "unreg 5", "unreg 5", "wait 200", "counts"},
		{"clear", "clear", "after 0 70", "clear", "clear", "wait 200", "counts", "tasks"},
		{"after 0 70", "after 0 70", "after 0 70", "wait 200", "counts", "tasks"},
		{"repeat 0 70 100 -1", "repeat 0 70 100 -1", "repeat 0 70 100 -1", "wait 300", "counts", "clear", "wait 200", "counts"},
		{"bogus", "after", "after x y", "repeat 0 1 2", "wait -5", "counts 1", "unreg"},
	}
}

func cronCases() [][]string {
	return [][]string{
		{"cron 0", "cronwait 0 1", "unreg 0", "cronquiet 0 1300", "tasks"},
		{"cron 0", "cronwait 0 2", "cron 0", "cronquiet 0 1300", "cronwait 1 1", "clear", "cronquiet 1 1300", "tasks"},
		{"cron 0", "cronwait 0 1", "after 0 70", "cronquiet 0 1300", "tasks"},
		{"cron 0", "cronwait 0 1", "close", "cronquiet 0 1300", "tasks"},
	}
}

func randomCase(rng *proto.RNG) []string {
	afters := []int{70, 70, 170, 270, 0, 10, 370, -20}
	intervals := []int{100, 100, 200, 300, 400}
	waits := []int{100, 100, 200, 300, 400}
	for attempt := 0; attempt < 200; attempt++ {
		n := rng.Range(4, 12)
		var ops []string
		s := newSim()
		ok := true
		closed := false
		for i := 0; i < n && ok; i++ {
			var op string
			pick := rng.Pick(5, 8, 3, 1, 1, 4, 3, 1)
			if i == 0 {
				pick = rng.Intn(2) // a case starts with a registration
			}
			switch pick {
			case 0:
				op = fmt.Sprintf("after %d %d", rng.Intn(4), afters[rng.Intn(len(afters))])
			case 1:
				times := []int{2, 3, 4, -1, 0, 1, 6, 5, -3}[rng.Intn(9)]
				op = fmt.Sprintf("repeat %d %d %d %d", rng.Intn(4), afters[rng.Intn(4)], intervals[rng.Intn(len(intervals))], times)
			case 2:
				op = fmt.Sprintf("unreg %d", rng.Intn(4))
			case 3:
				op = "clear"
			case 4:
				if closed || i < n/2 {
					op = "counts"
				} else {
					op = "close"
					closed = true
				}
			case 5:
				op = fmt.Sprintf("wait %d", waits[rng.Intn(len(waits))])
			case 6:
				op = "counts"
			case 7:
				op = "tasks"
			}
			if !s.apply(strings.Fields(op)) {
				// try to repair with a wait that restores the margins
				fixed := false
				for _, wv := range []int{100, 200, 50, 150} {
					cand := append(append([]string{}, ops...), fmt.Sprintf("wait %d", wv), op)
					if validCase(cand) {
						ops = cand
						s = newSim()
						for _, o := range ops {
							s.apply(strings.Fields(o))
						}
						fixed = true
						break
					}
				}
				if !fixed {
					ok = false
				}
				continue
			}
			ops = append(ops, op)
		}
		if !ok {
			continue
		}
		tail := []string{"wait 200", "counts", "wait 300", "counts", "tasks"}
		cand := append(ops, tail...)
		if validCase(cand) {
			return cand
		}
		cand = append(append(ops, "wait 100"), tail...)
		if validCase(cand) {
			return cand
		}
	}
	return []string{"after 0 70", "wait 200", "counts"}
}

func schedGen(rng *proto.RNG, tier string, shard, nshards int, w *bufio.Writer) {
	// the driver seeds shard k with seed*1000003+k, and SplitMix64 streams of consecutive seeds are
	// the same stream shifted by one draw: re-seed from a mixed output so that shards are unrelated
	rng = proto.NewRNG(rng.Next())
	no := 0
	budget := 60000 // virtual ms per shard (sweeps included)
	if tier == "thorough" {
		budget = 400000
	}
	used := 0
	emit := func(tag string, ops []string) {
		if no%nshards == shard {
			emitCase(w, no, tag, ops)
			used += virtualLen(ops)
		}
		no++
	}
	for _, c := range malformedCases() {
		emit("malformed", c)
	}
	for _, c := range phaseCases() {
		emit("phase", c)
	}
	for _, c := range burstCases() {
		emit("burst", c)
	}
	cr := cronCases()
	if tier != "thorough" {
		// quick: one cron case per run (shard 0), chosen by the seed
		if shard == 0 {
			emitCase(w, no, "cron", cr[rng.Intn(len(cr))])
			used += 4000
		}
		no++
	} else {
		for _, c := range cr {
			emit("cron", c)
		}
	}
	for used < budget {
		c := randomCase(rng)
		emitCase(w, no*nshards+shard, "random", c)
		used += virtualLen(c)
		no++
	}
}

func init() {
	proto.Register(&proto.Suite{Name: "scheduler", Gen: schedGen, New: func() proto.Runner { return &schedRunner{} }})
}
