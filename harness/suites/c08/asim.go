package c08

// asim is a Go port of the executable Lean model MV.Model.ActorTimers (ideal timing, virtual
// milliseconds). It is NOT an oracle: nothing it computes is ever compared with the implementation.
// It serves two purposes only: (1) the generator uses it to place decisions at a safe distance from
// every due time, (2) the runner uses it to know how many callbacks to wait for (event-driven
// settling) before it carries out a decision. The comparison is always implementation vs. the
// compiled Lean model / spec.

const (
	idleName   = 1000000
	expireName = 1000001
)

type stask struct {
	id       int
	name     int
	after    int
	interval int
	total    int
	trigger  int
	kill     bool
	pending  bool
	e        int
	base     int
	inc      int
	turns    int // callbacks executed (user tasks)
}

func (t *stask) finished() bool { return t.kill || (t.total > 0 && t.trigger >= t.total) }

type asim struct {
	now      int
	tasks    []*stask
	table    map[int]*stask
	stopped  bool
	mbox     []*stask
	live     bool
	inc      int
	idle     int
	expireAt int  // -1 none
	lastFire int  // virtual time of the last firing (-1000 = none)
	lastUser int  // virtual time of the last firing of a user task
	conflict bool // an idle/expire termination fell within the margins of a user task\'s due time
	anyStale bool
	gterm    bool // a graceful OnTerminate is queued as a user message
	// lostNext: earliest due time of a user task that was still pending when the actor terminated
	// itself (idle deadline / expiry), -1 = none. The real actor terminates a little later than the
	// ideal one; if it is later than this due time the task fires once more, legitimately.
	lostNext int
}

func newAsim(idle, expire int) *asim {
	s := &asim{table: map[int]*stask{}, live: true, idle: idle, expireAt: -1, lastFire: -1000, lastUser: -1000, lostNext: -1}
	if expire > 0 {
		s.expireAt = expire
		s.register(expireName, expire, tickMs, 1)
	}
	s.idleStart()
	return s
}

func (s *asim) closeTask(t *stask) {
	if t.kill {
		return
	}
	t.kill = true
	if t.total <= 0 || t.trigger < t.total {
		t.pending = false
	}
}

func (s *asim) unregister(name int) {
	if t, ok := s.table[name]; ok {
		s.closeTask(t)
		delete(s.table, name)
	}
}

func (s *asim) register(name, after, interval, total int) *stask {
	if s.stopped {
		return nil // a closed scheduler ignores registrations
	}
	t := &stask{id: len(s.tasks), name: name, after: clampMs(after), interval: clampMs(interval), total: total, base: s.now, inc: s.inc}
	s.unregister(name)
	s.tasks = append(s.tasks, t)
	s.table[name] = t
	if !t.finished() {
		t.trigger = 1
		t.pending, t.e = true, s.now+t.after
	}
	return t
}

func (s *asim) clear() {
	for n, t := range s.table {
		s.closeTask(t)
		delete(s.table, n)
	}
}

func (s *asim) msStep() {
	s.now++
	if s.stopped {
		return
	}
	for _, t := range s.tasks {
		if t.pending && t.e <= s.now {
			e := t.e
			if t.finished() {
				t.pending = false
			} else {
				t.trigger++
				t.e = e + t.interval
			}
			if !t.kill {
				s.mbox = append(s.mbox, t)
				s.lastFire = s.now
				if t.name < idleName {
					s.lastUser = s.now
				}
			}
		}
	}
}

func (s *asim) idleStop() {
	if s.idle > 0 {
		s.unregister(idleName)
	}
}

func (s *asim) idleStart() {
	if s.idle > 0 {
		s.register(idleName, s.idle, tickMs, 1)
	}
}

func (s *asim) terminate() {
	if !s.live {
		return
	}
	s.clear()
	s.stopped = true
	s.live = false
	s.idleStart()
}

func (s *asim) restart() {
	s.clear()
	s.inc++
	if s.expireAt >= 0 {
		s.register(expireName, s.expireAt-s.now, tickMs, 1)
	}
	s.idleStop()
	s.idleStart()
}

func (s *asim) turnCb(t *stask) {
	wasLive := s.live
	s.idleStop()
	special := t.name == idleName || t.name == expireName
	if !special && s.live {
		t.turns++
		if t.inc != s.inc {
			s.anyStale = true
		}
	}
	s.idleStart()
	if special && wasLive {
		// the termination that follows is a decision nobody scheduled: it must keep the margins too
		if s.now-s.lastUser < marginAfter {
			s.conflict = true
		}
		for _, u := range s.tasks {
			if u.name < idleName && u.pending && !u.kill && u.e-s.now < marginBefore {
				s.conflict = true
			}
		}
		// Terminate(self, true) is a USER message: it is taken after the callbacks queued so far
		s.gterm = true
	}
}

func (s *asim) settle() {
	for len(s.mbox) > 0 {
		t := s.mbox[0]
		s.mbox = s.mbox[1:]
		s.turnCb(t)
	}
	if s.gterm {
		s.gterm = false
		if s.live {
			for _, u := range s.tasks {
				if u.name < idleName && u.pending && !u.kill && (s.lostNext < 0 || u.e < s.lostNext) {
					s.lostNext = u.e
				}
			}
			s.idleStop()
			s.idleStart()
			s.idleStop()
			s.terminate()
		}
	}
}

func (s *asim) wait(d int) {
	for i := 0; i < d; i++ {
		s.msStep()
		s.settle()
	}
}

func (s *asim) inHandler(d int) {
	for i := 0; i < d; i++ {
		s.msStep()
	}
}

// tell: act is one of after/repeat/stop/ping; returns false when the actor is dead
func (s *asim) tell(act string, name, a, iv, k int) (*stask, bool) {
	if !s.live {
		return nil, false
	}
	s.idleStop()
	var t *stask
	switch act {
	case "after":
		t = s.register(name, a, tickMs, 1)
	case "repeat":
		t = s.register(name, a, iv, k)
	case "stop":
		s.unregister(name)
	}
	s.idleStart()
	s.settle()
	return t, true
}

func (s *asim) busy(d int) bool {
	if !s.live {
		return false
	}
	s.idleStop()
	s.inHandler(d)
	s.idleStart()
	s.settle()
	return true
}

func (s *asim) term(d int) {
	if !s.live {
		return
	}
	s.settle()
	s.idleStop()
	s.inHandler(d)
	s.terminate()
	s.settle()
}

func (s *asim) crash(d int) bool {
	if !s.live {
		return false
	}
	s.idleStop()
	s.idleStart()
	s.settle()
	s.idleStop()
	s.inHandler(d)
	s.restart()
	s.settle()
	return true
}

// nextDue: the earliest expiration of a task that can still post (-1 = none)
func (s *asim) nextDue() int {
	if s.stopped {
		return -1
	}
	best := -1
	for _, t := range s.tasks {
		if t.pending && !t.kill && (best < 0 || t.e < best) {
			best = t.e
		}
	}
	return best
}

// admissible: a decision now keeps the margins to the last and to the next firing
func (s *asim) admissible() bool {
	if s.now-s.lastFire < marginAfter {
		return false
	}
	if n := s.nextDue(); n >= 0 && n-s.now < marginBefore {
		return false
	}
	return true
}
