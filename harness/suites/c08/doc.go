// Package c08 holds the harness suites of property C08 (registered from init functions).
package c08
