package c16

import (
	"bufio"
	"fmt"
	"runtime"
	"sort"
	"strconv"
	"strings"
	"sync"

	"github.com/kercylan98/minotaur/toolkit/collection/listings"
	"github.com/kercylan98/minotaur/toolkit/collection/mappings"
	"verifharness/internal/proto"
)

// stress: the synchronized variants under real concurrency.
//
//	stress:<type> | <program of goroutine 0> | <program of goroutine 1> | …
//
// every goroutine runs its program (s:k:v set, d:k delete, x:k delete-exist, g:k get, a:p:v append
// with priority, A:p:v,v,… bulk append) while reader goroutines hammer the read-only methods.  The
// programs of different goroutines touch disjoint keys / only append, so they commute: the final
// content is that of running them one after the other on the sequential model, which is what the
// oracle computes and compares exactly.  Answer: `<sorted rows> n=<size>` (priority slice:
// additionally `sorted=<raw priorities are ordered>`).

type stressOp struct {
	kind byte
	a, b int
	vs   []int
}

func parseStress(t []string) (typ string, progs [][]stressOp, ok bool) {
	if len(t) < 2 || !strings.HasPrefix(t[0], "stress:") || t[1] != "|" {
		return "", nil, false
	}
	typ = strings.TrimPrefix(t[0], "stress:")
	var cur []stressOp
	flush := func() { progs = append(progs, cur); cur = nil }
	for _, tok := range t[2:] {
		if tok == "|" {
			flush()
			continue
		}
		f := strings.Split(tok, ":")
		if len(f) < 2 || len(f[0]) != 1 {
			return "", nil, false
		}
		op := stressOp{kind: f[0][0]}
		var err error
		if op.a, err = strconv.Atoi(f[1]); err != nil {
			return "", nil, false
		}
		switch op.kind {
		case 's', 'a':
			if len(f) != 3 {
				return "", nil, false
			}
			if op.b, err = strconv.Atoi(f[2]); err != nil {
				return "", nil, false
			}
		case 'A':
			if len(f) != 3 {
				return "", nil, false
			}
			if f[2] != "" {
				for _, x := range strings.Split(f[2], ",") {
					v, err := strconv.Atoi(x)
					if err != nil {
						return "", nil, false
					}
					op.vs = append(op.vs, v)
				}
			}
		case 'd', 'x', 'g':
			if len(f) != 2 {
				return "", nil, false
			}
		default:
			return "", nil, false
		}
		cur = append(cur, op)
	}
	flush()
	return typ, progs, true
}

type stressTarget struct {
	apply func(op stressOp)
	read  func(i int)
	final func() string
}

func stressKeys(progs [][]stressOp) []int {
	seen := map[int]bool{}
	var ks []int
	for _, p := range progs {
		for _, o := range p {
			if o.kind == 's' || o.kind == 'd' || o.kind == 'x' || o.kind == 'g' {
				if !seen[o.a] {
					seen[o.a] = true
					ks = append(ks, o.a)
				}
			}
		}
	}
	sort.Ints(ks)
	return ks
}

func newStressTarget(typ string, progs [][]stressOp) *stressTarget {
	switch typ {
	case "syncmap":
		m := mappings.NewSyncMap[int, int]()
		return &stressTarget{
			apply: func(o stressOp) {
				switch o.kind {
				case 's':
					m.Set(o.a, o.b)
				case 'd':
					m.Delete(o.a)
				case 'x':
					m.DeleteExist(o.a)
				case 'g':
					m.GetExist(o.a)
				}
			},
			read: func(i int) {
				switch i % 5 {
				case 0:
					m.Keys()
				case 1:
					m.Size()
				case 2:
					m.Range(func(k, v int) bool { return false })
				case 3:
					m.Map()
				case 4:
					m.Slice()
				}
			},
			final: func() string { return fmt.Sprintf("%s n=%d", fmtRows(mapRows(m.Map())), m.Size()) },
		}
	case "ordersync":
		m := mappings.NewOrderSync[int, int]()
		return &stressTarget{
			apply: func(o stressOp) {
				switch o.kind {
				case 's':
					m.Set(o.a, o.b)
				case 'd', 'x':
					m.Del(o.a)
				case 'g':
					m.Get(o.a)
				}
			},
			read: func(i int) {
				if i%2 == 0 {
					m.Len()
				} else {
					m.Range(func(k, v int) bool { return true })
				}
			},
			final: func() string {
				var rows [][]int
				m.Range(func(k, v int) bool { rows = append(rows, []int{k, v}); return true })
				return fmt.Sprintf("%s n=%d", fmtRows(sortRows(rows)), m.Len())
			},
		}
	case "mbucket", "bucket":
		var b bucketAPI
		if typ == "mbucket" {
			b = mappings.NewMutexBucket[int, int](4, bucketHash)
		} else {
			b = mappings.NewBucket[int, int](4, bucketHash)
		}
		keys := stressKeys(progs)
		return &stressTarget{
			apply: func(o stressOp) {
				switch o.kind {
				case 's':
					b.Set(o.a, o.b)
				case 'd', 'x':
					b.Del(o.a)
				case 'g':
					b.Get(o.a)
				}
			},
			read: func(i int) {
				if i%2 == 0 {
					b.Len()
				} else if len(keys) > 0 {
					b.Get(keys[i%len(keys)])
				}
			},
			final: func() string {
				var rows [][]int
				for _, k := range keys {
					if v, ok := b.Get(k); ok {
						rows = append(rows, []int{k, v})
					}
				}
				return fmt.Sprintf("%s n=%d", fmtRows(rows), b.Len())
			},
		}
	case "syncprio":
		p := listings.NewSyncPrioritySlice[int]()
		return &stressTarget{
			apply: func(o stressOp) {
				switch o.kind {
				case 'a':
					p.Append(o.b, o.a)
				case 'A':
					p.Appends(o.a, o.vs...)
				}
			},
			read: func(i int) {
				switch i % 3 {
				case 0:
					p.Len()
				case 1:
					p.Slice()
				case 2:
					p.RangePriority(func(int, int) bool { return true })
				}
			},
			final: func() string {
				var rows [][]int
				sorted := true
				last := 0
				n := p.Len()
				for i := 0; i < n; i++ {
					v, pr := p.Get(i)
					if i > 0 && pr < last {
						sorted = false
					}
					last = pr
					rows = append(rows, []int{pr, v})
				}
				return fmt.Sprintf("%s n=%d sorted=%s", fmtRows(sortRows(rows)), n, boolStr(sorted))
			},
		}
	case "syncslice":
		s := listings.NewSyncSlice[int](0, 0)
		return &stressTarget{
			apply: func(o stressOp) {
				switch o.kind {
				case 'a':
					s.Append(o.b)
				case 'A':
					s.Append(o.vs...)
				}
			},
			read: func(i int) {
				if i%2 == 0 {
					s.GetData()
				} else {
					s.GetWithRange(0, 0)
				}
			},
			final: func() string {
				d := sortedInts(s.GetData())
				return fmt.Sprintf("%s n=%d", fmtList(d), len(d))
			},
		}
	}
	return nil
}

type stressRunner struct{}

func (stressRunner) Reset() {}
func (stressRunner) Step(t []string) string {
	typ, progs, ok := parseStress(t)
	if !ok {
		return "bad-op"
	}
	tg := newStressTarget(typ, progs)
	if tg == nil {
		return "bad-op"
	}
	var wg sync.WaitGroup
	start := make(chan struct{})
	stop := make(chan struct{})
	var rg sync.WaitGroup
	for r := 0; r < 2; r++ {
		rg.Add(1)
		go func(r int) {
			defer rg.Done()
			<-start
			for i := r; ; i++ {
				select {
				case <-stop:
					return
				default:
				}
				tg.read(i)
				runtime.Gosched()
			}
		}(r)
	}
	for _, prog := range progs {
		wg.Add(1)
		go func(prog []stressOp) {
			defer wg.Done()
			<-start
			for i, o := range prog {
				tg.apply(o)
				if i%3 == 0 {
					runtime.Gosched()
				}
			}
		}(prog)
	}
	close(start)
	wg.Wait()
	close(stop)
	rg.Wait()
	return tg.final()
}

func stressGen(rng *proto.RNG, tier string, shard, nshards int, w *bufio.Writer) {
	e := &emitter{w: w, shard: shard, nshards: nshards}
	n := 12
	if tier == "thorough" {
		n = 120
	}
	types := []string{"syncmap", "ordersync", "mbucket", "bucket", "syncprio", "syncslice"}
	for _, typ := range types {
		for i := 0; i < n; i++ {
			g := rng.Range(2, 8)
			m := rng.Range(5, 60)
			if tier == "thorough" && rng.Intn(5) == 0 {
				m = rng.Range(100, 400)
			}
			var sb strings.Builder
			sb.WriteString("stress:" + typ)
			next := 0
			for gi := 0; gi < g; gi++ {
				sb.WriteString(" |")
				nk := rng.Range(1, 6)
				for j := 0; j < m; j++ {
					next++
					k := gi*100 + rng.Intn(nk)
					switch typ {
					case "syncprio":
						if rng.Intn(4) == 0 {
							vs := make([]string, rng.Range(0, 4))
							for x := range vs {
								next++
								vs[x] = strconv.Itoa(next)
							}
							fmt.Fprintf(&sb, " A:%d:%s", rng.Range(0, 3), strings.Join(vs, ","))
						} else {
							fmt.Fprintf(&sb, " a:%d:%d", rng.Range(0, 3), next)
						}
					case "syncslice":
						if rng.Intn(4) == 0 {
							vs := make([]string, rng.Range(0, 4))
							for x := range vs {
								next++
								vs[x] = strconv.Itoa(next)
							}
							fmt.Fprintf(&sb, " A:0:%s", strings.Join(vs, ","))
						} else {
							fmt.Fprintf(&sb, " a:0:%d", next)
						}
					default:
						switch rng.Pick(5, 2, 1, 2) {
						case 0:
							fmt.Fprintf(&sb, " s:%d:%d", k, next)
						case 1:
							fmt.Fprintf(&sb, " d:%d", k)
						case 2:
							fmt.Fprintf(&sb, " x:%d", k)
						case 3:
							fmt.Fprintf(&sb, " g:%d", k)
						}
					}
				}
			}
			e.emit([]string{sb.String()})
		}
	}
}

func init() {
	proto.Register(&proto.Suite{Name: "stress", Gen: stressGen, New: func() proto.Runner { return stressRunner{} }})
}
