// Package c16 holds the harness suites of property C16 (registered from init functions).
package c16
