package c16

import (
	"bufio"
	"encoding/hex"
	"fmt"

	"github.com/kercylan98/minotaur/toolkit"
	"verifharness/internal/proto"
)

// bitset: toolkit.DynamicBitSet (four registers a..d) against MV.Model.BitSet and the set spec.

type bitsetRunner struct{ regs map[string]*toolkit.DynamicBitSet }

func (r *bitsetRunner) Reset() {
	r.regs = map[string]*toolkit.DynamicBitSet{}
	for _, n := range []string{"a", "b", "c", "d"} {
		r.regs[n] = toolkit.NewDynamicBitSet()
	}
}

func bitPos(s string) (uint32, bool) {
	v, ok := proto.Atoi(s)
	if !ok || v < 0 || v >= 1<<32 {
		return 0, false
	}
	return uint32(v), true
}

func (r *bitsetRunner) Step(t []string) string {
	if len(t) < 2 {
		return "bad-op"
	}
	x, ok := r.regs[t[1]]
	if !ok {
		return "bad-op"
	}
	switch {
	case t[0] == "new" && len(t) == 2:
		r.regs[t[1]] = toolkit.NewDynamicBitSet()
		return "ok"
	case t[0] == "zero" && len(t) == 2:
		r.regs[t[1]] = new(toolkit.DynamicBitSet)
		return "ok"
	case (t[0] == "set" || t[0] == "clear" || t[0] == "isset") && len(t) == 3:
		p, ok := bitPos(t[2])
		if !ok {
			return "bad-op"
		}
		switch t[0] {
		case "set":
			x.Set(p)
			return "ok"
		case "clear":
			x.Clear(p)
			return "ok"
		}
		return boolStr(x.IsSet(p))
	case t[0] == "bits" && len(t) == 2:
		bs := x.Bits()
		out := make([]int, len(bs))
		for i, b := range bs {
			out[i] = int(b)
		}
		return fmtList(out)
	case t[0] == "words" && len(t) == 2:
		return fmt.Sprint(len(x.Key()) / 8)
	case t[0] == "key" && len(t) == 2:
		return "k" + hex.EncodeToString([]byte(x.Key()))
	case len(t) == 3:
		y, ok := r.regs[t[2]]
		if !ok {
			return "bad-op"
		}
		switch t[0] {
		case "copy":
			r.regs[t[2]] = x.Copy()
			return "ok"
		case "equal":
			return boolStr(x.Equal(y))
		case "in":
			return boolStr(x.In(y))
		case "notin":
			return boolStr(x.NotIn(y))
		}
	}
	return "bad-op"
}

func bitsetGen(rng *proto.RNG, tier string, shard, nshards int, w *bufio.Writer) {
	e := &emitter{w: w, shard: shard, nshards: nshards}
	// (ii) exhaustive: two registers, positions {0, 63, 64, 130}, sequences up to maxLen, then all
	// pairwise predicates
	maxLen := 4
	if tier == "thorough" {
		maxLen = 5
	}
	poss := []int{0, 63, 64, 130}
	var alpha []string
	for _, reg := range []string{"a", "b"} {
		for _, p := range poss {
			alpha = append(alpha, fmt.Sprintf("set %s %d", reg, p), fmt.Sprintf("clear %s %d", reg, p))
		}
	}
	alpha = append(alpha, "zero a", "copy a b")
	seq := make([]int, 0, maxLen)
	tail := []string{"bits a", "bits b", "words a", "words b", "key a", "equal a b", "equal b a", "in a b", "in b a", "notin a b", "notin b a",
		"isset a 0", "isset a 63", "isset a 64", "isset b 130", "isset b 131", "isset a 9999"}
	var rec func()
	rec = func() {
		if len(seq) == maxLen {
			if !e.mine() {
				e.skip()
				return
			}
			lines := []string{"new a", "new b"}
			for _, a := range seq {
				lines = append(lines, alpha[a])
			}
			lines = append(lines, tail...)
			e.emit(lines)
			return
		}
		for a := range alpha {
			seq = append(seq, a)
			rec()
			seq = seq[:len(seq)-1]
		}
	}
	rec()
	nRandom, maxOps := 300, 100
	if tier == "thorough" {
		nRandom, maxOps = 4000, 300
	}
	regs := []string{"a", "b", "c", "d"}
	for i := 0; i < nRandom; i++ {
		var lines []string
		for _, n := range regs {
			if rng.Intn(4) == 0 {
				lines = append(lines, "zero "+n)
			} else {
				lines = append(lines, "new "+n)
			}
		}
		pmax := []int{5, 70, 200, 3000}[rng.Intn(4)]
		pos := func() int {
			if rng.Intn(6) == 0 {
				return []int{0, 63, 64, 127, 128, 191}[rng.Intn(6)]
			}
			return rng.Range(0, pmax)
		}
		for j := 0; j < rng.Range(1, maxOps); j++ {
			x, y := regs[rng.Intn(4)], regs[rng.Intn(4)]
			switch rng.Pick(30, 15, 10, 5, 8, 8, 8, 4, 2, 2) {
			case 0:
				lines = append(lines, fmt.Sprintf("set %s %d", x, pos()))
			case 1:
				lines = append(lines, fmt.Sprintf("clear %s %d", x, pos()))
			case 2:
				lines = append(lines, fmt.Sprintf("isset %s %d", x, pos()))
			case 3:
				lines = append(lines, "bits "+x)
			case 4:
				lines = append(lines, fmt.Sprintf("equal %s %s", x, y))
			case 5:
				lines = append(lines, fmt.Sprintf("in %s %s", x, y))
			case 6:
				lines = append(lines, fmt.Sprintf("notin %s %s", x, y))
			case 7:
				lines = append(lines, fmt.Sprintf("copy %s %s", x, y))
			case 8:
				lines = append(lines, "key "+x, "words "+x)
			case 9:
				// subset construction: copy then add — `in` must be true afterwards
				lines = append(lines, fmt.Sprintf("copy %s %s", x, y), fmt.Sprintf("set %s %d", y, pos()), fmt.Sprintf("in %s %s", y, x))
			}
		}
		for _, n := range regs {
			lines = append(lines, "bits "+n)
		}
		e.emit(lines)
	}
}

func init() {
	proto.Register(&proto.Suite{Name: "bitset", Gen: bitsetGen, New: func() proto.Runner { r := &bitsetRunner{}; r.Reset(); return r }})
}
