package c16

import (
	"bufio"
	"encoding/hex"
	"fmt"

	"github.com/kercylan98/minotaur/toolkit"
	"verifharness/internal/proto"
)

// bitset: toolkit.DynamicBitSet (four registers a..d) against MV.Model.BitSet and the set spec.

type bitsetRunner struct{ regs map[string]*toolkit.DynamicBitSet }

func (r *bitsetRunner) Reset() {
	r.regs = map[string]*toolkit.DynamicBitSet{}
	for _, n := range []string{"a", "b", "c", "d"} {
		r.regs[n] = toolkit.NewDynamicBitSet()
	}
}

func bitPos(s string) (uint32, bool) {
	v, ok := proto.Atoi(s)
	if !ok || v < 0 || v >= 1<<32 {
		return 0, false
	}
	return uint32(v), true
}

func (r *bitsetRunner) Step(t []string) string {
	if len(t) < 2 {
		return "bad-op"
	}
	x, ok := r.regs[t[1]]
	if !ok {
		return "bad-op"
	}
	switch {
	case t[0] == "new" && len(t) == 2:
		r.regs[t[1]] = toolkit.NewDynamicBitSet()
		return "ok"
	case t[0] == "zero" && len(t) == 2:
		r.regs[t[1]] = new(toolkit.DynamicBitSet)
		return "ok"
	case (t[0] == "set" || t[0] == "clear" || t[0] == "isset") && len(t) == 3:
		p, ok := bitPos(t[2])
		if !ok {
			return "bad-op"
		}
		switch t[0] {
		case "set":
			x.Set(p)
			return "ok"
		case "clear":
			x.Clear(p)
			return "ok"
		}
		return boolStr(x.IsSet(p))
	case t[0] == "bits" && len(t) == 2:
		bs := x.Bits()
		out := make([]int, len(bs))
		for i, b := range bs {
			out[i] = int(b)
		}
		return fmtList(out)
	case t[0] == "words" && len(t) == 2:
		return fmt.Sprint(len(x.Key()) / 8)
	case t[0] == "key" && len(t) == 2:
		return "k" + hex.EncodeToString([]byte(x.Key()))
	case len(t) == 3:
		y, ok := r.regs[t[2]]
		if !ok {
			return "bad-op"
		}
		switch t[0] {
		case "copy":
			r.regs[t[2]] = x.Copy()
			return "ok"
		case "equal", "equalx":
			return boolStr(x.Equal(y))
		case "in", "inx":
			return boolStr(x.In(y))
		case "notin":
			return boolStr(x.NotIn(y))
		}
	}
	return "bad-op"
}

// wordTracker follows len(bits) of every register so that the generator can tell whether `Equal`/`In`
// are asked about operands of different word counts (ops `equalx`/`inx`: the as-coded answers are
// known to deviate from set semantics there) or not (`equal`/`in`: must agree with set semantics).
type wordTracker map[string]int

func (w wordTracker) apply(line string) {
	var op, x, y string
	var p int
	if n, _ := fmt.Sscanf(line, "%s %s %d", &op, &x, &p); n == 3 && op == "set" {
		if p/64+1 > w[x] {
			w[x] = p/64 + 1
		}
		return
	}
	if n, _ := fmt.Sscanf(line, "%s %s %s", &op, &x, &y); n == 3 && op == "copy" {
		w[y] = w[x]
		return
	}
	if n, _ := fmt.Sscanf(line, "%s %s", &op, &x); n == 2 {
		switch op {
		case "new":
			w[x] = 1
		case "zero":
			w[x] = 0
		}
	}
}

func (w wordTracker) equal(x, y string) string {
	if w[x] == w[y] {
		return fmt.Sprintf("equal %s %s", x, y)
	}
	return fmt.Sprintf("equalx %s %s", x, y)
}

// in: x.In(y) — y is the mask
func (w wordTracker) in(x, y string) string {
	if w[y] <= w[x] {
		return fmt.Sprintf("in %s %s", x, y)
	}
	return fmt.Sprintf("inx %s %s", x, y)
}

func bitsetGen(rng *proto.RNG, tier string, shard, nshards int, w *bufio.Writer) {
	e := &emitter{w: w, shard: shard, nshards: nshards}
	// (ii) exhaustive: two registers, positions {0, 63, 64, 130}, sequences up to maxLen, then all
	// pairwise predicates
	maxLen := 4
	if tier == "thorough" {
		maxLen = 5
	}
	poss := []int{0, 63, 64, 130}
	var alpha []string
	for _, reg := range []string{"a", "b"} {
		for _, p := range poss {
			alpha = append(alpha, fmt.Sprintf("set %s %d", reg, p), fmt.Sprintf("clear %s %d", reg, p))
		}
	}
	alpha = append(alpha, "zero a", "copy a b")
	seq := make([]int, 0, maxLen)
	tail := []string{"bits a", "bits b", "words a", "words b", "key a", "notin a b", "notin b a",
		"isset a 0", "isset a 63", "isset a 64", "isset b 130", "isset b 131", "isset a 9999"}
	var rec func()
	rec = func() {
		if len(seq) == maxLen {
			if !e.mine() {
				e.skip()
				return
			}
			lines := []string{"new a", "new b"}
			wt := wordTracker{"a": 1, "b": 1}
			for _, a := range seq {
				lines = append(lines, alpha[a])
				wt.apply(alpha[a])
			}
			lines = append(lines, wt.equal("a", "b"), wt.equal("b", "a"), wt.in("a", "b"), wt.in("b", "a"))
			lines = append(lines, tail...)
			e.emit(lines)
			return
		}
		for a := range alpha {
			seq = append(seq, a)
			rec()
			seq = seq[:len(seq)-1]
		}
	}
	rec()
	nRandom, maxOps := 300, 100
	if tier == "thorough" {
		nRandom, maxOps = 4000, 300
	}
	regs := []string{"a", "b", "c", "d"}
	for i := 0; i < nRandom; i++ {
		var lines []string
		wt := wordTracker{}
		add := func(ls ...string) {
			for _, l := range ls {
				lines = append(lines, l)
				wt.apply(l)
			}
		}
		for _, n := range regs {
			if rng.Intn(4) == 0 {
				add("zero " + n)
			} else {
				add("new " + n)
			}
		}
		pmax := []int{5, 70, 200, 3000}[rng.Intn(4)]
		pos := func() int {
			if rng.Intn(6) == 0 {
				return []int{0, 63, 64, 127, 128, 191}[rng.Intn(6)]
			}
			return rng.Range(0, pmax)
		}
		for j := 0; j < rng.Range(1, maxOps); j++ {
			x, y := regs[rng.Intn(4)], regs[rng.Intn(4)]
			switch rng.Pick(30, 15, 10, 5, 8, 8, 8, 4, 2, 2) {
			case 0:
				add(fmt.Sprintf("set %s %d", x, pos()))
			case 1:
				add(fmt.Sprintf("clear %s %d", x, pos()))
			case 2:
				add(fmt.Sprintf("isset %s %d", x, pos()))
			case 3:
				add("bits " + x)
			case 4:
				add(wt.equal(x, y))
			case 5:
				add(wt.in(x, y))
			case 6:
				add(fmt.Sprintf("notin %s %s", x, y))
			case 7:
				add(fmt.Sprintf("copy %s %s", x, y))
			case 8:
				add("key "+x, "words "+x)
			case 9:
				// subset construction: copy then add — `in` must be true afterwards
				add(fmt.Sprintf("copy %s %s", x, y), fmt.Sprintf("set %s %d", y, pos()))
				add(wt.in(y, x))
			}
		}
		for _, n := range regs {
			lines = append(lines, "bits "+n)
		}
		e.emit(lines)
	}
}

func init() {
	proto.Register(&proto.Suite{Name: "bitset", Gen: bitsetGen, New: func() proto.Runner { r := &bitsetRunner{}; r.Reset(); return r }})
}
