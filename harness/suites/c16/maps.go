package c16

import (
	"bufio"
	"fmt"

	"github.com/kercylan98/minotaur/toolkit/collection/listings"
	"github.com/kercylan98/minotaur/toolkit/collection/mappings"
	"verifharness/internal/proto"
)

// ---------------------------------------------------------------- syncmap

type syncMapRunner struct{ m *mappings.SyncMap[int, int] }

func (r *syncMapRunner) Reset() { r.m = mappings.NewSyncMap[int, int]() }

func mapRows(m map[int]int) [][]int {
	var rows [][]int
	for k, v := range m {
		rows = append(rows, []int{k, v})
	}
	return sortRows(rows)
}

func (r *syncMapRunner) Step(t []string) string {
	switch t[0] {
	case "new":
		if len(t) != 1 {
			return "bad-op"
		}
		r.Reset()
		return "ok"
	case "set":
		a, ok := ints(t, 2)
		if !ok {
			return "bad-op"
		}
		r.m.Set(a[0], a[1])
		return "ok"
	case "get":
		a, ok := ints(t, 1)
		if !ok {
			return "bad-op"
		}
		return fmt.Sprint(r.m.Get(a[0]))
	case "exist":
		a, ok := ints(t, 1)
		if !ok {
			return "bad-op"
		}
		return boolStr(r.m.Exist(a[0]))
	case "getexist":
		a, ok := ints(t, 1)
		if !ok {
			return "bad-op"
		}
		v, ex := r.m.GetExist(a[0])
		return fmt.Sprintf("%d %s", v, boolStr(ex))
	case "delete":
		a, ok := ints(t, 1)
		if !ok {
			return "bad-op"
		}
		r.m.Delete(a[0])
		return "ok"
	case "deleteget":
		a, ok := ints(t, 1)
		if !ok {
			return "bad-op"
		}
		return fmt.Sprint(r.m.DeleteGet(a[0]))
	case "deletegetexist":
		a, ok := ints(t, 1)
		if !ok {
			return "bad-op"
		}
		v, ex := r.m.DeleteGetExist(a[0])
		return fmt.Sprintf("%d %s", v, boolStr(ex))
	case "deleteexist":
		a, ok := ints(t, 1)
		if !ok {
			return "bad-op"
		}
		return boolStr(r.m.DeleteExist(a[0]))
	case "clear":
		if len(t) != 1 {
			return "bad-op"
		}
		r.m.Clear()
		return "ok"
	case "clearhandle":
		if len(t) != 1 {
			return "bad-op"
		}
		var rows [][]int
		r.m.ClearHandle(func(k, v int) { rows = append(rows, []int{k, v}) })
		return fmtRows(sortRows(rows))
	case "range":
		if len(t) != 1 {
			return "bad-op"
		}
		var rows [][]int
		r.m.Range(func(k, v int) bool { rows = append(rows, []int{k, v}); return false })
		return fmtRows(sortRows(rows))
	case "rangestop":
		a, ok := ints(t, 1)
		if !ok {
			return "bad-op"
		}
		cnt := 0
		r.m.Range(func(k, v int) bool { cnt++; return cnt >= a[0] })
		return fmt.Sprint(cnt)
	case "keys":
		if len(t) != 1 {
			return "bad-op"
		}
		return fmtList(sortedInts(r.m.Keys()))
	case "slice":
		if len(t) != 1 {
			return "bad-op"
		}
		return fmtList(sortedInts(r.m.Slice()))
	case "map":
		if len(t) != 1 {
			return "bad-op"
		}
		return fmtRows(mapRows(r.m.Map()))
	case "size":
		if len(t) != 1 {
			return "bad-op"
		}
		return fmt.Sprint(r.m.Size())
	case "atom":
		a, ok := ints(t, 3)
		if !ok {
			return "bad-op"
		}
		r.m.Atom(func(m map[int]int) { m[a[0]] = a[1]; delete(m, a[2]) })
		return "ok"
	}
	return "bad-op"
}

var syncMapKeyOps = []string{"set", "get", "exist", "getexist", "delete", "deleteget", "deletegetexist", "deleteexist"}

func syncMapGen(rng *proto.RNG, tier string, shard, nshards int, w *bufio.Writer) {
	e := &emitter{w: w, shard: shard, nshards: nshards}
	// absent-key operations first, each in its own tiny case (a fatal error kills only that case)
	for _, op := range syncMapKeyOps[1:] {
		for _, pre := range [][]string{{}, {"set 1 5"}, {"set 1 5", "delete 1"}} {
			lines := append([]string{"new"}, pre...)
			lines = append(lines, op+" 2", "size")
			e.emit(lines)
		}
	}
	// (ii) exhaustive over keys 1..2
	maxLen := 4
	if tier == "thorough" {
		maxLen = 5
	}
	var alpha []string
	for _, op := range syncMapKeyOps {
		for k := 1; k <= 2; k++ {
			if op == "set" {
				alpha = append(alpha, fmt.Sprintf("set %d", k))
			} else {
				alpha = append(alpha, fmt.Sprintf("%s %d", op, k))
			}
		}
	}
	alpha = append(alpha, "clear", "clearhandle", "atom")
	seq := make([]int, 0, maxLen)
	var rec func()
	rec = func() {
		if len(seq) == maxLen {
			if !e.mine() {
				e.skip()
				return
			}
			lines := []string{"new"}
			next := 10
			for _, a := range seq {
				next++
				s := alpha[a]
				switch {
				case len(s) > 3 && s[:3] == "set":
					s = fmt.Sprintf("%s %d", s, next)
				case s == "atom":
					s = fmt.Sprintf("atom 1 %d 2", next)
				}
				lines = append(lines, s)
			}
			lines = append(lines, "size", "map", "keys", "slice", "range", "rangestop 1")
			e.emit(lines)
			return
		}
		for a := range alpha {
			seq = append(seq, a)
			rec()
			seq = seq[:len(seq)-1]
		}
	}
	rec()
	nRandom, maxOps := 300, 120
	if tier == "thorough" {
		nRandom, maxOps = 4000, 400
	}
	for i := 0; i < nRandom; i++ {
		lines := []string{"new"}
		nk := []int{2, 6, 30, 300}[rng.Intn(4)]
		next := 0
		for j := 0; j < rng.Range(1, maxOps); j++ {
			next++
			k := rng.Range(-1, nk)
			switch rng.Pick(30, 40, 2, 2, 4, 4, 4, 4, 3) {
			case 0:
				lines = append(lines, fmt.Sprintf("set %d %d", k, next))
			case 1:
				lines = append(lines, fmt.Sprintf("%s %d", syncMapKeyOps[1+rng.Intn(7)], k))
			case 2:
				lines = append(lines, "clear")
			case 3:
				lines = append(lines, "clearhandle")
			case 4:
				lines = append(lines, "map")
			case 5:
				lines = append(lines, "keys", "slice")
			case 6:
				lines = append(lines, "size")
			case 7:
				lines = append(lines, fmt.Sprintf("rangestop %d", rng.Range(-1, 5)), "range")
			case 8:
				lines = append(lines, fmt.Sprintf("atom %d %d %d", k, next, rng.Range(-1, nk)))
			}
		}
		lines = append(lines, "size", "map")
		e.emit(lines)
	}
}

// ---------------------------------------------------------------- buckets

type bucketAPI interface {
	Get(key int) (int, bool)
	Set(key int, value int)
	Del(key int)
	Len() int
	Clear()
}

type bucketRunner struct {
	b  bucketAPI
	mb *mappings.MutexBucket[int, int]
}

func bucketHash(size int, key int) int { return ((key % size) + size) % size }

func (r *bucketRunner) mk(kind string, n int) {
	if kind == "m" {
		r.mb = mappings.NewMutexBucket[int, int](n, bucketHash)
		r.b = r.mb
	} else {
		r.mb = nil
		r.b = mappings.NewBucket[int, int](n, bucketHash)
	}
}

func (r *bucketRunner) Reset() { r.mk("m", 1) }

func (r *bucketRunner) Step(t []string) string {
	switch t[0] {
	case "new":
		if len(t) != 3 || (t[1] != "b" && t[1] != "m") {
			return "bad-op"
		}
		n, ok := proto.Atoi(t[2])
		if !ok || n < 1 {
			return "bad-op"
		}
		r.mk(t[1], n)
		return "ok"
	case "get", "getraw":
		a, ok := ints(t, 1)
		if !ok {
			return "bad-op"
		}
		v, ex := r.b.Get(a[0])
		if !ex && t[0] == "get" {
			v = 0 // Go convention: the value is meaningless when exists == false (`getraw` shows it)
		}
		return fmt.Sprintf("%d %s", v, boolStr(ex))
	case "set":
		a, ok := ints(t, 2)
		if !ok {
			return "bad-op"
		}
		r.b.Set(a[0], a[1])
		return "ok"
	case "del":
		a, ok := ints(t, 1)
		if !ok {
			return "bad-op"
		}
		r.b.Del(a[0])
		return "ok"
	case "len":
		if len(t) != 1 {
			return "bad-op"
		}
		return fmt.Sprint(r.b.Len())
	case "clear":
		if len(t) != 1 {
			return "bad-op"
		}
		r.b.Clear()
		return "ok"
	case "getorset":
		a, ok := ints(t, 2)
		if !ok || r.mb == nil {
			return "bad-op"
		}
		v, ex := r.mb.GetBucket(a[0]).GetOrSet(a[0], a[1])
		return fmt.Sprintf("%d %s", v, boolStr(ex))
	case "getanddel":
		a, ok := ints(t, 1)
		if !ok || r.mb == nil {
			return "bad-op"
		}
		v, ex := r.mb.GetBucket(a[0]).GetAndDel(a[0])
		return fmt.Sprintf("%d %s", v, boolStr(ex))
	}
	return "bad-op"
}

func bucketGen(rng *proto.RNG, tier string, shard, nshards int, w *bufio.Writer) {
	e := &emitter{w: w, shard: shard, nshards: nshards}
	// strict plain-map reading of Get on a deleted / never-set key (value must be the zero value)
	for _, kind := range []string{"b", "m"} {
		e.emit([]string{"new " + kind + " 2", "getraw 1", "set 1 14", "del 1", "getraw 1", "len"})
		e.emit([]string{"new " + kind + " 1", "set 0 11", "set 1 12", "del 1", "getraw 1", "getraw 0", "getraw 5"})
	}
	maxLen := 5
	if tier == "thorough" {
		maxLen = 6
	}
	// (ii) exhaustive: keys 0..2 (two of them collide for 2 buckets), bucket counts 1..3
	for _, kind := range []string{"b", "m"} {
		for n := 1; n <= 3; n++ {
			alpha := []string{"set 0", "set 1", "set 2", "del 0", "del 1", "del 2", "clear"}
			if kind == "m" {
				alpha = append(alpha, "getorset 0", "getanddel 2")
			}
			seq := make([]int, 0, maxLen)
			var rec func()
			rec = func() {
				if len(seq) == maxLen {
					if !e.mine() {
						e.skip()
						return
					}
					lines := []string{fmt.Sprintf("new %s %d", kind, n)}
					next := 10
					for _, a := range seq {
						next++
						s := alpha[a]
						if s[:3] == "set" || s[:4] == "geto" {
							s = fmt.Sprintf("%s %d", s, next)
						}
						lines = append(lines, s)
					}
					lines = append(lines, "len", "get 0", "get 1", "get 2", "get 3")
					e.emit(lines)
					return
				}
				for a := range alpha {
					seq = append(seq, a)
					rec()
					seq = seq[:len(seq)-1]
				}
			}
			rec()
		}
	}
	nRandom, maxOps := 300, 150
	if tier == "thorough" {
		nRandom, maxOps = 4000, 500
	}
	for i := 0; i < nRandom; i++ {
		kind := []string{"b", "m"}[rng.Intn(2)]
		n := []int{1, 2, 3, 4, 7, 16}[rng.Intn(6)]
		lines := []string{fmt.Sprintf("new %s %d", kind, n)}
		nk := []int{3, 10, 100}[rng.Intn(3)]
		next := 0
		for j := 0; j < rng.Range(1, maxOps); j++ {
			next++
			k := rng.Range(-nk, nk) // negative keys too
			switch rng.Pick(30, 20, 15, 8, 1, 6, 6) {
			case 0:
				lines = append(lines, fmt.Sprintf("set %d %d", k, next))
			case 1:
				lines = append(lines, fmt.Sprintf("get %d", k))
			case 2:
				lines = append(lines, fmt.Sprintf("del %d", k))
			case 3:
				lines = append(lines, "len")
			case 4:
				lines = append(lines, "clear")
			case 5:
				if kind == "m" {
					lines = append(lines, fmt.Sprintf("getorset %d %d", k, next))
				}
			case 6:
				if kind == "m" {
					lines = append(lines, fmt.Sprintf("getanddel %d", k))
				}
			}
		}
		lines = append(lines, "len")
		for k := -3; k <= 3; k++ {
			lines = append(lines, fmt.Sprintf("get %d", k))
		}
		e.emit(lines)
	}
}

// ---------------------------------------------------------------- syncslice

type syncSliceRunner struct{ s *listings.SyncSlice[int] }

func (r *syncSliceRunner) Reset() { r.s = listings.NewSyncSlice[int](0, 0) }

func (r *syncSliceRunner) Step(t []string) string {
	switch t[0] {
	case "new":
		a, ok := ints(t, 2)
		if !ok || a[0] < 0 || a[0] > a[1] {
			return "bad-op"
		}
		r.s = listings.NewSyncSlice[int](a[0], a[1])
		return "ok"
	case "get":
		a, ok := ints(t, 1)
		if !ok {
			return "bad-op"
		}
		return fmt.Sprint(r.s.Get(a[0]))
	case "getrange":
		a, ok := ints(t, 2)
		if !ok {
			return "bad-op"
		}
		return fmtList(r.s.GetWithRange(a[0], a[1]))
	case "set":
		a, ok := ints(t, 2)
		if !ok {
			return "bad-op"
		}
		r.s.Set(a[0], a[1])
		return "ok"
	case "append":
		ls, ok := lists(t[1:])
		if !ok || len(ls) != 1 {
			return "bad-op"
		}
		r.s.Append(ls[0]...)
		return "ok"
	case "release":
		if len(t) != 1 {
			return "bad-op"
		}
		r.s.Release()
		return "ok"
	case "clear":
		if len(t) != 1 {
			return "bad-op"
		}
		r.s.Clear()
		return "ok"
	case "data":
		if len(t) != 1 {
			return "bad-op"
		}
		return fmtList(r.s.GetData())
	}
	return "bad-op"
}

func syncSliceGen(rng *proto.RNG, tier string, shard, nshards int, w *bufio.Writer) {
	e := &emitter{w: w, shard: shard, nshards: nshards}
	maxLen := 5
	if tier == "thorough" {
		maxLen = 6
	}
	alpha := []string{"append1", "append2", "set0", "setlast", "get0", "getlast", "range", "clear", "release", "getoob"}
	seq := make([]int, 0, maxLen)
	var rec func()
	rec = func() {
		if len(seq) == maxLen {
			if !e.mine() {
				e.skip()
				return
			}
			lines := []string{"new 0 0"}
			n, next := 0, 10
			for _, a := range seq {
				next++
				switch alpha[a] {
				case "append1":
					lines = append(lines, fmt.Sprintf("append [%d]", next))
					n++
				case "append2":
					lines = append(lines, fmt.Sprintf("append [%d %d]", next, next+100))
					n += 2
				case "set0":
					lines = append(lines, fmt.Sprintf("set 0 %d", next))
				case "setlast":
					lines = append(lines, fmt.Sprintf("set %d %d", n-1, next))
				case "get0":
					lines = append(lines, "get 0")
				case "getlast":
					lines = append(lines, fmt.Sprintf("get %d", n-1))
				case "range":
					lines = append(lines, fmt.Sprintf("getrange %d %d", n/2, n))
				case "clear":
					lines = append(lines, "clear")
					n = 0
				case "release":
					lines = append(lines, "release")
					n = 0
				case "getoob":
					lines = append(lines, fmt.Sprintf("get %d", n))
				}
			}
			lines = append(lines, "data")
			e.emit(lines)
			return
		}
		for a := range alpha {
			seq = append(seq, a)
			rec()
			seq = seq[:len(seq)-1]
		}
	}
	rec()
	nRandom := 200
	if tier == "thorough" {
		nRandom = 2000
	}
	for i := 0; i < nRandom; i++ {
		l := rng.Range(0, 4)
		lines := []string{fmt.Sprintf("new %d %d", l, l+rng.Range(0, 4))}
		n, next := l, 0
		for j := 0; j < rng.Range(1, 80); j++ {
			next++
			switch rng.Pick(30, 15, 15, 10, 2, 1, 8, 3) {
			case 0:
				k := rng.Range(0, 4)
				vs := make([]int, k)
				for x := range vs {
					vs[x] = next*10 + x
				}
				lines = append(lines, "append "+fmtList(vs))
				n += k
			case 1:
				lines = append(lines, fmt.Sprintf("get %d", rng.Range(-1, n)))
			case 2:
				lines = append(lines, fmt.Sprintf("set %d %d", rng.Range(-1, n), next))
			case 3:
				a := rng.Range(0, n)
				lines = append(lines, fmt.Sprintf("getrange %d %d", a, rng.Range(a, n)))
			case 4:
				lines = append(lines, "clear")
				n = 0
			case 5:
				lines = append(lines, "release")
				n = 0
			case 6:
				lines = append(lines, "data")
			case 7:
				lines = append(lines, fmt.Sprintf("getrange %d %d", rng.Range(-1, n+1), rng.Range(-1, n+1)))
			}
		}
		lines = append(lines, "data")
		e.emit(lines)
	}
}

func init() {
	proto.Register(&proto.Suite{Name: "syncmap", Gen: syncMapGen, New: func() proto.Runner { r := &syncMapRunner{}; r.Reset(); return r }})
	proto.Register(&proto.Suite{Name: "bucket", Gen: bucketGen, New: func() proto.Runner { r := &bucketRunner{}; r.Reset(); return r }})
	proto.Register(&proto.Suite{Name: "syncslice", Gen: syncSliceGen, New: func() proto.Runner { r := &syncSliceRunner{}; r.Reset(); return r }})
}
