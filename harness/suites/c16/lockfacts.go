package c16

import (
	"bufio"
	"fmt"
	"go/ast"
	"go/parser"
	"go/token"
	"os"
	"path/filepath"
	"sort"
	"strings"

	"verifharness/internal/proto"
)

// lockfacts: lock-discipline facts of the synchronized containers, extracted from the source text
// of /repo on every run (go/ast, no type information).
//
//	lockfacts <file relative to the repo> <Type>.<Method>
//
// answers every straight-line path through the method (if/else: both branches, for/range: 0, 1 and
// 2 iterations, switch: every clause) as a sequence of tokens, paths separated by " | ":
//
//	L R U RU      Lock / RLock / Unlock / RUnlock on a sync.RWMutex
//	dU dRU        the same, deferred
//	A W           read / write of a guarded field (Ai / Wi: through a slice index, may panic)
//	cu:<name>     call of an unexported method of the receiver (touches the guarded fields)
//	cx:<name>     call of an exported method of the receiver (takes the lock itself)
//	ret           return
//
// The Lean side (MV.Model.LockFacts) holds the expected answers and the discipline predicate.

type lockType struct {
	file    string
	typ     string
	guarded map[string]bool // guarded fields
	slices  map[string]bool // guarded fields that are slices (index may panic)
}

var lockTypes = []lockType{
	{"toolkit/collection/mappings/sync_map.go", "SyncMap", set("data"), set()},
	{"toolkit/collection/listings/sync_slice.go", "SyncSlice", set("data"), set("data")},
	{"toolkit/collection/listings/sync_priority_slice.go", "SyncPrioritySlice", set("items"), set("items")},
	{"toolkit/collection/mappings/order_sync.go", "OrderSync", set("idx", "value"), set("value")},
	{"toolkit/collection/mappings/mutex_bucket.go", "MutexBucket", set("kv"), set()},
	{"toolkit/collection/mappings/mutex_bucket.go", "MutexBucketItem", set("kv"), set()},
}

func set(xs ...string) map[string]bool {
	m := map[string]bool{}
	for _, x := range xs {
		m[x] = true
	}
	return m
}

func repoRoot() string {
	if r := os.Getenv("VERIF_REPO"); r != "" {
		return r
	}
	return "/repo"
}

type lockExtractor struct {
	lt       lockType
	recv     string
	atomFree bool            // the file never assigns the `atom` field: `if !x.atom {…}` is unconditional
	methods  map[string]bool // methods declared on the receiver's type (calls of function-typed fields are not methods)
}

// paths of a statement list: every path is a token list; done[i] says path i has returned.
type pathSet struct {
	paths [][]string
	done  []bool
}

func onePath() *pathSet { return &pathSet{paths: [][]string{{}}, done: []bool{false}} }

func (p *pathSet) add(toks ...string) {
	for i := range p.paths {
		if !p.done[i] {
			p.paths[i] = append(append([]string{}, p.paths[i]...), toks...)
		}
	}
}

func (p *pathSet) ret() {
	for i := range p.paths {
		if !p.done[i] {
			p.paths[i] = append(append([]string{}, p.paths[i]...), "ret")
			p.done[i] = true
		}
	}
}

// branch runs each alternative from every live path and joins the results.
func (p *pathSet) branch(alts ...func(q *pathSet)) {
	var np [][]string
	var nd []bool
	for i := range p.paths {
		if p.done[i] {
			np = append(np, p.paths[i])
			nd = append(nd, true)
			continue
		}
		for _, alt := range alts {
			q := &pathSet{paths: [][]string{append([]string{}, p.paths[i]...)}, done: []bool{false}}
			alt(q)
			np = append(np, q.paths...)
			nd = append(nd, q.done...)
		}
	}
	if len(np) > 64 {
		np, nd = np[:64], nd[:64]
	}
	p.paths, p.done = np, nd
}

func (x *lockExtractor) lockCall(call *ast.CallExpr) (string, bool) {
	sel, ok := call.Fun.(*ast.SelectorExpr)
	if !ok {
		return "", false
	}
	switch sel.Sel.Name {
	case "Lock":
		return "L", true
	case "RLock":
		return "R", true
	case "Unlock":
		return "U", true
	case "RUnlock":
		return "RU", true
	}
	return "", false
}

// guardedSel reports whether e is `<anything>.<guarded field>`.
func (x *lockExtractor) guardedSel(e ast.Expr) (string, bool) {
	sel, ok := e.(*ast.SelectorExpr)
	if !ok {
		return "", false
	}
	if x.lt.guarded[sel.Sel.Name] {
		return sel.Sel.Name, true
	}
	return "", false
}

// exprToks: tokens of the reads inside an expression, in source order.
func (x *lockExtractor) exprToks(e ast.Node) []string {
	var toks []string
	if e == nil {
		return nil
	}
	ast.Inspect(e, func(n ast.Node) bool {
		switch v := n.(type) {
		case *ast.FuncLit:
			return false // closures handed to someone else are not part of this method's path
		case *ast.CallExpr:
			if t, ok := x.lockCall(v); ok {
				toks = append(toks, t)
				return false
			}
			if sel, ok := v.Fun.(*ast.SelectorExpr); ok {
				if id, ok := sel.X.(*ast.Ident); ok && id.Name == x.recv && x.methods[sel.Sel.Name] {
					for _, a := range v.Args {
						toks = append(toks, x.exprToks(a)...)
					}
					if ast.IsExported(sel.Sel.Name) {
						toks = append(toks, "cx:"+sel.Sel.Name)
					} else {
						toks = append(toks, "cu:"+sel.Sel.Name)
					}
					return false
				}
			}
			if id, ok := v.Fun.(*ast.Ident); ok && id.Name == "delete" && len(v.Args) == 2 {
				if _, ok := x.guardedSel(v.Args[0]); ok {
					toks = append(toks, x.exprToks(v.Args[1])...)
					toks = append(toks, "W")
					return false
				}
			}
		case *ast.IndexExpr:
			if f, ok := x.guardedSel(v.X); ok {
				toks = append(toks, x.exprToks(v.Index)...)
				if x.lt.slices[f] {
					toks = append(toks, "Ai")
				} else {
					toks = append(toks, "A")
				}
				return false
			}
		case *ast.SliceExpr:
			if f, ok := x.guardedSel(v.X); ok {
				zero := false // `x[:0]` cannot panic
				if lit, ok := v.High.(*ast.BasicLit); ok && v.Low == nil && v.Max == nil && lit.Value == "0" {
					zero = true
				}
				if x.lt.slices[f] && !zero {
					toks = append(toks, "Ai")
				} else {
					toks = append(toks, "A")
				}
				return false
			}
		case *ast.SelectorExpr:
			if _, ok := x.guardedSel(v); ok {
				toks = append(toks, "A")
				return false
			}
		}
		return true
	})
	return toks
}

// lhsToks: tokens for an assignment target.
func (x *lockExtractor) lhsToks(e ast.Expr) []string {
	// strip trailing selectors / indexes until the guarded field is found
	indexed := false
	cur := e
	for {
		switch v := cur.(type) {
		case *ast.SelectorExpr:
			if f, ok := x.guardedSel(v); ok {
				if indexed && x.lt.slices[f] {
					return []string{"Wi"}
				}
				return []string{"W"}
			}
			cur = v.X
		case *ast.IndexExpr:
			indexed = true
			cur = v.X
		case *ast.StarExpr:
			cur = v.X
		case *ast.ParenExpr:
			cur = v.X
		default:
			return x.exprToks(e)
		}
	}
}

func (x *lockExtractor) isAtomGuard(cond ast.Expr) bool {
	u, ok := cond.(*ast.UnaryExpr)
	if !ok || u.Op != token.NOT {
		return false
	}
	sel, ok := u.X.(*ast.SelectorExpr)
	return ok && sel.Sel.Name == "atom" && x.atomFree
}

func (x *lockExtractor) stmts(list []ast.Stmt, p *pathSet) {
	for _, s := range list {
		x.stmt(s, p)
	}
}

func (x *lockExtractor) stmt(s ast.Stmt, p *pathSet) {
	switch v := s.(type) {
	case nil:
	case *ast.BlockStmt:
		x.stmts(v.List, p)
	case *ast.ExprStmt:
		p.add(x.exprToks(v.X)...)
	case *ast.DeferStmt:
		if t, ok := x.lockCall(v.Call); ok {
			p.add("d" + t)
		} else {
			p.add(x.exprToks(v.Call)...)
		}
	case *ast.AssignStmt:
		for _, r := range v.Rhs {
			p.add(x.exprToks(r)...)
		}
		for _, l := range v.Lhs {
			p.add(x.lhsToks(l)...)
		}
	case *ast.IncDecStmt:
		p.add(x.lhsToks(v.X)...)
	case *ast.DeclStmt:
		p.add(x.exprToks(v)...)
	case *ast.ReturnStmt:
		for _, r := range v.Results {
			p.add(x.exprToks(r)...)
		}
		p.ret()
	case *ast.IfStmt:
		x.stmt(v.Init, p)
		if x.isAtomGuard(v.Cond) && v.Else == nil {
			x.stmt(v.Body, p)
			return
		}
		p.add(x.exprToks(v.Cond)...)
		p.branch(func(q *pathSet) { x.stmt(v.Body, q) }, func(q *pathSet) { x.stmt(v.Else, q) })
	case *ast.ForStmt:
		x.stmt(v.Init, p)
		iter := func(q *pathSet) {
			q.add(x.exprToks(v.Cond)...)
			x.stmt(v.Body, q)
			x.stmt(v.Post, q)
		}
		p.branch(func(q *pathSet) { q.add(x.exprToks(v.Cond)...) }, iter, func(q *pathSet) { iter(q); iter(q) })
	case *ast.RangeStmt:
		p.add(x.exprToks(v.X)...)
		iter := func(q *pathSet) { x.stmt(v.Body, q) }
		p.branch(func(q *pathSet) {}, iter, func(q *pathSet) { iter(q); iter(q) })
	case *ast.SwitchStmt:
		x.stmt(v.Init, p)
		p.add(x.exprToks(v.Tag)...)
		var alts []func(q *pathSet)
		for _, c := range v.Body.List {
			cc := c.(*ast.CaseClause)
			alts = append(alts, func(q *pathSet) { x.stmts(cc.Body, q) })
		}
		alts = append(alts, func(q *pathSet) {})
		p.branch(alts...)
	case *ast.BranchStmt:
		// break / continue: approximated as falling through (the bodies here are straight-line)
	default:
		p.add(x.exprToks(s)...)
	}
}

func parseRepoFile(rel string) (*ast.File, error) {
	if strings.Contains(rel, "..") || filepath.IsAbs(rel) {
		return nil, fmt.Errorf("bad path")
	}
	fset := token.NewFileSet()
	return parser.ParseFile(fset, filepath.Join(repoRoot(), rel), nil, 0)
}

func recvTypeName(fd *ast.FuncDecl) (recv, typ string) {
	if fd.Recv == nil || len(fd.Recv.List) != 1 {
		return "", ""
	}
	f := fd.Recv.List[0]
	if len(f.Names) == 1 {
		recv = f.Names[0].Name
	}
	t := f.Type
	for {
		switch v := t.(type) {
		case *ast.StarExpr:
			t = v.X
			continue
		case *ast.IndexExpr:
			t = v.X
			continue
		case *ast.IndexListExpr:
			t = v.X
			continue
		case *ast.Ident:
			return recv, v.Name
		}
		return recv, ""
	}
}

func atomNeverAssigned(f *ast.File) bool {
	free := true
	ast.Inspect(f, func(n ast.Node) bool {
		switch v := n.(type) {
		case *ast.AssignStmt:
			for _, l := range v.Lhs {
				if sel, ok := l.(*ast.SelectorExpr); ok && sel.Sel.Name == "atom" {
					free = false
				}
			}
		case *ast.KeyValueExpr:
			if id, ok := v.Key.(*ast.Ident); ok && id.Name == "atom" {
				free = false
			}
		case *ast.UnaryExpr:
			if v.Op == token.AND {
				if sel, ok := v.X.(*ast.SelectorExpr); ok && sel.Sel.Name == "atom" {
					free = false
				}
			}
		}
		return true
	})
	return free
}

func lockFacts(rel, typ, method string) string {
	var lt *lockType
	for i := range lockTypes {
		if lockTypes[i].file == rel && lockTypes[i].typ == typ {
			lt = &lockTypes[i]
		}
	}
	if lt == nil {
		return "bad-op"
	}
	f, err := parseRepoFile(rel)
	if err != nil {
		return "err:parse"
	}
	for _, d := range f.Decls {
		fd, ok := d.(*ast.FuncDecl)
		if !ok || fd.Name.Name != method || fd.Body == nil {
			continue
		}
		recv, t := recvTypeName(fd)
		if t != typ {
			continue
		}
		methods := map[string]bool{}
		for _, d2 := range f.Decls {
			if fd2, ok := d2.(*ast.FuncDecl); ok {
				if _, t2 := recvTypeName(fd2); t2 == typ {
					methods[fd2.Name.Name] = true
				}
			}
		}
		x := &lockExtractor{lt: *lt, recv: recv, atomFree: atomNeverAssigned(f), methods: methods}
		p := onePath()
		x.stmts(fd.Body.List, p)
		var outs []string
		seen := map[string]bool{}
		for _, path := range p.paths {
			s := strings.Join(path, " ")
			if s == "" {
				s = "-"
			}
			if !seen[s] {
				seen[s] = true
				outs = append(outs, s)
			}
		}
		sort.Strings(outs)
		return strings.Join(outs, " | ")
	}
	return "err:nomethod"
}

func lockMethods(lt lockType) []string {
	f, err := parseRepoFile(lt.file)
	if err != nil {
		return nil
	}
	var ms []string
	for _, d := range f.Decls {
		fd, ok := d.(*ast.FuncDecl)
		if !ok || fd.Body == nil {
			continue
		}
		_, t := recvTypeName(fd)
		if t != lt.typ || !ast.IsExported(fd.Name.Name) || strings.HasPrefix(fd.Name.Name, "NoneLock") {
			continue
		}
		ms = append(ms, fd.Name.Name)
	}
	sort.Strings(ms)
	return ms
}

type lockfactsRunner struct{}

func (lockfactsRunner) Reset() {}
func (lockfactsRunner) Step(t []string) string {
	if len(t) != 3 || t[0] != "lockfacts" {
		return "bad-op"
	}
	dot := strings.Index(t[2], ".")
	if dot < 0 {
		return "bad-op"
	}
	return lockFacts(t[1], t[2][:dot], t[2][dot+1:])
}

// every exported method of every synchronized type that exists in the working tree (a new method
// shows up as an op the Lean table does not know)
func lockfactsGen(rng *proto.RNG, tier string, shard, nshards int, w *bufio.Writer) {
	e := &emitter{w: w, shard: shard, nshards: nshards}
	for _, lt := range lockTypes {
		var lines []string
		for _, m := range lockMethods(lt) {
			lines = append(lines, fmt.Sprintf("lockfacts %s %s.%s", lt.file, lt.typ, m))
		}
		e.emit(lines)
	}
}

func init() {
	proto.Register(&proto.Suite{Name: "lockfacts", Gen: lockfactsGen, New: func() proto.Runner { return lockfactsRunner{} }})
}
