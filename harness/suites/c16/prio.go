package c16

import (
	"bufio"
	"fmt"

	"github.com/kercylan98/minotaur/toolkit/collection/listings"
	"verifharness/internal/proto"
)

// prioAPI is the common surface of PrioritySlice and SyncPrioritySlice.
type prioAPI interface {
	Len() int
	Clear()
	Append(v int, p int)
	Appends(priority int, vs ...int)
	Get(index int) (int, int)
	GetPriority(index int) int
	Set(index int, value int, priority int)
	SetValue(index int, value int)
	SetPriority(index int, priority int)
	RangeValue(action func(index int, value int) bool)
	RangePriority(action func(index int, priority int) bool)
	Slice() []int
}

func newPrio(kind string) prioAPI {
	if kind == "s" {
		return listings.NewSyncPrioritySlice[int]()
	}
	return listings.NewPrioritySlice[int]()
}

// raw items (priority, value) in slice order
func prioItems(p prioAPI) [][]int {
	var rows [][]int
	n := p.Len()
	for i := 0; i < n; i++ {
		v, pr := p.Get(i)
		rows = append(rows, []int{pr, v})
	}
	return rows
}

// prio: canonical (value-addressed) protocol compared exactly with the model; values are unique.
// prio-raw: index-addressed protocol, every answer is the raw item list, judged by the spec.
type prioRunner struct {
	p   prioAPI
	raw bool
}

func (r *prioRunner) Reset() { r.p = newPrio("p") }

func (r *prioRunner) indexOf(v int) int {
	idx := r.p.Len() // "not found" = len, like List.findIdx
	r.p.RangeValue(func(i int, x int) bool {
		if x == v {
			idx = i
			return false
		}
		return true
	})
	return idx
}

func (r *prioRunner) Step(t []string) string {
	if t[0] == "new" {
		if len(t) != 2 || (t[1] != "p" && t[1] != "s") {
			return "bad-op"
		}
		r.p = newPrio(t[1])
		return "ok"
	}
	if r.raw {
		return r.stepRaw(t)
	}
	switch t[0] {
	case "append":
		a, ok := ints(t, 2)
		if !ok {
			return "bad-op"
		}
		r.p.Append(a[0], a[1])
		return "ok"
	case "appends":
		if len(t) < 3 {
			return "bad-op"
		}
		p, ok := proto.Atoi(t[1])
		ls, ok2 := lists(t[2:])
		if !ok || !ok2 || len(ls) != 1 {
			return "bad-op"
		}
		r.p.Appends(p, ls[0]...)
		return "ok"
	case "setof":
		a, ok := ints(t, 3)
		if !ok {
			return "bad-op"
		}
		r.p.Set(r.indexOf(a[0]), a[1], a[2])
		return "ok"
	case "setvof":
		a, ok := ints(t, 2)
		if !ok {
			return "bad-op"
		}
		r.p.SetValue(r.indexOf(a[0]), a[1])
		return "ok"
	case "setpof":
		a, ok := ints(t, 2)
		if !ok {
			return "bad-op"
		}
		r.p.SetPriority(r.indexOf(a[0]), a[1])
		return "ok"
	case "getp":
		a, ok := ints(t, 1)
		if !ok {
			return "bad-op"
		}
		return fmt.Sprint(r.p.GetPriority(a[0]))
	case "clear":
		if len(t) != 1 {
			return "bad-op"
		}
		r.p.Clear()
		return "ok"
	case "len":
		if len(t) != 1 {
			return "bad-op"
		}
		return fmt.Sprint(r.p.Len())
	case "prios":
		if len(t) != 1 {
			return "bad-op"
		}
		ps := []int{}
		r.p.RangePriority(func(_ int, p int) bool { ps = append(ps, p); return true })
		return fmtList(ps)
	case "items":
		if len(t) != 1 {
			return "bad-op"
		}
		return fmtRows(sortRows(prioItems(r.p)))
	case "rangen":
		a, ok := ints(t, 1)
		if !ok {
			return "bad-op"
		}
		cnt := 0
		r.p.RangeValue(func(_ int, _ int) bool {
			if cnt >= a[0] {
				return false
			}
			cnt++
			return cnt < a[0]
		})
		return fmt.Sprint(cnt)
	}
	return "bad-op"
}

func (r *prioRunner) stepRaw(t []string) string {
	switch t[0] {
	case "append":
		a, ok := ints(t, 2)
		if !ok {
			return "bad-op"
		}
		r.p.Append(a[0], a[1])
	case "appends":
		if len(t) < 3 {
			return "bad-op"
		}
		p, ok := proto.Atoi(t[1])
		ls, ok2 := lists(t[2:])
		if !ok || !ok2 || len(ls) != 1 {
			return "bad-op"
		}
		r.p.Appends(p, ls[0]...)
	case "get":
		a, ok := ints(t, 1)
		if !ok {
			return "bad-op"
		}
		r.p.Get(a[0])
	case "set":
		a, ok := ints(t, 3)
		if !ok {
			return "bad-op"
		}
		r.p.Set(a[0], a[1], a[2])
	case "setv":
		a, ok := ints(t, 2)
		if !ok {
			return "bad-op"
		}
		r.p.SetValue(a[0], a[1])
	case "setp":
		a, ok := ints(t, 2)
		if !ok {
			return "bad-op"
		}
		r.p.SetPriority(a[0], a[1])
	case "clear":
		if len(t) != 1 {
			return "bad-op"
		}
		r.p.Clear()
	case "len":
		if len(t) != 1 {
			return "bad-op"
		}
	default:
		return "bad-op"
	}
	return fmtRows(prioItems(r.p))
}

func prioGen(raw bool) func(rng *proto.RNG, tier string, shard, nshards int, w *bufio.Writer) {
	return func(rng *proto.RNG, tier string, shard, nshards int, w *bufio.Writer) {
		e := &emitter{w: w, shard: shard, nshards: nshards}
		kinds := []string{"p", "s"}
		// (ii) exhaustive: all sequences over {append p∈0..2, set-priority of the oldest/newest
		// element to p∈0..2, set (same / other priority), clear} up to maxLen
		maxLen := 4
		if tier == "thorough" {
			maxLen = 5
		}
		for _, kind := range kinds {
			nAlpha := 3 + 3 + 3 + 2 + 1
			seq := make([]int, 0, maxLen)
			var rec func()
			rec = func() {
				if len(seq) == maxLen {
					if !e.mine() {
						e.skip()
						return
					}
					lines := []string{"new " + kind}
					next := 100
					var live []int // values in insertion order (canonical protocol)
					n := 0          // number of items (raw protocol)
					for _, a := range seq {
						switch {
						case a < 3:
							next++
							lines = append(lines, fmt.Sprintf("append %d %d", next, a))
							live = append(live, next)
							n++
						case a < 6:
							if raw {
								lines = append(lines, fmt.Sprintf("setp %d %d", 0, a-3))
							} else if len(live) > 0 {
								lines = append(lines, fmt.Sprintf("setpof %d %d", live[0], a-3))
							} else {
								lines = append(lines, "len")
							}
						case a < 9:
							if raw {
								lines = append(lines, fmt.Sprintf("setp %d %d", n-1, a-6))
							} else if len(live) > 0 {
								lines = append(lines, fmt.Sprintf("setpof %d %d", live[len(live)-1], a-6))
							} else {
								lines = append(lines, "len")
							}
						case a < 11:
							next++
							if raw {
								lines = append(lines, fmt.Sprintf("set %d %d %d", n/2, next, a-9))
							} else if len(live) > 0 {
								k := len(live) / 2
								lines = append(lines, fmt.Sprintf("setof %d %d %d", live[k], next, a-9))
								live[k] = next
							} else {
								lines = append(lines, "len")
							}
						default:
							lines = append(lines, "clear")
							live = live[:0]
							n = 0
						}
						if !raw {
							lines = append(lines, "prios", "items")
						}
					}
					if !raw {
						lines = append(lines, "len")
					}
					e.emit(lines)
					return
				}
				for a := 0; a < nAlpha; a++ {
					seq = append(seq, a)
					rec()
					seq = seq[:len(seq)-1]
				}
			}
			rec()
		}
		// (iii) random structured: many ties, more than 12 items (beyond sort.Slice's insertion-sort
		// range, where the real sort is no longer stable), bulk appends
		nRandom, maxOps := 300, 80
		if tier == "thorough" {
			nRandom, maxOps = 4000, 300
		}
		for i := 0; i < nRandom; i++ {
			kind := kinds[rng.Intn(2)]
			lines := []string{"new " + kind}
			next := 1000
			var live []int
			n := 0
			pmax := []int{1, 3, 10, 1000}[rng.Intn(4)]
			prio := func() int { return rng.Range(-1, pmax) }
			nops := rng.Range(1, maxOps)
			for j := 0; j < nops; j++ {
				switch rng.Pick(30, 8, 10, 8, 8, 1, 6, 4) {
				case 0:
					next++
					lines = append(lines, fmt.Sprintf("append %d %d", next, prio()))
					live = append(live, next)
					n++
				case 1:
					k := rng.Range(0, 6)
					vs := make([]int, k)
					for x := range vs {
						next++
						vs[x] = next
						live = append(live, next)
					}
					n += k
					lines = append(lines, fmt.Sprintf("appends %d %s", prio(), fmtList(vs)))
				case 2:
					if raw {
						if n > 0 {
							lines = append(lines, fmt.Sprintf("setp %d %d", rng.Intn(n), prio()))
						}
					} else if len(live) > 0 {
						lines = append(lines, fmt.Sprintf("setpof %d %d", live[rng.Intn(len(live))], prio()))
					}
				case 3:
					next++
					if raw {
						if n > 0 {
							lines = append(lines, fmt.Sprintf("set %d %d %d", rng.Intn(n), next, prio()))
						}
					} else if len(live) > 0 {
						k := rng.Intn(len(live))
						lines = append(lines, fmt.Sprintf("setof %d %d %d", live[k], next, prio()))
						live[k] = next
					}
				case 4:
					next++
					if raw {
						if n > 0 {
							lines = append(lines, fmt.Sprintf("setv %d %d", rng.Intn(n), next))
						}
					} else if len(live) > 0 {
						k := rng.Intn(len(live))
						lines = append(lines, fmt.Sprintf("setvof %d %d", live[k], next))
						live[k] = next
					}
				case 5:
					lines = append(lines, "clear")
					live = live[:0]
					n = 0
				case 6:
					if raw {
						lines = append(lines, fmt.Sprintf("get %d", rng.Range(0, n+1)-1+boolInt(n == 0)))
					} else {
						lines = append(lines, "prios")
					}
				case 7:
					if raw {
						lines = append(lines, "len")
					} else if n > 0 {
						lines = append(lines, fmt.Sprintf("getp %d", rng.Intn(n)), fmt.Sprintf("rangen %d", rng.Range(-1, n+2)))
					}
				}
			}
			if !raw {
				lines = append(lines, "prios", "items", "len")
			} else {
				lines = append(lines, "len")
			}
			e.emit(lines)
		}
		// malformed stream: out-of-range and negative indexes (Go panics, nothing may change)
		nMal := 40
		if tier == "thorough" {
			nMal = 400
		}
		for i := 0; i < nMal; i++ {
			lines := []string{"new " + kinds[rng.Intn(2)]}
			n := 0
			for j := 0; j < rng.Range(1, 12); j++ {
				switch rng.Intn(5) {
				case 0, 1:
					lines = append(lines, fmt.Sprintf("append %d %d", 500+j, rng.Range(0, 2)))
					n++
				case 2:
					if raw {
						lines = append(lines, fmt.Sprintf("setp %d 1", n+rng.Range(0, 2)))
					} else {
						lines = append(lines, fmt.Sprintf("setpof %d 1", 77)) // absent value -> index len -> panic
					}
				case 3:
					if raw {
						lines = append(lines, fmt.Sprintf("set %d 9 1", -1-rng.Intn(2)))
					} else {
						lines = append(lines, fmt.Sprintf("getp %d", n+rng.Range(0, 1)))
					}
				case 4:
					if raw {
						lines = append(lines, fmt.Sprintf("get %d", n))
					} else {
						lines = append(lines, "getp -1")
					}
				}
			}
			if !raw {
				lines = append(lines, "items")
			} else {
				lines = append(lines, "len")
			}
			e.emit(lines)
		}
	}
}

func boolInt(b bool) int {
	if b {
		return 1
	}
	return 0
}

func init() {
	proto.Register(&proto.Suite{Name: "prio", Gen: prioGen(false), New: func() proto.Runner { r := &prioRunner{}; r.Reset(); return r }})
	proto.Register(&proto.Suite{Name: "prio-raw", Gen: prioGen(true), New: func() proto.Runner { r := &prioRunner{raw: true}; r.Reset(); return r }})
}
