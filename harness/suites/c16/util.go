package c16

import (
	"bufio"
	"fmt"
	"sort"
	"strconv"
	"strings"
	"time"

	"verifharness/internal/proto"
)

// emitter writes cases for one shard.
type emitter struct {
	w       *bufio.Writer
	shard   int
	nshards int
	caseNo  int
}

func (e *emitter) emit(lines []string) {
	if e.caseNo%e.nshards == e.shard {
		fmt.Fprintf(e.w, "# case %d\n", e.caseNo)
		for _, l := range lines {
			fmt.Fprintln(e.w, l)
		}
	}
	e.caseNo++
}

// mine reports whether the next case belongs to this shard (lets generators skip building it).
func (e *emitter) mine() bool { return e.caseNo%e.nshards == e.shard }
func (e *emitter) skip()      { e.caseNo++ }

func fmtRows(rows [][]int) string {
	var sb strings.Builder
	sb.WriteByte('[')
	for i, r := range rows {
		if i > 0 {
			sb.WriteByte(' ')
		}
		for j, v := range r {
			if j > 0 {
				sb.WriteByte(':')
			}
			sb.WriteString(strconv.Itoa(v))
		}
	}
	sb.WriteByte(']')
	return sb.String()
}

func rowLess(a, b []int) bool {
	for i := 0; i < len(a) && i < len(b); i++ {
		if a[i] != b[i] {
			return a[i] < b[i]
		}
	}
	return len(a) < len(b)
}

func sortRows(rows [][]int) [][]int {
	sort.SliceStable(rows, func(i, j int) bool { return rowLess(rows[i], rows[j]) })
	return rows
}

func sortedInts(l []int) []int {
	c := append([]int(nil), l...)
	sort.Ints(c)
	return c
}

// ints parses the integer arguments t[1:], ok=false when one is malformed or the count differs.
func ints(t []string, n int) ([]int, bool) {
	if len(t) != n+1 {
		return nil, false
	}
	out := make([]int, n)
	for i := 0; i < n; i++ {
		v, ok := proto.Atoi(t[i+1])
		if !ok {
			return nil, false
		}
		out[i] = v
	}
	return out, true
}

// lists parses "[1 2] [3 4]" given as tokens.
func lists(t []string) ([][]int, bool) {
	s := strings.TrimSpace(strings.Join(t, " "))
	var out [][]int
	for s != "" {
		if !strings.HasPrefix(s, "[") {
			return nil, false
		}
		end := strings.Index(s, "]")
		if end < 0 {
			return nil, false
		}
		l, ok := proto.ParseInts(s[:end+1])
		if !ok {
			return nil, false
		}
		out = append(out, l)
		s = strings.TrimSpace(s[end+1:])
	}
	return out, true
}

func fmtList(l []int) string { return proto.FmtInts(l) }

func boolStr(b bool) string {
	if b {
		return "true"
	}
	return "false"
}

// watchdog runs f and answers "hang" if it does not return (the leaderboard's GetRank spins for ever
// on a board whose invariant is broken; the goroutine is abandoned, the runner marks the instance
// as poisoned).  Generous limit first, short once hangs have been seen repeatedly.
type watchdog struct{ hangs int }

func (w *watchdog) run(f func() string) (out string, hung bool) {
	limit := 5 * time.Second
	if w.hangs >= 10 {
		limit = 300 * time.Millisecond
	}
	ch := make(chan string, 1)
	go func() {
		defer func() {
			if r := recover(); r != nil {
				ch <- "panic"
			}
		}()
		ch <- f()
	}()
	select {
	case o := <-ch:
		return o, false
	case <-time.After(limit):
		w.hangs++
		return "hang", true
	}
}
