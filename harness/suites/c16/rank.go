package c16

import (
	"bufio"
	"fmt"

	"github.com/kercylan98/minotaur/toolkit/ranking"
	"verifharness/internal/proto"
)

// rank: ranking.BinarySearch[int,int] against MV.Model.Ranking (model) and the abstract
// leaderboard MV.Spec.Leaderboard (spec).

type rankRunner struct {
	r        *ranking.BinarySearch[int, int]
	events   [][]int
	wd       watchdog
	poisoned bool // an operation of this case hung: the instance is abandoned
}

func (r *rankRunner) mk(asc bool, cnt *int) {
	var opts []ranking.BinarySearchOption[int, int]
	if cnt != nil {
		opts = append(opts, ranking.WithBinarySearchCount[int, int](*cnt))
	}
	if asc {
		opts = append(opts, ranking.WithBinarySearchASC[int, int]())
	}
	r.r = ranking.NewBinarySearch[int, int](opts...)
	r.r.RegRankChangeEvent(func(_ *ranking.BinarySearch[int, int], id int, oldRank, newRank int, oldScore, newScore int) {
		r.events = append(r.events, []int{id, oldRank, newRank, oldScore, newScore})
	})
}

func (r *rankRunner) Reset() { r.poisoned = false; r.mk(false, nil) }

func (r *rankRunner) Step(t []string) string {
	if r.poisoned {
		return "skipped"
	}
	out, hung := r.wd.run(func() string { return r.step(t) })
	if hung {
		r.poisoned = true
	}
	return out
}

func rankErr(err error) string {
	switch err {
	case ranking.ErrNotExistCompetitor:
		return "err:1"
	case ranking.ErrIndexErr:
		return "err:2"
	case ranking.ErrNonexistentRanking:
		return "err:3"
	}
	return "err:?"
}

func (r *rankRunner) step(t []string) string {
	switch t[0] {
	case "new":
		if len(t) != 3 || (t[1] != "0" && t[1] != "1") {
			return "bad-op"
		}
		if t[2] == "-" {
			r.mk(t[1] == "1", nil)
			return "ok"
		}
		c, ok := proto.Atoi(t[2])
		if !ok {
			return "bad-op"
		}
		r.mk(t[1] == "1", &c)
		return "ok"
	case "comp":
		a, ok := ints(t, 2)
		if !ok {
			return "bad-op"
		}
		r.events = nil
		r.r.Competitor(a[0], a[1])
		return fmtRows(r.events)
	case "remove":
		a, ok := ints(t, 1)
		if !ok {
			return "bad-op"
		}
		r.events = nil
		r.r.RemoveCompetitor(a[0])
		return fmtRows(r.events)
	case "rank":
		a, ok := ints(t, 1)
		if !ok {
			return "bad-op"
		}
		k, err := r.r.GetRank(a[0])
		if err != nil {
			return rankErr(err)
		}
		return fmt.Sprint(k)
	case "at":
		a, ok := ints(t, 1)
		if !ok {
			return "bad-op"
		}
		id, err := r.r.GetCompetitor(a[0])
		if err != nil {
			return rankErr(err)
		}
		return fmt.Sprint(id)
	case "range":
		a, ok := ints(t, 2)
		if !ok {
			return "bad-op"
		}
		ids, err := r.r.GetCompetitorWithRange(a[0], a[1])
		if err != nil {
			return rankErr(err)
		}
		return fmtList(ids)
	case "score":
		a, ok := ints(t, 1)
		if !ok {
			return "bad-op"
		}
		s, err := r.r.GetScore(a[0])
		if err != nil {
			return rankErr(err)
		}
		return fmt.Sprint(s)
	case "all":
		if len(t) != 1 {
			return "bad-op"
		}
		return fmtList(r.r.GetAllCompetitor())
	case "size":
		if len(t) != 1 {
			return "bad-op"
		}
		return fmt.Sprint(r.r.Size())
	case "clear":
		if len(t) != 1 {
			return "bad-op"
		}
		r.r.Clear()
		return "ok"
	case "dump":
		if len(t) != 1 {
			return "bad-op"
		}
		var rows [][]int
		for _, id := range r.r.GetAllCompetitor() {
			rows = append(rows, []int{id, r.r.GetScoreDefault(id, -999)})
		}
		return fmtRows(rows)
	}
	return "bad-op"
}

// observation block: everything the property speaks about, for ids 1..nid
func rankObserve(nid int, capa int) []string {
	l := []string{"dump", "size"}
	for id := 1; id <= nid; id++ {
		l = append(l, fmt.Sprintf("rank %d", id))
	}
	for k := 0; k <= capa && k <= nid; k++ {
		l = append(l, fmt.Sprintf("at %d", k))
	}
	return l
}

func rankGen(rng *proto.RNG, tier string, shard, nshards int, w *bufio.Writer) {
	e := &emitter{w: w, shard: shard, nshards: nshards}
	// (ii) exhaustive: all sequences of `comp id s` / `remove id` of length maxLen over ids 1..cap+1
	// (ids in order of first use: the leaderboard is symmetric in the ids), scores 0..maxScore,
	// for every cap 1..maxCap and both directions; the board is dumped after every operation.
	type cfg struct{ capa, maxLen, maxScore int }
	cfgs := []cfg{{1, 6, 2}, {2, 5, 2}, {3, 5, 1}, {4, 4, 3}}
	if tier == "thorough" {
		cfgs = []cfg{{1, 7, 2}, {2, 6, 2}, {3, 5, 3}, {4, 5, 2}}
	}
	for _, c := range cfgs {
		nid := c.capa + 1
		if nid > 4 {
			nid = 4
		}
		type op struct{ id, s int } // s == -1: remove
		var alpha []op
		for id := 1; id <= nid; id++ {
			for s := 0; s <= c.maxScore; s++ {
				alpha = append(alpha, op{id, s})
			}
			alpha = append(alpha, op{id, -1})
		}
		for asc := 0; asc <= 1; asc++ {
			seq := make([]op, 0, c.maxLen)
			var rec func(maxID int)
			rec = func(maxID int) {
				if len(seq) == c.maxLen {
					if !e.mine() {
						e.skip()
						return
					}
					lines := []string{fmt.Sprintf("new %d %d", asc, c.capa)}
					for _, o := range seq {
						if o.s < 0 {
							lines = append(lines, fmt.Sprintf("remove %d", o.id))
						} else {
							lines = append(lines, fmt.Sprintf("comp %d %d", o.id, o.s))
						}
						lines = append(lines, "dump")
					}
					lines = append(lines, rankObserve(nid, c.capa)...)
					e.emit(lines)
					return
				}
				for _, o := range alpha {
					if o.id > maxID+1 {
						continue // ids appear in increasing order of first use
					}
					if o.s < 0 && o.id > maxID {
						continue // removing a never-seen id: covered by the malformed stream
					}
					seq = append(seq, o)
					m := maxID
					if o.id > m {
						m = o.id
					}
					rec(m)
					seq = seq[:len(seq)-1]
				}
			}
			rec(0)
		}
	}
	// (iii) random structured: large id/score domains, ties, both directions, caps incl. default
	nRandom, maxOps := 400, 150
	if tier == "thorough" {
		nRandom, maxOps = 6000, 500
	}
	for i := 0; i < nRandom; i++ {
		asc := rng.Intn(2)
		capChoices := []string{"1", "2", "3", "4", "5", "8", "16", "50", "-", "0", "-3"}
		capS := capChoices[rng.Intn(len(capChoices))]
		nids := []int{3, 6, 12, 40, 150}[rng.Intn(5)]
		var score func() int
		switch rng.Intn(4) {
		case 0:
			score = func() int { return rng.Range(0, 3) }
		case 1:
			score = func() int { return rng.Range(-5, 5) }
		case 2:
			score = func() int { return rng.Range(0, 1000) }
		default:
			score = func() int { return rng.Range(-1000000, 1000000) }
		}
		lines := []string{fmt.Sprintf("new %d %s", asc, capS)}
		n := rng.Range(1, maxOps)
		for j := 0; j < n; j++ {
			id := rng.Range(1, nids)
			switch rng.Pick(50, 8, 8, 5, 3, 5, 3, 3, 1, 6) {
			case 0:
				lines = append(lines, fmt.Sprintf("comp %d %d", id, score()))
			case 1:
				lines = append(lines, fmt.Sprintf("remove %d", id))
			case 2:
				lines = append(lines, fmt.Sprintf("rank %d", id))
			case 3:
				lines = append(lines, fmt.Sprintf("at %d", rng.Range(0, 20)))
			case 4:
				a := rng.Range(1, 10)
				lines = append(lines, fmt.Sprintf("range %d %d", a, a+rng.Range(0, 12)))
			case 5:
				lines = append(lines, fmt.Sprintf("score %d", id))
			case 6:
				lines = append(lines, "all")
			case 7:
				lines = append(lines, "size")
			case 8:
				if rng.Intn(3) == 0 {
					lines = append(lines, "clear")
				} else {
					lines = append(lines, "size")
				}
			case 9:
				lines = append(lines, "dump")
			}
		}
		lines = append(lines, "dump", "size")
		for id := 1; id <= nids && id <= 12; id++ {
			lines = append(lines, fmt.Sprintf("rank %d", id))
		}
		e.emit(lines)
	}
	// malformed stream: absent ids, out-of-range ranks, inverted ranges, non-positive caps
	nMal := 60
	if tier == "thorough" {
		nMal = 600
	}
	for i := 0; i < nMal; i++ {
		lines := []string{fmt.Sprintf("new %d %d", rng.Intn(2), rng.Range(-2, 3))}
		n := rng.Range(1, 25)
		for j := 0; j < n; j++ {
			switch rng.Intn(8) {
			case 0:
				lines = append(lines, fmt.Sprintf("comp %d %d", rng.Range(-2, 4), rng.Range(-2, 2)))
			case 1:
				lines = append(lines, fmt.Sprintf("remove %d", rng.Range(-3, 9)))
			case 2:
				lines = append(lines, fmt.Sprintf("rank %d", rng.Range(-3, 9)))
			case 3:
				lines = append(lines, fmt.Sprintf("at %d", rng.Range(-3, 5)))
			case 4:
				lines = append(lines, fmt.Sprintf("range %d %d", rng.Range(-2, 5), rng.Range(-2, 6)))
			case 5:
				lines = append(lines, fmt.Sprintf("score %d", rng.Range(-3, 9)))
			case 6:
				lines = append(lines, "dump")
			case 7:
				lines = append(lines, "clear")
			}
		}
		lines = append(lines, "dump", "size")
		e.emit(lines)
	}
}

func init() {
	proto.Register(&proto.Suite{Name: "rank", Gen: rankGen, New: func() proto.Runner { r := &rankRunner{}; r.Reset(); return r }})
}
