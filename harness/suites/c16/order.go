package c16

import (
	"bufio"
	"fmt"

	"github.com/kercylan98/minotaur/toolkit/collection/mappings"
	"verifharness/internal/proto"
)

// order: mappings.Order[int,int] / OrderSync[int,int] against MV.Model.OrderMap and the ordered-map spec.

type orderRunner struct {
	o mappings.OrderInterface[int, int]
}

func (r *orderRunner) Reset() { r.o = mappings.NewOrder[int, int]() }

func (r *orderRunner) Step(t []string) string {
	switch t[0] {
	case "new":
		if len(t) != 2 {
			return "bad-op"
		}
		switch t[1] {
		case "o":
			r.o = mappings.NewOrder[int, int]()
		case "s":
			r.o = mappings.NewOrderSync[int, int]()
		default:
			return "bad-op"
		}
		return "ok"
	case "get":
		a, ok := ints(t, 1)
		if !ok {
			return "bad-op"
		}
		v, ex := r.o.Get(a[0])
		return fmt.Sprintf("%d %s", v, boolStr(ex))
	case "add":
		a, ok := ints(t, 2)
		if !ok {
			return "bad-op"
		}
		r.o.Add(a[0], a[1])
		return "ok"
	case "set":
		a, ok := ints(t, 2)
		if !ok {
			return "bad-op"
		}
		r.o.Set(a[0], a[1])
		return "ok"
	case "len":
		if len(t) != 1 {
			return "bad-op"
		}
		return fmt.Sprint(r.o.Len())
	case "del":
		a, ok := ints(t, 1)
		if !ok {
			return "bad-op"
		}
		r.o.Del(a[0])
		return "ok"
	case "range", "ranges":
		if len(t) != 1 {
			return "bad-op"
		}
		var rows [][]int
		r.o.Range(func(k, v int) bool { rows = append(rows, []int{k, v}); return true })
		if t[0] == "ranges" {
			rows = sortRows(rows)
		}
		return fmtRows(rows)
	case "rangen":
		a, ok := ints(t, 1)
		if !ok {
			return "bad-op"
		}
		var rows [][]int
		if a[0] > 0 {
			r.o.Range(func(k, v int) bool { rows = append(rows, []int{k, v}); return len(rows) < a[0] })
		}
		return fmtRows(rows)
	}
	return "bad-op"
}

func orderGen(rng *proto.RNG, tier string, shard, nshards int, w *bufio.Writer) {
	e := &emitter{w: w, shard: shard, nshards: nshards}
	maxLen := 5
	if tier == "thorough" {
		maxLen = 6
	}
	// (ii) exhaustive over keys 1..3: add/set/del each key (values fresh), absent-key ops included
	for _, kind := range []string{"o", "s"} {
		nAlpha := 9
		seq := make([]int, 0, maxLen)
		var rec func()
		rec = func() {
			if len(seq) == maxLen {
				if !e.mine() {
					e.skip()
					return
				}
				lines := []string{"new " + kind}
				next := 10
				for _, a := range seq {
					next++
					k := a%3 + 1
					switch a / 3 {
					case 0:
						lines = append(lines, fmt.Sprintf("add %d %d", k, next))
					case 1:
						lines = append(lines, fmt.Sprintf("set %d %d", k, next))
					case 2:
						lines = append(lines, fmt.Sprintf("del %d", k))
					}
					lines = append(lines, "range")
				}
				lines = append(lines, "len", "ranges", "get 1", "get 2", "get 3", "rangen 2")
				e.emit(lines)
				return
			}
			for a := 0; a < nAlpha; a++ {
				seq = append(seq, a)
				rec()
				seq = seq[:len(seq)-1]
			}
		}
		rec()
	}
	nRandom, maxOps := 400, 150
	if tier == "thorough" {
		nRandom, maxOps = 5000, 500
	}
	for i := 0; i < nRandom; i++ {
		lines := []string{"new " + []string{"o", "s"}[rng.Intn(2)]}
		nk := []int{2, 5, 20, 200}[rng.Intn(4)]
		key := func() int { return rng.Range(-1, nk) }
		delW := []int{0, 5, 25}[rng.Intn(3)] // some cases never delete: insertion order must be kept
		next := 0
		for j := 0; j < rng.Range(1, maxOps); j++ {
			next++
			switch rng.Pick(20, 20, delW, 12, 5, 4, 4, 3) {
			case 0:
				lines = append(lines, fmt.Sprintf("add %d %d", key(), next))
			case 1:
				lines = append(lines, fmt.Sprintf("set %d %d", key(), next))
			case 2:
				lines = append(lines, fmt.Sprintf("del %d", key()))
			case 3:
				lines = append(lines, fmt.Sprintf("get %d", key()))
			case 4:
				lines = append(lines, "range")
			case 5:
				lines = append(lines, "ranges")
			case 6:
				lines = append(lines, "len")
			case 7:
				lines = append(lines, fmt.Sprintf("rangen %d", rng.Range(-1, 6)))
			}
		}
		lines = append(lines, "len", "range", "ranges")
		e.emit(lines)
	}
	// malformed: operations on an empty / zero-value map and absent keys only
	for i := 0; i < 30; i++ {
		lines := []string{"new " + []string{"o", "s"}[rng.Intn(2)]}
		for j := 0; j < rng.Range(1, 8); j++ {
			switch rng.Intn(4) {
			case 0:
				lines = append(lines, fmt.Sprintf("del %d", rng.Range(-2, 2)))
			case 1:
				lines = append(lines, fmt.Sprintf("get %d", rng.Range(-2, 2)))
			case 2:
				lines = append(lines, "range", "len")
			case 3:
				lines = append(lines, fmt.Sprintf("rangen %d", rng.Range(-2, 2)))
			}
		}
		e.emit(lines)
	}
}

func init() {
	proto.Register(&proto.Suite{Name: "order", Gen: orderGen, New: func() proto.Runner { r := &orderRunner{}; r.Reset(); return r }})
}
