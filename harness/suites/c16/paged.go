package c16

import (
	"bufio"
	"fmt"

	"github.com/kercylan98/minotaur/toolkit/collection/listings"
	"verifharness/internal/proto"
)

// paged: listings.PagedSlice[int] against MV.Model.Paged (model) and the plain slice (spec).

type pagedRunner struct{ s *listings.PagedSlice[int] }

func (r *pagedRunner) Reset() { r.s = listings.NewPagedSlice[int](1) }

func (r *pagedRunner) Step(t []string) string {
	switch t[0] {
	case "new":
		a, ok := ints(t, 1)
		if !ok || a[0] < 1 {
			return "bad-op"
		}
		r.s = listings.NewPagedSlice[int](a[0])
		return "ok"
	case "add":
		a, ok := ints(t, 1)
		if !ok {
			return "bad-op"
		}
		r.s.Add(a[0])
		return "ok"
	case "del":
		a, ok := ints(t, 1)
		if !ok {
			return "bad-op"
		}
		r.s.Del(a[0])
		return "ok"
	case "get":
		a, ok := ints(t, 1)
		if !ok {
			return "bad-op"
		}
		return fmt.Sprint(*r.s.Get(a[0]))
	case "set":
		a, ok := ints(t, 2)
		if !ok {
			return "bad-op"
		}
		r.s.Set(a[0], a[1])
		return "ok"
	case "len":
		if len(t) != 1 {
			return "bad-op"
		}
		return fmt.Sprint(r.s.Len())
	case "grow":
		ls, ok := lists(t[1:])
		if !ok || len(ls) != 1 {
			return "bad-op"
		}
		r.s.Grow(ls[0])
		return "ok"
	case "growset":
		a, ok := ints(t, 2)
		if !ok {
			return "bad-op"
		}
		r.s.GrowSet(a[0], a[1])
		return "ok"
	case "bgs":
		ls, ok := lists(t[1:])
		if !ok || len(ls) != 2 {
			return "bad-op"
		}
		r.s.BatchGrowSet(ls[0], ls[1])
		return "ok"
	case "bs", "bsx":
		ls, ok := lists(t[1:])
		if !ok || len(ls) != 2 {
			return "bad-op"
		}
		r.s.BatchSet(ls[0], ls[1])
		return "ok"
	case "dump":
		if len(t) != 1 {
			return "bad-op"
		}
		n := r.s.Len()
		out := make([]int, n)
		for i := 0; i < n; i++ {
			out[i] = *r.s.Get(i)
		}
		return fmtList(out)
	}
	return "bad-op"
}

func pagedGen(rng *proto.RNG, tier string, shard, nshards int, w *bufio.Writer) {
	e := &emitter{w: w, shard: shard, nshards: nshards}
	// (ii) exhaustive: page sizes 1..maxPS, all sequences of length maxLen over the alphabet
	// below (indexes 0, middle, last, one past the end so that every page boundary is crossed)
	maxLen, maxPS := 4, 5
	if tier == "thorough" {
		maxLen, maxPS = 5, 5
	}
	alpha := []string{"add", "del0", "delmid", "dellast", "setlast", "grow+1", "grow+ps", "growset+0", "growset+2", "bgs", "get-last", "del-oob"}
	for ps := 1; ps <= maxPS; ps++ {
		seq := make([]int, 0, maxLen)
		var rec func()
		rec = func() {
			if len(seq) == maxLen {
				if !e.mine() {
					e.skip()
					return
				}
				lines := []string{fmt.Sprintf("new %d", ps)}
				n, next := 0, 10
				for _, a := range seq {
					next++
					switch alpha[a] {
					case "add":
						lines = append(lines, fmt.Sprintf("add %d", next))
						n++
					case "del0":
						lines = append(lines, "del 0")
						if n > 0 {
							n--
						}
					case "delmid":
						lines = append(lines, fmt.Sprintf("del %d", n/2))
						if n > 0 {
							n--
						}
					case "dellast":
						lines = append(lines, fmt.Sprintf("del %d", n-1))
						if n > 0 {
							n--
						}
					case "setlast":
						lines = append(lines, fmt.Sprintf("set %d %d", n-1, next))
					case "grow+1":
						lines = append(lines, fmt.Sprintf("grow [%d]", n))
						n++
					case "grow+ps":
						lines = append(lines, fmt.Sprintf("grow [0 %d]", n+ps-1))
						n += ps
					case "growset+0":
						lines = append(lines, fmt.Sprintf("growset %d %d", n, next))
						n++
					case "growset+2":
						lines = append(lines, fmt.Sprintf("growset %d %d", n+2, next))
						n += 3
					case "bgs":
						lines = append(lines, fmt.Sprintf("bgs [%d 0] [%d %d]", n+1, next, next+100))
						n += 2
					case "get-last":
						lines = append(lines, fmt.Sprintf("get %d", n-1))
					case "del-oob":
						lines = append(lines, fmt.Sprintf("del %d", n))
					}
					lines = append(lines, "len", "dump")
				}
				e.emit(lines)
				return
			}
			for a := range alpha {
				seq = append(seq, a)
				rec()
				seq = seq[:len(seq)-1]
			}
		}
		rec()
	}
	// (iii) random structured
	nRandom, maxOps := 400, 120
	if tier == "thorough" {
		nRandom, maxOps = 5000, 400
	}
	for i := 0; i < nRandom; i++ {
		ps := []int{1, 2, 3, 4, 5, 7, 16, 64}[rng.Intn(8)]
		lines := []string{fmt.Sprintf("new %d", ps)}
		n, next := 0, 1000
		nops := rng.Range(1, maxOps)
		for j := 0; j < nops; j++ {
			next++
			switch rng.Pick(30, 14, 10, 8, 6, 6, 5, 4, 6, 3) {
			case 0:
				lines = append(lines, fmt.Sprintf("add %d", next))
				n++
			case 1:
				if n > 0 {
					lines = append(lines, fmt.Sprintf("del %d", rng.Intn(n)))
					n--
				}
			case 2:
				if n > 0 {
					lines = append(lines, fmt.Sprintf("get %d", rng.Intn(n)))
				}
			case 3:
				if n > 0 {
					lines = append(lines, fmt.Sprintf("set %d %d", rng.Intn(n), next))
				}
			case 4:
				k := rng.Range(1, 3)
				idx := make([]int, k)
				m := 0
				for x := range idx {
					idx[x] = rng.Range(0, n+2*ps)
					if idx[x] > m {
						m = idx[x]
					}
				}
				lines = append(lines, "grow "+fmtList(idx))
				if m >= n {
					n = m + 1
				}
			case 5:
				ix := rng.Range(0, n+2*ps)
				lines = append(lines, fmt.Sprintf("growset %d %d", ix, next))
				if ix >= n {
					n = ix + 1
				}
			case 6:
				k := rng.Range(0, 3)
				idx, vs := make([]int, k), make([]int, k)
				m := -1
				for x := range idx {
					idx[x] = rng.Range(0, n+ps+1)
					vs[x] = next + x*1000
					if idx[x] > m {
						m = idx[x]
					}
				}
				lines = append(lines, fmt.Sprintf("bgs %s %s", fmtList(idx), fmtList(vs)))
				if m >= n {
					n = m + 1
				}
			case 7:
				if n > 0 {
					k := rng.Range(0, 3)
					idx, vs := make([]int, k), make([]int, k)
					for x := range idx {
						idx[x] = rng.Intn(n)
						vs[x] = next + x*1000
					}
					lines = append(lines, fmt.Sprintf("bs %s %s", fmtList(idx), fmtList(vs)))
				}
			case 8:
				lines = append(lines, "dump")
			case 9:
				lines = append(lines, "len")
			}
		}
		lines = append(lines, "len", "dump")
		e.emit(lines)
	}
	// malformed stream: negative / out-of-range indexes, mismatching batch lengths
	nMal := 80
	if tier == "thorough" {
		nMal = 800
	}
	for i := 0; i < nMal; i++ {
		ps := rng.Range(1, 4)
		lines := []string{fmt.Sprintf("new %d", ps)}
		for j := 0; j < rng.Range(1, 14); j++ {
			switch rng.Intn(9) {
			case 0, 1:
				lines = append(lines, fmt.Sprintf("add %d", 50+j))
			case 2:
				lines = append(lines, fmt.Sprintf("del %d", rng.Range(-2, 8)))
			case 3:
				lines = append(lines, fmt.Sprintf("set %d 7", rng.Range(-2, 8)))
			case 4:
				lines = append(lines, fmt.Sprintf("get %d", rng.Range(-2, 9)))
			case 5:
				lines = append(lines, fmt.Sprintf("growset %d 8", rng.Range(-3, 3)))
			case 6:
				lines = append(lines, fmt.Sprintf("bgs [%d %d] [1 2]", rng.Range(-1, 5), rng.Range(-1, 5)))
			case 7:
				lines = append(lines, fmt.Sprintf("bsx [%d] [1 2]", rng.Range(0, 3)), "grow []", fmt.Sprintf("grow [%d]", rng.Range(-3, 1)))
			case 8:
				lines = append(lines, fmt.Sprintf("bsx [%d %d] [3 4]", rng.Range(-1, 6), rng.Range(-1, 6)))
			}
			lines = append(lines, "len")
		}
		lines = append(lines, "dump")
		e.emit(lines)
	}
}

func init() {
	proto.Register(&proto.Suite{Name: "paged", Gen: pagedGen, New: func() proto.Runner { r := &pagedRunner{}; r.Reset(); return r }})
}
