package c17

import (
	"strconv"

	"github.com/kercylan98/minotaur/toolkit/collection"
)

// ops of contains.go, find.go and the deterministic part of loop.go / sort.go.

func queryOps() map[string]handler {
	ops := map[string]handler{}
	// ---------------------------------------------------------------- contains.go
	// helpers for the frequent shapes
	sliceSliceCmp := func(f func(s1, s2 []int, h collection.ComparisonHandler[int]) bool) handler {
		return func(c *ctx, a *A, _ bool) string {
			s1, s2 := c.sl(a.ints()), c.sl(a.ints())
			h := a.cmp(false)
			if !a.ok() {
				return badOp
			}
			return fBool(f(s1, s2, h)) + c.args()
		}
	}
	sliceSlice := func(f func(s1, s2 []int) bool) handler {
		return func(c *ctx, a *A, _ bool) string {
			s1, s2 := c.sl(a.ints()), c.sl(a.ints())
			if !a.ok() {
				return badOp
			}
			return fBool(f(s1, s2)) + c.args()
		}
	}
	sliceValCmp := func(f func(s []int, v int, h collection.ComparisonHandler[int]) bool) handler {
		return func(c *ctx, a *A, _ bool) string {
			s := c.sl(a.ints())
			v := a.int()
			h := a.cmp(false)
			if !a.ok() {
				return badOp
			}
			return fBool(f(s, v, h)) + c.args()
		}
	}
	sliceVal := func(f func(s []int, v int) bool) handler {
		return func(c *ctx, a *A, _ bool) string {
			s := c.sl(a.ints())
			v := a.int()
			if !a.ok() {
				return badOp
			}
			return fBool(f(s, v)) + c.args()
		}
	}
	slicesValCmp := func(f func(ss [][]int, v int, h collection.ComparisonHandler[int]) bool) handler {
		return func(c *ctx, a *A, _ bool) string {
			ss := c.sls(a.intss())
			v := a.int()
			h := a.cmp(false)
			if !a.ok() {
				return badOp
			}
			return fBool(f(ss, v, h)) + c.args()
		}
	}
	slicesVal := func(f func(ss [][]int, v int) bool) handler {
		return func(c *ctx, a *A, _ bool) string {
			ss := c.sls(a.intss())
			v := a.int()
			if !a.ok() {
				return badOp
			}
			return fBool(f(ss, v)) + c.args()
		}
	}
	slicesSliceCmp := func(f func(ss [][]int, vs []int, h collection.ComparisonHandler[int]) bool) handler {
		return func(c *ctx, a *A, _ bool) string {
			ss := c.sls(a.intss())
			vs := c.sl(a.ints())
			h := a.cmp(false)
			if !a.ok() {
				return badOp
			}
			return fBool(f(ss, vs, h)) + c.args()
		}
	}
	slicesSlice := func(f func(ss [][]int, vs []int) bool) handler {
		return func(c *ctx, a *A, _ bool) string {
			ss := c.sls(a.intss())
			vs := c.sl(a.ints())
			if !a.ok() {
				return badOp
			}
			return fBool(f(ss, vs)) + c.args()
		}
	}
	ops["EqualSlice"] = sliceSliceCmp(collection.EqualSlice[[]int, int])
	ops["EqualComparableSlice"] = sliceSlice(collection.EqualComparableSlice[[]int, int])
	ops["EqualMap"] = func(c *ctx, a *A, _ bool) string {
		m1, m2 := c.mp(a.m()), c.mp(a.m())
		h := a.cmp(false)
		if !a.ok() {
			return badOp
		}
		return fBool(collection.EqualMap(m1, m2, h)) + c.args()
	}
	ops["EqualComparableMap"] = func(c *ctx, a *A, _ bool) string {
		m1, m2 := c.mp(a.m()), c.mp(a.m())
		if !a.ok() {
			return badOp
		}
		return fBool(collection.EqualComparableMap(m1, m2)) + c.args()
	}
	ops["InSlice"] = sliceValCmp(collection.InSlice[[]int, int])
	ops["InComparableSlice"] = sliceVal(collection.InComparableSlice[[]int, int])
	ops["AllInSlice"] = sliceSliceCmp(func(s, vs []int, h collection.ComparisonHandler[int]) bool { return collection.AllInSlice(s, vs, h) })
	ops["AllInComparableSlice"] = sliceSlice(func(s, vs []int) bool { return collection.AllInComparableSlice(s, vs) })
	ops["AnyInSlice"] = sliceSliceCmp(func(s, vs []int, h collection.ComparisonHandler[int]) bool { return collection.AnyInSlice(s, vs, h) })
	ops["AnyInComparableSlice"] = sliceSlice(func(s, vs []int) bool { return collection.AnyInComparableSlice(s, vs) })
	ops["InSlices"] = slicesValCmp(collection.InSlices[[]int, int])
	ops["InComparableSlices"] = slicesVal(collection.InComparableSlices[[]int, int])
	ops["AllInSlices"] = slicesSliceCmp(collection.AllInSlices[[]int, int])
	ops["AllInComparableSlices"] = slicesSlice(collection.AllInComparableSlices[[]int, int])
	ops["AnyInSlices"] = slicesSliceCmp(collection.AnyInSlices[[]int, int])
	ops["AnyInComparableSlices"] = slicesSlice(collection.AnyInComparableSlices[[]int, int])
	ops["InAllSlices"] = slicesValCmp(collection.InAllSlices[[]int, int])
	ops["InAllComparableSlices"] = slicesVal(collection.InAllComparableSlices[[]int, int])
	ops["AnyInAllSlices"] = slicesSliceCmp(collection.AnyInAllSlices[[]int, int])
	ops["AnyInAllComparableSlices"] = slicesSlice(collection.AnyInAllComparableSlices[[]int, int])

	ops["KeyInMap"] = func(c *ctx, a *A, _ bool) string {
		m := c.mp(a.m())
		k := a.int()
		if !a.ok() {
			return badOp
		}
		return fBool(collection.KeyInMap(m, k)) + c.args()
	}
	mapValCmp := func(f func(m map[int]int, v int, h collection.ComparisonHandler[int]) bool) handler {
		return func(c *ctx, a *A, _ bool) string {
			m := c.mp(a.m())
			v := a.int()
			h := a.cmp(false)
			if !a.ok() {
				return badOp
			}
			return fBool(f(m, v, h)) + c.args()
		}
	}
	mapSlice := func(f func(m map[int]int, ks []int) bool) handler {
		return func(c *ctx, a *A, _ bool) string {
			m := c.mp(a.m())
			ks := c.sl(a.ints())
			if !a.ok() {
				return badOp
			}
			return fBool(f(m, ks)) + c.args()
		}
	}
	mapSliceCmp := func(f func(m map[int]int, vs []int, h collection.ComparisonHandler[int]) bool) handler {
		return func(c *ctx, a *A, _ bool) string {
			m := c.mp(a.m())
			vs := c.sl(a.ints())
			h := a.cmp(false)
			if !a.ok() {
				return badOp
			}
			return fBool(f(m, vs, h)) + c.args()
		}
	}
	mapsSlice := func(f func(ms []map[int]int, ks []int) bool) handler {
		return func(c *ctx, a *A, _ bool) string {
			ms := c.mps(a.ms())
			ks := c.sl(a.ints())
			if !a.ok() {
				return badOp
			}
			return fBool(f(ms, ks)) + c.args()
		}
	}
	mapsSliceCmp := func(f func(ms []map[int]int, vs []int, h collection.ComparisonHandler[int]) bool) handler {
		return func(c *ctx, a *A, _ bool) string {
			ms := c.mps(a.ms())
			vs := c.sl(a.ints())
			h := a.cmp(false)
			if !a.ok() {
				return badOp
			}
			return fBool(f(ms, vs, h)) + c.args()
		}
	}
	ops["ValueInMap"] = mapValCmp(collection.ValueInMap[map[int]int, int, int])
	ops["AllKeyInMap"] = mapSlice(func(m map[int]int, ks []int) bool { return collection.AllKeyInMap(m, ks...) })
	ops["AllValueInMap"] = mapSliceCmp(collection.AllValueInMap[map[int]int, int, int])
	ops["AnyKeyInMap"] = mapSlice(func(m map[int]int, ks []int) bool { return collection.AnyKeyInMap(m, ks...) })
	ops["AnyValueInMap"] = mapSliceCmp(collection.AnyValueInMap[map[int]int, int, int])
	ops["AllKeyInMaps"] = mapsSlice(func(ms []map[int]int, ks []int) bool { return collection.AllKeyInMaps(ms, ks...) })
	ops["AllValueInMaps"] = mapsSliceCmp(collection.AllValueInMaps[map[int]int, int, int])
	ops["AnyKeyInMaps"] = mapsSlice(func(ms []map[int]int, ks []int) bool { return collection.AnyKeyInMaps(ms, ks...) })
	ops["AnyValueInMaps"] = mapsSliceCmp(collection.AnyValueInMaps[map[int]int, int, int])
	ops["KeyInAllMaps"] = func(c *ctx, a *A, _ bool) string {
		ms := c.mps(a.ms())
		k := a.int()
		if !a.ok() {
			return badOp
		}
		return fBool(collection.KeyInAllMaps(ms, k)) + c.args()
	}
	ops["AnyKeyInAllMaps"] = mapsSlice(collection.AnyKeyInAllMaps[map[int]int, int, int])

	// ---------------------------------------------------------------- find.go
	itoa := strconv.Itoa
	ops["FindLoopedNextInSlice"] = func(c *ctx, a *A, _ bool) string {
		s := c.sl(a.ints())
		i := a.int()
		if !a.ok() {
			return badOp
		}
		n, v := collection.FindLoopedNextInSlice(s, i)
		return itoa(n) + " " + itoa(v) + c.args()
	}
	ops["FindLoopedPrevInSlice"] = func(c *ctx, a *A, _ bool) string {
		s := c.sl(a.ints())
		i := a.int()
		if !a.ok() {
			return badOp
		}
		n, v := collection.FindLoopedPrevInSlice(s, i)
		return itoa(n) + " " + itoa(v) + c.args()
	}
	ops["FindCombinationsInSliceByRange"] = func(c *ctx, a *A, _ bool) string {
		s := c.sl(a.ints())
		lo, hi := a.int(), a.int()
		if !a.ok() || len(s) > 12 {
			return badOp
		}
		return fIntss(collection.FindCombinationsInSliceByRange(s, lo, hi)) + c.args()
	}
	ops["FindFirstOrDefaultInSlice"] = func(c *ctx, a *A, _ bool) string {
		s := c.sl(a.ints())
		d := a.int()
		if !a.ok() {
			return badOp
		}
		return itoa(collection.FindFirstOrDefaultInSlice(s, d)) + c.args()
	}
	ops["FindOrDefaultInSlice"] = func(c *ctx, a *A, _ bool) string {
		s := c.sl(a.ints())
		d := a.int()
		p := a.pred(false)
		if !a.ok() {
			return badOp
		}
		return itoa(collection.FindOrDefaultInSlice(s, d, p)) + c.args()
	}
	ops["FindOrDefaultInComparableSlice"] = func(c *ctx, a *A, _ bool) string {
		s := c.sl(a.ints())
		v, d := a.int(), a.int()
		if !a.ok() {
			return badOp
		}
		return itoa(collection.FindOrDefaultInComparableSlice(s, v, d)) + c.args()
	}
	ops["FindInSlice"] = func(c *ctx, a *A, _ bool) string {
		s := c.sl(a.ints())
		p := a.pred(false)
		if !a.ok() {
			return badOp
		}
		i, v := collection.FindInSlice(s, p)
		return itoa(i) + " " + itoa(v) + c.args()
	}
	ops["FindIndexInSlice"] = func(c *ctx, a *A, _ bool) string {
		s := c.sl(a.ints())
		p := a.pred(false)
		if !a.ok() {
			return badOp
		}
		return itoa(collection.FindIndexInSlice(s, p)) + c.args()
	}
	ops["FindInComparableSlice"] = func(c *ctx, a *A, _ bool) string {
		s := c.sl(a.ints())
		v := a.int()
		if !a.ok() {
			return badOp
		}
		i, x := collection.FindInComparableSlice(s, v)
		return itoa(i) + " " + itoa(x) + c.args()
	}
	ops["FindIndexInComparableSlice"] = func(c *ctx, a *A, _ bool) string {
		s := c.sl(a.ints())
		v := a.int()
		if !a.ok() {
			return badOp
		}
		return itoa(collection.FindIndexInComparableSlice(s, v)) + c.args()
	}
	slice1 := func(f func(s []int) string) handler {
		return func(c *ctx, a *A, _ bool) string {
			s := c.sl(a.ints())
			if !a.ok() {
				return badOp
			}
			return f(s) + c.args()
		}
	}
	sliceGetter := func(f func(s []int, g func(int) int) string) handler {
		return func(c *ctx, a *A, _ bool) string {
			s := c.sl(a.ints())
			g := a.getter()
			if !a.ok() {
				return badOp
			}
			return f(s, g) + c.args()
		}
	}
	map1 := func(f func(m map[int]int) string) handler {
		return func(c *ctx, a *A, _ bool) string {
			m := c.mp(a.m())
			if !a.ok() {
				return badOp
			}
			return f(m) + c.args()
		}
	}
	ops["FindMinimumInComparableSlice"] = slice1(func(s []int) string { return itoa(collection.FindMinimumInComparableSlice(s)) })
	ops["FindMaximumInComparableSlice"] = slice1(func(s []int) string { return itoa(collection.FindMaximumInComparableSlice(s)) })
	ops["FindMin2MaxInComparableSlice"] = slice1(func(s []int) string {
		lo, hi := collection.FindMin2MaxInComparableSlice(s)
		return itoa(lo) + " " + itoa(hi)
	})
	ops["FindMinimumInSlice"] = sliceGetter(func(s []int, g func(int) int) string { return itoa(collection.FindMinimumInSlice(s, g)) })
	ops["FindMaximumInSlice"] = sliceGetter(func(s []int, g func(int) int) string { return itoa(collection.FindMaximumInSlice(s, g)) })
	ops["FindMin2MaxInSlice"] = sliceGetter(func(s []int, g func(int) int) string {
		lo, hi := collection.FindMin2MaxInSlice(s, g)
		return itoa(lo) + " " + itoa(hi)
	})
	ops["FindMinFromComparableMap"] = map1(func(m map[int]int) string { return itoa(collection.FindMinFromComparableMap(m)) })
	ops["FindMaxFromComparableMap"] = map1(func(m map[int]int) string { return itoa(collection.FindMaxFromComparableMap(m)) })
	ops["FindMin2MaxFromComparableMap"] = map1(func(m map[int]int) string {
		lo, hi := collection.FindMin2MaxFromComparableMap(m)
		return itoa(lo) + " " + itoa(hi)
	})
	ops["FindMin2MaxFromMap"] = map1(func(m map[int]int) string {
		lo, hi := collection.FindMin2MaxFromMap(m)
		return itoa(lo) + " " + itoa(hi)
	})
	ops["IsFirst"] = sliceVal(collection.IsFirst[[]int, int])

	// ---------------------------------------------------------------- loop.go (deterministic part)
	ops["LoopSlice"] = func(c *ctx, a *A, _ bool) string {
		s := c.sl(a.ints())
		st := &stopper{stop: a.int()}
		if !a.ok() || st.stop < 0 {
			return badOp
		}
		collection.LoopSlice(s, st.f2)
		return fVisits2(st.visits) + c.args()
	}
	ops["ReverseLoopSlice"] = func(c *ctx, a *A, _ bool) string {
		s := c.sl(a.ints())
		st := &stopper{stop: a.int()}
		if !a.ok() || st.stop < 0 {
			return badOp
		}
		collection.ReverseLoopSlice(s, st.f2)
		return fVisits2(st.visits) + c.args()
	}
	ops["LoopMapByOrderedKeyAsc"] = func(c *ctx, a *A, _ bool) string {
		m := c.mp(a.m())
		st := &stopper{stop: a.int()}
		if !a.ok() || st.stop < 0 {
			return badOp
		}
		collection.LoopMapByOrderedKeyAsc(m, st.f3)
		return fVisits3(st.visits) + c.args()
	}
	ops["LoopMapByOrderedKeyDesc"] = func(c *ctx, a *A, _ bool) string {
		m := c.mp(a.m())
		st := &stopper{stop: a.int()}
		if !a.ok() || st.stop < 0 {
			return badOp
		}
		collection.LoopMapByOrderedKeyDesc(m, st.f3)
		return fVisits3(st.visits) + c.args()
	}
	// ---------------------------------------------------------------- sort.go (deterministic part)
	ops["AscBy"] = func(c *ctx, a *A, _ bool) string {
		x, y := a.int(), a.int()
		if !a.ok() {
			return badOp
		}
		return fBool(collection.AscBy(x, y))
	}
	ops["DescBy"] = func(c *ctx, a *A, _ bool) string {
		x, y := a.int(), a.int()
		if !a.ok() {
			return badOp
		}
		return fBool(collection.DescBy(x, y))
	}
	return ops
}
