package c17

import (
	"github.com/kercylan98/minotaur/toolkit/collection"
	"strconv"
)

// ops of duplicate.go, clone.go, merge.go, convert.go, filter.go, drop.go (deterministic outputs;
// anything that came out of a Go map is printed sorted by key).

var inPlaceOps = map[string]bool{
	"DeduplicateSliceInPlace":            true,
	"DeduplicateSliceInPlaceWithCompare": true,
	"ReverseSlice":                       true,
	"SwapSlice":                          true,
	"ClearSlice":                         true,
	"DropSliceByIndices":                 true,
	"DropSliceByCondition":               true,
	"DropSliceOverlappingElements":       true,
}

func scribble(r []int, d int) {
	for i := range r {
		r[i] += d
	}
}

func scribbleMap(m map[int]int, d int) {
	for k := range m {
		m[k] += d
	}
	if m != nil {
		m[99] = d
	}
}

func editOps() map[string]handler {
	return map[string]handler{
		// ---------------------------------------------------------------- duplicate.go
		"DeduplicateSliceInPlace": func(c *ctx, a *A, backing bool) string {
			t := a.target()
			if !a.ok() {
				return badOp
			}
			return c.runInPlace(t, backing, func(p *[]int) { collection.DeduplicateSliceInPlace(p) })
		},
		"DeduplicateSlice": func(c *ctx, a *A, _ bool) string {
			s := c.sl(a.ints())
			if !a.ok() {
				return badOp
			}
			return fInts(collection.DeduplicateSlice(s)) + c.args()
		},
		"DeduplicateSliceInPlaceWithCompare": func(c *ctx, a *A, backing bool) string {
			t := a.target()
			f := a.cmp(false)
			if !a.ok() {
				return badOp
			}
			return c.runInPlace(t, backing, func(p *[]int) { collection.DeduplicateSliceInPlaceWithCompare(p, f) })
		},
		"DeduplicateSliceWithCompare": func(c *ctx, a *A, _ bool) string {
			s := c.sl(a.ints())
			f := a.cmp(true)
			if !a.ok() {
				return badOp
			}
			return fInts(collection.DeduplicateSliceWithCompare(s, f)) + c.args()
		},
		// ---------------------------------------------------------------- clone.go
		"CloneSlice": func(c *ctx, a *A, _ bool) string {
			s := c.sl(a.ints())
			if !a.ok() {
				return badOp
			}
			r := collection.CloneSlice(s)
			out := fInts(r) + c.args()
			scribble(r, 100)
			return out + c.indep()
		},
		"CloneMap": func(c *ctx, a *A, _ bool) string {
			m := c.mp(a.m())
			if !a.ok() {
				return badOp
			}
			r := collection.CloneMap(m)
			out := fMap(r) + c.args()
			scribbleMap(r, 100)
			return out + c.indep()
		},
		"CloneSliceN": func(c *ctx, a *A, _ bool) string {
			s := c.sl(a.ints())
			n := a.int()
			if !a.ok() || n > 64 {
				return badOp
			}
			r := collection.CloneSliceN(s, n)
			out := fIntss(r) + c.args()
			for i := range r {
				scribble(r[i], 100*(i+1))
			}
			ind := c.unchanged()
			for i := range r { // the copies must also be independent of each other
				for j := range r[i] {
					if j >= len(s) || r[i][j] != s[j]+100*(i+1) {
						ind = false
					}
				}
			}
			if ind {
				return out + " independent"
			}
			return out + " ALIASED"
		},
		"CloneMapN": func(c *ctx, a *A, _ bool) string {
			m := c.mp(a.m())
			n := a.int()
			if !a.ok() || n > 64 {
				return badOp
			}
			r := collection.CloneMapN(m, n)
			out := fMaps(r) + c.args()
			for i := range r {
				scribbleMap(r[i], 100*(i+1))
			}
			ind := c.unchanged()
			for i := range r {
				for k, v := range m {
					if r[i][k] != v+100*(i+1) {
						ind = false
					}
				}
			}
			if ind {
				return out + " independent"
			}
			return out + " ALIASED"
		},
		"CloneSlices": func(c *ctx, a *A, _ bool) string {
			ss := c.sls(a.intss())
			if !a.ok() {
				return badOp
			}
			r := collection.CloneSlices(ss...)
			out := fIntss(r) + c.args()
			for i := range r {
				scribble(r[i], 100)
			}
			return out + c.indep()
		},
		"CloneMaps": func(c *ctx, a *A, _ bool) string {
			ms := c.mps(a.ms())
			if !a.ok() {
				return badOp
			}
			r := collection.CloneMaps(ms...)
			out := fMaps(r) + c.args()
			for i := range r {
				scribbleMap(r[i], 100)
			}
			return out + c.indep()
		},
		// ---------------------------------------------------------------- merge.go
		"MergeSlice": func(c *ctx, a *A, _ bool) string {
			s := c.sl(a.ints())
			if !a.ok() {
				return badOp
			}
			r := collection.MergeSlice(s...)
			out := fInts(r) + c.args()
			scribble(r, 100)
			return out + c.indep()
		},
		"MergeSlices": func(c *ctx, a *A, _ bool) string {
			ss := c.sls(a.intss())
			if !a.ok() {
				return badOp
			}
			r := collection.MergeSlices(ss...)
			out := fInts(r) + c.args()
			scribble(r, 100)
			return out + c.indep()
		},
		"MergeMaps": func(c *ctx, a *A, _ bool) string {
			ms := c.mps(a.ms())
			if !a.ok() {
				return badOp
			}
			r := collection.MergeMaps(ms...)
			out := fMap(r) + c.args()
			scribbleMap(r, 100)
			return out + c.indep()
		},
		"MergeMapsWithSkip": func(c *ctx, a *A, _ bool) string {
			ms := c.mps(a.ms())
			if !a.ok() {
				return badOp
			}
			r := collection.MergeMapsWithSkip(ms...)
			out := fMap(r) + c.args()
			scribbleMap(r, 100)
			return out + c.indep()
		},
		// ---------------------------------------------------------------- convert.go
		"ConvertSliceToBatches": func(c *ctx, a *A, _ bool) string {
			s := c.sl(a.ints())
			n := a.int()
			if !a.ok() {
				return badOp
			}
			return fIntss(collection.ConvertSliceToBatches(s, n)) + c.args()
		},
		"ConvertSliceToAny": func(c *ctx, a *A, _ bool) string {
			s := c.sl(a.ints())
			if !a.ok() {
				return badOp
			}
			r := collection.ConvertSliceToAny(s)
			if r == nil {
				return "nil" + c.args()
			}
			out := make([]int, len(r))
			for i, v := range r {
				x, ok := v.(int)
				if !ok {
					return "not-int"
				}
				out[i] = x
			}
			return fInts(out) + c.args()
		},
		"ConvertSliceToIndexMap": func(c *ctx, a *A, _ bool) string {
			s := c.sl(a.ints())
			if !a.ok() {
				return badOp
			}
			return fMap(collection.ConvertSliceToIndexMap(s)) + c.args()
		},
		"ConvertSliceToIndexOnlyMap": func(c *ctx, a *A, _ bool) string {
			s := c.sl(a.ints())
			if !a.ok() {
				return badOp
			}
			return fSet(collection.ConvertSliceToIndexOnlyMap(s)) + c.args()
		},
		"ConvertSliceToMap": func(c *ctx, a *A, _ bool) string {
			s := c.sl(a.ints())
			if !a.ok() {
				return badOp
			}
			return fSet(collection.ConvertSliceToMap(s)) + c.args()
		},
		"ConvertSliceToBoolMap": func(c *ctx, a *A, _ bool) string {
			s := c.sl(a.ints())
			if !a.ok() {
				return badOp
			}
			return fBoolMap(collection.ConvertSliceToBoolMap(s)) + c.args()
		},
		"ConvertMapValuesToBoolMap": func(c *ctx, a *A, _ bool) string {
			m := c.mp(a.m())
			if !a.ok() {
				return badOp
			}
			return fBoolMap(collection.ConvertMapValuesToBoolMap(m)) + c.args()
		},
		"ConvertMapValuesToBool": func(c *ctx, a *A, _ bool) string {
			m := c.mp(a.m())
			if !a.ok() {
				return badOp
			}
			return fBoolMap(collection.ConvertMapValuesToBool[map[int]int, map[int]bool](m)) + c.args()
		},
		"InvertMap": func(c *ctx, a *A, _ bool) string {
			m := c.mp(a.m())
			if !a.ok() {
				return badOp
			}
			return fMap(collection.InvertMap[map[int]int, map[int]int](m)) + c.args()
		},
		"ReverseSlice": func(c *ctx, a *A, backing bool) string {
			t := a.target()
			if !a.ok() {
				return badOp
			}
			return c.runInPlace(t, backing, func(p *[]int) { collection.ReverseSlice(p) })
		},
		// ---------------------------------------------------------------- item.go, calc.go, map.go
		"SwapSlice": func(c *ctx, a *A, backing bool) string {
			t := a.target()
			i, j := a.int(), a.int()
			if !a.ok() || t.nilptr {
				return badOp // SwapSlice dereferences its pointer unconditionally: not part of the suite
			}
			return c.runInPlace(t, backing, func(p *[]int) { collection.SwapSlice(p, i, j) })
		},
		"SliceSum": func(c *ctx, a *A, _ bool) string {
			s := c.sl(a.ints())
			h := sumIdxTable[a.next()]
			if !a.ok() || h == nil {
				return badOp
			}
			return strconv.Itoa(collection.SliceSum(s, h)) + c.args()
		},
		"MapSum": func(c *ctx, a *A, _ bool) string {
			m := c.mp(a.m())
			h := sumKVTable[a.next()]
			if !a.ok() || h == nil {
				return badOp
			}
			return strconv.Itoa(collection.MapSum(m, h)) + c.args()
		},
		"MappingFromSlice": func(c *ctx, a *A, _ bool) string {
			s := c.sl(a.ints())
			g := a.getter()
			if !a.ok() {
				return badOp
			}
			return fInts(collection.MappingFromSlice[[]int, []int](s, g)) + c.args()
		},
		"MappingFromMap": func(c *ctx, a *A, _ bool) string {
			m := c.mp(a.m())
			g := a.getter()
			if !a.ok() {
				return badOp
			}
			return fMap(collection.MappingFromMap[map[int]int, map[int]int](m, g)) + c.args()
		},
		// ---------------------------------------------------------------- filter.go
		"FilterOutByIndices": func(c *ctx, a *A, _ bool) string {
			s := c.sl(a.ints())
			idx := c.sl(a.ints())
			if !a.ok() {
				return badOp
			}
			return fInts(collection.FilterOutByIndices(s, idx...)) + c.args()
		},
		"FilterOutByCondition": func(c *ctx, a *A, _ bool) string {
			s := c.sl(a.ints())
			p := a.pred(true)
			if !a.ok() {
				return badOp
			}
			return fInts(collection.FilterOutByCondition(s, p)) + c.args()
		},
		"FilterOutByKey": func(c *ctx, a *A, _ bool) string {
			m := c.mp(a.m())
			k := a.int()
			if !a.ok() {
				return badOp
			}
			return fMap(collection.FilterOutByKey(m, k)) + c.args()
		},
		"FilterOutByValue": func(c *ctx, a *A, _ bool) string {
			m := c.mp(a.m())
			v := a.int()
			f := a.cmp(false)
			if !a.ok() {
				return badOp
			}
			return fMap(collection.FilterOutByValue(m, v, f)) + c.args()
		},
		"FilterOutByKeys": func(c *ctx, a *A, _ bool) string {
			m := c.mp(a.m())
			ks := c.sl(a.ints())
			if !a.ok() {
				return badOp
			}
			return fMap(collection.FilterOutByKeys(m, ks...)) + c.args()
		},
		"FilterOutByValues": func(c *ctx, a *A, _ bool) string {
			m := c.mp(a.m())
			vs := c.sl(a.ints())
			f := a.cmp(false)
			if !a.ok() {
				return badOp
			}
			return fMap(collection.FilterOutByValues(m, vs, f)) + c.args()
		},
		"FilterOutByMap": func(c *ctx, a *A, _ bool) string {
			m := c.mp(a.m())
			f := a.mapcond(true)
			if !a.ok() {
				return badOp
			}
			return fMap(collection.FilterOutByMap(m, f)) + c.args()
		},
		// ---------------------------------------------------------------- drop.go
		"ClearSlice": func(c *ctx, a *A, backing bool) string {
			t := a.target()
			if !a.ok() {
				return badOp
			}
			return c.runInPlace(t, backing, func(p *[]int) { collection.ClearSlice(p) })
		},
		"ClearMap": func(c *ctx, a *A, _ bool) string {
			m := cloneMap(a.m())
			if !a.ok() {
				return badOp
			}
			collection.ClearMap(m)
			return fMap(m)
		},
		"DropSliceByIndices": func(c *ctx, a *A, backing bool) string {
			t := a.target()
			idx := c.sl(a.ints())
			if !a.ok() {
				return badOp
			}
			return c.runInPlace(t, backing, func(p *[]int) { collection.DropSliceByIndices(p, idx...) })
		},
		"DropSliceByCondition": func(c *ctx, a *A, backing bool) string {
			t := a.target()
			f := a.pred(true)
			if !a.ok() {
				return badOp
			}
			return c.runInPlace(t, backing, func(p *[]int) { collection.DropSliceByCondition(p, f) })
		},
		"DropSliceOverlappingElements": func(c *ctx, a *A, backing bool) string {
			t := a.target()
			o := c.sl(a.ints())
			f := a.cmp(true)
			if !a.ok() {
				return badOp
			}
			return c.runInPlace(t, backing, func(p *[]int) { collection.DropSliceOverlappingElements(p, o, f) })
		},
	}
}
