package c17

// Named callbacks known to both the harness and lean/Oracle/CollCallbacks.lean.
// "nilfn" is the nil function; it is only accepted by ops whose Go code checks for nil.

func abs(v int) int {
	if v < 0 {
		return -v
	}
	return v
}

// cmp: ComparisonHandler[int].  eq/eqmod3/eqabs/always are equivalences, the others are not
// (they tie the model on arbitrary callbacks; the laws are stated for equivalences).
var cmpTable = map[string]func(a, b int) bool{
	"eq":     func(a, b int) bool { return a == b },
	"eqmod3": func(a, b int) bool { return a%3 == b%3 },
	"eqabs":  func(a, b int) bool { return abs(a) == abs(b) },
	"always": func(a, b int) bool { return true },
	"never":  func(a, b int) bool { return false },
	"lt":     func(a, b int) bool { return a < b },
	"le":     func(a, b int) bool { return a <= b },
	"ne":     func(a, b int) bool { return a != b },
}

var cmpNames = []string{"eq", "eqmod3", "eqabs", "always", "never", "lt", "le", "ne"}
var cmpEquivNames = []string{"eq", "eqmod3", "eqabs", "always"}

// pred: func(v int) bool
var predTable = map[string]func(v int) bool{
	"even":   func(v int) bool { return v%2 == 0 },
	"odd":    func(v int) bool { return v%2 != 0 },
	"neg":    func(v int) bool { return v < 0 },
	"pos":    func(v int) bool { return v > 0 },
	"zero":   func(v int) bool { return v == 0 },
	"always": func(v int) bool { return true },
	"never":  func(v int) bool { return false },
}

var predNames = []string{"even", "odd", "neg", "pos", "zero", "always", "never"}

// getter: OrderedValueGetter[int,int]
var getterTable = map[string]func(v int) int{
	"id":     func(v int) int { return v },
	"negate": func(v int) int { return -v },
	"abs":    abs,
	"mod3":   func(v int) int { return v % 3 },
	"const":  func(v int) int { return 0 },
	"sq":     func(v int) int { return v * v },
}

var getterNames = []string{"id", "negate", "abs", "mod3", "const", "sq"}

// mapcond: func(k, v int) bool
var mapcondTable = map[string]func(k, v int) bool{
	"keqv":   func(k, v int) bool { return k == v },
	"kltv":   func(k, v int) bool { return k < v },
	"vneg":   func(k, v int) bool { return v < 0 },
	"kodd":   func(k, v int) bool { return k%2 != 0 },
	"always": func(k, v int) bool { return true },
	"never":  func(k, v int) bool { return false },
}

var mapcondNames = []string{"keqv", "kltv", "vneg", "kodd", "always", "never"}

// sumidx: func(i, v int) int (SliceSum); sumkv: func(k, v int) int (MapSum)
var sumIdxTable = map[string]func(i, v int) int{
	"val":    func(i, v int) int { return v },
	"idxval": func(i, v int) int { return i + v },
	"wt":     func(i, v int) int { return i * v },
	"one":    func(i, v int) int { return 1 },
}

var sumIdxNames = []string{"val", "idxval", "wt", "one"}

var sumKVTable = map[string]func(k, v int) int{
	"val": func(k, v int) int { return v },
	"key": func(k, v int) int { return k },
	"kv":  func(k, v int) int { return k * v },
	"one": func(k, v int) int { return 1 },
}

var sumKVNames = []string{"val", "key", "kv", "one"}
