// Package c17 holds the harness suites of property C17 (registered from init functions).
package c17
