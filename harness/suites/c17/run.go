package c17

import (
	"strings"
)

// ctx tracks every container handed to the code under test together with a deep copy taken
// before the call; args() compares them afterwards ("args-unchanged" / "ARGS-MODIFIED").
// Slices are given spare capacity filled with sentinels so that a stray append through an
// argument is seen as well.
type ctx struct {
	fulls  [][]int // full-capacity views
	snaps  [][]int
	maps   []map[int]int
	msnaps []map[int]int
	outer  []func() string
	osnaps []string
}

const spare = 2

func mkSpare(l []int) []int {
	if l == nil {
		return nil
	}
	s := make([]int, len(l), len(l)+spare)
	copy(s, l)
	full := s[:cap(s)]
	for i := len(l); i < cap(s); i++ {
		full[i] = 7000 + i
	}
	return s
}

func (c *ctx) sl(l []int) []int {
	s := mkSpare(l)
	if s != nil {
		full := s[:cap(s)]
		c.fulls = append(c.fulls, full)
		c.snaps = append(c.snaps, append([]int(nil), full...))
	}
	return s
}

func (c *ctx) sls(l [][]int) [][]int {
	if l == nil {
		return nil
	}
	out := make([][]int, len(l), len(l)+spare)
	for i, x := range l {
		out[i] = c.sl(x)
	}
	f := func() string { return fIntss(out[:len(l)]) }
	c.outer = append(c.outer, f)
	c.osnaps = append(c.osnaps, f())
	return out
}

func cloneMap(m map[int]int) map[int]int {
	if m == nil {
		return nil
	}
	r := make(map[int]int, len(m))
	for k, v := range m {
		r[k] = v
	}
	return r
}

func (c *ctx) mp(m map[int]int) map[int]int {
	cp := cloneMap(m)
	if cp != nil {
		c.maps = append(c.maps, cp)
		c.msnaps = append(c.msnaps, cloneMap(m))
	}
	return cp
}

func (c *ctx) mps(l []map[int]int) []map[int]int {
	if l == nil {
		return nil
	}
	out := make([]map[int]int, len(l), len(l)+spare)
	for i, x := range l {
		out[i] = c.mp(x)
	}
	f := func() string { return fMaps(out[:len(l)]) }
	c.outer = append(c.outer, f)
	c.osnaps = append(c.osnaps, f())
	return out
}

func (c *ctx) unchanged() bool {
	for i, f := range c.fulls {
		for j := range f {
			if f[j] != c.snaps[i][j] {
				return false
			}
		}
	}
	for i, m := range c.maps {
		if fMap(m) != fMap(c.msnaps[i]) {
			return false
		}
	}
	for i, f := range c.outer {
		if f() != c.osnaps[i] {
			return false
		}
	}
	return true
}

func (c *ctx) args() string {
	if c.unchanged() {
		return " args-unchanged"
	}
	return " ARGS-MODIFIED"
}

// indep is used after the returned copy has been scribbled over.
func (c *ctx) indep() string {
	if c.unchanged() {
		return " independent"
	}
	return " ALIASED"
}

// A is a cursor over the arguments of one op line.
type A struct {
	a   []string
	i   int
	bad bool
}

func (a *A) next() string {
	if a.i >= len(a.a) {
		a.bad = true
		return ""
	}
	s := a.a[a.i]
	a.i++
	return s
}

func (a *A) ok() bool { return !a.bad && a.i == len(a.a) }

func (a *A) int() int {
	v, ok := pInt(a.next())
	if !ok {
		a.bad = true
	}
	return v
}

func (a *A) ints() []int {
	v, ok := pInts(a.next())
	if !ok {
		a.bad = true
	}
	return v
}

func (a *A) intss() [][]int {
	v, ok := pIntss(a.next())
	if !ok {
		a.bad = true
	}
	return v
}

func (a *A) m() map[int]int {
	v, ok := pMap(a.next())
	if !ok {
		a.bad = true
	}
	return v
}

func (a *A) ms() []map[int]int {
	v, ok := pMaps(a.next())
	if !ok {
		a.bad = true
	}
	return v
}

type target struct {
	nilptr bool
	l      []int
}

func (a *A) target() target {
	if a.i < len(a.a) && a.a[a.i] == "nilptr" {
		a.i++
		return target{nilptr: true}
	}
	return target{l: a.ints()}
}

func (a *A) cmp(allowNil bool) func(x, y int) bool {
	n := a.next()
	if n == "nilfn" && allowNil {
		return nil
	}
	f, ok := cmpTable[n]
	if !ok {
		a.bad = true
	}
	return f
}

func (a *A) pred(allowNil bool) func(v int) bool {
	n := a.next()
	if n == "nilfn" && allowNil {
		return nil
	}
	f, ok := predTable[n]
	if !ok {
		a.bad = true
	}
	return f
}

func (a *A) getter() func(v int) int {
	f, ok := getterTable[a.next()]
	if !ok {
		a.bad = true
	}
	return f
}

func (a *A) mapcond(allowNil bool) func(k, v int) bool {
	n := a.next()
	if n == "nilfn" && allowNil {
		return nil
	}
	f, ok := mapcondTable[n]
	if !ok {
		a.bad = true
	}
	return f
}

// runInPlace calls an in-place helper on a fresh slice with spare capacity.  With backing=true the
// answer is the first len(original) cells of the backing array after the call.
func (c *ctx) runInPlace(t target, backing bool, call func(p *[]int)) string {
	if t.nilptr {
		call(nil)
		return "ok" + c.args()
	}
	s := mkSpare(t.l)
	var full []int
	if s != nil {
		full = s[:cap(s)]
	}
	call(&s)
	if backing {
		if full == nil {
			return "nil"
		}
		for i := len(t.l); i < len(full); i++ {
			if full[i] != 7000+i {
				return fInts(full[:len(t.l)]) + " SPARE-WRITTEN"
			}
		}
		return fInts(full[:len(t.l)])
	}
	return fInts(s) + c.args()
}

type handler func(c *ctx, a *A, backing bool) string

const badOp = "bad-op"

type runner struct{ ops map[string]handler }

func (r *runner) Reset() {}

func (r *runner) Step(t []string) string {
	args := splitTop(strings.Join(t, " "))
	if len(args) == 0 {
		return badOp
	}
	name := args[0]
	backing := false
	if strings.HasSuffix(name, ".backing") {
		name = strings.TrimSuffix(name, ".backing")
		backing = true
		if !inPlaceOps[name] {
			return badOp
		}
	}
	h, ok := r.ops[name]
	if !ok {
		return badOp
	}
	return h(&ctx{}, &A{a: args[1:]}, backing)
}

// stopper builds the loop callback: it answers false on the stop-th call (stop = 0: never).
type stopper struct {
	stop   int
	visits []visit
}

func (s *stopper) f2(i, v int) bool {
	s.visits = append(s.visits, visit{i: i, v: v})
	return !(s.stop != 0 && len(s.visits) == s.stop)
}

func (s *stopper) f3(i, k, v int) bool {
	s.visits = append(s.visits, visit{i: i, k: k, v: v})
	return !(s.stop != 0 && len(s.visits) == s.stop)
}
