package c17

import (
	"bufio"
	"fmt"
	"sort"
	"strconv"
	"strings"

	"verifharness/internal/proto"
)

// ---------------------------------------------------------------- emit helper

type emitter struct {
	w              *bufio.Writer
	shard, nshards int
	caseNo         int
}

func (e *emitter) emit(lines []string) {
	if len(lines) == 0 {
		return
	}
	if e.caseNo%e.nshards == e.shard {
		fmt.Fprintf(e.w, "# case %d\n", e.caseNo)
		for _, l := range lines {
			fmt.Fprintln(e.w, l)
		}
	}
	e.caseNo++
}

// ---------------------------------------------------------------- enumerations

// allSlices enumerates every slice over alpha with length <= maxLen (shortest first), without nil.
func allSlices(alpha []int, maxLen int) [][]int {
	out := [][]int{{}}
	prev := [][]int{{}}
	for l := 1; l <= maxLen; l++ {
		var cur [][]int
		for _, p := range prev {
			for _, a := range alpha {
				n := make([]int, len(p)+1)
				copy(n, p)
				n[len(p)] = a
				cur = append(cur, n)
			}
		}
		out = append(out, cur...)
		prev = cur
	}
	return out
}

// allMaps enumerates every map with keys ⊆ keys and values ∈ vals (no nil).
func allMaps(keys, vals []int) []map[int]int {
	out := []map[int]int{{}}
	for _, k := range keys {
		var next []map[int]int
		for _, m := range out {
			next = append(next, m)
			for _, v := range vals {
				n := cloneMap(m)
				n[k] = v
				next = append(next, n)
			}
		}
		out = next
	}
	return out
}

// fMapIn prints a map argument with its entries in the given key order (the order is irrelevant
// to Go; the Lean side parses it into an association list in this order).
func fMapArg(m map[int]int) string { return fMap(m) }

func randSlice(rng *proto.RNG, maxLen int) []int {
	n := rng.Range(0, maxLen)
	s := make([]int, n)
	mode := rng.Intn(5)
	for i := range s {
		switch mode {
		case 0: // duplicate-heavy small alphabet
			s[i] = rng.Range(-1, 2)
		case 1: // all equal
			s[i] = 1
		case 2: // wide, mostly distinct
			s[i] = rng.Range(-1000, 1000)
		case 3: // negative only
			s[i] = -rng.Range(1, 6)
		default:
			s[i] = rng.Range(-4, 4)
		}
	}
	return s
}

func randMap(rng *proto.RNG, maxLen int) map[int]int {
	n := rng.Range(0, maxLen)
	m := map[int]int{}
	mode := rng.Intn(4)
	for i := 0; i < n; i++ {
		k := rng.Range(-3, 3*maxLen)
		switch mode {
		case 0:
			m[k] = rng.Range(-1, 1)
		case 1:
			m[k] = -rng.Range(1, 9)
		case 2:
			m[k] = rng.Range(-1000, 1000)
		default:
			m[k] = rng.Range(-3, 3)
		}
	}
	return m
}

func itoa(i int) string { return strconv.Itoa(i) }

func sortedCopy(l []int) []int {
	c := append([]int(nil), l...)
	sort.Ints(c)
	return c
}

var alpha4 = []int{-1, 0, 1, 2}

func tierLen(tier string, quick, thorough int) int {
	if tier == "thorough" {
		return thorough
	}
	return quick
}

// ---------------------------------------------------------------- c17-edit

func sliceEditOps(s []int, full bool) []string {
	S := fInts(s)
	var l []string
	add := func(f string, a ...any) { l = append(l, fmt.Sprintf(f, a...)) }
	add("DeduplicateSliceInPlace %s", S)
	add("DeduplicateSliceInPlace.backing %s", S)
	add("DeduplicateSlice %s", S)
	cmps := cmpNames
	if !full {
		cmps = []string{"eq", "eqmod3", "lt"}
	}
	for _, c := range cmps {
		add("DeduplicateSliceInPlaceWithCompare %s %s", S, c)
		add("DeduplicateSliceInPlaceWithCompare.backing %s %s", S, c)
		add("DeduplicateSliceWithCompare %s %s", S, c)
	}
	add("DeduplicateSliceWithCompare %s nilfn", S)
	add("CloneSlice %s", S)
	add("CloneSliceN %s %d", S, len(s)%4-1)
	add("MergeSlice %s", S)
	for n := -1; n <= len(s)+1; n++ {
		add("ConvertSliceToBatches %s %d", S, n)
	}
	add("ConvertSliceToAny %s", S)
	add("ConvertSliceToIndexMap %s", S)
	add("ConvertSliceToIndexOnlyMap %s", S)
	add("ConvertSliceToMap %s", S)
	add("ConvertSliceToBoolMap %s", S)
	add("ReverseSlice %s", S)
	add("ReverseSlice.backing %s", S)
	for _, ij := range [][2]int{{0, len(s) - 1}, {0, 0}, {1, 2}, {-1, 0}, {0, len(s)}, {len(s) - 1, 1}, {2, -3}} {
		add("SwapSlice %s %d %d", S, ij[0], ij[1])
		add("SwapSlice.backing %s %d %d", S, ij[0], ij[1])
	}
	for _, h := range sumIdxNames {
		add("SliceSum %s %s", S, h)
	}
	for _, g := range getterNames {
		add("MappingFromSlice %s %s", S, g)
	}
	preds := predNames
	if !full {
		preds = []string{"even", "neg"}
	}
	for _, p := range append(append([]string{}, preds...), "nilfn") {
		add("FilterOutByCondition %s %s", S, p)
		add("DropSliceByCondition %s %s", S, p)
		add("DropSliceByCondition.backing %s %s", S, p)
	}
	add("ClearSlice %s", S)
	add("ClearSlice.backing %s", S)
	return l
}

func mapEditOps(m map[int]int, full bool) []string {
	M := fMap(m)
	var l []string
	add := func(f string, a ...any) { l = append(l, fmt.Sprintf(f, a...)) }
	add("CloneMap %s", M)
	add("CloneMapN %s %d", M, len(m)%4-1)
	add("ConvertMapValuesToBoolMap %s", M)
	add("ConvertMapValuesToBool %s", M)
	add("InvertMap %s", M)
	add("ClearMap %s", M)
	for _, h := range sumKVNames {
		add("MapSum %s %s", M, h)
	}
	for _, g := range getterNames {
		add("MappingFromMap %s %s", M, g)
	}
	ks := []int{-1, 0, 1, 2, 3}
	for _, k := range ks {
		add("FilterOutByKey %s %d", M, k)
	}
	cmps := cmpNames
	if !full {
		cmps = []string{"eq", "lt"}
	}
	for _, c := range cmps {
		for _, v := range []int{-1, 0, 1, 5} {
			add("FilterOutByValue %s %d %s", M, v, c)
		}
		for _, vs := range []string{"nil", "[]", "[0]", "[-1 1]", "[5 0 0]"} {
			add("FilterOutByValues %s %s %s", M, vs, c)
		}
	}
	for _, K := range []string{"nil", "[]", "[0]", "[3]", "[0 2]", "[1 1 0]", "[2 1 0 3 -1]"} {
		add("FilterOutByKeys %s %s", M, K)
	}
	for _, c := range append(append([]string{}, mapcondNames...), "nilfn") {
		add("FilterOutByMap %s %s", M, c)
	}
	return l
}

func genEdit(rng *proto.RNG, tier string, shard, nshards int, w *bufio.Writer) {
	e := &emitter{w: w, shard: shard, nshards: nshards}
	// nil pointer / nil slice / nil map
	e.emit([]string{
		"DeduplicateSliceInPlace nilptr", "DeduplicateSliceInPlaceWithCompare nilptr eq", "ReverseSlice nilptr",
		"ClearSlice nilptr", "DropSliceByIndices nilptr [0]", "DropSliceByCondition nilptr even",
		"DropSliceOverlappingElements nilptr [1] eq", "CloneSlices nil", "CloneMaps nil", "MergeSlices nil", "MergeMaps nil",
		"MergeMapsWithSkip nil", "MergeSlice nil", "MergeSlice []",
	})
	e.emit(sliceEditOps(nil, true))
	e.emit(mapEditOps(nil, true))
	// (ii) exhaustive: all slices over {-1,0,1,2}
	for _, s := range allSlices(alpha4, tierLen(tier, 5, 6)) {
		e.emit(sliceEditOps(s, true))
	}
	// index based filter/drop: distinct contents (aliasing is visible), all index lists over -1..len+1 up to length 3
	maxL := tierLen(tier, 4, 5)
	for n := 0; n <= maxL; n++ {
		s := make([]int, n)
		for i := range s {
			s[i] = 10 + i
		}
		var idxAlpha []int
		for i := -1; i <= n; i++ {
			idxAlpha = append(idxAlpha, i)
		}
		for _, idx := range append(allSlices(idxAlpha, 3), nil) {
			e.emit([]string{
				fmt.Sprintf("FilterOutByIndices %s %s", fInts(s), fInts(idx)),
				fmt.Sprintf("DropSliceByIndices %s %s", fInts(s), fInts(idx)),
				fmt.Sprintf("DropSliceByIndices.backing %s %s", fInts(s), fInts(idx)),
			})
		}
	}
	e.emit([]string{"FilterOutByIndices nil [0]", "FilterOutByIndices nil nil", "DropSliceByIndices nil [0]", "DropSliceByIndices.backing nil [0]",
		"FilterOutByIndices [1 1 2] [0 0 1]", "DropSliceByIndices [1 1 2] [2 2]"})
	// overlapping elements: all pairs
	small := append(allSlices(alpha4, 2), nil)
	for _, s := range append(allSlices(alpha4, tierLen(tier, 3, 4)), nil) {
		var l []string
		for _, o := range small {
			for _, c := range append(append([]string{}, cmpNames...), "nilfn") {
				l = append(l, fmt.Sprintf("DropSliceOverlappingElements %s %s %s", fInts(s), fInts(o), c))
				l = append(l, fmt.Sprintf("DropSliceOverlappingElements.backing %s %s %s", fInts(s), fInts(o), c))
			}
		}
		e.emit(l)
	}
	// slices of slices
	pool := [][]int{nil, {}, {1}, {1, 2}, {0, -1, 2}, {2, 2}}
	var rec func(prefix [][]int)
	rec = func(prefix [][]int) {
		e.emit([]string{"CloneSlices " + fIntss(prefix), "MergeSlices " + fIntss(prefix)})
		if len(prefix) == 3 {
			return
		}
		for _, p := range pool {
			rec(append(append([][]int{}, prefix...), p))
		}
	}
	rec([][]int{})
	// maps: exhaustive over 3 keys x 3 (quick) / 4 (thorough) values
	vals := []int{-1, 0, 1}
	if tier == "thorough" {
		vals = []int{-2, -1, 0, 1}
	}
	maps := allMaps([]int{0, 1, 2}, vals)
	for _, m := range maps {
		e.emit(mapEditOps(m, true))
	}
	withNil := append([]map[int]int{nil}, maps...)
	for _, m1 := range withNil {
		var l []string
		for _, m2 := range withNil {
			p := fMaps([]map[int]int{m1, m2})
			l = append(l, "MergeMaps "+p, "MergeMapsWithSkip "+p, "CloneMaps "+p)
		}
		e.emit(l)
	}
	for i := 0; i < tierLen(tier, 200, 2000); i++ {
		k := rng.Range(0, 4)
		ms := make([]map[int]int, k)
		for j := range ms {
			ms[j] = withNil[rng.Intn(len(withNil))]
		}
		p := fMaps(ms)
		e.emit([]string{"MergeMaps " + p, "MergeMapsWithSkip " + p, "CloneMaps " + p})
	}
	// (iii) random larger inputs
	for i := 0; i < tierLen(tier, 150, 1500); i++ {
		s := randSlice(rng, 60)
		l := sliceEditOps(s, false)
		idx := randSlice(rng, 8)
		for j := range idx {
			idx[j] = rng.Range(-2, len(s)+2)
		}
		o := randSlice(rng, 6)
		c := cmpNames[rng.Intn(len(cmpNames))]
		l = append(l,
			fmt.Sprintf("FilterOutByIndices %s %s", fInts(s), fInts(idx)),
			fmt.Sprintf("DropSliceByIndices %s %s", fInts(s), fInts(idx)),
			fmt.Sprintf("DropSliceByIndices.backing %s %s", fInts(s), fInts(idx)),
			fmt.Sprintf("DropSliceOverlappingElements %s %s %s", fInts(s), fInts(o), c),
			fmt.Sprintf("DropSliceOverlappingElements.backing %s %s %s", fInts(s), fInts(o), c),
			fmt.Sprintf("ConvertSliceToBatches %s %d", fInts(s), rng.Range(1, 9)),
		)
		e.emit(l)
		e.emit(mapEditOps(randMap(rng, 12), false))
	}
	// malformed stream
	e.emit([]string{"DeduplicateSlice", "DeduplicateSlice [1 x]", "NoSuchHelper [1]", "CloneSlice [1] 2", "FilterOutByCondition [1] nosuch",
		"DeduplicateSlice.backing [1]", "ConvertSliceToBatches [1 2] x", "InSlice [1] 1 nilfn", "CloneMap {0:1 0:2}", "CloneMap {0}"})
}

// ---------------------------------------------------------------- c17-query

func sliceQueryOps(s []int, full bool) []string {
	S := fInts(s)
	var l []string
	add := func(f string, a ...any) { l = append(l, fmt.Sprintf(f, a...)) }
	vals := []int{-1, 0, 1, 2, 3}
	cmps, preds, getters := cmpNames, predNames, getterNames
	if !full {
		vals = []int{0, 3}
		if len(s) > 0 {
			vals = append(vals, s[len(s)/2], s[len(s)-1])
		}
		cmps, preds, getters = []string{"eq", "eqabs", "le"}, []string{"odd", "neg", "never"}, []string{"id", "abs", "mod3"}
	}
	for _, v := range vals {
		for _, c := range cmps {
			add("InSlice %s %d %s", S, v, c)
		}
		add("InComparableSlice %s %d", S, v)
		add("IsFirst %s %d", S, v)
		add("FindOrDefaultInComparableSlice %s %d 9", S, v)
		add("FindInComparableSlice %s %d", S, v)
		add("FindIndexInComparableSlice %s %d", S, v)
	}
	lim := len(s) + 1
	if !full && lim > 4 {
		lim = 4
	}
	for i := -2; i <= lim; i++ {
		if len(s) > 0 || full { // empty slices panic for every i; kept in the exhaustive part only
			add("FindLoopedNextInSlice %s %d", S, i)
			add("FindLoopedPrevInSlice %s %d", S, i)
		}
	}
	if len(s) <= 6 {
		for lo := -1; lo <= 3; lo++ {
			for hi := 0; hi <= 3; hi++ {
				add("FindCombinationsInSliceByRange %s %d %d", S, lo, hi)
			}
		}
		add("FindCombinationsInSliceByRange %s 1 %d", S, len(s)+1)
	}
	add("FindFirstOrDefaultInSlice %s 9", S)
	for _, p := range preds {
		add("FindOrDefaultInSlice %s 9 %s", S, p)
		add("FindInSlice %s %s", S, p)
		add("FindIndexInSlice %s %s", S, p)
	}
	add("FindMinimumInComparableSlice %s", S)
	add("FindMaximumInComparableSlice %s", S)
	add("FindMin2MaxInComparableSlice %s", S)
	for _, g := range getters {
		add("FindMinimumInSlice %s %s", S, g)
		add("FindMaximumInSlice %s %s", S, g)
		add("FindMin2MaxInSlice %s %s", S, g)
	}
	for st := 0; st <= lim; st++ {
		add("LoopSlice %s %d", S, st)
		add("ReverseLoopSlice %s %d", S, st)
	}
	return l
}

func mapQueryOps(m map[int]int, full bool) []string {
	M := fMap(m)
	var l []string
	add := func(f string, a ...any) { l = append(l, fmt.Sprintf(f, a...)) }
	for k := -1; k <= 3; k++ {
		add("KeyInMap %s %d", M, k)
	}
	cmps := []string{"eq", "eqabs", "lt", "never"}
	if full {
		cmps = cmpNames
	}
	for _, c := range cmps {
		for _, v := range []int{-1, 0, 1, 5} {
			add("ValueInMap %s %d %s", M, v, c)
		}
	}
	lists := append(allSlices([]int{0, 1, 2, 3}, 2), nil, []int{0, 1, 2}, []int{2, 1, 0, 1})
	for _, K := range lists {
		add("AllKeyInMap %s %s", M, fInts(K))
		add("AnyKeyInMap %s %s", M, fInts(K))
	}
	vlists := append(allSlices([]int{-1, 0, 1, 5}, 2), nil)
	for _, V := range vlists {
		for _, c := range cmps[:2] {
			add("AllValueInMap %s %s %s", M, fInts(V), c)
			add("AnyValueInMap %s %s %s", M, fInts(V), c)
		}
	}
	add("FindMinFromComparableMap %s", M)
	add("FindMaxFromComparableMap %s", M)
	add("FindMin2MaxFromComparableMap %s", M)
	add("FindMin2MaxFromMap %s", M)
	for st := 0; st <= len(m)+1 && st <= 5; st++ {
		add("LoopMapByOrderedKeyAsc %s %d", M, st)
		add("LoopMapByOrderedKeyDesc %s %d", M, st)
	}
	return l
}

func genQuery(rng *proto.RNG, tier string, shard, nshards int, w *bufio.Writer) {
	e := &emitter{w: w, shard: shard, nshards: nshards}
	e.emit(sliceQueryOps(nil, true))
	e.emit(mapQueryOps(nil, true))
	for _, s := range allSlices(alpha4, tierLen(tier, 5, 6)) {
		e.emit(sliceQueryOps(s, len(s) <= tierLen(tier, 4, 5)))
	}
	// pairs of slices
	pa := []int{-1, 0, 2}
	if tier == "thorough" {
		pa = alpha4
	}
	pairs := append(allSlices(pa, 3), nil)
	for _, s1 := range pairs {
		var l []string
		for _, s2 := range pairs {
			a, b := fInts(s1), fInts(s2)
			for _, c := range cmpNames {
				l = append(l, fmt.Sprintf("EqualSlice %s %s %s", a, b, c), fmt.Sprintf("AllInSlice %s %s %s", a, b, c),
					fmt.Sprintf("AnyInSlice %s %s %s", a, b, c))
			}
			l = append(l, fmt.Sprintf("EqualComparableSlice %s %s", a, b), fmt.Sprintf("AllInComparableSlice %s %s", a, b),
				fmt.Sprintf("AnyInComparableSlice %s %s", a, b))
		}
		e.emit(l)
	}
	// slices of slices
	pool := [][]int{nil, {}, {1}, {1, 2}, {0, -1, 2}, {2, 2}, {-1}}
	vpool := [][]int{nil, {}, {1}, {2, 1}, {-1, 5}, {5}, {0, 0}}
	cm := []string{"eq", "eqabs", "lt", "never"}
	var rec func(prefix [][]int)
	rec = func(prefix [][]int) {
		SS := fIntss(prefix)
		var l []string
		for _, v := range []int{-1, 1, 2, 5} {
			for _, c := range cm {
				l = append(l, fmt.Sprintf("InSlices %s %d %s", SS, v, c), fmt.Sprintf("InAllSlices %s %d %s", SS, v, c))
			}
			l = append(l, fmt.Sprintf("InComparableSlices %s %d", SS, v), fmt.Sprintf("InAllComparableSlices %s %d", SS, v))
		}
		for _, vs := range vpool {
			V := fInts(vs)
			for _, c := range cm {
				l = append(l, fmt.Sprintf("AllInSlices %s %s %s", SS, V, c), fmt.Sprintf("AnyInSlices %s %s %s", SS, V, c),
					fmt.Sprintf("AnyInAllSlices %s %s %s", SS, V, c))
			}
			l = append(l, fmt.Sprintf("AllInComparableSlices %s %s", SS, V), fmt.Sprintf("AnyInComparableSlices %s %s", SS, V),
				fmt.Sprintf("AnyInAllComparableSlices %s %s", SS, V))
		}
		e.emit(l)
		if len(prefix) == tierLen(tier, 2, 3) {
			return
		}
		for _, p := range pool {
			rec(append(append([][]int{}, prefix...), p))
		}
	}
	rec([][]int{})
	{
		var l []string
		for _, c := range cm {
			l = append(l, "InSlices nil 1 "+c, "InAllSlices nil 1 "+c, "AllInSlices nil [1] "+c, "AnyInSlices nil [1] "+c, "AnyInAllSlices nil [1] "+c,
				"AllInSlices nil nil "+c)
		}
		l = append(l, "InComparableSlices nil 1", "InAllComparableSlices nil 1", "AllInComparableSlices nil [1]", "AnyInComparableSlices nil [1]",
			"AnyInAllComparableSlices nil [1]")
		e.emit(l)
	}
	// maps
	vals := []int{-1, 0, 1}
	if tier == "thorough" {
		vals = []int{-2, -1, 0, 1}
	}
	maps := allMaps([]int{0, 1, 2}, vals)
	for _, m := range maps {
		e.emit(mapQueryOps(m, true))
	}
	withNil := append([]map[int]int{nil}, maps...)
	for _, m1 := range withNil {
		var l []string
		for _, m2 := range withNil {
			for _, c := range cmpNames {
				l = append(l, fmt.Sprintf("EqualMap %s %s %s", fMap(m1), fMap(m2), c))
			}
			l = append(l, fmt.Sprintf("EqualComparableMap %s %s", fMap(m1), fMap(m2)))
		}
		e.emit(l)
	}
	// different key sets, same size (the shape EqualMap has to reject)
	e.emit([]string{"EqualMap {0:0} {1:0} eq", "EqualComparableMap {0:0} {1:0}", "EqualMap {0:0 5:1} {0:0 6:1} eq", "EqualComparableMap {7:0} {8:0}"})
	mpool := []map[int]int{nil, {}, {0: 1}, {0: 1, 1: -1}, {1: 0, 2: 5}, {0: 0, 1: 1, 2: 2}}
	klists := append(allSlices([]int{0, 1, 3}, 2), nil)
	vlists := [][]int{nil, {}, {1}, {5}, {-1, 1}, {0, 5}}
	var recm func(prefix []map[int]int)
	recm = func(prefix []map[int]int) {
		MS := fMaps(prefix)
		var l []string
		for _, K := range klists {
			l = append(l, fmt.Sprintf("AllKeyInMaps %s %s", MS, fInts(K)), fmt.Sprintf("AnyKeyInMaps %s %s", MS, fInts(K)),
				fmt.Sprintf("AnyKeyInAllMaps %s %s", MS, fInts(K)))
		}
		for _, V := range vlists {
			for _, c := range cm {
				l = append(l, fmt.Sprintf("AllValueInMaps %s %s %s", MS, fInts(V), c), fmt.Sprintf("AnyValueInMaps %s %s %s", MS, fInts(V), c))
			}
		}
		for k := -1; k <= 3; k++ {
			l = append(l, fmt.Sprintf("KeyInAllMaps %s %d", MS, k))
		}
		e.emit(l)
		if len(prefix) == tierLen(tier, 2, 3) {
			return
		}
		for _, p := range mpool {
			recm(append(append([]map[int]int{}, prefix...), p))
		}
	}
	recm([]map[int]int{})
	e.emit([]string{"AllKeyInMaps nil [0]", "AnyKeyInMaps nil [0]", "AnyKeyInAllMaps nil [0]", "AllValueInMaps nil [0] eq", "AnyValueInMaps nil [0] eq",
		"KeyInAllMaps nil 0", "AllKeyInMaps nil nil"})
	var sm []string
	for a := -2; a <= 2; a++ {
		for b := -2; b <= 2; b++ {
			sm = append(sm, fmt.Sprintf("AscBy %d %d", a, b), fmt.Sprintf("DescBy %d %d", a, b))
		}
	}
	e.emit(sm)
	// random larger
	for i := 0; i < tierLen(tier, 150, 1500); i++ {
		s := randSlice(rng, 60)
		l := sliceQueryOps(s, false)
		s2 := randSlice(rng, 60)
		if rng.Intn(3) == 0 {
			s2 = append([]int(nil), s...)
			if len(s2) > 0 && rng.Bool() {
				s2[rng.Intn(len(s2))]++ // differs in exactly one place (also the last one)
			}
			if len(s2) > 0 && rng.Intn(4) == 0 {
				s2[len(s2)-1]--
			}
		}
		c := cmpNames[rng.Intn(len(cmpNames))]
		l = append(l, fmt.Sprintf("EqualSlice %s %s %s", fInts(s), fInts(s2), c), fmt.Sprintf("EqualComparableSlice %s %s", fInts(s), fInts(s2)),
			fmt.Sprintf("AllInSlice %s %s %s", fInts(s), fInts(s2), c), fmt.Sprintf("AnyInComparableSlice %s %s", fInts(s), fInts(s2)))
		e.emit(l)
		m := randMap(rng, 12)
		l = mapQueryOps(m, false)
		m2 := cloneMap(m)
		if rng.Bool() && len(m2) > 0 { // same size, one key renamed
			for _, k := range sortedKeys(m2) {
				v := m2[k]
				delete(m2, k)
				m2[k+100] = v
				break
			}
		}
		l = append(l, fmt.Sprintf("EqualMap %s %s %s", fMap(m), fMap(m2), c), fmt.Sprintf("EqualComparableMap %s %s", fMap(m), fMap(m2)))
		e.emit(l)
	}
	e.emit([]string{"InSlice [1] 1", "EqualSlice [1] [1] nosuch", "FindLoopedNextInSlice [1]", "LoopSlice [1] -1", "KeyInMap {0:1}", "IsFirst nil x",
		"FindMinimumInSlice [1] nosuch", "EqualMap {0:1} [1] eq"})
}

// ---------------------------------------------------------------- c17-order (judged)

func mapOrderOps(m map[int]int, reps int, full bool) []string {
	M := fMap(m)
	var l []string
	add := func(f string, a ...any) {
		s := fmt.Sprintf(f, a...)
		for i := 0; i < reps; i++ {
			l = append(l, s)
		}
	}
	add("ConvertMapKeysToSlice %s", M)
	add("ConvertMapValuesToSlice %s", M)
	for n := -1; n <= len(m)+1 && n <= 5; n++ {
		add("ConvertMapKeysToBatches %s %d", M, n)
		add("ConvertMapValuesToBatches %s %d", M, n)
	}
	add("InvertMap %s", M)
	getters := getterNames
	if !full {
		getters = []string{"id", "abs", "mod3"}
	}
	for _, g := range getters {
		add("FindMinFromMap %s %s", M, g)
		add("FindMaxFromMap %s %s", M, g)
	}
	lim := len(m) + 1
	if lim > 4 {
		lim = 4
	}
	for st := 0; st <= lim; st++ {
		add("LoopMap %s %d", M, st)
		add("LoopMapByOrderedValueAsc %s %d", M, st)
		add("LoopMapByOrderedValueDesc %s %d", M, st)
		for _, g := range getters {
			add("LoopMapByKeyGetterAsc %s %s %d", M, g, st)
			add("LoopMapByKeyGetterDesc %s %s %d", M, g, st)
			add("LoopMapByValueGetterAsc %s %s %d", M, g, st)
			add("LoopMapByValueGetterDesc %s %s %d", M, g, st)
		}
	}
	return l
}

func sliceOrderOps(s []int, full bool) []string {
	S := fInts(s)
	var l []string
	getters := getterNames
	if !full {
		getters = []string{"id", "abs", "mod3"}
	}
	for _, g := range getters {
		l = append(l, "Asc "+S+" "+g, "Desc "+S+" "+g, "AscByClone "+S+" "+g, "DescByClone "+S+" "+g)
	}
	l = append(l, "Shuffle "+S, "ShuffleByClone "+S, "Shuffle "+S, "ShuffleByClone "+S)
	return l
}

func genOrder(rng *proto.RNG, tier string, shard, nshards int, w *bufio.Writer) {
	e := &emitter{w: w, shard: shard, nshards: nshards}
	e.emit(mapOrderOps(nil, 1, true))
	e.emit(sliceOrderOps(nil, true))
	vals := []int{-1, 0, 1}
	if tier == "thorough" {
		vals = []int{-2, -1, 0, 1}
	}
	for _, m := range allMaps([]int{0, 1, 2}, vals) {
		e.emit(mapOrderOps(m, 2, true))
	}
	// all-negative and larger-than-keys values
	for _, m := range allMaps([]int{3, 4, 5}, []int{-3, -2}) {
		e.emit(mapOrderOps(m, 1, false))
	}
	for _, s := range allSlices(alpha4, tierLen(tier, 5, 6)) {
		e.emit(sliceOrderOps(s, len(s) <= 4))
	}
	for i := 0; i < tierLen(tier, 200, 2000); i++ {
		e.emit(mapOrderOps(randMap(rng, 10), 1, false))
		e.emit(sliceOrderOps(randSlice(rng, 40), false))
	}
	e.emit([]string{"LoopMap {0:1}", "Asc [1] nosuch", "Shuffle", "FindMinFromMap {0:1}", "LoopMap {0:1} -1"})
}

// ---------------------------------------------------------------- c17-random (judged)

func sliceRandomOps(s []int, reps int) []string {
	S := fInts(s)
	var l []string
	add := func(f string, a ...any) {
		x := fmt.Sprintf(f, a...)
		for i := 0; i < reps; i++ {
			l = append(l, x)
		}
	}
	add("ChooseRandomSliceElement %s", S)
	add("ChooseRandomIndex %s", S)
	hi := len(s) + 1
	for n := -1; n <= hi; n++ {
		if n > 6 && n < len(s)-1 {
			continue
		}
		add("ChooseRandomSliceElementRepeatN %s %d", S, n)
		add("ChooseRandomIndexRepeatN %s %d", S, n)
		add("ChooseRandomSliceElementN %s %d", S, n)
		add("ChooseRandomIndexN %s %d", S, n)
	}
	add("ChooseRandomSliceElementRepeatN %s %d", S, 2*len(s)+3)
	add("ChooseRandomIndexRepeatN %s %d", S, 2*len(s)+3)
	return l
}

func mapRandomOps(m map[int]int, reps int) []string {
	M := fMap(m)
	var l []string
	add := func(f string, a ...any) {
		x := fmt.Sprintf(f, a...)
		for i := 0; i < reps; i++ {
			l = append(l, x)
		}
	}
	add("ChooseRandomMapKey %s", M)
	add("ChooseRandomMapValue %s", M)
	add("ChooseRandomMapKeyAndValue %s", M)
	for n := -1; n <= len(m)+1; n++ {
		if n > 5 && n < len(m)-1 {
			continue
		}
		add("ChooseRandomMapKeyRepeatN %s %d", M, n)
		add("ChooseRandomMapValueRepeatN %s %d", M, n)
		add("ChooseRandomMapKeyAndValueRepeatN %s %d", M, n)
		add("ChooseRandomMapKeyN %s %d", M, n)
		add("ChooseRandomMapValueN %s %d", M, n)
		add("ChooseRandomMapKeyAndValueN %s %d", M, n)
	}
	return l
}

func genRandom(rng *proto.RNG, tier string, shard, nshards int, w *bufio.Writer) {
	e := &emitter{w: w, shard: shard, nshards: nshards}
	e.emit(sliceRandomOps(nil, 1))
	e.emit(mapRandomOps(nil, 1))
	for _, s := range allSlices(alpha4, tierLen(tier, 4, 5)) {
		e.emit(sliceRandomOps(s, 2))
	}
	// distinct contents: a repeated index shows as a repeated element
	for n := 1; n <= 8; n++ {
		s := make([]int, n)
		for i := range s {
			s[i] = 10 + i
		}
		e.emit(sliceRandomOps(s, tierLen(tier, 3, 10)))
	}
	vals := []int{-1, 0, 1}
	for _, m := range allMaps([]int{0, 1, 2}, vals) {
		e.emit(mapRandomOps(m, 2))
	}
	for i := 0; i < tierLen(tier, 150, 1500); i++ {
		e.emit(sliceRandomOps(randSlice(rng, 30), 1))
		e.emit(mapRandomOps(randMap(rng, 10), 1))
	}
	e.emit([]string{"ChooseRandomIndex", "ChooseRandomIndexN [1] x", "ChooseRandomMapKey [1]", "ChooseRandomMapKeyN {0:1}"})
}

// ---------------------------------------------------------------- c17-topo (judged)

func fItems(items [][]int) string { return fIntss(items) }

func genTopo(rng *proto.RNG, tier string, shard, nshards int, w *bufio.Writer) {
	e := &emitter{w: w, shard: shard, nshards: nshards}
	e.emit([]string{"TopologicalSort nil", "TopologicalSort []",
		"TopologicalSort [[2 4] [1 2 3] [3 4] [4 5] [5]]", // the package's example
		"TopologicalSort [[1 2] [2 1]]", "TopologicalSort [[1 1]]", "TopologicalSort [[1] [1]]", "TopologicalSort [[1 2] [2 3] [3 1]]"})
	// (ii) exhaustive: n <= 3 nodes with ids 1..n, every node depends on any subset of {1..n, 9} (9 is absent)
	maxN := tierLen(tier, 3, 3)
	for n := 1; n <= maxN; n++ {
		targets := []int{}
		for i := 1; i <= n; i++ {
			targets = append(targets, i)
		}
		targets = append(targets, 9)
		nsub := 1 << len(targets)
		total := 1
		for i := 0; i < n; i++ {
			total *= nsub
		}
		for code := 0; code < total; code++ {
			c := code
			items := make([][]int, n)
			for i := 0; i < n; i++ {
				sub := c % nsub
				c /= nsub
				it := []int{i + 1}
				for b, t := range targets {
					if sub&(1<<b) != 0 {
						it = append(it, t)
					}
				}
				items[i] = it
			}
			e.emit([]string{"TopologicalSort " + fItems(items), "TopologicalSort " + fItems(items)})
		}
	}
	// 4 nodes: all DAG-or-not graphs without absent targets, slice order reversed
	if true {
		n := 4
		nsub := 1 << n
		total := nsub * nsub * nsub * nsub
		step := 1
		if tier != "thorough" {
			step = 7
		}
		for code := 0; code < total; code += step {
			c := code
			items := make([][]int, n)
			for i := 0; i < n; i++ {
				sub := c % nsub
				c /= nsub
				it := []int{i + 1}
				for b := 0; b < n; b++ {
					if sub&(1<<b) != 0 {
						it = append(it, b+1)
					}
				}
				items[n-1-i] = it
			}
			e.emit([]string{"TopologicalSort " + fItems(items)})
		}
	}
	// (iii) random: DAGs (edges only towards larger ids after a random relabelling), with an optional back edge,
	// duplicate indices, repeated dependencies
	for i := 0; i < tierLen(tier, 400, 4000); i++ {
		n := rng.Range(2, 12)
		label := make([]int, n)
		for j := range label {
			label[j] = j + 1
		}
		for j := n - 1; j > 0; j-- {
			k := rng.Intn(j + 1)
			label[j], label[k] = label[k], label[j]
		}
		items := make([][]int, n)
		for a := 0; a < n; a++ {
			it := []int{label[a]}
			for b := a + 1; b < n; b++ {
				if rng.Intn(3) == 0 {
					it = append(it, label[b])
					if rng.Intn(8) == 0 {
						it = append(it, label[b])
					}
				}
			}
			if rng.Intn(6) == 0 {
				it = append(it, 99)
			}
			items[a] = it
		}
		mode := rng.Intn(6)
		if mode == 0 && n >= 2 { // back edge: may or may not close a cycle
			a := rng.Range(1, n-1)
			b := rng.Intn(a)
			items[a] = append(items[a], label[b])
		}
		if mode == 1 { // duplicate index
			items = append(items, []int{label[rng.Intn(n)]})
		}
		if mode == 2 { // self dependency
			a := rng.Intn(n)
			items[a] = append(items[a], label[a])
		}
		// shuffle the slice order
		for j := len(items) - 1; j > 0; j-- {
			k := rng.Intn(j + 1)
			items[j], items[k] = items[k], items[j]
		}
		e.emit([]string{"TopologicalSort " + fItems(items)})
	}
	e.emit([]string{"TopologicalSort", "TopologicalSort [[]]", "TopologicalSort [1 2]", "TopologicalSort [[1 x]]"})
}

var _ = strings.Join
var _ = sortedCopy

func init() {
	all := map[string]handler{}
	for _, t := range []map[string]handler{editOps(), queryOps(), judgeOps()} {
		for k, v := range t {
			all[k] = v
		}
	}
	mk := func() proto.Runner { return &runner{ops: all} }
	proto.Register(&proto.Suite{Name: "c17-edit", Gen: genEdit, New: mk})
	proto.Register(&proto.Suite{Name: "c17-query", Gen: genQuery, New: mk})
	proto.Register(&proto.Suite{Name: "c17-order", Gen: genOrder, New: mk})
	proto.Register(&proto.Suite{Name: "c17-random", Gen: genRandom, New: mk})
	proto.Register(&proto.Suite{Name: "c17-topo", Gen: genTopo, New: mk})
}
