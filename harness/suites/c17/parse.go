package c17

import (
	"sort"
	"strconv"
	"strings"
)

// Argument syntax shared with lean/Oracle/CollParse.lean.
//
//	int            3  -1
//	slice          [1 2 3]   []   nil
//	slices         [[1 2] nil []]   nil
//	map            {0:1 2:-1}   {}   nil
//	maps           [{0:1} nil {}]   nil
//	callback       a bare name from callbacks.go
//
// Arguments are separated by blanks at bracket depth 0.

// splitTop splits s at blanks that are outside every bracket.
func splitTop(s string) []string {
	var out []string
	depth, start := 0, -1
	for i := 0; i < len(s); i++ {
		c := s[i]
		switch c {
		case '[', '{':
			depth++
		case ']', '}':
			depth--
		}
		if c == ' ' && depth == 0 {
			if start >= 0 {
				out = append(out, s[start:i])
				start = -1
			}
			continue
		}
		if start < 0 {
			start = i
		}
	}
	if start >= 0 {
		out = append(out, s[start:])
	}
	return out
}

func pInt(s string) (int, bool) {
	v, err := strconv.Atoi(s)
	return v, err == nil
}

// pInts: "nil" -> (nil, true); "[1 2]" -> ([]int{1,2}, true); "[]" -> ([]int{}, true)
func pInts(s string) ([]int, bool) {
	if s == "nil" {
		return nil, true
	}
	if len(s) < 2 || s[0] != '[' || s[len(s)-1] != ']' {
		return nil, false
	}
	out := []int{}
	for _, f := range strings.Fields(s[1 : len(s)-1]) {
		v, ok := pInt(f)
		if !ok {
			return nil, false
		}
		out = append(out, v)
	}
	return out, true
}

func pIntss(s string) ([][]int, bool) {
	if s == "nil" {
		return nil, true
	}
	if len(s) < 2 || s[0] != '[' || s[len(s)-1] != ']' {
		return nil, false
	}
	out := [][]int{}
	for _, f := range splitTop(s[1 : len(s)-1]) {
		v, ok := pInts(f)
		if !ok {
			return nil, false
		}
		out = append(out, v)
	}
	return out, true
}

func pMap(s string) (map[int]int, bool) {
	if s == "nil" {
		return nil, true
	}
	if len(s) < 2 || s[0] != '{' || s[len(s)-1] != '}' {
		return nil, false
	}
	out := map[int]int{}
	for _, f := range strings.Fields(s[1 : len(s)-1]) {
		kv := strings.Split(f, ":")
		if len(kv) != 2 {
			return nil, false
		}
		k, ok1 := pInt(kv[0])
		v, ok2 := pInt(kv[1])
		if !ok1 || !ok2 {
			return nil, false
		}
		if _, dup := out[k]; dup {
			return nil, false
		}
		out[k] = v
	}
	return out, true
}

func pMaps(s string) ([]map[int]int, bool) {
	if s == "nil" {
		return nil, true
	}
	if len(s) < 2 || s[0] != '[' || s[len(s)-1] != ']' {
		return nil, false
	}
	out := []map[int]int{}
	for _, f := range splitTop(s[1 : len(s)-1]) {
		v, ok := pMap(f)
		if !ok {
			return nil, false
		}
		out = append(out, v)
	}
	return out, true
}

// ---- formatting

func fInts(l []int) string {
	if l == nil {
		return "nil"
	}
	var sb strings.Builder
	sb.WriteByte('[')
	for i, v := range l {
		if i > 0 {
			sb.WriteByte(' ')
		}
		sb.WriteString(strconv.Itoa(v))
	}
	sb.WriteByte(']')
	return sb.String()
}

func fIntss(l [][]int) string {
	if l == nil {
		return "nil"
	}
	p := make([]string, len(l))
	for i, x := range l {
		p[i] = fInts(x)
	}
	return "[" + strings.Join(p, " ") + "]"
}

func sortedKeys[V any](m map[int]V) []int {
	ks := make([]int, 0, len(m))
	for k := range m {
		ks = append(ks, k)
	}
	sort.Ints(ks)
	return ks
}

func fMap(m map[int]int) string {
	if m == nil {
		return "nil"
	}
	var p []string
	for _, k := range sortedKeys(m) {
		p = append(p, strconv.Itoa(k)+":"+strconv.Itoa(m[k]))
	}
	return "{" + strings.Join(p, " ") + "}"
}

func fBoolMap(m map[int]bool) string {
	if m == nil {
		return "nil"
	}
	var p []string
	for _, k := range sortedKeys(m) {
		p = append(p, strconv.Itoa(k)+":"+strconv.FormatBool(m[k]))
	}
	return "{" + strings.Join(p, " ") + "}"
}

func fSet(m map[int]struct{}) string {
	if m == nil {
		return "nil"
	}
	var p []string
	for _, k := range sortedKeys(m) {
		p = append(p, strconv.Itoa(k))
	}
	return "{" + strings.Join(p, " ") + "}"
}

func fMaps(l []map[int]int) string {
	if l == nil {
		return "nil"
	}
	p := make([]string, len(l))
	for i, x := range l {
		p[i] = fMap(x)
	}
	return "[" + strings.Join(p, " ") + "]"
}

func fBool(b bool) string { return strconv.FormatBool(b) }

type visit struct{ i, k, v int }

// fVisits2 prints (i v) pairs, fVisits3 prints (i k v) triples.
func fVisits2(l []visit) string {
	p := make([]string, len(l))
	for i, x := range l {
		p[i] = "(" + strconv.Itoa(x.i) + " " + strconv.Itoa(x.v) + ")"
	}
	return "[" + strings.Join(p, " ") + "]"
}

func fVisits3(l []visit) string {
	p := make([]string, len(l))
	for i, x := range l {
		p[i] = "(" + strconv.Itoa(x.i) + " " + strconv.Itoa(x.k) + " " + strconv.Itoa(x.v) + ")"
	}
	return "[" + strings.Join(p, " ") + "]"
}
