package c17

import (
	"strconv"

	"github.com/kercylan98/minotaur/toolkit/collection"
)

// ops whose answers depend on Go map iteration order, sort.Slice tie-breaking or math/rand; their
// answers are judged by the Lean spec predicates instead of compared with a model answer.

func judgeOps() map[string]handler {
	ops := map[string]handler{}
	itoa := strconv.Itoa
	// ---------------------------------------------------------------- convert.go
	ops["ConvertMapKeysToSlice"] = func(c *ctx, a *A, _ bool) string {
		m := c.mp(a.m())
		if !a.ok() {
			return badOp
		}
		return fInts(collection.ConvertMapKeysToSlice(m)) + c.args()
	}
	ops["ConvertMapValuesToSlice"] = func(c *ctx, a *A, _ bool) string {
		m := c.mp(a.m())
		if !a.ok() {
			return badOp
		}
		return fInts(collection.ConvertMapValuesToSlice(m)) + c.args()
	}
	ops["ConvertMapKeysToBatches"] = func(c *ctx, a *A, _ bool) string {
		m := c.mp(a.m())
		n := a.int()
		if !a.ok() {
			return badOp
		}
		return fIntss(collection.ConvertMapKeysToBatches(m, n)) + c.args()
	}
	ops["ConvertMapValuesToBatches"] = func(c *ctx, a *A, _ bool) string {
		m := c.mp(a.m())
		n := a.int()
		if !a.ok() {
			return badOp
		}
		return fIntss(collection.ConvertMapValuesToBatches(m, n)) + c.args()
	}
	// ---------------------------------------------------------------- find.go
	ops["FindMinFromMap"] = func(c *ctx, a *A, _ bool) string {
		m := c.mp(a.m())
		g := a.getter()
		if !a.ok() {
			return badOp
		}
		return itoa(collection.FindMinFromMap(m, g)) + c.args()
	}
	ops["FindMaxFromMap"] = func(c *ctx, a *A, _ bool) string {
		m := c.mp(a.m())
		g := a.getter()
		if !a.ok() {
			return badOp
		}
		return itoa(collection.FindMaxFromMap(m, g)) + c.args()
	}
	// ---------------------------------------------------------------- loop.go
	loopMap := func(f func(m map[int]int, cb func(i, k, v int) bool)) handler {
		return func(c *ctx, a *A, _ bool) string {
			m := c.mp(a.m())
			st := &stopper{stop: a.int()}
			if !a.ok() || st.stop < 0 {
				return badOp
			}
			f(m, st.f3)
			return fVisits3(st.visits) + c.args()
		}
	}
	loopMapGetter := func(f func(m map[int]int, g func(int) int, cb func(i, k, v int) bool)) handler {
		return func(c *ctx, a *A, _ bool) string {
			m := c.mp(a.m())
			g := a.getter()
			st := &stopper{stop: a.int()}
			if !a.ok() || st.stop < 0 {
				return badOp
			}
			f(m, g, st.f3)
			return fVisits3(st.visits) + c.args()
		}
	}
	ops["LoopMap"] = loopMap(func(m map[int]int, cb func(i, k, v int) bool) { collection.LoopMap(m, cb) })
	ops["LoopMapByOrderedValueAsc"] = loopMap(func(m map[int]int, cb func(i, k, v int) bool) { collection.LoopMapByOrderedValueAsc(m, cb) })
	ops["LoopMapByOrderedValueDesc"] = loopMap(func(m map[int]int, cb func(i, k, v int) bool) { collection.LoopMapByOrderedValueDesc(m, cb) })
	ops["LoopMapByKeyGetterAsc"] = loopMapGetter(func(m map[int]int, g func(int) int, cb func(i, k, v int) bool) {
		collection.LoopMapByKeyGetterAsc(m, g, cb)
	})
	ops["LoopMapByKeyGetterDesc"] = loopMapGetter(func(m map[int]int, g func(int) int, cb func(i, k, v int) bool) {
		collection.LoopMapByKeyGetterDesc(m, g, cb)
	})
	ops["LoopMapByValueGetterAsc"] = loopMapGetter(func(m map[int]int, g func(int) int, cb func(i, k, v int) bool) {
		collection.LoopMapByValueGetterAsc(m, g, cb)
	})
	ops["LoopMapByValueGetterDesc"] = loopMapGetter(func(m map[int]int, g func(int) int, cb func(i, k, v int) bool) {
		collection.LoopMapByValueGetterDesc(m, g, cb)
	})
	// ---------------------------------------------------------------- sort.go
	// In-place variants: the getter indexes the slice being sorted (as in the package's examples).
	ops["Desc"] = func(c *ctx, a *A, _ bool) string {
		s := mkSpare(a.ints())
		g := a.getter()
		if !a.ok() {
			return badOp
		}
		collection.Desc(&s, func(i int) int { return g(s[i]) })
		return fInts(s)
	}
	ops["Asc"] = func(c *ctx, a *A, _ bool) string {
		s := mkSpare(a.ints())
		g := a.getter()
		if !a.ok() {
			return badOp
		}
		collection.Asc(&s, func(i int) int { return g(s[i]) })
		return fInts(s)
	}
	// ByClone variants: the caller can only index the slice it passed in (as in the examples).
	ops["DescByClone"] = func(c *ctx, a *A, _ bool) string {
		s := c.sl(a.ints())
		g := a.getter()
		if !a.ok() {
			return badOp
		}
		r := collection.DescByClone(s, func(i int) int { return g(s[i]) })
		return fInts(r) + c.args()
	}
	ops["AscByClone"] = func(c *ctx, a *A, _ bool) string {
		s := c.sl(a.ints())
		g := a.getter()
		if !a.ok() {
			return badOp
		}
		r := collection.AscByClone(s, func(i int) int { return g(s[i]) })
		return fInts(r) + c.args()
	}
	ops["Shuffle"] = func(c *ctx, a *A, _ bool) string {
		s := mkSpare(a.ints())
		if !a.ok() {
			return badOp
		}
		collection.Shuffle(&s)
		return fInts(s)
	}
	ops["ShuffleByClone"] = func(c *ctx, a *A, _ bool) string {
		s := c.sl(a.ints())
		if !a.ok() {
			return badOp
		}
		return fInts(collection.ShuffleByClone(s)) + c.args()
	}
	// ---------------------------------------------------------------- random.go
	sliceN := func(f func(s []int, n int) []int) handler {
		return func(c *ctx, a *A, _ bool) string {
			s := c.sl(a.ints())
			n := a.int()
			if !a.ok() || n > 4096 {
				return badOp
			}
			return fInts(f(s, n)) + c.args()
		}
	}
	mapN := func(f func(m map[int]int, n int) []int) handler {
		return func(c *ctx, a *A, _ bool) string {
			m := c.mp(a.m())
			n := a.int()
			if !a.ok() || n > 4096 {
				return badOp
			}
			return fInts(f(m, n)) + c.args()
		}
	}
	mapNM := func(f func(m map[int]int, n int) map[int]int) handler {
		return func(c *ctx, a *A, _ bool) string {
			m := c.mp(a.m())
			n := a.int()
			if !a.ok() || n > 4096 {
				return badOp
			}
			return fMap(f(m, n)) + c.args()
		}
	}
	ops["ChooseRandomSliceElementRepeatN"] = sliceN(collection.ChooseRandomSliceElementRepeatN[[]int, int])
	ops["ChooseRandomIndexRepeatN"] = sliceN(collection.ChooseRandomIndexRepeatN[[]int, int])
	ops["ChooseRandomSliceElementN"] = sliceN(collection.ChooseRandomSliceElementN[[]int, int])
	ops["ChooseRandomIndexN"] = sliceN(collection.ChooseRandomIndexN[[]int, int])
	ops["ChooseRandomSliceElement"] = func(c *ctx, a *A, _ bool) string {
		s := c.sl(a.ints())
		if !a.ok() {
			return badOp
		}
		return itoa(collection.ChooseRandomSliceElement(s)) + c.args()
	}
	ops["ChooseRandomIndex"] = func(c *ctx, a *A, _ bool) string {
		s := c.sl(a.ints())
		if !a.ok() {
			return badOp
		}
		return itoa(collection.ChooseRandomIndex(s)) + c.args()
	}
	ops["ChooseRandomMapKeyRepeatN"] = mapN(collection.ChooseRandomMapKeyRepeatN[map[int]int, int, int])
	ops["ChooseRandomMapValueRepeatN"] = mapN(collection.ChooseRandomMapValueRepeatN[map[int]int, int, int])
	ops["ChooseRandomMapKeyAndValueRepeatN"] = mapNM(collection.ChooseRandomMapKeyAndValueRepeatN[map[int]int, int, int])
	ops["ChooseRandomMapKeyN"] = mapN(collection.ChooseRandomMapKeyN[map[int]int, int, int])
	ops["ChooseRandomMapValueN"] = mapN(collection.ChooseRandomMapValueN[map[int]int, int, int])
	ops["ChooseRandomMapKeyAndValueN"] = mapNM(collection.ChooseRandomMapKeyAndValueN[map[int]int, int, int])
	ops["ChooseRandomMapKey"] = func(c *ctx, a *A, _ bool) string {
		m := c.mp(a.m())
		if !a.ok() {
			return badOp
		}
		return itoa(collection.ChooseRandomMapKey(m)) + c.args()
	}
	ops["ChooseRandomMapValue"] = func(c *ctx, a *A, _ bool) string {
		m := c.mp(a.m())
		if !a.ok() {
			return badOp
		}
		return itoa(collection.ChooseRandomMapValue(m)) + c.args()
	}
	ops["ChooseRandomMapKeyAndValue"] = func(c *ctx, a *A, _ bool) string {
		m := c.mp(a.m())
		if !a.ok() {
			return badOp
		}
		k, v := collection.ChooseRandomMapKeyAndValue(m)
		return itoa(k) + " " + itoa(v) + c.args()
	}
	// ---------------------------------------------------------------- topological.go
	// items are int lists: head = index of the item, tail = indices it depends on
	ops["TopologicalSort"] = func(c *ctx, a *A, _ bool) string {
		items := c.sls(a.intss())
		if !a.ok() {
			return badOp
		}
		for _, it := range items {
			if len(it) == 0 {
				return badOp
			}
		}
		r, err := collection.TopologicalSort(items, func(it []int) int { return it[0] }, func(it []int) []int { return it[1:] })
		if err != nil {
			if err == collection.ErrCircularDependencyDetected {
				return "err:cycle" + c.args()
			}
			return "err:other" + c.args()
		}
		return fIntss(r) + c.args()
	}
	return ops
}
