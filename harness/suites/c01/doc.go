// Package c01 holds the harness suites of property C01 (registered from init functions).
package c01
