package c01

// Suite `turns` (end to end, judged): "for every actor, invocations of its receive handler - for user
// messages, lifecycle and other system messages, timer callbacks and locally executed functions alike -
// never overlap in time, and everything one invocation wrote is visible to the next" on a real vivid
// system with the shipped mailboxes and dispatchers.
//
//	burst <mailbox> <senders> <n>
//	    one actor (mailbox: default | ordered); `senders` goroutines send n user messages each; at the same time
//	    one goroutine calls sys.ExecLocalFunc(actor, f) n times, one calls ctx.ExecLocalFunc(ctx.Ref(), f) n
//	    times FROM OUTSIDE the actor (as the repository's gossiper does with its own context), the actor itself
//	    registers a repeated task firing n times and re-sends to itself.
//	    Every turn (handler invocation, executed function, timer callback) enters a section guarded by an
//	    atomic depth counter, increments a PLAIN int, spins a little, and leaves.
//	    -> "turns=<t> expected=<e> overlap=<o> plain=<p>"
//
// Judge (Lean, Oracle.Turns): overlap = 0, plain = turns, turns = expected.

import (
	"bufio"
	"fmt"
	"sync"
	"sync/atomic"
	"time"

	"github.com/kercylan98/minotaur/engine/vivid"
	"github.com/kercylan98/minotaur/engine/vivid/dispatcher"
	"github.com/kercylan98/minotaur/engine/vivid/mailbox"
	"github.com/kercylan98/minotaur/toolkit/log"
	"verifharness/internal/proto"
)

type turnsRunner struct{}

func (turnsRunner) Reset() {}

type turnMsg struct{ n int }

func (turnsRunner) Step(t []string) string {
	if t[0] != "burst" || len(t) != 4 || (t[1] != "default" && t[1] != "ordered") {
		return "bad-op"
	}
	senders, ok1 := proto.Atoi(t[2])
	n, ok2 := proto.Atoi(t[3])
	if !ok1 || !ok2 || senders < 1 || senders > 16 || n < 1 || n > 2000 {
		return "bad-op"
	}
	lg := log.NewSilentLogger()
	sys := vivid.NewActorSystem(vivid.FunctionalActorSystemConfigurator(func(c *vivid.ActorSystemConfiguration) {
		c.WithLoggerProvider(log.FunctionalLoggerProvider(func() *log.Logger { return lg }))
	}))
	defer func() {
		done := make(chan struct{})
		go func() { defer func() { recover(); close(done) }(); sys.Shutdown(false) }()
		select {
		case <-done:
		case <-time.After(3 * time.Second):
		}
	}()
	var depth, overlap, turns atomic.Int64
	plain := 0 // written by every turn without synchronisation of its own
	section := func() {
		if depth.Add(1) > 1 {
			overlap.Add(1)
		}
		plain++
		for t0 := time.Now(); time.Since(t0) < 3*time.Microsecond; { // widen the window a little
		}
		turns.Add(1)
		depth.Add(-1)
	}
	var self vivid.ActorContext
	ready := make(chan struct{})
	ref := sys.ActorOfF(func() vivid.Actor {
		return vivid.FunctionalActor(func(ctx vivid.ActorContext) {
			switch m := ctx.Message().(type) {
			case *vivid.OnLaunch:
				self = ctx
				section()
				ctx.RepeatedTask("tick", time.Millisecond, time.Millisecond, n, func(ctx vivid.ActorContext) {
					section()
				})
				close(ready)
			case *turnMsg:
				section()
				if m.n > 0 && m.n%7 == 0 {
					ctx.Tell(ctx.Ref(), &turnMsg{n: -1})
				}
			}
		})
	}, func(d *vivid.ActorDescriptor) {
		if t[1] == "ordered" {
			d.WithMailboxProvider(vivid.FunctionalMailboxProvider(func(dp dispatcher.Dispatcher, rc mailbox.Recipient) mailbox.Mailbox {
				return mailbox.NewGlobalOrderedLockFree(dp, rc)
			}))
		}
	})
	select {
	case <-ready:
	case <-time.After(5 * time.Second):
		return "err:launch"
	}
	resend := 0
	for i := 1; i <= n; i++ {
		if i%7 == 0 {
			resend++
		}
	}
	expected := int64(1 + n + senders*(n+resend) + 2*n)
	var wg sync.WaitGroup
	for s := 0; s < senders; s++ {
		wg.Add(1)
		go func() {
			defer wg.Done()
			for i := 1; i <= n; i++ {
				sys.Tell(ref, &turnMsg{n: i})
			}
		}()
	}
	wg.Add(2)
	go func() {
		defer wg.Done()
		for i := 0; i < n; i++ {
			sys.ExecLocalFunc(ref, func(ctx vivid.ActorContext) { section() })
		}
	}()
	go func() {
		defer wg.Done()
		for i := 0; i < n; i++ {
			self.ExecLocalFunc(self.Ref(), func(ctx vivid.ActorContext) { section() })
		}
	}()
	wg.Wait()
	deadline := time.Now().Add(30 * time.Second) // generous: only a lost turn makes the loop run into it
	for turns.Load() < expected && time.Now().Before(deadline) {
		time.Sleep(time.Millisecond)
	}
	time.Sleep(5 * time.Millisecond)
	// read `plain` inside a turn of the actor (happens-after every earlier turn)
	got := make(chan int, 1)
	sys.ExecLocalFunc(ref, func(ctx vivid.ActorContext) { got <- plain })
	p := -1
	select {
	case p = <-got:
	case <-time.After(3 * time.Second):
	}
	return fmt.Sprintf("turns=%d expected=%d overlap=%d plain=%d", turns.Load(), expected, overlap.Load(), p)
}

func turnsGen(rng *proto.RNG, tier string, shard, nshards int, w *bufio.Writer) {
	k := 3
	if tier == "thorough" {
		k = 20
	}
	for c := 0; c < k; c++ {
		fmt.Fprintf(w, "# case %d.%d\n", shard, c)
		fmt.Fprintf(w, "burst %s %d %d\n", []string{"default", "ordered"}[(shard+c)%2], rng.Range(1, 6), rng.Range(50, 400))
	}
	if shard == 0 {
		fmt.Fprintf(w, "# case malformed\nburst default 0 5\nburst x 1 5\nbogus\n")
	}
}

func init() {
	proto.Register(&proto.Suite{Name: "turns", Gen: turnsGen, New: func() proto.Runner { return turnsRunner{} }})
}
