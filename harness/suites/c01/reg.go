package c01

import "verifharness/suites/mbx"

func init() { mbx.Register(); mbx.RegisterFacts(); mbx.RegisterDispatch() }
