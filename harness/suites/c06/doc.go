// Package c06 holds the harness suites of property C06 (registered from init functions).
package c06
