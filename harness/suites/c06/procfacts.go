package c06

import (
	"bufio"
	"fmt"
	"os"
	"path/filepath"
	"strings"

	"verifharness/internal/facts"
	"verifharness/internal/proto"
)

// process-facts (T-facts): the shared-memory skeleton of the actor process (engine/vivid/actor_process.go),
// regenerated from the source on every run and compared with the table in lean/Oracle/ProcessFacts.lean.
// "Whether the watch request preceded, raced with or followed the termination": a Watch that was resolved
// before the target's Unregister and is delivered after it reaches the dead actor ONLY because the process
// forwards system messages to the mailbox unconditionally (the dead actor then answers with Terminated);
// the serialised Layer-2 comparison cannot place a request between resolution and delivery, so the code
// that guarantees it is pinned here.

var procFuncs = []string{"DeliveryUserMessage", "DeliverySystemMessage", "delivery", "IsTerminated", "Terminate"}

type procFactsRunner struct{}

func (procFactsRunner) Reset() {}
func (procFactsRunner) Step(t []string) string {
	if len(t) != 2 || t[0] != "facts" {
		return "bad-op"
	}
	root := os.Getenv("VERIF_REPO")
	if root == "" {
		root = "/repo"
	}
	s, err := facts.Skeleton(filepath.Join(root, "engine/vivid/actor_process.go"), "actorProcess", t[1], nil)
	if err != nil {
		return "err:" + strings.ReplaceAll(err.Error(), " ", "_")
	}
	return s
}

func procFactsGen(rng *proto.RNG, tier string, shard, nshards int, w *bufio.Writer) {
	if shard != 0 {
		return
	}
	fmt.Fprintln(w, "# case facts")
	for _, f := range procFuncs {
		fmt.Fprintf(w, "facts %s\n", f)
	}
}

func init() {
	proto.Register(&proto.Suite{Name: "process-facts", Gen: procFactsGen, New: func() proto.Runner { return procFactsRunner{} }})
}
