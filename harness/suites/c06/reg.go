package c06

import "verifharness/suites/asys"

func init() { asys.Register() }
