// Package c10 holds the harness suites of property C10 (registered from init functions).
package c10
