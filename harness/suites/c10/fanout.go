package c10

// Suite `pubsub-fanout` (end to end, judged): topics of every size. `fanout <subs> <pubs> <publishers>`:
// <subs> actors subscribe once each to one topic; then <publishers> actors publish <pubs> numbered
// messages each, back to back, from their own turns. Every subscriber must handle every publication
// exactly once, with the publisher as sender, and one publisher's publications in publication order —
// whatever the number of subscriptions (1, a few, several hundred).
//
//	-> "subs=<s> expect=<n> lost=<a> dup=<b> reorder=<c> wrongsender=<d>"

import (
	"bufio"
	"fmt"
	"sync"
	"sync/atomic"
	"time"

	"github.com/kercylan98/minotaur/engine/vivid"
	"github.com/kercylan98/minotaur/toolkit/log"
	"verifharness/internal/proto"
)

type foMsg struct{ pub, seq int }
type foGo struct{ run func(ctx vivid.ActorContext) }

type fanoutRunner struct{}

func (fanoutRunner) Reset() {}

func (fanoutRunner) Step(t []string) string {
	if len(t) != 4 || t[0] != "fanout" {
		return "bad-op"
	}
	subs, ok1 := proto.Atoi(t[1])
	pubs, ok2 := proto.Atoi(t[2])
	np, ok3 := proto.Atoi(t[3])
	if !ok1 || !ok2 || !ok3 || subs < 1 || subs > 600 || pubs < 1 || pubs > 200 || np < 1 || np > 4 {
		return "bad-op"
	}
	lg := log.NewSilentLogger()
	sys := vivid.NewActorSystem(vivid.FunctionalActorSystemConfigurator(func(c *vivid.ActorSystemConfiguration) {
		c.WithLoggerProvider(log.FunctionalLoggerProvider(func() *log.Logger { return lg }))
	}))
	defer func() {
		done := make(chan struct{})
		go func() { defer func() { recover(); close(done) }(); sys.Shutdown(false) }()
		select {
		case <-done:
		case <-time.After(10 * time.Second):
		}
	}()
	type rec struct {
		mu   sync.Mutex
		last map[int]int // publisher -> last sequence number seen
		cnt  map[[2]int]int
	}
	recs := make([]*rec, subs)
	var subscribed, handled, reorder, wrongSender atomic.Int64
	pubRefs := make([]vivid.ActorRef, np)
	for p := 0; p < np; p++ {
		pubRefs[p] = sys.ActorOfF(func() vivid.Actor {
			return vivid.FunctionalActor(func(ctx vivid.ActorContext) {
				if g, ok := ctx.Message().(*foGo); ok {
					g.run(ctx)
				}
			})
		})
	}
	for s := 0; s < subs; s++ {
		r := &rec{last: map[int]int{}, cnt: map[[2]int]int{}}
		recs[s] = r
		sys.ActorOfF(func() vivid.Actor {
			return vivid.FunctionalActor(func(ctx vivid.ActorContext) {
				switch m := ctx.Message().(type) {
				case *vivid.OnLaunch:
					ctx.Subscribe("fanout-topic")
					subscribed.Add(1)
				case *foMsg:
					r.mu.Lock()
					if l, ok := r.last[m.pub]; ok && m.seq <= l {
						reorder.Add(1)
					}
					r.last[m.pub] = m.seq
					r.cnt[[2]int{m.pub, m.seq}]++
					r.mu.Unlock()
					if snd := ctx.Sender(); snd == nil || m.pub < 0 || m.pub >= np || !snd.Equal(pubRefs[m.pub]) {
						wrongSender.Add(1)
					}
					handled.Add(1)
				}
			})
		})
	}
	deadline := time.Now().Add(30 * time.Second)
	for subscribed.Load() < int64(subs) && time.Now().Before(deadline) {
		time.Sleep(time.Millisecond)
	}
	if subscribed.Load() < int64(subs) {
		return "-" // overloaded machine: the subscriptions were not established in time, nothing to judge
	}
	for p := 0; p < np; p++ {
		p := p
		sys.Tell(pubRefs[p], &foGo{run: func(ctx vivid.ActorContext) {
			for k := 0; k < pubs; k++ {
				ctx.Publish("fanout-topic", &foMsg{pub: p, seq: k})
			}
		}})
	}
	expect := int64(subs) * int64(pubs) * int64(np)
	deadline = time.Now().Add(30 * time.Second)
	for handled.Load() < expect && time.Now().Before(deadline) {
		time.Sleep(time.Millisecond)
	}
	time.Sleep(30 * time.Millisecond) // late duplicates
	lost, dup := 0, 0
	for _, r := range recs {
		r.mu.Lock()
		for p := 0; p < np; p++ {
			for k := 0; k < pubs; k++ {
				switch n := r.cnt[[2]int{p, k}]; {
				case n == 0:
					lost++
				case n > 1:
					dup += n - 1
				}
			}
		}
		r.mu.Unlock()
	}
	return fmt.Sprintf("subs=%d expect=%d lost=%d dup=%d reorder=%d wrongsender=%d", subs, expect, lost, dup, reorder.Load(), wrongSender.Load())
}

func fanoutGen(rng *proto.RNG, tier string, shard, nshards int, w *bufio.Writer) {
	caseNo := 0
	emit := func(l string) {
		if caseNo%nshards == shard {
			fmt.Fprintf(w, "# case %d\n%s\n", caseNo, l)
		}
		caseNo++
	}
	sizes := []int{1, 2, 7, 64, 255, 256, 257, 300}
	if tier == "thorough" {
		sizes = append(sizes, 128, 511, 512, 600)
	}
	for _, s := range sizes {
		for _, pp := range [][2]int{{1, 1}, {12, 1}, {25, 2}} {
			emit(fmt.Sprintf("fanout %d %d %d", s, pp[0], pp[1]))
		}
	}
	n := 8
	if tier == "thorough" {
		n = 60
	}
	for i := 0; i < n; i++ {
		emit(fmt.Sprintf("fanout %d %d %d", rng.Range(1, 400), rng.Range(1, 30), rng.Range(1, 3)))
	}
	emit("fanout 0 1 1")
	emit("fanout 3 1")
}

func init() {
	proto.Register(&proto.Suite{Name: "pubsub-fanout", Gen: fanoutGen, New: func() proto.Runner { return fanoutRunner{} }})
}
