package c10

// Suite `pubsub` (T-diff, exact): a REAL vivid.ActorSystem (shipped dispatchers and mailboxes, silent
// logger) with scripted subscriber/publisher actors, driven one step at a time. Every step is
// acknowledged and followed by a quiescence protocol that is event-driven, not timed:
//
//	1. barrier: a helper actor publishes a token on a private topic and waits for it — the token
//	   travels through the subscription actor's FIFO mailbox, so every request enqueued before it
//	   (subscribe / unsubscribe / publish of the step) has been processed, i.e. every fan-out of the
//	   step sits in the subscribers' mailboxes;
//	2. flush: every living scripted actor answers a user-level "flush" message — its mailbox is FIFO,
//	   so every publication delivered before has been handled.
//
// Hence the order of the requests at the subscription actor is the order of the op lines, the whole run
// is a deterministic function of the op lines, and the per-step observation (result of the step + who
// handled which payload from which sender in which incarnation + dead letters carrying a payload) is
// compared line by line with the compiled Lean model MV.Model.PubSub (oracle suite `pubsub`).
//
//	spawn <a> [<t> | T.<t> | D.<t> ...]   a scripted actor; every incarnation subscribes the topics <t> in
//	                        OnLaunch, the topics T.<t> in its OnTerminate handler and the topics D.<t> in the
//	                        handler of its own OnTerminated (both run when it terminates AND when it restarts)
//	sub <a> <t>             ctx.Subscribe(t) inside a's handler ("-" = empty topic: panics by design)
//	unsub <a> <id>          ctx.UnSubscribe(handle of subscription <id>) inside a's handler (any issued id)
//	pub <a|sys> <t> <p>     ctx.Publish / system.Publish of payload <p>
//	restart <a>             a's handler panics; OneForOne(-1, 1ms, 2ms, restart)
//	term <a> | termg <a>    system.Terminate(ref, false | true)
//
// Output: `<result> [<actor>:[<inc>.<payload><<sender> ...] ...] [dead:[<payload>><receiver><<sender> ...]]`.

import (
	"bufio"
	"fmt"
	"os"
	"sort"
	"strconv"
	"strings"
	"sync"
	"sync/atomic"
	"time"

	"github.com/kercylan98/minotaur/engine/prc"
	"github.com/kercylan98/minotaur/engine/vivid"
	"github.com/kercylan98/minotaur/engine/vivid/supervision"
	"github.com/kercylan98/minotaur/toolkit/log"
	"verifharness/internal/proto"
)

// pubMsg is a publication payload that the shared codec cannot encode (local fan-out only).
type pubMsg struct{ id int }

type syncToken struct{ n int64 }

type actCmd struct {
	kind   string // sub unsub pub flush panic sync
	topic  string
	pid    int
	handle vivid.Subscription
	done   chan string
}

// hardCap bounds every wait; it is generous because the sandbox may run many checks at once. A wait that
// exceeds it taints the case (all further outputs are `-`), it is never turned into a verdict.
const hardCap = 20 * time.Second

type delivery struct {
	inc    int
	pid    int
	sender string
}

type sActor struct {
	name      string
	ref       vivid.ActorRef
	auto      []string
	hookT     []string // subscribed in the OnTerminate handler
	hookD     []string // subscribed in the handler of the actor's own OnTerminated
	hookIDs   []uint64 // ids issued to the hooks since the last report (guarded by mu)
	inc       atomic.Int64
	launched  chan launchInfo
	termed    chan struct{}
	dead      bool
	mu        sync.Mutex
	got       []delivery
	termCount atomic.Int64
}

type launchInfo struct {
	inc int
	ids []uint64
	bad bool
}

type world struct {
	node    int    // 0: a single local system; 1, 2: the nodes of the shared suite
	group   *group // the linked systems (nil for a single system)
	sys     *vivid.ActorSystem
	actors  map[string]*sActor
	order   []string
	byAddr  map[string]string // logical address -> name
	handles map[uint64]vivid.Subscription
	helper  vivid.ActorRef
	syncCh  chan int64
	syncN   int64
	abyss   *recAbyss
	tainted atomic.Bool
	closing atomic.Bool // the system is being shut down: lifecycle hooks no longer subscribe
	mu      sync.Mutex
}

// recAbyss records dead letters that carry a publication payload and delegates to the shipped abyss.
type recAbyss struct {
	inner vivid.AbyssProcess
	w     *world
	mu    sync.Mutex
	dead  []string
}

func (a *recAbyss) OnInitialize(system *vivid.ActorSystem)                 { a.inner.OnInitialize(system) }
func (a *recAbyss) Initialize(rc *prc.ResourceController, id *prc.ProcessId) { a.inner.Initialize(rc, id) }
func (a *recAbyss) IsTerminated() bool                                       { return a.inner.IsTerminated() }
func (a *recAbyss) Terminate(source *prc.ProcessId)                          { a.inner.Terminate(source) }
func (a *recAbyss) DeliveryUserMessage(receiver, sender, forward *prc.ProcessId, message prc.Message) {
	m := message
	if w, ok := message.(*prc.MessageWrapper); ok {
		m = w.Message
	}
	if id, ok := payloadID(m); ok {
		a.mu.Lock()
		a.dead = append(a.dead, fmt.Sprintf("%d>%s<%s", id, a.w.nameOf(receiver), a.w.nameOf(sender)))
		a.mu.Unlock()
	}
	a.inner.DeliveryUserMessage(receiver, sender, forward, message)
}
func (a *recAbyss) DeliverySystemMessage(receiver, sender, forward *prc.ProcessId, message prc.Message) {
	a.inner.DeliverySystemMessage(receiver, sender, forward, message)
}
func (a *recAbyss) take() []string {
	a.mu.Lock()
	d := a.dead
	a.dead = nil
	a.mu.Unlock()
	sort.Strings(d)
	return d
}

func payloadID(m any) (int, bool) {
	switch p := m.(type) {
	case *pubMsg:
		return p.id, true
	case *prc.ProcessId:
		return encPayloadID(p)
	}
	return 0, false
}

// encodable payloads (the shared codec takes protobuf messages): a ProcessId whose logical address
// carries the payload id.
func encPayload(id int) *prc.ProcessId { return prc.NewProcessId("payload", "/p/"+strconv.Itoa(id)) }
func encPayloadID(p *prc.ProcessId) (int, bool) {
	if p == nil || p.GetPhysicalAddress() != "payload" {
		return 0, false
	}
	v, err := strconv.Atoi(strings.TrimPrefix(p.GetLogicalAddress(), "/p/"))
	return v, err == nil
}

func (w *world) nameOf(ref *prc.ProcessId) string {
	if ref == nil {
		return "nil"
	}
	key := ref.GetPhysicalAddress() + ref.GetLogicalAddress()
	worlds := []*world{w}
	if w.group != nil {
		worlds = w.group.worlds
	}
	for _, x := range worlds {
		x.mu.Lock()
		n, ok := x.byAddr[key]
		x.mu.Unlock()
		if ok {
			return n
		}
	}
	return "?" + ref.GetLogicalAddress()
}

func (w *world) register(ref *prc.ProcessId, name string) {
	if w.node > 0 {
		name += "@" + strconv.Itoa(w.node)
	}
	w.mu.Lock()
	w.byAddr[ref.GetPhysicalAddress()+ref.GetLogicalAddress()] = name
	w.mu.Unlock()
}

func silentSystem(extra func(c *vivid.ActorSystemConfiguration)) *vivid.ActorSystem {
	logger := log.NewSilentLogger()
	return vivid.NewActorSystem(vivid.FunctionalActorSystemConfigurator(func(c *vivid.ActorSystemConfiguration) {
		c.WithLoggerProvider(log.FunctionalLoggerProvider(func() *log.Logger { return logger }))
		if extra != nil {
			extra(c)
		}
	}))
}

const syncTopic = "verif_sync"

func newWorld(extra func(c *vivid.ActorSystemConfiguration), sysName string, node int, g *group) *world {
	w := &world{node: node, group: g, actors: map[string]*sActor{}, byAddr: map[string]string{}, handles: map[uint64]vivid.Subscription{}, syncCh: make(chan int64, 16)}
	w.abyss = &recAbyss{inner: vivid.VerifNewAbyss(), w: w}
	w.sys = silentSystem(func(c *vivid.ActorSystemConfiguration) {
		c.WithAbyss(w.abyss)
		if extra != nil {
			extra(c)
		}
	})
	w.register(vivid.VerifGuardRef(w.sys), sysName)
	w.register(vivid.VerifSubscriptionRef(w.sys), "subactor")
	ready := make(chan struct{})
	w.helper = w.sys.ActorOfF(func() vivid.Actor {
		return vivid.FunctionalActor(func(ctx vivid.ActorContext) {
			switch m := ctx.Message().(type) {
			case *vivid.OnLaunch:
				ctx.Subscribe(syncTopic) // subscription id 1 of every case
				close(ready)
			case *actCmd:
				if m.kind == "rsync" {
					ctx.Publish(syncTopic, encToken(w.node, m.pid)) // encodable: crosses the link
				} else {
					ctx.Publish(syncTopic, &syncToken{int64(m.pid)})
				}
			case *syncToken:
				w.syncCh <- m.n
			case *prc.ProcessId:
				if from, n, ok := decToken(m); ok && w.group != nil {
					w.group.remoteTok(from, w.node, n)
				}
			}
		})
	}, func(d *vivid.ActorDescriptor) { d.WithName("verif-helper") })
	w.register(w.helper, "helper")
	select {
	case <-ready:
	case <-time.After(hardCap):
		w.tainted.Store(true)
	}
	return w
}

// barrier: one round trip through the subscription actor's mailbox.
func (w *world) barrier() {
	if w.tainted.Load() {
		return
	}
	w.syncN++
	w.sys.Tell(w.helper, &actCmd{kind: "sync", pid: int(w.syncN)})
	deadline := time.After(hardCap)
	for {
		select {
		case n := <-w.syncCh:
			if n == w.syncN {
				return
			}
		case <-deadline:
			w.tainted.Store(true)
			return
		}
	}
}

func (w *world) spawn(name string, auto, hookT, hookD []string) *sActor {
	a := &sActor{name: name, auto: auto, hookT: hookT, hookD: hookD, launched: make(chan launchInfo, 64), termed: make(chan struct{}, 8)}
	ref := w.sys.ActorOfF(func() vivid.Actor {
		inc := int(a.inc.Add(1))
		return vivid.FunctionalActor(func(ctx vivid.ActorContext) { w.handle(a, inc, ctx) })
	}, func(d *vivid.ActorDescriptor) {
		d.WithName(name)
		d.WithSupervisionStrategyProvider(restartAlways())
	})
	a.ref = ref
	w.register(ref, name)
	w.actors[name] = a
	w.order = append(w.order, name)
	sort.Strings(w.order)
	return a
}

// restartAlways: a failing actor is restarted after 1–2 ms, as often as it fails.
func restartAlways() supervision.StrategyProvider {
	return supervision.FunctionalStrategyProvider(func() supervision.Strategy {
		return supervision.OneForOne(-1, time.Millisecond, 2*time.Millisecond, supervision.FunctionalDecide(func(record *supervision.AccidentRecord) supervision.Directive {
			return supervision.DirectiveRestart
		}))
	})
}

func (w *world) handle(a *sActor, inc int, ctx vivid.ActorContext) {
	switch m := ctx.Message().(type) {
	case *vivid.OnLaunch:
		li := launchInfo{inc: inc}
		func() {
			defer func() {
				if r := recover(); r != nil {
					li.bad = true
				}
			}()
			for _, t := range a.auto {
				s := ctx.Subscribe(t)
				w.mu.Lock()
				w.handles[s.SubscriptionId()] = s
				w.mu.Unlock()
				li.ids = append(li.ids, s.SubscriptionId())
			}
		}()
		a.launched <- li
	case *vivid.OnTerminate:
		w.hookSubscribe(a, ctx, a.hookT)
	case *vivid.OnTerminated:
		if m.TerminatedActor.Equal(ctx.Ref()) {
			w.hookSubscribe(a, ctx, a.hookD)
			a.termCount.Add(1)
			select {
			case a.termed <- struct{}{}:
			default:
			}
		}
	case *actCmd:
		w.exec(a, ctx, m)
	default:
		if id, ok := payloadID(m); ok {
			d := delivery{inc: inc, pid: id, sender: w.nameOf(ctx.Sender())}
			a.mu.Lock()
			a.got = append(a.got, d)
			a.mu.Unlock()
		}
	}
}

// hookSubscribe: Subscribe calls inside a lifecycle handler; a failing call must not take the handler down.
func (w *world) hookSubscribe(a *sActor, ctx vivid.ActorContext, topics []string) {
	if w.closing.Load() {
		return // the subscription actor may be gone already: Subscribe would wait for its 1 s timeout
	}
	defer func() {
		if r := recover(); r != nil {
			w.tainted.Store(true)
		}
	}()
	for _, t := range topics {
		s := ctx.Subscribe(t)
		w.mu.Lock()
		w.handles[s.SubscriptionId()] = s
		w.mu.Unlock()
		a.mu.Lock()
		a.hookIDs = append(a.hookIDs, s.SubscriptionId())
		a.mu.Unlock()
	}
}

func (a *sActor) takeHookIDs() []uint64 {
	a.mu.Lock()
	ids := a.hookIDs
	a.hookIDs = nil
	a.mu.Unlock()
	return ids
}

func (w *world) exec(a *sActor, ctx vivid.ActorContext, m *actCmd) {
	switch m.kind {
	case "flush":
		m.done <- "ok"
	case "sub":
		acked := false
		defer func() {
			if r := recover(); r != nil && !acked {
				if m.topic == "" {
					m.done <- "panic"
				} else {
					m.done <- "stall" // the ask timed out (1 s): the machine is overloaded, not a verdict
				}
				panic(r)
			}
		}()
		s := ctx.Subscribe(m.topic)
		w.mu.Lock()
		w.handles[s.SubscriptionId()] = s
		w.mu.Unlock()
		acked = true
		m.done <- strconv.FormatUint(s.SubscriptionId(), 10)
	case "unsub":
		ctx.UnSubscribe(m.handle)
		m.done <- "ok"
	case "pub":
		ctx.Publish(m.topic, &pubMsg{m.pid})
		m.done <- "ok"
	case "pube":
		ctx.Publish(m.topic, encPayload(m.pid))
		m.done <- "ok"
	case "panic":
		m.done <- "ok"
		panic("scripted failure")
	}
}

func (w *world) ask(a *sActor, c *actCmd) string {
	c.done = make(chan string, 1)
	w.sys.Tell(a.ref, c)
	select {
	case r := <-c.done:
		return r
	case <-time.After(hardCap):
		w.tainted.Store(true)
		return "-"
	}
}

func (w *world) awaitLaunch(a *sActor) (launchInfo, bool) {
	select {
	case li := <-a.launched:
		if li.bad {
			w.tainted.Store(true) // a Subscribe in OnLaunch ran into its timeout: not a verdict
		}
		return li, true
	case <-time.After(hardCap):
		w.tainted.Store(true)
		return launchInfo{}, false
	}
}

func (w *world) awaitTerminated(a *sActor) {
	select {
	case <-a.termed:
	case <-time.After(hardCap):
		w.tainted.Store(true)
		return
	}
	deadline := time.Now().Add(hardCap)
	for vivid.VerifIsRegistered(w.sys, a.ref) {
		if time.Now().After(deadline) {
			w.tainted.Store(true)
			return
		}
		time.Sleep(50 * time.Microsecond)
	}
}

// quiesce = barrier + flush of every living scripted actor; returns the observation of the step.
func (w *world) quiesce() string {
	if w.group != nil {
		return w.group.quiesce()
	}
	w.barrier()
	w.flushAll()
	return w.observe()
}

func (w *world) flushAll() {
	for _, n := range w.order {
		a := w.actors[n]
		if a.dead || w.tainted.Load() {
			continue
		}
		w.ask(a, &actCmd{kind: "flush"})
	}
}

func (w *world) observe() string {
	var parts []string
	for _, n := range w.order {
		a := w.actors[n]
		a.mu.Lock()
		got := a.got
		a.got = nil
		a.mu.Unlock()
		if len(got) == 0 {
			continue
		}
		var sb strings.Builder
		if w.node > 0 {
			n += "@" + strconv.Itoa(w.node)
		}
		sb.WriteString(n + ":[")
		for i, d := range got {
			if i > 0 {
				sb.WriteByte(' ')
			}
			fmt.Fprintf(&sb, "%d.%d<%s", d.inc, d.pid, d.sender)
		}
		sb.WriteString("]")
		parts = append(parts, sb.String())
	}
	if w.group != nil {
		return strings.Join(parts, " ") // the group prints the dead letters of all nodes
	}
	if d := w.abyss.take(); len(d) > 0 {
		parts = append(parts, "dead:["+strings.Join(d, " ")+"]")
	}
	return strings.Join(parts, " ")
}

func fmtIDs(ids []uint64) string {
	var s []string
	for _, i := range ids {
		s = append(s, strconv.FormatUint(i, 10))
	}
	return "[" + strings.Join(s, " ") + "]"
}

func (w *world) shutdown() {
	if w == nil || w.sys == nil {
		return
	}
	w.closing.Store(true)
	done := make(chan struct{})
	sys := w.sys
	go func() {
		defer func() { recover() }()
		sys.Shutdown(false)
		close(done)
	}()
	select {
	case <-done:
	case <-time.After(2 * time.Second):
	}
}

// natTok: 1..9 decimal digits, nothing else (the oracle parses the same language).
func natTok(s string) (int, bool) {
	if len(s) == 0 || len(s) > 9 {
		return 0, false
	}
	for _, c := range s {
		if c < '0' || c > '9' {
			return 0, false
		}
	}
	v, err := strconv.Atoi(s)
	return v, err == nil
}

func validTopic(t string) (string, bool) {
	if t == "-" {
		return "", true
	}
	if len(t) >= 2 && t[0] == 't' {
		if n, ok := natTok(t[1:]); ok {
			if n == 0 {
				return "", true // t0 is the oracle's code of the empty topic
			}
			return "t" + strconv.Itoa(n), true
		}
	}
	return "", false
}

func validActor(n string) bool {
	if len(n) < 2 || n[0] != 'a' {
		return false
	}
	_, ok := natTok(n[1:])
	return ok
}

// canonical actor name (a007 and a7 denote the same actor, as in the oracle)
func actorName(n string) string {
	v, _ := natTok(n[1:])
	return "a" + strconv.Itoa(v)
}

type serialRunner struct{ w *world }

func (r *serialRunner) Reset() {
	t0 := time.Now()
	r.w.shutdown()
	t1 := time.Now()
	r.w = newWorld(nil, "sys", 0, nil)
	if d := time.Since(t0); d > 200*time.Millisecond && os.Getenv("C10_TIMING") != "" {
		fmt.Fprintf(os.Stderr, "slow reset: shutdown %v newWorld %v\n", t1.Sub(t0), time.Since(t1))
	}
}

func join(res, obs string) string {
	if obs == "" {
		return res
	}
	return res + " " + obs
}

func (r *serialRunner) Step(t []string) string {
	if r.w == nil {
		r.w = newWorld(nil, "sys", 0, nil)
	}
	w := r.w
	out := w.step(t)
	if w.tainted.Load() && out != "bad-op" {
		return "-"
	}
	return out
}

func (w *world) step(t []string) string {
	if w.tainted.Load() {
		return "-"
	}
	if len(t) >= 2 && validActor(t[1]) {
		t = append([]string{t[0], actorName(t[1])}, t[2:]...)
	}
	switch t[0] {
	case "spawn":
		if len(t) < 2 || !validActor(t[1]) {
			return "bad-op"
		}
		var auto, hookT, hookD []string
		for _, x := range t[2:] {
			kind := ""
			if strings.HasPrefix(x, "T.") || strings.HasPrefix(x, "D.") {
				kind, x = x[:1], x[2:]
			}
			tp, ok := validTopic(x)
			if !ok || tp == "" {
				return "bad-op"
			}
			switch kind {
			case "T":
				hookT = append(hookT, tp)
			case "D":
				hookD = append(hookD, tp)
			default:
				auto = append(auto, tp)
			}
		}
		if _, ok := w.actors[t[1]]; ok {
			return "exists"
		}
		a := w.spawn(t[1], auto, hookT, hookD)
		li, _ := w.awaitLaunch(a)
		return join("ok "+fmtIDs(li.ids), w.quiesce())
	case "sub":
		if len(t) != 3 || !validActor(t[1]) {
			return "bad-op"
		}
		tp, ok := validTopic(t[2])
		if !ok {
			return "bad-op"
		}
		a, ok := w.actors[t[1]]
		if !ok {
			return "none"
		}
		if a.dead {
			return "dead"
		}
		res := w.ask(a, &actCmd{kind: "sub", topic: tp})
		switch res {
		case "stall":
			w.tainted.Store(true)
			return "-"
		case "panic":
			li, _ := w.awaitLaunch(a)
			return join("panic "+fmtIDs(append(a.takeHookIDs(), li.ids...)), w.quiesce())
		}
		return join(res, w.quiesce())
	case "unsub":
		if len(t) != 3 || !validActor(t[1]) {
			return "bad-op"
		}
		idn, okid := natTok(t[2])
		if !okid {
			return "bad-op"
		}
		id := uint64(idn)
		a, ok := w.actors[t[1]]
		if !ok {
			return "none"
		}
		if a.dead {
			return "dead"
		}
		w.mu.Lock()
		h, ok := w.handles[id]
		w.mu.Unlock()
		if !ok {
			return "noid"
		}
		return join(w.ask(a, &actCmd{kind: "unsub", handle: h}), w.quiesce())
	case "pub", "pube":
		if len(t) != 4 {
			return "bad-op"
		}
		tp, ok := validTopic(t[2])
		pid, ok2 := natTok(t[3])
		if !ok || !ok2 {
			return "bad-op"
		}
		if t[1] == "sys" {
			if t[0] == "pube" {
				w.sys.Publish(tp, encPayload(pid))
			} else {
				w.sys.Publish(tp, &pubMsg{pid})
			}
			return join("ok", w.quiesce())
		}
		if !validActor(t[1]) {
			return "bad-op"
		}
		a, ok := w.actors[t[1]]
		if !ok {
			return "none"
		}
		if a.dead {
			return "dead"
		}
		return join(w.ask(a, &actCmd{kind: t[0], topic: tp, pid: pid}), w.quiesce())
	case "restart":
		if len(t) != 2 || !validActor(t[1]) {
			return "bad-op"
		}
		a, ok := w.actors[t[1]]
		if !ok {
			return "none"
		}
		if a.dead {
			return "dead"
		}
		w.ask(a, &actCmd{kind: "panic"})
		li, _ := w.awaitLaunch(a)
		return join("ok "+fmtIDs(append(a.takeHookIDs(), li.ids...)), w.quiesce())
	case "term", "termg":
		if len(t) != 2 || !validActor(t[1]) {
			return "bad-op"
		}
		a, ok := w.actors[t[1]]
		if !ok {
			return "none"
		}
		if a.dead {
			return "dead"
		}
		w.sys.Terminate(a.ref, t[0] == "termg")
		w.awaitTerminated(a)
		a.dead = true
		return join("ok "+fmtIDs(a.takeHookIDs()), w.quiesce())
	}
	return "bad-op"
}

// ---------------------------------------------------------------- generator

var serialActors = []string{"a0", "a1", "a2", "a3", "a4"}
var serialTopics = []string{"t1", "t2", "t3"}

type caseWriter struct {
	w       *bufio.Writer
	n       int
	shard   int
	nshards int
}

func (c *caseWriter) emit(lines []string) {
	if c.n%c.nshards == c.shard {
		fmt.Fprintf(c.w, "# case %d\n", c.n)
		for _, l := range lines {
			fmt.Fprintln(c.w, l)
		}
	}
	c.n++
}

// exhaustive small sweep: two actors (a0 spawned plain, a1 auto-subscribing t1), two topics, every
// sequence of `depth` steps over the alphabet below. Subscription ids: 1 = helper, 2 = a1's auto
// subscription, then in order of issue.
func serialAlphabet() []string {
	return []string{
		"sub a0 t1", "sub a0 t2", "sub a1 t1",
		"unsub a0 3", "unsub a0 2", "unsub a1 4",
		"pub a0 t1 %d", "pub a1 t1 %d", "pub sys t2 %d", "pub a1 t2 %d",
		"restart a0", "restart a1", "term a0", "termg a1",
	}
}

func serialSweep(cw *caseWriter, depth int, hooks bool) {
	alpha := serialAlphabet()
	idx := make([]int, depth)
	for {
		lines := []string{"spawn a0", "spawn a1 t1"}
		if hooks {
			// the same alphabet over actors that subscribe inside their OnTerminate / OnTerminated handlers
			lines = []string{"spawn a0 T.t2 D.t1", "spawn a1 t1 D.t1"}
		}
		for k, i := range idx {
			l := alpha[i]
			if strings.Contains(l, "%d") {
				l = fmt.Sprintf(l, 10+k)
			}
			lines = append(lines, l)
		}
		// every sweep case ends with one publication per topic so that the final subscription state is observed
		lines = append(lines, "pub sys t1 98", "pub sys t2 99")
		cw.emit(lines)
		k := depth - 1
		for k >= 0 {
			idx[k]++
			if idx[k] < len(alpha) {
				break
			}
			idx[k] = 0
			k--
		}
		if k < 0 {
			return
		}
	}
}

func serialRandom(rng *proto.RNG, cw *caseWriter, cases, maxLen int) {
	for c := 0; c < cases; c++ {
		na := rng.Range(1, 5)
		nt := rng.Range(1, 3)
		var lines []string
		alive := map[string]bool{}
		nextID := 2
		var issued []int
		for i := 0; i < na; i++ {
			l := "spawn " + serialActors[i]
			if rng.Intn(3) == 0 {
				k := rng.Range(1, 2)
				for j := 0; j < k; j++ {
					l += " " + serialTopics[rng.Intn(nt)]
					issued = append(issued, nextID)
					nextID++
				}
			}
			if rng.Intn(5) == 0 {
				l += " T." + serialTopics[rng.Intn(nt)]
			}
			if rng.Intn(5) == 0 {
				l += " D." + serialTopics[rng.Intn(nt)]
			}
			lines = append(lines, l)
			alive[serialActors[i]] = true
		}
		n := rng.Range(3, maxLen)
		pid := 1
		for i := 0; i < n; i++ {
			a := serialActors[rng.Intn(na)]
			t := serialTopics[rng.Intn(nt)]
			switch rng.Pick(30, 14, 40, 6, 4, 2, 4) {
			case 0:
				lines = append(lines, fmt.Sprintf("sub %s %s", a, t))
				issued = append(issued, nextID) // approximate (auto subscriptions after a restart shift the ids); only a hint
				nextID++
			case 1:
				id := rng.Range(1, nextID+1)
				if len(issued) > 0 && rng.Intn(4) != 0 {
					id = issued[rng.Intn(len(issued))]
				}
				lines = append(lines, fmt.Sprintf("unsub %s %d", a, id))
			case 2:
				p := a
				if rng.Intn(6) == 0 {
					p = "sys"
				}
				lines = append(lines, fmt.Sprintf("pub %s %s %d", p, t, pid))
				pid++
			case 3:
				lines = append(lines, "restart "+a)
				nextID += 2
			case 4:
				if rng.Bool() {
					lines = append(lines, "term "+a)
				} else {
					lines = append(lines, "termg "+a)
				}
			case 5:
				lines = append(lines, fmt.Sprintf("sub %s -", a))
			case 6:
				lines = append(lines, fmt.Sprintf("pube %s %s %d", a, t, pid))
				pid++
			}
		}
		for i := 0; i < nt; i++ {
			lines = append(lines, fmt.Sprintf("pub sys %s %d", serialTopics[i], 900+i))
		}
		cw.emit(lines)
	}
}

func serialMalformed(rng *proto.RNG, cw *caseWriter, cases int) {
	bad := []string{"spawn a4 T.", "spawn a4 T.-", "spawn a4 D.x", "spawn a4 X.t1", "sub", "sub a0", "sub a0 x1", "sub b0 t1", "unsub a0 x", "unsub a0 -1", "pub a0 t1", "pub a0 t1 x", "pub a0 t1 -4",
		"restart", "term a0 a1", "spawn", "spawn x", "spawn a0 -", "frobnicate a0", "pub q t1 3", "spawn a0 t"}
	for c := 0; c < cases; c++ {
		lines := []string{"spawn a0", "spawn a1 t1"}
		for i := 0; i < 8; i++ {
			switch rng.Intn(8) {
			case 0:
				lines = append(lines, bad[rng.Intn(len(bad))])
			case 1:
				lines = append(lines, "sub a3 t1") // never spawned
			case 2:
				lines = append(lines, fmt.Sprintf("unsub a%d %d", rng.Intn(2), rng.Range(0, 9))) // unknown / foreign / stale ids
			case 3:
				lines = append(lines, "spawn a1 t2") // exists
			case 4:
				lines = append(lines, "term a0")
			case 5:
				lines = append(lines, fmt.Sprintf("pub a%d t%d %d", rng.Intn(3), rng.Range(1, 4), i))
			case 6:
				lines = append(lines, fmt.Sprintf("sub a%d t%d", rng.Intn(2), rng.Range(1, 2)))
			case 7:
				lines = append(lines, fmt.Sprintf("sub a%d -", rng.Intn(2)))
			}
		}
		lines = append(lines, "pub sys t1 98", "pub sys t2 99")
		cw.emit(lines)
	}
}

func serialGen(rng *proto.RNG, tier string, shard, nshards int, w *bufio.Writer) {
	cw := &caseWriter{w: w, shard: shard, nshards: nshards}
	if tier == "thorough" {
		serialSweep(cw, 4, false)
		serialSweep(cw, 3, true)
		serialRandom(rng, cw, 20000, 40)
		serialMalformed(rng, cw, 1000)
	} else {
		serialSweep(cw, 3, false)
		serialSweep(cw, 2, true)
		serialRandom(rng, cw, 5000, 24)
		serialMalformed(rng, cw, 300)
	}
}

func init() {
	proto.Register(&proto.Suite{Name: "pubsub", Gen: serialGen, New: func() proto.Runner { return &serialRunner{} }})
}
