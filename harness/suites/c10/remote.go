package c10

// Suite `pubsub-remote` (T-diff, exact): TWO real actor systems in this process, each sharing its
// resource controller on an ephemeral loopback port (`WithShared("127.0.0.1:0")`, real gRPC streams),
// linked the way engine/vivid/subscription_test.go links them (one message from node 2 to node 1's
// guard opens the stream; the share-opened hooks of both sides tell their subscription actors about the
// peer). The op lines of suite `pubsub` are prefixed with the node (1 | 2); `link` establishes the link.
//
// Quiescence stays event-driven: after the local barriers (see pubsub.go) every node's helper publishes
// an *encodable* token on the private topic; it is broadcast like any other encodable publication, i.e.
// it travels subscription actor → stream process → gRPC stream → receiver loop → remote subscription
// actor → remote helper behind every earlier broadcast of that node (all of these are FIFO), so its
// arrival means that every earlier publication has been fanned out on the other node too. Then every
// living actor of both nodes is flushed. The observation is compared with the two-node Lean model
// (two `Sys`, each one's `link` output injected into the other's subscription actor in order).

import (
	"bufio"
	"fmt"
	"sort"
	"strconv"
	"strings"
	"time"

	"github.com/kercylan98/minotaur/engine/prc"
	"github.com/kercylan98/minotaur/engine/vivid"
	"verifharness/internal/proto"
)

type tok struct{ from, to, n int }

// contactProvider is a SubscriptionContactProvider driven by the harness: it announces nodes the way
// the cluster's memberlist delegate does (NotifyJoin is also called for the local node).
type contactProvider struct {
	ch chan *vivid.SubscriptionContactEvent
}

func (p *contactProvider) ChangeNotify() <-chan *vivid.SubscriptionContactEvent { return p.ch }

// announce hands the event to the subscription actor's listener goroutine and returns once the
// subscription actor has answered it: the listener takes the next event only after
// FutureAsk(...).Wait() of the previous one returned, so a second, identical (idempotent) event is
// accepted only then.
func (p *contactProvider) announce(ev *vivid.SubscriptionContactEvent) bool {
	for i := 0; i < 2; i++ {
		cp := *ev
		select {
		case p.ch <- &cp:
		case <-time.After(hardCap):
			return false
		}
	}
	return true
}

type group struct {
	worlds  []*world
	provs   []*contactProvider
	open    [3][3]bool // open[n][m]: node n's subscription actor lists node m
	linked  bool
	tokCh   chan tok
	tokN    int
	tainted bool
}

func encToken(from, n int) *prc.ProcessId {
	return prc.NewProcessId("token", "/"+strconv.Itoa(from)+"/"+strconv.Itoa(n))
}

func decToken(p *prc.ProcessId) (from, n int, ok bool) {
	if p == nil || p.GetPhysicalAddress() != "token" {
		return 0, 0, false
	}
	f := strings.Split(p.GetLogicalAddress(), "/")
	if len(f) != 3 {
		return 0, 0, false
	}
	a, e1 := strconv.Atoi(f[1])
	b, e2 := strconv.Atoi(f[2])
	return a, b, e1 == nil && e2 == nil
}

func (g *group) remoteTok(from, to, n int) {
	if from == to {
		return
	}
	select {
	case g.tokCh <- tok{from, to, n}:
	default:
	}
}

func newGroup() *group {
	g := &group{tokCh: make(chan tok, 256)}
	for node := 1; node <= 2; node++ {
		p := &contactProvider{ch: make(chan *vivid.SubscriptionContactEvent)}
		w := newWorld(func(c *vivid.ActorSystemConfiguration) {
			c.WithShared("127.0.0.1:0")
			c.WithSubscriptionContactProviders(p)
		}, "sys", node, g)
		g.worlds = append(g.worlds, w)
		g.provs = append(g.provs, p)
	}
	return g
}

func (g *group) isTainted() bool {
	if g.tainted {
		return true
	}
	for _, w := range g.worlds {
		if w.tainted.Load() {
			g.tainted = true
		}
	}
	return g.tainted
}

// crossOnce publishes one encodable token on node `from` and waits up to `limit` for its arrival at
// the other node's helper.
func (g *group) crossOnce(from *world, limit time.Duration) bool {
	g.tokN++
	n := g.tokN
	from.sys.Tell(from.helper, &actCmd{kind: "rsync", pid: n})
	deadline := time.After(limit)
	for {
		select {
		case t := <-g.tokCh:
			if t.from == from.node && t.n == n {
				return true
			}
		case <-deadline:
			return false
		}
	}
}

func (g *group) link() {
	w1, w2 := g.worlds[0], g.worlds[1]
	// as in TestSharedSubscription: any encodable message to the other node's guard opens the stream
	w2.sys.Tell(vivid.VerifGuardRef(w1.sys).Clone(), encPayload(0))
	start := time.Now()
	for _, w := range g.worlds {
		for !g.crossOnce(w, 5*time.Millisecond) {
			if time.Since(start) > hardCap {
				g.tainted = true
				return
			}
		}
	}
	g.linked = true
	g.open[1][2], g.open[2][1] = true, true
}

func (g *group) quiesce() string {
	for _, w := range g.worlds {
		w.barrier()
	}
	for _, w := range g.worlds {
		if g.isTainted() {
			break
		}
		if g.open[w.node][3-w.node] && !g.crossOnce(w, hardCap) {
			g.tainted = true
		}
	}
	for _, w := range g.worlds {
		if !g.isTainted() {
			w.flushAll()
		}
	}
	var parts []string
	var dead []string
	for _, w := range g.worlds {
		if o := w.observe(); o != "" {
			parts = append(parts, o)
		}
		dead = append(dead, w.abyss.take()...)
	}
	if len(dead) > 0 {
		sort.Strings(dead)
		parts = append(parts, "dead:["+strings.Join(dead, " ")+"]")
	}
	return strings.Join(parts, " ")
}

func (g *group) shutdown() {
	if g == nil {
		return
	}
	// closing two linked systems takes about a second (graceful stop of the gRPC servers): not waited for
	for _, w := range g.worlds {
		go w.shutdown()
	}
}

type remoteRunner struct{ g *group }

func (r *remoteRunner) Reset() {
	r.g.shutdown()
	r.g = newGroup()
}

func (r *remoteRunner) Step(t []string) string {
	if r.g == nil {
		r.g = newGroup()
	}
	g := r.g
	out := func() string {
		if g.isTainted() {
			return "-"
		}
		if len(t) == 1 && t[0] == "link" {
			if g.linked {
				return "linked"
			}
			g.link()
			return join("ok", g.quiesce())
		}
		if len(t) < 2 || (t[0] != "1" && t[0] != "2") {
			return "bad-op"
		}
		w := g.worlds[int(t[0][0]-'1')]
		if t[1] == "announce" || t[1] == "leave" {
			// the contact provider of node n reports that node m joined / left (m = n: the local node,
			// as memberlist does when the cluster node starts)
			if len(t) != 3 || (t[2] != "1" && t[2] != "2") {
				return "bad-op"
			}
			m := int(t[2][0] - '0')
			if m != w.node && !g.linked {
				return "unlinked" // a peer is only announced once the link is up (keeps the quiescence protocol simple)
			}
			ev := &vivid.SubscriptionContactEvent{Address: g.worlds[m-1].sys.PhysicalAddress(), Stop: t[1] == "leave"}
			if !g.provs[w.node-1].announce(ev) {
				g.tainted = true
				return "-"
			}
			g.open[w.node][m] = t[1] == "announce"
			return join("ok", g.quiesce())
		}
		return w.step(t[1:])
	}()
	if g.isTainted() && out != "bad-op" {
		return "-"
	}
	return out
}

// ---------------------------------------------------------------- generator

func remoteRandom(rng *proto.RNG, cw *caseWriter, cases, maxLen int) {
	for c := 0; c < cases; c++ {
		var lines []string
		na := rng.Range(1, 3)
		nt := rng.Range(1, 2)
		linkAt := 0
		if rng.Intn(4) == 0 {
			linkAt = rng.Range(1, 6) // some publications before the link is up stay local
		}
		nextID := [3]int{0, 2, 2}
		for node := 1; node <= 2; node++ {
			for i := 0; i < na; i++ {
				l := fmt.Sprintf("%d spawn %s", node, serialActors[i])
				if rng.Intn(2) == 0 {
					l += " " + serialTopics[rng.Intn(nt)]
					nextID[node]++
				}
				lines = append(lines, l)
			}
		}
		n := rng.Range(4, maxLen)
		pid := 1
		for i := 0; i < n; i++ {
			if i == linkAt {
				lines = append(lines, "link")
			}
			node := rng.Range(1, 2)
			a := serialActors[rng.Intn(na)]
			t := serialTopics[rng.Intn(nt)]
			switch rng.Pick(20, 8, 40, 12, 4, 4, 5) {
			case 6:
				op := "announce"
				if rng.Intn(4) == 0 {
					op = "leave"
				}
				lines = append(lines, fmt.Sprintf("%d %s %d", node, op, rng.Range(1, 2)))
			case 0:
				lines = append(lines, fmt.Sprintf("%d sub %s %s", node, a, t))
				nextID[node]++
			case 1:
				lines = append(lines, fmt.Sprintf("%d unsub %s %d", node, a, rng.Range(2, nextID[node])))
			case 2:
				p := a
				if rng.Intn(6) == 0 {
					p = "sys"
				}
				lines = append(lines, fmt.Sprintf("%d pube %s %s %d", node, p, t, pid))
				pid++
			case 3:
				lines = append(lines, fmt.Sprintf("%d pub %s %s %d", node, a, t, pid)) // not encodable: local only
				pid++
			case 4:
				lines = append(lines, fmt.Sprintf("%d restart %s", node, a))
				nextID[node]++
			case 5:
				lines = append(lines, fmt.Sprintf("%d term %s", node, a))
			}
		}
		for node := 1; node <= 2; node++ {
			for i := 0; i < nt; i++ {
				lines = append(lines, fmt.Sprintf("%d pube sys %s %d", node, serialTopics[i], 900+10*node+i))
			}
		}
		cw.emit(lines)
	}
}

func remoteFixed(cw *caseWriter) {
	cw.emit([]string{"1 spawn a0 t1", "2 spawn a0 t1", "2 spawn a1", "1 pube a0 t1 1", "link", "link", "1 pube a0 t1 2", "2 pube a1 t1 3",
		"1 pub a0 t1 4", "2 sub a1 t1", "2 sub a1 t1", "1 pube sys t1 5", "2 unsub a1 3", "1 pube a0 t1 6", "2 restart a0", "1 pube a0 t1 7",
		"2 term a0", "1 pube a0 t1 8", "1 term a0", "2 pube a1 t1 9", "3 sub a0 t1", "link a", "1"})
	// the local node is announced to its own subscription actor (cluster mode): still exactly once
	cw.emit([]string{"1 spawn a0 t1", "1 announce 1", "1 pube a0 t1 1", "1 pub a0 t1 2", "link", "2 spawn a0 t1", "2 announce 2", "1 pube a0 t1 3",
		"2 pube a0 t1 4", "1 leave 2", "1 pube a0 t1 5", "2 pube a0 t1 6", "1 announce 2", "1 pube a0 t1 7", "1 leave 1", "1 pube a0 t1 8",
		"1 announce 3", "1 announce", "2 leave x"})
	cw.emit([]string{"1 announce 2", "1 spawn a0 t1", "1 pube a0 t1 1"})
}

func remoteGen(rng *proto.RNG, tier string, shard, nshards int, w *bufio.Writer) {
	cw := &caseWriter{w: w, shard: shard, nshards: nshards}
	remoteFixed(cw)
	if tier == "thorough" {
		remoteRandom(rng, cw, 4000, 30)
	} else {
		remoteRandom(rng, cw, 600, 20)
	}
}

func init() {
	proto.Register(&proto.Suite{Name: "pubsub-remote", Gen: remoteGen, New: func() proto.Runner { return &remoteRunner{} }})
}
