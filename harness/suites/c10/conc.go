package c10

// Suite `pubsub-conc` (judged): the same real actor system, but NOTHING is serialised: 2–5 scripted
// actors execute their scripts (subscribe / unsubscribe / publish bursts / panic) concurrently on the
// shipped dispatcher while the harness publishes through the guard and terminates some of them from
// its own goroutines. The order in which the subscription actor sees the requests is then not known, so
// the run is *judged* with the Lean spec (MV.Spec.PubSub.judgeConc) instead of compared:
//
// every API call is bracketed by two reads of one logical clock (an atomic counter), which is sound
// for ordering at the subscription actor because its mailbox is a linearizable FIFO queue: a request is
// enqueued (Subscribe: enqueued and answered) between the two reads of its call. The trace printed is
//
//	S:<actor>:<topic>:<id>:<c1>:<c2>   Subscribe returned <id>
//	U:<actor>:<id>:<c1>:<c2>           UnSubscribe of the handle <id>
//	P:<publisher>:<topic>:<pid>:<c1>:<c2>   Publish (publisher 99 = the guard via system.Publish)
//	R:<actor>:<c1>:<c2>                the handler panicked at c1, the next incarnation launched at c2
//	T:<actor>:<c1>:<c2>                Terminate called at c1, OnTerminated seen at c2
//	D:<actor>:<incarnation>:<pid>:<sender>  handled (per actor in handling order)
//	X:<actor>:<pid>:<sender>           dead letter addressed to <actor>
//
// The judge derives, for every publication and subscriber, the number of subscriptions that MUST
// (subscribe returned before the publish began, no cancellation began before it returned) and MAY
// have been current, and demands lower <= handled + dead letters <= upper, sender = publisher,
// per (publisher, subscriber) publication order, unique ids. Waiting is event-driven (script acks,
// barrier through the subscription actor, flush of every living actor, drained mailboxes of the
// terminated ones) with a hard cap and a short grace period to catch late duplicates.
//
//	conc <seed> <actors> <topics> <steps> <terminations>

import (
	"bufio"
	"fmt"
	"sort"
	"strings"
	"sync"
	"sync/atomic"
	"time"

	"github.com/kercylan98/minotaur/engine/vivid"
	"github.com/kercylan98/minotaur/engine/vivid/mailbox"
	"verifharness/internal/proto"
)

type cCmd struct {
	kind  string // sub unsub pub panic flush
	topic string
	tno   int
	k     int // unsub: index into the actor's own handles
	pid   int
	done  chan struct{}
}

type cActor struct {
	idx      int
	ref      vivid.ActorRef
	mb       mailbox.Mailbox
	inc      atomic.Int64
	handles  []vivid.Subscription // written by the actor's own turns only
	panicAt  atomic.Int64
	termC1   int64
	termC2   int64
	killed   atomic.Bool // Terminate was called (it is dropped when it meets a restart in progress)
	dead     bool        // settle saw the actor unregistered
	mu       sync.Mutex
	events   []string
	got      []string
}

type concRun struct {
	stalled atomic.Bool // a Subscribe ran into its 1 s timeout (overloaded machine): the run is not judged
	w      *world
	clk    atomic.Int64
	actors []*cActor
	byKey  sync.Map // address key -> index
	hmu    sync.Mutex
	hev    []string // harness-side events
}

func (c *concRun) tick() int64 { return c.clk.Add(1) }

func (c *concRun) senderIdx(ref vivid.ActorRef) int {
	if ref == nil {
		return 98
	}
	if v, ok := c.byKey.Load(ref.GetPhysicalAddress() + ref.GetLogicalAddress()); ok {
		return v.(int)
	}
	return 97
}

func (a *cActor) ev(s string) {
	a.mu.Lock()
	a.events = append(a.events, s)
	a.mu.Unlock()
}

func (c *concRun) handle(a *cActor, inc int64, ctx vivid.ActorContext) {
	switch m := ctx.Message().(type) {
	case *vivid.OnLaunch:
		if c1 := a.panicAt.Swap(0); c1 != 0 {
			a.ev(fmt.Sprintf("R:%d:%d:%d", a.idx, c1, c.tick()))
		}
	case *cCmd:
		switch m.kind {
		case "flush":
			close(m.done)
		case "sub":
			c1 := c.tick()
			defer func() {
				if r := recover(); r != nil {
					c.stalled.Store(true)
					panic(r)
				}
			}()
			s := ctx.Subscribe(m.topic)
			c2 := c.tick()
			a.handles = append(a.handles, s)
			a.ev(fmt.Sprintf("S:%d:%d:%d:%d:%d", a.idx, m.tno, s.SubscriptionId(), c1, c2))
		case "unsub":
			if len(a.handles) == 0 {
				return
			}
			h := a.handles[m.k%len(a.handles)]
			c1 := c.tick()
			ctx.UnSubscribe(h)
			c2 := c.tick()
			a.ev(fmt.Sprintf("U:%d:%d:%d:%d", a.idx, h.SubscriptionId(), c1, c2))
		case "pub":
			c1 := c.tick()
			ctx.Publish(m.topic, &pubMsg{m.pid})
			c2 := c.tick()
			a.ev(fmt.Sprintf("P:%d:%d:%d:%d:%d", a.idx, m.tno, m.pid, c1, c2))
		case "panic":
			a.panicAt.Store(c.tick())
			panic("scripted failure")
		}
	case *pubMsg:
		s := fmt.Sprintf("D:%d:%d:%d:%d", a.idx, inc, m.id, c.senderIdx(ctx.Sender()))
		a.mu.Lock()
		a.got = append(a.got, s)
		a.mu.Unlock()
	}
}

type concRunner struct{}

func (concRunner) Reset() {}

func (concRunner) Step(t []string) string {
	if len(t) != 6 || t[0] != "conc" {
		return "bad-op"
	}
	var v [5]int
	for i := 0; i < 5; i++ {
		n, ok := natTok(t[i+1])
		if !ok {
			return "bad-op"
		}
		v[i] = n
	}
	seed, na, nt, steps, nterm := v[0], v[1], v[2], v[3], v[4]
	if na < 1 || na > 8 || nt < 1 || nt > 4 || steps < 1 || steps > 400 || nterm > na {
		return "bad-op"
	}
	return runConc(uint64(seed), na, nt, steps, nterm)
}

func runConc(seed uint64, na, nt, steps, nterm int) string {
	rng := proto.NewRNG(seed)
	c := &concRun{}
	c.w = newWorld(nil, "sys", 0, nil)
	defer func() { go c.w.shutdown() }()
	w := c.w
	if w.tainted.Load() {
		return "-"
	}
	c.byKey.Store(vivid.VerifGuardRef(w.sys).GetPhysicalAddress()+vivid.VerifGuardRef(w.sys).GetLogicalAddress(), 99)
	launched := make(chan struct{}, 64)
	for i := 0; i < na; i++ {
		a := &cActor{idx: i}
		first := true
		a.ref = w.sys.ActorOfF(func() vivid.Actor {
			inc := a.inc.Add(1)
			return vivid.FunctionalActor(func(ctx vivid.ActorContext) {
				if _, ok := ctx.Message().(*vivid.OnLaunch); ok && first {
					first = false
					launched <- struct{}{}
				}
				c.handle(a, inc, ctx)
			})
		}, func(d *vivid.ActorDescriptor) {
			d.WithName(fmt.Sprintf("c%d", i))
			d.WithSupervisionStrategyProvider(restartAlways())
		})
		a.mb = vivid.VerifMailboxOf(w.sys, a.ref)
		c.byKey.Store(a.ref.GetPhysicalAddress()+a.ref.GetLogicalAddress(), i)
		w.register(a.ref, fmt.Sprintf("c%d", i))
		c.actors = append(c.actors, a)
	}
	for i := 0; i < na; i++ {
		select {
		case <-launched:
		case <-time.After(hardCap):
			return "-"
		}
	}
	// scripts
	scripts := make([][]*cCmd, na)
	pseq := make([]int, na+1)
	for i := 0; i < na; i++ {
		n := rng.Range(steps/2+1, steps)
		for j := 0; j < n; j++ {
			tno := rng.Range(1, nt)
			topic := fmt.Sprintf("t%d", tno)
			switch rng.Pick(22, 10, 60, 3) {
			case 0:
				scripts[i] = append(scripts[i], &cCmd{kind: "sub", topic: topic, tno: tno})
			case 1:
				scripts[i] = append(scripts[i], &cCmd{kind: "unsub", k: rng.Intn(8)})
			case 2:
				burst := rng.Range(1, 4)
				for b := 0; b < burst; b++ {
					pseq[i]++
					scripts[i] = append(scripts[i], &cCmd{kind: "pub", topic: topic, tno: tno, pid: (i+1)*100000 + pseq[i]})
				}
			case 3:
				scripts[i] = append(scripts[i], &cCmd{kind: "panic"})
			}
		}
	}
	extPubs := rng.Range(0, steps)
	extTopics := make([]int, extPubs)
	for j := range extTopics {
		extTopics[j] = rng.Range(1, nt)
	}
	victims := map[int]int{} // actor -> after how many of its commands were sent
	for k := 0; k < nterm; k++ {
		victims[rng.Intn(na)] = rng.Intn(steps + 1)
	}
	graceful := rng.Bool()

	var wg sync.WaitGroup
	start := make(chan struct{})
	for i := 0; i < na; i++ {
		wg.Add(1)
		go func(i int) {
			defer wg.Done()
			<-start
			a := c.actors[i]
			killAt, kill := victims[i]
			for j, cmd := range scripts[i] {
				if kill && j == killAt {
					c.terminate(a, graceful)
				}
				w.sys.Tell(a.ref, cmd)
			}
			if kill && killAt >= len(scripts[i]) {
				c.terminate(a, graceful)
			}
		}(i)
	}
	wg.Add(1)
	go func() {
		defer wg.Done()
		<-start
		for j := 0; j < extPubs; j++ {
			pid := 9900000 + j + 1
			c1 := c.tick()
			w.sys.Publish(fmt.Sprintf("t%d", extTopics[j]), &pubMsg{pid})
			c2 := c.tick()
			c.hmu.Lock()
			c.hev = append(c.hev, fmt.Sprintf("P:99:%d:%d:%d:%d", extTopics[j], pid, c1, c2))
			c.hmu.Unlock()
		}
	}()
	close(start)
	wg.Wait()

	// quiescence
	if !c.settle() {
		return "-"
	}
	time.Sleep(2 * time.Millisecond) // grace: a late duplicate would still arrive now
	if !c.settle() {
		return "-"
	}
	if c.stalled.Load() {
		return "-"
	}
	// trace
	var toks []string
	c.hmu.Lock()
	toks = append(toks, c.hev...)
	c.hmu.Unlock()
	for _, a := range c.actors {
		a.mu.Lock()
		toks = append(toks, a.events...)
		a.mu.Unlock()
		if a.dead {
			toks = append(toks, fmt.Sprintf("T:%d:%d:%d", a.idx, a.termC1, a.termC2))
		}
	}
	for _, a := range c.actors {
		a.mu.Lock()
		toks = append(toks, a.got...)
		a.mu.Unlock()
	}
	dead := w.abyss.take()
	sort.Strings(dead)
	for _, d := range dead { // "<pid>><receiver><<sender>"
		var pid int
		var rest string
		if _, err := fmt.Sscanf(d, "%d>%s", &pid, &rest); err != nil {
			continue
		}
		parts := strings.SplitN(rest, "<", 2)
		if len(parts) != 2 {
			continue
		}
		toks = append(toks, fmt.Sprintf("X:%d:%d:%d", c.nameIdx(parts[0]), pid, c.nameIdx(parts[1])))
	}
	if len(toks) == 0 {
		return "none"
	}
	return strings.Join(toks, " ")
}

func (c *concRun) nameIdx(n string) int {
	switch {
	case n == "sys":
		return 99
	case n == "nil":
		return 98
	case strings.HasPrefix(n, "c"):
		if v, ok := natTok(n[1:]); ok {
			return v
		}
	}
	return 97
}

func (c *concRun) terminate(a *cActor, graceful bool) {
	if a.killed.Load() {
		return
	}
	a.termC1 = c.tick()
	a.killed.Store(true)
	c.w.sys.Terminate(a.ref, graceful)
}

// settle: every living actor has executed its script and handled its mailbox, the subscription actor
// has handled everything, the mailboxes of the terminated ones are drained. A Terminate that met a
// restart in progress is dropped by the runtime (onTerminate: CompareAndSwap(alive, terminating)
// fails): such an actor answers the flush and counts as living; a terminated one is recognised by its
// address being unregistered (tryTerminated unregisters after the UnSubscribe loop, so the clock read
// taken then closes the window of its cancellations).
func (c *concRun) settle() bool {
	w := c.w
	flush := func() bool {
		for _, a := range c.actors {
			if a.dead {
				continue
			}
			cmd := &cCmd{kind: "flush", done: make(chan struct{})}
			w.sys.Tell(a.ref, cmd)
			deadline := time.Now().Add(hardCap)
			for answered := false; !answered; {
				select {
				case <-cmd.done:
					answered = true
				default:
					if a.killed.Load() && !vivid.VerifIsRegistered(w.sys, a.ref) {
						a.termC2 = c.tick()
						a.dead = true
						answered = true
						break
					}
					if time.Now().After(deadline) {
						return false
					}
					time.Sleep(50 * time.Microsecond)
				}
			}
		}
		return true
	}
	if !flush() {
		return false
	}
	w.barrier()
	if w.tainted.Load() || !flush() {
		return false
	}
	deadline := time.Now().Add(hardCap)
	for _, a := range c.actors {
		if !a.dead {
			continue
		}
		for {
			st, sysN, userN, _, ok := mailbox.VerifState(a.mb)
			if !ok || (sysN == 0 && userN == 0 && st == 0) {
				break
			}
			if time.Now().After(deadline) {
				return false
			}
			time.Sleep(100 * time.Microsecond)
		}
	}
	return true
}

func concGen(rng *proto.RNG, tier string, shard, nshards int, w *bufio.Writer) {
	cw := &caseWriter{w: w, shard: shard, nshards: nshards}
	n := 2400
	if tier == "thorough" {
		n = 16000
	}
	for i := 0; i < n; i++ {
		na := rng.Range(1, 5)
		nt := rng.Range(1, 3)
		steps := rng.Range(2, 30)
		if rng.Intn(8) == 0 {
			steps = rng.Range(40, 70)
		}
		nterm := 0
		if rng.Intn(3) == 0 {
			nterm = rng.Range(1, na)
		}
		cw.emit([]string{fmt.Sprintf("conc %d %d %d %d %d", rng.Intn(1000000000), na, nt, steps, nterm)})
	}
	cw.emit([]string{"conc 1 0 1 1 0", "conc x 1 1 1 0", "conc 1 2 1 1 3", "conc 1 2 1", "frob"})
}

func init() {
	proto.Register(&proto.Suite{Name: "pubsub-conc", Gen: concGen, New: func() proto.Runner { return concRunner{} }})
}
