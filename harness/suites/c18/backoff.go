package c18

import (
	"bufio"
	"fmt"
	"math"
	"math/big"
	"strconv"
	"strings"
	"time"

	"github.com/kercylan98/minotaur/toolkit/chrono"
	"verifharness/internal/proto"
)

// Suites `backoff` (judged: the implementation draws its own jitter) and `backoff0` (randomization 0,
// exactly representable inputs, compared exactly with MV.Model.Backoff.backoff).
//
//	backoff  <count> <limit> <base-ns> <max-ns> <mn>/<md> <rn>/<rd>   -> "<min> <max>" over 8 calls
//	standard <count> <limit> <base-ns> <max-ns>                        -> "<min> <max>" over 8 calls
//	backoff0 <count> <limit> <base-ns> <max-ns> <mn>/<md>              -> "<delay>"

const backoffDraws = 8

func parseFrac(s string) (float64, bool) {
	a, b, ok := strings.Cut(s, "/")
	if !ok {
		return 0, false
	}
	n, e1 := strconv.ParseUint(a, 10, 63)
	d, e2 := strconv.ParseUint(b, 10, 63)
	if e1 != nil || e2 != nil || d == 0 {
		return 0, false
	}
	return float64(n) / float64(d), true
}

func parse4(t []string) (count, limit int, base, max time.Duration, ok bool) {
	c, e1 := strconv.ParseInt(t[0], 10, 64)
	l, e2 := strconv.ParseInt(t[1], 10, 64)
	b, e3 := strconv.ParseInt(t[2], 10, 64)
	m, e4 := strconv.ParseInt(t[3], 10, 64)
	if e1 != nil || e2 != nil || e3 != nil || e4 != nil || c < 0 {
		return 0, 0, 0, 0, false
	}
	return int(c), int(l), time.Duration(b), time.Duration(m), true
}

type backoffRunner struct{}

func (backoffRunner) Reset() {}

func (backoffRunner) Step(t []string) string {
	switch {
	case t[0] == "backoff" && len(t) == 7:
		c, l, b, m, ok := parse4(t[1:5])
		mu, ok2 := parseFrac(t[5])
		r, ok3 := parseFrac(t[6])
		if !ok || !ok2 || !ok3 {
			return "bad-op"
		}
		lo, hi := int64(0), int64(0)
		for i := 0; i < backoffDraws; i++ {
			d := int64(chrono.ExponentialBackoff(c, l, b, m, mu, r))
			if i == 0 || d < lo {
				lo = d
			}
			if i == 0 || d > hi {
				hi = d
			}
		}
		return fmt.Sprintf("%d %d", lo, hi)
	case t[0] == "standard" && len(t) == 5:
		c, l, b, m, ok := parse4(t[1:5])
		if !ok {
			return "bad-op"
		}
		lo, hi := int64(0), int64(0)
		for i := 0; i < backoffDraws; i++ {
			d := int64(chrono.StandardExponentialBackoff(c, l, b, m))
			if i == 0 || d < lo {
				lo = d
			}
			if i == 0 || d > hi {
				hi = d
			}
		}
		return fmt.Sprintf("%d %d", lo, hi)
	case t[0] == "backoff0" && len(t) == 6:
		c, l, b, m, ok := parse4(t[1:5])
		mu, ok2 := parseFrac(t[5])
		if !ok || !ok2 {
			return "bad-op"
		}
		return fmt.Sprint(int64(chrono.ExponentialBackoff(c, l, b, m, mu, 0)))
	}
	return "bad-op"
}

// ---------------------------------------------------------------- generators

const (
	nsMs   = int64(1000000)
	nsSec  = int64(1000000000)
	nsHour = 3600 * nsSec
	nsDay  = 24 * nsHour
	maxI64 = int64(1<<63 - 1)
)

type frac struct{ n, d int64 }

func (f frac) String() string { return fmt.Sprintf("%d/%d", f.n, f.d) }

// crossing estimates the least count c with base*(n/d)^c >= 2^bits (-1 if the product never grows);
// the generators probe a window around it, so an estimate within +-1 is enough.
func crossing(base int64, f frac, bits uint) int { return crossingLog(base, f, float64(bits)) }

// crossingLog: the same for the target 2^log2target.
func crossingLog(base int64, f frac, log2target float64) int {
	if f.n <= f.d || base <= 0 {
		return -1
	}
	need := log2target - math.Log2(float64(base))
	if need <= 0 {
		return 0
	}
	return int(math.Ceil(need / (math.Log2(float64(f.n)) - math.Log2(float64(f.d)))))
}

func logUniform(rng *proto.RNG, maxBits int) int64 {
	bits := rng.Range(0, maxBits)
	if bits == 0 {
		return int64(rng.Intn(2))
	}
	v := int64(1) << uint(bits-1)
	v |= int64(rng.Next() & uint64(v-1))
	// round most values to few significant digits (human-style durations), keep some raw
	if rng.Intn(3) != 0 {
		p := int64(1)
		for v/p >= 1000 {
			p *= 10
		}
		v = v / p * p
	}
	return v
}

var dyadicMults = []frac{{1, 1}, {2, 1}, {2, 1}, {2, 1}, {3, 2}, {4, 1}, {3, 1}, {5, 4}, {9, 8}, {17, 16}, {1025, 1024}, {5, 2}, {7, 2}, {4, 1}}
var rands = []frac{{0, 1}, {1, 2}, {1, 2}, {1, 2}, {1, 4}, {1, 1}, {3, 4}, {1, 10}, {2, 1}, {3, 2}, {1, 64}}

func backoffGen(rng *proto.RNG, tier string, shard, nshards int, w *bufio.Writer) {
	caseNo := 0
	emit := func(lines []string) {
		if caseNo%nshards == shard {
			fmt.Fprintf(w, "# case %d\n", caseNo)
			for _, l := range lines {
				fmt.Fprintln(w, l)
			}
		}
		caseNo++
	}
	thorough := tier == "thorough"
	// (ii) exhaustive small sweep: every count 0..70 (thorough 0..140) for a grid of the other arguments
	maxCount := 70
	if thorough {
		maxCount = 140
	}
	limits := []int64{-1, 0, 1, 5, 35, 36, 63, 100}
	bases := []int64{0, 1, 1000, 200 * nsMs, nsSec, 10 * nsDay}
	maxes := []int64{0, 1, nsMs, nsHour, 10 * nsDay, maxI64}
	mults := []frac{{1, 1}, {2, 1}, {3, 2}, {4, 1}, {3, 1}}
	rs := []frac{{0, 1}, {1, 2}, {1, 1}, {2, 1}}
	for _, b := range bases {
		for _, m := range maxes {
			for _, mu := range mults {
				for _, r := range rs {
					for _, l := range limits {
						var lines []string
						for c := 0; c <= maxCount; c++ {
							lines = append(lines, fmt.Sprintf("backoff %d %d %d %d %s %s", c, l, b, m, mu, r))
						}
						// far beyond both overflow points
						for _, c := range []int{1022, 1023, 1024, 1025, 2000, 5000} {
							lines = append(lines, fmt.Sprintf("backoff %d %d %d %d %s %s", c, l, b, m, mu, r))
						}
						emit(lines)
					}
				}
			}
		}
	}
	// StandardExponentialBackoff with the values the engine uses (supervision: accident count, restart limit)
	for _, b := range []int64{0, 1, 100 * nsMs, 200 * nsMs, 3 * nsSec} {
		for _, m := range []int64{0, nsSec, 30 * nsSec, nsHour, maxI64} {
			for _, l := range []int64{-1, 0, 3, 10, 40} {
				var lines []string
				for c := 0; c <= 80; c++ {
					lines = append(lines, fmt.Sprintf("standard %d %d %d %d", c, l, b, m))
				}
				lines = append(lines, fmt.Sprintf("standard 1100 %d %d %d", l, b, m), fmt.Sprintf("standard 100000 %d %d %d", l, b, m))
				emit(lines)
			}
		}
	}
	// (iii) seeded random, structured around the two overflow boundaries
	nRandom := 600
	if thorough {
		nRandom = 12000
	}
	for i := 0; i < nRandom; i++ {
		b := logUniform(rng, 50) // up to ~13 days
		m := logUniform(rng, 63)
		if rng.Intn(4) == 0 {
			m = []int64{nsSec, 30 * nsSec, nsHour, 10 * nsDay, maxI64, b, b * 2}[rng.Intn(7)]
		}
		mu := dyadicMults[rng.Intn(len(dyadicMults))]
		r := rands[rng.Intn(len(rands))]
		if rng.Intn(5) == 0 {
			r = frac{int64(rng.Intn(129)), 64}
		}
		c63 := crossing(b, mu, 63)
		c1024 := crossing(1, mu, 1024)
		cMax := -1 // where the band straddles maxDelay
		if m > 0 {
			cMax = crossingLog(b, mu, math.Log2(float64(m)))
		}
		var lines []string
		add := func(c int, l int64) {
			if c < 0 {
				return
			}
			lines = append(lines, fmt.Sprintf("backoff %d %d %d %d %s %s", c, l, b, m, mu, r))
		}
		n := rng.Range(4, 24)
		for j := 0; j < n; j++ {
			var c int
			switch rng.Pick(5, 4, 3, 3, 1, 1, 4) {
			case 6:
				if cMax >= 0 {
					c = cMax + rng.Range(-2, 2)
				} else {
					c = rng.Range(0, 40)
				}
			case 0:
				c = rng.Range(0, 70)
			case 1:
				if c63 >= 0 {
					c = c63 + rng.Range(-3, 3)
				} else {
					c = rng.Range(0, 3000)
				}
			case 2:
				if c1024 >= 0 {
					c = c1024 + rng.Range(-3, 3)
				} else {
					c = rng.Range(0, 3000)
				}
			case 3:
				c = rng.Range(0, 2000)
			case 4:
				c = rng.Range(2000, 200000)
			case 5:
				if mu.n == mu.d {
					c = 4000000000
				} else {
					c = rng.Range(100000, 300000)
				}
			}
			l := int64(-1)
			switch rng.Intn(6) {
			case 0:
				l = int64(c) + int64(rng.Range(-2, 2))
			case 1:
				l = int64(rng.Range(0, 100))
			}
			add(c, l)
		}
		emit(lines)
	}
	// (iii') malformed / out-of-domain stream: judged against the model interval only
	nBad := 200
	if thorough {
		nBad = 3000
	}
	badMults := []frac{{0, 1}, {1, 2}, {3, 4}, {1, 1024}, {1023, 1024}, {1, 1}, {2, 1}}
	badRs := []frac{{5, 1}, {1000, 1}, {5, 2}, {1, 2}, {0, 1}, {1 << 40, 1}}
	for i := 0; i < nBad; i++ {
		b := logUniform(rng, 62)
		m := logUniform(rng, 63)
		switch rng.Intn(8) {
		case 0:
			b = -b
		case 1:
			m = -m
		case 2:
			b, m = maxI64, maxI64
		case 3:
			m = 0
		case 4:
			b = maxI64
		}
		mu := badMults[rng.Intn(len(badMults))]
		r := badRs[rng.Intn(len(badRs))]
		var lines []string
		for j := 0; j < 8; j++ {
			c := rng.Range(0, 80)
			if rng.Intn(4) == 0 {
				c = rng.Range(0, 3000)
			}
			l := []int64{-1, -1, -2, -1000, 0, int64(c), int64(c) - 1, maxI64, -maxI64 - 1}[rng.Intn(9)]
			lines = append(lines, fmt.Sprintf("backoff %d %d %d %d %s %s", c, l, b, m, mu, r))
		}
		emit(lines)
	}
}

// exactOrSaturated reports whether the float64 computation of base*(n/d)^c (d a power of two) is exact
// (every intermediate fits a 53-bit mantissa) or the product is at least twice max (saturates whatever
// the rounding).
func exactOrSaturated(base, max int64, f frac, c int) bool {
	if base < 0 || max < 0 || f.d&(f.d-1) != 0 {
		return false
	}
	if f.n&(f.n-1) == 0 && base < 1<<53 { // power-of-two multiplier: scaling only
		return true
	}
	p := new(big.Int).Exp(big.NewInt(f.n), big.NewInt(int64(c)), nil)
	lim53 := new(big.Int).Lsh(big.NewInt(1), 53)
	bp := new(big.Int).Mul(p, big.NewInt(base))
	if p.Cmp(lim53) < 0 && bp.Cmp(lim53) < 0 {
		return true
	}
	q := new(big.Int).Exp(big.NewInt(f.d), big.NewInt(int64(c)), nil)
	q.Mul(q, big.NewInt(max))
	q.Lsh(q, 1)
	q.Add(q, big.NewInt(4))
	return bp.Cmp(q) >= 0
}

func backoff0Gen(rng *proto.RNG, tier string, shard, nshards int, w *bufio.Writer) {
	caseNo := 0
	emit := func(lines []string) {
		if len(lines) == 0 {
			return
		}
		if caseNo%nshards == shard {
			fmt.Fprintf(w, "# case %d\n", caseNo)
			for _, l := range lines {
				fmt.Fprintln(w, l)
			}
		}
		caseNo++
	}
	thorough := tier == "thorough"
	limits := []int64{-1, 0, 3, 36, 63}
	bases := []int64{0, 1, 3, 1000, 200 * nsMs, nsSec, 10 * nsDay, 1<<53 - 1}
	maxes := []int64{0, 1, nsMs, nsHour, 10 * nsDay, maxI64}
	mults := []frac{{1, 1}, {2, 1}, {4, 1}, {8, 1}, {3, 2}, {3, 1}, {5, 4}, {1, 2}, {1, 4}}
	maxCount := 80
	if thorough {
		maxCount = 200
	}
	for _, b := range bases {
		for _, m := range maxes {
			for _, mu := range mults {
				for _, l := range limits {
					var lines []string
					cs := []int{}
					for c := 0; c <= maxCount; c++ {
						cs = append(cs, c)
					}
					cs = append(cs, 510, 511, 512, 513, 1022, 1023, 1024, 1025, 2000, 100000)
					for _, c := range cs {
						// power-of-two multipliers below 1 only scale (an underflow truncates to 0 on both sides)
						if (mu.n < mu.d && b < 1<<53) || exactOrSaturated(b, m, mu, c) {
							lines = append(lines, fmt.Sprintf("backoff0 %d %d %d %d %s", c, l, b, m, mu))
						}
					}
					emit(lines)
				}
			}
		}
	}
	nRandom := 400
	if thorough {
		nRandom = 8000
	}
	for i := 0; i < nRandom; i++ {
		b := logUniform(rng, 53)
		m := logUniform(rng, 63)
		mu := []frac{{1, 1}, {2, 1}, {2, 1}, {4, 1}, {16, 1}, {3, 2}, {3, 1}, {5, 4}, {7, 4}}[rng.Intn(9)]
		c63 := crossing(b, mu, 63)
		var lines []string
		for j := 0; j < 16; j++ {
			c := rng.Range(0, 70)
			switch rng.Intn(5) {
			case 0:
				if c63 >= 0 {
					c = c63 + rng.Range(-2, 2)
				}
			case 1:
				c = rng.Range(0, 2500)
			}
			if c < 0 {
				c = 0
			}
			l := int64(-1)
			if rng.Intn(5) == 0 {
				l = int64(c) + int64(rng.Range(-1, 1))
			}
			if exactOrSaturated(b, m, mu, c) {
				lines = append(lines, fmt.Sprintf("backoff0 %d %d %d %d %s", c, l, b, m, mu))
			}
		}
		emit(lines)
	}
}

func init() {
	proto.Register(&proto.Suite{Name: "backoff", Gen: backoffGen, New: func() proto.Runner { return backoffRunner{} }})
	proto.Register(&proto.Suite{Name: "backoff0", Gen: backoff0Gen, New: func() proto.Runner { return backoffRunner{} }})
}
