package c18

import (
	"bufio"
	"errors"
	"fmt"
	"strconv"
	"strings"
	"time"

	"github.com/kercylan98/minotaur/toolkit"
	"verifharness/internal/proto"
)

// Suites `retry` (exact: invocation counts and returned error against MV.Model.Retry / MV.Spec.Retry)
// and `retrytime` (judged: the same plus the elapsed wall time, which must be at least the sum of the
// sleeps the model prescribes).  The real helpers of toolkit/retry.go run with a scripted operation.
//
//	retry   <count> <interval-ns> <script>
//	async   <count> <interval-ns> <script>
//	forever <interval-ns> <script>
//	rule    <answers> <script>
//	cretry  <maxRetries> <base> <max> <mn>/<md> <rn>/<rd> <ignore> <cond> <script>
//	bretry  <maxRetries> <base> <max> <mn>/<md> <rn>/<rd> <ignore> <script>

// sentinel errors are compared by identity, wrappers answer errors.Is through their own id as well.
type sentinel struct{ id int }

func (s *sentinel) Error() string { return "e" + strconv.Itoa(s.id) }

type wrapped struct {
	id    int
	inner error
}

func (w *wrapped) Error() string { return "e" + strconv.Itoa(w.id) + ">" + w.inner.Error() }
func (w *wrapped) Unwrap() error { return w.inner }
func (w *wrapped) Is(t error) bool {
	s, ok := t.(*sentinel)
	return ok && s.id == w.id
}

var sentinels = map[int]*sentinel{}

func sent(id int) *sentinel {
	s, ok := sentinels[id]
	if !ok {
		s = &sentinel{id}
		sentinels[id] = s
	}
	return s
}

// parseErr: "e5>3>1" -> wrapped{5, wrapped{3, sentinel 1}}
func parseErr(s string) (error, bool) {
	if !strings.HasPrefix(s, "e") {
		return nil, false
	}
	parts := strings.Split(s[1:], ">")
	ids := make([]int, len(parts))
	for i, p := range parts {
		v, err := strconv.ParseUint(p, 10, 31)
		if err != nil {
			return nil, false
		}
		ids[i] = int(v)
	}
	var e error = sent(ids[len(ids)-1])
	for i := len(ids) - 2; i >= 0; i-- {
		e = &wrapped{ids[i], e}
	}
	return e, true
}

func parseScript(s string) ([]error, bool) {
	if s == "-" {
		return nil, true
	}
	var out []error
	for _, t := range strings.Split(s, ",") {
		if t == "ok" {
			out = append(out, nil)
			continue
		}
		e, ok := parseErr(t)
		if !ok {
			return nil, false
		}
		out = append(out, e)
	}
	return out, true
}

func chain(e error) (string, bool) {
	var ids []string
	for e != nil {
		switch v := e.(type) {
		case *sentinel:
			ids = append(ids, strconv.Itoa(v.id))
			e = nil
		case *wrapped:
			ids = append(ids, strconv.Itoa(v.id))
			e = v.inner
		default:
			return "", false
		}
	}
	return "e" + strings.Join(ids, ">"), true
}

func fmtRes(e error) string {
	if e == nil {
		return "nil"
	}
	if c, ok := chain(e); ok {
		return "err:" + c
	}
	if e.Error() == "interrupted" && errors.Unwrap(e) == nil {
		return "interrupted"
	}
	if in := errors.Unwrap(e); in != nil && strings.HasPrefix(e.Error(), "max retries reached: ") {
		if c, ok := chain(in); ok && e.Error() == "max retries reached: "+in.Error() {
			return "maxretries:" + c
		}
	}
	return "err:?"
}

type scripted struct {
	outcomes []error
	calls    int
}

func (s *scripted) f() error {
	i := s.calls
	s.calls++
	if i < len(s.outcomes) {
		return s.outcomes[i]
	}
	return nil
}

type retryRunner struct{ timed bool }

func (r *retryRunner) Reset() {}

func atoi64(s string) (int64, bool) {
	v, err := strconv.ParseInt(s, 10, 64)
	return v, err == nil
}

func (r *retryRunner) Step(t []string) string {
	start := time.Now()
	out := r.step(t)
	if r.timed && out != "bad-op" && out != "hang" {
		out += fmt.Sprintf(" elapsed=%d", time.Since(start).Nanoseconds())
	}
	return out
}

func (r *retryRunner) step(t []string) string {
	switch {
	case (t[0] == "retry" || t[0] == "async") && len(t) == 4:
		c, ok1 := atoi64(t[1])
		iv, ok2 := atoi64(t[2])
		sc, ok3 := parseScript(t[3])
		if !ok1 || !ok2 || !ok3 {
			return "bad-op"
		}
		op := &scripted{outcomes: sc}
		var err error
		if t[0] == "retry" {
			err = toolkit.Retry(int(c), time.Duration(iv), op.f)
		} else {
			done := make(chan error, 1)
			toolkit.RetryAsync(int(c), time.Duration(iv), op.f, func(e error) { done <- e })
			select {
			case err = <-done:
			case <-time.After(20 * time.Second):
				return "hang"
			}
		}
		return fmt.Sprintf("calls=%d res=%s", op.calls, fmtRes(err))
	case t[0] == "forever" && len(t) == 3:
		iv, ok2 := atoi64(t[1])
		sc, ok3 := parseScript(t[2])
		if !ok2 || !ok3 {
			return "bad-op"
		}
		op := &scripted{outcomes: sc}
		toolkit.RetryForever(time.Duration(iv), op.f)
		return fmt.Sprintf("calls=%d res=nil", op.calls)
	case t[0] == "rule" && len(t) == 3:
		var answers []int64
		if t[1] != "-" {
			for _, a := range strings.Split(t[1], ",") {
				v, ok := atoi64(a)
				if !ok {
					return "bad-op"
				}
				answers = append(answers, v)
			}
		}
		sc, ok := parseScript(t[2])
		if !ok {
			return "bad-op"
		}
		op := &scripted{outcomes: sc}
		var args []int
		err := toolkit.RetryByRule(op.f, func(count int) time.Duration {
			k := len(args)
			args = append(args, count)
			if k < len(answers) {
				return time.Duration(answers[k])
			}
			return 0
		})
		return fmt.Sprintf("calls=%d args=%s res=%s", op.calls, proto.FmtInts(args), fmtRes(err))
	case (t[0] == "cretry" && len(t) == 9) || (t[0] == "bretry" && len(t) == 8):
		mr, ok1 := atoi64(t[1])
		b, ok2 := atoi64(t[2])
		m, ok3 := atoi64(t[3])
		mu, ok4 := parseFrac(t[4])
		rn, ok5 := parseFrac(t[5])
		if !ok1 || !ok2 || !ok3 || !ok4 || !ok5 {
			return "bad-op"
		}
		var ignore []error
		if t[6] != "-" {
			for _, a := range strings.Split(t[6], ",") {
				v, err := strconv.ParseUint(a, 10, 31)
				if err != nil {
					return "bad-op"
				}
				ignore = append(ignore, sent(int(v)))
			}
		}
		sc, ok := parseScript(t[len(t)-1])
		if !ok {
			return "bad-op"
		}
		op := &scripted{outcomes: sc}
		if t[0] == "bretry" {
			err := toolkit.RetryByExponentialBackoff(op.f, int(mr), time.Duration(b), time.Duration(m), mu, rn, ignore...)
			return fmt.Sprintf("calls=%d res=%s", op.calls, fmtRes(err))
		}
		var cond func() bool
		conds := 0
		switch t[7] {
		case "nil":
		default:
			var answers []bool
			if t[7] != "-" {
				for _, ch := range t[7] {
					if ch != 'T' && ch != 'F' {
						return "bad-op"
					}
					answers = append(answers, ch == 'T')
				}
			}
			cond = func() bool {
				k := conds
				conds++
				if k < len(answers) {
					return answers[k]
				}
				return true
			}
		}
		err := toolkit.ConditionalRetryByExponentialBackoff(op.f, cond, int(mr), time.Duration(b), time.Duration(m), mu, rn, ignore...)
		return fmt.Sprintf("calls=%d conds=%d res=%s", op.calls, conds, fmtRes(err))
	}
	return "bad-op"
}

// ---------------------------------------------------------------- generators

func scriptString(outs []string) string {
	if len(outs) == 0 {
		return "-"
	}
	return strings.Join(outs, ",")
}

func randErr(rng *proto.RNG) string {
	id := rng.Range(1, 6)
	s := "e" + strconv.Itoa(id)
	for rng.Intn(4) == 0 {
		s += ">" + strconv.Itoa(rng.Range(1, 9))
	}
	return s
}

func randScript(rng *proto.RNG, maxLen int) string {
	n := rng.Range(0, maxLen)
	pOK := rng.Range(0, 4) // 0: never succeeds inside the script
	var outs []string
	for i := 0; i < n; i++ {
		if pOK > 0 && rng.Intn(10) < pOK {
			outs = append(outs, "ok")
		} else {
			outs = append(outs, randErr(rng))
		}
	}
	return scriptString(outs)
}

func randIgnore(rng *proto.RNG) string {
	switch rng.Intn(4) {
	case 0, 1:
		return "-"
	}
	n := rng.Range(1, 3)
	var ids []string
	for i := 0; i < n; i++ {
		ids = append(ids, strconv.Itoa(rng.Range(1, 9)))
	}
	return strings.Join(ids, ",")
}

func randCond(rng *proto.RNG, maxLen int) string {
	switch rng.Intn(5) {
	case 0:
		return "nil"
	case 1:
		return "-"
	}
	n := rng.Range(1, maxLen)
	var sb strings.Builder
	for i := 0; i < n; i++ {
		if rng.Intn(6) == 0 {
			sb.WriteByte('F')
		} else {
			sb.WriteByte('T')
		}
	}
	return sb.String()
}

func retryGen(rng *proto.RNG, tier string, shard, nshards int, w *bufio.Writer) {
	caseNo := 0
	emit := func(lines []string) {
		if caseNo%nshards == shard {
			fmt.Fprintf(w, "# case %d\n", caseNo)
			for _, l := range lines {
				fmt.Fprintln(w, l)
			}
		}
		caseNo++
	}
	thorough := tier == "thorough"
	// (ii) exhaustive: every script over {ok, e1, e2>1} up to length maxLen, against small grids
	maxLen := 4
	if thorough {
		maxLen = 5
	}
	alpha := []string{"ok", "e1", "e2>1"}
	var scripts []string
	var rec func(prefix []string)
	rec = func(prefix []string) {
		scripts = append(scripts, scriptString(prefix))
		if len(prefix) == maxLen {
			return
		}
		for _, a := range alpha {
			rec(append(append([]string{}, prefix...), a))
		}
	}
	rec(nil)
	for _, s := range scripts {
		var lines []string
		for _, c := range []int{-1, 0, 1, 2, 3, 4, 6} {
			lines = append(lines, fmt.Sprintf("retry %d 1 %s", c, s))
		}
		for _, c := range []int{0, 1, 3} {
			lines = append(lines, fmt.Sprintf("async %d 0 %s", c, s))
		}
		lines = append(lines, fmt.Sprintf("forever 1 %s", s))
		for _, a := range []string{"-", "5", "5,5", "5,0,5", "5,-1,5", "5,5,5,5,5,5"} {
			lines = append(lines, fmt.Sprintf("rule %s %s", a, s))
		}
		emit(lines)
		lines = nil
		for _, mr := range []int{-1, 0, 1, 2, 3, 7} {
			for _, ig := range []string{"-", "1", "2"} {
				lines = append(lines, fmt.Sprintf("bretry %d 1 1000 2/1 1/2 %s %s", mr, ig, s))
				for _, cd := range []string{"nil", "-", "F", "TF", "TTF", "TTTF"} {
					lines = append(lines, fmt.Sprintf("cretry %d 1 1000 2/1 1/2 %s %s %s", mr, ig, cd, s))
				}
			}
		}
		emit(lines)
	}
	// (iii) seeded random: longer scripts, wrapped errors, ignore lists, larger limits
	nRandom := 300
	if thorough {
		nRandom = 4000
	}
	for i := 0; i < nRandom; i++ {
		var lines []string
		n := rng.Range(3, 10)
		for j := 0; j < n; j++ {
			s := randScript(rng, 24)
			switch rng.Pick(3, 1, 1, 2, 4, 2) {
			case 0:
				lines = append(lines, fmt.Sprintf("retry %d %d %s", rng.Range(-2, 30), rng.Range(-5, 2000), s))
			case 1:
				lines = append(lines, fmt.Sprintf("async %d %d %s", rng.Range(-2, 30), rng.Range(0, 2000), s))
			case 2:
				lines = append(lines, fmt.Sprintf("forever %d %s", rng.Range(-5, 2000), s))
			case 3:
				k := rng.Range(0, 12)
				var a []string
				for x := 0; x < k; x++ {
					v := rng.Range(1, 3000)
					if rng.Intn(8) == 0 {
						v = rng.Range(-3, 0)
					}
					a = append(a, strconv.Itoa(v))
				}
				lines = append(lines, fmt.Sprintf("rule %s %s", scriptString(a), s))
			case 4:
				mu := dyadicMults[rng.Intn(len(dyadicMults))]
				r := rands[rng.Intn(len(rands))]
				lines = append(lines, fmt.Sprintf("cretry %d %d %d %s %s %s %s %s", rng.Range(-2, 30), rng.Range(0, 50), rng.Range(0, 20000), mu, r,
					randIgnore(rng), randCond(rng, 26), s))
			case 5:
				mu := dyadicMults[rng.Intn(len(dyadicMults))]
				r := rands[rng.Intn(len(rands))]
				lines = append(lines, fmt.Sprintf("bretry %d %d %d %s %s %s %s", rng.Range(-2, 30), rng.Range(0, 50), rng.Range(0, 20000), mu, r,
					randIgnore(rng), s))
			}
		}
		emit(lines)
	}
	// long runs: retry counters far beyond both overflow points of the inlined delay formula
	long := func(n int) string {
		outs := make([]string, n)
		for i := range outs {
			outs[i] = "e1"
		}
		return strings.Join(outs, ",")
	}
	emit([]string{fmt.Sprintf("bretry 1200 0 1000 2/1 1/2 - %s", long(1100))})
	emit([]string{fmt.Sprintf("bretry 90 1 1000 4/1 1/2 - %s", long(100))})
	emit([]string{fmt.Sprintf("cretry 5000 1 500 2/1 1/2 7 - %s,e3>7", long(1050))})
	emit([]string{fmt.Sprintf("retry 2000 0 %s,ok", long(1500))})
}

func retryTimeGen(rng *proto.RNG, tier string, shard, nshards int, w *bufio.Writer) {
	caseNo := 0
	emit := func(lines []string) {
		if caseNo%nshards == shard {
			fmt.Fprintf(w, "# case %d\n", caseNo)
			for _, l := range lines {
				fmt.Fprintln(w, l)
			}
		}
		caseNo++
	}
	fails := func(n int) string {
		outs := make([]string, n)
		for i := range outs {
			outs[i] = "e1"
		}
		return scriptString(outs)
	}
	// fixed boundary cases: sleeps once the inlined product has left the int64 range must still be maxDelay
	// (time.Sleep rounds short sleeps up to ~1 ms here, so maxDelay is a few ms and the product overflows early)
	emit([]string{fmt.Sprintf("bretry 60 1099511627776 3000000 4/1 1/2 - %s", fails(50))})
	emit([]string{fmt.Sprintf("bretry 100 1 2000000 2/1 1/2 - %s", fails(90))})
	emit([]string{fmt.Sprintf("cretry 60 1125899906842624 3000000 2/1 1/1 - - %s", fails(45))})
	emit([]string{fmt.Sprintf("bretry 60 3000000 3000000 1025/1024 0/1 - %s", fails(40))})
	emit([]string{fmt.Sprintf("retry 5 2000000 %s", fails(9))})
	emit([]string{fmt.Sprintf("async 4 1500000 %s", fails(9))})
	emit([]string{fmt.Sprintf("forever 1000000 %s", fails(6))})
	emit([]string{"rule 1000000,2000000,3000000,0 " + fails(9)})
	n := 64
	if tier == "thorough" {
		n = 600
	}
	for i := 0; i < n; i++ {
		s := randScript(rng, 8)
		var line string
		switch rng.Pick(2, 1, 1, 2, 3, 3) {
		case 0:
			line = fmt.Sprintf("retry %d %d %s", rng.Range(0, 8), rng.Range(0, 2000)*1000, s)
		case 1:
			line = fmt.Sprintf("async %d %d %s", rng.Range(0, 8), rng.Range(0, 2000)*1000, s)
		case 2:
			line = fmt.Sprintf("forever %d %s", rng.Range(0, 2000)*1000, s)
		case 3:
			k := rng.Range(0, 8)
			var a []string
			for x := 0; x < k; x++ {
				a = append(a, strconv.Itoa(rng.Range(0, 2000)*1000))
			}
			line = fmt.Sprintf("rule %s %s", scriptString(a), s)
		case 4:
			line = fmt.Sprintf("cretry %d %d %d %s %s %s %s %s", rng.Range(0, 12), rng.Range(0, 400)*1000, rng.Range(0, 3000)*1000,
				dyadicMults[rng.Intn(len(dyadicMults))], rands[rng.Intn(len(rands))], randIgnore(rng), randCond(rng, 10), s)
		case 5:
			line = fmt.Sprintf("bretry %d %d %d %s %s %s %s", rng.Range(0, 12), rng.Range(0, 400)*1000, rng.Range(0, 3000)*1000,
				dyadicMults[rng.Intn(len(dyadicMults))], rands[rng.Intn(len(rands))], randIgnore(rng), s)
		}
		emit([]string{line})
	}
}

func init() {
	proto.Register(&proto.Suite{Name: "retry", Gen: retryGen, New: func() proto.Runner { return &retryRunner{} }})
	proto.Register(&proto.Suite{Name: "retrytime", Gen: retryTimeGen, New: func() proto.Runner { return &retryRunner{timed: true} }})
}
