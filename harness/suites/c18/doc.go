// Package c18 holds the harness suites of property C18 (registered from init functions).
package c18
