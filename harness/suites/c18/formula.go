package c18

import (
	"bufio"
	"bytes"
	"fmt"
	"go/ast"
	"go/parser"
	"go/printer"
	"go/token"
	"os"
	"path/filepath"
	"runtime/debug"
	"strings"

	"verifharness/internal/proto"
)

// Suite `formula` (T-facts): the statements that turn (count, baseDelay, maxDelay, multiplier,
// randomization) into the slept/returned Duration are extracted from the Go source of
// chrono.ExponentialBackoff and toolkit.ConditionalRetryByExponentialBackoff with go/ast, printed in a
// canonical one-line form (the loop counter renamed to `n`) and compared with the text the Lean side
// holds next to the model `MV.Model.Backoff.delay`; both functions must inline the *same* formula.
//
//	delayexpr chrono | delayexpr retry   -> canonical statement list
//	guard chrono     | guard retry       -> canonical stop / limit test in front of the formula

func repoDir() string {
	if v := os.Getenv("VERIF_REPO"); v != "" {
		return v
	}
	if bi, ok := debug.ReadBuildInfo(); ok {
		for _, d := range bi.Deps {
			if d.Path == "github.com/kercylan98/minotaur" && d.Replace != nil && d.Replace.Path != "" {
				return d.Replace.Path
			}
		}
	}
	return "/repo"
}

type renamer struct{ from map[string]string }

func (r renamer) Visit(n ast.Node) ast.Visitor {
	if id, ok := n.(*ast.Ident); ok {
		if to, ok := r.from[id.Name]; ok {
			id.Name = to
		}
	}
	return r
}

func oneLine(fset *token.FileSet, n ast.Node) string {
	var buf bytes.Buffer
	_ = printer.Fprint(&buf, fset, n)
	return strings.Join(strings.Fields(buf.String()), " ")
}

// flatten returns the statements of the function body, descending into a bare `for { … }`.
func flatten(body *ast.BlockStmt) []ast.Stmt {
	var out []ast.Stmt
	for _, s := range body.List {
		if f, ok := s.(*ast.ForStmt); ok && f.Cond == nil && f.Init == nil && f.Post == nil {
			out = append(out, flatten(f.Body)...)
			continue
		}
		out = append(out, s)
	}
	return out
}

func isAssignTo(s ast.Stmt, name string) bool {
	a, ok := s.(*ast.AssignStmt)
	if !ok || len(a.Lhs) != 1 {
		return false
	}
	id, ok := a.Lhs[0].(*ast.Ident)
	return ok && id.Name == name
}

// extract returns (guard, formula) of the named function in the file.
func extract(file, fn string, rename map[string]string) (string, string, error) {
	fset := token.NewFileSet()
	f, err := parser.ParseFile(fset, file, nil, 0)
	if err != nil {
		return "", "", err
	}
	for _, d := range f.Decls {
		fd, ok := d.(*ast.FuncDecl)
		if !ok || fd.Name.Name != fn || fd.Body == nil {
			continue
		}
		ast.Walk(renamer{rename}, fd.Body)
		stmts := flatten(fd.Body)
		start := -1
		for i, s := range stmts {
			if isAssignTo(s, "delay") {
				start = i
				break
			}
		}
		if start < 0 {
			return "", "", fmt.Errorf("no `delay :=` in %s", fn)
		}
		var parts []string
		for _, s := range stmts[start:] {
			if _, ok := s.(*ast.ReturnStmt); ok {
				break
			}
			if es, ok := s.(*ast.ExprStmt); ok {
				if oneLine(fset, es) == "time.Sleep(sleepDuration)" {
					break
				}
			}
			parts = append(parts, oneLine(fset, s))
		}
		guard := "none"
		if start > 0 {
			guard = oneLine(fset, stmts[start-1])
		}
		return guard, strings.Join(parts, " ; "), nil
	}
	return "", "", fmt.Errorf("function %s not found", fn)
}

type formulaRunner struct{}

func (formulaRunner) Reset() {}

func (formulaRunner) Step(t []string) string {
	if len(t) != 2 {
		return "bad-op"
	}
	var file, fn string
	rename := map[string]string{}
	switch t[1] {
	case "chrono":
		file, fn = filepath.Join(repoDir(), "toolkit", "chrono", "exponential_backoff.go"), "ExponentialBackoff"
		rename["count"] = "n"
	case "retry":
		file, fn = filepath.Join(repoDir(), "toolkit", "retry.go"), "ConditionalRetryByExponentialBackoff"
		rename["retry"] = "n"
	default:
		return "bad-op"
	}
	guard, formula, err := extract(file, fn, rename)
	if err != nil {
		return "err:extract"
	}
	switch t[0] {
	case "delayexpr":
		return formula
	case "guard":
		return guard
	}
	return "bad-op"
}

func formulaGen(rng *proto.RNG, tier string, shard, nshards int, w *bufio.Writer) {
	if shard != 0 {
		return
	}
	fmt.Fprintln(w, "# case 0")
	for _, l := range []string{"delayexpr chrono", "delayexpr retry", "guard chrono", "guard retry"} {
		fmt.Fprintln(w, l)
	}
}

func init() {
	proto.Register(&proto.Suite{Name: "formula", Gen: formulaGen, New: func() proto.Runner { return formulaRunner{} }})
}
