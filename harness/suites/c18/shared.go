package c18

import (
	"bufio"
	"bytes"
	"fmt"
	"go/ast"
	"go/parser"
	"go/token"
	"path/filepath"
	"strconv"
	"strings"
	"time"

	"github.com/kercylan98/minotaur/engine/prc"
	"verifharness/internal/proto"
)

// Suite `shared-restart` (judged): the restart back-off of the remoting listener, i.e. the two
// cooperating sites `SharedConfiguration.WithRestartInterval/WithConsecutiveRestartLimit` (the closure
// that computes the delay) and `Shared.runtimeError` (the retry test and the hand-over to time.AfterFunc).
//
//	new                      fresh configuration (newSharedConfiguration: limit 10, no interval)
//	limit <n>                WithConsecutiveRestartLimit(n)
//	interval <base> <max>    WithRestartInterval(base, max)   (ns)
//	fixed <d>                WithFixedRestartInterval(d)
//	delay <count>            -> "none" | "<min> <max>" over 8 calls of the configured interval
//	cond                     -> the retry test and the delay hand-over of Shared.runtimeError (go/ast text)
//
// The oracle keeps the same configuration (MV.Model.SharedRestart.Cfg), judges every `delay` answer with
// the back-off judge of suite `backoff` for the parameters the model derives (limit read at call time,
// <= 0 = unlimited) and, when the runtime would retry, rejects the stop signal.

type sharedRunner struct{ c *prc.SharedConfiguration }

func (r *sharedRunner) Reset() { r.c = prc.VerifNewSharedConfiguration() }

func (r *sharedRunner) Step(t []string) string {
	switch {
	case t[0] == "new" && len(t) == 1:
		r.Reset()
		return "ok"
	case t[0] == "limit" && len(t) == 2:
		n, err := strconv.ParseInt(t[1], 10, 64)
		if err != nil {
			return "bad-op"
		}
		r.c.WithConsecutiveRestartLimit(int(n))
		return "ok"
	case t[0] == "interval" && len(t) == 3:
		b, e1 := strconv.ParseInt(t[1], 10, 64)
		m, e2 := strconv.ParseInt(t[2], 10, 64)
		if e1 != nil || e2 != nil {
			return "bad-op"
		}
		r.c.WithRestartInterval(time.Duration(b), time.Duration(m))
		return "ok"
	case t[0] == "fixed" && len(t) == 2:
		d, err := strconv.ParseInt(t[1], 10, 64)
		if err != nil {
			return "bad-op"
		}
		r.c.WithFixedRestartInterval(time.Duration(d))
		return "ok"
	case t[0] == "delay" && len(t) == 2:
		c, err := strconv.ParseInt(t[1], 10, 64)
		if err != nil || c < 0 {
			return "bad-op"
		}
		lo, hi := int64(0), int64(0)
		for i := 0; i < backoffDraws; i++ {
			d, ok := r.c.VerifRestartInterval(int(c))
			if !ok {
				return "none"
			}
			if i == 0 || int64(d) < lo {
				lo = int64(d)
			}
			if i == 0 || int64(d) > hi {
				hi = int64(d)
			}
		}
		return fmt.Sprintf("%d %d", lo, hi)
	case t[0] == "cond" && len(t) == 1:
		return runtimeErrorFacts()
	}
	return "bad-op"
}

// runtimeErrorFacts: inside Shared.runtimeError, the condition of the `if` that guards the retry, the
// statement that computes the delay and the first argument of time.AfterFunc.
func runtimeErrorFacts() string {
	fset := token.NewFileSet()
	f, err := parser.ParseFile(fset, filepath.Join(repoDir(), "engine", "prc", "shared.go"), nil, 0)
	if err != nil {
		return "err:parse"
	}
	var out []string
	for _, d := range f.Decls {
		fd, ok := d.(*ast.FuncDecl)
		if !ok || fd.Name.Name != "runtimeError" || fd.Body == nil {
			continue
		}
		ast.Inspect(fd.Body, func(n ast.Node) bool {
			switch x := n.(type) {
			case *ast.IfStmt:
				c := oneLine(fset, x.Cond)
				if strings.Contains(c, "consecutiveRestartLimit") {
					out = append(out, "retry-if: "+c)
				}
			case *ast.AssignStmt:
				s := oneLine(fset, x)
				if strings.Contains(s, "restartInterval(") {
					out = append(out, "delay: "+s)
				}
			case *ast.CallExpr:
				if oneLine(fset, x.Fun) == "time.AfterFunc" && len(x.Args) > 0 {
					out = append(out, "afterfunc: "+oneLine(fset, x.Args[0]))
				}
			case *ast.IncDecStmt:
				out = append(out, "count: "+oneLine(fset, x))
			}
			return true
		})
	}
	if len(out) == 0 {
		return "err:not-found"
	}
	var b bytes.Buffer
	b.WriteString(strings.Join(out, " ; "))
	return b.String()
}

func sharedGen(rng *proto.RNG, tier string, shard, nshards int, w *bufio.Writer) {
	caseNo := 0
	emit := func(lines []string) {
		if caseNo%nshards == shard {
			fmt.Fprintf(w, "# case %d\n", caseNo)
			for _, l := range lines {
				fmt.Fprintln(w, l)
			}
		}
		caseNo++
	}
	emit([]string{"cond"})
	limits := []int64{-5, -1, 0, 1, 3, 9, 10, 11, 25, 64, 1000}
	pairs := [][2]int64{{100 * nsMs, 3 * nsSec}, {0, nsSec}, {1, 1}, {nsSec, nsHour}, {200 * nsMs, 10 * nsDay}, {nsMs, 0}}
	counts := []int{0, 1, 2, 3, 9, 10, 11, 12, 24, 25, 26, 35, 36, 37, 63, 64, 65, 1000, 1001, 5000}
	// every order of the two options (and the default limit), a later change of the limit, a fixed
	// interval overriding and being overridden
	for _, p := range pairs {
		iv := fmt.Sprintf("interval %d %d", p[0], p[1])
		for _, l := range limits {
			lim := fmt.Sprintf("limit %d", l)
			for _, order := range [][]string{{lim, iv}, {iv, lim}, {iv}, {iv, lim, "limit 7"}, {lim, "fixed 5000000", iv}, {lim, iv, "fixed 5000000"}, {lim}} {
				lines := append([]string{"new"}, order...)
				for _, c := range counts {
					lines = append(lines, fmt.Sprintf("delay %d", c))
				}
				emit(lines)
			}
		}
	}
	n := 150
	if tier == "thorough" {
		n = 1500
	}
	for i := 0; i < n; i++ {
		lines := []string{"new"}
		for k := rng.Range(1, 6); k > 0; k-- {
			switch rng.Intn(6) {
			case 0, 1:
				lines = append(lines, fmt.Sprintf("limit %d", int64(rng.Range(0, 60))-8))
			case 2, 3, 4:
				lines = append(lines, fmt.Sprintf("interval %d %d", logUniform(rng, 40), logUniform(rng, 50)))
			default:
				lines = append(lines, fmt.Sprintf("fixed %d", logUniform(rng, 40)))
			}
			for j := rng.Range(1, 8); j > 0; j-- {
				lines = append(lines, fmt.Sprintf("delay %d", rng.Range(0, 70)))
			}
		}
		emit(lines)
	}
}

func init() {
	proto.Register(&proto.Suite{Name: "shared-restart", Gen: sharedGen, New: func() proto.Runner { return &sharedRunner{} }})
}
