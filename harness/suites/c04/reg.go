package c04

import (
	"verifharness/suites/asys"
	// "Restart replaces the instance after a delay within the configured bounds": the delay OneForOne hands
	// to time.AfterFunc is chrono.StandardExponentialBackoff; its suites (property C18) are part of C04's check
	_ "verifharness/suites/c18"
)

func init() { asys.Register() }
