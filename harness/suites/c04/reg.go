package c04

import "verifharness/suites/asys"

func init() { asys.Register() }
