// Package c04 holds the harness suites of property C04 (registered from init functions).
package c04
