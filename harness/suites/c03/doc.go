// Package c03 holds the harness suites of property C03 (registered from init functions).
package c03
