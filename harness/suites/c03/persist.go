package c03

// The lifecycle clause "the first message an incarnation handles is OnLaunch" also covers persistent
// actors: the replay of the stored snapshot and events (recoveryPersistence) are handler invocations
// too and must come after OnLaunch. The suite `persist` of property C09 observes exactly that order (its
// canonical actor resets its state in OnLaunch), so it is part of C03's check as well.
import (
	// suite lifecycle-timers (registered by the c08 package): lifecycles under expiry, idle deadline, timers and
	// slow restarts, judged by the lifecycle automaton
	_ "verifharness/suites/c08"
	_ "verifharness/suites/c09"
)
