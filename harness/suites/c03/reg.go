package c03

import "verifharness/suites/asys"

func init() { asys.Register() }
