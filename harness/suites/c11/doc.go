// Package c11 holds the harness suites of property C11 (registered from init functions).
package c11
