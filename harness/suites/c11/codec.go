package c11

// codec (T-diff): generated protobuf messages of every message type reachable in /repo's module
// graph go through the real path node A -> node B (packMessage with the shipped protobuf codec,
// SharedMessage marshalled and unmarshalled as the transport does, the receiver loop,
// onDeliveryMessage) and, separately, through codec.Encode/Decode alone. The answer carries the
// type name and the deterministic re-marshalling of what arrived; the Lean model
// (Oracle.Codec = MV.Model.Link.pack/unpack over an opaque payload) answers with the original bytes.

import (
	"bufio"
	"encoding/hex"
	"errors"
	"fmt"
	"math"
	"strings"

	"github.com/kercylan98/minotaur/engine/prc"
	"github.com/kercylan98/minotaur/engine/prc/codec"
	"github.com/kercylan98/minotaur/engine/vivid"
	gproto "google.golang.org/protobuf/proto"
	"google.golang.org/protobuf/reflect/protoreflect"
	"google.golang.org/protobuf/reflect/protoregistry"
	"google.golang.org/protobuf/types/known/anypb"
	"google.golang.org/protobuf/types/known/durationpb"
	"google.golang.org/protobuf/types/known/emptypb"
	"google.golang.org/protobuf/types/known/structpb"
	"google.golang.org/protobuf/types/known/timestamppb"
	"google.golang.org/protobuf/types/known/wrapperspb"
	"verifharness/internal/proto"
)

var detMarshal = gproto.MarshalOptions{Deterministic: true}

var codecTypes = []string{
	"prc.ProcessId", "prc.DeliveryMessage", "prc.BatchDeliveryMessage", "prc.Handshake", "prc.Farewell",
	"vivid.OnTerminate",
	"google.protobuf.Int64Value", "google.protobuf.UInt64Value", "google.protobuf.Int32Value",
	"google.protobuf.BoolValue", "google.protobuf.StringValue", "google.protobuf.BytesValue",
	"google.protobuf.DoubleValue", "google.protobuf.Struct", "google.protobuf.Value", "google.protobuf.ListValue",
	"google.protobuf.Any", "google.protobuf.Duration", "google.protobuf.Timestamp", "google.protobuf.Empty"}

type codecRunner struct {
	l  *Link
	pb *codec.Protobuf
}

func (x *codecRunner) Reset() { x.l = nil }

func (x *codecRunner) link() *Link {
	if x.l == nil {
		x.l = NewLink(true, true)
		x.l.reg(1, "/r")
		x.l.nodes[0].refs["x"] = prc.NewProcessId("B", "/r")
		x.pb = codec.NewProtobuf()
	}
	return x.l
}

func known(ty string) bool {
	for _, t := range codecTypes {
		if t == ty {
			return true
		}
	}
	return false
}

func isLowerHex(s string) bool {
	if len(s)%2 != 0 {
		return false
	}
	for _, c := range s {
		if !(c >= '0' && c <= '9' || c >= 'a' && c <= 'f') {
			return false
		}
	}
	return true
}

func (x *codecRunner) Step(t []string) string {
	if len(t) != 6 || t[0] != "rt" {
		return "bad-op"
	}
	kind, ty, hx := t[1], t[2], t[3]
	if hx == "-" {
		hx = ""
	}
	sender, ok := parsePid(t[4])
	if !ok || (t[5] != "0" && t[5] != "1") || !isLowerHex(hx) || (kind != "bare" && kind != "wrap") {
		return "bad-op"
	}
	raw, _ := hex.DecodeString(hx)
	var msg prc.Message
	if ty == "error" {
		msg = errors.New(hx) // the text of the error is the hex string itself
	} else {
		if !known(ty) {
			return "err:unknown-type"
		}
		mt, err := protoregistry.GlobalTypes.FindMessageByName(protoreflect.FullName(ty))
		if err != nil {
			return "err:unknown-type"
		}
		m := mt.New().Interface()
		if err := gproto.Unmarshal(raw, m); err != nil {
			return "err:unmarshal"
		}
		msg = m
	}
	l := x.link()
	n := l.nodes[0]
	ref := n.refs["x"]
	note := ""
	// the codec alone
	if pm, isProto := msg.(gproto.Message); isProto {
		name, data, err := x.pb.Encode(pm)
		if err != nil || name != ty {
			note += " codec=encode-failed"
		} else if back, err := x.pb.Decode(name, data); err != nil {
			note += " codec=decode-failed"
		} else if bm, ok := back.(gproto.Message); !ok || !gproto.Equal(bm, pm) {
			note += " codec=not-equal"
		}
	}
	var m prc.Message = msg
	if kind == "wrap" {
		m = prc.WrapMessage(sender, ref, msg)
	}
	deliver(n.rc.GetProcess(ref), t[5] == "1", ref, sender, m)
	if !l.quiesce() {
		return "hang"
	}
	got := l.take()
	if len(got) != 1 {
		return fmt.Sprintf("deliveries=%d", len(got))
	}
	g := got[0]
	outTy, outData := "", ""
	switch v := g.raw.(type) {
	case error:
		outTy, outData = "error", v.Error()
	case gproto.Message:
		b, err := detMarshal.Marshal(v)
		if err != nil {
			return "err:remarshal"
		}
		outTy, outData = string(gproto.MessageName(v)), hex.EncodeToString(b)
	default:
		outTy = fmt.Sprintf("other:%T", v)
	}
	if outData == "" {
		outData = "-"
	}
	if !g.wrapped || !samePid(g.ws, g.sender) || !samePid(g.wr, g.receiver) {
		note += " wrapper=mismatch"
	}
	return fmt.Sprintf("type=%s data=%s sys=%d sender=%s receiver=%s%s", outTy, outData, b01(g.system), fmtPid(g.sender), fmtPid(g.receiver), note)
}

// ---------------------------------------------------------------- generation

func rndString(rng *proto.RNG) string {
	alphabets := []string{"abcxyz019", "/:@. -_", "äöüßλ中文🙂", "\x00\x01\x7f\"\\\n"}
	n := []int{0, 1, 2, 5, 17, 200}[rng.Intn(6)]
	var sb strings.Builder
	for i := 0; i < n; i++ {
		a := []rune(alphabets[rng.Pick(6, 2, 2, 1)])
		sb.WriteRune(a[rng.Intn(len(a))])
	}
	return sb.String()
}

func rndBytes(rng *proto.RNG) []byte {
	n := []int{0, 1, 3, 64, 1500}[rng.Intn(5)]
	b := make([]byte, n)
	for i := range b {
		b[i] = byte(rng.Next())
	}
	return b
}

func rndInt64(rng *proto.RNG) int64 {
	switch rng.Intn(6) {
	case 0:
		return 0
	case 1:
		return -1
	case 2:
		return math.MaxInt64
	case 3:
		return math.MinInt64
	case 4:
		return int64(rng.Intn(300)) - 150
	}
	return int64(rng.Next())
}

func rndPid(rng *proto.RNG) *prc.ProcessId {
	if rng.Intn(8) == 0 {
		return nil
	}
	return prc.NewProcessId(rndString(rng), rndString(rng))
}

func rndValue(rng *proto.RNG, depth int) *structpb.Value {
	k := rng.Intn(6)
	if depth <= 0 && k >= 4 {
		k = rng.Intn(4)
	}
	switch k {
	case 0:
		return structpb.NewNullValue()
	case 1:
		return structpb.NewNumberValue([]float64{0, -0.5, 1e300, 3, math.Inf(1), 1.0 / 3}[rng.Intn(6)])
	case 2:
		return structpb.NewStringValue(rndString(rng))
	case 3:
		return structpb.NewBoolValue(rng.Bool())
	case 4:
		var l []*structpb.Value
		for i := rng.Intn(4); i > 0; i-- {
			l = append(l, rndValue(rng, depth-1))
		}
		return structpb.NewListValue(&structpb.ListValue{Values: l})
	}
	return structpb.NewStructValue(rndStruct(rng, depth-1))
}

func rndStruct(rng *proto.RNG, depth int) *structpb.Struct {
	s := &structpb.Struct{Fields: map[string]*structpb.Value{}}
	for i := rng.Intn(5); i > 0; i-- {
		s.Fields[fmt.Sprintf("k%d%s", i, rndString(rng))] = rndValue(rng, depth)
	}
	return s
}

func rndDelivery(rng *proto.RNG) *prc.DeliveryMessage {
	return &prc.DeliveryMessage{MessageType: rndString(rng), MessageData: rndBytes(rng), System: rng.Bool(), Sender: rndPid(rng), Receiver: rndPid(rng)}
}

func rndMessage(rng *proto.RNG, ty string, depth int) gproto.Message {
	switch ty {
	case "prc.ProcessId":
		return prc.NewProcessId(rndString(rng), rndString(rng))
	case "prc.DeliveryMessage":
		return rndDelivery(rng)
	case "prc.BatchDeliveryMessage":
		b := &prc.BatchDeliveryMessage{}
		for i := rng.Intn(4); i > 0; i-- {
			b.Messages = append(b.Messages, rndDelivery(rng))
		}
		return b
	case "prc.Handshake":
		return &prc.Handshake{Address: rndString(rng)}
	case "prc.Farewell":
		return &prc.Farewell{Address: rndString(rng)}
	case "vivid.OnTerminate":
		return &vivid.OnTerminate{Gracefully: rng.Bool()}
	case "google.protobuf.Int64Value":
		return wrapperspb.Int64(rndInt64(rng))
	case "google.protobuf.UInt64Value":
		return wrapperspb.UInt64(uint64(rndInt64(rng)))
	case "google.protobuf.Int32Value":
		return wrapperspb.Int32(int32(rndInt64(rng)))
	case "google.protobuf.BoolValue":
		return wrapperspb.Bool(rng.Bool())
	case "google.protobuf.StringValue":
		return wrapperspb.String(rndString(rng))
	case "google.protobuf.BytesValue":
		return wrapperspb.Bytes(rndBytes(rng))
	case "google.protobuf.DoubleValue":
		return wrapperspb.Double(math.Float64frombits(rng.Next()))
	case "google.protobuf.Struct":
		return rndStruct(rng, 2)
	case "google.protobuf.Value":
		return rndValue(rng, 2)
	case "google.protobuf.ListValue":
		return rndValue(rng, 2).GetListValue()
	case "google.protobuf.Any":
		inner := codecTypes[rng.Intn(len(codecTypes))]
		if inner == "google.protobuf.Any" && depth <= 0 {
			inner = "prc.ProcessId"
		}
		a, err := anypb.New(rndMessage(rng, inner, depth-1))
		if err != nil {
			return &anypb.Any{}
		}
		return a
	case "google.protobuf.Duration":
		return &durationpb.Duration{Seconds: rndInt64(rng) % 315576000000, Nanos: int32(rng.Intn(1000000000))}
	case "google.protobuf.Timestamp":
		return &timestamppb.Timestamp{Seconds: rndInt64(rng) % 253402300799, Nanos: int32(rng.Intn(1000000000))}
	}
	return &emptypb.Empty{}
}

func codecGen(rng *proto.RNG, tier string, shard, nshards int, w *bufio.Writer) {
	caseNo := 0
	var lines []string
	flush := func() {
		if len(lines) > 0 && caseNo%nshards == shard {
			fmt.Fprintf(w, "# case %d\n", caseNo)
			for _, l := range lines {
				fmt.Fprintln(w, l)
			}
		}
		lines = nil
		caseNo++
	}
	senders := []string{"A/s", "-", "A/deep/er/path", "C/elsewhere"}
	line := func(kind, ty string, m gproto.Message, sender string, sys int) {
		hx := "-"
		if m != nil {
			b, err := detMarshal.Marshal(m)
			if err != nil {
				return
			}
			if len(b) > 0 {
				hx = hex.EncodeToString(b)
			}
		}
		lines = append(lines, fmt.Sprintf("rt %s %s %s %s %d", kind, ty, hx, sender, sys))
	}
	// (ii) every type x kind x system flag x sender, default-valued and random-valued
	for _, ty := range codecTypes {
		for _, kind := range []string{"bare", "wrap"} {
			for sys := 0; sys < 2; sys++ {
				for _, snd := range senders {
					line(kind, ty, nil, snd, sys) // all fields default
					line(kind, ty, rndMessage(rng, ty, 1), snd, sys)
				}
			}
		}
		flush()
	}
	// errors, bare and wrapped
	for _, txt := range []string{"", "626f6f6d", "00ff", hex.EncodeToString([]byte(strings.Repeat("long error ", 40)))} {
		for _, kind := range []string{"bare", "wrap"} {
			if txt == "" {
				lines = append(lines, fmt.Sprintf("rt %s error - A/s 0", kind))
			} else {
				lines = append(lines, fmt.Sprintf("rt %s error %s A/s 0", kind, txt))
			}
		}
	}
	flush()
	// (iii) random
	n := 40
	if tier == "thorough" {
		n = 800
	}
	for c := 0; c < n; c++ {
		for k := 0; k < 25; k++ {
			ty := codecTypes[rng.Intn(len(codecTypes))]
			line([]string{"bare", "wrap"}[rng.Intn(2)], ty, rndMessage(rng, ty, 2), senders[rng.Intn(len(senders))], rng.Intn(2))
		}
		if rng.Intn(4) == 0 {
			// malformed
			lines = append(lines, []string{"rt bare no.such.Type 00 A/s 0", "rt bare prc.ProcessId 0g A/s 0", "rt bare prc.ProcessId 0 A/s 0",
				"rt sideways prc.ProcessId 00 A/s 0", "rt bare prc.ProcessId 00 A/s 2", "rt bare prc.ProcessId 00 nopid 0", "rt", "frobnicate 1 2 3 4 5"}[rng.Intn(8)])
		}
		flush()
	}
}

func init() {
	proto.Register(&proto.Suite{Name: "codec", Gen: codecGen, New: func() proto.Runner { return &codecRunner{} }})
}
