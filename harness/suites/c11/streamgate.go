package c11

// streamgate (T-sched): the real sharedStreamProcess of engine/prc over an in-memory stream runs
// under the controlled scheduler, one scheduling quantum (= the shared-memory operation or critical
// section behind one verifhook.At("ssp.…") line) per `run` line; the Lean model
// MV.Model.StreamGate executes the same schedule and every line is compared. The final line is
// judged by MV.Spec.StreamGate.checkFinal as well.

import (
	"bufio"
	"errors"
	"fmt"
	"strings"
	"sync"

	"github.com/kercylan98/minotaur/engine/prc"
	"github.com/kercylan98/minotaur/toolkit/log"
	gproto "google.golang.org/protobuf/proto"
	"google.golang.org/protobuf/types/known/wrapperspb"
	"verifharness/internal/proto"
)

// ---------------------------------------------------------------- compact list syntax

func fmtRunsBody(l []int) string {
	if len(l) == 0 {
		return ""
	}
	var parts []string
	lo, hi := l[0], l[0]
	flush := func() {
		if lo == hi {
			parts = append(parts, fmt.Sprint(lo))
		} else {
			parts = append(parts, fmt.Sprintf("%d-%d", lo, hi))
		}
	}
	for _, x := range l[1:] {
		if x == hi+1 {
			hi = x
			continue
		}
		flush()
		lo, hi = x, x
	}
	flush()
	return strings.Join(parts, ",")
}

func fmtRuns(l []int) string { return "[" + fmtRunsBody(l) + "]" }

func fmtBatches(bs [][]int) string {
	p := make([]string, len(bs))
	for i, b := range bs {
		p[i] = fmtRunsBody(b)
	}
	return "[" + strings.Join(p, ";") + "]"
}

func fmtLast(bs [][]int) string {
	if len(bs) == 0 {
		return "-"
	}
	return fmtRuns(bs[len(bs)-1])
}

// ---------------------------------------------------------------- the fake stream

// fakeStream records what the sender hands to the stream. Every DeliveryMessage is checked
// against what the harness passed to the delivery function (type name, decodable payload, system
// flag, sender, receiver); a mismatch is reported in the state line (env=bad).
type fakeStream struct {
	mu        sync.Mutex
	fail      bool
	accepted  [][]int
	refused   [][]int
	farewells int
	closes    int
	envBad    int
	expect    func(id int) (sender, receiver string, system bool)
}

func (f *fakeStream) ids(m *prc.SharedMessage) ([]int, bool) {
	var dms []*prc.DeliveryMessage
	switch v := m.MessageType.(type) {
	case *prc.SharedMessage_DeliveryMessage:
		dms = []*prc.DeliveryMessage{v.DeliveryMessage}
	case *prc.SharedMessage_BatchDeliveryMessage:
		dms = v.BatchDeliveryMessage.Messages
		if len(dms) < 2 {
			f.envBad++ // a batch message is only used for two or more
		}
	default:
		return nil, false
	}
	var out []int
	for _, dm := range dms {
		var iv wrapperspb.Int64Value
		if dm.MessageType != "google.protobuf.Int64Value" || gproto.Unmarshal(dm.MessageData, &iv) != nil {
			f.envBad++
			out = append(out, -1)
			continue
		}
		id := int(iv.Value)
		s, r, sys := f.expect(id)
		if dm.Sender.GetLogicalAddress() != s || dm.Receiver.GetLogicalAddress() != r || dm.System != sys {
			f.envBad++
		}
		out = append(out, id)
	}
	return out, true
}

func (f *fakeStream) Send(m *prc.SharedMessage) error {
	f.mu.Lock()
	defer f.mu.Unlock()
	ids, isData := f.ids(m)
	if !isData {
		if _, ok := m.MessageType.(*prc.SharedMessage_Farewell); ok {
			f.farewells++
		}
		if f.fail {
			return errors.New("stream broken")
		}
		return nil
	}
	if f.fail {
		f.refused = append(f.refused, ids)
		return errors.New("stream broken")
	}
	f.accepted = append(f.accepted, ids)
	return nil
}

func (f *fakeStream) Recv() (*prc.SharedMessage, error) { select {} }
func (f *fakeStream) Close() {
	f.mu.Lock()
	f.closes++
	f.mu.Unlock()
}

// ---------------------------------------------------------------- one run

type GateRun struct {
	sc       *CSched
	fs       *fakeStream
	sp       *prc.VerifStreamProcess
	shared   *prc.Shared
	appended []int
	kinds    map[int]int // tid -> id an appender thread is about to append
}

func silentRC(addr string) *prc.ResourceController {
	lg := log.NewSilentLogger()
	return prc.NewResourceController(prc.FunctionalResourceControllerConfigurator(func(c *prc.ResourceControllerConfiguration) {
		c.WithPhysicalAddress(addr)
		c.WithLoggerProvider(log.FunctionalLoggerProvider(func() *log.Logger { return lg }))
	}))
}

func gateExpect(id int) (string, string, bool) {
	return fmt.Sprintf("/s%d", id%3), "/r", id%5 == 0
}

func NewGateRun() *GateRun {
	sc := NewCSched()
	sc.SpawnSite, sc.AdoptSite, sc.EndSite = "ssp.go", "ssp.run", "ssp.end"
	sc.Park = func(site string) bool {
		return strings.HasPrefix(site, "ssp.") || strings.HasPrefix(site, "fs.")
	}
	r := &GateRun{sc: sc, kinds: map[int]int{}}
	r.fs = &fakeStream{expect: gateExpect}
	r.shared = prc.NewShared(silentRC("A"))
	r.sp = r.shared.VerifNewStreamProcess("B", r.fs)
	r.sp.Attach()
	return r
}

func (r *GateRun) Close() { r.sc.Close() }

func (r *GateRun) deliver(id int) {
	s, rcv, sys := gateExpect(id)
	sender, receiver := prc.NewProcessId("A", s), prc.NewProcessId("B", rcv)
	p := r.sp.Process()
	if sys {
		p.DeliverySystemMessage(receiver, sender, nil, wrapperspb.Int64(int64(id)))
	} else {
		p.DeliveryUserMessage(receiver, sender, nil, wrapperspb.Int64(int64(id)))
	}
}

func b01(b bool) int {
	if b {
		return 1
	}
	return 0
}

func (r *GateRun) attached() bool {
	for _, a := range r.shared.VerifStreams() {
		if a == "B" {
			return true
		}
	}
	return false
}

func (r *GateRun) state() string {
	act, q := r.sp.Gate()
	f := r.fs
	f.mu.Lock()
	defer f.mu.Unlock()
	s := fmt.Sprintf("act=%d q=%d att=%d term=%d fw=%d cl=%d nb=%d la=%s nr=%d lr=%s", b01(act), q, b01(r.attached()),
		b01(r.sp.Process().IsTerminated()), f.farewells, f.closes, len(f.accepted), fmtLast(f.accepted), len(f.refused), fmtLast(f.refused))
	if f.envBad > 0 {
		s += fmt.Sprintf(" env=bad:%d", f.envBad)
	}
	return s
}

// Spawn starts a thread: app <id> | fail <0|1>
func (r *GateRun) Spawn(t []string) string {
	if len(t) != 2 {
		return "bad-op"
	}
	v, ok := proto.Atoi(t[1])
	if !ok || v < 0 {
		return "bad-op"
	}
	var tid int
	switch t[0] {
	case "app":
		tid = r.sc.Go(func() { r.deliver(v) })
		r.kinds[tid] = v
	case "fail":
		tid = r.sc.Go(func() {
			r.sc.Yield("fs.fail")
			r.fs.mu.Lock()
			r.fs.fail = v != 0
			r.fs.mu.Unlock()
		})
	default:
		return "bad-op"
	}
	site, _, _ := r.sc.Site(tid)
	return fmt.Sprintf("t%d@%s", tid, site)
}

func fmtTids(l []int) string {
	p := make([]string, len(l))
	for i, s := range l {
		p[i] = fmt.Sprintf("t%d", s)
	}
	return strings.Join(p, ",")
}

func (r *GateRun) Live() []int { return r.sc.Live() }

// RunThread executes one quantum of thread tid.
func (r *GateRun) RunThread(tid int) string {
	before, _, exists := r.sc.Site(tid)
	if !exists {
		return "skip"
	}
	site, done, spawned, ok := r.sc.Step(tid)
	if !ok {
		return "skip"
	}
	if site == "hang" {
		return "hang"
	}
	if before == "ssp.app" {
		r.appended = append(r.appended, r.kinds[tid])
	}
	if done {
		site = "done"
	}
	return fmt.Sprintf("t%d@%s spawn=[%s] %s", tid, site, fmtTids(spawned), r.state())
}

// Bulk delivers n messages from the harness's own goroutine (not a scheduled thread).
func (r *GateRun) Bulk(from, n int) string {
	before := r.sc.NumThreads()
	for k := 0; k < n; k++ {
		r.deliver(from + k)
		r.appended = append(r.appended, from+k)
	}
	if !r.sc.WaitQuiet() {
		return "hang"
	}
	var spawned []int
	for i := before; i < r.sc.NumThreads(); i++ {
		spawned = append(spawned, i)
	}
	return fmt.Sprintf("spawn=[%s] %s", fmtTids(spawned), r.state())
}

// Drain runs the lowest live thread until nobody is live and prints the final line.
func (r *GateRun) Drain() string {
	for i := 0; i < 100000; i++ {
		l := r.sc.Live()
		if len(l) == 0 {
			break
		}
		if r.RunThread(l[0]) == "hang" {
			return "hang"
		}
	}
	act, q := r.sp.Gate()
	f := r.fs
	f.mu.Lock()
	defer f.mu.Unlock()
	s := fmt.Sprintf("act=%d q=%d att=%d term=%d fw=%d cl=%d appended=%s sent=%s refused=%d refusedb=%s", b01(act), q,
		b01(r.attached()), b01(r.sp.Process().IsTerminated()), f.farewells, f.closes, fmtRuns(r.appended), fmtBatches(f.accepted), len(f.refused), fmtBatches(f.refused))
	if f.envBad > 0 {
		s += fmt.Sprintf(" env=bad:%d", f.envBad)
	}
	return s
}

type gateRunner struct{ r *GateRun }

func (x *gateRunner) Reset() {
	if x.r != nil {
		x.r.Close()
		x.r = nil
	}
}

func (x *gateRunner) Step(t []string) string {
	if t[0] == "gate" && len(t) == 1 {
		x.Reset()
		x.r = NewGateRun()
		return "ok"
	}
	if x.r == nil {
		x.r = NewGateRun()
	}
	switch {
	case t[0] == "spawn":
		return x.r.Spawn(t[1:])
	case t[0] == "run" && len(t) == 2:
		k, ok := proto.Atoi(t[1])
		if !ok || k < 0 {
			return "bad-op"
		}
		return x.r.RunThread(k)
	case t[0] == "bulk" && len(t) == 3:
		a, ok1 := proto.Atoi(t[1])
		n, ok2 := proto.Atoi(t[2])
		if !ok1 || !ok2 || a < 0 || n < 0 {
			return "bad-op"
		}
		return x.r.Bulk(a, n)
	case t[0] == "drain" && len(t) == 1:
		return x.r.Drain()
	}
	return "bad-op"
}

// ---------------------------------------------------------------- generation

// a scenario is a list of header lines (spawn / bulk) executed before the schedule
type gateScenario [][]string

func gateScenarios() []gateScenario {
	var out []gateScenario
	// 2–4 appenders, with and without a failing stream; one or two messages per appender are
	// obtained by giving several appender threads (an appender thread delivers one message)
	for n := 2; n <= 4; n++ {
		for fail := 0; fail <= 2; fail++ { // 0: never, 1: a failure thread, 2: failure and recovery threads
			var sc gateScenario
			for i := 1; i <= n; i++ {
				sc = append(sc, []string{"spawn", "app", fmt.Sprint(i)})
			}
			if fail >= 1 {
				sc = append(sc, []string{"spawn", "fail", "1"})
			}
			if fail >= 2 {
				sc = append(sc, []string{"spawn", "fail", "0"})
			}
			out = append(out, sc)
		}
	}
	// the batch limit: a bulk of limit-1 / limit / limit+1 / 3000 messages queued behind a parked
	// sender, then appenders racing with the cuts
	for _, n := range []int{1023, 1024, 1025, 3000} {
		for fail := 0; fail <= 1; fail++ {
			sc := gateScenario{{"bulk", "100", fmt.Sprint(n)}, {"spawn", "app", "1"}, {"spawn", "app", "2"}}
			if fail == 1 {
				sc = append(sc, []string{"spawn", "fail", "1"})
			}
			out = append(out, sc)
		}
	}
	return out
}

func (sc gateScenario) lines() []string {
	lines := []string{"gate"}
	for _, s := range sc {
		lines = append(lines, strings.Join(s, " "))
	}
	return lines
}

func gateReplay(sc gateScenario, prefix []int) *GateRun {
	r := NewGateRun()
	for _, s := range sc {
		switch s[0] {
		case "spawn":
			r.Spawn(s[1:])
		case "bulk":
			a, _ := proto.Atoi(s[1])
			n, _ := proto.Atoi(s[2])
			r.Bulk(a, n)
		}
	}
	for _, t := range prefix {
		r.RunThread(t)
	}
	return r
}

// gateDFS enumerates every complete schedule of the scenario with at most bound pre-emptions
// (stateless exploration of the real code).
func gateDFS(sc gateScenario, bound, limit int, emit func(sched []int)) {
	n := 0
	var rec func(prefix []int, pre int)
	rec = func(prefix []int, pre int) {
		if n >= limit {
			return
		}
		r := gateReplay(sc, prefix)
		live := r.Live()
		r.Close()
		if len(live) == 0 || len(prefix) >= 400 {
			n++
			emit(append([]int(nil), prefix...))
			return
		}
		last := -1
		if len(prefix) > 0 {
			last = prefix[len(prefix)-1]
		}
		lastLive := false
		for _, t := range live {
			if t == last {
				lastLive = true
			}
		}
		order := live
		if lastLive {
			order = []int{last}
			for _, t := range live {
				if t != last {
					order = append(order, t)
				}
			}
		}
		for _, t := range order {
			cost := 0
			if lastLive && t != last {
				cost = 1
			}
			if pre+cost > bound {
				continue
			}
			rec(append(prefix, t), pre+cost)
		}
	}
	rec(nil, 0)
}

func gateGen(rng *proto.RNG, tier string, shard, nshards int, w *bufio.Writer) {
	caseNo := 0
	emit := func(lines []string) {
		fmt.Fprintf(w, "# case %d.%d\n", shard, caseNo)
		for _, l := range lines {
			fmt.Fprintln(w, l)
		}
		caseNo++
	}
	bound, limit := 2, 60
	if tier == "thorough" {
		bound, limit = 3, 500
	}
	for i, sc := range gateScenarios() {
		if i%nshards != shard {
			continue
		}
		lim := limit
		if sc[0][0] == "bulk" {
			lim = limit / 4 // every replay of the DFS re-delivers the bulk
		}
		gateDFS(sc, bound, lim, func(s []int) {
			lines := sc.lines()
			for _, t := range s {
				lines = append(lines, fmt.Sprintf("run %d", t))
			}
			lines = append(lines, "drain")
			emit(lines)
		})
	}
	// random: more appenders arriving late, bulks, failures and recoveries at random moments
	nRandom := 12
	if tier == "thorough" {
		nRandom = 120
	}
	for c := 0; c < nRandom; c++ {
		r := NewGateRun()
		lines := []string{"gate"}
		id, bulkBase := 0, 100000
		spawn := func() {
			var s []string
			switch rng.Pick(8, 1, 1) {
			case 0:
				id++
				s = []string{"app", fmt.Sprint(id)}
			case 1:
				s = []string{"fail", "1"}
			default:
				s = []string{"fail", "0"}
			}
			r.Spawn(s)
			lines = append(lines, "spawn "+strings.Join(s, " "))
		}
		bulk := func() {
			n := []int{1, 2, 5, 1023, 1024, 1025, 2048, 2049, 3000}[rng.Intn(9)]
			r.Bulk(bulkBase, n)
			lines = append(lines, fmt.Sprintf("bulk %d %d", bulkBase, n))
			bulkBase += n + 7
		}
		for k := rng.Range(1, 4); k > 0; k-- {
			spawn()
		}
		steps := rng.Range(10, 120)
		bulks := 0
		for k := 0; k < steps; k++ {
			if rng.Intn(7) == 0 && id < 16 {
				spawn()
				continue
			}
			if rng.Intn(25) == 0 && bulks < 2 {
				bulks++
				bulk()
				continue
			}
			live := r.Live()
			if len(live) == 0 {
				if id >= 16 {
					break
				}
				spawn()
				continue
			}
			t := live[rng.Intn(len(live))]
			r.RunThread(t)
			lines = append(lines, fmt.Sprintf("run %d", t))
			if rng.Intn(30) == 0 {
				lines = append(lines, fmt.Sprintf("run %d", 40+rng.Intn(30))) // malformed: unknown thread
			}
		}
		r.Close()
		lines = append(lines, "drain")
		emit(lines)
	}
	if shard == 0 {
		// malformed stream
		emit([]string{"gate", "spawn app x", "spawn", "run", "run -1", "bulk 1", "frobnicate", "spawn app 1", "run 0", "run 0", "run 1", "drain"})
	}
}

func init() {
	proto.Register(&proto.Suite{Name: "streamgate", Gen: gateGen, New: func() proto.Runner { return &gateRunner{} }})
}

var _ = gproto.Marshal
