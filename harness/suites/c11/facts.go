package c11

// streamgate-facts (T-facts): the skeleton of shared-memory operations (locks, appends and cuts of
// the queue, atomics, stream operations, hook lines) of every function the models
// MV.Model.StreamGate / MV.Model.Link were transcribed from, regenerated from /repo's source with
// go/ast on every run and compared with the table in MV.Model.StreamGateFacts. A re-ordered,
// removed or added operation breaks the tie even if the hook lines stay where they are.

import (
	"bufio"
	"fmt"
	"os"
	"path/filepath"
	"regexp"
	"strings"

	"verifharness/internal/facts"
	"verifharness/internal/proto"
)

func repoRoot() string {
	if r := os.Getenv("VERIF_REPO"); r != "" {
		return r
	}
	return "/repo"
}

var c11Keep = regexp.MustCompile(`^(verifhook\.At|append\(|len\(|panic\(|errors\.New|WrapMessage\(|[A-Za-z_][A-Za-z0-9_]*(\.[A-Za-z_][A-Za-z0-9_]*)*\.(Lock|Unlock|RLock|RUnlock|Load|Store|CompareAndSwap|LoadAndDelete|Delete|Send|Recv|Close|Terminate|IsTerminated|Encode|Decode|GetProcess|GracefulStop|CloseSend|Range|DeliveryUserMessage|DeliverySystemMessage|packMessage|activation|send|detachStream|detachStreamOf|closeStream|attachStream|onDeliveryMessage|onBatchDeliveryMessage|unknownReceiverRedirect)\()`)

// function -> (file, receiver)
var c11Funcs = [][3]string{
	{"packMessage", "shared_stream_process.go", "sharedStreamProcess"},
	{"activation", "shared_stream_process.go", "sharedStreamProcess"},
	{"send", "shared_stream_process.go", "sharedStreamProcess"},
	{"IsTerminated", "shared_stream_process.go", "sharedStreamProcess"},
	{"Terminate", "shared_stream_process.go", "sharedStreamProcess"},
	{"DeliveryUserMessage", "shared_stream_process.go", "sharedStreamProcess"},
	{"DeliverySystemMessage", "shared_stream_process.go", "sharedStreamProcess"},
	{"detachStream", "shared.go", "Shared"},
	{"detachStreamOf", "shared.go", "Shared"},
	{"closeStream", "shared.go", "Shared"},
	{"onDeliveryMessage", "shared.go", "Shared"},
	{"onBatchDeliveryMessage", "shared.go", "Shared"},
	{"streaming", "shared.go", "Shared"},
	{"attachStream", "shared.go", "Shared"},
	{"Close", "shared.go", "Shared"},
	{"clientStream.Send", "shared_stream.go", "clientStream"},
	{"serverStream.Send", "shared_stream.go", "serverStream"},
	{"serverStream.Close", "shared_stream.go", "serverStream"},
}

type c11FactsRunner struct{}

func (c11FactsRunner) Reset() {}
func (c11FactsRunner) Step(t []string) string {
	if len(t) != 2 || t[0] != "facts" {
		return "bad-op"
	}
	for _, f := range c11Funcs {
		if f[0] == t[1] {
			fn := f[0]
			if i := strings.IndexByte(fn, '.'); i >= 0 {
				fn = fn[i+1:]
			}
			s, err := facts.Skeleton(filepath.Join(repoRoot(), "engine/prc", f[1]), f[2], fn, c11Keep)
			if err != nil {
				return "err:" + strings.ReplaceAll(err.Error(), " ", "_")
			}
			if s == "" {
				return "-empty-"
			}
			return s
		}
	}
	return "bad-op"
}

func c11FactsGen(rng *proto.RNG, tier string, shard, nshards int, w *bufio.Writer) {
	if shard != 0 {
		return
	}
	fmt.Fprintln(w, "# case facts")
	for _, f := range c11Funcs {
		fmt.Fprintf(w, "facts %s\n", f[0])
	}
	fmt.Fprintln(w, "facts nosuch")
	fmt.Fprintln(w, "facts")
}

func init() {
	proto.Register(&proto.Suite{Name: "streamgate-facts", Gen: c11FactsGen, New: func() proto.Runner { return c11FactsRunner{} }})
}
