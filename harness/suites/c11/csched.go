package c11

// Controlled scheduler of the streamgate T-sched suite. It is harness/internal/sched plus
// *adoption*: the sender goroutine of sharedStreamProcess is started by a plain `go func(){…}`
// inside /repo (not through a dispatcher the harness could replace), so it cannot be created with
// Go(). Instead the code announces it (`verifhook.At("ssp.go")` in front of the go statement: the
// scheduler expects one more goroutine), the new goroutine registers itself as a thread at its first
// statement (`verifhook.At("ssp.run")`) and signs off at its last (`verifhook.At("ssp.end")`).
// A quantum is over when every managed goroutine is parked or finished AND no announced goroutine
// is still missing, so thread ids are deterministic.

import (
	"bytes"
	"runtime"
	"strconv"
	"sync"
	"sync/atomic"
	"time"

	"github.com/kercylan98/minotaur/toolkit/verifhook"
)

type cthread struct {
	s    *CSched
	tid  int
	site string
	done bool
	wake chan struct{}
}

var cregistry sync.Map // goroutine id -> *cthread
var ccurrent atomic.Pointer[CSched]

func cgoid() int64 {
	var buf [64]byte
	n := runtime.Stack(buf[:], false)
	b := buf[:n]
	b = b[len("goroutine "):]
	i := bytes.IndexByte(b, ' ')
	id, _ := strconv.ParseInt(string(b[:i]), 10, 64)
	return id
}

func cglobalAt(site string) {
	if v, ok := cregistry.Load(cgoid()); ok {
		t := v.(*cthread)
		t.s.at(t, site)
		return
	}
	if s := ccurrent.Load(); s != nil {
		s.unmanagedAt(site)
	}
}

type CSched struct {
	mu      sync.Mutex
	note    chan struct{}
	threads []*cthread
	active  int // managed goroutines currently running
	expect  int // announced goroutines that have not registered yet
	// Park decides which sites park (others pass through)
	Park                         func(site string) bool
	SpawnSite, AdoptSite, EndSite string
	Hung                         bool
	closed                       bool
}

func NewCSched() *CSched {
	s := &CSched{note: make(chan struct{}, 1)}
	verifhook.Set(cglobalAt)
	ccurrent.Store(s)
	return s
}

func (s *CSched) Close() {
	s.mu.Lock()
	s.closed = true
	s.mu.Unlock()
	ccurrent.CompareAndSwap(s, nil)
}

// unmanagedAt: a goroutine that is not a thread reached a hook: the harness's own goroutine
// (bulk operations) announcing a spawn, or an announced goroutine registering itself.
func (s *CSched) unmanagedAt(site string) {
	s.mu.Lock()
	if s.closed {
		s.mu.Unlock()
		if site == s.AdoptSite {
			select {} // goroutine of an abandoned run
		}
		return
	}
	switch site {
	case s.SpawnSite:
		s.expect++
		s.mu.Unlock()
	case s.AdoptSite:
		t := &cthread{s: s, tid: len(s.threads)}
		s.threads = append(s.threads, t)
		s.active++
		s.expect--
		cregistry.Store(cgoid(), t)
		s.mu.Unlock()
	default:
		s.mu.Unlock()
	}
}

func (s *CSched) at(t *cthread, site string) {
	s.mu.Lock()
	if s.closed {
		s.active--
		s.mu.Unlock()
		select {} // abandoned system: never continue
	}
	if site == s.SpawnSite {
		s.expect++
		s.mu.Unlock()
		return
	}
	if site == s.EndSite {
		t.done = true
		t.site = ""
		s.active--
		cregistry.Delete(cgoid())
		s.mu.Unlock()
		s.ping()
		return
	}
	if s.Park != nil && !s.Park(site) {
		s.mu.Unlock()
		return
	}
	t.site = site
	t.wake = make(chan struct{})
	w := t.wake
	s.active--
	s.mu.Unlock()
	s.ping()
	<-w
}

// Yield is At for harness code (fake stream callbacks).
func (s *CSched) Yield(site string) {
	if v, ok := cregistry.Load(cgoid()); ok {
		if t := v.(*cthread); t.s == s {
			s.at(t, site)
		}
	}
}

// Go starts f as a managed goroutine and waits until everything is parked or finished.
func (s *CSched) Go(f func()) int {
	s.mu.Lock()
	if s.closed {
		s.mu.Unlock()
		return -1
	}
	t := &cthread{s: s, tid: len(s.threads)}
	s.threads = append(s.threads, t)
	s.active++
	s.mu.Unlock()
	go func() {
		g := cgoid()
		cregistry.Store(g, t)
		defer func() {
			cregistry.Delete(g)
			s.mu.Lock()
			t.done = true
			t.site = ""
			s.active--
			s.mu.Unlock()
			s.ping()
		}()
		f()
	}()
	s.WaitQuiet()
	return t.tid
}

func (s *CSched) ping() {
	select {
	case s.note <- struct{}{}:
	default:
	}
}

// WaitQuiet blocks until every managed goroutine is parked or finished and no announced goroutine
// is missing.
func (s *CSched) WaitQuiet() bool {
	deadline := time.NewTimer(20 * time.Second)
	defer deadline.Stop()
	for {
		s.mu.Lock()
		a, e := s.active, s.expect
		s.mu.Unlock()
		if a <= 0 && e <= 0 {
			return true
		}
		select {
		case <-s.note:
		case <-deadline.C:
			s.mu.Lock()
			s.Hung = true
			s.mu.Unlock()
			return false
		}
	}
}

func (s *CSched) Site(tid int) (string, bool, bool) {
	s.mu.Lock()
	defer s.mu.Unlock()
	if tid < 0 || tid >= len(s.threads) {
		return "", false, false
	}
	t := s.threads[tid]
	return t.site, t.done, true
}

func (s *CSched) NumThreads() int {
	s.mu.Lock()
	defer s.mu.Unlock()
	return len(s.threads)
}

// Step releases thread tid for one quantum.
func (s *CSched) Step(tid int) (site string, done bool, spawned []int, ok bool) {
	s.mu.Lock()
	if tid < 0 || tid >= len(s.threads) || s.threads[tid].done || s.threads[tid].site == "" {
		s.mu.Unlock()
		return "", false, nil, false
	}
	t := s.threads[tid]
	before := len(s.threads)
	t.site = ""
	s.active++
	close(t.wake)
	s.mu.Unlock()
	if !s.WaitQuiet() {
		return "hang", false, nil, true
	}
	s.mu.Lock()
	defer s.mu.Unlock()
	for i := before; i < len(s.threads); i++ {
		spawned = append(spawned, i)
	}
	return t.site, t.done, spawned, true
}

// Live returns the tids of threads that are parked (not finished).
func (s *CSched) Live() []int {
	s.mu.Lock()
	defer s.mu.Unlock()
	var l []int
	for _, t := range s.threads {
		if !t.done && t.site != "" {
			l = append(l, t.tid)
		}
	}
	return l
}
