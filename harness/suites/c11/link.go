package c11

// link (T-diff): two real prc.Shared (node A, node B; not listening) joined by an in-memory pipe
// that stands for the gRPC stream. Real code on the path: GetProcess with the per-reference cache,
// sharedStreamProcess (packMessage, codec, sender goroutine), Shared.streaming (receiver loop),
// onDeliveryMessage / onBatchDeliveryMessage, detachStream. Every operation is run to quiescence
// and answers with the deliveries the recording processes saw. The Lean model is
// MV.Model.LinkSys (Oracle.Link); the spec differs from the model where a reference cached a stream
// that has died since.

import (
	"bufio"
	"errors"
	"fmt"
	"io"
	"os"
	"runtime"
	"strings"
	"sync"
	"sync/atomic"
	"time"

	"github.com/kercylan98/minotaur/engine/prc"
	"github.com/kercylan98/minotaur/toolkit/log"
	gproto "google.golang.org/protobuf/proto"
	"google.golang.org/protobuf/types/known/wrapperspb"
	"verifharness/internal/proto"
)

var linkEvents atomic.Int64 // bumped by every pipe / recorder event (quiescence detection)

// ---------------------------------------------------------------- the pipe

type pipe struct {
	mu      sync.Mutex
	cond    *sync.Cond
	epoch   int
	dead    bool
	wire    [2][][]byte             // wire[d]: messages sent by side d, marshalled as gRPC would
	waiting [2]bool                 // side d's receiver loop is blocked in Recv
	paused  [2]bool                 // side d's receiver loop does not take the next message (reorder suite)
	running [2]bool                 // side d's receiver loop has not returned yet
}

type endpoint struct {
	p    *pipe
	side int
}

func (e *endpoint) Send(m *prc.SharedMessage) error {
	linkEvents.Add(1)
	e.p.mu.Lock()
	defer e.p.mu.Unlock()
	if e.p.dead {
		return errors.New("stream closed")
	}
	raw, err := gproto.Marshal(m)
	if err != nil {
		return err
	}
	e.p.wire[e.side] = append(e.p.wire[e.side], raw)
	e.p.cond.Broadcast()
	return nil
}

func (e *endpoint) Recv() (*prc.SharedMessage, error) {
	p, from := e.p, 1-e.side
	p.mu.Lock()
	defer p.mu.Unlock()
	for (len(p.wire[from]) == 0 && !p.dead) || p.paused[e.side] {
		p.waiting[e.side] = true
		p.cond.Wait()
	}
	p.waiting[e.side] = false
	linkEvents.Add(1)
	if len(p.wire[from]) == 0 {
		return nil, io.EOF
	}
	raw := p.wire[from][0]
	p.wire[from] = p.wire[from][1:]
	m := new(prc.SharedMessage)
	if err := gproto.Unmarshal(raw, m); err != nil {
		return nil, err
	}
	return m, nil
}

func (e *endpoint) Close() {
	linkEvents.Add(1)
	e.p.mu.Lock()
	e.p.dead = true
	e.p.cond.Broadcast()
	e.p.mu.Unlock()
}

// ---------------------------------------------------------------- recorders

type seen struct {
	node     int
	target   string
	system   bool
	sender   *prc.ProcessId
	receiver *prc.ProcessId
	wrapped  bool
	ws, wr   *prc.ProcessId
	payload  string
	raw      prc.Message // the inner message as it arrived
	intv     int64
	isInt    bool
}

type recorder struct {
	l      *Link
	node   int
	target string
	mine   []*seen
	term   atomic.Bool
}

func fmtPid(p *prc.ProcessId) string {
	if p == nil {
		return "-"
	}
	return p.GetPhysicalAddress() + p.GetLogicalAddress()
}

func (r *recorder) Initialize(rc *prc.ResourceController, id *prc.ProcessId) {}
func (r *recorder) IsTerminated() bool                                  { return r.term.Load() }
func (r *recorder) Terminate(source *prc.ProcessId)                     { r.term.Store(true) }
func (r *recorder) DeliveryUserMessage(receiver, sender, forward *prc.ProcessId, message prc.Message) {
	r.see(false, receiver, sender, message)
}
func (r *recorder) DeliverySystemMessage(receiver, sender, forward *prc.ProcessId, message prc.Message) {
	r.see(true, receiver, sender, message)
}

func (r *recorder) see(system bool, receiver, sender *prc.ProcessId, message prc.Message) {
	x := &seen{node: r.node, target: r.target, system: system, sender: sender, receiver: receiver}
	inner := message
	if w, ok := message.(*prc.MessageWrapper); ok {
		x.wrapped, x.ws, x.wr, inner = true, w.Sender, w.Receiver, w.Message
	}
	x.raw = inner
	switch v := inner.(type) {
	case *wrapperspb.Int64Value:
		x.payload, x.intv, x.isInt = fmt.Sprintf("int:%d", v.Value), v.Value, true
	case *wrapperspb.StringValue:
		x.payload = "str:" + v.Value
	case *prc.ProcessId:
		x.payload = "pid:" + fmtPid(v)
	case error:
		x.payload = "err:" + v.Error()
	default:
		x.payload = fmt.Sprintf("other:%T", inner)
	}
	r.l.mu.Lock()
	r.mine = append(r.mine, x)
	r.l.out = append(r.l.out, x)
	r.l.mu.Unlock()
	linkEvents.Add(1)
}

func samePid(a, b *prc.ProcessId) bool {
	if a == nil || b == nil {
		return a == nil && b == nil
	}
	return a.Equal(b)
}

func (x *seen) parts() (pre, sfx string) {
	k := "u"
	if x.system {
		k = "s"
	}
	pre = fmt.Sprintf("%s:%s:%s:%s>%s:", []string{"A", "B"}[x.node], x.target, k, fmtPid(x.sender), fmtPid(x.receiver))
	if !x.wrapped {
		sfx = ":bare"
	} else if !samePid(x.ws, x.sender) || !samePid(x.wr, x.receiver) {
		sfx = fmt.Sprintf(":w=%s>%s", fmtPid(x.ws), fmtPid(x.wr))
	}
	return
}

func fmtSeenList(l []*seen) string {
	var parts []string
	type run struct {
		pre, sfx string
		lo, hi   int64
	}
	var cur *run
	flush := func() {
		if cur == nil {
			return
		}
		if cur.lo == cur.hi {
			parts = append(parts, fmt.Sprintf("%sint:%d%s", cur.pre, cur.lo, cur.sfx))
		} else {
			parts = append(parts, fmt.Sprintf("%sint:[%d-%d]%s", cur.pre, cur.lo, cur.hi, cur.sfx))
		}
		cur = nil
	}
	for _, x := range l {
		pre, sfx := x.parts()
		if x.isInt {
			if cur != nil && cur.pre == pre && cur.sfx == sfx && x.intv == cur.hi+1 {
				cur.hi = x.intv
				continue
			}
			flush()
			cur = &run{pre, sfx, x.intv, x.intv}
			continue
		}
		flush()
		parts = append(parts, pre+x.payload+sfx)
	}
	flush()
	return "[" + strings.Join(parts, " ") + "]"
}

// ---------------------------------------------------------------- nodes and the link

type lnode struct {
	idx     int
	phys    string
	sub     bool
	rc      *prc.ResourceController
	shared  *prc.Shared
	recs    map[string]*recorder
	dead    *recorder
	refs    map[string]*prc.ProcessId
	streams []*prc.VerifStreamProcess
}

type Link struct {
	mu    sync.Mutex
	out   []*seen
	nodes [2]*lnode
	up    bool
	pipes []*pipe
	loops atomic.Int64 // receiver loops running
	hung  bool
}

func (l *Link) newNode(idx int, phys string, sub bool) *lnode {
	n := &lnode{idx: idx, phys: phys, sub: sub, recs: map[string]*recorder{}, refs: map[string]*prc.ProcessId{}}
	n.dead = &recorder{l: l, node: idx, target: "dead"}
	lg := log.NewSilentLogger()
	n.rc = prc.NewResourceController(prc.FunctionalResourceControllerConfigurator(func(c *prc.ResourceControllerConfiguration) {
		c.WithPhysicalAddress(phys)
		c.WithLoggerProvider(log.FunctionalLoggerProvider(func() *log.Logger { return lg }))
		if sub {
			c.WithNotFoundSubstitute(n.dead)
		}
	}))
	guard := prc.NewProcessId(phys, "/guard")
	n.shared = prc.NewShared(n.rc, prc.FunctionalSharedConfigurator(func(c *prc.SharedConfiguration) {
		if !sub {
			c.WithUnknownReceiverRedirect(func(message prc.Message) *prc.ProcessId { return guard.Clone() })
		}
	}))
	// what Share() registers, with Shared.open replaced by the in-memory pipe
	n.rc.RegisterResolver(prc.FunctionalPhysicalAddressResolver(func(id *prc.ProcessId) prc.Process {
		pa := id.GetPhysicalAddress()
		if p := n.shared.VerifStreamOf(pa); p != nil {
			return p
		}
		if pa != l.nodes[1-idx].phys {
			return nil
		}
		if p := l.open(idx); p != nil {
			return p
		}
		return nil
	}))
	return n
}

func NewLink(subA, subB bool) *Link {
	l := &Link{up: true}
	l.nodes[0] = l.newNode(0, "A", subA)
	l.nodes[1] = l.newNode(1, "B", subB)
	for i, sub := range []bool{subA, subB} {
		if !sub {
			l.reg(i, "/guard")
		}
	}
	return l
}

func (l *Link) reg(i int, logical string) string {
	n := l.nodes[i]
	r := &recorder{l: l, node: i, target: logical}
	if _, exist := n.rc.Register(prc.NewProcessId(n.phys, logical), r); exist {
		return "exists"
	}
	n.recs[logical] = r
	return "ok"
}

func (l *Link) unreg(i int, logical string) string {
	n := l.nodes[i]
	n.rc.Unregister(nil, prc.NewProcessId(n.phys, logical))
	return "ok"
}

// open stands for Shared.open on node `from` and StreamHandler on the peer: a new stream (epoch)
// with one stream process and one receiver loop per side.
func (l *Link) open(from int) prc.Process {
	l.mu.Lock()
	if !l.up {
		l.mu.Unlock()
		return nil
	}
	p := &pipe{epoch: len(l.pipes)}
	p.cond = sync.NewCond(&p.mu)
	l.pipes = append(l.pipes, p)
	l.mu.Unlock()
	var sps [2]*prc.VerifStreamProcess
	for side := 0; side < 2; side++ {
		n := l.nodes[side]
		sps[side] = n.shared.VerifNewStreamProcess(l.nodes[1-side].phys, &endpoint{p: p, side: side})
		n.streams = append(n.streams, sps[side])
	}
	for side := 0; side < 2; side++ {
		n, sp, side := l.nodes[side], sps[side], side
		l.loops.Add(1)
		p.mu.Lock()
		p.running[side] = true
		p.mu.Unlock()
		go func() {
			_ = n.shared.VerifStreaming(sp)
			p.mu.Lock()
			p.running[side] = false
			p.mu.Unlock()
			linkEvents.Add(1)
			l.loops.Add(-1)
		}()
	}
	// streaming attaches first; wait until both sides have done so
	deadline := time.Now().Add(10 * time.Second)
	for {
		a := l.nodes[0].shared.VerifStreamOf("B") != nil
		b := l.nodes[1].shared.VerifStreamOf("A") != nil
		if (a && b) || time.Now().After(deadline) {
			break
		}
		runtime.Gosched()
	}
	return sps[from].Process()
}

func (l *Link) snapshotQuiet() bool {
	for _, n := range l.nodes {
		for _, sp := range n.streams {
			if act, q := sp.Gate(); act || q != 0 {
				return false
			}
		}
	}
	l.mu.Lock()
	pipes := append([]*pipe(nil), l.pipes...)
	l.mu.Unlock()
	for _, p := range pipes {
		p.mu.Lock()
		ok := true
		for side := 0; side < 2; side++ {
			if !p.running[side] {
				continue
			}
			pending := len(p.wire[1-side]) != 0 || p.dead
			// a running loop must be blocked in Recv, with nothing to take unless it is paused
			if !p.waiting[side] || (pending && !p.paused[side]) {
				ok = false
			}
		}
		p.mu.Unlock()
		if !ok {
			return false
		}
	}
	return true
}

// quiesce waits until nothing moves any more (event-driven with a hard cap).
func (l *Link) quiesce() bool {
	deadline := time.Now().Add(20 * time.Second)
	stable := 0
	for {
		before := linkEvents.Load()
		if l.snapshotQuiet() && linkEvents.Load() == before {
			stable++
			if stable >= 3 {
				return true
			}
			runtime.Gosched()
			continue
		}
		stable = 0
		if time.Now().After(deadline) {
			l.hung = true
			if os.Getenv("C11_DEBUG") != "" {
				for _, n := range l.nodes {
					for k, sp := range n.streams {
						a, q := sp.Gate()
						fmt.Fprintln(os.Stderr, "node", n.phys, "stream", k, a, q)
					}
				}
				for _, p := range l.pipes {
					fmt.Fprintln(os.Stderr, "pipe", p.epoch, p.dead, p.waiting, len(p.wire[0]), len(p.wire[1]), "loops", l.loops.Load())
				}
			}
			return false
		}
		time.Sleep(50 * time.Microsecond)
	}
}

func (l *Link) linkState() string {
	for _, p := range l.pipes {
		p.mu.Lock()
		dead := p.dead
		p.mu.Unlock()
		if !dead && l.nodes[0].shared.VerifStreamOf("B") != nil && l.nodes[1].shared.VerifStreamOf("A") != nil {
			return fmt.Sprintf("link=%d", p.epoch)
		}
	}
	return "link=-"
}

func (l *Link) take() []*seen {
	l.mu.Lock()
	defer l.mu.Unlock()
	o := l.out
	l.out = nil
	return o
}

func (l *Link) answer() string {
	if !l.quiesce() {
		return "hang"
	}
	return fmtSeenList(l.take()) + " " + l.linkState()
}

func parsePid(t string) (*prc.ProcessId, bool) {
	if t == "-" {
		return nil, true
	}
	i := strings.IndexByte(t, '/')
	if i <= 0 {
		return nil, false
	}
	return prc.NewProcessId(t[:i], t[i:]), true
}

func parsePayload(t string) (prc.Message, bool) {
	p := strings.Split(t, ":")
	if len(p) != 2 {
		return nil, false
	}
	switch p[0] {
	case "int":
		v, ok := proto.Atoi(p[1])
		return wrapperspb.Int64(int64(v)), ok
	case "str":
		return wrapperspb.String(p[1]), true
	case "pid":
		pid, ok := parsePid(p[1])
		return pid, ok && pid != nil
	case "err":
		return errors.New(p[1]), true
	}
	return nil, false
}

func deliver(p prc.Process, system bool, receiver, sender *prc.ProcessId, m prc.Message) {
	if system {
		p.DeliverySystemMessage(receiver, sender, nil, m)
	} else {
		p.DeliveryUserMessage(receiver, sender, nil, m)
	}
}

func (l *Link) tell(i int, rname, from, kind, payload string, system bool) string {
	n := l.nodes[i]
	ref, ok := n.refs[rname]
	msg, ok2 := parsePayload(payload)
	if !ok || !ok2 {
		return "bad-op"
	}
	var sender *prc.ProcessId
	if from != "-" {
		sender = prc.NewProcessId(n.phys, "/"+from)
	}
	var m prc.Message
	switch {
	case kind == "bare":
		m = msg
	case kind == "wrap":
		m = prc.WrapMessage(sender, ref, msg)
	case strings.HasPrefix(kind, "wrapto:"):
		to, ok := parsePid(strings.TrimPrefix(kind, "wrapto:"))
		if !ok {
			return "bad-op"
		}
		m = prc.WrapMessage(sender, to, msg)
	default:
		return "bad-op"
	}
	deliver(n.rc.GetProcess(ref), system, ref, sender, m)
	return l.answer()
}

func (l *Link) telln(i int, rname, from string, first, count int) string {
	n := l.nodes[i]
	ref, ok := n.refs[rname]
	if !ok {
		return "bad-op"
	}
	var sender *prc.ProcessId
	if from != "-" {
		sender = prc.NewProcessId(n.phys, "/"+from)
	}
	for k := 0; k < count; k++ {
		deliver(n.rc.GetProcess(ref), false, ref, sender, prc.WrapMessage(sender, ref, wrapperspb.Int64(int64(first+k))))
	}
	return l.answer()
}

func (l *Link) reply(i int, target string, k int, payload string) string {
	n := l.nodes[i]
	msg, ok := parsePayload(payload)
	if !ok {
		return "bad-op"
	}
	var r *recorder
	if target == "dead" {
		r = n.dead
	} else {
		r = n.recs[target]
	}
	if r == nil {
		return "none"
	}
	l.mu.Lock()
	var x *seen
	if k >= 0 && k < len(r.mine) {
		x = r.mine[k]
	}
	l.mu.Unlock()
	if x == nil {
		return "none"
	}
	to := x.sender
	if x.wrapped {
		to = x.ws
	}
	logical := target
	if target == "dead" {
		logical = "/dead"
	}
	self := prc.NewProcessId(n.phys, logical)
	if to != nil {
		to = to.Clone() // every message carries its own reference object
	}
	// ctx.Reply(m) = ctx.Ask(ctx.sender, m) = deliveryUserMessage(sender, sender, self, nil, m)
	deliver(n.rc.GetProcess(to), false, to, self, prc.WrapMessage(self, to, msg))
	return l.answer()
}

func (l *Link) breakLink() string {
	l.mu.Lock()
	l.up = false
	pipes := append([]*pipe(nil), l.pipes...)
	l.mu.Unlock()
	for _, p := range pipes {
		p.mu.Lock()
		if !p.dead {
			p.dead = true
			p.wire[0], p.wire[1] = nil, nil
			p.paused = [2]bool{}
			p.cond.Broadcast()
		}
		p.mu.Unlock()
	}
	linkEvents.Add(1)
	if !l.quiesce() {
		return "hang"
	}
	l.take()
	return l.linkState()
}

type linkRunner struct{ l *Link }

func (x *linkRunner) Reset() { x.l = nil }

func (x *linkRunner) Step(t []string) string {
	if t[0] == "link" && len(t) == 3 && (t[1] == "0" || t[1] == "1") && (t[2] == "0" || t[2] == "1") {
		x.l = NewLink(t[1] == "1", t[2] == "1")
		return "ok"
	}
	if x.l == nil {
		x.l = NewLink(true, true)
	}
	l := x.l
	node := func(s string) (int, bool) {
		if s == "0" {
			return 0, true
		}
		if s == "1" {
			return 1, true
		}
		return 0, false
	}
	switch {
	case t[0] == "reg" && len(t) == 3:
		if i, ok := node(t[1]); ok {
			return l.reg(i, "/"+t[2])
		}
	case t[0] == "unreg" && len(t) == 3:
		if i, ok := node(t[1]); ok && t[2] != "guard" {
			return l.unreg(i, "/"+t[2])
		}
	case t[0] == "ref" && len(t) == 4:
		i, ok := node(t[1])
		pid, ok2 := parsePid(t[3])
		if ok && ok2 && pid != nil {
			l.nodes[i].refs[t[2]] = pid
			return "ok"
		}
	case t[0] == "tell" && len(t) == 7:
		if i, ok := node(t[1]); ok && (t[6] == "0" || t[6] == "1") {
			return l.tell(i, t[2], t[3], t[4], t[5], t[6] == "1")
		}
	case t[0] == "telln" && len(t) == 6:
		i, ok := node(t[1])
		first, ok1 := proto.Atoi(t[4])
		count, ok2 := proto.Atoi(t[5])
		if ok && ok1 && ok2 && first >= 0 && count >= 0 {
			return l.telln(i, t[2], t[3], first, count)
		}
	case t[0] == "reply" && len(t) == 5:
		i, ok := node(t[1])
		k, ok1 := proto.Atoi(t[3])
		if ok && ok1 && k >= 0 {
			return l.reply(i, t[2], k, t[4])
		}
	case t[0] == "break" && len(t) == 1:
		return l.breakLink()
	case t[0] == "heal" && len(t) == 1:
		l.mu.Lock()
		l.up = true
		l.mu.Unlock()
		return l.linkState()
	}
	return "bad-op"
}

// ---------------------------------------------------------------- generation

func linkGen(rng *proto.RNG, tier string, shard, nshards int, w *bufio.Writer) {
	caseNo := 0
	emit := func(lines []string) {
		if caseNo%nshards == shard {
			fmt.Fprintf(w, "# case %d\n", caseNo)
			for _, l := range lines {
				fmt.Fprintln(w, l)
			}
		}
		caseNo++
	}
	payloads := []string{"int:7", "str:hello", "pid:A/x", "err:boom", "int:-3", "str:", "pid:C/far/away"}
	// (ii) systematic: every kind x payload x system flag x sender, each way, with a reply
	for _, kind := range []string{"bare", "wrap", "wrapto:B/other", "wrapto:A/back", "wrapto:-"} {
		for _, pay := range payloads {
			for _, sys := range []string{"0", "1"} {
				for _, from := range []string{"s", "-"} {
					for dir := 0; dir < 2; dir++ {
						me, peer := dir, 1-dir
						peerPhys := []string{"A", "B"}[peer]
						emit([]string{"link 1 1",
							fmt.Sprintf("reg %d r", peer), fmt.Sprintf("reg %d other", peer), fmt.Sprintf("reg %d s", me), fmt.Sprintf("reg %d back", me),
							fmt.Sprintf("ref %d x %s/r", me, peerPhys),
							fmt.Sprintf("tell %d x %s %s %s %s", me, from, kind, pay, sys),
							fmt.Sprintf("reply %d /r 0 int:99", peer),
							fmt.Sprintf("reply %d /r 0 err:failed", peer),
							fmt.Sprintf("reply %d /other 0 str:ok", peer),
							fmt.Sprintf("reply %d /back 0 str:ok", me),
						})
					}
				}
			}
		}
	}
	// unknown receivers: substitute / redirect, unknown peers, local references
	for _, subs := range [][2]string{{"1", "1"}, {"0", "0"}, {"1", "0"}, {"0", "1"}} {
		emit([]string{"link " + subs[0] + " " + subs[1], "reg 1 r", "ref 0 x B/nobody", "ref 0 y C/r", "ref 0 z A/local", "ref 0 g B/r",
			"tell 0 x s wrap int:1 0", "tell 0 x s wrap int:2 1", "tell 0 g s wrap int:3 0", "tell 0 y s wrap int:4 0",
			"reg 0 local", "tell 0 z s wrap int:5 0", "tell 0 z s bare int:6 0", "reply 1 /r 0 int:7", "reply 1 /guard 0 int:8", "reply 1 dead 0 int:9",
			"unreg 1 r", "tell 0 g s wrap int:10 0", "reg 1 r", "tell 0 g s wrap int:11 0"})
	}
	// batch boundaries through the whole path, both ways
	for _, n := range []int{1, 2, 1023, 1024, 1025, 3000} {
		emit([]string{"link 1 1", "reg 1 r", "reg 0 q", "ref 0 x B/r", "ref 1 y A/q",
			fmt.Sprintf("telln 0 x s 1 %d", n), fmt.Sprintf("telln 1 y t 5000 %d", n), "tell 0 x s wrap str:after 0"})
	}
	// outages: references obtained before the outage are used afterwards
	emit([]string{"link 1 1", "reg 1 r", "reg 0 s", "ref 0 old B/r", "tell 0 old s wrap int:1 0", "break", "tell 0 old s wrap int:2 0",
		"heal", "ref 0 new B/r", "tell 0 new s wrap int:3 0", "tell 0 old s wrap int:4 0", "tell 0 new s wrap int:5 0", "tell 0 old s wrap int:6 0"})
	emit([]string{"link 1 1", "reg 1 r", "reg 0 s", "ref 0 old B/r", "ref 1 back A/s", "tell 0 old s wrap int:1 0", "tell 1 back r wrap int:2 0",
		"break", "heal", "tell 1 back r wrap int:3 0", "tell 0 old s wrap int:4 0", "reply 1 /r 0 int:5"})
	emit([]string{"link 1 1", "reg 1 r", "ref 0 a B/r", "break", "tell 0 a s wrap int:1 0", "tell 0 a s wrap int:2 0", "heal", "tell 0 a s wrap int:3 0"})
	// (iii) random
	nRandom := 150
	if tier == "thorough" {
		nRandom = 3000
	}
	for c := 0; c < nRandom; c++ {
		lines := []string{fmt.Sprintf("link %d %d", b01(rng.Intn(4) != 0), b01(rng.Intn(4) != 0))}
		names := []string{"r", "s", "t"}
		refs := [2][]string{}
		nrefs := 0
		up := true
		tells := 0
		for k := rng.Range(5, 40); k > 0; k-- {
			i := rng.Intn(2)
			switch rng.Pick(3, 1, 4, 10, 1, 4, 2, 2, 1) {
			case 0:
				lines = append(lines, fmt.Sprintf("reg %d %s", i, names[rng.Intn(3)]))
			case 1:
				lines = append(lines, fmt.Sprintf("unreg %d %s", i, names[rng.Intn(3)]))
			case 2:
				nrefs++
				rn := fmt.Sprintf("x%d", nrefs)
				phys := []string{"A", "B", "A", "B", "C"}[rng.Intn(5)]
				if rng.Intn(3) != 0 {
					phys = []string{"A", "B"}[1-i]
				}
				lines = append(lines, fmt.Sprintf("ref %d %s %s/%s", i, rn, phys, names[rng.Intn(3)]))
				refs[i] = append(refs[i], rn)
			case 3:
				if len(refs[i]) == 0 {
					continue
				}
				kind := []string{"wrap", "wrap", "wrap", "bare", "wrapto:A/r", "wrapto:B/s", "wrapto:-"}[rng.Intn(7)]
				from := []string{"r", "s", "t", "-"}[rng.Intn(4)]
				tells++
				pay := fmt.Sprintf("int:%d", tells)
				if rng.Intn(4) == 0 {
					pay = payloads[rng.Intn(len(payloads))]
				}
				lines = append(lines, fmt.Sprintf("tell %d %s %s %s %s %d", i, refs[i][rng.Intn(len(refs[i]))], from, kind, pay, b01(rng.Intn(5) == 0)))
			case 4:
				if len(refs[i]) == 0 {
					continue
				}
				n := []int{2, 3, 10, 1024, 1025, 2100}[rng.Intn(6)]
				lines = append(lines, fmt.Sprintf("telln %d %s %s %d %d", i, refs[i][rng.Intn(len(refs[i]))], names[rng.Intn(3)], 1000*(k+1), n))
			case 5:
				tgt := []string{"/r", "/s", "/t", "dead", "/guard"}[rng.Intn(5)]
				pay := []string{"int:1", "err:no", "str:yes"}[rng.Intn(3)]
				lines = append(lines, fmt.Sprintf("reply %d %s %d %s", i, tgt, rng.Intn(3), pay))
			case 6:
				if up {
					lines = append(lines, "break")
				} else {
					lines = append(lines, "heal")
				}
				up = !up
			case 7:
				lines = append(lines, "heal")
				up = true
			default:
				// malformed
				lines = append(lines, []string{"tell 2 x s wrap int:1 0", "tell 0 nosuch s wrap int:1 0", "reply 0 /r x int:1", "ref 0 q nopid", "tell 0", "telln 0 x s -1 2", "link 2 2", "frobnicate"}[rng.Intn(8)])
			}
		}
		emit(lines)
	}
}

func init() {
	proto.Register(&proto.Suite{Name: "link", Gen: linkGen, New: func() proto.Runner { return &linkRunner{} }})
}
