package c11

// remote (end to end): two real vivid.ActorSystem in one process, sharing on loopback with
// ephemeral ports (127.0.0.1:0). Sender actors on one system Ask a recording actor on the other,
// which replies to the carried sender (every 7th id with an error); futures are asked from outside;
// the sharing of either system is closed and re-opened between (and during) phases, and the same
// reference objects are used before and after. Operations that never lose the link are compared
// exactly with the Lean model (per (sender, receiver) the delivered sequence is the sent one);
// every operation is judged (ordered duplicate-free selection of what was sent).
// All waits are event driven with hard caps.

import (
	"bufio"
	"errors"
	"os"
	"fmt"
	"sort"
	"strconv"
	"strings"
	"sync"
	"sync/atomic"
	"time"

	"github.com/kercylan98/minotaur/engine/prc"
	"github.com/kercylan98/minotaur/engine/vivid"
	"github.com/kercylan98/minotaur/toolkit/log"
	"google.golang.org/protobuf/types/known/wrapperspb"
	"verifharness/internal/proto"
)

const (
	replyOffset = 500000000
	senderSpan  = 100000
	maxSenders  = 4
)

func isErrID(id int64) bool { return id%7 == 3 }

type recState struct {
	mu    sync.Mutex
	by    map[string][]int64 // sender key -> ids in arrival order
	total atomic.Int64
	last  atomic.Int64 // unix nano of the last arrival
}

type sndState struct {
	mu      sync.Mutex
	replies []int64 // reply values in arrival order (errors as -(id))
	from    map[string]int
	n       atomic.Int64
	sent    atomic.Int64
}

type burstCmd struct {
	target vivid.ActorRef
	ids    []int64
	chunk  int
}

type rsys struct {
	idx     int
	sys     *vivid.ActorSystem
	addr    string
	rec     *recState
	recRef  vivid.ActorRef
	snd     [maxSenders]*sndState
	sndRef  [maxSenders]vivid.ActorRef
	peerRec vivid.ActorRef // the reference every sender of this system uses for the peer's recorder (never replaced)
}

type Remote struct {
	s      [2]*rsys
	closed [2]bool
}

func senderKey(ref vivid.ActorRef) string {
	if ref == nil {
		return "-"
	}
	return ref.GetPhysicalAddress() + ref.GetLogicalAddress()
}

func newRsys(idx int) (r *rsys, err error) {
	defer func() {
		if x := recover(); x != nil {
			err = fmt.Errorf("%v", x)
		}
	}()
	r = &rsys{idx: idx, rec: &recState{by: map[string][]int64{}}}
	lg := log.NewSilentLogger()
	r.sys = vivid.NewActorSystem(vivid.FunctionalActorSystemConfigurator(func(c *vivid.ActorSystemConfiguration) {
		c.WithShared("127.0.0.1:0")
		c.WithName(fmt.Sprintf("n%d", idx))
		if os.Getenv("C11_DEBUG") == "" {
			c.WithLoggerProvider(log.FunctionalLoggerProvider(func() *log.Logger { return lg }))
		}
	}))
	r.addr = r.sys.PhysicalAddress()
	rec := r.rec
	r.recRef = r.sys.ActorOfF(func() vivid.Actor {
		return vivid.FunctionalActor(func(ctx vivid.ActorContext) {
			switch m := ctx.Message().(type) {
			case *wrapperspb.Int64Value:
				s := ctx.Sender()
				k := senderKey(s)
				rec.mu.Lock()
				rec.by[k] = append(rec.by[k], m.Value)
				rec.mu.Unlock()
				rec.last.Store(time.Now().UnixNano())
				rec.total.Add(1)
				if s != nil {
					if isErrID(m.Value) {
						ctx.Reply(errors.New(strconv.FormatInt(m.Value, 10)))
					} else {
						ctx.Reply(wrapperspb.Int64(m.Value + replyOffset))
					}
				}
			}
		})
	}, func(d *vivid.ActorDescriptor) { d.WithName("r") })
	for k := 0; k < maxSenders; k++ {
		st := &sndState{from: map[string]int{}}
		r.snd[k] = st
		r.sndRef[k] = r.sys.ActorOfF(func() vivid.Actor {
			return vivid.FunctionalActor(func(ctx vivid.ActorContext) {
				switch m := ctx.Message().(type) {
				case *burstCmd:
					n := len(m.ids)
					if m.chunk > 0 && n > m.chunk {
						n = m.chunk
					}
					for _, id := range m.ids[:n] {
						ctx.Ask(m.target, wrapperspb.Int64(id))
						st.sent.Add(1)
					}
					if n < len(m.ids) {
						ctx.Tell(ctx.Ref(), &burstCmd{target: m.target, ids: m.ids[n:], chunk: m.chunk})
					}
				case *wrapperspb.Int64Value:
					st.mu.Lock()
					st.replies = append(st.replies, m.Value)
					st.from[senderKey(ctx.Sender())]++
					st.mu.Unlock()
					st.n.Add(1)
				case error:
					id, _ := strconv.ParseInt(m.Error(), 10, 64)
					st.mu.Lock()
					st.replies = append(st.replies, -id)
					st.from[senderKey(ctx.Sender())]++
					st.mu.Unlock()
					st.n.Add(1)
				}
			})
		}, func(d *vivid.ActorDescriptor) { d.WithName(fmt.Sprintf("s%d", k)) })
	}
	return r, nil
}

func NewRemote() (*Remote, error) {
	if os.Getenv("C11_DEBUG") == "" {
		log.SetDefault(log.NewSilentLogger()) // Shared.open logs stream errors through the global logger (stdout)
	}
	x := &Remote{}
	for i := 0; i < 2; i++ {
		r, err := newRsys(i)
		if err != nil {
			return nil, err
		}
		x.s[i] = r
	}
	for i := 0; i < 2; i++ {
		// one reference object per system for the peer's recorder, obtained now and used for ever
		x.s[i].peerRec = x.s[1-i].recRef.Clone()
	}
	return x, nil
}

func (x *Remote) Shutdown() {
	for _, r := range x.s {
		if r != nil && r.sys != nil {
			done := make(chan struct{})
			go func() { r.sys.Shutdown(true); close(done) }()
			select {
			case <-done:
			case <-time.After(10 * time.Second):
			}
		}
	}
}

// waitFor polls cond (cheap atomics) until it holds or the cap expires.
func waitFor(cap time.Duration, cond func() bool) bool {
	deadline := time.Now().Add(cap)
	for {
		if cond() {
			return true
		}
		if time.Now().After(deadline) {
			return false
		}
		time.Sleep(200 * time.Microsecond)
	}
}

func fmtInt64Runs(l []int64) string {
	v := make([]int, len(l))
	for i, x := range l {
		v[i] = int(x)
	}
	return fmtRunsBody(v)
}

// snapshot: what the recorder of `to` got from the senders of `from` since `mark`, and what those
// senders got back.
type marks struct {
	rec [maxSenders + 1]int // per sender key index (last = "-")
	rep [maxSenders]int
}

func (x *Remote) mark(from int) marks {
	var m marks
	to := 1 - from
	rec := x.s[to].rec
	rec.mu.Lock()
	for k := 0; k < maxSenders; k++ {
		m.rec[k] = len(rec.by[senderKey(x.s[from].sndRef[k])])
	}
	m.rec[maxSenders] = len(rec.by["-"])
	rec.mu.Unlock()
	for k := 0; k < maxSenders; k++ {
		st := x.s[from].snd[k]
		st.mu.Lock()
		m.rep[k] = len(st.replies)
		st.mu.Unlock()
	}
	return m
}

func (x *Remote) report(from, ns int, m marks) string {
	to := 1 - from
	rec := x.s[to].rec
	var recv, rep, errs []string
	foreign := 0
	rec.mu.Lock()
	for k := 0; k < ns; k++ {
		l := rec.by[senderKey(x.s[from].sndRef[k])]
		recv = append(recv, fmt.Sprintf("s%d:%s", k, fmtInt64Runs(l[m.rec[k]:])))
	}
	known := map[string]bool{"-": true}
	for i := 0; i < 2; i++ {
		for k := 0; k < maxSenders; k++ {
			known[senderKey(x.s[i].sndRef[k])] = true
		}
	}
	for key := range rec.by {
		if !known[key] && !strings.Contains(key, "/user/") {
			foreign++
		}
	}
	rec.mu.Unlock()
	wantFrom := senderKey(x.s[to].recRef)
	for k := 0; k < ns; k++ {
		st := x.s[from].snd[k]
		st.mu.Lock()
		var ok, er []int64
		for _, v := range st.replies[m.rep[k]:] {
			if v < 0 {
				er = append(er, -v)
			} else {
				ok = append(ok, v)
			}
		}
		for key := range st.from {
			if key != wantFrom {
				foreign++
			}
		}
		st.mu.Unlock()
		rep = append(rep, fmt.Sprintf("s%d:%s", k, fmtInt64Runs(ok)))
		errs = append(errs, fmt.Sprintf("s%d:%s", k, fmtInt64Runs(er)))
	}
	return fmt.Sprintf("recv=%s rep=%s err=%s foreign=%d", strings.Join(recv, "|"), strings.Join(rep, "|"), strings.Join(errs, "|"), foreign)
}

func ids(base, k, count int) []int64 {
	l := make([]int64, count)
	for j := range l {
		l[j] = int64(base + k*senderSpan + j)
	}
	return l
}

// burst: ns sender actors of system `from` each Ask the peer's recorder count times.
func (x *Remote) burst(from, ns, count, base int) string {
	to := 1 - from
	m := x.mark(from)
	recBefore := x.s[to].rec.total.Load()
	var repBefore [maxSenders]int64
	for k := 0; k < ns; k++ {
		repBefore[k] = x.s[from].snd[k].n.Load()
	}
	for k := 0; k < ns; k++ {
		x.s[from].sys.Tell(x.s[from].sndRef[k], &burstCmd{target: x.s[from].peerRec, ids: ids(base, k, count)})
	}
	waitFor(60*time.Second, func() bool {
		if x.s[to].rec.total.Load()-recBefore < int64(ns*count) {
			return false
		}
		for k := 0; k < ns; k++ {
			if x.s[from].snd[k].n.Load()-repBefore[k] < int64(count) {
				return false
			}
		}
		return true
	})
	return x.report(from, ns, m)
}

// breakburst: as burst, in chunks; the sharing of system `closer` is closed and re-opened while
// the burst is under way. Returns when nothing has moved for a while.
func (x *Remote) breakburst(from, ns, count, base, closer int) string {
	to := 1 - from
	m := x.mark(from)
	recBefore := x.s[to].rec.total.Load()
	var sentBefore [maxSenders]int64
	for k := 0; k < ns; k++ {
		sentBefore[k] = x.s[from].snd[k].sent.Load()
	}
	for k := 0; k < ns; k++ {
		x.s[from].sys.Tell(x.s[from].sndRef[k], &burstCmd{target: x.s[from].peerRec, ids: ids(base, k, count), chunk: 64})
	}
	waitFor(5*time.Second, func() bool { return x.s[to].rec.total.Load()-recBefore >= int64(ns*count/4) })
	if !capped(60*time.Second, func() { vivid.VerifShared(x.s[closer].sys).Close() }) {
		return "hang"
	}
	reopen := x.share(closer)
	// all asks issued, then quiet: no arrival and no reply for 300 ms
	waitFor(30*time.Second, func() bool {
		for k := 0; k < ns; k++ {
			if x.s[from].snd[k].sent.Load()-sentBefore[k] < int64(count) {
				return false
			}
		}
		return true
	})
	var lastTotal, lastRep int64 = -1, -1
	var stableSince time.Time
	waitFor(30*time.Second, func() bool {
		t := x.s[to].rec.total.Load()
		var r int64
		for k := 0; k < ns; k++ {
			r += x.s[from].snd[k].n.Load()
		}
		if t != lastTotal || r != lastRep {
			lastTotal, lastRep, stableSince = t, r, time.Now()
			return false
		}
		return time.Since(stableSince) > 300*time.Millisecond
	})
	return x.report(from, ns, m) + " reopen=" + reopen
}

func (x *Remote) share(n int) string {
	sh := vivid.VerifShared(x.s[n].sys)
	var err error
	for i := 0; i < 20; i++ {
		if err = sh.Share(); err == nil {
			x.closed[n] = false
			return "ok"
		}
		time.Sleep(50 * time.Millisecond)
	}
	return "err:" + strings.ReplaceAll(err.Error(), " ", "_")
}

// capped runs f and reports whether it returned within the cap.
func capped(d time.Duration, f func()) bool {
	done := make(chan struct{})
	go func() { f(); close(done) }()
	select {
	case <-done:
		return true
	case <-time.After(d):
		return false
	}
}

func (x *Remote) closeSharing(n int) string {
	if !capped(60*time.Second, func() { vivid.VerifShared(x.s[n].sys).Close() }) {
		return "hang"
	}
	x.closed[n] = true
	// both sides see the streams go (event driven, capped)
	waitFor(10*time.Second, func() bool {
		return len(vivid.VerifShared(x.s[0].sys).VerifStreams()) == 0 && len(vivid.VerifShared(x.s[1].sys).VerifStreams()) == 0
	})
	return fmt.Sprintf("streams=%d,%d", len(vivid.VerifShared(x.s[0].sys).VerifStreams()), len(vivid.VerifShared(x.s[1].sys).VerifStreams()))
}

// ask: count sequential FutureAsks from outside system `from`.
func (x *Remote) ask(from, count, base int) string {
	var ok, er []int64
	bad := 0
	for j := 0; j < count; j++ {
		id := int64(base + j)
		res, err := x.s[from].sys.FutureAsk(x.s[from].peerRec, wrapperspb.Int64(id), 10*time.Second).Result()
		switch {
		case err != nil && isErrID(id) && err.Error() == strconv.FormatInt(id, 10):
			er = append(er, id)
		case err == nil:
			if v, isInt := res.(*wrapperspb.Int64Value); isInt && v.Value == id+replyOffset && !isErrID(id) {
				ok = append(ok, id)
			} else {
				bad++
			}
		default:
			bad++
		}
	}
	return fmt.Sprintf("ok=%s err=%s bad=%d", fmtInt64Runs(ok), fmtInt64Runs(er), bad)
}

// tellraw: count Tells without a sender from outside.
func (x *Remote) tellraw(from, count, base int) string {
	to := 1 - from
	rec := x.s[to].rec
	rec.mu.Lock()
	before := len(rec.by["-"])
	rec.mu.Unlock()
	tb := rec.total.Load()
	for j := 0; j < count; j++ {
		x.s[from].sys.Tell(x.s[from].peerRec, wrapperspb.Int64(int64(base+j)))
	}
	waitFor(30*time.Second, func() bool { return rec.total.Load()-tb >= int64(count) })
	rec.mu.Lock()
	defer rec.mu.Unlock()
	return "recv=-:" + fmtInt64Runs(rec.by["-"][before:])
}

type remoteRunner struct{ x *Remote }

func (r *remoteRunner) Reset() {
	if r.x != nil {
		r.x.Shutdown()
		r.x = nil
	}
}

func (r *remoteRunner) Step(t []string) string {
	if t[0] == "systems" && len(t) == 1 {
		r.Reset()
		x, err := NewRemote()
		if err != nil {
			return "err:" + strings.ReplaceAll(err.Error(), " ", "_")
		}
		r.x = x
		return "ok"
	}
	if r.x == nil {
		return "bad-op"
	}
	num := func(s string, lo, hi int) (int, bool) {
		v, ok := proto.Atoi(s)
		return v, ok && v >= lo && v <= hi
	}
	switch {
	case t[0] == "burst" && len(t) == 5:
		f, ok1 := num(t[1], 0, 1)
		ns, ok2 := num(t[2], 1, maxSenders)
		c, ok3 := num(t[3], 0, senderSpan-1)
		b, ok4 := num(t[4], 0, 400000000)
		if ok1 && ok2 && ok3 && ok4 {
			return r.x.burst(f, ns, c, b)
		}
	case t[0] == "breakburst" && len(t) == 6:
		f, ok1 := num(t[1], 0, 1)
		ns, ok2 := num(t[2], 1, maxSenders)
		c, ok3 := num(t[3], 0, senderSpan-1)
		b, ok4 := num(t[4], 0, 400000000)
		cl, ok5 := num(t[5], 0, 1)
		if ok1 && ok2 && ok3 && ok4 && ok5 {
			return r.x.breakburst(f, ns, c, b, cl)
		}
	case t[0] == "ask" && len(t) == 4:
		f, ok1 := num(t[1], 0, 1)
		c, ok2 := num(t[2], 0, 5000)
		b, ok3 := num(t[3], 0, 400000000)
		if ok1 && ok2 && ok3 {
			return r.x.ask(f, c, b)
		}
	case t[0] == "tellraw" && len(t) == 4:
		f, ok1 := num(t[1], 0, 1)
		c, ok2 := num(t[2], 0, 5000)
		b, ok3 := num(t[3], 0, 400000000)
		if ok1 && ok2 && ok3 {
			return r.x.tellraw(f, c, b)
		}
	case t[0] == "close" && len(t) == 2:
		if n, ok := num(t[1], 0, 1); ok && !r.x.closed[n] {
			return r.x.closeSharing(n)
		}
	case t[0] == "open" && len(t) == 2:
		if n, ok := num(t[1], 0, 1); ok && r.x.closed[n] {
			return r.x.share(n)
		}
	case t[0] == "shutdown" && len(t) == 1:
		r.Reset()
		return "ok"
	}
	return "bad-op"
}

// ---------------------------------------------------------------- generation

func remoteGen(rng *proto.RNG, tier string, shard, nshards int, w *bufio.Writer) {
	caseNo := 0
	emit := func(lines []string) {
		if caseNo%nshards == shard {
			fmt.Fprintf(w, "# case %d\n", caseNo)
			for _, l := range lines {
				fmt.Fprintln(w, l)
			}
		}
		caseNo++
	}
	base := 0
	next := func() int { base += 1000000; return base }
	counts := []int{1, 1023, 1024, 1025, 3000}
	// (ii) systematic: every count x 1..4 senders x each way, with asks, the link closed and
	// re-opened between phases (by either side), the same references before and after
	for ci, c := range counts {
		for ns := 1; ns <= maxSenders; ns++ {
			if tier != "thorough" && (ci+ns)%2 == 1 && c != 1024 {
				continue // quick: half of the grid, the exact limit always
			}
			closer := (ci + ns) % 2
			emit([]string{"systems",
				fmt.Sprintf("burst 0 %d %d %d", ns, c, next()), fmt.Sprintf("burst 1 %d %d %d", ns, c, next()),
				fmt.Sprintf("ask 0 15 %d", next()), fmt.Sprintf("ask 1 15 %d", next()), fmt.Sprintf("tellraw 0 %d %d", minInt(c, 1500), next()),
				fmt.Sprintf("close %d", closer), fmt.Sprintf("open %d", closer),
				fmt.Sprintf("burst 0 %d %d %d", ns, c, next()), fmt.Sprintf("burst 1 %d %d %d", ns, c, next()),
				fmt.Sprintf("ask %d 15 %d", closer, next()), fmt.Sprintf("ask %d 15 %d", 1-closer, next()),
				"shutdown"})
		}
	}
	// outage during a burst, then the same references again
	for k := 0; k < 4; k++ {
		from, closer := k%2, k/2
		emit([]string{"systems", fmt.Sprintf("burst %d 2 10 %d", from, next()),
			fmt.Sprintf("breakburst %d 3 3000 %d %d", from, next(), closer),
			fmt.Sprintf("burst %d 3 1025 %d", from, next()), fmt.Sprintf("burst %d 2 1025 %d", 1-from, next()),
			fmt.Sprintf("ask %d 10 %d", from, next()), "shutdown"})
	}
	// (iii) random phases
	n := 4
	if tier == "thorough" {
		n = 60
	}
	for c := 0; c < n; c++ {
		lines := []string{"systems"}
		closed := [2]bool{}
		for k := rng.Range(3, 9); k > 0; k-- {
			f := rng.Intn(2)
			anyClosed := closed[0] || closed[1]
			switch rng.Pick(6, 3, 2, 3, 1, 1) {
			case 0:
				if anyClosed {
					continue
				}
				lines = append(lines, fmt.Sprintf("burst %d %d %d %d", f, rng.Range(1, maxSenders), []int{1, 2, 100, 1023, 1024, 1025, 2048, 3000}[rng.Intn(8)], next()))
			case 1:
				if anyClosed {
					continue
				}
				lines = append(lines, fmt.Sprintf("ask %d %d %d", f, rng.Range(1, 30), next()))
			case 2:
				if anyClosed {
					continue
				}
				lines = append(lines, fmt.Sprintf("tellraw %d %d %d", f, rng.Range(1, 1100), next()))
			case 3:
				if closed[f] {
					lines = append(lines, fmt.Sprintf("open %d", f))
				} else {
					lines = append(lines, fmt.Sprintf("close %d", f))
				}
				closed[f] = !closed[f]
			case 4:
				if anyClosed {
					continue
				}
				lines = append(lines, fmt.Sprintf("breakburst %d %d %d %d %d", f, rng.Range(1, maxSenders), rng.Range(500, 3000), next(), rng.Intn(2)))
			default:
				lines = append(lines, []string{"burst 2 1 1 1", "burst 0 9 1 1", "ask 0 x 1", "open 0 0", "close", "frobnicate"}[rng.Intn(6)])
			}
		}
		for i := 0; i < 2; i++ {
			if closed[i] {
				lines = append(lines, fmt.Sprintf("open %d", i))
			}
		}
		lines = append(lines, fmt.Sprintf("burst 0 2 50 %d", next()), fmt.Sprintf("burst 1 2 50 %d", next()), "shutdown")
		emit(lines)
	}
}

func minInt(a, b int) int {
	if a < b {
		return a
	}
	return b
}

var _ = sort.Ints
var _ prc.Message

func init() {
	proto.Register(&proto.Suite{Name: "remote", Gen: remoteGen, New: func() proto.Runner { return &remoteRunner{} }})
}
