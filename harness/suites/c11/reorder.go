package c11

// reorder (T-diff, deterministic reproduction of known finding C11-reorder-across-streams): on two
// real prc.Shared over the in-memory pipe, n1 messages are in flight on a stream whose receiver
// loop is held back, the sender detaches that stream the way Shared.Close does, and n2 more messages
// are sent through the same reference: it resolves again, a second stream is opened, its receiver
// loop delivers at once; then the first loop is released. The model is the two-stream machine of
// MV.Findings.C11 (the code as it is), the spec is the sent order.

import (
	"bufio"
	"fmt"

	"github.com/kercylan98/minotaur/engine/prc"
	"google.golang.org/protobuf/types/known/wrapperspb"
	"verifharness/internal/proto"
)

type reorderRunner struct{}

func (reorderRunner) Reset() {}

func (reorderRunner) Step(t []string) string {
	if len(t) != 3 || t[0] != "reorder" {
		return "bad-op"
	}
	n1, ok1 := proto.Atoi(t[1])
	n2, ok2 := proto.Atoi(t[2])
	if !ok1 || !ok2 || n1 < 0 || n2 < 0 || n1 > 50 || n2 > 50 {
		return "bad-op"
	}
	l := NewLink(true, true)
	l.reg(1, "/r")
	a := l.nodes[0]
	ref := prc.NewProcessId("B", "/r")
	sender := prc.NewProcessId("A", "/s")
	tell := func(id int) bool {
		deliver(a.rc.GetProcess(ref), false, ref, sender, prc.WrapMessage(sender, ref, wrapperspb.Int64(int64(id))))
		return l.quiesce()
	}
	// open the first stream with a message 0 that is delivered normally
	if !tell(0) {
		return "hang"
	}
	l.mu.Lock()
	p := l.pipes[len(l.pipes)-1]
	l.mu.Unlock()
	p.mu.Lock()
	p.paused[1] = true // node B's receiver loop of this stream takes nothing more for now
	p.mu.Unlock()
	for i := 1; i <= n1; i++ {
		if !tell(i) {
			return "hang"
		}
	}
	a.shared.VerifDetach("B")
	if !l.quiesce() {
		return "hang"
	}
	for i := n1 + 1; i <= n1+n2; i++ {
		if !tell(i) {
			return "hang"
		}
	}
	p.mu.Lock()
	p.paused[1] = false
	p.cond.Broadcast()
	p.mu.Unlock()
	linkEvents.Add(1)
	if !l.quiesce() {
		return "hang"
	}
	var ids []int
	for _, x := range l.take() {
		if x.node == 1 && x.target == "/r" && x.isInt {
			ids = append(ids, int(x.intv))
		}
	}
	return "delivered=" + fmtRuns(ids)
}

func reorderGen(rng *proto.RNG, tier string, shard, nshards int, w *bufio.Writer) {
	caseNo := 0
	emit := func(lines ...string) {
		if caseNo%nshards == shard {
			fmt.Fprintf(w, "# case %d\n", caseNo)
			for _, l := range lines {
				fmt.Fprintln(w, l)
			}
		}
		caseNo++
	}
	for n1 := 0; n1 <= 3; n1++ {
		for n2 := 0; n2 <= 3; n2++ {
			emit(fmt.Sprintf("reorder %d %d", n1, n2))
		}
	}
	n := 6
	if tier == "thorough" {
		n = 60
	}
	for c := 0; c < n; c++ {
		emit(fmt.Sprintf("reorder %d %d", rng.Intn(30), rng.Intn(30)))
	}
	emit("reorder x 1", "reorder 1", "reorder 1 99", "frobnicate 1 2")
}

func init() {
	proto.Register(&proto.Suite{Name: "reorder", Gen: reorderGen, New: func() proto.Runner { return reorderRunner{} }})
}
