// Package c14 holds the harness suites of property C14 (registered from init functions).
package c14
