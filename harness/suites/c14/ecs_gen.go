package c14

import (
	"bufio"
	"fmt"
	"strconv"
	"strings"

	"verifharness/internal/proto"
)

// Generators of suite "ecs":
//
//  (ii)  exhaustive: every history of exactly L steps over a 9-letter alphabet of spawn / bulk spawn /
//        annihilate (also stale, double, duplicated) steps over 3 components (quick L=5, thorough
//        L=6), and of L+1 steps over a 6-letter core alphabet (quick 6, thorough 7); every spawned entity
//        gets distinctive component values written; the case ends with a fixed observation battery
//        (alive of every name, 14 filters, every component column through the iterator, reads).
//  (iii) random structured histories up to 400 steps with 70..140 registered components (masks of two
//        and three words), archetype sharing, id lists chosen to collide under naive joins
//        ([1 2] vs [12]), bulk spawn, re-spawn after annihilation, stale and double annihilation,
//        filters of every shape to depth 3.
//  (iv)  malformed stream: names out of range, unregistered component ids, absent components, dead
//        handles through Result.Get, the reserved zero entity, empty And/Or, duplicated ids.

type gen struct {
	rng   *proto.RNG
	lines []string
	ncomp int
	// per name: component ids it was spawned with, living flag (generator's own bookkeeping,
	// only used to bias choices)
	comps  [][]int
	living []bool
	nextV  int
}

func (g *gen) add(format string, a ...any) { g.lines = append(g.lines, fmt.Sprintf(format, a...)) }

func joinInts(l []int) string {
	s := make([]string, len(l))
	for i, v := range l {
		s[i] = strconv.Itoa(v)
	}
	return strings.Join(s, " ")
}

func (g *gen) reg(k int) {
	for i := 0; i < k; i++ {
		g.add("reg")
		g.ncomp++
	}
}

func (g *gen) spawn(ids []int, writeVals bool) {
	g.add("%s", strings.TrimSpace("spawn "+joinInts(ids)))
	g.comps = append(g.comps, ids)
	g.living = append(g.living, true)
	if writeVals {
		g.writeAll(len(g.comps) - 1)
	}
}

func (g *gen) spawnN(k int, ids []int, writeVals bool) {
	g.add("%s", strings.TrimSpace(fmt.Sprintf("spawnn %d %s", k, joinInts(ids))))
	for i := 0; i < k; i++ {
		g.comps = append(g.comps, ids)
		g.living = append(g.living, true)
		if writeVals {
			g.writeAll(len(g.comps) - 1)
		}
	}
}

func (g *gen) writeAll(name int) {
	seen := map[int]bool{}
	for _, c := range g.comps[name] {
		if seen[c] {
			continue
		}
		seen[c] = true
		g.nextV++
		g.add("write %d %d %d", name, c, g.nextV)
	}
}

func (g *gen) kill(name int) {
	g.add("kill %d", name)
	if name < len(g.living) {
		g.living[name] = false
	}
}

var battery3 = []string{
	"query eq 0", "query eq 1 1", "query eq 2 2 1", "query eq 3 1 2 3", "query in 0", "query in 1 1", "query in 1 2",
	"query in 2 1 2", "query notin 1 1", "query notin 2 1 3", "query and 2 in 1 1 notin 1 2",
	"query or 2 eq 0 eq 1 3", "query and 2 or 2 in 1 3 in 1 2 notin 1 1", "query or 2 and 2 in 1 1 in 1 2 eq 1 3",
}

func (g *gen) observe3() {
	for i := range g.comps {
		g.add("alive %d", i)
	}
	g.lines = append(g.lines, battery3...)
	for c := 1; c <= 3; c++ {
		g.add("qiter %d in 1 %d", c, c)
	}
	for i := range g.comps {
		if len(g.comps[i]) > 0 {
			g.add("read %d %d", i, g.comps[i][0])
		} else {
			g.add("read %d 1", i)
		}
	}
	// a result is a value: kept / walked results are not affected by later annihilations (these ops
	// change the world, so they come last)
	g.add("hold eq 1 1")
	g.add("qkill 0 eq 1 1")
	g.add("held")
	g.add("hold in 1 3")
	g.add("qkill %d in 1 3", len(g.comps)-1)
	g.add("held")
	g.add("hold in 0")
	g.add("qkill 1 in 0")
	g.add("held")
	g.add("query in 0")
}

// one step of the exhaustive alphabet
func (g *gen) letter(a int) {
	switch a {
	case 0:
		g.spawn([]int{1}, true)
	case 1:
		g.spawn([]int{1, 2}, true)
	case 2:
		g.spawn([]int{2, 1}, true)
	case 3:
		g.spawn(nil, true)
	case 4:
		g.spawnN(2, []int{3}, true)
	case 5:
		g.kill(0)
	case 6:
		g.kill(1)
	case 7:
		g.kill(2)
	case 8:
		g.add("killn 1 0 1")
		for _, n := range []int{0, 1} {
			if n < len(g.living) {
				g.living[n] = false
			}
		}
	}
}

const nLetters = 9

// random filter of the given depth over the id pool
func (g *gen) filter(depth int, pool []int) string {
	ids := func() string {
		k := g.rng.Pick(2, 6, 5, 2, 1)
		l := make([]int, k)
		for i := range l {
			if g.rng.Intn(12) == 0 {
				l[i] = g.rng.Range(0, g.ncomp+70) // unregistered / zero id in a filter
			} else {
				l[i] = pool[g.rng.Intn(len(pool))]
			}
		}
		return strings.TrimSpace(fmt.Sprintf("%d %s", k, joinInts(l)))
	}
	if depth == 0 || g.rng.Intn(3) == 0 {
		switch g.rng.Pick(4, 3, 3) {
		case 0:
			return "in " + ids()
		case 1:
			return "notin " + ids()
		}
		return "eq " + ids()
	}
	k := g.rng.Pick(1, 2, 6, 3)
	parts := make([]string, k)
	for i := range parts {
		parts[i] = g.filter(depth-1, pool)
	}
	op := "and"
	if g.rng.Bool() {
		op = "or"
	}
	return strings.TrimSpace(fmt.Sprintf("%s %d %s", op, k, strings.Join(parts, " ")))
}

func (g *gen) pickName(wantLiving bool) int {
	n := len(g.living)
	if n == 0 {
		return 0
	}
	for try := 0; try < 8; try++ {
		i := g.rng.Intn(n)
		if g.living[i] == wantLiving {
			return i
		}
	}
	return g.rng.Intn(n)
}

func (g *gen) randomCase(maxOps int, malformed bool) {
	r := g.rng
	// registered components: 70..140 (two or three mask words); occasionally few
	nreg := r.Range(70, 140)
	if r.Intn(8) == 0 {
		nreg = r.Range(0, 13)
	}
	g.reg(nreg)
	// id pool: word boundaries, join-collision candidates, a few random ones
	cand := []int{1, 2, 12, 11, 21, 3, 63, 64, 65, 127, 128, 129, 70, 7, 0x40, 100, 10, 110, 111}
	var pool []int
	for _, c := range cand {
		if c >= 1 && c <= g.ncomp {
			pool = append(pool, c)
		}
	}
	for i := 0; i < 4 && g.ncomp > 0; i++ {
		pool = append(pool, r.Range(1, g.ncomp))
	}
	if len(pool) == 0 {
		pool = []int{1}
	}
	// archetype pool: id lists reused by many spawns
	var sets [][]int
	nsets := r.Range(2, 9)
	for i := 0; i < nsets; i++ {
		k := r.Pick(1, 4, 5, 4, 2, 1, 1)
		l := make([]int, 0, k)
		for j := 0; j < k; j++ {
			l = append(l, pool[r.Intn(len(pool))])
		}
		if g.ncomp == 0 {
			l = nil
		}
		sets = append(sets, l)
	}
	if g.ncomp >= 12 {
		sets = append(sets, []int{1, 2}, []int{12}, []int{2, 1})
	}
	n := r.Range(1, maxOps)
	for j := 0; j < n; j++ {
		switch r.Pick(26, 4, 14, 6, 3, 8, 8, 8, 3, 3, 12, 3, 1, 1, 1, 3, 3, 3) {
		case 0:
			ids := sets[r.Intn(len(sets))]
			if r.Intn(6) == 0 { // permuted / duplicated id list
				ids = append([]int{}, ids...)
				if len(ids) > 1 {
					a, b := r.Intn(len(ids)), r.Intn(len(ids))
					ids[a], ids[b] = ids[b], ids[a]
				}
				if len(ids) > 0 && r.Bool() {
					ids = append(ids, ids[r.Intn(len(ids))])
				}
			}
			if malformed && r.Intn(10) == 0 {
				ids = append(append([]int{}, ids...), g.ncomp+r.Range(1, 3)) // unregistered -> bad-op
				g.add("%s", strings.TrimSpace("spawn "+joinInts(ids)))
				continue
			}
			g.spawn(ids, r.Intn(3) != 0)
		case 1:
			k := r.Pick(1, 3, 3, 2, 1)
			if r.Intn(15) == 0 {
				k = r.Range(30, 40) // crosses the 32-entity page of the slot table
			}
			g.spawnN(k, sets[r.Intn(len(sets))], r.Intn(3) == 0)
		case 2:
			g.kill(g.pickName(true))
		case 3: // stale / double annihilation
			g.kill(g.pickName(false))
		case 4:
			k := r.Range(0, 4)
			l := make([]int, k)
			for i := range l {
				l[i] = g.pickName(r.Intn(3) != 0)
				if r.Intn(5) == 0 && i > 0 {
					l[i] = l[i-1]
				}
			}
			if len(g.living) == 0 {
				l = nil
			}
			g.add("%s", strings.TrimSpace("killn "+joinInts(l)))
			for _, x := range l {
				g.living[x] = false
			}
		case 5:
			g.add("alive %d", g.pickName(r.Intn(3) != 0))
		case 6, 7:
			if len(g.living) == 0 {
				continue
			}
			h := g.pickName(r.Intn(6) != 0)
			c := pool[r.Intn(len(pool))]
			if len(g.comps[h]) > 0 && r.Intn(5) != 0 {
				c = g.comps[h][r.Intn(len(g.comps[h]))]
			}
			if r.Bool() {
				g.nextV++
				g.add("write %d %d %d", h, c, g.nextV)
			} else {
				g.add("read %d %d", h, c)
			}
		case 8, 9:
			if len(g.living) == 0 {
				continue
			}
			// Result.Get panics on dead handles and absent columns: mostly living + present
			h := g.pickName(true)
			c := pool[r.Intn(len(pool))]
			if len(g.comps[h]) > 0 && (!malformed || r.Intn(4) != 0) {
				c = g.comps[h][r.Intn(len(g.comps[h]))]
			}
			if malformed && r.Intn(4) == 0 {
				h = g.pickName(false)
			}
			if r.Bool() {
				g.nextV++
				g.add("rwrite %d %d %d", h, c, g.nextV)
			} else {
				g.add("rread %d %d", h, c)
			}
		case 10:
			g.add("query %s", g.filter(3, pool))
		case 11:
			c := pool[r.Intn(len(pool))]
			if malformed && r.Intn(3) == 0 {
				g.add("qiter %d %s", c, g.filter(2, pool))
			} else {
				g.add("qiter %d and 2 in 1 %d %s", c, c, g.filter(2, pool))
			}
		case 15:
			// often a filter that matches exactly one archetype
			if r.Bool() {
				ids := sets[r.Intn(len(sets))]
				g.add("hold eq %s", strings.TrimSpace(fmt.Sprintf("%d %s", len(ids), joinInts(ids))))
			} else {
				g.add("hold %s", g.filter(2, pool))
			}
		case 16:
			g.add("held")
		case 17:
			if len(g.living) == 0 {
				continue
			}
			h := g.pickName(r.Intn(4) != 0)
			ids := g.comps[h]
			if r.Intn(3) != 0 {
				g.add("%s", strings.TrimSpace(fmt.Sprintf("qkill %d eq %d %s", h, len(ids), joinInts(ids))))
			} else {
				g.add("qkill %d %s", h, g.filter(2, pool))
			}
			g.living[h] = false
		case 12:
			if g.ncomp > 0 {
				g.add("rereg %d", r.Range(1, g.ncomp))
			}
		case 13:
			g.reg(1)
			if r.Bool() {
				pool = append(pool, g.ncomp)
			}
		case 14:
			if malformed {
				switch r.Intn(6) {
				case 0:
					g.add("alive0")
				case 1:
					g.add("kill0")
				case 2:
					g.add("alive %d", len(g.living)+r.Intn(3))
				case 3:
					g.add("kill %d", len(g.living)+r.Intn(3))
				case 4:
					g.add("query %s", []string{"and 0", "or 0", "and 1 or 0", "or 1 and 0", "in 2 5 5", "eq 3 1 1 1"}[r.Intn(6)])
				case 5:
					g.add("spawnn 0 %s", joinInts(sets[r.Intn(len(sets))]))
				}
			} else {
				g.add("alive0")
			}
		}
	}
	// closing observation
	for i := 0; i < len(g.living) && i < 40; i++ {
		g.add("alive %d", g.pickName(r.Bool()))
	}
	g.add("query in 0")
	g.add("query eq 0")
	for i := 0; i < 6; i++ {
		g.add("query %s", g.filter(3, pool))
	}
	for i := 0; i < 3; i++ {
		c := pool[r.Intn(len(pool))]
		g.add("qiter %d in 1 %d", c, c)
	}
}

func ecsGen(rng *proto.RNG, tier string, shard, nshards int, w *bufio.Writer) {
	caseNo := 0
	emit := func(lines []string) {
		if caseNo%nshards == shard {
			fmt.Fprintf(w, "# case %d\n", caseNo)
			for _, l := range lines {
				fmt.Fprintln(w, l)
			}
		}
		caseNo++
	}
	// (ii) exhaustive histories of exactly L steps over the given letters (shorter histories are
	// prefixes: every op answers)
	sweep := func(L int, letters []int) {
		idx := make([]int, L)
		for {
			if caseNo%nshards == shard {
				g := &gen{rng: rng}
				g.reg(3)
				for _, a := range idx {
					g.letter(letters[a])
				}
				g.observe3()
				emit(g.lines)
			} else {
				caseNo++
			}
			k := L - 1
			for k >= 0 {
				idx[k]++
				if idx[k] < len(letters) {
					break
				}
				idx[k] = 0
				k--
			}
			if k < 0 {
				break
			}
		}
	}
	all := []int{0, 1, 2, 3, 4, 5, 6, 7, 8}
	core := []int{0, 1, 4, 5, 6, 8} // spawn 1, spawn 1 2, spawnn 2 3, kill 0, kill 1, killn 1 0 1
	if tier == "thorough" {
		sweep(6, all)
		sweep(7, core)
	} else {
		sweep(5, all)
		sweep(6, core)
	}
	// (iii) random structured, (iv) malformed
	nRandom, maxOps := 800, 400
	if tier == "thorough" {
		nRandom, maxOps = 6000, 400
	}
	for i := 0; i < nRandom; i++ {
		g := &gen{rng: rng}
		g.randomCase(maxOps, i%4 == 3)
		emit(g.lines)
	}
}
