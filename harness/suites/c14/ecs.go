package c14

import (
	"fmt"
	"reflect"
	"strconv"
	"strings"

	"github.com/kercylan98/minotaur/engine/ecs"
	"verifharness/internal/proto"
)

// Suite "ecs": a real ecs.World driven by the op language of lean/Oracle/ECS.lean.
//
// Component types: RegComponent identifies a component by reflect.Type, so the k-th registered
// component is the array type [k]int64 (distinct for every k, built with reflect.ArrayOf; no code
// generation needed).  The value of a component is element 0 of the array, read and written through
// the pointer the real API returns.
//
// Handles are named by creation index (h[i] = i-th entity ever returned by Spawn/Spawns); an entity
// is printed as "id.generation".

type ecsRunner struct {
	w     ecs.World
	ncomp int
	h     []ecs.Entity
	held  *ecs.Result // op `hold`: a result kept across later operations
}

func (r *ecsRunner) Reset() {
	r.w = ecs.NewWorld()
	r.ncomp = 0
	r.h = nil
	r.held = nil
}

var int64Type = reflect.TypeOf(int64(0))

func compInstance(k int) any { return reflect.New(reflect.ArrayOf(k, int64Type)).Interface() }

func fmtEntity(e ecs.Entity) string {
	return strconv.FormatUint(uint64(uint32(e)), 10) + "." + strconv.FormatUint(uint64(e)>>32, 10)
}

func nat(s string) (int, bool) {
	v, err := strconv.Atoi(s)
	if err != nil || v < 0 || (len(s) > 0 && (s[0] == '+' || s[0] == '-')) {
		return 0, false
	}
	return v, true
}

func nats(t []string) ([]int, bool) {
	out := make([]int, len(t))
	for i, s := range t {
		v, ok := nat(s)
		if !ok {
			return nil, false
		}
		out[i] = v
	}
	return out, true
}

func compIds(l []int) []ecs.ComponentId {
	out := make([]ecs.ComponentId, len(l))
	for i, v := range l {
		out[i] = ecs.ComponentId(v)
	}
	return out
}

// parseFilter parses one prefix-form filter from t and returns the rest.
func parseFilter(t []string, depth int) (ecs.Query, []string, bool) {
	if len(t) < 2 || depth > 64 {
		return nil, nil, false
	}
	k, ok := nat(t[1])
	if !ok {
		return nil, nil, false
	}
	rest := t[2:]
	switch t[0] {
	case "and", "or":
		qs := make([]ecs.Query, 0, k)
		for i := 0; i < k; i++ {
			q, r, ok := parseFilter(rest, depth+1)
			if !ok {
				return nil, nil, false
			}
			qs = append(qs, q)
			rest = r
		}
		if t[0] == "and" {
			return ecs.And(qs...), rest, true
		}
		return ecs.Or(qs...), rest, true
	case "in", "notin", "eq":
		if len(rest) < k {
			return nil, nil, false
		}
		ids, ok := nats(rest[:k])
		if !ok {
			return nil, nil, false
		}
		rest = rest[k:]
		switch t[0] {
		case "in":
			return ecs.In(compIds(ids)...), rest, true
		case "notin":
			return ecs.NotIn(compIds(ids)...), rest, true
		}
		return ecs.Equal(compIds(ids)...), rest, true
	}
	return nil, nil, false
}

func wholeFilter(t []string) (ecs.Query, bool) {
	q, rest, ok := parseFilter(t, 0)
	if !ok || len(rest) != 0 {
		return nil, false
	}
	return q, true
}

func (r *ecsRunner) valid(ids []int) bool {
	for _, c := range ids {
		if c < 1 || c > r.ncomp {
			return false
		}
	}
	return true
}

// names lists, ascending and with multiplicity, the names of the entities in es.
func (r *ecsRunner) names(es []ecs.Entity) []int {
	cnt := make(map[ecs.Entity]int, len(es))
	for _, e := range es {
		cnt[e]++
	}
	var out []int
	for i, e := range r.h {
		for k := 0; k < cnt[e]; k++ {
			out = append(out, i)
		}
	}
	return out
}

func readPtr(p any) string {
	if p == nil {
		return "nil"
	}
	return strconv.FormatInt(reflect.ValueOf(p).Elem().Index(0).Int(), 10)
}

func writePtr(p any, v int) string {
	if p == nil {
		return "nil"
	}
	reflect.ValueOf(p).Elem().Index(0).SetInt(int64(v))
	return "ok"
}

func (r *ecsRunner) Step(t []string) string {
	n := len(t)
	switch {
	case t[0] == "reg" && n == 1:
		id := r.w.RegComponent(compInstance(r.ncomp + 1))
		r.ncomp++
		return "c" + strconv.FormatUint(uint64(id), 10)
	case t[0] == "rereg" && n == 2:
		k, ok := nat(t[1])
		if !ok {
			return "bad-op"
		}
		if k < 1 || k > r.ncomp {
			return "bad-op"
		}
		return "c" + strconv.FormatUint(uint64(r.w.RegComponent(compInstance(k))), 10)
	case t[0] == "spawn":
		ids, ok := nats(t[1:])
		if !ok || !r.valid(ids) {
			return "bad-op"
		}
		e := r.w.Spawn(compIds(ids)...)
		r.h = append(r.h, e)
		return fmtEntity(e)
	case t[0] == "spawnn" && n >= 2:
		k, ok := nat(t[1])
		ids, ok2 := nats(t[2:])
		if !ok || !ok2 || !r.valid(ids) {
			return "bad-op"
		}
		es := r.w.Spawns(k, compIds(ids)...)
		var sb strings.Builder
		sb.WriteByte('[')
		for i, e := range es {
			if i > 0 {
				sb.WriteByte(' ')
			}
			sb.WriteString(fmtEntity(e))
		}
		sb.WriteByte(']')
		r.h = append(r.h, es...)
		return sb.String()
	case t[0] == "kill" && n == 2:
		h, ok := nat(t[1])
		if !ok || h >= len(r.h) {
			return "bad-op"
		}
		r.w.Annihilate(r.h[h])
		return "ok"
	case t[0] == "killn":
		hs, ok := nats(t[1:])
		if !ok {
			return "bad-op"
		}
		es := make([]ecs.Entity, len(hs))
		for i, h := range hs {
			if h >= len(r.h) {
				return "bad-op"
			}
			es[i] = r.h[h]
		}
		r.w.Annihilates(es)
		return "ok"
	case t[0] == "alive" && n == 2:
		h, ok := nat(t[1])
		if !ok || h >= len(r.h) {
			return "bad-op"
		}
		return strconv.FormatBool(r.w.Alive(r.h[h]))
	case (t[0] == "read" || t[0] == "rread") && n == 3:
		h, ok := nat(t[1])
		c, ok2 := nat(t[2])
		if !ok || !ok2 || h >= len(r.h) {
			return "bad-op"
		}
		if t[0] == "read" {
			return readPtr(r.w.Get(r.h[h], ecs.ComponentId(c)))
		}
		return readPtr(r.w.Query(ecs.In()).Get(r.h[h], ecs.ComponentId(c)))
	case (t[0] == "write" || t[0] == "rwrite") && n == 4:
		h, ok := nat(t[1])
		c, ok2 := nat(t[2])
		v, ok3 := proto.Atoi(t[3])
		if !ok || !ok2 || !ok3 || h >= len(r.h) {
			return "bad-op"
		}
		if t[0] == "write" {
			return writePtr(r.w.Get(r.h[h], ecs.ComponentId(c)), v)
		}
		return writePtr(r.w.Query(ecs.In()).Get(r.h[h], ecs.ComponentId(c)), v)
	case t[0] == "query":
		q, ok := wholeFilter(t[1:])
		if !ok {
			return "bad-op"
		}
		res := r.w.Query(q)
		return fmt.Sprintf("%d %s", res.Count(), proto.FmtInts(r.names(res.Entities())))
	case t[0] == "hold":
		// a query result is a value: it is kept and printed again by `held` after other operations
		q, ok := wholeFilter(t[1:])
		if !ok {
			return "bad-op"
		}
		r.held = r.w.Query(q)
		return fmt.Sprintf("%d %s", r.held.Count(), proto.FmtInts(r.names(r.held.Entities())))
	case t[0] == "held" && n == 1:
		if r.held == nil {
			return "0 []"
		}
		var es []ecs.Entity
		it := r.held.Iterator()
		for it.Next() {
			es = append(es, it.Entity())
		}
		if a, b := proto.FmtInts(r.names(es)), proto.FmtInts(r.names(r.held.Entities())); a != b {
			return fmt.Sprintf("%d %s iterator-differs %s", r.held.Count(), b, a)
		}
		return fmt.Sprintf("%d %s", r.held.Count(), proto.FmtInts(r.names(es)))
	case t[0] == "qkill" && n >= 3:
		// walk a fresh result with Each and annihilate the entity named h at the first visit
		h, ok := nat(t[1])
		q, ok2 := wholeFilter(t[2:])
		if !ok || !ok2 {
			return "bad-op"
		}
		if h >= len(r.h) {
			return "bad-op"
		}
		var es []ecs.Entity
		count := 0
		r.w.QueryF(q, func(res *ecs.Result) {
			count = res.Count()
			first := true
			res.Each(func(e ecs.Entity) bool {
				if first {
					first = false
					r.w.Annihilate(r.h[h])
				}
				es = append(es, e)
				return true
			})
		})
		if count == 0 {
			// nothing was visited: the annihilation still happens (the model composes query and kill)
			r.w.Annihilate(r.h[h])
		}
		return fmt.Sprintf("%d %s", count, proto.FmtInts(r.names(es)))
	case t[0] == "qiter" && n >= 2:
		c, ok := nat(t[1])
		q, ok2 := wholeFilter(t[2:])
		if !ok || !ok2 {
			return "bad-op"
		}
		var es []ecs.Entity
		vals := map[ecs.Entity]string{}
		r.w.QueryF(q, func(res *ecs.Result) {
			it := res.Iterator()
			for it.Next() {
				e := it.Entity()
				es = append(es, e)
				vals[e] = readPtr(it.Get(ecs.ComponentId(c)))
			}
		})
		var sb strings.Builder
		sb.WriteByte('[')
		for i, name := range r.names(es) {
			if i > 0 {
				sb.WriteByte(' ')
			}
			sb.WriteString(strconv.Itoa(name))
			sb.WriteByte(':')
			sb.WriteString(vals[r.h[name]])
		}
		sb.WriteByte(']')
		return sb.String()
	case t[0] == "alive0" && n == 1:
		return strconv.FormatBool(r.w.Alive(ecs.Entity(0)))
	case t[0] == "kill0" && n == 1:
		r.w.Annihilate(ecs.Entity(0))
		return "ok"
	}
	return "bad-op"
}

func init() {
	proto.Register(&proto.Suite{Name: "ecs", Gen: ecsGen, New: func() proto.Runner { r := &ecsRunner{}; r.Reset(); return r }})
}
