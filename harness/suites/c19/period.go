package c19

import (
	"bufio"
	"fmt"
	"strconv"
	"time"

	"github.com/kercylan98/minotaur/toolkit/chrono"
	"verifharness/internal/proto"
)

// Suite `period`: period.go of toolkit/chrono against MV.Model.Chrono (model), the closed-form spec
// and the judge (normalised, window contains anchor, overlap symmetric / = interior intersection).
// Instants are nanoseconds since the Unix epoch, durations nanoseconds; a period prints as `[s soff e eoff]`.

type periodRunner struct{}

func (r *periodRunner) Reset() {}

func fmtPeriod(p chrono.Period) string {
	var o outList
	o.time(p.Start())
	o.time(p.End())
	return o.String()
}

func utcTime(tok string) (time.Time, bool) { return mkTime(tok, "0") }

func (r *periodRunner) Step(t []string) string {
	time.Local = canary
	a := t[1:]
	switch t[0] {
	case "new":
		if len(a) != 4 {
			break
		}
		x, ok := mkTime(a[1], a[0])
		y, ok2 := mkTime(a[3], a[2])
		if !ok || !ok2 {
			break
		}
		if x.Nanosecond()%2 == 0 {
			return fmtPeriod(chrono.NewPeriod(x, y))
		}
		return fmtPeriod(chrono.NewPeriodWithTimeArray([2]time.Time{x, y}))
	case "window":
		if len(a) != 3 {
			break
		}
		x, ok := mkTime(a[1], a[0])
		size, err := strconv.ParseInt(a[2], 10, 64)
		if !ok || err != nil {
			break
		}
		return fmtPeriod(chrono.NewPeriodWindow(x, time.Duration(size)))
	case "windowweek":
		if len(a) != 2 {
			break
		}
		x, ok := mkTime(a[1], a[0])
		if !ok {
			break
		}
		return fmtPeriod(chrono.NewPeriodWindowWeek(x))
	case "with":
		if len(a) != 4 {
			break
		}
		x, ok := mkTime(a[2], a[1])
		n, ok2 := proto.Atoi(a[3])
		if !ok || !ok2 {
			break
		}
		switch a[0] {
		case "dayzero":
			return fmtPeriod(chrono.NewPeriodWithDayZero(x, n))
		case "day":
			return fmtPeriod(chrono.NewPeriodWithDay(x, n))
		case "hour":
			return fmtPeriod(chrono.NewPeriodWithHour(x, n))
		case "minute":
			return fmtPeriod(chrono.NewPeriodWithMinute(x, n))
		case "second":
			return fmtPeriod(chrono.NewPeriodWithSecond(x, n))
		case "ms":
			return fmtPeriod(chrono.NewPeriodWithMillisecond(x, n))
		case "us":
			return fmtPeriod(chrono.NewPeriodWithMicrosecond(x, n))
		case "ns":
			return fmtPeriod(chrono.NewPeriodWithNanosecond(x, n))
		}
	case "pred":
		if len(a) != 3 {
			break
		}
		x, ok := utcTime(a[0])
		y, ok2 := utcTime(a[1])
		z, ok3 := utcTime(a[2])
		if !ok || !ok2 || !ok3 {
			break
		}
		p := chrono.Period{x, y}
		var o outList
		o.bool01(p.IsBefore(z))
		o.bool01(p.IsAfter(z))
		o.bool01(p.IsBetween(z))
		o.bool01(p.IsOngoing(z))
		o.bool01(p.IsBetweenOrEqual(z))
		return o.String()
	case "iboep", "overlap":
		if len(a) != 4 {
			break
		}
		var ts [4]time.Time
		good := true
		for i := range ts {
			var ok bool
			ts[i], ok = utcTime(a[i])
			good = good && ok
		}
		if !good {
			break
		}
		p, q := chrono.Period{ts[0], ts[1]}, chrono.Period{ts[2], ts[3]}
		var o outList
		if t[0] == "iboep" {
			o.bool01(p.IsBetweenOrEqualPeriod(q))
			o.bool01(q.IsBetweenOrEqualPeriod(p))
		} else {
			o.bool01(p.IsOverlap(q))
			o.bool01(q.IsOverlap(p))
		}
		return o.String()
	case "dur":
		if len(a) != 2 {
			break
		}
		x, ok := utcTime(a[0])
		y, ok2 := utcTime(a[1])
		if !ok || !ok2 {
			break
		}
		p := chrono.Period{x, y}
		var o outList
		o.i64(int64(p.Duration()))
		o.int(p.Microseconds())
		o.int(p.Milliseconds())
		o.bool01(p.IsZero())
		o.bool01(p.IsInvalid())
		if p.Nanoseconds() != int(p.Duration()) {
			return "err:nanoseconds"
		}
		return o.String()
	}
	return "bad-op"
}

var windowSizes = []int64{1, 7, 1000, 1000000, 1000000000, 60000000000, 900000000000, 3600000000000, 86400000000000, 604800000000000, 999999937, 90000000000000, 31536000000000000}

func periodGen(rng *proto.RNG, tier string, shard, nshards int, w *bufio.Writer) {
	g := &gen{rng: rng, w: w, shard: shard, nshards: nshards}
	// (ii) exhaustive: all pairs of periods whose endpoints lie on a 7-point lattice (zero-length and
	// reversed periods included), for three lattice steps; all (period, instant) triples
	for _, lat := range [][2]int64{{0, 1}, {1709251200000000000, 1000000000}, {-86400000000000 * 3, 86400000000000}} {
		base, step := lat[0], lat[1]
		at := func(i int) int64 { return base + int64(i)*step }
		for a := 0; a < 7; a++ {
			for b := 0; b < 7; b++ {
				var lines []string
				for c := 0; c < 7; c++ {
					for d := 0; d < 7; d++ {
						lines = append(lines, fmt.Sprintf("overlap %d %d %d %d", at(a), at(b), at(c), at(d)),
							fmt.Sprintf("iboep %d %d %d %d", at(a), at(b), at(c), at(d)))
					}
					lines = append(lines, fmt.Sprintf("pred %d %d %d", at(a), at(b), at(c)))
				}
				lines = append(lines, fmt.Sprintf("new 0 %d 3600 %d", at(a), at(b)), fmt.Sprintf("dur %d %d", at(a), at(b)))
				g.emit(lines)
			}
		}
	}
	// (iii) random structured
	n := 1200
	if tier == "thorough" {
		n = 20000
	}
	zeroT := "-62135596800000000000"
	for i := 0; i < n; i++ {
		D := cycleStart + int64(g.rng.Intn(cycleDays))
		if g.rng.Intn(6) == 0 {
			D = int64(g.rng.Range(-4400000, 4400000))
		}
		tod, nsec := g.randTod()
		off := g.randOff()
		t := instantStr(D, tod, nsec, off)
		var lines []string
		for j := 0; j < 8; j++ {
			switch g.rng.Intn(9) {
			case 0:
				off2 := g.randOff()
				t2 := instantStr(D+int64(g.rng.Range(-3, 3)), int64(g.rng.Intn(86400)), nsec, off2)
				lines = append(lines, fmt.Sprintf("new %d %s %d %s", off, t, off2, t2))
			case 1, 2:
				lines = append(lines, fmt.Sprintf("window %d %s %d", off, t, windowSizes[g.rng.Intn(len(windowSizes))]))
			case 3:
				lines = append(lines, fmt.Sprintf("window %d %s %d", off, t, int64(g.rng.Range(1, 2000000000))*int64(g.rng.Range(1, 5000))))
			case 4:
				lines = append(lines, fmt.Sprintf("windowweek %d %s", off, t))
			case 5, 6:
				kinds := []string{"dayzero", "day", "hour", "minute", "second", "ms", "us", "ns"}
				lines = append(lines, fmt.Sprintf("with %s %d %s %d", kinds[g.rng.Intn(len(kinds))], off, t, g.rng.Range(-1000, 1000)))
			case 7:
				// two periods near each other, endpoints drawn from a few offsets around t (UTC instants)
				if D > 100000 || D < -100000 {
					continue
				}
				base := (D*86400 + tod) * 1000000000
				pick := func() int64 {
					return base + int64(g.rng.Range(-5, 5))*[]int64{1, 1000000000, 3600000000000}[g.rng.Intn(3)]
				}
				a, b, c, d := pick(), pick(), pick(), pick()
				lines = append(lines, fmt.Sprintf("overlap %d %d %d %d", a, b, c, d), fmt.Sprintf("iboep %d %d %d %d", a, b, c, d),
					fmt.Sprintf("pred %d %d %d", a, b, c), fmt.Sprintf("dur %d %d", a, b))
			case 8:
				// durations: zero time, far apart (Sub saturates beyond ±292 years)
				far := instantStr(D+int64(g.rng.Range(-250000, 250000)), 0, 0, 0)
				lines = append(lines, fmt.Sprintf("dur %s %s", t, far), fmt.Sprintf("dur %s %s", zeroT, []string{zeroT, t}[g.rng.Intn(2)]), fmt.Sprintf("dur %s %s", t, zeroT))
			}
		}
		g.emit(lines)
	}
	// malformed: zero and negative window sizes, reversed raw periods are covered by the lattice
	nm := 200
	if tier == "thorough" {
		nm = 2000
	}
	for i := 0; i < nm; i++ {
		D := cycleStart + int64(g.rng.Intn(cycleDays))
		tod, nsec := g.randTod()
		off := g.randOff()
		t := instantStr(D, tod, nsec, off)
		size := []int64{0, -1, -1000000000, -86400000000000, -604800000000000}[g.rng.Intn(5)]
		if g.rng.Intn(3) == 0 {
			size = -int64(g.rng.Range(1, 2000000000))
		}
		g.emit([]string{fmt.Sprintf("window %d %s %d", off, t, size)})
	}
}

func init() {
	proto.Register(&proto.Suite{Name: "period", Gen: periodGen, New: func() proto.Runner { return &periodRunner{} }})
}
